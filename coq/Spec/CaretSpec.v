(* Spec/CaretSpec.v -- what C17 requires of a rendered error, written from the property text
   only (no reference to how errors.go computes it), as a decidable predicate so that the same
   definition is (a) the conclusion of the theorems in Properties/C17.v and (b) the verdict the
   correspondence evaluates on the implementation's own output (Corr/C17.v).

   A rendering consists of a first line [line1] and a caret line made of [c] blanks followed
   by "^--".  The caller prints [pad] characters (a prompt) in front of the first line only, so
   the caret is under column [c - pad] of [line1].

   [caret_ok q pos pad line1 c] :  line1 = pre ++ w ++ suf  where
     - w is a stretch of the whitespace-trimmed query, at most 70 bytes, starting at offset
       [off] of the trimmed query; pre is "... " exactly when off > 0 and suf is " ..."
       exactly when the stretch ends before the end of the trimmed query;
     - the caret column, counted inside w, is the position: off + col = p, where p is the
       offset [pos] translated into the trimmed query (p = its length when pos = -1:
       end of input, the caret is then one past the last shown byte);
     - the stretch surrounds the position: it shows min(p,35) bytes before it and
       min(n-p,35) bytes from it on, and the whole trimmed query when that has <= 70 bytes. *)
From Coq Require Import String Ascii ZArith NArith List Bool.
From KV Require Import Model.ErrRender.
Import ListNotations.
Local Open Scope string_scope.
Local Open Scope Z_scope.

(* remove a known prefix / suffix *)
Definition strip_pre (pre s : string) : option string :=
  let k := String.length pre in
  if String.eqb (String.substring 0 k s) pre
  then Some (String.substring k (String.length s - k)%nat s) else None.

Definition strip_suf (suf s : string) : option string :=
  let k := String.length suf in
  let m := (String.length s - k)%nat in
  if (k <=? String.length s)%nat && String.eqb (String.substring m k s) suf
  then Some (String.substring 0 m s) else None.

Definition strip_both (pre suf s : string) : option string :=
  match strip_pre pre s with
  | Some s1 => strip_suf suf s1
  | None => None
  end.

(* number of leading white-space bytes of the query *)
Definition lead_blanks (q : string) : Z := zlen q - zlen (trim_left q).

(* the position inside the trimmed query *)
Definition trimmed_pos (q : string) (pos : Z) : Z :=
  if pos =? -1 then zlen (trim_space q) else pos - lead_blanks q.

Definition caret_ok_with (q : string) (pos pad : Z) (line1 : string) (c : Z)
                         (hasl hasr : bool) : bool :=
  let tq := trim_space q in
  let n := zlen tq in
  let p := trimmed_pos q pos in
  let pre := if hasl then "... " else "" in
  let suf := if hasr then " ..." else "" in
  match strip_both pre suf line1 with
  | None => false
  | Some w =>
      let col := c - pad - zlen pre in
      let off := p - col in
      (0 <=? col) && (col <=? zlen w) && (0 <=? off) && (off + zlen w <=? n)
      && String.eqb w (String.substring (Z.to_nat off) (String.length w) tq)
      && Bool.eqb hasl (0 <? off) && Bool.eqb hasr (off + zlen w <? n)
      && (zlen w <=? 70)
      && (Z.min p 35 <=? col) && (Z.min (n - p) 35 <=? zlen w - col)
      && ((70 <? n) || (zlen w =? n))
  end.

Definition caret_ok (q : string) (pos pad : Z) (line1 : string) (c : Z) : bool :=
  caret_ok_with q pos pad line1 c false false || caret_ok_with q pos pad line1 c false true
  || caret_ok_with q pos pad line1 c true false || caret_ok_with q pos pad line1 c true true.

(* the byte at an offset *)
Definition byte_at (q : string) (pos : Z) : option ascii :=
  if pos <? 0 then None else String.get (Z.to_nat pos) q.

Definition nonblank_at (q : string) (pos : Z) : bool :=
  match byte_at q pos with
  | Some a => negb (is_space a)
  | None => false
  end.

(* positions the property speaks about: end of input, or an offset of a non-blank byte *)
Definition caret_applies (q : string) (pos pad : Z) : bool :=
  (0 <=? pad) && ((pos =? -1) || nonblank_at q pos).

(* "-1 or a byte offset inside the query text" *)
Definition pos_in_query (q : string) (pos : Z) : bool :=
  (pos =? -1) || ((0 <=? pos) && (pos <? zlen q)).

(* "0 or the start of one of the query's tokens" (or -1) *)
Definition pos_is_token_start (starts : list Z) (pos : Z) : bool :=
  (pos =? -1) || (pos =? 0) || existsb (Z.eqb pos) starts.
