(* Spec/Group.v -- reference semantics of GROUP BY and of the aggregate functions, written from
   README.md / spec.md only: no plans, no maps, no accumulators.

     * grouping   = partition of the scanned pairs by equality of their tuples of GROUP BY
                    values; groups in the order of their first pair, members in scan order;
     * aggregates = folds over the members of one group, in scan order.

   Floats are an abstract type with operations and NO assumed laws (Section Aggr); every
   statement made over it holds for IEEE binary64 in particular. *)
From Coq Require Import List String Ascii ZArith Bool Decimal DecimalString DecimalZ.
From KV Require Import Base.Bytes.
Import ListNotations.

Set Implicit Arguments.

(* ------------------------------------------------------------------ grouping *)
Section GroupBy.
Variables (A K : Type).
Variable keqb : K -> K -> bool.          (* equality of group keys (value tuples) *)
Variable key : A -> K.

Definition kmem (k : K) (l : list K) : bool := existsb (keqb k) l.

(* scan left to right, keep a key iff it was not kept before *)
Definition keep (acc : list K) (k : K) : list K := if kmem k acc then acc else acc ++ [k].
Definition distinct (ks : list K) : list K := fold_left keep ks [].

(* the members of the group of [k], in scan order *)
Definition members (k : K) (l : list A) : list A := filter (fun a => keqb (key a) k) l.

(* the partition: one member list per distinct key, in first-occurrence order *)
Definition group_keys (l : list A) : list K := distinct (map key l).
Definition groups (l : list A) : list (list A) := map (fun k => members k l) (group_keys l).
End GroupBy.

(* ------------------------------------------------------------------ integers *)
Definition wrap64 (z : Z) : Z := ((z + 2 ^ 63) mod 2 ^ 64 - 2 ^ 63)%Z.   (* int64 arithmetic *)

(* decimal text of an integer: "0", "17", "-5" *)
Definition dec (z : Z) : bytes := NilZero.string_of_int (Z.to_int z).

Definition zsum (l : list Z) : Z := fold_left Z.add l 0%Z.

(* strings.Join *)
Fixpoint join (sep : bytes) (l : list bytes) : bytes :=
  match l with
  | [] => EmptyString
  | [x] => x
  | x :: l' => (x ++ sep ++ join sep l')%string
  end.

Fixpoint seq_opt {X} (l : list (option X)) : option (list X) :=
  match l with
  | [] => Some []
  | None :: _ => None
  | Some x :: l' => match seq_opt l' with Some r => Some (x :: r) | None => None end
  end.

(* ------------------------------------------------------------------ values and aggregates *)
Section Aggr.
Variable F : Type.                       (* float64 *)
Variable fadd fsub fmul fdiv : F -> F -> F.
Variable fltb : F -> F -> bool.          (* a < b *)
Variable fis0 : F -> bool.               (* a == 0.0 *)
Variable of_Z : Z -> F.                  (* float64(int64) *)
Variable to_Z : F -> Z.                  (* int64(float64): truncation *)
Variable fmt_f : F -> bytes.             (* fmt "%f" *)
Variable json_f : F -> option bytes.     (* encoding/json of a float64; None = not encodable *)
Variable parse_f : bytes -> option F.    (* strconv.ParseFloat; None = not a number *)
Variable parse_i : bytes -> option Z.    (* strconv.ParseInt(s, 10, 64) *)
Variable json_s : bytes -> bytes.        (* encoding/json of a string *)

(* what an expression can evaluate to per pair (projected: lists and JSON objects are
   rejected by GROUP BY and are not part of the property's domain) *)
Inductive value :=
  | VBytes (s : bytes) | VStr (s : bytes) | VInt (z : Z) | VFlt (f : F) | VBool (b : bool) | VNil.

(* equality of values as the property sees them: text as bytes (string and []byte identified),
   integers, floats by [feqb] (their bits), booleans *)
Definition value_eqb (feqb : F -> F -> bool) (a b : value) : bool :=
  match a, b with
  | VBytes s, VBytes t | VBytes s, VStr t | VStr s, VBytes t | VStr s, VStr t => String.eqb s t
  | VInt x, VInt y => Z.eqb x y
  | VFlt x, VFlt y => feqb x y
  | VBool x, VBool y => Bool.eqb x y
  | VNil, VNil => true
  | _, _ => false
  end.

(* a value as a number: integer or float *)
Inductive num := NInt (z : Z) | NFlt (f : F).

Definition num_of_text (s : bytes) : num :=
  match parse_i s with
  | Some z => NInt z
  | None => match parse_f s with Some f => NFlt f | None => NInt 0 end
  end.

Definition num_of (v : value) : num :=
  match v with
  | VBytes s | VStr s => num_of_text s
  | VInt z => NInt z
  | VFlt f => NFlt f
  | VBool true => NInt 1
  | VBool false => NInt 0
  | VNil => NInt 0
  end.

Definition is_int (n : num) : bool := match n with NInt _ => true | NFlt _ => false end.
Definition as_float (n : num) : F := match n with NInt z => of_Z z | NFlt f => f end.
Definition as_int (n : num) : Z := match n with NInt z => z | NFlt f => to_Z f end.
Definition value_of_num (n : num) : value := match n with NInt z => VInt z | NFlt f => VFlt f end.

(* text of a value: how it is shown as a group value and inside group_concat *)
Definition text_of (v : value) : bytes :=
  match v with
  | VBytes s | VStr s => s
  | VInt z => dec z
  | VFlt f => fmt_f f
  | VBool true => "true"
  | VBool false => "false"
  | VNil => EmptyString
  end%string.
Definition concat_text_of (v : value) : bytes :=
  match v with VNil => "<nil>"%string | _ => text_of v end.

(* count *)
Definition spec_count (l : list value) : value := VInt (wrap64 (Z.of_nat (List.length l))).

(* sum: the integer sum when every argument is an integer, the float sum in scan order
   (starting from 0.0) otherwise *)
Definition spec_sum_num (l : list num) : num :=
  if forallb is_int l then NInt (wrap64 (zsum (map as_int l)))
  else NFlt (fold_left fadd (map as_float l) (of_Z 0)).
Definition spec_sum (l : list value) : value := value_of_num (spec_sum_num (map num_of l)).

(* avg = sum / count, as a float *)
Definition spec_avg (l : list value) : value :=
  VFlt (fdiv (as_float (spec_sum_num (map num_of l))) (of_Z (wrap64 (Z.of_nat (List.length l))))).

(* min / max: integers are compared as integers, anything involving a float as floats; the
   first of several equal extremes wins *)
Definition num_ltb (a b : num) : bool :=
  match a, b with
  | NInt x, NInt y => (x <? y)%Z
  | _, _ => fltb (as_float a) (as_float b)
  end.
Definition pick_min (m x : num) : num := if num_ltb x m then x else m.
Definition pick_max (m x : num) : num := if num_ltb m x then x else m.
Definition spec_min (l : list value) : value :=
  match map num_of l with
  | [] => VInt 0
  | x :: r => value_of_num (fold_left pick_min r x)
  end.
Definition spec_max (l : list value) : value :=
  match map num_of l with
  | [] => VInt 0
  | x :: r => value_of_num (fold_left pick_max r x)
  end.

(* group_concat(x, sep) *)
Definition spec_group_concat (sep : bytes) (l : list value) : value :=
  VStr (join sep (map concat_text_of l)).

(* json_arrayagg(x): a JSON array of numbers, booleans and strings *)
Definition json_of (v : value) : option bytes :=
  match v with
  | VInt z => Some (dec z)
  | VFlt f => json_f f
  | VBool true => Some "true"%string
  | VBool false => Some "false"%string
  | VBytes s | VStr s => Some (json_s s)
  | VNil => Some (json_s "<nil>"%string)
  end.
Definition spec_json_arrayagg (l : list value) : option value :=
  match seq_opt (map json_of l) with
  | Some items => Some (VStr ("[" ++ join "," items ++ "]")%string)
  | None => None
  end.

(* arithmetic on aggregate results: integer arithmetic (int64) when both operands are
   integers, float arithmetic otherwise; x / 0 is an error *)
Inductive arith := Plus | Minus | Times | Divide.

Definition numeric (v : value) : option num :=
  match v with VInt z => Some (NInt z) | VFlt f => Some (NFlt f) | _ => None end.

Definition spec_arith (o : arith) (a b : value) : option value :=
  match numeric a, numeric b with
  | Some (NInt x), Some (NInt y) =>
      match o with
      | Plus => Some (VInt (wrap64 (x + y)))
      | Minus => Some (VInt (wrap64 (x - y)))
      | Times => Some (VInt (wrap64 (x * y)))
      | Divide => if (y =? 0)%Z then None else Some (VInt (wrap64 (Z.quot x y)))
      end
  | Some na, Some nb =>
      let x := as_float na in
      let y := as_float nb in
      match o with
      | Plus => Some (VFlt (fadd x y))
      | Minus => Some (VFlt (fsub x y))
      | Times => Some (VFlt (fmul x y))
      | Divide => if fis0 y then None else Some (VFlt (fdiv x y))
      end
  | _, _ => None
  end.

(* ------------------------------------------------------------------ aggregate statements *)

(* the aggregate functions of the property (quantile is not among them) *)
Inductive afun := ACount | ASum | AAvg | AMin | AMax | AJsonArrayAgg | AGroupConcat (sep : bytes).

(* what was evaluated on one scanned pair that passed WHERE (expression evaluation is not
   part of this property) *)
Record pobs := PObs {
  p_g : list value;     (* values of the GROUP BY expressions *)
  p_k : list value;     (* values of the non-aggregate select fields *)
  p_a : list value      (* values of the arguments of the aggregate calls *)
}.

Record call := Call { c_fun : afun; c_arg : nat }.       (* c_arg: index into p_a *)

(* a select field that contains aggregate calls: numbers, the i-th aggregate call of the
   field, binary arithmetic *)
Inductive aexpr :=
  | AEInt (z : Z) | AEFlt (f : F) | AECall (i : nat) | AEBin (op : arith) (l r : aexpr).

(* a select field: a non-aggregate expression (index into p_k), or an aggregate expression *)
Inductive field := FKey (k : nat) | FAgg (e : aexpr) (calls : list call).

Record plan := Plan {
  pl_all : bool;                (* no GROUP BY: one group for all pairs *)
  pl_fields : list field;
  pl_start : nat;               (* LIMIT start, count *)
  pl_limit : option nat
}.

Definition spec_call (g : list pobs) (c : call) : option value :=
  let args := map (fun o => nth (c_arg c) (p_a o) VNil) g in
  match c_fun c with
  | ACount => Some (spec_count args)
  | ASum => Some (spec_sum args)
  | AAvg => Some (spec_avg args)
  | AMin => Some (spec_min args)
  | AMax => Some (spec_max args)
  | AJsonArrayAgg => spec_json_arrayagg args
  | AGroupConcat sep => Some (spec_group_concat sep args)
  end.

(* the expression with the aggregate values substituted *)
Fixpoint spec_eval (e : aexpr) (results : list value) : option value :=
  match e with
  | AEInt z => Some (VInt z)
  | AEFlt f => Some (VFlt f)
  | AECall i => nth_error results i
  | AEBin op l r =>
      match spec_eval l results, spec_eval r results with
      | Some a, Some b => spec_arith op a b
      | _, _ => None
      end
  end.

(* one result row from one group [g] (non-empty): non-aggregate fields show the value on the
   group's first pair, as text *)
Definition spec_field (g : list pobs) (f : field) : option value :=
  match f with
  | FKey k => match g with
              | [] => None
              | o :: _ => Some (VBytes (text_of (nth k (p_k o) VNil)))
              end
  | FAgg e calls =>
      match seq_opt (map (spec_call g) calls) with
      | Some results => spec_eval e results
      | None => None
      end
  end.
Definition spec_row (p : plan) (g : list pobs) : option (list value) :=
  seq_opt (map (spec_field g) (pl_fields p)).

(* the whole statement: None = it fails (x / 0, unencodable float) *)
Variable veqb : value -> value -> bool.     (* equality of GROUP BY values *)
Definition tuple_eqb (a b : list value) : bool := list_eqb veqb a b.
Definition spec_tuple (p : plan) (o : pobs) : list value := if pl_all p then [] else p_g o.
Definition spec_groups (p : plan) (pairs : list pobs) : list (list pobs) :=
  groups tuple_eqb (spec_tuple p) pairs.
Definition spec_rows (p : plan) (pairs : list pobs) : option (list (list value)) :=
  seq_opt (map (spec_row p) (spec_groups p pairs)).
Definition spec_result (p : plan) (pairs : list pobs) : option (list (list value)) :=
  match spec_rows p pairs with
  | None => None
  | Some rows => match pl_limit p with
                 | None => Some rows
                 | Some n => Some (firstn n (skipn (pl_start p) rows))
                 end
  end.

End Aggr.

Arguments VBytes {F} s.
Arguments VStr {F} s.
Arguments VInt {F} z.
Arguments VFlt {F} f.
Arguments VBool {F} b.
Arguments VNil {F}.
Arguments NInt {F} z.
Arguments NFlt {F} f.
Arguments AEInt {F} z.
Arguments AECall {F} i.
Arguments FKey {F} k.
Arguments Plan {F} pl_all pl_fields pl_start pl_limit.
