(* Spec/GroupLazy.v -- the reference result of an aggregate statement whose LIMIT was pushed into
   the AggregatePlan, for an implementation that computes a group's row only when the row is
   asked for (written from README.md / spec.md and Spec/Group.v only).

   Spec/Group.v [spec_result] fails when ANY group's row is undefined (x / 0, an unencodable
   float), also a group the LIMIT cuts away.  [spec_result_lazy] is the same slice of the same
   rows, and fails only when one of the first start + count groups -- the skipped ones and the
   returned ones -- is undefined.  Without a LIMIT the two coincide; wherever [spec_result]
   defines a result [spec_result_lazy] defines the same one (Proofs/AggregateLazyProofs.v
   [spec_result_lazy_refines]). *)
From Coq Require Import List String ZArith Bool.
From KV Require Import Base.Bytes Spec.Group.
Import ListNotations.

Set Implicit Arguments.

Section AggrLazy.
Variable F : Type.
Variable fadd fsub fmul fdiv : F -> F -> F.
Variable fltb : F -> F -> bool.
Variable fis0 : F -> bool.
Variable of_Z : Z -> F.
Variable to_Z : F -> Z.
Variable fmt_f : F -> bytes.
Variable json_f : F -> option bytes.
Variable parse_f : bytes -> option F.
Variable parse_i : bytes -> option Z.
Variable json_s : bytes -> bytes.
Variable veqb : value F -> value F -> bool.

Definition spec_result_lazy (p : plan F) (pairs : list (pobs F)) : option (list (list (value F))) :=
  match pl_limit p with
  | None => spec_rows fadd fsub fmul fdiv fltb fis0 of_Z to_Z fmt_f json_f parse_f parse_i json_s veqb p pairs
  | Some n =>
      match seq_opt (map (spec_row fadd fsub fmul fdiv fltb fis0 of_Z to_Z fmt_f json_f parse_f parse_i json_s p)
                         (firstn (pl_start p + n) (spec_groups veqb p pairs))) with
      | Some rows => Some (skipn (pl_start p) rows)
      | None => None
      end
  end.

End AggrLazy.
