(* Spec/KeySem.v -- reference semantics (from the README's operator table) of the predicate
   fragment that can constrain the key: comparisons, prefix test, IN and BETWEEN whose operands
   are key, value or string literals, combined with AND / OR / NOT and Boolean literals.
   Every other expression is opaque: its truth value on the pair at hand is given by the
   oracle [opq] (None = does not evaluate), over which the theorems quantify. *)
From Coq Require Import List String Bool.
Import ListNotations.
From KV Require Import Base.Bytes Model.Ast.

Section KeySem.
Variable opq : expr -> option bool.
Variables k v : bytes.

Definition operand (e : expr) : option bytes :=
  match e with
  | EField _ KeyKW => Some k
  | EField _ ValueKW => Some v
  | EStr _ s => Some s
  | _ => None
  end.

Fixpoint operands (l : list expr) : option (list bytes) :=
  match l with
  | [] => Some []
  | e :: l' => match operand e, operands l' with
               | Some b, Some bs => Some (b :: bs)
               | _, _ => None
               end
  end.

Definition cmp2 (e l r : expr) (f : bytes -> bytes -> bool) : option bool :=
  match operand l, operand r with
  | Some a, Some b => Some (f a b)
  | _, _ => opq e
  end.

Fixpoint psem (e : expr) : option bool :=
  match e with
  | EBool _ b => Some b
  | ENot _ r => option_map negb (psem r)
  | EBin _ o l r =>
      match o with
      | OAnd | OKWAnd =>            (* left first; the right side only if the left is true *)
          match psem l with
          | Some true => psem r
          | Some false => Some false
          | None => None
          end
      | OOr | OKWOr =>
          match psem l with
          | Some true => Some true
          | Some false => psem r
          | None => None
          end
      | OEq => cmp2 e l r String.eqb
      | ONotEq => cmp2 e l r (fun a b => negb (String.eqb a b))
      | OPrefixMatch => cmp2 e l r (fun a b => has_prefix b a)      (* a starts with b *)
      | OGt => cmp2 e l r (fun a b => bltb b a)
      | OGte => cmp2 e l r (fun a b => bleb b a)
      | OLt => cmp2 e l r (fun a b => bltb a b)
      | OLte => cmp2 e l r (fun a b => bleb a b)
      | OIn =>
          match operand l, r with
          | Some a, EList _ items =>
              match operands items with
              | Some bs => Some (existsb (String.eqb a) bs)
              | None => opq e
              end
          | _, _ => opq e
          end
      | OBetween =>
          match operand l, r with
          | Some a, EList _ [lo; hi] =>
              match operand lo, operand hi with
              | Some x, Some y =>
                  if bltb x y then Some (bleb x a && bleb a y)
                  else None             (* lower bound not below the upper bound: an error *)
              | _, _ => opq e
              end
          | _, _ => opq e
          end
      | _ => opq e
      end
  | _ => opq e
  end.

End KeySem.
