(* Spec/LexSpec.v -- what C16 requires of a token list, independent of how the lexer works.

   1. [tok_ok q t]: the token reports the byte offset at which its text begins in [q] and
      carries exactly that text: a symbol verbatim (and a one-character ! < > ^ ~ is not
      directly followed by =, i.e. a two-character operator is one token); a quoted literal
      lies between two equal quote bytes that do not occur inside, content byte for byte; a word
      is the ASCII-lower-cased text and its kind is a function of that text.
   2. [tiles q ts]: tokens are in source order, their spans do not overlap, and every byte
      that belongs to no token is a blank.
   3. lexemes, their rendering with a chosen spacing, and the tokens expected from it
      ([render], [expected]); [admissible] demands a blank only where two neighbours would
      fuse into a different lexeme (word.word, and one of ! < > ^ ~ directly before =).

   Boolean versions ([..._b]) are what Corr/C16.v evaluates on the implementation's output. *)
From Coq Require Import String Ascii List Bool Arith.
From KV Require Import Base.Bytes Model.Token Model.Lexer.
Import ListNotations.
Local Open Scope string_scope.

(* ------------------------------------------------------------------ symbols *)

Definition sym_table : list (string * toktype) :=
  [ ("!", OPERATOR); ("*", OPERATOR); ("+", OPERATOR); ("-", OPERATOR); ("/", OPERATOR);
    (">", OPERATOR); ("<", OPERATOR); ("=", OPERATOR); ("^", OPERATOR); ("~", OPERATOR);
    ("^=", OPERATOR); ("~=", OPERATOR); ("!=", OPERATOR); ("<=", OPERATOR); (">=", OPERATOR);
    ("&", OPERATOR); ("|", OPERATOR); ("(", LPAREN); (")", RPAREN); ("[", LBRACK);
    ("]", RBRACK); (",", SEP); (";", SEMI) ].

Fixpoint sym_lookup (s : string) (l : list (string * toktype)) : option toktype :=
  match l with
  | [] => None
  | (k, t) :: l' => if s =? k then Some t else sym_lookup s l'
  end.

Definition sym_kind (s : string) : option toktype := sym_lookup s sym_table.

(* the one-character operators that are the first byte of a two-character operator *)
Definition eq_prefix_char (c : ascii) : bool :=
  match c with
  | "!"%char | "<"%char | ">"%char | "^"%char | "~"%char => true
  | _ => false
  end.
Definition eq_prefix_sym (s : string) : bool :=
  match s with
  | String c EmptyString => eq_prefix_char c
  | _ => false
  end.

Definition is_eq_char (c : ascii) : bool := Ascii.eqb c "="%char.

(* ------------------------------------------------------------------ per-token requirement *)

Definition quote_for (t : toktype) (c : ascii) : bool :=
  match t with
  | STRING => Ascii.eqb c "'"%char || Ascii.eqb c """"%char
  | NAME => Ascii.eqb c "`"%char
  | _ => false
  end.

Definition occurs (c : ascii) (s : string) : bool := sexists (Ascii.eqb c) s.

Definition symbol_ok (q : string) (t : token) : Prop :=
  sym_kind (data t) = Some (tp t) /\
  substring (pos t) (String.length (data t)) q = data t /\
  (eq_prefix_sym (data t) = true ->
   forall c, get (S (pos t)) q = Some c -> is_eq_char c = false).

Definition quoted_ok (q : string) (t : token) : Prop :=
  exists c, quote_for (tp t) c = true /\
            get (pos t) q = Some c /\
            substring (S (pos t)) (String.length (data t)) q = data t /\
            get (S (pos t) + String.length (data t)) q = Some c /\
            occurs c (data t) = false.

Definition word_ok (q : string) (t : token) : Prop :=
  data t <> "" /\
  to_lower (substring (pos t) (String.length (data t)) q) = data t /\
  tp t = word_kind (data t).

Definition tok_ok (q : string) (t : token) : Prop :=
  symbol_ok q t \/ quoted_ok q t \/ word_ok q t.

(* Boolean versions *)
Definition opt_ascii_eqb (o : option ascii) (c : ascii) : bool :=
  match o with Some d => Ascii.eqb d c | None => false end.

Definition symbol_ok_b (q : string) (t : token) : bool :=
  match sym_kind (data t) with
  | Some k => toktype_eqb k (tp t)
  | None => false
  end &&
  (substring (pos t) (String.length (data t)) q =? data t) &&
  (negb (eq_prefix_sym (data t)) ||
   match get (S (pos t)) q with Some c => negb (is_eq_char c) | None => true end).

Definition quoted_with_b (q : string) (t : token) (c : ascii) : bool :=
  quote_for (tp t) c &&
  opt_ascii_eqb (get (pos t) q) c &&
  (substring (S (pos t)) (String.length (data t)) q =? data t) &&
  opt_ascii_eqb (get (S (pos t) + String.length (data t)) q) c &&
  negb (occurs c (data t)).

Definition quoted_ok_b (q : string) (t : token) : bool :=
  match get (pos t) q with
  | Some c => quoted_with_b q t c
  | None => false
  end.

Definition word_ok_b (q : string) (t : token) : bool :=
  negb (data t =? "") &&
  (to_lower (substring (pos t) (String.length (data t)) q) =? data t) &&
  toktype_eqb (tp t) (word_kind (data t)).

Definition tok_ok_b (q : string) (t : token) : bool :=
  symbol_ok_b q t || quoted_ok_b q t || word_ok_b q t.

(* ------------------------------------------------------------------ spans and tiling *)

(* number of bytes of the query a token stands for: quoted literals include their quotes *)
Definition tok_width (q : string) (t : token) : nat :=
  if quoted_ok_b q t then 2 + String.length (data t) else String.length (data t).

Definition tok_end (q : string) (t : token) : nat := pos t + tok_width q t.

(* the bytes q[a..b) are blanks *)
Definition blank_between (q : string) (a b : nat) : bool :=
  sforall is_space (substring a (b - a) q).

(* tokens in order, non-overlapping, only blanks in between, starting the scan at offset [from] *)
Fixpoint tiles_from (q : string) (from : nat) (ts : list token) : bool :=
  match ts with
  | [] => blank_between q from (String.length q)
  | t :: ts' =>
      Nat.leb from (pos t) && blank_between q from (pos t) &&
      Nat.leb (tok_end q t) (String.length q) && tiles_from q (tok_end q t) ts'
  end.
Definition tiles (q : string) (ts : list token) : bool := tiles_from q 0 ts.

(* positions strictly increase and spans do not overlap *)
Fixpoint ordered_from (q : string) (from : nat) (ts : list token) : bool :=
  match ts with
  | [] => true
  | t :: ts' => Nat.leb from (pos t) && Nat.ltb (pos t) (tok_end q t) && ordered_from q (tok_end q t) ts'
  end.

(* ------------------------------------------------------------------ lexemes and spacing *)

Inductive lexeme :=
  | LWord (w : string)                    (* keyword, name, number *)
  | LQuote (c : ascii) (body : string)    (* 'body'  "body"  `body` *)
  | LSym (s : string).                    (* operator or punctuation *)

Definition lexeme_text (l : lexeme) : string :=
  match l with
  | LWord w => w
  | LQuote c b => String c (b ++ str1 c)
  | LSym s => s
  end.

Definition word_char (c : ascii) : bool :=
  match char_class true c with CDefault => true | _ => false end.

Definition is_quote_char (c : ascii) : bool :=
  Ascii.eqb c "'"%char || Ascii.eqb c """"%char || Ascii.eqb c "`"%char.

Definition valid_lexeme (l : lexeme) : bool :=
  match l with
  | LWord w => negb (w =? "") && sforall word_char w
  | LQuote c b => is_quote_char c && negb (occurs c b)
  | LSym s => match sym_kind s with Some _ => true | None => false end
  end.

Definition quote_tp (c : ascii) : toktype := if Ascii.eqb c "`"%char then NAME else STRING.

Definition sym_tp (s : string) : toktype :=
  match sym_kind s with Some t => t | None => OPERATOR end.

(* the token a lexeme written at offset [p] must produce *)
Definition lexeme_token (l : lexeme) (p : nat) : token :=
  match l with
  | LWord w => Tok (word_kind (to_lower w)) (to_lower w) p
  | LQuote c b => Tok (quote_tp c) b p
  | LSym s => Tok (sym_tp s) s p
  end.

(* a query text: each lexeme preceded by its gap, then a trailing gap *)
Definition item := (string * lexeme)%type.

Fixpoint render (items : list item) (tail : string) : string :=
  match items with
  | [] => tail
  | (g, l) :: r => g ++ lexeme_text l ++ render r tail
  end.

Fixpoint expected (items : list item) (p : nat) : list token :=
  match items with
  | [] => []
  | (g, l) :: r =>
      lexeme_token l (p + String.length g)
      :: expected r (p + String.length g + String.length (lexeme_text l))
  end.

Definition gap_ok (g : string) : bool := sforall is_space g.

(* two lexemes that must be kept apart: written without a blank they read as something else *)
Definition fuses (a b : lexeme) : bool :=
  match a, b with
  | LWord _, LWord _ => true
  | LSym s, LSym "=" => eq_prefix_sym s
  | _, _ => false
  end.

Fixpoint admissible_from (prev : option lexeme) (items : list item) : bool :=
  match items with
  | [] => true
  | (g, l) :: r =>
      gap_ok g && valid_lexeme l &&
      match prev with
      | Some a => negb ((g =? "") && fuses a l)
      | None => true
      end &&
      admissible_from (Some l) r
  end.

Definition admissible (items : list item) (tail : string) : bool :=
  admissible_from None items && gap_ok tail.

Definition lexemes_of (items : list item) : list lexeme := map snd items.

(* kinds and texts of a lexeme sequence: what no admissible spacing may change *)
Definition lexeme_kind_text (l : lexeme) : toktype * string := kind_text (lexeme_token l 0).

(* ------------------------------------------------------------------ tokens tile the query *)

(* last byte (0 for the empty string): the Go variable [prev] *)
Fixpoint last_char (s : string) : ascii :=
  match s with
  | EmptyString => zero_char
  | String c EmptyString => c
  | String _ s' => last_char s'
  end.

(* [covers txt t]: [txt] is the query text that token [t] stands for *)
Inductive covers : string -> token -> Prop :=
  | cov_sym : forall s k p, sym_kind s = Some k -> covers s (Tok k s p)
  | cov_quote : forall c b k p, quote_for k c = true -> occurs c b = false ->
      covers (String c (b ++ str1 c)) (Tok k b p)
  | cov_word : forall x p, x <> "" -> covers x (Tok (word_kind (to_lower x)) (to_lower x) p).

(* a token text that ends with one of ! < > ^ ~ is not directly followed by = in [q] *)
Definition no_fuse (q e : string) : Prop :=
  eq_prefix_char (last_char e) = true -> forall r, q <> e ++ String "="%char r.

(* [tiling q s ts]: the prefix [s] of the query is  g0 text1 g1 text2 ... textn gn  where every
   gi consists of blanks only, texti is the text that token i stands for, and token i reports
   the offset at which texti begins.  Hence tokens are in source order, their spans are
   disjoint, and a byte outside every span is a blank. *)
Inductive tiling (q : string) : string -> list token -> Prop :=
  | tiling_nil : forall g, gap_ok g = true -> tiling q g []
  | tiling_snoc : forall s ts txt t g,
      tiling q s ts -> covers txt t -> pos t = String.length s -> no_fuse q (s ++ txt) ->
      gap_ok g = true -> tiling q (s ++ txt ++ g) (ts ++ [t]).


(* the text of token [a] ends at or before the offset of token [b] *)
Definition ends_before (a b : token) : Prop :=
  exists txt, covers txt a /\ pos a + String.length txt <= pos b.
