(* Spec/OrderSpec.v -- what C07 requires of ORDER BY, written from the property text only:
   "every adjacent pair of rows is in non-decreasing order under the requested keys:
    lexicographic over the listed fields, each ascending or descending as written, text
    compared byte-wise, numbers numerically, false before true".
   No plan, no heap, no dynamic type dispatch: a sort key is a text, a number or a Boolean.
   (Uses only the data types of Model/Order.v and the number a binary64 pattern denotes.) *)
From Coq Require Import List String ZArith Bool Arith.
Import ListNotations.
From KV Require Import Base.Bytes Model.Order.
Local Open Scope list_scope.

(* a sort key as the property sees it.  Numbers are exact: the value times 2^1074, so that
   integers and binary64 numbers live on one scale (see [f_val]) *)
Inductive skey :=
  | SText (b : bytes)
  | SNum (scaled : Z)
  | SBool (b : bool).

(* the key a column of the statically declared type holds; None = the property does not
   say how such a value sorts (a NaN, a value that does not fit the declared type) *)
Definition spec_key (tp : type) (v : value) : option skey :=
  match tp, v with
  | TSTR, VBytes b => Some (SText b)
  | TSTR, VStr b => Some (SText b)
  | TNUMBER, VInt z => Some (SNum (Z.shiftl z 1074))      (* z * 2^1074 *)
  | TNUMBER, VFloat f => if f_wf f && negb (f_is_nan f) then Some (SNum (f_val f)) else None
  | TBOOL, VBool b => Some (SBool b)
  | _, _ => None
  end.

(* false before true *)
Definition bool_cmp (a b : bool) : comparison :=
  match a, b with
  | false, true => Lt
  | true, false => Gt
  | _, _ => Eq
  end.

(* keys of different sorts never meet in a well-typed column; ordering them by sort keeps
   the comparison total, which costs nothing and spares every law a side condition *)
Definition okey_rank (k : option skey) : nat :=
  match k with
  | None => 0
  | Some (SText _) => 1
  | Some (SNum _) => 2
  | Some (SBool _) => 3
  end.

Definition okey_cmp (a b : option skey) : comparison :=
  match a, b with
  | Some (SText x), Some (SText y) => bcompare x y          (* byte-wise *)
  | Some (SNum x), Some (SNum y) => Z.compare x y           (* numerically *)
  | Some (SBool x), Some (SBool y) => bool_cmp x y          (* false before true *)
  | _, _ => Nat.compare (okey_rank a) (okey_rank b)
  end.

(* ascending or descending as written *)
Definition dir (desc : bool) (c : comparison) : comparison := if desc then CompOpp c else c.

Definition col_cmp (o : ofield) (a b : row) : comparison :=
  dir (odesc o) (okey_cmp (spec_key (otype o) (col a (opos o)))
                          (spec_key (otype o) (col b (opos o)))).

(* lexicographic over the listed fields *)
Fixpoint spec_cmp (ords : list ofield) (a b : row) : comparison :=
  match ords with
  | [] => Eq
  | o :: ords' =>
      match col_cmp o a b with
      | Eq => spec_cmp ords' a b
      | c => c
      end
  end.

(* a before-or-with b *)
Definition spec_le (ords : list ofield) (a b : row) : Prop := spec_cmp ords a b <> Gt.
Definition spec_leb (ords : list ofield) (a b : row) : bool :=
  match spec_cmp ords a b with Gt => false | _ => true end.

(* "every adjacent pair of rows is in non-decreasing order" *)
Fixpoint adjacent_sorted (ords : list ofield) (rows : list row) : bool :=
  match rows with
  | a :: ((b :: _) as rest) => spec_leb ords a b && adjacent_sorted ords rest
  | _ => true
  end.

(* ------------------------------------------------------------------ homogeneous columns *)
(* The hypothesis of the sortedness theorem: in every sort column all rows hold values of one
   kind that fits the column's declared type, and no NaN; a number column may also mix
   floats with integers, provided the integers are exactly representable in binary64
   (|z| <= 2^53: the code converts the integer before comparing it with a float). *)

Inductive kind := KText | KInt | KFloat | KBool | KUntyped.

Definition kind_eqb (a b : kind) : bool :=
  match a, b with
  | KText, KText | KInt, KInt | KFloat, KFloat | KBool, KBool | KUntyped, KUntyped => true
  | _, _ => false
  end.

Definition col_kind (tp : type) (v : value) : option kind :=
  match tp with
  | TSTR => match v with VBytes _ | VStr _ => Some KText | _ => None end
  | TNUMBER =>
      match v with
      | VInt _ => Some KInt
      | VFloat f => if f_wf f && negb (f_is_nan f) then Some KFloat else None
      | _ => None
      end
  | TBOOL => match v with VBool _ => Some KBool | _ => None end
  | _ => Some KUntyped      (* a type ORDER BY does not sort by: every pair is tied *)
  end.

Definition has_kind (o : ofield) (k : kind) (r : row) : bool :=
  match col_kind (otype o) (col r (opos o)) with
  | Some k' => kind_eqb k k'
  | None => false
  end.

Definition one_kind_col (rows : list row) (o : ofield) : bool :=
  match rows with
  | [] => true
  | r :: _ =>
      match col_kind (otype o) (col r (opos o)) with
      | Some k => forallb (has_kind o k) rows
      | None => false
      end
  end.

(* a number the code compares by its exact value with every other such number *)
Definition exact_number (v : value) : bool :=
  match v with
  | VInt z => (Z.abs z <=? 2 ^ 53)%Z
  | VFloat f => f_wf f && negb (f_is_nan f)
  | _ => false
  end.

Definition exact_number_col (rows : list row) (o : ofield) : bool :=
  match otype o with
  | TNUMBER => forallb (fun r => exact_number (col r (opos o))) rows
  | _ => false
  end.

Definition homogeneous_col (rows : list row) (o : ofield) : bool :=
  if one_kind_col rows o then true else exact_number_col rows o.

Definition homogeneous (ords : list ofield) (rows : list row) : bool :=
  forallb (homogeneous_col rows) ords.
