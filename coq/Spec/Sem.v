(* Spec/Sem.v -- reference evaluator for the documented core language, written from the
   README's operator and function tables only (independent of the evaluator twin):

     operands   key, value, 'text', integer and float literals, true / false
     compare    = != (byte-level / numeric / Boolean), < <= > >= (text byte-wise, numbers
                numerically), ^= (prefix), ~= (regexp, through an oracle)
     sets       x IN (e1, ..., en),  x BETWEEN lo AND hi (lo < hi, inclusive)
     logic      & AND | OR (left to right, the right operand only when needed), !
     arithmetic + (numbers, or concatenation when the left operand is text), - * /
     functions  int float str is_int is_float upper lower strlen substr

   [sem] is PARTIAL: None means "not evaluable" (division by zero, int64 overflow, a text
   that cannot be converted, BETWEEN with lo >= hi, an operand outside the core language).
   Numbers are mathematical integers / abstract floats. *)
From Coq Require Import List String Ascii ZArith Bool.
Import ListNotations.
From KV Require Import Base.Bytes Base.Num Model.Ast Model.Value.
Local Open Scope string_scope.

Section Sem.
Variable fo : fops.
Variable re_spec : bytes -> bytes -> option bool.    (* pattern, text *)
Variables k v : bytes.

Inductive sval :=
  | SText (b : bytes)
  | SInt (z : Z)
  | SFlt (f : F fo)
  | SBool (b : bool).

(* numeric view: an integer is compared with / added to a float as that float *)
Definition as_float (a : sval) : option (F fo) :=
  match a with SInt z => Some (f_of_Z fo z) | SFlt f => Some f | _ => None end.

Definition int64 (z : Z) : option sval := if in64 z then Some (SInt z) else None.

Definition s_arith (o : op) (a b : sval) : option sval :=
  match a, b with
  | SInt x, SInt y =>
      match o with
      | OAdd => int64 (x + y)
      | OSub => int64 (x - y)
      | OMul => int64 (x * y)
      | ODiv => if Z.eqb y 0 then None else int64 (Z.quot x y)
      | _ => None
      end
  | _, _ =>
      match as_float a, as_float b with
      | Some x, Some y =>
          match o with
          | OAdd => Some (SFlt (fadd fo x y))
          | OSub => Some (SFlt (fsub fo x y))
          | OMul => Some (SFlt (fmul fo x y))
          | ODiv => if feqb fo y (f_zero fo) then None else Some (SFlt (fdiv fo x y))
          | _ => None
          end
      | _, _ => None
      end
  end.

(* < on two values of the same documented kind *)
Definition s_lt (a b : sval) : option bool :=
  match a, b with
  | SText x, SText y => Some (bltb x y)
  | SInt x, SInt y => Some (Z.ltb x y)
  | _, _ => match as_float a, as_float b with
            | Some x, Some y => Some (fltb fo x y)
            | _, _ => None
            end
  end.
Definition s_le (a b : sval) : option bool :=
  match a, b with
  | SText x, SText y => Some (bleb x y)
  | SInt x, SInt y => Some (Z.leb x y)
  | _, _ => match as_float a, as_float b with
            | Some x, Some y => Some (fleb fo x y)
            | _, _ => None
            end
  end.

(* = : byte-level on text, numeric on numbers (two integers as integers; an integer is compared
   with a float as that float, exactly as for < and <=), on Booleans *)
Definition s_eq (a b : sval) : option bool :=
  match a, b with
  | SText x, SText y => Some (String.eqb x y)
  | SInt x, SInt y => Some (Z.eqb x y)
  | SBool x, SBool y => Some (Bool.eqb x y)
  | _, _ => match as_float a, as_float b with
            | Some x, Some y => Some (feqb fo x y)
            | _, _ => None
            end
  end.

(* numeric equality used by IN over numbers *)
Definition s_num_eq (a b : sval) : option bool :=
  match a, b with
  | SInt x, SInt y => Some (Z.eqb x y)
  | _, _ => match as_float a, as_float b with
            | Some x, Some y => Some (feqb fo x y)
            | _, _ => None
            end
  end.

Definition s_text (a : sval) : option bytes := match a with SText b => Some b | _ => None end.

(* str: text as it is, an integer in decimal *)
Definition s_str (a : sval) : option bytes :=
  match a with
  | SText b => Some b
  | SInt z => Some (str_of_Z z)
  | SFlt f => Some (f_fmt fo f)
  | SBool true => Some "true"
  | SBool false => Some "false"
  end.

(* int: decimal text is read back; a float is truncated; text that is not a number is not
   convertible *)
Definition s_int (a : sval) : option Z :=
  match a with
  | SInt z => Some z
  | SFlt f => f_trunc fo f
  | SText s =>
      match parse_int s with
      | Some z => Some z
      | None => match f_parse fo s with PF_ok f => f_trunc fo f | _ => None end
      end
  | SBool _ => None
  end.

Definition s_float (a : sval) : option (F fo) :=
  match a with
  | SInt z => Some (f_of_Z fo z)
  | SFlt f => Some f
  | SText s => match f_parse fo s with PF_ok f => Some f | _ => None end
  | SBool _ => None
  end.

Definition s_substr (s : bytes) (a b : Z) : bytes :=
  let en := Z.min b (Z.of_nat (String.length s)) in
  if (a <? 0)%Z || (en <=? a)%Z then "" else String.substring (Z.to_nat a) (Z.to_nat (en - a)) s.

Definition is_text_expr (t : option sval) : bool :=
  match t with Some (SText _) => true | _ => false end.

Fixpoint sem (e : expr) : option sval :=
  match e with
  | EField _ KeyKW => Some (SText k)
  | EField _ ValueKW => Some (SText v)
  | EStr _ s => Some (SText s)
  | ENum _ d => match parse_int d with Some z => Some (SInt z) | None => None end
  | EFloat _ d => match f_parse fo d with PF_ok f => Some (SFlt f) | _ => None end
  | EBool _ b => Some (SBool b)
  | ENot _ r => match sem r with Some (SBool b) => Some (SBool (negb b)) | _ => None end
  | EBin _ o l r =>
      match o with
      | OAnd | OKWAnd =>
          match sem l with
          | Some (SBool false) => Some (SBool false)
          | Some (SBool true) => match sem r with Some (SBool b) => Some (SBool b) | _ => None end
          | _ => None
          end
      | OOr | OKWOr =>
          match sem l with
          | Some (SBool true) => Some (SBool true)
          | Some (SBool false) => match sem r with Some (SBool b) => Some (SBool b) | _ => None end
          | _ => None
          end
      | OEq => match sem l, sem r with
               | Some a, Some b => option_map SBool (s_eq a b) | _, _ => None end
      | ONotEq => match sem l, sem r with
                  | Some a, Some b => option_map (fun x => SBool (negb x)) (s_eq a b) | _, _ => None end
      | OPrefixMatch =>
          match sem l, sem r with
          | Some (SText a), Some (SText b) => Some (SBool (has_prefix b a))
          | _, _ => None
          end
      | ORegExpMatch =>
          match sem l, sem r with
          | Some (SText a), Some (SText b) => option_map SBool (re_spec b a)
          | _, _ => None
          end
      | OLt => match sem l, sem r with Some a, Some b => option_map SBool (s_lt a b) | _, _ => None end
      | OLte => match sem l, sem r with Some a, Some b => option_map SBool (s_le a b) | _, _ => None end
      | OGt => match sem l, sem r with Some a, Some b => option_map SBool (s_lt b a) | _, _ => None end
      | OGte => match sem l, sem r with Some a, Some b => option_map SBool (s_le b a) | _, _ => None end
      | OAdd =>
          match sem l, sem r with
          | Some (SText a), Some b => option_map (fun s => SText (a ++ s)) (s_str b)
          | Some a, Some b => s_arith OAdd a b
          | _, _ => None
          end
      | OSub | OMul | ODiv =>
          match sem l, sem r with Some a, Some b => s_arith o a b | _, _ => None end
      | OIn =>
          match sem l, r with
          | Some a, EList _ items =>
              (fix go (items : list expr) : option sval :=
                 match items with
                 | [] => Some (SBool false)
                 | it :: items' =>
                     match sem it with
                     | Some b =>
                         match (match a with SText _ => s_eq a b | _ => s_num_eq a b end) with
                         | Some true => Some (SBool true)
                         | Some false => go items'
                         | None => None
                         end
                     | None => None
                     end
                 end) items
          | _, _ => None
          end
      | OBetween =>
          match sem l, r with
          | Some a, EList _ [lo; hi] =>
              match sem lo, sem hi with
              | Some x, Some y =>
                  match s_lt x y with
                  | Some true =>
                      match s_le x a with
                      | Some true => option_map SBool (s_le a y)
                      | Some false => Some (SBool false)
                      | None => None
                      end
                  | _ => None
                  end
              | _, _ => None
              end
          | _, _ => None
          end
      | ONot => None
      end
  | ECall _ (EName _ nm) args =>
      match ascii_lower nm with
      | None => None
      | Some f =>
          match args with
          | [a] =>
              match sem a with
              | None => None
              | Some x =>
                  if String.eqb f "int" then option_map SInt (s_int x)
                  else if String.eqb f "float" then option_map SFlt (s_float x)
                  else if String.eqb f "str" then option_map SText (s_str x)
                  else if String.eqb f "is_int" then
                    Some (SBool (match x with
                                 | SText s => match parse_int s with Some _ => true | None => false end
                                 | SInt _ => true
                                 | _ => false
                                 end))
                  else if String.eqb f "is_float" then
                    match x with
                    | SText s =>
                        match f_parse fo s with
                        | PF_ok _ => Some (SBool true) | PF_err => Some (SBool false) | PF_oom => None
                        end
                    | SFlt _ => Some (SBool true)
                    | _ => Some (SBool false)
                    end
                  else if String.eqb f "upper" then
                    match s_str x with Some s => option_map SText (ascii_upper s) | None => None end
                  else if String.eqb f "lower" then
                    match s_str x with Some s => option_map SText (ascii_lower s) | None => None end
                  else if String.eqb f "strlen" then
                    option_map (fun s => SInt (Z.of_nat (String.length s))) (s_str x)
                  else None
              end
          | [a; b; c] =>
              if String.eqb f "substr" then
                match sem a, sem b, sem c with
                | Some x, Some (SInt st), Some (SInt en) =>
                    option_map (fun s => SText (s_substr s st en)) (s_str x)
                | _, _, _ => None
                end
              else None
          | _ => None
          end
      end
  | _ => None
  end.

End Sem.

Arguments SText {fo} b.
Arguments SInt {fo} z.
Arguments SFlt {fo} f.
Arguments SBool {fo} b.
