(* Spec/Typing.v -- the typing rules of the documented query language, written from README.md
   and spec.md only (operators, function tables, statement forms, the PUT / REMOVE notices).

   The judgement  E ; m |- e : t  is given as a syntax-directed inference function
   [infer E m e = Some t]  (every expression has at most one type, so the relation is the graph
   of a function; [has_type] below is that relation).  E assigns a type to the field names a
   SELECT defines with AS (a name is an abbreviation of its definition, so it has the
   definition's type); m says whether the statement form allows `key` / `value` here.

   Types.  Number (integer or float), String, Boolean are the documented basic types; list
   and json are the documented function result types.  Two more are needed to give every
   parser output a type: [SIdent], a name that no AS defines (it stands for its own text;
   no operator takes it), and [SUnknown], a name whose definition has no static type.

   Rules (l, r operands; every operand must itself be typable):
     key, value : String          where the statement form allows the keyword
     'text' : String   12, 1.5 : Number   true, false : Boolean
     x : E(x)  if AS defines x,  x : Ident otherwise
     ! r : Boolean                r : Boolean
     l & r, l | r, l and r, l or r : Boolean        l, r : Boolean
     l = r, l != r : Boolean      l, r : the same type among String, Number, Boolean
     l ^= r, l ~= r : Boolean     l, r : String
     l < r (> <= >=) : Boolean    l, r : both String or both Number
     (side rule for = != ^= ~= < > <= >=: l and r are not both the keyword key, nor both value)
     l + r : String               l, r : String          (concatenation)
     l + r, l - r, l * r : Number l, r : Number
     l / r : Number               l, r : Number, r not the literal zero
     l in (x1, ..., xn) : Boolean n >= 1, l : String or Number, every xi : the type of l
     l in r : Boolean             l : String or Number, r a function call or a field name, r : list
     l between lo and hi : Boolean   l : String or Number, lo, hi : the type of l
     f(a1, ..., an) : result type of f    f in the scalar function table with n permitted,
                                  every ai typable; the documented parameter types that the
                                  functions insist on (NOT among the faults property C14
                                  lists; the checker tests them only when the function runs,
                                  and the check does not judge them): start / end of substr : Number,
                                  separator of split and of join, argument of json : String,
                                  argument of len : not Boolean / json,
                                  arguments of the distance functions : list or json
     g(a1, ..., an) : result type of g    g in the aggregate function table, every ai typable
     l[f] : String                l : json and f a string literal, or l : list and f a number
                                  literal, or l itself a field access and f a string or number
                                  literal (cascaded access).  The ELEMENT of a JSON value or
                                  of a list value is dynamically typed (a list may hold
                                  numbers): like JSON field access, indexing into a list and
                                  IN over a list-valued function / field are excepted from the
                                  "no operand-type error at execution" half of the property
     (x1, ..., xn) : list         only as the right side of IN / BETWEEN; n >= 1, one type

   Where aggregate functions may stand is a separate judgement ([calls_placed]): at the top of
   a SELECT field or below its binary operators, never inside function arguments, WHERE,
   PUT, REMOVE, DELETE.  The argument count of aggregate functions is validated by the
   aggregation plan, not stated here.

   Statements:
     SELECT: every ORDER BY name is a field name of type String / Number / Boolean;
             WHERE : Boolean; every field typable; aggregates placed as above -- all under the
             environment in which every field name has the type of its definition, the
             definitions typed under that same environment (fields may use fields defined
             before or after them; [select_env]).
     PUT (k, v): k, v : String or Number; `value` nowhere; `key` only inside v.
     REMOVE k: k : String or Number; neither `key` nor `value`.
     DELETE WHERE w: w : Boolean. *)
From Coq Require Import List String ZArith Bool Arith.
Import ListNotations.
From KV Require Import Base.Bytes Base.Num Model.Ast Model.Value Model.Eval.
Open Scope string_scope.

Inductive sty := SBool | SStr | SNum | SList | SJson | SIdent | SUnknown.

Definition sty_eqb (a b : sty) : bool :=
  match a, b with
  | SBool, SBool | SStr, SStr | SNum, SNum | SList, SList | SJson, SJson
  | SIdent, SIdent | SUnknown, SUnknown => true
  | _, _ => false
  end.

Definition env := string -> option sty.
Record mode := Mode { m_key : bool; m_value : bool }.

Definition strnum (t : sty) : bool := match t with SStr | SNum => true | _ => false end.
Definition scalar (t : sty) : bool := match t with SStr | SNum | SBool => true | _ => false end.

(* the documented scalar functions: name -> (arguments, more allowed, result) *)
Definition scalar_sig (name : string) : option (nat * bool * sty) :=
  if String.eqb name "lower" then Some (1, false, SStr)
  else if String.eqb name "upper" then Some (1, false, SStr)
  else if String.eqb name "int" then Some (1, false, SNum)
  else if String.eqb name "float" then Some (1, false, SNum)
  else if String.eqb name "str" then Some (1, false, SStr)
  else if String.eqb name "is_int" then Some (1, false, SBool)
  else if String.eqb name "is_float" then Some (1, false, SBool)
  else if String.eqb name "substr" then Some (3, false, SStr)
  else if String.eqb name "json" then Some (1, false, SJson)
  else if String.eqb name "split" then Some (2, false, SList)
  else if String.eqb name "list" then Some (1, true, SList)
  else if String.eqb name "float_list" then Some (1, true, SList)
  else if String.eqb name "int_list" then Some (1, true, SList)
  else if String.eqb name "flist" then Some (1, true, SList)
  else if String.eqb name "ilist" then Some (1, true, SList)
  else if String.eqb name "len" then Some (1, false, SNum)
  else if String.eqb name "join" then Some (2, true, SStr)
  else if String.eqb name "strlen" then Some (1, false, SNum)
  else if String.eqb name "cosine_distance" then Some (2, false, SNum)
  else if String.eqb name "l2_distance" then Some (2, false, SNum)
  else None.

(* the documented aggregate functions: name -> result *)
Definition aggr_sig (name : string) : option sty :=
  if String.eqb name "count" || String.eqb name "sum" || String.eqb name "avg" ||
     String.eqb name "min" || String.eqb name "max" || String.eqb name "quantile"
  then Some SNum
  else if String.eqb name "json_arrayagg" || String.eqb name "group_concat" then Some SStr
  else None.

Definition count_ok (nargs : nat) (more : bool) (n : nat) : bool :=
  if more then Nat.leb nargs n else Nat.eqb n nargs.

(* parameters whose type is fixed (the other parameters are converted, so any typable
   argument will do): start / end of substr are numbers, the separators of split and join and
   the argument of json are text, len takes anything that has a length (not a Boolean, not a
   JSON object), the distance functions take lists (or JSON arrays) *)
Definition text_like (t : sty) : bool := match t with SStr | SIdent => true | _ => false end.
Definition list_like (t : sty) : bool := match t with SList | SJson => true | _ => false end.
Definition has_length (t : sty) : bool := match t with SBool | SJson => false | _ => true end.

Definition params_ok (name : string) (ts : list sty) : bool :=
  if String.eqb name "substr" then
    sty_eqb (nth 1 ts SUnknown) SNum && sty_eqb (nth 2 ts SUnknown) SNum
  else if String.eqb name "split" then sty_eqb (nth 1 ts SUnknown) SStr
  else if String.eqb name "join" then sty_eqb (nth 0 ts SUnknown) SStr
  else if String.eqb name "len" then has_length (nth 0 ts SUnknown)
  else if String.eqb name "json" then text_like (nth 0 ts SUnknown)
  else if String.eqb name "cosine_distance" || String.eqb name "l2_distance" then
    list_like (nth 0 ts SUnknown) && list_like (nth 1 ts SUnknown)
  else true.

(* comparisons: a comparison of the key field with itself (or of value with itself) is not a
   statement of the language (the checker's "operator with two same field") *)
Definition same_field (l r : expr) : bool :=
  match l, r with
  | EField _ KeyKW, EField _ KeyKW | EField _ ValueKW, EField _ ValueKW => true
  | _, _ => false
  end.

Definition is_compare_op (o : op) : bool :=
  match o with
  | OEq | ONotEq | OPrefixMatch | ORegExpMatch | OGt | OGte | OLt | OLte => true
  | _ => false
  end.

(* function names are case-insensitive ASCII *)
Definition fname (n : expr) : option string :=
  match n with EName _ s => ascii_lower s | _ => None end.

Section Typing.
Variable fo : fops.

(* the literal zero as a divisor (a float literal the float model cannot read counts as zero) *)
Definition lit_zero (r : expr) : bool :=
  match r with
  | ENum _ d => Z.eqb (num_value d) 0
  | EFloat _ d => match float_value fo d with Ok f => feqb fo f (f_zero fo) | _ => true end
  | _ => false
  end.

Definition bin_type (o : op) (tl tr : sty) (r : expr) : option sty :=
  match o with
  | OAnd | OOr | OKWAnd | OKWOr =>
      match tl, tr with SBool, SBool => Some SBool | _, _ => None end
  | OEq | ONotEq => if sty_eqb tl tr && scalar tl then Some SBool else None
  | OPrefixMatch | ORegExpMatch =>
      match tl, tr with SStr, SStr => Some SBool | _, _ => None end
  | OGt | OGte | OLt | OLte => if sty_eqb tl tr && strnum tl then Some SBool else None
  | OAdd =>
      match tl, tr with
      | SStr, SStr => Some SStr
      | SNum, SNum => Some SNum
      | _, _ => None
      end
  | OSub | OMul => match tl, tr with SNum, SNum => Some SNum | _, _ => None end
  | ODiv => match tl, tr with SNum, SNum => if lit_zero r then None else Some SNum | _, _ => None end
  | ONot | OIn | OBetween => None
  end.

Section WithEnv.
Variable E : env.
Variable m : mode.

Fixpoint infer (e : expr) {struct e} : option sty :=
  let infer_all :=
    fix go (l : list expr) : option (list sty) :=
      match l with
      | [] => Some []
      | a :: l' => match infer a, go l' with
                   | Some t, Some ts => Some (t :: ts)
                   | _, _ => None
                   end
      end in
  match e with
  | EField _ KeyKW => if m_key m then Some SStr else None
  | EField _ ValueKW => if m_value m then Some SStr else None
  | EStr _ _ => Some SStr
  | ENum _ _ | EFloat _ _ => Some SNum
  | EBool _ _ => Some SBool
  | EName _ s => match E s with Some t => Some t | None => Some SIdent end
  | ERef _ _ _ => None
  | ENot _ r => match infer r with Some SBool => Some SBool | _ => None end
  | EBin _ OIn l r =>
      match infer l with
      | Some tl =>
          if strnum tl then
            match r with
            | EList _ (x :: rest) =>
                match infer_all (x :: rest) with
                | Some ts => if forallb (sty_eqb tl) ts then Some SBool else None
                | None => None
                end
            | ECall _ _ _ | EName _ _ =>
                match infer r with Some SList => Some SBool | _ => None end
            | _ => None
            end
          else None
      | None => None
      end
  | EBin _ OBetween l r =>
      match infer l with
      | Some tl =>
          if strnum tl then
            match r with
            | EList _ [lo; hi] =>
                match infer lo, infer hi with
                | Some a, Some b => if sty_eqb a tl && sty_eqb b tl then Some SBool else None
                | _, _ => None
                end
            | _ => None
            end
          else None
      | None => None
      end
  | EBin _ o l r =>
      if is_compare_op o && same_field l r then None
      else
        match infer l, infer r with
        | Some tl, Some tr => bin_type o tl tr r
        | _, _ => None
        end
  | ECall _ n args =>
      match fname n with
      | None => None
      | Some nm =>
          match infer_all args with
          | None => None
          | Some ts =>
              match scalar_sig nm with
              | Some (nargs, more, ret) =>
                  if count_ok nargs more (List.length args) && params_ok nm ts then Some ret else None
              | None => aggr_sig nm
              end
          end
      end
  | EList _ items =>
      match infer_all items with
      | Some (t :: ts) => if forallb (sty_eqb t) ts then Some SList else None
      | _ => None
      end
  | EAccess _ l f =>
      match infer l with
      | Some SJson => match f with EStr _ _ => Some SStr | _ => None end
      | Some SList => match f with ENum _ _ => Some SStr | _ => None end
      | Some SStr =>
          match l, f with
          | EAccess _ _ _, EStr _ _ | EAccess _ _ _, ENum _ _ => Some SStr
          | _, _ => None
          end
      | _ => None
      end
  end.

Definition has_type (e : expr) (t : sty) : Prop := infer e = Some t.

End WithEnv.

(* where aggregate functions may stand: [top] = we are at the top of a SELECT field or below
   its binary operators *)
Fixpoint calls_placed (top : bool) (e : expr) {struct e} : bool :=
  match e with
  | EBin _ _ l r => calls_placed top l && calls_placed top r
  | ENot _ r => calls_placed false r
  | EAccess _ l _ => calls_placed false l
  | EList _ items => forallb (calls_placed false) items
  | ECall _ n args =>
      match fname n with
      | Some nm =>
          (match scalar_sig nm with
           | Some _ => true
           | None => match aggr_sig nm with Some _ => top | None => true end
           end) && forallb (calls_placed false) args
      | None => true
      end
  | _ => true
  end.

(* ---------------------------------------------------------------- statements *)
(* the statement forms of the twin (Model/Checker.v [stmt]) are described structurally here:
   fields with their names, WHERE, ORDER BY names *)

Definition any_type (E : env) (m : mode) (e : expr) : bool :=
  match infer E m e with Some _ => true | None => false end.
Definition is_type (E : env) (m : mode) (e : expr) (t : sty) : bool :=
  match infer E m e with Some t' => sty_eqb t' t | None => false end.
Definition is_strnum (E : env) (m : mode) (e : expr) : bool :=
  match infer E m e with Some t => strnum t | None => false end.

Definition all_allowed : mode := Mode true true.
Definition no_env : env := fun _ => None.

(* the first field with that name *)
Fixpoint field_named (fields : list (string * expr)) (s : string) : option expr :=
  match fields with
  | [] => None
  | (n, d) :: fields' => if String.eqb n s then Some d else field_named fields' s
  end.

(* SELECT.  A field name is an abbreviation of its definition, so it has the definition's
   type -- and the definition may itself use field names, defined before or after it in the
   list (what it may not do is refer to itself, directly or through other fields: the parser
   rejects that before any type is asked for).  The environment of a SELECT is therefore the
   fixed point of "give every name the type its definition has under the environment".
   Reference chains are acyclic and visit a field at most once, so the fixed point is reached
   after as many rounds as there are fields: round 0 knows no name; in round k+1 a name has the
   type its definition has under round k ([SUnknown] if it has none).  A name defined twice
   means its first definition.  (With definitions that use no field names one round is
   enough: the name has the type of its definition under the empty environment.) *)
Fixpoint select_env_n (fields : list (string * expr)) (k : nat) : env :=
  match k with
  | 0 => no_env
  | S k' =>
      fun s => match field_named fields s with
               | Some d => match infer (select_env_n fields k') all_allowed d with
                           | Some t => Some t
                           | None => Some SUnknown
                           end
               | None => None
               end
  end.

Definition select_env (fields : list (string * expr)) : env :=
  select_env_n fields (List.length fields).

Definition select_typed (fields : list (string * expr)) (w : expr) (order : list (nat * string)) : bool :=
  let E := select_env fields in
  forallb (fun it => match E (snd it) with Some t => scalar t | None => false end) order
  && is_type E all_allowed w SBool && calls_placed false w
  && forallb (fun nf => any_type E all_allowed (snd nf) && calls_placed true (snd nf)) fields.

Definition put_typed (pairs : list (expr * expr)) : bool :=
  forallb (fun kv => is_strnum no_env (Mode false false) (fst kv) && calls_placed false (fst kv)
                     && is_strnum no_env (Mode true false) (snd kv) && calls_placed false (snd kv)) pairs.

Definition remove_typed (keys : list expr) : bool :=
  forallb (fun k => is_strnum no_env (Mode false false) k && calls_placed false k) keys.

Definition delete_typed (w : expr) : bool :=
  is_type no_env all_allowed w SBool && calls_placed false w.

End Typing.
