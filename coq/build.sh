#!/bin/bash
# Full .vo build of the Coq development (never -vos).  Regenerates _CoqProject from the
# files on disk so that adding a file needs no other edit.  Always under a shell timeout.
set -e
cd "$(dirname "$0")"
{
  echo "-Q . KV"
  echo "-arg -w -arg -notation-overridden,-deprecated-hint-without-locality,-deprecated-instance-without-locality"
  find Base Spec Model Proofs Properties Corr -name '*.v' | LC_ALL=C sort
} > _CoqProject.new
if ! cmp -s _CoqProject.new _CoqProject 2>/dev/null; then
  mv _CoqProject.new _CoqProject
  coq_makefile -f _CoqProject -o Makefile >/dev/null
else
  rm -f _CoqProject.new
  [ -f Makefile ] || coq_makefile -f _CoqProject -o Makefile >/dev/null
fi
# cap the memory of each coqc (a runaway proof search or vm_compute must fail, not thrash the machine)
ulimit -v ${COQ_MEM_KB:-12000000} 2>/dev/null || true
exec timeout "${COQ_BUILD_TIMEOUT:-2400}" make -j"${COQ_JOBS:-16}" "$@"
