#!/bin/bash
cd /root/scratch/vMP/coq && timeout ${T:-600} coqc -Q . KV -w -notation-overridden,-deprecated-hint-without-locality,-deprecated-instance-without-locality "$@" 2>&1 | head -${N:-40}
