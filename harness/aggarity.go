package main

import "strings"

// isAggArityErr: BuildPlan refused the statement because an aggregate call has a wrong number of
// arguments.  Since fix 06064ce this is reported by the call validation (before the constant folder and
// before buildFinalPlan's own tests); the text twins of Model/PipelineS.v / ParseCheck.v still model the
// test where it used to be (inside AggregatePlan.Init, AFTER the plan-stage tests), so a text with a
// second, plan-stage fault is answered differently by them.  Such texts are compared with the repaired
// front-end twin (Model/AggInit.v parse_check_agg) by C14's stream `agg`; the other text streams count
// them as outside their twin instead of comparing.
func isAggArityErr(err error) bool {
	return err != nil && strings.Contains(err.Error(), " arguments but got ") && strings.Contains(err.Error(), " require ")
}
