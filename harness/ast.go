package main

// Gallina printer for kvql expression trees (Model/Ast.v) and tokens (Model/Token.v).

import (
	"fmt"
	"strings"

	kvql "github.com/c4pt0r/kvql"
)

var opCtor = map[kvql.Operator]string{
	kvql.And: "OAnd", kvql.Or: "OOr", kvql.Not: "ONot", kvql.Eq: "OEq", kvql.NotEq: "ONotEq",
	kvql.PrefixMatch: "OPrefixMatch", kvql.RegExpMatch: "ORegExpMatch", kvql.Add: "OAdd",
	kvql.Sub: "OSub", kvql.Mul: "OMul", kvql.Div: "ODiv", kvql.Gt: "OGt", kvql.Gte: "OGte",
	kvql.Lt: "OLt", kvql.Lte: "OLte", kvql.In: "OIn", kvql.Between: "OBetween",
	kvql.KWAnd: "OKWAnd", kvql.KWOr: "OKWOr",
}

var tokCtor = map[kvql.TokenType]string{
	kvql.SELECT: "SELECT", kvql.WHERE: "WHERE", kvql.KEY: "KEY", kvql.VALUE: "VALUE",
	kvql.OPERATOR: "OPERATOR", kvql.STRING: "STRING", kvql.LPAREN: "LPAREN", kvql.RPAREN: "RPAREN",
	kvql.NAME: "NAME", kvql.SEP: "SEP", kvql.NUMBER: "NUMBER", kvql.FLOAT: "FLOAT", kvql.LIMIT: "LIMIT",
	kvql.ORDER: "ORDER", kvql.BY: "BY", kvql.ASC: "ASC", kvql.DESC: "DESC", kvql.TRUE: "TRUE",
	kvql.FALSE: "FALSE", kvql.AS: "AS", kvql.GROUP: "GROUP", kvql.IN: "IN", kvql.BETWEEN: "BETWEEN",
	kvql.AND: "AND", kvql.LBRACK: "LBRACK", kvql.RBRACK: "RBRACK", kvql.PUT: "PUT", kvql.REMOVE: "REMOVE",
	kvql.SEMI: "SEMI", kvql.OR: "OR", kvql.DELETE: "DELETE",
}

func coqToken(t *kvql.Token) string {
	c, ok := tokCtor[t.Tp]
	if !ok {
		c = "NAME (* unknown token type *)"
	}
	return fmt.Sprintf("Tok %s %s %d", c, coqStr(t.Data), t.Pos)
}

func coqTokens(ts []*kvql.Token) string {
	p := make([]string, len(ts))
	for i, t := range ts {
		p[i] = coqToken(t)
	}
	return coqList(p)
}

func natPos(p int) int {
	if p < 0 {
		return 0
	}
	return p
}

// coqExpr renders an expression tree as a Model/Ast.v term.  ok=false when the tree holds a
// node the Coq AST does not have (nil children, reference cycles deeper than the bound).
func coqExpr(e kvql.Expression) (string, bool) { return coqExprD(e, 0) }

func coqExprD(e kvql.Expression, depth int) (string, bool) {
	if depth > 200 {
		return "", false
	}
	switch x := e.(type) {
	case *kvql.BinaryOpExpr:
		l, ok1 := coqExprD(x.Left, depth+1)
		r, ok2 := coqExprD(x.Right, depth+1)
		o, ok3 := opCtor[x.Op]
		return fmt.Sprintf("(EBin %d %s %s %s)", natPos(x.Pos), o, l, r), ok1 && ok2 && ok3
	case *kvql.FieldExpr:
		f := "KeyKW"
		if x.Field == kvql.ValueKW {
			f = "ValueKW"
		}
		return fmt.Sprintf("(EField %d %s)", natPos(x.Pos), f), true
	case *kvql.StringExpr:
		return fmt.Sprintf("(EStr %d %s)", natPos(x.Pos), coqStr(x.Data)), true
	case *kvql.NotExpr:
		r, ok := coqExprD(x.Right, depth+1)
		return fmt.Sprintf("(ENot %d %s)", natPos(x.Pos), r), ok
	case *kvql.FunctionCallExpr:
		n, ok := coqExprD(x.Name, depth+1)
		args := make([]string, len(x.Args))
		for i, a := range x.Args {
			var oka bool
			args[i], oka = coqExprD(a, depth+1)
			ok = ok && oka
		}
		return fmt.Sprintf("(ECall %d %s %s)", natPos(x.Pos), n, coqList(args)), ok
	case *kvql.NameExpr:
		return fmt.Sprintf("(EName %d %s)", natPos(x.Pos), coqStr(x.Data)), true
	case *kvql.FieldReferenceExpr:
		d, ok := coqExprD(x.FieldExpr, depth+1)
		return fmt.Sprintf("(ERef %d %s %s)", natPos(x.Name.Pos), coqStr(x.Name.Data), d), ok
	case *kvql.NumberExpr:
		return fmt.Sprintf("(ENum %d %s)", natPos(x.Pos), coqStr(x.Data)), true
	case *kvql.FloatExpr:
		return fmt.Sprintf("(EFloat %d %s)", natPos(x.Pos), coqStr(x.Data)), true
	case *kvql.BoolExpr:
		return fmt.Sprintf("(EBool %d %s)", natPos(x.Pos), coqBool(x.Bool)), true
	case *kvql.ListExpr:
		items := make([]string, len(x.List))
		ok := true
		for i, a := range x.List {
			var oka bool
			items[i], oka = coqExprD(a, depth+1)
			ok = ok && oka
		}
		return fmt.Sprintf("(EList %d %s)", natPos(x.Pos), coqList(items)), ok
	case *kvql.FieldAccessExpr:
		l, ok1 := coqExprD(x.Left, depth+1)
		f, ok2 := coqExprD(x.FieldName, depth+1)
		return fmt.Sprintf("(EAccess %d %s %s)", natPos(x.Pos), l, f), ok1 && ok2
	default:
		return fmt.Sprintf("(EName 0 %s)", coqStr(strings.TrimSpace(fmt.Sprintf("?%T", e)))), false
	}
}
