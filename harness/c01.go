package main

// C01: `select * where P` returns exactly the pairs satisfying P, once each, in key order,
// with their stored values, in both iteration modes.  Predicates come from the typed grammar
// of the documented core language mixed with key-constraining atoms (so that every access
// path is exercised); stores are built from a literal pool closed under prefix/successor.

import (
	"fmt"
	"sort"

	kvql "github.com/c4pt0r/kvql"
)

func init() { registry["C01"] = runC01 }

type c01Replay struct {
	Query string      `json:"query"`
	Store [][2]string `json:"store"`
	Want  []string    `json:"keys_satisfying_P_by_full_filter,omitempty"`
	Got   []string    `json:"keys_returned,omitempty"`
	Mode  string      `json:"mode,omitempty"`
	Err   string      `json:"error,omitempty"`
}

func c01Store(r *rng, n int) [][2]string {
	keyPool := []string{"", "a", "a\x00", "aa", "ab", "ab\x00", "aba", "abc", "abd", "ac", "b", "b0", "ba", "bb", "c", "ca", "k", "ka", "kb", "x,y", "12", "A", "zz"}
	valPool := []string{"12", "-3", "2.5", "abc", "", "a,b,c", "7", "007", "x", "1e2", "a", "ab", "b", "100", "0.5",
		"9007199254740992", "9007199254740993", "9007199254740994"} // neighbours above 2^53: equal as float64, different as integers
	set := map[string]string{}
	for len(set) < n && len(set) < len(keyPool) {
		set[pick(r, keyPool)] = pick(r, valPool)
	}
	keys := make([]string, 0, len(set))
	for k := range set {
		keys = append(keys, k)
	}
	sort.Strings(keys)
	out := make([][2]string, len(keys))
	for i, k := range keys {
		out[i] = [2]string{k, set[k]}
	}
	return out
}

// c01SubexprFails: does some node of the tree fail (error or panic) on some stored pair when
// evaluated on its own?  Batch evaluation computes every node on every pair of a chunk, so an
// error in a batch drain is legitimate only then.
func c01SubexprFails(root kvql.Expression, store [][2]string) bool {
	fails := false
	root.Walk(func(n kvql.Expression) bool {
		for _, kv := range store {
			if _, err, pn := execRow(n, kv[0], kv[1], false); err != nil || pn != "" {
				fails = true
				return false
			}
		}
		return true
	})
	return fails
}

func c01Case(e *emitter, pred string, store [][2]string) {
	query := "select * where " + pred
	sel, err := parseWhere(pred)
	if err != nil {
		e.count("rejected")
		return
	}
	term, ok := coqExpr(sel.Where.Expr)
	if !ok {
		e.m.OutOfModel++
		return
	}
	// per-pair filter observations (row evaluator, cache off)
	obs := make([]string, len(store))
	var want []string
	evaluable := true
	for i, kv := range store {
		val, ferr, pn := execRow(sel.Where.Expr, kv[0], kv[1], false)
		obs[i] = coqObs(val, ferr, pn)
		if ferr != nil || pn != "" {
			evaluable = false
		} else if b, isb := val.(bool); isb && b {
			want = append(want, kv[0])
		} else if !isb {
			evaluable = false
		}
	}
	rp := c01Replay{Query: query, Store: store}
	type md struct {
		batch bool
		B     int
		cache bool
	}
	mds := []md{{false, 32, true}, {true, 2, true}, {true, 32, false}, {false, 3, false}}
	runsTerm := []string{}
	nontrivial := false
	var firstFail *implFail
	for _, m := range mds {
		st := newStore(store)
		res := runQuery(query, st, m.batch, m.B, m.cache)
		mode := fmt.Sprintf("batch=%v B=%d cache=%v", m.batch, m.B, m.cache)
		if res.Panic != "" {
			rp.Mode, rp.Err = mode, "panic: "+res.Panic
			firstFail = &implFail{What: "select panics", Sig: "C01/panic", Replay: rp}
			break
		}
		if res.Err != nil {
			if evaluable && !m.batch {
				rp.Mode, rp.Err = mode, res.Err.Error()
				firstFail = &implFail{What: "select fails although the predicate evaluates on every stored pair", Sig: "C01/error", Replay: rp}
				break
			}
			// batch evaluation may fail where row evaluation succeeds (no short-circuit): but
			// only when some sub-expression fails on some stored pair
			if evaluable && !c01SubexprFails(sel.Where.Expr, store) {
				rp.Mode, rp.Err = mode, res.Err.Error()
				firstFail = &implFail{What: "batch drain fails although every sub-expression of the predicate evaluates on every stored pair", Sig: "C01/batch-error", Replay: rp}
				break
			}
			e.count("drain_error")
			continue
		}
		rows := make([][2]string, 0, len(res.Rows))
		got := []string{}
		for _, row := range res.Rows {
			k, _ := row[0].([]byte)
			v, _ := row[1].([]byte)
			rows = append(rows, [2]string{string(k), string(v)})
			got = append(got, string(k))
		}
		runsTerm = append(runsTerm, coqPairs(rows))
		if len(rows) > 0 && len(rows) < len(store) {
			nontrivial = true
		}
		if evaluable && fmt.Sprint(got) != fmt.Sprint(want) && firstFail == nil {
			rp.Mode, rp.Want, rp.Got = mode, want, got
			firstFail = &implFail{What: "select * returns other rows than the filter applied to every stored pair", Sig: "C01/rows", Replay: rp}
		}
		if len(st.log) > 0 {
			for _, cl := range st.log {
				if isWrite(cl.Op) && firstFail == nil {
					firstFail = &implFail{What: "select issued a write", Sig: "C01/write", Replay: rp}
				}
			}
		}
	}
	storeTerm := make([]string, len(store))
	for i, kv := range store {
		storeTerm[i] = fmt.Sprintf("(%s, %s, %s)", coqStr(kv[0]), coqStr(kv[1]), obs[i])
	}
	idx := e.add(fmt.Sprintf("Case %s %s %s", term, coqList(storeTerm), coqList(runsTerm)), rp, nontrivial)
	if !evaluable {
		e.count("not_evaluable_on_every_pair")
	}
	if firstFail != nil {
		e.fail(idx, firstFail.What, firstFail.Sig, firstFail.Replay)
	}
	// access path taken (for the measured distribution)
	if plan, perr := kvql.NewOptimizer(query).BuildPlan(newStore(store)); perr == nil {
		if pp, ok := plan.(*kvql.ProjectionPlan); ok {
			e.count("scan=" + observeRegion(pp.ChildPlan).kind)
		}
	}
}

func runC01(c *runCtx) error {
	r := newRng(c.seed)
	header := "From Coq Require Import List String ZArith.\nFrom KV Require Import Base.Bytes Model.Ast Model.Value Corr.EvalCommon Corr.C01.\nImport ListNotations.\nOpen Scope string_scope.\n"
	e := newEmitter(c.out, "C01", header, 120)
	e.m.Rule = "predicates from the typed grammar of the documented core language (comparisons, prefix, IN, BETWEEN, logic, arithmetic over key/value/literals, conversion and string functions; depth <= 4) AND/OR-mixed with key-constraining atoms; stores of 0..23 pairs over a literal pool closed under prefix/successor; each statement drained row-at-a-time and in batches (B in {2,3,32}, cache on/off); non-trivial = some but not all pairs are returned; distinct = distinct (tree, store, runs) terms"
	n := 1500
	if c.thorough() || c.search {
		n = 24000
	}
	g := newEgen(r)
	g.coreOnly = true
	g.intLits = append(g.intLits, "9007199254740993", "9007199254740992")
	katoms := keyAtoms([]string{"", "a", "ab", "b", "c"}, false)
	// regular expressions are outside the Coq twin (oracle): these predicates are judged on the
	// Go side only (every drain against the row-at-a-time filter over the whole store)
	reAtoms := []string{"key ~= '^a'", "value ~= '^[0-9]+$'", "key ~= value", "value ~= key", "'ab' ~= value",
		"key ~= '.b'", "value ~= 'a|b'", "upper(key) ~= '^A'", "key ~= lower(value)"}
	for i := 0; i < n; i++ {
		var pred string
		switch r.intn(6) {
		case 5:
			pred = pick(r, reAtoms)
			if r.chance(1, 2) {
				pred = fmt.Sprintf("(%s) %s (%s)", pred, pick(r, []string{"&", "|"}), pick(r, katoms))
			}
		case 0:
			pred = pick(r, katoms)
		case 1:
			pred = fmt.Sprintf("(%s) %s (%s)", pick(r, katoms), pick(r, []string{"&", "|"}), g.gen(gBool, 1+r.intn(2)))
		case 2:
			pred = fmt.Sprintf("(%s) %s (%s)", g.gen(gBool, 1+r.intn(2)), pick(r, []string{"and", "or"}), pick(r, katoms))
		case 3:
			pred = fmt.Sprintf("((%s) | (%s)) & (%s)", pick(r, katoms), pick(r, katoms), g.gen(gBool, 1))
		default:
			pred = g.gen(gBool, 1+r.intn(4))
		}
		c01Case(e, pred, c01Store(r, r.intn(24)))
	}
	// = / != with a float operand (integer, float and mixed pairs).  The stores hold only values
	// whose float reading is inside the twin's float model (no 1e2, nothing >= 2^53), numeric
	// ones alone (evaluable on every pair) or mixed with texts that do not convert.
	numVals := []string{"12", "-3", "2.5", "7", "007", "100", "0.5", "1.5", "2.25", "0", "5.0", "2"}
	mixVals := append([]string{"abc", "", "x", "a,b,c"}, numVals...)
	feqKeys := []string{"", "a", "aa", "ab", "abc", "b", "b0", "ba", "c", "k", "ka", "kb", "12", "A", "zz"}
	feqStore := func(vals []string) [][2]string {
		out := [][2]string{}
		for _, k := range feqKeys {
			if r.chance(2, 3) {
				out = append(out, [2]string{k, pick(r, vals)})
			}
		}
		sort.Slice(out, func(i, j int) bool { return out[i][0] < out[j][0] })
		return out
	}
	for _, pred := range []string{"float(value) = 2.5", "float(value) != 0.5", "0.5 = float(value)", "int(value) = 12.0",
		"float(value) = int(value)", "int(value) != float(value)", "float(value) * 2 = 5.0", "key ^= 'a' & float(value) = 0.5",
		"float(value) != 9007199254740993", "9007199254740993 = float(value) + 9007199254740992", "int(value) * 0.5 = 3.5",
		"key >= 'b' | 1.5 = float(value) + 1", "!(float(value) = 100)", "float(strlen(key)) = strlen(value) / 2.0",
		"float(value) = float(value) & key != 'zz'", "float(value) - 2 = 0.25 | int(value) = 7"} {
		c01Case(e, pred, feqStore(numVals))
		c01Case(e, pred, feqStore(numVals))
		c01Case(e, pred, feqStore(mixVals))
	}
	return e.flush()
}
