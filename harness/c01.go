package main

// C01: `select * where P` returns exactly the pairs satisfying P, once each, in key order,
// with their stored values, in both iteration modes.  Predicates come from the typed grammar
// of the documented core language mixed with key-constraining atoms (so that every access
// path is exercised); stores are built from a literal pool closed under prefix/successor.

import (
	"fmt"
	"sort"
	"strings"

	kvql "github.com/c4pt0r/kvql"
)

func init() { registry["C01"] = runC01 }

type c01Replay struct {
	Query string      `json:"query"`
	Store [][2]string `json:"store"`
	Want  []string    `json:"keys_satisfying_P_by_full_filter,omitempty"`
	Got   []string    `json:"keys_returned,omitempty"`
	Mode  string      `json:"mode,omitempty"`
	Err   string      `json:"error,omitempty"`
}

func c01Store(r *rng, n int) [][2]string {
	keyPool := []string{"", "a", "a\x00", "aa", "ab", "ab\x00", "aba", "abc", "abd", "ac", "b", "b0", "ba", "bb", "c", "ca", "k", "ka", "kb", "x,y", "12", "A", "zz"}
	valPool := []string{"12", "-3", "2.5", "abc", "", "a,b,c", "7", "007", "x", "1e2", "a", "ab", "b", "100", "0.5",
		"9007199254740992", "9007199254740993", "9007199254740994"} // neighbours above 2^53: equal as float64, different as integers
	set := map[string]string{}
	for len(set) < n && len(set) < len(keyPool) {
		set[pick(r, keyPool)] = pick(r, valPool)
	}
	keys := make([]string, 0, len(set))
	for k := range set {
		keys = append(keys, k)
	}
	sort.Strings(keys)
	out := make([][2]string, len(keys))
	for i, k := range keys {
		out[i] = [2]string{k, set[k]}
	}
	return out
}

// c01SubexprFails: does some node of the tree fail (error or panic) on some stored pair when
// evaluated on its own?  Batch evaluation computes every node on every pair of a chunk, so an
// error in a batch drain is legitimate only then.
func c01SubexprFails(root kvql.Expression, store [][2]string) bool {
	fails := false
	root.Walk(func(n kvql.Expression) bool {
		for _, kv := range store {
			if _, err, pn := execRow(n, kv[0], kv[1], false); err != nil || pn != "" {
				fails = true
				return false
			}
		}
		return true
	})
	return fails
}

func c01Case(e *emitter, pred string, store [][2]string) {
	query := "select * where " + pred
	sel, err := parseWhere(pred)
	if err != nil {
		e.count("rejected")
		return
	}
	term, ok := coqExpr(sel.Where.Expr)
	if !ok {
		e.m.OutOfModel++
		return
	}
	// per-pair filter observations (row evaluator, cache off)
	obs := make([]string, len(store))
	var want []string
	evaluable := true
	for i, kv := range store {
		val, ferr, pn := execRow(sel.Where.Expr, kv[0], kv[1], false)
		obs[i] = coqObs(val, ferr, pn)
		if ferr != nil || pn != "" {
			evaluable = false
		} else if b, isb := val.(bool); isb && b {
			want = append(want, kv[0])
		} else if !isb {
			evaluable = false
		}
	}
	rp := c01Replay{Query: query, Store: store}
	type md struct {
		batch bool
		B     int
		cache bool
	}
	mds := []md{{false, 32, true}, {true, 2, true}, {true, 32, false}, {false, 3, false}}
	runsTerm := []string{}
	nontrivial := false
	var firstFail *implFail
	for _, m := range mds {
		st := newStore(store)
		res := runQuery(query, st, m.batch, m.B, m.cache)
		mode := fmt.Sprintf("batch=%v B=%d cache=%v", m.batch, m.B, m.cache)
		if res.Panic != "" {
			rp.Mode, rp.Err = mode, "panic: "+res.Panic
			firstFail = &implFail{What: "select panics", Sig: "C01/panic", Replay: rp}
			break
		}
		if res.Err != nil {
			if evaluable && !m.batch {
				rp.Mode, rp.Err = mode, res.Err.Error()
				firstFail = &implFail{What: "select fails although the predicate evaluates on every stored pair", Sig: "C01/error", Replay: rp}
				break
			}
			// batch evaluation may fail where row evaluation succeeds (no short-circuit): but
			// only when some sub-expression fails on some stored pair
			if evaluable && !c01SubexprFails(sel.Where.Expr, store) {
				rp.Mode, rp.Err = mode, res.Err.Error()
				firstFail = &implFail{What: "batch drain fails although every sub-expression of the predicate evaluates on every stored pair", Sig: "C01/batch-error", Replay: rp}
				break
			}
			e.count("drain_error")
			continue
		}
		rows := make([][2]string, 0, len(res.Rows))
		got := []string{}
		for _, row := range res.Rows {
			k, _ := row[0].([]byte)
			v, _ := row[1].([]byte)
			rows = append(rows, [2]string{string(k), string(v)})
			got = append(got, string(k))
		}
		runsTerm = append(runsTerm, coqPairs(rows))
		if len(rows) > 0 && len(rows) < len(store) {
			nontrivial = true
		}
		if evaluable && fmt.Sprint(got) != fmt.Sprint(want) && firstFail == nil {
			rp.Mode, rp.Want, rp.Got = mode, want, got
			firstFail = &implFail{What: "select * returns other rows than the filter applied to every stored pair", Sig: "C01/rows", Replay: rp}
		}
		if len(st.log) > 0 {
			for _, cl := range st.log {
				if isWrite(cl.Op) && firstFail == nil {
					firstFail = &implFail{What: "select issued a write", Sig: "C01/write", Replay: rp}
				}
			}
		}
	}
	storeTerm := make([]string, len(store))
	for i, kv := range store {
		storeTerm[i] = fmt.Sprintf("(%s, %s, %s)", coqStr(kv[0]), coqStr(kv[1]), obs[i])
	}
	idx := e.add(fmt.Sprintf("Case %s %s %s", term, coqList(storeTerm), coqList(runsTerm)), rp, nontrivial)
	if !evaluable {
		e.count("not_evaluable_on_every_pair")
	}
	if firstFail != nil {
		e.fail(idx, firstFail.What, firstFail.Sig, firstFail.Replay)
	}
	// access path taken (for the measured distribution)
	if plan, perr := kvql.NewOptimizer(query).BuildPlan(newStore(store)); perr == nil {
		if pp, ok := plan.(*kvql.ProjectionPlan); ok {
			e.count("scan=" + observeRegion(pp.ChildPlan).kind)
		}
	}
}

func runC01(c *runCtx) error {
	r := newRng(c.seed)
	header := "From Coq Require Import List String ZArith.\nFrom KV Require Import Base.Bytes Model.Ast Model.Value Model.ScanIO Corr.EvalCommon Corr.C01Text Corr.C01.\nImport ListNotations.\nOpen Scope string_scope.\n"
	e := newEmitter(c.out, "C01", header, 120)
	e.m.Rule = "predicates from the typed grammar of the documented core language (comparisons, prefix, IN, BETWEEN, logic, arithmetic over key/value/literals, conversion and string functions; depth <= 4) AND/OR-mixed with key-constraining atoms; stores of 0..23 pairs over a literal pool closed under prefix/successor; each statement drained row-at-a-time and in batches (B in {2,3,32}, cache on/off); non-trivial = some but not all pairs are returned; distinct = distinct (tree, store, runs) terms"
	n := 1500
	if c.thorough() || c.search {
		n = 24000
	}
	g := newEgen(r)
	g.coreOnly = true
	g.intLits = append(g.intLits, "9007199254740993", "9007199254740992")
	katoms := keyAtoms([]string{"", "a", "ab", "b", "c"}, false)
	// regular expressions are outside the Coq twin (oracle): these predicates are judged on the
	// Go side only (every drain against the row-at-a-time filter over the whole store)
	reAtoms := []string{"key ~= '^a'", "value ~= '^[0-9]+$'", "key ~= value", "value ~= key", "'ab' ~= value",
		"key ~= '.b'", "value ~= 'a|b'", "upper(key) ~= '^A'", "key ~= lower(value)"}
	genPred := func() string {
		var pred string
		switch r.intn(6) {
		case 5:
			pred = pick(r, reAtoms)
			if r.chance(1, 2) {
				pred = fmt.Sprintf("(%s) %s (%s)", pred, pick(r, []string{"&", "|"}), pick(r, katoms))
			}
		case 0:
			pred = pick(r, katoms)
		case 1:
			pred = fmt.Sprintf("(%s) %s (%s)", pick(r, katoms), pick(r, []string{"&", "|"}), g.gen(gBool, 1+r.intn(2)))
		case 2:
			pred = fmt.Sprintf("(%s) %s (%s)", g.gen(gBool, 1+r.intn(2)), pick(r, []string{"and", "or"}), pick(r, katoms))
		case 3:
			pred = fmt.Sprintf("((%s) | (%s)) & (%s)", pick(r, katoms), pick(r, katoms), g.gen(gBool, 1))
		default:
			pred = g.gen(gBool, 1+r.intn(4))
		}
		return pred
	}
	for i := 0; i < n; i++ {
		c01Case(e, genPred(), c01Store(r, r.intn(24)))
	}
	// = / != with a float operand (integer, float and mixed pairs).  The stores hold only values
	// whose float reading is inside the twin's float model (no 1e2, nothing >= 2^53), numeric
	// ones alone (evaluable on every pair) or mixed with texts that do not convert.
	numVals := []string{"12", "-3", "2.5", "7", "007", "100", "0.5", "1.5", "2.25", "0", "5.0", "2"}
	mixVals := append([]string{"abc", "", "x", "a,b,c"}, numVals...)
	feqKeys := []string{"", "a", "aa", "ab", "abc", "b", "b0", "ba", "c", "k", "ka", "kb", "12", "A", "zz"}
	feqStore := func(vals []string) [][2]string {
		out := [][2]string{}
		for _, k := range feqKeys {
			if r.chance(2, 3) {
				out = append(out, [2]string{k, pick(r, vals)})
			}
		}
		sort.Slice(out, func(i, j int) bool { return out[i][0] < out[j][0] })
		return out
	}
	for _, pred := range []string{"float(value) = 2.5", "float(value) != 0.5", "0.5 = float(value)", "int(value) = 12.0",
		"float(value) = int(value)", "int(value) != float(value)", "float(value) * 2 = 5.0", "key ^= 'a' & float(value) = 0.5",
		"float(value) != 9007199254740993", "9007199254740993 = float(value) + 9007199254740992", "int(value) * 0.5 = 3.5",
		"key >= 'b' | 1.5 = float(value) + 1", "!(float(value) = 100)", "float(strlen(key)) = strlen(value) / 2.0",
		"float(value) = float(value) & key != 'zz'", "float(value) - 2 = 0.25 | int(value) = 7"} {
		c01Case(e, pred, feqStore(numVals))
		c01Case(e, pred, feqStore(numVals))
		c01Case(e, pred, feqStore(mixVals))
	}
	// large stores with sparse matches (more than a thousand consecutive rejected pairs between
	// two accepted ones: scan budgets, refill loops, early end-of-result), and long key lists
	// (65, 66, 129 listed keys, alone and OR-ed / AND-ed with other key atoms: any threshold on
	// the number of point reads)
	{
		big := func(n int, hits map[int]bool) [][2]string {
			out := make([][2]string, n)
			for i := range out {
				v := "miss"
				if hits[i] {
					v = "hit"
				}
				out[i] = [2]string{fmt.Sprintf("k%04d", i), v}
			}
			return out
		}
		sizes := []int{1100, 2200}
		if c.thorough() {
			sizes = []int{1025, 1100, 2200, 4200}
		}
		for _, n := range sizes {
			st := big(n, map[int]bool{3: true, n - 100: true, n - 1: true})
			c01Case(e, "value = 'hit'", st)
			c01Case(e, "value = 'hit' | key = 'k0000'", st)
			c01Case(e, "key > 'k0001' & value = 'hit'", st)
		}
		st := big(200, map[int]bool{5: true, 77: true, 150: true, 199: true})
		for _, n := range []int{65, 66, 129} {
			ks := make([]string, n)
			for i := range ks {
				ks[i] = fmt.Sprintf("'k%04d'", (i*7)%200) // not in key order, some keys twice for n > 100
			}
			in := "key in (" + strings.Join(ks, ", ") + ", 'nokey')"
			c01Case(e, in, st)
			c01Case(e, in+" | key = 'k0199'", st)
			c01Case(e, "("+in+") & value = 'hit'", st)
			c01Case(e, in+" | key in ('k0198', 'k0001')", st)
			c01Case(e, "("+in+") & key in ('k0007', 'k0014', 'k0150', 'zz')", st)
		}
	}
	// key lists with REPEATED keys, adjacent and not, alone and combined (each stored pair once)
	for _, in := range []string{"key in ('c', 'a', 'c')", "key in ('a', 'b', 'a', 'b')", "key in ('b', 'a', 'a', 'b', 'c', 'a')",
		"key in ('c', 'a', 'c') & value != 'zz'", "key in ('c', 'a', 'c') | key = 'a'", "key in ('c', 'a', 'c') & key >= 'a'",
		"key in ('ab', 'a', 'ab', 'aa', 'a') & key ^= 'a'", "key = 'a' | key = 'b' | key = 'a'", "key in ('k', 'zz', 'k', '', 'zz', '')"} {
		for i := 0; i < 3; i++ {
			c01Case(e, in, c01Store(r, 12+r.intn(12)))
		}
	}
	// the same predicates as query TEXTS through the whole pipeline (Model/Pipeline.v)
	pbRun(c, e, r, genPred, katoms)
	return e.flush()
}

// ---------------------------------------------------------------------------------------------
// C01 from the query TEXT: kvql.NewOptimizer(q).BuildPlan(store) + drain against the Coq twin of
// the whole pipeline (Model/Pipeline.v select_text, evaluated by Corr/C01Text.v): lexer,
// statement parser, checker, function-call check, constant folding of the WHERE tree, region
// inference on the folded tree, scan node choice, scan + filter + `*` projection.

type pbReplay struct {
	Kind  string      `json:"kind"`
	Query string      `json:"query"`
	Store [][2]string `json:"store"`
	Want  []string    `json:"keys_satisfying_P_by_full_filter,omitempty"`
	Got   []string    `json:"keys_returned,omitempty"`
	Mode  string      `json:"mode,omitempty"`
	Err   string      `json:"error,omitempty"`
	Obs   []string    `json:"observed_per_mode,omitempty"`
	Scan  string      `json:"scan,omitempty"`
}

// pbTokens splits a generated predicate into lexical units: quoted texts, words, two-character
// operators, single characters.  (Only used to re-render it; the text that results is the input.)
func pbTokens(s string) []string {
	var out []string
	isWord := func(c byte) bool {
		return c == '_' || c == '.' || (c >= '0' && c <= '9') || (c >= 'a' && c <= 'z') || (c >= 'A' && c <= 'Z')
	}
	for i := 0; i < len(s); {
		c := s[i]
		switch {
		case c == ' ' || c == '\t' || c == '\n':
			i++
		case c == '\'' || c == '"' || c == '`':
			j := i + 1
			for j < len(s) && s[j] != c {
				j++
			}
			if j < len(s) {
				j++
			}
			out = append(out, s[i:j])
			i = j
		case isWord(c):
			j := i
			for j < len(s) && isWord(s[j]) {
				j++
			}
			out = append(out, s[i:j])
			i = j
		default:
			if i+1 < len(s) && s[i+1] == '=' && (c == '!' || c == '^' || c == '~' || c == '>' || c == '<') {
				out = append(out, s[i:i+2])
				i += 2
			} else {
				out = append(out, s[i:i+1])
				i++
			}
		}
	}
	return out
}

var pbCaseWords = map[string]bool{"select": true, "where": true, "and": true, "or": true, "in": true, "between": true,
	"key": true, "value": true, "true": true, "false": true, "int": true, "float": true, "str": true, "upper": true,
	"lower": true, "strlen": true, "substr": true, "is_int": true, "is_float": true}

func pbWordish(t string) bool {
	c := t[0]
	return c == '_' || c == '.' || (c >= '0' && c <= '9') || (c >= 'a' && c <= 'z') || (c >= 'A' && c <= 'Z')
}

// pbRender joins the units with varied spacing and keyword case.  style 0: single spaces, as
// written; 1: tight (no space where two units cannot fuse); 2: random blanks, tabs, newlines.
func pbRender(r *rng, toks []string, style int, mixCase bool) string {
	var b []byte
	for i, t := range toks {
		if mixCase && pbCaseWords[t] {
			switch r.intn(3) {
			case 0:
				t = strings.ToUpper(t)
			case 1:
				t = strings.ToUpper(t[:1]) + t[1:]
			}
		}
		if i > 0 {
			prev := toks[i-1]
			need := pbWordish(prev) && pbWordish(t)
			// an operator followed by `=` would fuse; `-`/`+` keep their neighbours as they are
			fuse := (t == "=" && strings.ContainsAny(prev[len(prev)-1:], "!^~<>=")) || prev == "-" || t == "-"
			switch style {
			case 0:
				if need || !(t == ")" || t == "," || prev == "(" || t == "(" && pbWordish(prev) && !pbKeyword(prev)) {
					b = append(b, ' ')
				}
			case 1:
				if need || fuse {
					b = append(b, ' ')
				}
			default:
				n := r.intn(3)
				if (need || fuse) && n == 0 {
					n = 1
				}
				for k := 0; k < n; k++ {
					b = append(b, pick(r, []byte{' ', ' ', ' ', ' ', '\t', '\n'}))
				}
			}
		}
		b = append(b, t...)
	}
	return string(b)
}

func pbKeyword(w string) bool {
	switch strings.ToLower(w) {
	case "and", "or", "in", "between", "where", "select":
		return true
	}
	return false
}

// pbText renders `select * where P` from a generated predicate.
func pbText(r *rng, pred string) string {
	for k := r.intn(3); k > 0 && r.chance(1, 2); k-- {
		pred = "(" + pred + ")"
	}
	head := "select * where"
	switch r.intn(5) {
	case 0:
		head = "where"
	case 1:
		head = "select*where"
	}
	toks := pbTokens(head + " " + pred)
	switch r.intn(6) {
	case 0:
		toks = append(toks, ";")
	case 1:
		toks = append(toks, ";", ";")
	}
	return pbRender(r, toks, r.intn(3), r.chance(1, 2))
}

// pbMangle: a malformed variant (a unit dropped, doubled, or the text cut).
func pbMangle(r *rng, q string) string {
	toks := pbTokens(q)
	if len(toks) < 2 {
		return q
	}
	i := r.intn(len(toks))
	switch r.intn(4) {
	case 0:
		toks = append(toks[:i:i], toks[i+1:]...)
	case 1:
		toks = append(toks[:i+1:i+1], toks[i:]...)
	case 2:
		toks = toks[:i+1]
	default:
		toks[i] = pick(r, []string{")", "(", ",", "=", "key", "'a'", "1", "and", "x", "!", "limit", "in"})
	}
	return pbRender(r, toks, 0, false)
}

// constant and foldable sub-predicates: what the constant folder rewrites before the region is
// inferred (comparisons of literals, literal arithmetic / concatenation / calls next to key)
var pbConstAtoms = []string{"1 = 1", "2 > 1", "'a' = 'b'", "1 + 1 = 2", "'a' + 'b' = 'ab'", "1 = 2", "'a' < 'b'",
	"upper('a') = 'A'", "strlen('abc') = 3", "2 * 3 != 6", "lower('B') ^= 'b'", "int('7') >= 7", "true", "false"}
var pbFoldAtoms = []string{"key = 'a' + 'b'", "key ^= lower('A')", "key between 'a' and 'a' + 'z'", "key in ('a', 'b' + 'c')",
	"key > upper('a')", "key = str(1 + 11)", "'a' + 'b' = key", "key <= 'b' + ''", "key = substr('xab', 1, 3)",
	"key ^= 'a' + 'b' & value = str(2 * 6)", "key in ('ab', 'a' + 'b')", "key >= lower('B') + '0'"}

// texts with a fixed reading: rejections of every front-end stage, the `*` field context,
// constant WHERE clauses, statement shapes outside the model
var pbDirected = []string{
	"select * where nofunc(key) = 'a'", "where int(value, 1) > 2", "select * where count(value) > 1",
	"where upper(key) = 'A' & sum(1) = 1", "where substr(key, 1) = 'a'", "select * where !is_int(value, 2)",
	"where key in ('a', nofunc('b'))", "where key = 'a' | strlen() = 0",
	"select * where `KEY` = 'a'", "where `KEY` = 'a'", "select * where `VALUE` ^= '1' | key = 'b'", "select * where `KEY`",
	"select * where `KEY` in ('a', 'ab') & `VALUE` != ''", "select * where upper(`KEY`) = 'A'", "where upper(`KEY`) = 'A'",
	"select * where `key` = 'a'", "select * where `Key` = 'a'",
	"select * where key", "where 1", "where true", "where false", "select * where false | key = 'a'", "where true & key ^= 'a'",
	"select *", "select", "where", "", ";", ";;", "select * where", "select * where ;", "select * from x where key = 'a'",
	"select *, key where key = 'a'", "select key, * where key = 'a'", "select * * where key = 'a'", "select where key = 'a'",
	"select * where key = 'a' limit 1", "select * where key = 'a' order by key", "select * where key = 'a' group by key",
	"select key where key = 'a'", "select key, value where key ^= 'a'", "delete where key = 'zzz'", "put ('zzz', 'b')", "remove 'zzz'",
	"select * where key = 'a' key", "select * where (key = 'a'", "select * where key = 'a')", "where key = ", "where = 'a'",
	"where key = 'a' &", "where key = 'a' and", "where key in ()", "where key in 'a'", "where key between 'a'", "where key between 'a' and",
	"where key = 1", "where value > 1", "where int(value) = 'a'", "where key + 1 = 'a'", "where key & value", "where !key",
	"where key = 'a' + 'b'", "where key ^= lower('A')", "where 1 = 1", "select * where 'a' = 'a' | key = 'zz'",
	"where 1 + 1 = 2 & key > 'b'", "where strlen('abc') = 3", "where upper('a') = 'A' & key < 'b'", "where !(1 = 2)", "where 1 = 2",
	"where key = 'a' & false", "where 2 > 1 and key ^= 'a'", "where key ^= 'a' or 1 = 2", "where (1 = 1 | key = 'a') & key != 'b'",
	"where key = 'a' | (1 = 1)", "where (key = 'a' | 1 = 1) & (key = 'b' | 2 = 2)", "where 'a' + 'b' = 'ab' & 'x' != 'y'",
	"where float(value) > 1.5", "where 1.5 + 1 = 2.5", "where int(value) / 0 = 1", "where int(value) / (1 - 1) = 1",
	"where key ~= '^a'", "where 1 = 1 | key ~= '^a'", "where key = 'a' & value ~= '1'",
	"WHERE KEY='a'OR KEY='b'", "select*where(key)=('a')", "where key='a'or key='b'", "where key=\"a\"", "where key = 'a' ; ",
	"where\tkey\n=\n'ab'", "  where key = 'a'", "where key = 'it''s'", "where key = 'a' -- x", "where key = 'a' 'b'",
	"where key in ('a','b',)", "where key in ('a' 'b')", "where (((key = 'a')))", "where ((key = 'a') | (key = 'b'))) ",
	"where value = '' | key = ''", "where key >= '' & key < 'b'", "where key > 'a' & key < 'a'", "where key between 'b' and 'a'",
	"where key between 'a' and 'a'", "where key in ('a', 'a', 'ab') | key ^= 'k'", "where key = 'a' & key = 'b'",
}

func pbScanTerm(p kvql.Plan) (term, kind string) {
	switch x := p.(type) {
	case *kvql.EmptyResultPlan:
		return "SEmpty", "EMPTY"
	case *kvql.MultiGetPlan:
		return "(SMget " + coqStrList(x.Keys) + ")", "MGET"
	case *kvql.PrefixScanPlan:
		return "(SPrefix " + coqStr(x.Prefix) + ")", "PREFIX"
	case *kvql.RangeScanPlan:
		return "(SRange " + coqOptStr(x.Start) + " " + coqOptStr(x.End) + ")", "RANGE"
	case *kvql.FullScanPlan:
		return "SFull", "FULL"
	}
	return "", fmt.Sprintf("?%T", p)
}

type pbMode struct {
	batch bool
	B     int
	cache bool
}

var pbModes = []pbMode{{false, 32, true}, {true, 2, false}, {true, 3, true}, {true, 32, false}}

// pbShape: is the statement `select * where P` / `where P` without ORDER BY, GROUP BY, LIMIT
// (judged on the statement the implementation parsed)?
func pbShape(stmt kvql.Statement) (*kvql.SelectStmt, bool) {
	sel, ok := stmt.(*kvql.SelectStmt)
	if !ok || sel == nil || !sel.AllFields || sel.Limit != nil || sel.Order != nil || sel.GroupBy != nil || sel.Where == nil {
		return nil, false
	}
	return sel, true
}

// pbShapeGuard mirrors Model/Pipeline.v shape_guard on the implementation's own tokens.
func pbShapeGuard(query string) (ok bool) {
	defer func() {
		if recover() != nil {
			ok = true
		}
	}()
	toks := kvql.NewLexer(query).Split()
	for _, t := range toks {
		if t.Tp == kvql.ORDER || t.Tp == kvql.GROUP {
			return false
		}
	}
	n := len(toks)
	for n > 1 && toks[n-1].Tp == kvql.SEMI {
		n--
	}
	toks = toks[:n]
	if len(toks) == 0 {
		return true
	}
	switch toks[0].Tp {
	case kvql.PUT, kvql.REMOVE, kvql.DELETE:
		return false
	case kvql.SELECT:
		if len(toks) == 1 {
			return true
		}
		t1 := toks[1]
		return (t1.Tp == kvql.OPERATOR && t1.Data == "*") || t1.Tp == kvql.WHERE
	}
	return true
}

func pbCase(e *emitter, query string, store [][2]string) {
	rp := pbReplay{Kind: "query text through NewOptimizer(q).BuildPlan(store), drained", Query: query, Store: store}
	// the tree the parser + checker leave (not folded); the reference for the direct verdict
	treeTerm := "None"
	var sel *kvql.SelectStmt
	func() {
		defer func() { recover() }()
		if stmt, err := kvql.NewParser(query).Parse(); err == nil {
			if s, ok := pbShape(stmt); ok {
				sel = s
				if t, okt := coqExpr(s.Where.Expr); okt {
					treeTerm = "(Some " + t + ")"
				}
			}
		}
	}()
	evaluable := sel != nil
	var want []string
	if sel != nil {
		for _, kv := range store {
			val, ferr, pn := execRow(sel.Where.Expr, kv[0], kv[1], false)
			if ferr != nil || pn != "" {
				evaluable = false
			} else if b, isb := val.(bool); isb && b {
				want = append(want, kv[0])
			} else if !isb {
				evaluable = false
			}
		}
	}
	index := map[string]int{}
	for i, kv := range store {
		index[kv[0]] = i
	}
	var firstFail *implFail
	fail := func(what, sig string) {
		if firstFail == nil {
			firstFail = &implFail{What: what, Sig: sig, Replay: rp}
		}
	}
	runs := []string{}
	nontrivial := false
	outcome := ""
	for _, m := range pbModes {
		st := newStore(store)
		res := runQuery(query, st, m.batch, m.B, m.cache)
		mcode := 0
		if m.batch {
			mcode = m.B
		}
		mode := fmt.Sprintf("batch=%v B=%d cache=%v", m.batch, m.B, m.cache)
		var obs string
		switch {
		case res.Panic != "":
			obs = "GPanic"
			rp.Mode, rp.Err = mode, "panic: "+res.Panic
			fail("select panics", "C01/text-panic")
		case res.Err != nil && res.BuildErr:
			if errClass(res.Err) == "syntax" {
				obs = fmt.Sprintf("GReject (%d)", errPos(res.Err))
			} else {
				obs = "GBuildErr"
			}
			outcome = "rejected"
		case res.Err != nil:
			obs = "GDrainErr"
			outcome = "accepted"
			if evaluable && (!m.batch || !c01SubexprFails(sel.Where.Expr, store)) {
				rp.Mode, rp.Err = mode, res.Err.Error()
				fail("select fails although the predicate evaluates on every stored pair", "C01/text-error")
			}
		default:
			outcome = "accepted"
			idx := make([]int, len(res.Rows))
			got := []string{}
			for i, row := range res.Rows {
				idx[i] = len(store)
				if len(row) == 2 {
					k, okk := row[0].([]byte)
					v, okv := row[1].([]byte)
					if j, have := index[string(k)]; okk && okv && have && store[j][1] == string(v) {
						idx[i] = j
					}
					got = append(got, string(k))
				} else {
					got = append(got, fmt.Sprintf("<row of %d columns>", len(row)))
				}
			}
			obs = "GRows " + coqNatList(idx)
			if len(idx) > 0 && len(idx) < len(store) {
				nontrivial = true
			}
			if sel != nil && evaluable && fmt.Sprint(got) != fmt.Sprint(want) {
				rp.Mode, rp.Want, rp.Got = mode, want, got
				fail("select * (from the query text) returns other rows than the filter applied to every stored pair", "C01/text-rows")
			}
		}
		for _, cl := range st.log {
			if isWrite(cl.Op) && sel != nil {
				fail("select issued a write", "C01/text-write")
			}
		}
		rp.Obs = append(rp.Obs, mode+": "+obs)
		runs = append(runs, fmt.Sprintf("(%d, %s)", mcode, obs))
	}
	scanTerm := "None"
	func() {
		defer func() { recover() }()
		if plan, perr := kvql.NewOptimizer(query).BuildPlan(newStore(store)); perr == nil {
			if pp, ok := plan.(*kvql.ProjectionPlan); ok {
				t, kind := pbScanTerm(pp.ChildPlan)
				if t != "" {
					scanTerm = "(Some " + t + ")"
				}
				rp.Scan = kind
				if sel != nil {
					e.count("text:scan=" + kind)
				}
			}
		}
	}()
	idx := e.add(fmt.Sprintf("Text (TCase %s %s %s %s %s)", coqStr(query), coqPairs(store), treeTerm, scanTerm, coqList(runs)), rp, nontrivial)
	// the model boundary as the Go side can see it (Model/Pipeline.v shape_guard; the Coq side
	// decides: code 99)
	if !pbShapeGuard(query) || (outcome == "accepted" && sel == nil) {
		e.count("text:outside_model_statement_shape")
	} else if strings.Contains(query, "~=") {
		e.count("text:regexp_operator(outside_model_when_reached)")
	}
	switch {
	case outcome == "accepted" && sel != nil:
		e.count("text:accepted")
		if !evaluable {
			e.count("text:accepted_not_evaluable_on_every_pair")
		}
	case outcome == "accepted":
		e.count("text:accepted_other_statement_shape")
	default:
		e.count("text:rejected")
	}
	if firstFail != nil {
		firstFail.Replay = rp
		e.fail(idx, firstFail.What, firstFail.Sig, firstFail.Replay)
	}
}

func pbRun(c *runCtx, e *emitter, r *rng, genPred func() string, katoms []string) {
	e.m.Rule += "; TEXT cases: the same predicates (plus constant / foldable sub-predicates AND/OR-mixed with key atoms, a directed list of rejections of every front-end stage, the `*` field context, statement shapes outside the model, and malformed variants) rendered as query texts with varied spacing, keyword case, `where P` without `select *`, trailing semicolons and extra parentheses; each text x store is run through kvql.NewOptimizer(q).BuildPlan(store) and drained row-at-a-time and in batches of 2, 3, 32, and compared with Model/Pipeline.v select_text on the text (rows, accept / reject, error position, checked tree, scan node)"
	n := 420
	if c.thorough() || c.search {
		n = 9000
	}
	store := func() [][2]string { return c01Store(r, r.intn(24)) }
	for _, q := range pbDirected {
		pbCase(e, q, store())
		if c.thorough() || c.search {
			pbCase(e, q, store())
			pbCase(e, pbRender(r, pbTokens(q), 2, true), store())
		}
	}
	for i := 0; i < n; i++ {
		var pred string
		switch r.intn(8) {
		case 0:
			pred = fmt.Sprintf("(%s) %s (%s)", pick(r, pbConstAtoms), pick(r, []string{"&", "|"}), pick(r, katoms))
		case 1:
			pred = fmt.Sprintf("(%s) %s (%s)", pick(r, katoms), pick(r, []string{"&", "|", "and", "or"}), pick(r, pbConstAtoms))
		case 2:
			pred = pick(r, pbFoldAtoms)
			if r.chance(1, 2) {
				pred = fmt.Sprintf("%s %s %s", pred, pick(r, []string{"&", "|"}), pick(r, append(pbConstAtoms[:12:12], katoms...)))
			}
		case 3:
			pred = fmt.Sprintf("((%s) | (%s)) & ((%s) | (%s))", pick(r, pbConstAtoms), pick(r, katoms), pick(r, pbFoldAtoms), pick(r, pbConstAtoms))
		default:
			pred = genPred()
		}
		q := pbText(r, pred)
		if r.chance(1, 7) {
			q = pbMangle(r, q)
		}
		pbCase(e, q, store())
	}
}
