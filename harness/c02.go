package main

// C02: every access path covers the filter.  Exhaustive predicate trees up to depth 2 (plus
// combinator-pair nestings of depth 3) over key-constraining atoms with the literal on either
// side and opaque atoms, over a literal pool; the key universe is closed under
// prefix/successor of the literals, so it realises every order/prefix relationship a key can
// have to them.  Observed: the scan node of the plan built by the real FilterOptimizer and
// the rows it yields vs. the filter applied to every stored pair.

import (
	"fmt"
	"sort"
	"strings"

	kvql "github.com/c4pt0r/kvql"
)

func init() { registry["C02"] = runC02 }

func q(s string) string { return "'" + s + "'" }

// keyAtoms returns the atom texts over the literal pool.
func keyAtoms(pool []string, full bool) []string {
	var out []string
	ops := []string{"=", ">", ">=", "<", "<=", "^="}
	for _, l := range pool {
		for _, op := range ops {
			out = append(out, fmt.Sprintf("key %s %s", op, q(l)))
			out = append(out, fmt.Sprintf("%s %s key", q(l), op))
		}
	}
	for i, a := range pool {
		out = append(out, fmt.Sprintf("key in (%s)", q(a)))
		for j, b := range pool {
			if !full && (i+j)%3 != 0 {
				continue
			}
			out = append(out, fmt.Sprintf("key in (%s, %s)", q(a), q(b)))
			out = append(out, fmt.Sprintf("key between %s and %s", q(a), q(b)))
			if i == j {
				out = append(out, fmt.Sprintf("key in (%s, %s, %s)", q(a), q(b), q(a)))
			}
		}
	}
	return out
}

var opaqueAtoms = []string{"value = 'x'", "true", "false", "!(key = 'a')", "value ^= 'y'", "key = value",
	// IN lists with an element that is not a literal (depends on the pair, or is a constant call):
	// the planner may only use point reads when every element is a literal
	"value = ''", "value != 'x'",
	"key in ('a', value)", "key in (value, 'b')", "key in ('a', upper(value))", "key in ('a', lower('B'))",
	"key in ('ab', 'a' + 'b')", "key between 'a' and value", "key = upper('a')", "key > lower(value)"}

type scanObs struct {
	region string // Gallina term
	kind   string
}

func observeRegion(p kvql.Plan) scanObs {
	switch x := p.(type) {
	case *kvql.EmptyResultPlan:
		return scanObs{"REmpty", "EMPTY"}
	case *kvql.MultiGetPlan:
		return scanObs{"(RMget " + coqStrList(x.Keys) + ")", "MGET"}
	case *kvql.PrefixScanPlan:
		return scanObs{"(RPrefix " + coqStr(x.Prefix) + ")", "PREFIX"}
	case *kvql.RangeScanPlan:
		return scanObs{"(RRange " + coqOptStr(x.Start) + " " + coqOptStr(x.End) + ")", "RANGE"}
	case *kvql.FullScanPlan:
		return scanObs{"RFull", "FULL"}
	}
	return scanObs{"RFull", fmt.Sprintf("?%T", p)}
}

// universe: every string over {a,b,c} up to length 3, the empty key, and for every literal its
// immediate successors/predecessors in byte order (lit+"\x00", lit+"\xff", lit minus last byte
// plus "\xff")
func c02Universe(pool []string) [][2]string {
	set := map[string]bool{"": true}
	var rec func(s string, d int)
	rec = func(s string, d int) {
		set[s] = true
		if d == 0 {
			return
		}
		for _, c := range "abc" {
			rec(s+string(c), d-1)
		}
	}
	rec("", 3)
	for _, l := range pool {
		set[l+"\x00"] = true
		set[l+"\xff"] = true
		set[l+"0"] = true
		if len(l) > 0 {
			set[l[:len(l)-1]+string(l[len(l)-1]-1)+"\xff"] = true
		}
	}
	keys := make([]string, 0, len(set))
	for k := range set {
		keys = append(keys, k)
	}
	sort.Strings(keys)
	out := make([][2]string, len(keys))
	for i, k := range keys {
		v := "y" + k
		if i%3 == 0 {
			v = "x"
		}
		if i%5 == 2 || k == "ac" || k == "c" {
			v = k // a pair whose value equals its key (key in (.., value), key = value)
		}
		if i%7 == 3 || k == "ab" || k == "b" {
			v = "" // a stored pair with an empty value is still a pair (also under point reads)
		}
		out[i] = [2]string{k, v}
	}
	return out
}

type c02Replay struct {
	Query    string   `json:"query"`
	Region   string   `json:"observed_region"`
	Missing  []string `json:"rows_lost,omitempty"`
	Extra    []string `json:"rows_extra,omitempty"`
	Mode     string   `json:"mode,omitempty"`
	Err      string   `json:"error,omitempty"`
	Universe int      `json:"universe_size"`
}

func drainScan(p kvql.Plan, batch bool, B int) (keys []string, err error, pn string) {
	defer func() {
		if r := recover(); r != nil {
			pn = fmt.Sprint(r)
		}
	}()
	kvql.PlanBatchSize = B
	ctx := kvql.NewExecuteCtx()
	if err = p.Init(); err != nil {
		return
	}
	for i := 0; i < maxPolls; i++ {
		if batch {
			rows, e := p.Batch(ctx)
			if e != nil {
				return keys, e, ""
			}
			if len(rows) == 0 {
				return
			}
			for _, r := range rows {
				keys = append(keys, string(r.Key))
			}
			ctx.Clear()
		} else {
			k, v, e := p.Next(ctx)
			if e != nil {
				return keys, e, ""
			}
			if k == nil && v == nil {
				return
			}
			keys = append(keys, string(k))
		}
	}
	return keys, nil, "TIMEOUT"
}

func c02Case(e *emitter, pred string, univ [][2]string, st *refStore, modes bool) {
	query := "select * where " + pred
	stmt, err := kvql.NewParser(query).Parse()
	if err != nil {
		e.count("rejected")
		return
	}
	sel, ok := stmt.(*kvql.SelectStmt)
	if !ok {
		return
	}
	term, okT := coqExpr(sel.Where.Expr)
	if !okT {
		e.m.OutOfModel++
		return
	}
	filter := &kvql.FilterExec{Ast: sel.Where}
	// reference: the filter applied to every stored pair
	var want []string
	evaluable := true
	for _, kv := range univ {
		ok, ferr := filter.Filter(kvql.NewKVPStr(kv[0], kv[1]), kvql.NewExecuteCtx())
		if ferr != nil {
			evaluable = false
			break
		}
		if ok {
			want = append(want, kv[0])
		}
	}
	plan := kvql.NewFilterOptimizer(sel.Where, st, filter).Optimize()
	obs := observeRegion(plan)
	e.count("scan=" + obs.kind)
	rp := c02Replay{Query: query, Region: obs.region, Universe: len(univ)}
	idx := e.add(fmt.Sprintf("Case %s %s", term, obs.region), rp, obs.kind != "FULL")
	if !evaluable {
		e.count("not_evaluable_on_every_pair")
		return
	}
	type md struct {
		batch bool
		B     int
	}
	mds := []md{{false, 32}}
	if modes {
		mds = append(mds, md{true, 3}, md{true, 32})
	}
	for _, m := range mds {
		plan = kvql.NewFilterOptimizer(sel.Where, st, filter).Optimize()
		got, gerr, pn := drainScan(plan, m.batch, m.B)
		rp.Mode = fmt.Sprintf("batch=%v B=%d", m.batch, m.B)
		if m.batch && gerr != nil && pn == "" {
			// batch evaluation does not short-circuit AND/OR, so it may fail where the
			// row-at-a-time filter succeeds (C03 states the property in the other direction)
			// -- only when some sub-expression fails on some pair of the universe
			if !c01SubexprFails(sel.Where.Expr, univ) {
				rp.Err = fmt.Sprint(gerr)
				e.fail(idx, "batch scan failed although every sub-expression evaluates on every pair: "+rp.Err, "C02/batch-error", rp)
				return
			}
			e.count("batch_mode_error_skipped")
			continue
		}
		if pn != "" || gerr != nil {
			rp.Err = fmt.Sprint(gerr, pn)
			e.fail(idx, "scan failed: "+rp.Err, "C02/scan-error", rp)
			return
		}
		if strings.Join(got, "\x00") != strings.Join(want, "\x00") {
			ws := map[string]bool{}
			for _, k := range want {
				ws[k] = true
			}
			gs := map[string]bool{}
			for _, k := range got {
				gs[k] = true
				if !ws[k] {
					rp.Extra = append(rp.Extra, k)
				}
			}
			for _, k := range want {
				if !gs[k] {
					rp.Missing = append(rp.Missing, k)
				}
			}
			what := "the narrowed scan returns other rows than the filter over a full scan"
			if len(rp.Missing) > 0 {
				what = "the narrowed scan loses rows that satisfy the filter"
			}
			e.fail(idx, what, "C02/rows", rp)
			return
		}
	}
}

func runC02(c *runCtx) error {
	r := newRng(c.seed)
	pool := []string{"", "a", "ab", "b"}
	if c.thorough() || c.search {
		pool = []string{"", "a", "ab", "abc", "b", "ba", "c"}
	}
	univ := c02Universe([]string{"", "a", "ab", "abc", "b", "ba", "c"})
	st := newStore(univ)
	header := "From Coq Require Import List String ZArith.\nFrom KV Require Import Model.Value Corr.EvalCommon Model.SelectPlans Corr.C03Stmt Corr.C03Text.\nFrom KV Require Model.Order Spec.Group Corr.C02Text.\nFrom KV Require Import Base.Bytes Model.Ast Model.FilterOpt Corr.C02.\nImport ListNotations.\nOpen Scope string_scope.\n" +
		"Notation case := xcase (only parsing).\nNotation Case := XCase (only parsing).\n" +
		"Definition univ : list (bytes * bytes) := " + coqPairs(univ) + ".\nDefinition mismatches := xmismatches_with univ.\n"
	e := newEmitter(c.out, "C02", header, 1200)
	e.m.Rule = "all predicate trees of depth <= 2 (atom, atom AND/OR atom) over key atoms (each comparison and prefix test with the literal on either side, IN of 1-3 literals with repeats, BETWEEN in and out of order) and opaque atoms, over the literal pool; plus seeded depth-3/4 nestings exercising combinator pairs; non-trivial = the observed access path is not a full scan; distinct = distinct (tree, region) terms"
	atoms := append(keyAtoms(pool, c.thorough()), opaqueAtoms...)
	for _, a := range atoms {
		c02Case(e, a, univ, st, true)
	}
	// depth 2: all pairs (quick tier: a deterministic third)
	n := 0
	for i, a := range atoms {
		for j, b := range atoms {
			for _, op := range []string{"&", "|"} {
				n++
				// quick tier: every pair of range-producing atoms (the interval case analysis is
				// where a slip hides), a deterministic fifth of the other pairs
				rangeish := func(t string) bool {
					return strings.Contains(t, ">") || strings.Contains(t, "<") || strings.Contains(t, "between")
				}
				if !c.thorough() && !c.search && !(rangeish(a) && rangeish(b)) && (i*7+j*3+len(op))%5 != int(c.seed%5) {
					continue
				}
				c02Case(e, fmt.Sprintf("(%s) %s (%s)", a, op, b), univ, st, n%4 == 0)
			}
		}
	}
	// deeper nestings, seeded
	deep := 1500
	if c.thorough() || c.search {
		deep = 30000
	}
	var gen func(d int) string
	gen = func(d int) string {
		if d == 0 || r.chance(1, 4) {
			return pick(r, atoms)
		}
		op := pick(r, []string{"&", "|", "and", "or"})
		return fmt.Sprintf("(%s) %s (%s)", gen(d-1), op, gen(d-1))
	}
	for i := 0; i < deep; i++ {
		c02Case(e, gen(2+r.intn(3)), univ, st, i%5 == 0)
	}
	// long key lists: 65 / 66 / 129 listed keys (every stored key of the universe plus keys that
	// are not stored), alone and OR-ed / AND-ed with other key atoms -- any threshold on the number
	// of point reads, any order dependence of merged key lists
	for _, n := range []int{65, 66, 129} {
		ks := []string{}
		for i := 0; len(ks) < n; i++ {
			if i < len(univ) {
				ks = append(ks, q(univ[(i*7)%len(univ)][0]))
			} else {
				ks = append(ks, q(fmt.Sprintf("zq%03d", i)))
			}
		}
		in := "key in (" + strings.Join(ks, ", ") + ")"
		for _, t := range []string{in, in + " | key = 'abc'", in + " | key in ('zz', 'a')", "(" + in + ") & key in ('a', 'ab', 'nokey')",
			"(" + in + ") & value = 'x'", "(" + in + ") & key >= 'b'", in + " | key ^= 'c'"} {
			c02Case(e, t, univ, st, true)
		}
	}
	// text level: narrowed vs forced full scan on whole statement texts (harness/c02text.go)
	ntStream(c, e, r)
	e.m.Exhaustive = c.thorough()
	return e.flush()
}
