package main

// C02, text stream (nt): "narrowed vs full scan" on whole statement TEXTS.  A case is one SELECT or
// DELETE text on one store.  The Go side runs it twice:
//   narrowed  kvql.NewOptimizer(q).BuildPlan(store) drained, as every caller does;
//   full      SELECT: the same built plan walked down through its public fields (FinalLimitPlan /
//             FinalOrderPlan .ChildPlan, ProjectionPlan / AggregatePlan .ChildPlan) to the scan node
//             (MultiGetPlan / PrefixScanPlan / RangeScanPlan / EmptyResultPlan), which is REPLACED by
//             &FullScanPlan{Storage, Filter: the scan node's own Filter} (EmptyResultPlan carries no
//             filter: the WHERE clause of the parsed statement), Init re-run on the whole plan;
//             DELETE: DeletePlan [over LimitPlan] over a FullScanPlan whose filter is the WHERE clause
//             of the parsed statement, on a second copy of the store.
//             The harness asserts on plan.Explain() that the forced plan scans with FullScanPlan and
//             no other scan node; otherwise the case is counted outside the model, never passed.
// Observed: rows / error per iteration mode (SELECT), the final store (DELETE).  The Coq side
// (Corr/C02Text.v) compares the whole text twin with the narrowed run (code 1) and the narrowed run
// with the full-scan run (code 2).

import (
	"fmt"
	"strings"

	kvql "github.com/c4pt0r/kvql"
)

var ntModes = []int{0, 2, 32}

type ntReplay struct {
	Kind     string      `json:"kind"`
	Query    string      `json:"query"`
	Store    [][2]string `json:"store"`
	Plan     string      `json:"plan_narrowed,omitempty"`
	PlanFull string      `json:"plan_forced_full,omitempty"`
	Narrow   []string    `json:"observed_narrowed"`
	Full     []string    `json:"observed_full_scan"`
}

var ntWhere = []string{
	"key = 'k1'", "key ^= 'k'", "key ^= 'k1'", "key > 'a' & key <= 'k3'", "key >= 'k2'", "key < 'k2'", "key > 'k1'",
	"key in ('k1', 'k3', 'zz')", "key between 'a' and 'k2'", "key = 'k1' | key = 'k3'", "key ^= 'k1' | key ^= 'a'",
	"key ^= 'k' & value != '2'", "(key > 'k1' & key < 'k4') | key = 'a'", "key in ('k1', 'k2') & value != 'x'",
	"key > 'b' and key ^= 'k'", "key ^= 'k' or key > 'z'", "key = 'k2' & key = 'k3'", "key >= 'k1' & key <= 'k1'",
	"'k2' < key", "key between 'k2' and 'a'", "key in ('k3', 'k1', 'k3') | key > 'z'", "(key ^= 'k' | key = 'a') & int(value) > 1",
}

var ntSelects = []struct {
	fields, group string
	orders        []string
}{
	{"*", "", []string{"value desc", "key", "key desc"}},
	{"key, value", "", []string{"value desc", "key desc", "value, key desc"}},
	{"upper(value) as u, key", "", []string{"u", "key desc"}},
	{"key, int(value) + 1 as n", "", []string{"n desc", "n, key"}},
	{"count(1), sum(int(value))", "", nil},
	{"count(1) as c, min(key) as lo, max(key) as hi", "", nil},
	{"value, count(1) as c", "value", []string{"value", "c desc, value"}},
	{"value, group_concat(key, ',') as ks", "value", []string{"value desc"}},
}

var ntTails = []string{"", " limit 2", " limit 1, 2", " limit 0", " limit 1, 100"}

var ntDeletes = []string{
	"delete where key ^= 'k1'", "delete where key = 'k2'", "delete where key in ('k1', 'k3', 'zz') limit 1", "delete where key in ('k1', 'k3', 'zz')",
	"delete where key > 'a' & key <= 'k3'", "delete where key ^= 'k' limit 1, 2", "delete where key = 'k1' | key = 'a'", "delete where key ^= 'k' & value != '2'",
	"delete where key = 'k2' & key = 'k3' limit 1", "delete where key between 'a' and 'k2'", "delete where key >= 'k2' limit 2", "delete where key in ('k1', 'k2') & value != 'x'",
	// the delete->remove shortcut must NOT be taken: the value predicate rejects some of the listed, stored keys
	"delete where key in ('k1', 'k2', 'k3') & value != '2'", "delete where key in ('k1', 'k3', 'k4') and value = '1'", "delete where key in ('k3', 'k1') & value = '1' limit 1",
}

var ntStores = [][][2]string{
	{{"a", "4"}, {"k1", "1"}, {"k2", "2"}, {"k3", "2"}, {"k4", "1"}, {"k5", "3"}, {"zz", "9"}},
	{{"a", "2"}, {"ab", "1"}, {"k", "5"}, {"k1", "2"}, {"k10", "7"}, {"k2", "2"}, {"k3", "1"}, {"kk", "5"}, {"z", "1"}, {"zz", "2"}},
	// a pair outside most regions whose value int() rejects: the full scan may fail where the narrowed one completes
	{{"b", "1"}, {"k1", "7"}, {"k2", "7"}, {"k3", "3"}, {"m", "x"}, {"zz", "0"}},
}

const ntScanNodes = "MultiGetPlan|PrefixScanPlan|RangeScanPlan|EmptyResultPlan"

func ntExplainOK(ex []string) (string, bool) {
	s := strings.Join(ex, " <- ")
	if !strings.Contains(s, "FullScanPlan") {
		return s, false
	}
	for _, n := range strings.Split(ntScanNodes, "|") {
		if strings.Contains(s, n) {
			return s, false
		}
	}
	return s, true
}

// ntForceFull replaces the scan node under a built SELECT plan by a FullScanPlan
func ntForceFull(plan kvql.FinalPlan, st kvql.Storage, q string) (string, bool) {
	filterOf := func(child kvql.Plan) *kvql.FilterExec {
		switch x := child.(type) {
		case *kvql.MultiGetPlan:
			return x.Filter
		case *kvql.PrefixScanPlan:
			return x.Filter
		case *kvql.RangeScanPlan:
			return x.Filter
		case *kvql.FullScanPlan:
			return x.Filter
		case *kvql.EmptyResultPlan:
			stmt, err := kvql.NewParser(q).Parse()
			if err != nil {
				return nil
			}
			if sel, ok := stmt.(*kvql.SelectStmt); ok && sel.Where != nil {
				return &kvql.FilterExec{Ast: sel.Where}
			}
		}
		return nil
	}
	var cur any = plan
	for depth := 0; depth < 8; depth++ {
		switch x := cur.(type) {
		case *kvql.FinalLimitPlan:
			cur = x.ChildPlan
			continue
		case *kvql.FinalOrderPlan:
			cur = x.ChildPlan
			continue
		case *kvql.ProjectionPlan:
			f := filterOf(x.ChildPlan)
			if f == nil {
				return fmt.Sprintf("no filter under %T", x.ChildPlan), false
			}
			x.ChildPlan = &kvql.FullScanPlan{Storage: st, Filter: f}
		case *kvql.AggregatePlan:
			f := filterOf(x.ChildPlan)
			if f == nil {
				return fmt.Sprintf("no filter under %T", x.ChildPlan), false
			}
			x.ChildPlan = &kvql.FullScanPlan{Storage: st, Filter: f}
		default:
			return fmt.Sprintf("unexpected node %T", cur), false
		}
		break
	}
	if err := plan.Init(); err != nil {
		return "Init of the forced plan: " + err.Error(), false
	}
	return ntExplainOK(plan.Explain())
}

// ntRunFull: BuildPlan, force the full scan, drain
func ntRunFull(q string, kvs [][2]string, batch bool, B int) (res runResult, explain string, forced bool) {
	defer func() {
		if r := recover(); r != nil {
			res.Panic = fmt.Sprint(r)
		}
	}()
	kvql.PlanBatchSize = B
	kvql.EnableFieldCache = false
	st := newStore(kvs)
	p, err := kvql.NewOptimizer(q).BuildPlan(st)
	if err != nil {
		res.Err, res.BuildErr = err, true
		return res, "", true
	}
	explain, forced = ntForceFull(p, st, q)
	if !forced {
		return
	}
	return drainPlan(p, batch, res), explain, true
}

func ntGroups(obs []string, modes []int) string {
	groups := []string{}
	modesOf := map[string][]int{}
	for i, o := range obs {
		if _, have := modesOf[o]; !have {
			groups = append(groups, o)
		}
		modesOf[o] = append(modesOf[o], modes[i])
	}
	runs := make([]string, len(groups))
	for i, o := range groups {
		runs[i] = fmt.Sprintf("(%s, %s)", coqNatList(modesOf[o]), o)
	}
	return coqList(runs)
}

func ntShort(s string) string {
	if len(s) > 200 {
		return s[:200] + "..."
	}
	return s
}

func ntSelectCase(e *emitter, q string, kvs [][2]string, bucket string) {
	rp := ntReplay{Kind: "SELECT text: NewOptimizer(q).BuildPlan(store) drained as built (narrowed) vs the same plan with its scan node replaced by FullScanPlan", Query: q, Store: kvs}
	var plan kvql.FinalPlan
	var nObs, fObs []string
	for _, m := range ntModes {
		B := m
		if m == 0 {
			B = 32
		}
		res, p := c03w2Run(q, kvs, m != 0, B)
		if plan == nil && p != nil {
			plan = p
		}
		full, explain, forced := ntRunFull(q, kvs, m != 0, B)
		if !forced {
			e.m.OutOfModel++
			e.count("nt:full_scan_not_forced(" + ntShort(explain) + ")")
			return
		}
		rp.PlanFull = explain
		nObs, fObs = append(nObs, psObs(res)), append(fObs, psObs(full))
		rp.Narrow = append(rp.Narrow, fmt.Sprintf("mode %d: %s", m, ntShort(nObs[len(nObs)-1])))
		rp.Full = append(rp.Full, fmt.Sprintf("mode %d: %s", m, ntShort(fObs[len(fObs)-1])))
		if full.Err != nil && !full.BuildErr && res.Err == nil {
			e.count("nt:full_scan_fails_narrowed_completes(no reference)")
		}
	}
	planTerm, scanKind := "None", "-"
	if plan != nil {
		parts := &c03w2Parts{}
		shape, ok := c03w2Walk(plan, parts)
		var scanTerm string
		scanTerm, scanKind = psScan(plan)
		types := make([]string, len(plan.FieldTypeList()))
		for i, t := range plan.FieldTypeList() {
			types[i] = c03w2TypeCtor[t]
		}
		rp.Plan = strings.Join(plan.Explain(), " <- ")
		if ok && scanTerm != "" {
			planTerm = fmt.Sprintf("(Some (%s, %s, %s, %s))", coqStrList(plan.FieldNameList()), coqList(types), shape, scanTerm)
		}
	}
	e.add(fmt.Sprintf("CaseNT (C02Text.NTCase (PSCase %s %s %s %s) %s)", coqStr(q), coqPairs(kvs), planTerm, ntGroups(nObs, ntModes), ntGroups(fObs, ntModes)),
		rp, scanKind != "FULL" && plan != nil)
	e.count("nt:select scan=" + scanKind)
	e.count("nt:class=" + bucket)
}

func ntDObs(res runResult, st *refStore) string {
	switch {
	case res.Panic != "":
		return "C02Text.DFail"
	case res.Err != nil && res.BuildErr && errClass(res.Err) == "syntax":
		return fmt.Sprintf("(C02Text.DRej (%d))", errPos(res.Err))
	case res.Err != nil:
		return "C02Text.DFail"
	}
	return "(C02Text.DFinal " + coqPairs(st.pairs()) + ")"
}

func ntDeleteCase(e *emitter, q string, kvs [][2]string, batch bool, B int) {
	rp := ntReplay{Kind: fmt.Sprintf("DELETE text (batch=%v, PlanBatchSize %d): final store after NewOptimizer(q).BuildPlan(store) polled until nil (narrowed) vs DeletePlan [LimitPlan] over FullScanPlan with the parsed WHERE clause on a second copy", batch, B), Query: q, Store: kvs}
	kvql.PlanBatchSize = B
	kvql.EnableFieldCache = false
	// narrowed
	st1 := newStore(kvs)
	var nres runResult
	func() {
		defer func() {
			if r := recover(); r != nil {
				nres.Panic = fmt.Sprint(r)
			}
		}()
		p, err := kvql.NewOptimizer(q).BuildPlan(st1)
		if err != nil {
			nres.Err, nres.BuildErr = err, true
			return
		}
		rp.Plan = strings.Join(p.Explain(), " <- ")
		nres = drainPlan(p, batch, nres)
	}()
	// forced full scan
	st2 := newStore(kvs)
	var fres runResult
	forced := true
	func() {
		defer func() {
			if r := recover(); r != nil {
				fres.Panic = fmt.Sprint(r)
			}
		}()
		stmt, err := kvql.NewParser(q).Parse()
		if err != nil {
			fres.Err, fres.BuildErr = err, true
			return
		}
		del, ok := stmt.(*kvql.DeleteStmt)
		if !ok || del.Where == nil {
			forced = false
			return
		}
		var child kvql.Plan = &kvql.FullScanPlan{Storage: st2, Filter: &kvql.FilterExec{Ast: del.Where}}
		if del.Limit != nil {
			child = &kvql.LimitPlan{Storage: st2, Start: del.Limit.Start, Count: del.Limit.Count, ChildPlan: child}
		}
		p := &kvql.DeletePlan{Storage: st2, ChildPlan: child}
		if err := p.Init(); err != nil {
			fres.Err = err
			return
		}
		rp.PlanFull, forced = ntExplainOK(p.Explain())
		if !forced {
			return
		}
		fres = drainPlan(p, batch, fres)
	}()
	if !forced {
		e.m.OutOfModel++
		e.count("nt:full_scan_not_forced(delete: " + ntShort(rp.PlanFull) + ")")
		return
	}
	no, fo := ntDObs(nres, st1), ntDObs(fres, st2)
	rp.Narrow, rp.Full = []string{ntShort(no)}, []string{ntShort(fo)}
	e.add(fmt.Sprintf("CaseND (C02Text.NDCase %s %s %d %s %s)", coqStr(q), coqPairs(kvs), B, no, fo), rp, true)
	e.count("nt:delete")
}

func ntStream(c *runCtx, e *emitter, r *rng) {
	e.m.Rule += "; nt: statement TEXTS -- SELECT with field lists / aliases, ORDER BY, LIMIT, GROUP BY and aggregates over key-pinning WHERE clauses (=, ^=, ranges, IN, BETWEEN, AND / OR, mixed with value predicates), DELETE with and without LIMIT -- x 3 stores of 6..10 pairs x {row, batch 2, 32}: kvql.NewOptimizer(q).BuildPlan(store) drained as built vs THE SAME plan with its scan node replaced by FullScanPlan (asserted on Explain) -- rows / final store must agree (code 2), and the whole text twins select_stmt_text / delete_text must agree with the narrowed run (code 1) (Corr/C02Text.v)"
	per := 1
	if c.thorough() || c.search {
		per = 6
	}
	// every WHERE clause x every select list at least once; tails and ORDER BY seeded
	for wi, wh := range ntWhere {
		for si, s := range ntSelects {
			for k := 0; k < per; k++ {
				if per == 1 && (wi+si)%3 != int(c.seed%3) && si != wi%len(ntSelects) {
					continue
				}
				q := "select " + s.fields + " where " + wh
				bucket := "projection"
				if s.group != "" {
					q += " group by " + s.group
				}
				if strings.Contains(s.fields, "(1)") || s.group != "" {
					bucket = "aggregate"
				}
				if len(s.orders) > 0 && r.chance(2, 3) {
					q += " order by " + pick(r, s.orders)
					bucket += "+order"
				}
				if t := pick(r, ntTails); t != "" {
					q += t
					bucket += "+limit"
				}
				ntSelectCase(e, q, ntStores[r.intn(len(ntStores))], bucket)
			}
		}
	}
	for _, q := range ntDeletes {
		for si, kvs := range ntStores {
			ntDeleteCase(e, q, kvs, si%2 == 1, []int{32, 2, 1}[si])
		}
	}
}
