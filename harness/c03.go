package main

// C03: row-at-a-time and batch iteration give the same result at any batch size.
//
//  part A  expression level (CaseE): typed expressions from the full grammar (all scalar
//          functions, IN over lists and list values, BETWEEN, aliases), ill-typed shapes
//          that the checker does not see (inside `!( )`), on chunks of stored pairs:
//          Expression.Execute on every pair vs Expression.ExecuteBatch on the chunk.
//          Coq side: Model/Eval.v and Model/EvalVec.v evaluated on the same trees.
//  part B  node level (CaseS, modelled): FullScanPlan + ProjectionPlan built from the checked
//          statement, drained in both modes on stores of 0..3B+1 pairs, B in {1,2,3,5,32};
//          Coq side: Model/ScanProj.v (refill logic, batch boundaries) on the same input.
//          The same with a FinalLimitPlan on top (CaseL): Model/LimitLazy.v, incl. predicates that
//          fail on pairs the limit may or may not reach.
//  part C  statement level (CaseS, verdict only): whole statements through BuildPlan with
//          ORDER BY, GROUP BY + aggregates, LIMIT, narrowed scans, cache on and off.
//
// In all parts the Go side judges the implementation directly: batch mode completed
// without error => row mode completed without error with the same rows (inside runs of
// rows that tie under ORDER BY: the same multiset).  Batch mode failing where row mode
// succeeds is the documented asymmetry and is only counted.

import (
	"fmt"
	"math"
	"sort"
	"strings"

	kvql "github.com/c4pt0r/kvql"
)

func init() { registry["C03"] = runC03 }

type c03Replay struct {
	Kind    string      `json:"kind"`
	Expr    string      `json:"expression,omitempty"`
	Query   string      `json:"query,omitempty"`
	B       int         `json:"batch_size,omitempty"`
	Cache   bool        `json:"field_cache"`
	Pairs   [][2]string `json:"pairs"`
	What    string      `json:"what,omitempty"`
	RowObs  string      `json:"row_mode,omitempty"`
	BatObs  string      `json:"batch_mode,omitempty"`
	AtPair  string      `json:"at_pair,omitempty"`
	Plan    string      `json:"plan,omitempty"`
	BatLens []int       `json:"batch_sizes,omitempty"`
}

// ------------------------------------------------------------------ expressions

// the reference pairs of evalgen.go without the exponent text "1e2": glued to a digit by join or +
// it becomes 1e22, and Base/Flt.v's decimal fast path is only right up to 1e18 (pow10f goes
// through float64(int64)); C03 is not about float parsing
var c03Pairs = func() [][2]string {
	out := append([][2]string{}, evalPairs...)
	for i := range out {
		if out[i][1] == "1e2" {
			out[i][1] = "1.5"
		}
	}
	return out
}()

// c03Parse returns the expression to evaluate.  mode 0: checked select field; 1: the operand of
// a `!( )` field (NotExpr.Check does not look inside: ill-typed shapes reach the evaluator);
// 2: a field that may use the aliases u, n, l, f.
const c03AliasPrefix = "upper(key) as u, int(value) as n, split(value, ',') as l, float(value) as f, "

func c03Parse(expr string, mode int) (kvql.Expression, error) {
	switch mode {
	case 1:
		fe, err := parseField("!(" + expr + ")")
		if err != nil {
			return nil, err
		}
		ne, ok := fe.(*kvql.NotExpr)
		if !ok {
			return nil, fmt.Errorf("not a NotExpr")
		}
		return ne.Right, nil
	case 2:
		stmt, err := kvql.NewParser("select " + c03AliasPrefix + expr + " where key != 'zzzz'").Parse()
		if err != nil {
			return nil, err
		}
		sel, ok := stmt.(*kvql.SelectStmt)
		if !ok || len(sel.Fields) != 5 {
			return nil, fmt.Errorf("not a five-field select")
		}
		return sel.Fields[4], nil
	}
	return parseField(expr)
}

func coqBobs(vals []any, err error, pn string, n int) string {
	if pn != "" {
		return "BPanic"
	}
	if err != nil {
		o := coqObs(nil, err, "")
		return "(BErr" + strings.TrimPrefix(strings.TrimSuffix(o, ")"), "(OErr") + ")"
	}
	p := make([]string, len(vals))
	for i, v := range vals {
		p[i] = coqCanon(v)
	}
	return "(BVals " + coqList(p) + ")"
}

func c03HasAlias(e kvql.Expression) bool {
	found := false
	var walk func(x kvql.Expression)
	walk = func(x kvql.Expression) {
		switch v := x.(type) {
		case *kvql.FieldReferenceExpr:
			found = true
		case *kvql.BinaryOpExpr:
			walk(v.Left)
			walk(v.Right)
		case *kvql.NotExpr:
			walk(v.Right)
		case *kvql.FunctionCallExpr:
			for _, a := range v.Args {
				walk(a)
			}
		case *kvql.ListExpr:
			for _, a := range v.List {
				walk(a)
			}
		case *kvql.FieldAccessExpr:
			walk(v.Left)
		}
	}
	walk(e)
	return found
}

func c03ExprCase(e *emitter, expr string, mode int, chunk [][2]string, bucket string) {
	fe, err := c03Parse(expr, mode)
	if err != nil {
		e.count("rejected")
		return
	}
	if len(chunk) == 0 && c03HasAlias(fe) {
		// FieldReferenceExpr.ExecuteBatch reads chunk[0]; no plan passes an empty chunk
		return
	}
	term, ok := coqExpr(fe)
	if !ok {
		e.m.OutOfModel++
		return
	}
	obs := make([]string, len(chunk))
	rowCanon := make([]string, len(chunk))
	rowBad := make([]string, len(chunk))
	for i, kv := range chunk {
		val, err, pn := execRow(fe, kv[0], kv[1], false)
		obs[i] = coqObs(val, err, pn)
		switch {
		case pn != "":
			rowBad[i] = "panic: " + pn
		case err != nil:
			rowBad[i] = "error: " + err.Error()
		default:
			rowCanon[i] = canonCol(val)
		}
	}
	fe2, _ := c03Parse(expr, mode)
	vals, berr, bpn := execBatch(fe2, chunk, false)
	rp := c03Replay{Kind: "expression", Expr: expr, Pairs: chunk}
	if mode == 1 {
		rp.Kind = "expression (operand of !( ), not type-checked)"
	} else if mode == 2 {
		rp.Kind = "expression (select " + c03AliasPrefix + "<expression>)"
	}
	bad := ""
	if bpn == "" && berr == nil {
		if len(vals) != len(chunk) {
			bad = "batch evaluation returned a result vector of the wrong length"
			rp.What = fmt.Sprintf("ExecuteBatch returned %d values for %d pairs", len(vals), len(chunk))
		} else {
			for i := range chunk {
				if rowBad[i] != "" || canonCol(vals[i]) != rowCanon[i] {
					bad = "batch evaluation succeeded but row evaluation fails or gives different content"
					rp.AtPair = fmt.Sprintf("%q=%q", chunk[i][0], chunk[i][1])
					rp.RowObs, rp.BatObs = rowCanon[i]+rowBad[i], canonCol(vals[i])
					break
				}
			}
		}
	}
	idx := e.add(fmt.Sprintf("CaseE %s %s %s", term, coqObsRows(chunk, obs), coqBobs(vals, berr, bpn, len(chunk))), rp, true)
	e.count(bucket)
	if bad == "" && mode == 0 && len(chunk) > 0 {
		// the plans run the FOLDED tree: batch evaluation of the folded tree against row evaluation
		if fe3, err3 := c03Parse(expr, mode); err3 == nil {
			var folded kvql.Expression
			func() {
				defer func() { recover() }()
				eo := kvql.ExpressionOptimizer{Root: fe3}
				folded = eo.Optimize()
			}()
			if folded != nil {
				fvals, fberr, fbpn := execBatch(folded, chunk, false)
				switch {
				case fbpn != "":
					allRowOk := true
					for i := range chunk {
						if rowBad[i] != "" {
							allRowOk = false
						}
					}
					if allRowOk {
						bad = "batch evaluation of the constant-folded expression panics where row evaluation returns values"
						rp.What = "panic: " + fbpn
					}
				case fberr == nil && len(fvals) == len(chunk):
					for i := range chunk {
						if rowBad[i] != "" {
							continue // folding may remove a failing operand (C04 speaks of pairs on which the original evaluates)
						}
						if canonCol(fvals[i]) != rowCanon[i] {
							bad = "batch evaluation of the constant-folded expression gives other content than row evaluation of the expression"
							rp.AtPair = fmt.Sprintf("%q=%q", chunk[i][0], chunk[i][1])
							rp.RowObs, rp.BatObs = rowCanon[i]+rowBad[i], canonCol(fvals[i])
							break
						}
					}
				}
				e.count("folded_batch_checked")
			}
		}
	}
	e.count(fmt.Sprintf("chunk_len=%d", len(chunk)))
	switch {
	case bpn != "":
		e.count("batch_panic")
	case berr != nil:
		e.count("batch_error")
		allok := true
		for i := range chunk {
			if rowBad[i] != "" {
				allok = false
			}
		}
		if allok && len(chunk) > 0 {
			e.count("batch_error_but_every_row_ok(allowed asymmetry)")
		}
	default:
		e.count("batch_ok")
	}
	if bad != "" {
		e.fail(idx, bad, "C03/expr-row-vs-batch", rp)
	}
}

// ill-typed and boundary shapes for mode 1 (operands of `!( )`)
func c03Unchecked(r *rng) string {
	strs := []string{"key", "value", "'a'", "'ab'", "upper(key)", "zz", "(key + 'x')", "str(1)", "substr(value, 0, 1)"}
	nums := []string{"1", "2", "int(value)", "strlen(key)", "0.5", "float(value)", "(int(value) / (int(value) - 7))", "len(value)"}
	bools := []string{"true", "false", "(key = 'a')", "is_int(value)", "(int(value) > 2)"}
	lists := []string{"split(value, ',')", "list(1, 2)", "int_list(1, value)", "float_list(0.5, 2)", "l0", "str(key)", "list(value, 2)"}
	anyOf := func() string {
		switch r.intn(4) {
		case 0:
			return pick(r, strs)
		case 1:
			return pick(r, nums)
		case 2:
			return pick(r, bools)
		}
		return pick(r, lists)
	}
	switch r.intn(12) {
	case 0:
		return fmt.Sprintf("%s between %s and %s", anyOf(), anyOf(), anyOf())
	case 1:
		return fmt.Sprintf("%s in (%s, %s)", anyOf(), anyOf(), anyOf())
	case 2:
		return fmt.Sprintf("%s in %s", anyOf(), anyOf())
	case 3:
		return fmt.Sprintf("%s %s %s", anyOf(), pick(r, []string{"=", "!="}), anyOf())
	case 4:
		return fmt.Sprintf("%s %s %s", anyOf(), pick(r, []string{"&", "|", "and", "or"}), anyOf())
	case 5:
		return fmt.Sprintf("%s %s %s", anyOf(), pick(r, []string{"<", "<=", ">", ">="}), anyOf())
	case 6:
		return fmt.Sprintf("%s %s %s", anyOf(), pick(r, []string{"+", "-", "*", "/"}), anyOf())
	case 7:
		return fmt.Sprintf("%s %s %s", anyOf(), pick(r, []string{"^=", "~="}), pick(r, []string{"'a'", "key", "1"}))
	case 8:
		return fmt.Sprintf("%s(%s)", pick(r, []string{"upper", "lower", "int", "float", "str", "is_int", "is_float", "len", "strlen"}), anyOf())
	case 9:
		return fmt.Sprintf("%s[%s]", anyOf(), pick(r, []string{"0", "1", "'a'"}))
	case 10:
		return fmt.Sprintf("%s(%s, %s)", pick(r, []string{"split", "join", "cosine_distance", "l2_distance", "list", "int_list", "float_list"}), anyOf(), anyOf())
	default:
		return fmt.Sprintf("substr(%s, %s, %s)", anyOf(), anyOf(), anyOf())
	}
}

func c03Chunks(r *rng) [][][2]string {
	full := c03Pairs
	// a random sub-sequence in random order: the first pair decides `=`'s kind in batch mode
	n := 1 + r.intn(5)
	sub := make([][2]string, n)
	for i := range sub {
		sub[i] = full[r.intn(len(full))]
	}
	return [][][2]string{full, sub}
}

// ------------------------------------------------------------------ statements

type c03Store struct {
	kvs [][2]string
}

var c03Values = []string{"12", "-3", "2.5", "abc", "", "a,b,c", "7", "007", "x", "3", "10", "1,2", "0.5", "A", "2", "h\u00e9llo", "\u65e5\u672c"}

func c03MakeStore(r *rng, n int, intsOnly bool) [][2]string {
	kvs := make([][2]string, 0, n)
	for i := 0; i < n; i++ {
		k := fmt.Sprintf("k%02d", i)
		switch i % 7 {
		case 1:
			k = fmt.Sprintf("a%02d", i)
		case 4:
			k = fmt.Sprintf("ab%02d", i)
		case 6:
			k = fmt.Sprintf("b%02d", i)
		}
		v := pick(r, c03Values)
		if intsOnly {
			v = fmt.Sprint(r.intn(9) - 2)
		}
		kvs = append(kvs, [2]string{k, v})
	}
	sort.Slice(kvs, func(i, j int) bool { return kvs[i][0] < kvs[j][0] })
	return kvs
}

func coqSobs(res runResult, k int) string {
	if res.Panic != "" {
		return "SPanic"
	}
	if res.Err != nil {
		o := coqObs(nil, res.Err, "")
		return "(SErr" + strings.TrimPrefix(strings.TrimSuffix(o, ")"), "(OErr") + ")"
	}
	rows := c03NormTies(res.Rows, k)
	p := make([]string, len(rows))
	for i, row := range rows {
		c := make([]string, len(row))
		for j, col := range row {
			c[j] = coqCanon(col)
		}
		p[i] = coqList(c)
	}
	return "(SRows " + coqList(p) + ")"
}

// c03NormTies sorts the rows inside every run of rows whose first k columns are equal (the
// ORDER BY keys are the first k selected columns): inside such a run the property asks for the
// same multiset only.  k = 0: the order is fully determined, nothing is touched; k < 0: the
// whole result is one multiset.
func c03NormTies(rows [][]kvql.Column, k int) [][]kvql.Column {
	if k == 0 || len(rows) < 2 {
		return rows
	}
	out := append([][]kvql.Column{}, rows...)
	keyOf := func(r []kvql.Column) string {
		if k < 0 {
			return ""
		}
		kk := k
		if kk > len(r) {
			kk = len(r)
		}
		return canonRow(r[:kk])
	}
	i := 0
	for i < len(out) {
		j := i + 1
		for j < len(out) && keyOf(out[j]) == keyOf(out[i]) {
			j++
		}
		run := out[i:j]
		sort.SliceStable(run, func(a, b int) bool { return canonRow(run[a]) < canonRow(run[b]) })
		i = j
	}
	return out
}

func c03Outcome(res runResult, k int) string {
	if res.Panic != "" {
		return "panic: " + res.Panic
	}
	if res.Err != nil {
		return "error: " + res.Err.Error()
	}
	return fmt.Sprintf("%d rows: %q", len(res.Rows), canonRows(c03NormTies(res.Rows, k)))
}

// c03Verdict is the property on the implementation's own outputs.
func c03Verdict(row, bat runResult, k int) string {
	if bat.Panic != "" || bat.Err != nil {
		return ""
	}
	if row.Panic != "" {
		return "batch iteration completed, row-at-a-time iteration panicked"
	}
	if row.Err != nil {
		return "batch iteration completed without error, row-at-a-time iteration failed"
	}
	a, b := canonRows(c03NormTies(row.Rows, k)), canonRows(c03NormTies(bat.Rows, k))
	if len(a) != len(b) {
		return fmt.Sprintf("row-at-a-time iteration returned %d rows, batch iteration %d", len(a), len(b))
	}
	for i := range a {
		if a[i] != b[i] {
			return fmt.Sprintf("row %d differs between row-at-a-time and batch iteration", i)
		}
	}
	return ""
}

// c03RunNode drains FullScanPlan + ProjectionPlan built from the checked statement (no
// folding, no scan narrowing): exactly what Model/ScanProj.v models.
func c03RunNode(q string, kvs [][2]string, batch bool, B int) (res runResult) {
	return c03RunNodeLimit(q, kvs, batch, B, -1, -1)
}

// c03RunNodeLimit: the same with a FinalLimitPlan on top when start >= 0 (Model/LimitLazy.v).
func c03RunNodeLimit(q string, kvs [][2]string, batch bool, B, start, count int) (res runResult) {
	defer func() {
		if r := recover(); r != nil {
			res.Panic = fmt.Sprint(r)
		}
	}()
	kvql.PlanBatchSize = B
	kvql.EnableFieldCache = false
	stmt, err := kvql.NewParser(q).Parse()
	if err != nil {
		res.Err, res.BuildErr = err, true
		return
	}
	sel, ok := stmt.(*kvql.SelectStmt)
	if !ok {
		res.Err, res.BuildErr = fmt.Errorf("not a select"), true
		return
	}
	st := newStore(kvs)
	scan := kvql.NewFullScanPlan(st, &kvql.FilterExec{Ast: sel.Where})
	plan := &kvql.ProjectionPlan{Storage: st, ChildPlan: scan, AllFields: sel.AllFields,
		FieldNames: sel.FieldNames, FieldTypes: sel.FieldTypes, Fields: sel.Fields}
	var final kvql.FinalPlan = plan
	if start >= 0 {
		final = &kvql.FinalLimitPlan{Storage: st, Start: start, Count: count, FieldNames: plan.FieldNameList(),
			FieldTypes: plan.FieldTypeList(), ChildPlan: plan}
	}
	if err := final.Init(); err != nil {
		res.Err = err
		return
	}
	return drainPlan(final, batch, res)
}

func c03LimitCase(e *emitter, fields, where string, kvs [][2]string, B, start, count int) {
	q := "select " + fields + " where " + where
	stmt, err := kvql.NewParser(q).Parse()
	if err != nil {
		e.count("rejected")
		return
	}
	sel := stmt.(*kvql.SelectStmt)
	wt, ok := coqExpr(sel.Where.Expr)
	ft := "None"
	if !sel.AllFields {
		p := make([]string, len(sel.Fields))
		for i, f := range sel.Fields {
			var okf bool
			p[i], okf = coqExpr(f)
			ok = ok && okf
		}
		ft = "(Some " + coqList(p) + ")"
	}
	if !ok {
		e.m.OutOfModel++
		return
	}
	row := c03RunNodeLimit(q, kvs, false, B, start, count)
	bat := c03RunNodeLimit(q, kvs, true, B, start, count)
	rp := c03Replay{Kind: "node: FinalLimitPlan + ProjectionPlan + FullScanPlan from the checked statement",
		Query: fmt.Sprintf("%s limit %d, %d", q, start, count), B: B, Pairs: kvs,
		Plan: "FinalLimitPlan <- ProjectionPlan <- FullScanPlan", BatLens: bat.BatchLen}
	bad := c03Verdict(row, bat, 0)
	if bad != "" {
		rp.What, rp.RowObs, rp.BatObs = bad, c03Outcome(row, 0), c03Outcome(bat, 0)
	}
	term := fmt.Sprintf("CaseL %s %s %d %d %d %s %s %s", wt, ft, B, start, count, coqPairs(kvs), coqSobs(row, 0), coqSobs(bat, 0))
	idx := e.add(term, rp, len(kvs) > 0)
	c03CountStmt(e, "limit-node", row, bat, B, len(kvs))
	if row.Err == nil && bat.Err == nil && row.Panic == "" && bat.Panic == "" {
		// would the unlimited statement fail?  then the limit stopped before the failing pair
		un := c03RunNode(q, kvs, true, B)
		if un.Err != nil {
			e.count("limit-node:stops_before_a_failing_pair")
		}
	}
	if bad != "" {
		e.fail(idx, bad, "C03/node-row-vs-batch", rp)
	}
}

func c03NodeCase(e *emitter, fields, where string, kvs [][2]string, B int) {
	q := "select " + fields + " where " + where
	stmt, err := kvql.NewParser(q).Parse()
	if err != nil {
		e.count("rejected")
		return
	}
	sel := stmt.(*kvql.SelectStmt)
	wt, ok := coqExpr(sel.Where.Expr)
	ft := "None"
	if !sel.AllFields {
		p := make([]string, len(sel.Fields))
		for i, f := range sel.Fields {
			var okf bool
			p[i], okf = coqExpr(f)
			ok = ok && okf
		}
		ft = "(Some " + coqList(p) + ")"
	}
	if !ok {
		e.m.OutOfModel++
		return
	}
	row := c03RunNode(q, kvs, false, B)
	bat := c03RunNode(q, kvs, true, B)
	rp := c03Replay{Kind: "node: FullScanPlan + ProjectionPlan from the checked statement", Query: q, B: B, Pairs: kvs,
		Plan: "ProjectionPlan <- FullScanPlan", BatLens: bat.BatchLen}
	term := fmt.Sprintf("CaseS true %s %s %d %s %s %s %s", wt, ft, B, coqPairs(kvs), coqSobs(row, 0), coqSobs(bat, 0), coqNatList(bat.BatchLen))
	bad := c03Verdict(row, bat, 0)
	if bad != "" {
		rp.What, rp.RowObs, rp.BatObs = bad, c03Outcome(row, 0), c03Outcome(bat, 0)
	}
	idx := e.add(term, rp, len(kvs) > 0)
	c03CountStmt(e, "node", row, bat, B, len(kvs))
	if bad != "" {
		e.fail(idx, bad, "C03/node-row-vs-batch", rp)
	}
}

func c03CountStmt(e *emitter, kind string, row, bat runResult, B, n int) {
	e.count("kind=" + kind)
	e.count(fmt.Sprintf("B=%d", B))
	switch {
	case n == 0:
		e.count("store=empty")
	case n < B:
		e.count("store<B")
	case n == B:
		e.count("store=B")
	case n <= 2*B:
		e.count("store in (B,2B]")
	default:
		e.count("store>2B")
	}
	switch {
	case bat.Panic != "" || row.Panic != "":
		e.count(kind + ":panic")
	case bat.Err != nil && row.Err != nil:
		e.count(kind + ":both_modes_fail")
	case bat.Err != nil:
		e.count(kind + ":batch_fails_row_ok(allowed asymmetry)")
	case row.Err != nil:
		e.count(kind + ":row_fails_batch_ok")
	default:
		e.count(kind + ":both_ok")
		switch {
		case len(bat.Rows) == 0:
			e.count(kind + ":result=empty")
		case len(bat.Rows) < B:
			e.count(kind + ":result<B")
		case len(bat.Rows) == B:
			e.count(kind + ":result=B")
		default:
			e.count(kind + ":result>B")
		}
	}
}

// whole statements through BuildPlan.  tieCols: number of leading columns that are the ORDER BY
// keys (0: order fully determined).
func c03StmtCase(e *emitter, q string, kvs [][2]string, B int, cache bool, tieCols int, bucket string) {
	st := newStore(kvs)
	row := runQuery(q, st.clone(), false, B, cache)
	if row.BuildErr {
		e.count("rejected")
		return
	}
	bat := runQuery(q, st.clone(), true, B, cache)
	plan := ""
	func() {
		defer func() { recover() }()
		kvql.PlanBatchSize = B
		if p, err := kvql.NewOptimizer(q).BuildPlan(st.clone()); err == nil {
			plan = strings.Join(p.Explain(), " <- ")
			if i := strings.Index(plan, "{"); i > 0 {
				kinds := []string{}
				for _, x := range p.Explain() {
					if j := strings.Index(x, "{"); j > 0 {
						x = x[:j]
					}
					kinds = append(kinds, x)
				}
				plan = strings.Join(kinds, " <- ")
			}
		}
	}()
	rp := c03Replay{Kind: "statement", Query: q, B: B, Cache: cache, Pairs: kvs, Plan: plan, BatLens: bat.BatchLen}
	term := fmt.Sprintf("CaseS false (EBool 0 true) None %d [] %s %s []", B, coqSobs(row, tieCols), coqSobs(bat, tieCols))
	bad := c03Verdict(row, bat, tieCols)
	if bad != "" {
		rp.What, rp.RowObs, rp.BatObs = bad, c03Outcome(row, tieCols), c03Outcome(bat, tieCols)
	}
	idx := e.add(term, rp, len(kvs) > 0)
	c03CountStmt(e, "stmt", row, bat, B, len(kvs))
	e.count(bucket)
	for _, k := range strings.Split(plan, " <- ") {
		if k != "" {
			e.count("plan:" + k)
		}
	}
	if cache {
		e.count("cache=on")
	} else {
		e.count("cache=off")
	}
	if bad != "" {
		e.fail(idx, bad, "C03/stmt-row-vs-batch", rp)
	}
}

// predicates for statements: value-dependent, key-dependent (narrowed scans), failing on some
// pairs (division by zero on value 7, BETWEEN with equal bounds)
func c03Where(r *rng, g *egen) string {
	switch r.intn(16) {
	case 0, 10:
		return "key != 'zzzz'"
	case 11, 12, 13, 14, 15:
		return pick(r, []string{"strlen(value) < 3", "value != 'x'", "!(value = '7')", "is_int(value) | strlen(value) > 2", "int(value) >= 0", "value < 'b'"})
	case 1:
		return pick(r, []string{"key ^= 'k'", "key ^= 'a'", "key > 'b'", "key between 'a' and 'k10'", "key in ('k00', 'k02', 'a01', 'nokey', 'k09')", "key = 'k03' | key = 'k07'", "key >= 'ab' & key < 'k05'"})
	case 2:
		return pick(r, []string{"int(value) > 2", "int(value) between 0 and 9", "is_int(value)", "value in ('7', '12', 'x')", "'a' in split(value, ',')", "strlen(value) < 3", "int(value) in (3, 7, 12)", "float(value) >= 2.5", "float(value) = 2.5", "int(value) != float(value)", "7.0 = int(value)"})
	case 3:
		return pick(r, []string{"10 / (int(value) - 7) > 1", "int(value) between strlen(value) and 7", "value between key and 'zz'"})
	case 4:
		return "key ^= 'k' & (" + g.gen(gBool, 1) + ")"
	default:
		return g.gen(gBool, 1+r.intn(2))
	}
}

func c03Fields(r *rng, g *egen) string {
	switch r.intn(8) {
	case 0:
		return "*"
	case 1:
		return "key, value"
	case 2:
		return "key, int(value) as n, n + 1"
	case 3:
		return "key, upper(value) as u, u + key, strlen(u)"
	case 4:
		return "key, split(value, ',') as l, l[0], len(l), 'a' in l"
	default:
		n := 1 + r.intn(3)
		fs := []string{"key"}
		for i := 0; i < n; i++ {
			fs = append(fs, g.gen(pick(r, []gty{gStr, gInt, gFlt, gBool, gList}), 1+r.intn(2)))
		}
		return strings.Join(fs, ", ")
	}
}

func c03Sizes(B int) []int {
	if B >= 32 {
		return []int{0, 1, B - 1, B, B + 1, 2 * B, 2*B + 1, 3*B + 1}
	}
	out := []int{}
	for n := 0; n <= 3*B+1; n++ {
		out = append(out, n)
	}
	return out
}

func runC03(c *runCtx) error {
	r := newRng(c.seed)
	header := "From Coq Require Import List String ZArith.\nFrom KV Require Import Base.Bytes Model.Ast Model.Value Corr.EvalCommon Corr.C03.\nFrom KV Require Import Model.SelectPlans Corr.C03Stmt Corr.C03Text.\nFrom KV Require Model.Order Spec.Group.\nImport ListNotations.\nOpen Scope string_scope.\nNotation case := xcase (only parsing).\nNotation mismatches := xmismatches (only parsing).\nNotation CaseE := XCaseE (only parsing).\nNotation CaseS := XCaseS (only parsing).\nNotation CaseL := XCaseL (only parsing).\n"
	e := newEmitter(c.out, "C03", header, 120)
	e.m.Rule = "A: typed expressions (all scalar functions, IN, BETWEEN, aliases; depth <= 3) and ill-typed shapes hidden from the checker inside !( ), each on the 11 reference pairs and on a random chunk whose first pair varies; B: FullScanPlan+ProjectionPlan from checked statements x stores of every size 0..3B+1 x B in {1,2,3,5,32}; C: whole statements (ORDER BY with and without ties, GROUP BY with every aggregate, LIMIT, narrowed scans, cache on/off) x the same stores and batch sizes; non-trivial = non-empty input accepted by the parser; distinct = distinct Gallina terms"
	thorough := c.thorough() || c.search
	g := newEgen(r)

	// ---------------- part A
	// every vector function body and every operator on fixed argument pools
	texts := []string{"key", "value", "'Ab,c'", "upper(value)", "(key + value)"}
	for _, t := range texts {
		for _, f := range []string{"upper", "lower", "strlen", "int", "float", "str", "is_int", "is_float", "len"} {
			c03ExprCase(e, fmt.Sprintf("%s(%s)", f, t), 0, c03Pairs, "fn="+f)
		}
		for _, s := range []string{"','", "'a'", "''", "key"} {
			c03ExprCase(e, fmt.Sprintf("split(%s, %s)", t, s), 0, c03Pairs, "fn=split")
			c03ExprCase(e, fmt.Sprintf("join(%s, %s, 'x', 3)", s, t), 0, c03Pairs, "fn=join")
			c03ExprCase(e, fmt.Sprintf("split(%s, %s)[1]", t, s), 0, c03Pairs, "index")
		}
		for _, a := range []string{"0", "1", "strlen(key)"} {
			for _, b := range []string{"0", "2", "100", "int(value)"} {
				c03ExprCase(e, fmt.Sprintf("substr(%s, %s, %s)", t, a, b), 0, c03Pairs, "fn=substr")
			}
		}
		for _, a := range []string{"0 - 3", "1 - 2", "0 - int(value)"} { // literals only the folder can build
			for _, b := range []string{"2", "0 - 1"} {
				c03ExprCase(e, fmt.Sprintf("substr(%s, %s, %s)", t, a, b), 0, c03Pairs, "fn=substr/computed-position")
			}
		}
		c03ExprCase(e, fmt.Sprintf("%s in ('a', '12', key)", t), 0, c03Pairs, "in-list")
		c03ExprCase(e, fmt.Sprintf("%s in split(value, ',')", t), 0, c03Pairs, "in-fn")
		c03ExprCase(e, fmt.Sprintf("%s between 'a' and 'kb'", t), 0, c03Pairs, "between")
		c03ExprCase(e, fmt.Sprintf("%s between key and 'kb'", t), 0, c03Pairs, "between")
	}
	lists := []string{"split(value, ',')", "list(1, 2, 3)", "list(0.5, 2)", "int_list(1, '2', value)", "float_list(1, 0.5)", "ilist(7)", "flist(2)", "list(value, 2)", "list(int(value), 1)"}
	for _, l := range lists {
		c03ExprCase(e, l, 0, c03Pairs, "list-ctor")
		c03ExprCase(e, "len("+l+")", 0, c03Pairs, "fn=len")
		c03ExprCase(e, l+"[0]", 0, c03Pairs, "index")
		c03ExprCase(e, l+"[2]", 0, c03Pairs, "index")
		c03ExprCase(e, "int(value) in "+l, 0, c03Pairs, "in-fn")
		c03ExprCase(e, "value in "+l, 0, c03Pairs, "in-fn")
		for _, l2 := range lists[:5] {
			c03ExprCase(e, fmt.Sprintf("l2_distance(%s, %s)", l, l2), 0, c03Pairs, "fn=l2_distance")
			c03ExprCase(e, fmt.Sprintf("cosine_distance(%s, %s)", l, l2), 0, c03Pairs, "fn=cosine_distance")
		}
	}
	nums := []string{"int(value)", "strlen(key)", "2", "float(value)", "0.5"}
	for _, a := range nums {
		for _, b := range nums {
			for _, op := range []string{"+", "-", "*", "/", ">", "<=", "=", "!="} {
				c03ExprCase(e, fmt.Sprintf("%s %s %s", a, op, b), 0, c03Pairs, "num-op")
			}
			c03ExprCase(e, fmt.Sprintf("%s between %s and 7", a, b), 0, c03Pairs, "between")
			c03ExprCase(e, fmt.Sprintf("%s in (%s, 2, 12)", a, b), 0, c03Pairs, "in-list")
		}
	}
	// the documented asymmetry and its neighbours: batch & / | evaluate both sides
	for _, x := range []string{
		"key = 'zz' & 10 / (int(value) - 7) > 0", "key != 'zz' | 10 / (int(value) - 7) > 0",
		"10 / (int(value) - 7) > 0 & key = 'zz'", "is_int(value) & int(value) / int(value) = 1",
		"!(key = 'a') and value between key and 'zz'", "key = 'a' or value between 'b' and 'a'"} {
		c03ExprCase(e, x, 0, c03Pairs, "asymmetry")
		c03ExprCase(e, x, 0, c03Pairs[:1], "asymmetry")
		c03ExprCase(e, x, 0, c03Pairs[6:7], "asymmetry")
	}
	// aliases
	for _, x := range []string{"u + 'x'", "n + 1", "'a' in l", "n in (1, 2, 12)", "u = 'A'", "len(l)", "l[0]", "l[1] + u",
		"n between 1 and 20", "u between 'A' and 'KB'", "f * 2", "f > n", "n in l", "join(',', u, n)", "list(n, f)", "substr(u, 0, n)",
		"f = n", "n != f", "f = 0.5", "f != 2.25", "1.5 = f"} {
		c03ExprCase(e, x, 2, c03Pairs, "alias")
		c03ExprCase(e, x, 2, c03Pairs[2:5], "alias")
	}
	// arity and unknown functions
	for _, x := range []string{"upper()", "upper(key, key)", "join()", "join(',')", "substr(key, 1)", "list()", "split(key)", "nosuchfn(key)", "len()"} {
		c03ExprCase(e, x, 0, c03Pairs, "arity")
	}
	// empty chunk
	for _, x := range []string{"key = 'a'", "int(value) = 1", "list(value, 2)", "key in ('a')", "upper(key)"} {
		c03ExprCase(e, x, 0, nil, "empty-chunk")
	}
	nA, nU := 700, 600
	if thorough {
		nA, nU = 20000, 15000
	}
	for i := 0; i < nA; i++ {
		t := pick(r, []gty{gStr, gInt, gFlt, gBool, gBool, gList})
		x := g.gen(t, 1+r.intn(3))
		for _, ch := range c03Chunks(r) {
			c03ExprCase(e, x, 0, ch, "random-typed")
		}
	}
	for i := 0; i < nU; i++ {
		x := c03Unchecked(r)
		for _, ch := range c03Chunks(r) {
			c03ExprCase(e, x, 1, ch, "random-unchecked")
		}
	}

	// ---------------- part B / C
	Bs := []int{1, 2, 3, 5, 32}
	perSizeB, perSizeC, perSizeL := 8, 3, 6
	if thorough {
		perSizeB, perSizeC, perSizeL = 100, 40, 80
	}
	stmtTemplates := func(wh string) [][3]string { // query, tie columns, bucket
		return [][3]string{
			{"select * where " + wh + " limit 3", "0", "limit"},
			{"select key, value where " + wh + " limit 2, 4", "0", "limit"},
			{"select key, int(value) as n where " + wh + " order by n desc, key", "0", "order tie-free"},
			{"select int(value) as n, key where " + wh + " order by n", "1", "order with ties"},
			{"select strlen(value) as s, int(value) as n, key where " + wh + " order by s desc, n", "2", "order with ties"},
			{"select key, value where " + wh + " order by key desc limit 1, 3", "0", "order+limit"},
			{"select upper(value) as u, key where " + wh + " order by u, key desc limit 5", "0", "order+limit"},
			{"select substr(key, 0, 1) as g, count(1) as c, sum(int(value)) as s where " + wh + " group by g", "0", "group"},
			{"select substr(key, 0, 1) as g, count(1) as c, sum(int(value)) as s where " + wh + " group by g order by g desc", "0", "group+order"},
			{"select substr(key, 0, 1) as g, avg(int(value)), min(int(value)), max(int(value)) where " + wh + " group by g limit 1, 2", "0", "group+limit"},
			{"select count(1), sum(int(value)), min(int(value)), max(int(value)), avg(int(value)) where " + wh, "0", "aggregate all"},
			{"select strlen(value) as g, group_concat(key, ','), json_arrayagg(key), quantile(int(value), 0.5) where " + wh + " group by g", "0", "group"},
			{"select is_int(value) as g, strlen(key) as h, count(1) as c where " + wh + " group by g, h order by c desc, g, h", "0", "group+order"},
			{"select key, sum(int(value)) * 2 + count(1) as x where " + wh + " group by key order by x desc, key limit 4", "0", "group+order+limit"},
		}
	}
	for _, B := range Bs {
		for _, n := range c03Sizes(B) {
			for k := 0; k < perSizeB; k++ {
				kvs := c03MakeStore(r, n, false)
				c03NodeCase(e, c03Fields(r, g), c03Where(r, g), kvs, B)
			}
			for k := 0; k < perSizeL; k++ {
				kvs := c03MakeStore(r, n, r.chance(1, 3))
				start := pick(r, []int{0, 0, 1, 2, B, B + 1, 2 * B})
				count := pick(r, []int{0, 1, 2, 3, B, B + 1, 2 * B, 100})
				wh := c03Where(r, g)
				if r.chance(1, 3) {
					// fails on the pairs valued 7: harmless when the limit is reached before them
					wh = pick(r, []string{"10 / (int(value) - 7) != 0", "value between '0' and value + 'x' | 10 / (int(value) - 7) > 100", "strlen(value) < 3 & 10 / (int(value) - 7) < 100"})
				}
				c03LimitCase(e, c03Fields(r, g), wh, kvs, B, start, count)
			}
			for k := 0; k < perSizeC; k++ {
				kvs := c03MakeStore(r, n, r.chance(1, 2))
				wh := c03Where(r, g)
				c03StmtCase(e, "select "+c03Fields2(r)+" where "+wh, kvs, B, r.chance(1, 2), 0, "plain")
				ts := stmtTemplates(wh)
				t := ts[r.intn(len(ts))]
				tie := int(t[1][0] - '0')
				c03StmtCase(e, t[0], kvs, B, false, tie, t[2])
				t = ts[r.intn(len(ts))]
				tie = int(t[1][0] - '0')
				c03StmtCase(e, t[0], kvs, B, true, tie, t[2])
			}
		}
	}
	// ---------------- part D: ORDER BY / GROUP BY against the composed twin; directed classes
	c03w2Stream(e, r, thorough)
	// ---------------- part E: the evaluation discipline of the AggregatePlan (which expression on
	// which pair, when a group's row is completed)
	c3zStream(e, r, thorough)
	// ---------------- part F: SELECT from the query TEXT against the glue twin (Model/PipelineS.v)
	psStream(c, e, r)
	return e.flush()
}

// select lists for whole statements with the cache possibly on: aliases are referenced only in
// ORDER BY / GROUP BY (the field cache is C05's subject)
func c03Fields2(r *rng) string {
	return pick(r, []string{"*", "key, value", "key, int(value), upper(value)", "key, split(value, ',')[0], strlen(value)",
		"key, value in ('7', '12'), int(value) between 0 and 9", "key, list(value, 2), float(value) * 2", "key, substr(value, 0, 2) + key"})
}

// ------------------------------------------------------------------ part D (c03w2): statements with ORDER BY /
// GROUP BY against the composed twin (Model/SelectPlans.v, Corr/C03Stmt.v), and directed
// statement classes for the direct row-vs-batch verdict.
//
// A CaseQ is one statement through Optimizer.BuildPlan: the plan BuildPlan returned is walked
// (FinalLimitPlan / FinalOrderPlan / ProjectionPlan or AggregatePlan / FullScanPlan) and its
// pieces are printed: the node kinds (shape), the scan's WHERE clause and the projection's or
// aggregate's expressions as the optimizer left them, names and types, ORDER BY and LIMIT as
// parsed.  The Coq side rebuilds the shape with build_final_plan, runs the composed twin in both
// modes and compares (ORDER BY: modulo ties).  Statements whose scan was narrowed are judged by
// the Go-side verdict only.

var c03w2TypeCtor = map[kvql.Type]string{kvql.TUNKNOWN: "Order.TUNKNOWN", kvql.TBOOL: "Order.TBOOL", kvql.TSTR: "Order.TSTR",
	kvql.TNUMBER: "Order.TNUMBER", kvql.TIDENT: "Order.TIDENT", kvql.TLIST: "Order.TLIST", kvql.TJSON: "Order.TJSON"}

func c03w2Z(z int64) string {
	if z < 0 {
		return fmt.Sprintf("(%d)%%Z", z)
	}
	return fmt.Sprintf("%d%%Z", z)
}

func c03w2Val(c any) string {
	switch v := c.(type) {
	case []byte:
		return "Order.VBytes " + coqStr(string(v))
	case string:
		return "Order.VStr " + coqStr(v)
	case bool:
		return "Order.VBool " + coqBool(v)
	case int64:
		return "Order.VInt " + c03w2Z(v)
	case int:
		return "Order.VInt " + c03w2Z(int64(v))
	case int32:
		return "Order.VInt " + c03w2Z(int64(v))
	case float64:
		return fmt.Sprintf("Order.VFloat %d%%Z", math.Float64bits(v))
	}
	return "Order.VOther \"\""
}

func c03w2Obs(res runResult) string {
	if res.Panic != "" {
		return "QPanic"
	}
	if res.Err != nil {
		o := coqObs(nil, res.Err, "")
		return "(QErr" + strings.TrimPrefix(strings.TrimSuffix(o, ")"), "(OErr") + ")"
	}
	p := make([]string, len(res.Rows))
	for i, row := range res.Rows {
		c := make([]string, len(row))
		for j, col := range row {
			c[j] = "(" + c03w2Val(col) + ")"
		}
		p[i] = coqList(c)
	}
	return "(QRows " + coqList(p) + ")"
}

func c03w2Orders(os []kvql.OrderField) (string, bool) {
	p := make([]string, len(os))
	ok := true
	for i, o := range os {
		ft := "(EName 0 \"\")"
		if o.Field != nil {
			var okf bool
			ft, okf = coqExpr(o.Field)
			ok = ok && okf
		}
		p[i] = fmt.Sprintf("(Order.OrderField %s %s %s)", coqStr(o.Name), ft, coqBool(o.Order == kvql.DESC))
	}
	return coqList(p), ok
}

type c03w2Parts struct {
	shape    string
	where    kvql.Expression
	proj     *kvql.ProjectionPlan
	agg      *kvql.AggregatePlan
	names    []string
	types    []kvql.Type
	fullScan bool
	kinds    []string
}

func c03w2Walk(p any, out *c03w2Parts) (string, bool) {
	scan := func(child kvql.Plan) {
		if fs, ok := child.(*kvql.FullScanPlan); ok && fs.Filter != nil && fs.Filter.Ast != nil {
			out.fullScan, out.where = true, fs.Filter.Ast.Expr
			out.kinds = append(out.kinds, "FullScanPlan")
		} else {
			out.kinds = append(out.kinds, strings.TrimPrefix(fmt.Sprintf("%T", child), "*kvql."))
		}
	}
	switch x := p.(type) {
	case *kvql.FinalLimitPlan:
		out.kinds = append(out.kinds, "FinalLimitPlan")
		ch, ok := c03w2Walk(x.ChildPlan, out)
		return fmt.Sprintf("(SLimit %d %d %s)", x.Start, x.Count, ch), ok && x.Start >= 0 && x.Count >= 0
	case *kvql.FinalOrderPlan:
		out.kinds = append(out.kinds, "FinalOrderPlan")
		ch, ok := c03w2Walk(x.ChildPlan, out)
		os, ok2 := c03w2Orders(x.Orders)
		out.names, out.types = x.FieldNames, x.FieldTypes
		return "(SOrder " + os + " " + ch + ")", ok && ok2
	case *kvql.ProjectionPlan:
		out.kinds = append(out.kinds, "ProjectionPlan")
		out.proj = x
		if out.names == nil {
			out.names, out.types = x.FieldNameList(), x.FieldTypeList()
		}
		scan(x.ChildPlan)
		return "SProj", true
	case *kvql.AggregatePlan:
		out.kinds = append(out.kinds, "AggregatePlan")
		out.agg = x
		if out.names == nil {
			out.names, out.types = x.FieldNameList(), x.FieldTypeList()
		}
		scan(x.ChildPlan)
		lim := "None"
		if x.Limit >= 0 {
			lim = fmt.Sprintf("(Some %d)", x.Limit)
		}
		return fmt.Sprintf("(SAgg %d %s)", x.Start, lim), x.Start >= 0
	}
	out.kinds = append(out.kinds, strings.TrimPrefix(fmt.Sprintf("%T", p), "*kvql."))
	return "SProj", false
}

var c03w2AggCtor = map[string]string{"count": "Group.ACount", "sum": "Group.ASum", "avg": "Group.AAvg", "min": "Group.AMin",
	"max": "Group.AMax", "json_arrayagg": "Group.AJsonArrayAgg"}

// c03w2Aexpr translates a select field that holds aggregate calls into Spec/Group.v's aexpr;
// calls and args are appended in the order AggregatePlan.listAggrFuncs visits them.
func c03w2Aexpr(e kvql.Expression, calls *[]string, args *[]string) (string, bool) {
	switch x := e.(type) {
	case *kvql.BinaryOpExpr:
		op, ok := map[kvql.Operator]string{kvql.Add: "Group.Plus", kvql.Sub: "Group.Minus", kvql.Mul: "Group.Times", kvql.Div: "Group.Divide"}[x.Op]
		if !ok {
			return "", false
		}
		l, ok1 := c03w2Aexpr(x.Left, calls, args)
		r, ok2 := c03w2Aexpr(x.Right, calls, args)
		return fmt.Sprintf("(Group.AEBin %s %s %s)", op, l, r), ok1 && ok2
	case *kvql.NumberExpr:
		return "(Group.AEInt " + c03w2Z(x.Int) + ")", true
	case *kvql.FunctionCallExpr:
		fname, err := kvql.GetFuncNameFromExpr(x)
		if err != nil || !kvql.IsAggrFunc(fname) || len(x.Args) == 0 {
			return "", false
		}
		ctor, ok := c03w2AggCtor[fname]
		if fname == "group_concat" {
			if len(x.Args) < 2 {
				return "", false
			}
			sep, oks := x.Args[1].(*kvql.StringExpr)
			if !oks {
				return "", false
			}
			ctor, ok = "(Group.AGroupConcat "+coqStr(sep.Data)+")", true
		}
		if !ok {
			return "", false
		}
		at, oka := coqExpr(x.Args[0])
		if !oka {
			return "", false
		}
		idx := len(*calls)
		*calls = append(*calls, fmt.Sprintf("(Group.Call %s %d)", ctor, len(*args)))
		*args = append(*args, at)
		return fmt.Sprintf("(Group.AECall %d)", idx), true
	}
	return "", false
}

func c03w2HasAggr(e kvql.Expression) bool {
	switch x := e.(type) {
	case *kvql.BinaryOpExpr:
		return c03w2HasAggr(x.Left) || c03w2HasAggr(x.Right)
	case *kvql.FunctionCallExpr:
		fname, err := kvql.GetFuncNameFromExpr(x)
		return err == nil && kvql.IsAggrFunc(fname)
	}
	return false
}

// c03w2AggTerms renders the AggregatePlan's inputs: GROUP BY expressions, non-aggregate fields,
// aggregate arguments, and (AggrAll, Fields) as Spec/Group.v terms.
func c03w2AggTerms(a *kvql.AggregatePlan) (gs, ks, args, aggr string, ok bool) {
	ok = true
	g := []string{}
	for _, f := range a.GroupByFields {
		t, okf := coqExpr(f.Expr)
		ok = ok && okf
		g = append(g, t)
	}
	keys, argl, fields := []string{}, []string{}, []string{}
	for _, f := range a.Fields {
		isAgg := false
		switch f.(type) {
		case *kvql.FunctionCallExpr, *kvql.BinaryOpExpr:
			isAgg = c03w2HasAggr(f)
		}
		if !isAgg {
			t, okf := coqExpr(f)
			ok = ok && okf
			fields = append(fields, fmt.Sprintf("(Group.FKey %d)", len(keys)))
			keys = append(keys, t)
			continue
		}
		calls := []string{}
		t, okf := c03w2Aexpr(f, &calls, &argl)
		ok = ok && okf
		fields = append(fields, fmt.Sprintf("(Group.FAgg %s %s)", t, coqList(calls)))
	}
	return coqList(g), coqList(keys), coqList(argl), fmt.Sprintf("(Some (%s, %s))", coqBool(a.AggrAll), coqList(fields)), ok
}

func c03w2Run(q string, kvs [][2]string, batch bool, B int) (res runResult, plan kvql.FinalPlan) {
	defer func() {
		if r := recover(); r != nil {
			res.Panic = fmt.Sprint(r)
		}
	}()
	kvql.PlanBatchSize = B
	kvql.EnableFieldCache = false
	st := newStore(kvs)
	p, err := kvql.NewOptimizer(q).BuildPlan(st)
	if err != nil {
		res.Err, res.BuildErr = err, true
		return
	}
	plan = p
	return drainPlan(p, batch, res), plan
}

// c03w2Case: one statement, both modes, Go-side verdict and the composed twin.
func c03w2Case(e *emitter, q string, kvs [][2]string, B int, tieCols int, bucket string) {
	row, plan := c03w2Run(q, kvs, false, B)
	if row.BuildErr || plan == nil {
		e.count("w2:rejected")
		return
	}
	bat, _ := c03w2Run(q, kvs, true, B)
	parts := &c03w2Parts{}
	shape, ok := c03w2Walk(plan, parts)
	planText := strings.Join(parts.kinds, " <- ")
	rp := c03Replay{Kind: "statement (composed twin)", Query: q, B: B, Pairs: kvs, Plan: planText, BatLens: bat.BatchLen}
	bad := c03Verdict(row, bat, tieCols)
	if bad != "" {
		rp.What, rp.RowObs, rp.BatObs = bad, c03Outcome(row, tieCols), c03Outcome(bat, tieCols)
	}
	// the statement as parsed: ORDER BY and LIMIT as written
	order, limit := "None", "None"
	if stmt, err := kvql.NewParser(q).Parse(); err == nil {
		if sel, oks := stmt.(*kvql.SelectStmt); oks {
			if sel.Order != nil {
				os, oko := c03w2Orders(sel.Order.Orders)
				ok = ok && oko
				order = "(Some " + os + ")"
			}
			if sel.Limit != nil {
				limit = fmt.Sprintf("(Some (%d, %d))", sel.Limit.Start, sel.Limit.Count)
				ok = ok && sel.Limit.Start >= 0 && sel.Limit.Count >= 0
			}
		} else {
			ok = false
		}
	} else {
		ok = false
	}
	term := ""
	if ok && parts.fullScan {
		wt, okw := coqExpr(parts.where)
		ok = ok && okw
		fields, gs, ks, args, aggr := "None", "[]", "[]", "[]", "None"
		if parts.agg != nil {
			var oka bool
			gs, ks, args, aggr, oka = c03w2AggTerms(parts.agg)
			ok = ok && oka
		} else if parts.proj != nil {
			if !parts.proj.AllFields {
				p := make([]string, len(parts.proj.Fields))
				for i, f := range parts.proj.Fields {
					var okf bool
					p[i], okf = coqExpr(f)
					ok = ok && okf
				}
				fields = "(Some " + coqList(p) + ")"
			}
		} else {
			ok = false
		}
		types := make([]string, len(parts.types))
		for i, t := range parts.types {
			types[i] = c03w2TypeCtor[t]
		}
		if ok {
			term = fmt.Sprintf("CaseQ (QCase %d %s %s %s %s %s %s %s %s %s %s %s %s %s %s)", B, wt, fields, gs, ks, args, aggr,
				coqStrList(parts.names), coqList(types), order, limit, shape, coqPairs(kvs), c03w2Obs(row), c03w2Obs(bat))
		}
	}
	if term == "" {
		// outside what the composed twin takes (narrowed scan, field outside Spec/Group.v's aexpr,
		// quantile): verdict only
		e.count("w2:verdict_only")
		if !parts.fullScan {
			e.count("w2:scan_narrowed")
		}
		term = fmt.Sprintf("CaseS false (EBool 0 true) None %d [] %s %s []", B, coqSobs(row, tieCols), coqSobs(bat, tieCols))
	} else {
		e.count("w2:twin")
	}
	idx := e.add(term, rp, len(kvs) > 0)
	c03CountStmt(e, "w2stmt", row, bat, B, len(kvs))
	e.count("w2:" + bucket)
	for _, k := range parts.kinds {
		e.count("w2plan:" + k)
	}
	if bad != "" {
		e.fail(idx, bad, "C03/stmt-row-vs-batch", rp)
	}
}

// stores for the directed classes: small integers (all arithmetic exact), keys k00, k01, ...
func c03w2IntStore(r *rng, n int, lo, hi int) [][2]string {
	kvs := make([][2]string, 0, n)
	for i := 0; i < n; i++ {
		kvs = append(kvs, [2]string{fmt.Sprintf("k%02d", i), fmt.Sprint(lo + r.intn(hi-lo+1))})
	}
	return kvs
}

func c03w2Stream(e *emitter, r *rng, thorough bool) {
	Bs := []int{1, 2, 3, 5, 32}
	wheres := []string{"key != 'zzzz'", "int(value) >= 0", "strlen(value) < 3", "value != 'x'", "int(value) > 2",
		"!(value = '7')", "10 / (int(value) - 3) != 0", "int(value) between 0 and 9"}
	templates := func(wh string) [][3]string { // query, tie columns, bucket
		return [][3]string{
			{"select key, int(value) as n where " + wh + " order by n desc, key", "0", "order tie-free"},
			{"select int(value) as n, key where " + wh + " order by n", "1", "order with ties"},
			{"select strlen(value) as s, int(value) as n, key where " + wh + " order by s desc, n", "2", "order with ties"},
			{"select key, value where " + wh + " order by key desc limit 1, 3", "0", "order+limit"},
			{"select int(value) as n, key where " + wh + " order by n desc limit 2, 3", "1", "order+limit with ties"},
			{"select upper(value) as u, key where " + wh + " order by u, key desc limit 5", "0", "order+limit"},
			{"select key, value where " + wh + " order by key", "0", "order by key asc (no order node)"},
			{"select key, value where " + wh + " order by key limit 2, 2", "0", "order by key asc (no order node)+limit"},
			{"select key, int(value) as n where " + wh + " order by n, key limit 0, 0", "0", "order+limit 0,0"},
			{"select substr(key, 0, 1) as g, count(1) as c, sum(int(value)) as s where " + wh + " group by g", "0", "group"},
			{"select substr(key, 0, 1) as g, count(1) as c, sum(int(value)) as s where " + wh + " group by g order by g desc", "0", "group+order"},
			{"select substr(key, 0, 1) as g, avg(int(value)), min(int(value)), max(int(value)) where " + wh + " group by g limit 1, 2", "0", "group+limit"},
			{"select count(1), sum(int(value)), min(int(value)), max(int(value)), avg(int(value)) where " + wh, "0", "aggregate all"},
			{"select strlen(value) as g, group_concat(key, ','), json_arrayagg(key) where " + wh + " group by g", "0", "group"},
			{"select is_int(value) as g, strlen(key) as h, count(1) as c where " + wh + " group by g, h order by c desc, g, h", "0", "group+order"},
			{"select key, sum(int(value)) * 2 + count(1) as x where " + wh + " group by key order by x desc, key limit 4", "0", "group+order+limit"},
			{"select value, count(1) as c where " + wh + " group by value order by c desc, value limit 1, 2", "0", "group+order+limit"},
		}
	}
	perSize := 3
	if thorough {
		perSize = 40
	}
	for _, B := range Bs {
		for _, n := range c03Sizes(B) {
			for k := 0; k < perSize; k++ {
				wh := pick(r, wheres)
				ts := templates(wh)
				t := ts[r.intn(len(ts))]
				// int(value) on a text that is not an integer is outside the evaluator twin: integer
				// values wherever the statement converts, mixed texts elsewhere (and sometimes anyway)
				ints := strings.Contains(t[0], "int(value)") && !r.chance(1, 8)
				c03w2Case(e, t[0], c03MakeStore(r, n, ints), B, int(t[1][0]-'0'), t[2])
			}
		}
	}
	// every template once on a store larger than two batches (B = 3), every WHERE clause once
	for i, t := range templates("key != 'zzzz'") {
		c03w2Case(e, t[0], c03MakeStore(r, 8+i%3, true), 3, int(t[1][0]-'0'), t[2])
	}
	for _, wh := range wheres {
		ts := templates(wh)
		c03w2Case(e, ts[0][0], c03MakeStore(r, 7, true), 2, 0, ts[0][2])
		c03w2Case(e, ts[9][0], c03MakeStore(r, 7, true), 2, 0, ts[9][2])
	}

	// directed class 1: GROUP BY + LIMIT start, count WITHOUT ORDER BY (the limit is pushed into
	// the AggregatePlan), more than 2B groups, offsets that are not multiples of B
	for _, B := range []int{2, 3, 5} {
		for _, groups := range []int{2*B + 1, 2*B + 2, 3*B + 1, 12, 4*B + 3} {
			starts := []int{1, B - 1, B + 1, 2*B - 1, 2*B + 1}
			counts := []int{1, B - 1, B, B + 1, 2 * B, 2*B + 1, 8, groups}
			reps := 2
			if thorough {
				reps = 12
			}
			for k := 0; k < reps; k++ {
				start := pick(r, starts)
				if start%B == 0 {
					start++
				}
				count := pick(r, counts)
				if count < 1 {
					count = 1
				}
				// one group per key; and groups of several pairs
				kvs := c03w2IntStore(r, groups, 0, 6)
				c03w2Case(e, fmt.Sprintf("select key, count(1) as c, sum(int(value)) as s where key != 'zzzz' group by key limit %d, %d", start, count),
					kvs, B, 0, "class1: group+limit pushed, start%B!=0")
				kvs2 := c03w2IntStore(r, 3*groups, 0, 6)
				c03w2Case(e, fmt.Sprintf("select substr(key, 1, 2) as g, count(1) as c, max(int(value)) as m, min(int(value)) as l where int(value) >= 0 group by g limit %d, %d", start, count),
					kvs2, B, 0, "class1: group+limit pushed, start%B!=0")
			}
		}
	}

	// directed class 2: one alias referenced three or more times in one scope (later select
	// fields, WHERE), field cache ON and OFF, small integers (exact arithmetic)
	aliasStmts := []string{
		"select key, int(value) as a, a * 2 as b, a * 3 as c, a * 5 as d where key != 'zzzz'",
		"select key, int(value) as a, a * 2 as b, a * 3 as c, a * 5 as d where 0 < a & 6 > a + 1 & 6 > a + 1",
		"select key, int(value) as a, a + a + a as t, a * a * a as u where a >= 0 & a < 5 & a != 3",
		"select key, int(value) as a, a * 2 as b, b + a as c, c + b + a as d where a > 0 | a < 0 | a = 0",
		"select int(value) as a, a * 2 as b, a * 3 as c, a * 5 as d, key where 0 < a & 6 > a + 1 & 6 > a + 1 order by b desc, key",
		"select key, int(value) as a, a * 2 as b, a * 3 as c, a * 5 as d where a between 0 and 5 & a in (0, 1, 2, 3, 4, 5) & a != 9 limit 1, 4",
		"select key, strlen(value) as a, a + 1 as b, a + 2 as c, a + 3 as d where a = 1 | a + a = 2 | a * a = 1",
		"select key + ':' as p, p + value as kv, p + 'end' as m, p + p as pp where key != 'zzzz'",
		"select key, upper(value) + '-' + key as p, p + 'a' as q, p + 'bc' as r where p + 'x' != p + 'y'",
	}
	for _, B := range Bs {
		sizes := []int{0, 1, B, B + 1, 2*B + 1, 3*B + 1}
		for _, n := range sizes {
			reps := 1
			if thorough {
				reps = 6
			}
			for k := 0; k < reps; k++ {
				kvs := c03w2IntStore(r, n, 0, 6)
				q := aliasStmts[r.intn(len(aliasStmts))]
				c03StmtCase(e, q, kvs, B, true, 0, "class2: alias referenced >= 3 times, cache on")
				q = aliasStmts[r.intn(len(aliasStmts))]
				c03StmtCase(e, q, kvs, B, false, 0, "class2: alias referenced >= 3 times, cache off")
			}
		}
	}
	for _, q := range aliasStmts {
		c03StmtCase(e, q, c03w2IntStore(r, 11, 0, 6), 3, true, 0, "class2: alias referenced >= 3 times, cache on")
	}

	// directed class 3: point reads (key in (...)) over lists in which some LISTED keys are not
	// stored -- at the start, in the middle, at the end, whole rounds of them -- with an alias used
	// in WHERE and selected (positions in the list vs rows actually read), more listed keys than
	// one batch, cache on and off
	for _, B := range []int{1, 2, 3, 32} {
		for _, nkeys := range []int{6, B + 2, 2*B + 3, 40} {
			kvs := c03w2IntStore(r, nkeys, 0, 9)
			for variant := 0; variant < 4; variant++ {
				var listed []string
				var stored [][2]string
				for i, kv := range kvs {
					listed = append(listed, "'"+kv[0]+"'")
					missing := false
					switch variant {
					case 0:
						missing = i%3 == 1 // every third
					case 1:
						missing = i < B // the whole first round
					case 2:
						missing = i == 1 || i == nkeys-2
					case 3:
						missing = i >= B && i < 2*B // the whole second round
					}
					if !missing {
						stored = append(stored, kv)
					}
				}
				in := "key in (" + strings.Join(listed, ", ") + ", 'zz')"
				for _, q := range []string{
					"select key, int(value) as n where (" + in + ") & (n > 0)",
					"select key, int(value) as n, n * 2 as m, m + n as t where (" + in + ") & m != 4",
					"select key, value as v, v + '!' as w where " + in + " & v != '3'",
				} {
					c03StmtCase(e, q, stored, B, true, 0, "class3: point reads with listed keys not stored, cache on")
					c03StmtCase(e, q, stored, B, false, 0, "class3: point reads with listed keys not stored, cache off")
				}
			}
		}
	}
}

// ------------------------------------------------------------------ part E (c3z): the evaluation discipline
// of the AggregatePlan against the composed twin (Model/AggregateLazy.v).  Statements in which an
// evaluation the Go code SKIPS would fail: a non-aggregate field on a later pair of its group
// (`group by g, g` admits a select field that is no GROUP BY field), the argument of count, a
// group whose completion fails beyond what a pushed-down LIMIT consumes; and statements in which
// the two modes meet different errors first (GROUP BY values of a whole chunk before the chunk's
// first aggregate argument).  The twin must return Go's rows / Go's error class and position in
// both modes (code 1 otherwise); batch completed and row mode failed is code 2 as everywhere.

// c3zStore: keys a1, a2, ..., b1, ...: [groups] first letters with 1..per pairs each; values 1..6
// (the statements below fail on the values 1, 3, 4, 6 in different places)
func c3zStore(r *rng, groups, per int) [][2]string {
	kvs := [][2]string{}
	for g := 0; g < groups; g++ {
		n := 1 + r.intn(per)
		for j := 1; j <= n; j++ {
			kvs = append(kvs, [2]string{fmt.Sprintf("%c%d", 'a'+g, j), fmt.Sprint(1 + r.intn(6))})
		}
	}
	return kvs
}

func c3zStream(e *emitter, r *rng, thorough bool) {
	type st struct{ q, bucket string }
	keyF := "c3z: non-aggregate field fails on a later pair of its group"
	cntF := "c3z: count() over a failing argument"
	finF := "c3z: completion fails for some groups"
	errF := "c3z: the modes meet different errors"
	stmts := []st{
		{"select substr(key, 0, 1) as g, 10 / (int(value) - 3) as x, count(1) as c where key != 'zzzz' group by g, g", keyF},
		{"select 10 / (int(value) - 3) as x, substr(key, 0, 1) as g, sum(int(value)) as s, count(1) as c where key != 'zzzz' group by g, g limit 1, 2", keyF},
		{"select substr(key, 0, 1) as g, 10 / (int(value) - 3) as x, max(int(value)) as m where key != 'zzzz' group by g, g order by g desc", keyF},
		{"select substr(key, 0, 1) as g, 10 / (int(value) - 3) as x, min(int(value)) as m where key != 'zzzz' group by g, g order by g desc limit 1, 2", keyF},
		{"select substr(key, 0, 1) as g, count(10 / (int(value) - 3)) as c, sum(int(value)) as s where key != 'zzzz' group by g", cntF},
		{"select count(10 / (int(value) - 3)) as c, max(int(value)) as m where key != 'zzzz'", cntF},
		{"select substr(key, 0, 1) as g, count(10 / (int(value) - 3)) + 1 as c where int(value) > 1 group by g limit 0, 2", cntF},
		{"select substr(key, 0, 1) as g, count(10 / (int(value) - 3)) as c, sum(10 / (int(value) - 4)) as s where key != 'zzzz' group by g", cntF},
		{"select substr(key, 0, 1) as g, 10 / (int(value) - 3) as x, count(10 / (int(value) - 4)) as c where 10 / (int(value) - 6) != 7 group by g, g", cntF},
		{"select substr(key, 0, 1) as g, 10 / (count(1) - 2) as x, sum(int(value)) as s where key != 'zzzz' group by g", finF},
		{"select substr(key, 0, 1) as g, 10 / (count(1) - 2) as x where key != 'zzzz' group by g order by g desc", finF},
		{"select substr(key, 0, 1) as g, 10 / (count(1) - 2) as x where key != 'zzzz' group by g order by g limit 0, 1", finF},
		{"select 10 / (int(value) - 1) as g, sum(10 / (int(value) - 3)) as s where key != 'zzzz' group by g", errF},
		{"select 10 / (int(value) - 1) as g, 10 / (int(value) - 3) as x, sum(10 / (int(value) - 4)) as s where 10 / (int(value) - 6) != 7 group by g, g", errF},
	}
	limits := [][2]int{{0, 1}, {1, 1}, {0, 2}, {1, 2}, {2, 1}, {2, 3}, {0, 0}, {1, 0}, {3, 2}, {0, 9}}
	for _, l := range limits {
		stmts = append(stmts, st{fmt.Sprintf("select substr(key, 0, 1) as g, 10 / (count(1) - 2) as x, sum(int(value)) as s where key != 'zzzz' group by g limit %d, %d", l[0], l[1]), finF + ", LIMIT pushed down"})
	}
	reps := 2
	if thorough {
		reps = 12
	}
	for _, B := range []int{1, 2, 3, 5} {
		for _, s := range stmts {
			for k := 0; k < reps; k++ {
				c03w2Case(e, s.q, c3zStore(r, 1+r.intn(5), 1+r.intn(4)), B, 0, s.bucket)
			}
		}
	}
	// fixed stores: the failing value on the first pair of a group / on a later pair only / nowhere
	fixed := [][][2]string{
		{{"a1", "1"}, {"a2", "3"}, {"b1", "2"}, {"b2", "4"}, {"b3", "3"}, {"c1", "5"}, {"c2", "6"}},
		{{"a1", "3"}, {"a2", "2"}, {"b1", "2"}},
		{{"a1", "2"}, {"a2", "2"}, {"b1", "5"}, {"c1", "2"}, {"c2", "3"}, {"d1", "2"}},
		{{"a1", "2"}, {"b1", "2"}, {"b2", "5"}, {"c1", "5"}, {"d1", "2"}, {"d2", "2"}, {"e1", "5"}},
		{{"a1", "3"}, {"a2", "1"}, {"a3", "5"}},
		{},
	}
	for _, kvs := range fixed {
		for _, s := range stmts {
			for _, B := range []int{1, 2, 3} {
				c03w2Case(e, s.q, kvs, B, 0, s.bucket)
			}
		}
	}
}

// ------------------------------------------------------------------ part F (ps): SELECT FROM THE QUERY TEXT.
// The glue of optimizer.go (which trees the parser + checker hand over, which are folded, which
// tree the region is inferred from, the scan node, the shape buildFinalPlan builds, FieldNames /
// FieldTypes, which field an ORDER BY name resolves to) against Model/PipelineS.v evaluated on the
// same TEXT (Corr/C03Text.v).  A case is one text x one store; the Go side runs
// kvql.NewOptimizer(q).BuildPlan(store) and drains row-at-a-time and in batches of 1, 2, 3, 32.

var psModes = []int{0, 1, 2, 3, 32}

type psReplay struct {
	Kind  string      `json:"kind"`
	Query string      `json:"query"`
	Store [][2]string `json:"store"`
	Plan  string      `json:"plan,omitempty"`
	Names []string    `json:"field_names,omitempty"`
	Obs   []string    `json:"observed_per_mode,omitempty"`
}

var psKeywords = map[string]bool{"select": true, "where": true, "order": true, "group": true, "by": true, "limit": true,
	"as": true, "asc": true, "desc": true, "and": true, "or": true, "in": true, "between": true, "key": true, "value": true}

// psRender: pbRender plus keyword case for the words pbRender leaves alone.  Function names keep
// their case (a select field without AS is NAMED by its text, and ORDER BY / GROUP BY items find it
// by that text; the parser prints function names as written).
func psRender(r *rng, toks []string, style int, mixCase bool) string {
	out := append([]string{}, toks...)
	if mixCase {
		for i, t := range out {
			if psKeywords[t] {
				switch r.intn(3) {
				case 0:
					out[i] = strings.ToUpper(t)
				case 1:
					out[i] = strings.ToUpper(t[:1]) + t[1:]
				}
			}
		}
	}
	return pbRender(r, out, style, false)
}

// WHERE clauses by access path of the scan that buildScanPlan chooses
var psWhere = map[string][]string{
	"full":   {"key != 'zzzz'", "int(value) >= 0", "strlen(value) < 3", "value != 'x'", "is_int(value) | strlen(value) > 2", "!(value = '7')", "key != 'k03' & value != ''"},
	"prefix": {"key ^= 'k'", "key ^= 'a'", "key ^= 'ab'", "key ^= 'k0' & value != '7'", "key ^= 'zz'"},
	"range":  {"key > 'b'", "key between 'a' and 'k10'", "key >= 'ab' & key < 'k05'", "key <= 'b03'", "key > 'k02' & int(value) >= 0", "key >= 'k' & key <= 'k09'"},
	"mget":   {"key in ('k00', 'k02', 'a01', 'nokey', 'k09')", "key = 'k03' | key = 'k07'", "key = 'k03'", "key in ('k05', 'k05', 'b06') & value != ''", "'k07' = key"},
	"empty":  {"key = 'a' & key = 'b'", "key > 'z' & key < 'a'", "false", "1 = 2", "key ^= 'a' & key ^= 'k'", "key in ('k00') & key > 'k01'"},
	"folded": {"key ^= lower('K')", "key = 'k' + '03'", "key in ('k00', 'k' + '02')", "1 = 1 & key ^= 'a'", "key between 'a' and 'k' + '10'", "true", "2 > 1 | key = 'k03'", "key >= upper('k') + '' | 1 = 2", "strlen('abc') = 3 & key > 'b'"},
	"fails":  {"10 / (int(value) - 7) > 1", "value between key and 'zz'", "int(value) between strlen(value) and 7"},
}
var psWhereKinds = []string{"full", "full", "prefix", "range", "mget", "empty", "folded", "folded", "fails"}

// projection field lists: (fields, ORDER BY items that resolve, alias usable in WHERE)
type psProj struct {
	fields string
	orders []string
	walias string
}

var psProjs = []psProj{
	{"*", []string{"key", "value", "key desc", "value desc, key", "key asc", "KEY"}, ""},
	{"key, value", []string{"key", "value desc", "key asc", "value, key desc"}, ""},
	{"key, int(value) as n, n + 1 as m", []string{"n", "m desc, key", "n desc", "key", "key desc, n"}, "n > 2"},
	{"key as k, value as v, upper(value) as u", []string{"k desc", "u, k", "v", "k"}, "u != 'X'"},
	{"key, int(value) as n, strlen(value) as n", []string{"n", "n desc, key", "key"}, "n >= 0"},
	{"value as x, key as x, key", []string{"x", "x desc", "key"}, "x != '7'"},
	{"int(value) as n, n * 2 as d, d + n as t, key", []string{"t desc", "d, key desc", "n, t", "key"}, "d < 10"},
	{"key, int(value)", []string{"int(value)", "int(value) desc, key", "key desc"}, ""},
	{"key, strlen(value) as s, upper(key)", []string{"upper(key) desc", "s, key", "s desc"}, "s < 3"},
	{"key, 1 + 2 as c, 'a' + 'b' as s, int(value) + 1 + 1 as n", []string{"n", "c, key desc", "s desc, n"}, "n != 5"},
	{"key, true | (count(1) > 0) as x", []string{"x, key desc", "key"}, ""},
	{"key, (count(1) > 0) | true as x, (sum(int(value)) > 0) & (1 = 2) as y", []string{"x, key desc", "y, x"}, ""},
	{"key, value = '7' as b, is_int(value) as i", []string{"b", "i desc, b, key", "b desc"}, "i"},
	{"key, float(value) as f, f * 2 as g", []string{"f", "g desc, key"}, ""},
	{"key, split(value, ',') as l, len(l) as c", []string{"c", "c desc, key", "l"}, "c > 1"},
	{"key, 10 / (int(value) - 7) as q", []string{"q", "q desc"}, ""},
	{"key, substr(value, 0, 1) + key as t, value", []string{"t", "value, t desc"}, ""},
}

// aggregate field lists: (fields, GROUP BY, ORDER BY items)
type psAgg struct {
	fields string
	group  string
	orders []string
}

var psAggs = []psAgg{
	{"substr(key, 0, 1) as g, count(1) as c, sum(int(value)) as s", "g", []string{"g desc", "c desc, g", "s, g"}},
	{"value as g, count(1) as c", "g", []string{"c desc, g", "g"}},
	{"key, count(1) as c, sum(int(value)) as s", "key", []string{"key desc", "s, key", "c"}},
	{"count(1), sum(int(value)), min(int(value)), max(int(value)), avg(int(value))", "", nil},
	{"count(1) as c, sum(int(value)) * 2 + count(1) as x", "", []string{"c", "x desc"}},
	{"strlen(value) as g, group_concat(key, ',') as ks, json_arrayagg(key) as js", "g", []string{"g", "ks desc"}},
	{"is_int(value) as g, strlen(key) as h, count(1) as c", "g, h", []string{"c desc, g, h", "h, g"}},
	{"key, sum(int(value)) * 2 + count(1) as x", "key", []string{"x desc, key", "key"}},
	{"key, value, count(1) as c", "key, value", []string{"value, key", "c, key desc"}},
	{"substr(key, 0, 1) as g, max(int(value)) - min(int(value)) as w, avg(int(value)) as a", "g", []string{"w desc, g", "a, g"}},
	{"upper(substr(key, 0, 1)) as g, count(1) as c, 1 + 1 as two", "g, two", []string{"g"}},
	{"key, count(1) as c", "key", []string{"key", "key asc"}},
	{"int(value) as n, sum(n) as s, count(1) as c", "n", []string{"n", "s desc"}},
	{"int(value) as n, n + 1 as m, count(1) as c", "n, m", []string{"m desc"}},
	{"value as v, count(1) + 0.5 as h", "v", []string{"v"}},
	{"value as v, sum(int(v)) + strlen(v) as h", "v", []string{"v"}},
	{"strlen(value) as g, quantile(int(value), 0.5) as q", "g", []string{"g"}},
}

// statements with a fixed reading: every rejection buildFinalPlan and the Init calls can raise,
// ORDER BY / GROUP BY lookups, statement kinds outside this twin
var psDirected = []string{
	"select key, count(1) where key != 'zzzz'", "select key where key != 'zzzz' group by key", "select key, value where key != 'zzzz' group by key, value",
	"select key, value, count(1) where key ^= 'k' group by key", "select count() where key ^= 'k'", "select sum(1, 2) where key ^= 'k'",
	"select group_concat(key) where key ^= 'k'", "select group_concat(key, 1) where key ^= 'k'", "select group_concat(key, '-' + '>') as s where key ^= 'k'",
	"select group_concat(key, value) where key ^= 'k'", "select key, false & (count(1) > 0) as x where key != 'zzzz' group by key",
	"select true | (count(1) > 0) as x, key where key > ''", "select key, (count(1) > 0) | true as x where key > ''", "select int(value) as n, sum(n) as s where key > ''",
	"select key where key ^= 'k' order by nosuch", "select key, split(value, ',') as l where key ^= 'k' order by l", "select * where key ^= 'k' order by key",
	"where key ^= 'k' order by key", "where key ^= 'k' limit 2", "select * where key ^= 'k' order by key desc limit 1, 2", "select * where key ^= 'k' limit 0",
	"select * where key ^= 'k' limit 1,", "select * where key ^= 'k' limit 1 2", "select * where key ^= 'k' limit 2 order by key desc",
	"select * where key ^= 'k' limit 1, 2, 3", "select * where key ^= 'k' limit 5000", "select * where key ^= 'k' order by key order by value",
	"select key as a, a as b, b as a where key ^= 'k'", "select key as a, a + 'x' as b, b + 'y' as c where key ^= 'k' order by c desc limit 2",
	"select value as key2, count(1) where key ^= 'k' group by key2 order by key2", "select key, count(1) as c where key ^= 'k' group by key order by key limit 2",
	"select key, count(1) as c where key ^= 'k' group by key limit 1, 2", "select count(1) as c where key ^= 'k' limit 1", "select count(1) as c where key ^= 'k' order by c limit 1",
	"select count(1) as c where false", "select key, count(1) as c where key = 'a' & key = 'b' group by key",
	"select key, sum(int(value)) / (count(1) - 1) as x where key ^= 'k' group by key", "select key, avg(float(value)) as a where key ^= 'k' group by key order by a",
	"select key, count(1) where key ^= 'k' group by count(1)", "select key, count(1) as c where key ^= 'k' group by c", "select key, count(1) where key ^= 'k' group by nosuch",
	"select key, count(sum(1)) where key ^= 'k' group by key", "select key, json(value) as j where key ^= 'k'", "select key where key ~= '^k'",
	"select key, value where value ~= '7' order by key desc", "put ('zzz', 'b')", "remove 'zzz'", "delete where key = 'zzz'", "select", "", ";",
	"select key,, value where key ^= 'k'", "select key value where key ^= 'k'", "select key as where key ^= 'k'", "select key as 1 where key ^= 'k'",
	"select key, * where key ^= 'k'", "select *, key where key ^= 'k'", "select key where key ^= 'k' group key", "select key where key ^= 'k' order key",
}

func psObs(res runResult) string {
	switch {
	case res.Panic != "":
		return "PPanic"
	case res.Err != nil && res.BuildErr:
		switch errClass(res.Err) {
		case "syntax":
			return fmt.Sprintf("(PReject (%d))", errPos(res.Err))
		case "exec":
			return fmt.Sprintf("(PBuildErr 1 (%d))", errPos(res.Err))
		}
		return "(PBuildErr 3 0)"
	case res.Err != nil:
		o := coqObs(nil, res.Err, "")
		return "(PRunErr" + strings.TrimPrefix(strings.TrimSuffix(o, ")"), "(OErr") + ")"
	}
	p := make([]string, len(res.Rows))
	for i, row := range res.Rows {
		c := make([]string, len(row))
		for j, col := range row {
			c[j] = "(" + c03w2Val(col) + ")"
		}
		p[i] = coqList(c)
	}
	return "(PRows " + coqList(p) + ")"
}

// psScan finds the scan node under the projection / aggregate node
func psScan(p any) (term, kind string) {
	switch x := p.(type) {
	case *kvql.FinalLimitPlan:
		return psScan(x.ChildPlan)
	case *kvql.FinalOrderPlan:
		return psScan(x.ChildPlan)
	case *kvql.ProjectionPlan:
		return psScan(x.ChildPlan)
	case *kvql.AggregatePlan:
		return psScan(x.ChildPlan)
	case kvql.Plan:
		t, k := pbScanTerm(x)
		return strings.NewReplacer("SEmpty", "PsEmpty", "SMget", "PsMget", "SPrefix", "PsPrefix", "SRange", "PsRange", "SFull", "PsFull").Replace(t), k
	}
	return "", fmt.Sprintf("?%T", p)
}

func psCase(e *emitter, q string, kvs [][2]string, bucket string) {
	rp := psReplay{Kind: "statement text through NewOptimizer(q).BuildPlan(store), drained (glue twin Model/PipelineS.v)", Query: q, Store: kvs}
	var plan kvql.FinalPlan
	groups := []string{}
	modesOf := map[string][]int{}
	outcome := ""
	for _, m := range psModes {
		B := m
		if m == 0 {
			B = 32
		}
		res, p := c03w2Run(q, kvs, m != 0, B)
		if res.BuildErr && res.Panic == "" && isAggArityErr(res.Err) {
			e.m.OutOfModel++
			e.count("ps/aggregate_argument_count(judged_by_C14_stream_agg)")
			return
		}
		if plan == nil && p != nil {
			plan = p
		}
		o := psObs(res)
		if _, have := modesOf[o]; !have {
			groups = append(groups, o)
		}
		modesOf[o] = append(modesOf[o], m)
		switch {
		case res.Panic != "":
			outcome = "panic"
		case res.BuildErr && errClass(res.Err) == "syntax":
			outcome = "rejected"
		case res.BuildErr:
			outcome = "build_error"
		case outcome == "":
			outcome = "accepted"
		}
		short := o
		if len(short) > 160 {
			short = short[:160] + "..."
		}
		rp.Obs = append(rp.Obs, fmt.Sprintf("mode %d: %s", m, short))
	}
	planTerm := "None"
	if plan != nil {
		parts := &c03w2Parts{}
		shape, ok := c03w2Walk(plan, parts)
		scanTerm, scanKind := psScan(plan)
		types := make([]string, len(plan.FieldTypeList()))
		for i, t := range plan.FieldTypeList() {
			types[i] = c03w2TypeCtor[t]
		}
		rp.Plan, rp.Names = strings.Join(parts.kinds, " <- "), plan.FieldNameList()
		if ok && scanTerm != "" {
			planTerm = fmt.Sprintf("(Some (%s, %s, %s, %s))", coqStrList(plan.FieldNameList()), coqList(types), shape, scanTerm)
		}
		e.count("ps:scan=" + scanKind)
		e.count("ps:shape=" + strings.Join(parts.kinds[:len(parts.kinds)-1], "<-"))
	}
	runs := make([]string, len(groups))
	for i, o := range groups {
		runs[i] = fmt.Sprintf("(%s, %s)", coqNatList(modesOf[o]), o)
	}
	e.add(fmt.Sprintf("CaseT (PSCase %s %s %s %s)", coqStr(q), coqPairs(kvs), planTerm, coqList(runs)), rp, plan != nil && len(kvs) > 0)
	e.count("ps:" + outcome)
	e.count("ps:class=" + bucket)
	// the model boundary as far as the Go side can see it on the text (the Coq side decides: code 99)
	lq := strings.ToLower(q)
	for _, h := range [][2]string{{"~=", "regexp operator"}, {"json(", "json()"}, {"quantile", "quantile"}, {"h\u00e9llo", "non-ascii value"}} {
		if strings.Contains(lq, h[0]) {
			e.count("ps:outside_model_hint=" + h[1])
		}
	}
	if strings.HasPrefix(strings.TrimSpace(lq), "put") || strings.HasPrefix(strings.TrimSpace(lq), "remove") || strings.HasPrefix(strings.TrimSpace(lq), "delete") {
		e.count("ps:outside_model_hint=write statement")
	}
	if len(groups) > 1 {
		e.count("ps:modes_differ(ties / batch-only errors)")
	}
}

func psTail(r *rng, orders []string, B int) (string, string) {
	tail, kind := "", ""
	if len(orders) > 0 && r.chance(3, 5) {
		tail += " order by " + pick(r, orders)
		kind += "+order"
	}
	if r.chance(1, 2) {
		start := pick(r, []int{0, 0, 1, 2, 3, 5})
		count := pick(r, []int{0, 1, 2, 3, 4, 7, 100})
		if r.chance(1, 3) {
			tail += fmt.Sprintf(" limit %d", count)
		} else {
			tail += fmt.Sprintf(" limit %d, %d", start, count)
		}
		kind += "+limit"
	}
	return tail, kind
}

func psStream(c *runCtx, e *emitter, r *rng) {
	e.m.Rule += "; F (ps): SELECT statement TEXTS (field lists with aliases used later and in WHERE, duplicate names, foldable fields; ORDER BY by name / by repeated expression / key asc alone / several keys; GROUP BY with every modelled aggregate, aggregates of aliases, arithmetic on aggregates; LIMIT with and without ORDER BY; WHERE with every access path incl. unsatisfiable and folded ones; every rejection of buildFinalPlan and of the Init calls; spacing / keyword case / trailing semicolons varied; malformed variants) x stores of 0..12 pairs x {row, batch 1, 2, 3, 32}: kvql.NewOptimizer(q).BuildPlan(store) drained vs Model/PipelineS.v select_stmt_text on the same text (accept / reject + position, FieldNames / FieldTypes, shape, scan node, rows, run-time error class and position)"
	thorough := c.thorough() || c.search
	g := newEgen(r)
	store := func() [][2]string { return c03MakeStore(r, r.intn(13), !r.chance(1, 4)) }
	for _, q := range psDirected {
		psCase(e, q, store(), "directed")
		if thorough {
			psCase(e, psRender(r, pbTokens(q), 2, true), store(), "directed")
		}
	}
	n := 330
	if thorough {
		n = 9000
	}
	for i := 0; i < n; i++ {
		wk := pick(r, psWhereKinds)
		wh := pick(r, psWhere[wk])
		if r.chance(1, 10) {
			wh = c03Where(r, g)
			wk = "random"
		}
		var q, bucket string
		if r.chance(11, 20) {
			p := psProjs[r.intn(len(psProjs))]
			if p.walias != "" && r.chance(1, 4) {
				wh = "(" + wh + ") & " + p.walias
			}
			tail, kind := psTail(r, p.orders, 3)
			q, bucket = "select "+p.fields+" where "+wh+tail, "projection"+kind
			if p.fields == "*" && r.chance(1, 4) && !strings.Contains(tail, "order") {
				q = "where " + wh + tail
			}
		} else {
			a := psAggs[r.intn(len(psAggs))]
			tail, kind := psTail(r, a.orders, 3)
			gb := ""
			if a.group != "" {
				gb = " group by " + a.group
			}
			// ORDER BY / GROUP BY / LIMIT come in any order
			if r.chance(1, 4) && gb != "" && tail != "" {
				q = "select " + a.fields + " where " + wh + tail + gb
			} else {
				q = "select " + a.fields + " where " + wh + gb + tail
			}
			bucket = "aggregate" + kind
		}
		toks := pbTokens(q)
		switch r.intn(8) {
		case 0:
			toks = append(toks, ";")
		case 1:
			toks = append(toks, ";", ";")
		}
		text := psRender(r, toks, r.intn(3), r.chance(1, 2))
		if r.chance(1, 9) {
			text = pbMangle(r, text)
			bucket = "mangled"
		}
		psCase(e, text, store(), bucket+" where="+wk)
	}
}
