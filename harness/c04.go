package main

// C04: constant folding and expression rewriting preserve every expression's value.
//
// For each generated, checker-accepted expression the harness records
//   - the checked tree before ExpressionOptimizer.Optimize (Gallina term),
//   - the tree Optimize returns (Gallina term; the Coq twin Model/Fold.v must produce the same),
//   - the outcome of Execute on the original for every stored pair (ties the evaluator twin),
// and judges the implementation directly (e.fail): on every pair on which the original
// evaluates to a value, the folded tree must evaluate to the same value of the same kind, in
// the row evaluator (Execute) and in the batch evaluator (ExecuteBatch).
//
// Generators (all constants small integers / dyadic decimals, so float arithmetic is exact):
//   A  arithmetic trees over + - * / : every tree of depth <= 1 over the full constant pool and
//      the row-dependent leaves, every tree of depth 2 over a reduced pool (thorough: all,
//      quick: seeded subsample)
//   B  chains ((x o c1) o c2) o c3, (x o (c1 o c2)) o c3, ... : what tryReorderBinaryOp rewrites
//   C  Boolean trees over constant-true / constant-false / row-dependent atoms with & | and or !
//   D  comparisons between arithmetic / text trees
//   E  function calls with constant and partly constant arguments
//   F  seeded random typed expressions up to depth 6
//   G  whole statements: rows of `select key, <field> where <pred>` against the unoptimised
//      expressions evaluated pair by pair

import (
	"fmt"
	"math"
	"math/big"
	"strconv"
	"strings"

	kvql "github.com/c4pt0r/kvql"
)

func init() { registry["C04"] = runC04 }

type c04Replay struct {
	Expr    string `json:"expression"`
	Family  string `json:"family,omitempty"`
	Folded  string `json:"folded,omitempty"`
	What    string `json:"what,omitempty"`
	Mode    string `json:"evaluator,omitempty"`
	Key     string `json:"key,omitempty"`
	Val     string `json:"value,omitempty"`
	Orig    string `json:"original_result,omitempty"`
	After   string `json:"folded_result,omitempty"`
	Query   string `json:"query,omitempty"`
	HowTo   string `json:"how_to_reproduce,omitempty"`
	Batches int    `json:"batch_size,omitempty"`
}

const c04How = "parse `select <expression> where key != 'zzzz'`, take Fields[0], compare Execute/ExecuteBatch on the pair before and after ExpressionOptimizer{Root: f}.Optimize()"

// c04Lit fixes the text of a literal whose value field disagrees with it, so that the Coq
// side sees the value the evaluator uses.
type c04Walk struct{ mismatch int }

func (w *c04Walk) expr(e kvql.Expression, depth int) (string, bool) {
	if depth > 200 {
		return "", false
	}
	switch x := e.(type) {
	case *kvql.BinaryOpExpr:
		l, ok1 := w.expr(x.Left, depth+1)
		r, ok2 := w.expr(x.Right, depth+1)
		o, ok3 := opCtor[x.Op]
		return fmt.Sprintf("(EBin %d %s %s %s)", natPos(x.Pos), o, l, r), ok1 && ok2 && ok3
	case *kvql.NotExpr:
		r, ok := w.expr(x.Right, depth+1)
		return fmt.Sprintf("(ENot %d %s)", natPos(x.Pos), r), ok
	case *kvql.FunctionCallExpr:
		n, ok := w.expr(x.Name, depth+1)
		args := make([]string, len(x.Args))
		for i, a := range x.Args {
			var oka bool
			args[i], oka = w.expr(a, depth+1)
			ok = ok && oka
		}
		return fmt.Sprintf("(ECall %d %s %s)", natPos(x.Pos), n, coqList(args)), ok
	case *kvql.NumberExpr:
		data := x.Data
		n, err := strconv.ParseInt(data, 10, 64)
		if err != nil {
			n = 0
		}
		if n != x.Int {
			w.mismatch++
			data = strconv.FormatInt(x.Int, 10)
		}
		return fmt.Sprintf("(ENum %d %s)", natPos(x.Pos), coqStr(data)), true
	case *kvql.FloatExpr:
		data := x.Data
		f, err := strconv.ParseFloat(data, 64)
		if err != nil {
			f = 0
		}
		if math.Float64bits(f) != math.Float64bits(x.Float) {
			w.mismatch++
			data = strconv.FormatFloat(x.Float, 'g', -1, 64)
		}
		return fmt.Sprintf("(EFloat %d %s)", natPos(x.Pos), coqStr(data)), true
	case *kvql.ListExpr:
		items := make([]string, len(x.List))
		ok := true
		for i, a := range x.List {
			var oka bool
			items[i], oka = w.expr(a, depth+1)
			ok = ok && oka
		}
		return fmt.Sprintf("(EList %d %s)", natPos(x.Pos), coqList(items)), ok
	case *kvql.FieldAccessExpr:
		l, ok1 := w.expr(x.Left, depth+1)
		f, ok2 := w.expr(x.FieldName, depth+1)
		return fmt.Sprintf("(EAccess %d %s %s)", natPos(x.Pos), l, f), ok1 && ok2
	default:
		return coqExprD(e, depth)
	}
}

// the stored pairs: evalgen.go's evalPairs with the 15-digit value replaced by a power of two
// (products and sums of the generated constants with it stay exactly representable)
var c04Pairs = [][2]string{
	{"a", "12"}, {"ab", "-3"}, {"b", "2.5"}, {"ka", "abc"}, {"kb", ""}, {"kc", "a,b,c"},
	{"", "7"}, {"x,y", "007"}, {"12", "x"}, {"A", "1e2"}, {"zz", "-1048576"},
	// a JSON document whose members are not all text: a field access is TYPED as text but yields
	// whatever the document holds (JSON is outside the Coq twins: these pairs get the direct
	// verdict of the Go side only)
	{"j", `{"n":1,"s":"x","b":true,"l":[1,2],"o":{"s":"y"}}`},
}

// c04Canon: canonCol with float values compared by IEEE equality (+0 = -0): the property
// restricts floats "so that equality is exact"; everything else by content.
func c04Canon(v any) string {
	if f, ok := v.(float64); ok && f == 0 {
		return "f:zero"
	}
	return canonCol(v)
}

// c04Domain walks an expression on one pair and reports whether its arithmetic stays inside
// the property's domain: every float operation exact (no rounding), every int -> float
// conversion exact, and no int64 wrap-around in an expression that also computes floats.
type c04Domain struct {
	anyFloat, anyWrap, inexact bool
}

func c04Num(v any) (i int64, f float64, kind int) {
	switch x := v.(type) {
	case int64:
		return x, 0, 1
	case int:
		return int64(x), 0, 1
	case float64:
		return 0, x, 2
	}
	return 0, 0, 0
}

func (d *c04Domain) walk(e kvql.Expression, k, v string) {
	switch x := e.(type) {
	case *kvql.BinaryOpExpr:
		d.walk(x.Left, k, v)
		d.walk(x.Right, k, v)
		switch x.Op {
		case kvql.Add, kvql.Sub, kvql.Mul, kvql.Div:
		default:
			return
		}
		lv, lerr, lpn := execRow(x.Left, k, v, false)
		rv, rerr, rpn := execRow(x.Right, k, v, false)
		res, err, pn := execRow(x, k, v, false)
		if lerr != nil || rerr != nil || err != nil || lpn != "" || rpn != "" || pn != "" {
			return
		}
		li, lf, lk := c04Num(lv)
		ri, rf, rk := c04Num(rv)
		if lk == 0 || rk == 0 {
			return
		}
		if lk == 1 && rk == 1 {
			if x.Op == kvql.Div {
				return
			}
			a, b := big.NewInt(li), big.NewInt(ri)
			z := new(big.Int)
			switch x.Op {
			case kvql.Add:
				z.Add(a, b)
			case kvql.Sub:
				z.Sub(a, b)
			case kvql.Mul:
				z.Mul(a, b)
			}
			if !z.IsInt64() {
				d.anyWrap = true
			}
			return
		}
		d.anyFloat = true
		toRat := func(i int64, f float64, kind int) *big.Rat {
			if kind == 1 {
				if int64(float64(i)) != i || math.Abs(float64(i)) >= 1<<53 {
					d.inexact = true
				}
				return new(big.Rat).SetInt64(i)
			}
			if math.IsNaN(f) || math.IsInf(f, 0) {
				d.inexact = true
				return new(big.Rat)
			}
			return new(big.Rat).SetFloat64(f)
		}
		a, b := toRat(li, lf, lk), toRat(ri, rf, rk)
		z := new(big.Rat)
		switch x.Op {
		case kvql.Add:
			z.Add(a, b)
		case kvql.Sub:
			z.Sub(a, b)
		case kvql.Mul:
			z.Mul(a, b)
		case kvql.Div:
			if b.Sign() == 0 {
				return
			}
			z.Quo(a, b)
		}
		rf64, ok := res.(float64)
		if !ok || math.IsNaN(rf64) || math.IsInf(rf64, 0) || new(big.Rat).SetFloat64(rf64).Cmp(z) != 0 {
			d.inexact = true
		}
	case *kvql.NotExpr:
		d.walk(x.Right, k, v)
	case *kvql.FunctionCallExpr:
		for _, a := range x.Args {
			d.walk(a, k, v)
		}
	case *kvql.ListExpr:
		for _, a := range x.List {
			d.walk(a, k, v)
		}
	case *kvql.FieldAccessExpr:
		d.walk(x.Left, k, v)
	case *kvql.FieldReferenceExpr:
		d.walk(x.FieldExpr, k, v)
	}
}

func (d *c04Domain) outside() bool { return d.inexact || (d.anyWrap && d.anyFloat) }

func c04Inside(e kvql.Expression, pairs [][2]string) bool {
	for _, kv := range pairs {
		d := &c04Domain{}
		d.walk(e, kv[0], kv[1])
		if d.outside() {
			return false
		}
	}
	return true
}

type c04Ctx struct {
	e      *emitter
	r      *rng
	pairs  [][2]string
	obsAll bool // record the Execute outcome of every case (else: one case in three)
	n      int
}

func c04Optimize(fe kvql.Expression) (out kvql.Expression, pn string) {
	defer func() {
		if r := recover(); r != nil {
			pn = fmt.Sprint(r)
		}
	}()
	eo := kvql.ExpressionOptimizer{Root: fe}
	out = eo.Optimize()
	return
}

func c04Root(e kvql.Expression) string {
	switch e.(type) {
	case *kvql.NumberExpr:
		return "int literal"
	case *kvql.FloatExpr:
		return "float literal"
	case *kvql.StringExpr:
		return "text literal"
	case *kvql.BoolExpr:
		return "bool literal"
	case *kvql.BinaryOpExpr:
		return "operator"
	case *kvql.FunctionCallExpr:
		return "call"
	}
	return "other"
}

// c04Case runs one expression; returns false when the checker rejects it.
func (c *c04Ctx) one(expr, family string) bool {
	e := c.e
	fe, err := parseField(expr)
	if err != nil {
		e.count("rejected by the checker")
		return false
	}
	termIn, ok := coqExpr(fe)
	if !ok {
		e.m.OutOfModel++
		return true
	}
	origStr := fe.String()
	n := len(c.pairs)
	obs := make([]string, n)
	rowCanon := make([]string, n)
	rowOK := make([]bool, n)
	anyVal := false
	for i, kv := range c.pairs {
		val, err, pn := execRow(fe, kv[0], kv[1], false)
		obs[i] = coqObs(val, err, pn)
		rowOK[i] = err == nil && pn == ""
		if rowOK[i] {
			rowCanon[i] = c04Canon(val)
			anyVal = true
		}
	}
	bvals, berr, bpn := execBatch(fe, c.pairs, false)
	batchOK := berr == nil && bpn == "" && len(bvals) == n

	fe2, _ := parseField(expr)
	folded, pn := c04Optimize(fe2)
	rp := c04Replay{Expr: expr, Family: family, HowTo: c04How}
	if pn != "" || folded == nil {
		idx := e.add(fmt.Sprintf("Case %s %s P []", termIn, termIn), rp, true)
		rp.What = "panic: " + pn
		e.fail(idx, "ExpressionOptimizer.Optimize panics", "C04/panic", rp)
		return true
	}
	if !c04Inside(fe, c.pairs) || !c04Inside(folded, c.pairs) {
		// inexact float arithmetic (or int64 wrap-around feeding floats) on some pair, before
		// or after the rewrite: outside the property's domain (exactly representable values)
		e.count("outside the domain: inexact float arithmetic on some pair (not compared)")
		return true
	}
	w := &c04Walk{}
	termOut, ok := w.expr(folded, 0)
	if !ok {
		e.m.OutOfModel++
		return true
	}
	rp.Folded = folded.String()
	changed := termIn != termOut
	// ---- direct verdict on the implementation (before the case is registered, so that the
	// replay of a failing case carries the pair and the two results)
	failWhat := ""
	for i, kv := range c.pairs {
		if !rowOK[i] {
			continue
		}
		val, err, pn := execRow(folded, kv[0], kv[1], false)
		if err != nil || pn != "" || c04Canon(val) != rowCanon[i] {
			rp.Mode, rp.Key, rp.Val, rp.Orig = "row (Execute)", kv[0], kv[1], rowCanon[i]
			rp.After = c04Outcome(val, err, pn)
			failWhat = "the rewritten expression evaluates to a different value (or kind, or fails) where the original evaluates"
			break
		}
	}
	if failWhat == "" && batchOK {
		fvals, ferr, fpn := execBatch(folded, c.pairs, false)
		if ferr != nil || fpn != "" || len(fvals) != n {
			rp.Mode, rp.Orig, rp.After = "batch (ExecuteBatch)", "a value on every pair", c04Outcome(nil, ferr, fpn)
			failWhat = "the rewritten expression fails in batch evaluation where the original evaluates"
		} else {
			for i, kv := range c.pairs {
				if c04Canon(fvals[i]) != c04Canon(bvals[i]) {
					rp.Mode, rp.Key, rp.Val = "batch (ExecuteBatch)", kv[0], kv[1]
					rp.Orig, rp.After = c04Canon(bvals[i]), c04Canon(fvals[i])
					failWhat = "the rewritten expression evaluates to a different value (or kind) in batch evaluation"
					break
				}
			}
		}
	}
	c.n++
	obsTerm := "[]"
	if c.obsAll || c.n%3 == 0 || strings.HasPrefix(family, "E ") {
		obsTerm = coqList(obs)
		e.count("evaluator outcome of the original recorded (twin evaluator compared)")
	}
	idx := e.add(fmt.Sprintf("Case %s %s P %s", termIn, termOut, obsTerm), rp, changed)
	e.count("family " + family)
	if changed {
		e.count("rewritten")
		if origStr != rp.Folded {
			e.count("rewritten, root becomes " + c04Root(folded))
		}
	} else {
		e.count("left unchanged")
	}
	if !anyVal {
		e.count("original fails on every pair")
	}
	if !batchOK {
		e.count("original fails in batch evaluation")
	}
	if w.mismatch > 0 {
		e.count("literal text differs from its value field")
	}
	if failWhat != "" {
		e.fail(idx, failWhat, "C04/value-changed", rp)
	}
	return true
}

func c04Outcome(val any, err error, pn string) string {
	if pn != "" {
		return "panic: " + pn
	}
	if err != nil {
		return "error: " + err.Error()
	}
	return c04Canon(val)
}

// ------------------------------------------------------------------ whole statements (G)

func (c *c04Ctx) statement(field, pred string) {
	e := c.e
	q := fmt.Sprintf("select key, %s where %s", field, pred)
	ff, err1 := parseField(field)
	sel, err2 := parseWhere(pred)
	if err1 != nil || err2 != nil {
		e.count("rejected by the checker")
		return
	}
	if !c04Inside(ff, c.pairs) || !c04Inside(sel.Where.Expr, c.pairs) {
		e.count("outside the domain: inexact float arithmetic on some pair (not compared)")
		return
	}
	// expected rows from the UNOPTIMISED expressions, pair by pair in key order
	st := newStore(c.pairs)
	var want []string
	clean := true
	for _, kv := range st.pairs() {
		pv, err, pn := execRow(sel.Where.Expr, kv[0], kv[1], false)
		if err != nil || pn != "" {
			clean = false
			break
		}
		b, ok := pv.(bool)
		if !ok {
			clean = false
			break
		}
		if !b {
			continue
		}
		fv, err, pn := execRow(ff, kv[0], kv[1], false)
		if err != nil || pn != "" {
			clean = false
			break
		}
		want = append(want, c04Canon([]byte(kv[0]))+"\x1f"+c04Canon(fv))
	}
	if !clean {
		e.count("statement: unoptimised expression fails on some pair (no claim)")
		return
	}
	termIn, ok := coqExpr(ff)
	if !ok {
		e.m.OutOfModel++
		return
	}
	// the field's own case (tree comparison etc.) is generated by the families; here only the
	// statement-level verdict, attached to a trivial case (the predicate tree twice)
	for _, mode := range []struct {
		batch bool
		B     int
	}{{false, 32}, {true, 3}} {
		res := runQuery(q, newStore(c.pairs), mode.batch, mode.B, false)
		got := make([]string, len(res.Rows))
		for i, row := range res.Rows {
			p := make([]string, len(row))
			for j, col := range row {
				p[j] = c04Canon(col)
			}
			got[i] = strings.Join(p, "\x1f")
		}
		bad := res.Err != nil || res.Panic != "" || len(got) != len(want)
		if !bad {
			for i := range got {
				if got[i] != want[i] {
					bad = true
					break
				}
			}
		}
		if bad {
			rp := c04Replay{Expr: field, Family: "G statement", Query: q, HowTo: "run the query on the pairs of the evidence rule and compare with the field / predicate evaluated pair by pair before Optimize", Batches: mode.B}
			rp.Mode = map[bool]string{false: "Next", true: "Batch"}[mode.batch]
			rp.Orig = strings.Join(want, " | ")
			rp.After = strings.Join(got, " | ") + " " + c04Outcome(nil, res.Err, res.Panic)
			idx := e.add(fmt.Sprintf("Case %s %s P []", termIn, termIn), rp, false)
			e.fail(idx, "a statement returns other rows / field values than its unoptimised expressions select and compute", "C04/statement-rows", rp)
			return
		}
	}
	e.count("statement: rows equal the unoptimised expressions' rows")
}

// ------------------------------------------------------------------ generators

var (
	c04IntC  = []string{"0", "1", "2", "3", "7"}
	c04FltC  = []string{"0.5", "1.5", "2.0"}
	c04StrC  = []string{"'a'", "'b'"}
	c04Arith = []string{"+", "-", "*", "/"}
)

func c04Bin(a, op, b string) string { return "(" + a + " " + op + " " + b + ")" }

type c04Gen struct {
	r *rng
}

func (g *c04Gen) num(d int, wantFloat bool) string {
	r := g.r
	if d <= 0 || r.chance(1, 5) {
		if wantFloat {
			if r.chance(1, 3) {
				return "float(value)"
			}
			return pick(r, c04FltC)
		}
		if r.chance(1, 3) {
			return "int(value)"
		}
		return pick(r, c04IntC)
	}
	switch r.intn(10) {
	case 0, 1, 2:
		return c04Bin(g.num(d-1, wantFloat), "+", g.num(d-1, wantFloat && r.chance(1, 2)))
	case 3, 4, 5:
		return c04Bin(g.num(d-1, wantFloat), "*", g.num(d-1, wantFloat && r.chance(1, 2)))
	case 6:
		return c04Bin(g.num(d-1, wantFloat), "-", g.num(d-1, false))
	case 7:
		if wantFloat {
			return c04Bin(g.num(d-1, true), "/", pick(r, []string{"0.5", "2.0", "2"}))
		}
		return c04Bin(g.num(d-1, false), "/", pick(r, []string{"1", "2", "3", "7"}))
	case 8:
		if wantFloat {
			return "float(" + pick(r, []string{"value", "'1.5'", "'12'", "'x'", "str(" + g.num(d-1, false) + ")"}) + ")"
		}
		if r.chance(1, 2) {
			return "strlen(" + g.str(d-1) + ")"
		}
		return "int(" + pick(r, []string{"value", "'12'", "'2.5'", "'x'", "key", "str(" + g.num(d-1, false) + ")"}) + ")"
	default:
		if wantFloat {
			return c04Bin(g.num(d-1, false), "*", g.num(d-1, true))
		}
		return "int(" + g.num(d-1, true) + ")"
	}
}

func (g *c04Gen) str(d int) string {
	r := g.r
	if d <= 0 || r.chance(1, 4) {
		if r.chance(1, 3) {
			return pick(r, []string{"key", "value"})
		}
		return pick(r, []string{"'a'", "'b'", "''", "'12'", "'x,y'"})
	}
	switch r.intn(8) {
	case 0, 1, 2:
		return c04Bin(g.str(d-1), "+", g.str(d-1))
	case 3:
		return "upper(" + g.str(d-1) + ")"
	case 4:
		return "lower(" + g.str(d-1) + ")"
	case 5:
		return "str(" + g.num(d-1, false) + ")"
	case 6:
		return fmt.Sprintf("substr(%s, %s, %s)", g.str(d-1), g.num(min(d-1, 1), false), g.num(min(d-1, 1), false))
	default:
		return fmt.Sprintf("join(',', %s, %s)", g.str(d-1), g.str(d-1))
	}
}

func (g *c04Gen) boolean(d int) string {
	r := g.r
	if d <= 0 {
		return pick(r, []string{"(1 < 2)", "(2 < 1)", "(key = 'a')", "(int(value) > 2)", "(value ^= 'a')", "('a' = 'a')", "(0.5 < 1.5)", "is_int(value)", "is_int('7')"})
	}
	switch r.intn(12) {
	case 0, 1, 2:
		return c04Bin(g.boolean(d-1), pick(r, []string{"&", "&", "and"}), g.boolean(d-1))
	case 3, 4, 5:
		return c04Bin(g.boolean(d-1), pick(r, []string{"|", "|", "or"}), g.boolean(d-1))
	case 6:
		return "!" + g.boolean(d-1)
	case 7:
		f := r.chance(1, 3)
		return c04Bin(g.num(d-1, f), pick(r, []string{"<", "<=", ">", ">="}), g.num(d-1, f))
	case 8:
		// = / != on integers, floats and mixed pairs
		f := r.chance(1, 3)
		return c04Bin(g.num(d-1, f), pick(r, []string{"=", "!="}), g.num(d-1, f && r.chance(1, 2)))
	case 9:
		return c04Bin(g.str(d-1), pick(r, []string{"=", "!=", "<", ">=", "^="}), g.str(d-1))
	case 10:
		return pick(r, []string{
			fmt.Sprintf("(%s in (%s, %s))", g.num(d-1, false), g.num(d-1, false), pick(r, c04IntC)),
			fmt.Sprintf("(%s in (%s, 'a'))", g.str(d-1), g.str(d-1)),
			fmt.Sprintf("(%s between %s and %s)", g.num(d-1, false), pick(r, []string{"0", "1"}), pick(r, []string{"3", "7", "1 + 2"})),
			fmt.Sprintf("(%s in split('a,b', ','))", g.str(d-1)),
		})
	default:
		return c04Bin(g.boolean(d-1), pick(r, []string{"=", "!="}), pick(r, []string{"true", "false"}))
	}
}

func runC04(c *runCtx) error {
	r := newRng(c.seed)
	header := "From Coq Require Import List String ZArith.\nFrom KV Require Import Model.SelectPlans Corr.C03Stmt Corr.C03Text Corr.C04Text.\nFrom KV Require Model.Order Spec.Group.\nFrom KV Require Import Base.Bytes Model.Ast Model.Value Corr.EvalCommon Corr.C04.\nImport ListNotations.\nOpen Scope string_scope.\nNotation case := xcase (only parsing).\nNotation mismatches := xmismatches (only parsing).\nNotation Case := XCase (only parsing).\nDefinition P : list (bytes * bytes) := " + coqPairs(c04Pairs) + ".\n"
	e := newEmitter(c.out, "C04", header, 200)
	thorough := c.thorough()
	ctx := &c04Ctx{e: e, r: r, pairs: c04Pairs, obsAll: false}
	e.m.Rule = "checker-accepted expressions over the constants {0,1,2,3,7, 0.5,1.5,2.0, 'a','b', true,false} and the row-dependent leaves {key, value, int(value), float(value)}: (A) every + - * / tree of depth <= 1 over the whole pool and every tree of depth 2 over {2,0.5,1.5,int(value),float(value)}; (B) every chain ((x o c1) o c2) o c3 and its re-bracketings for o in {+,*} and mixed operators; (C) every & | tree of depth <= 2 over constant-true, constant-false and row-dependent atoms, with !, and, or; (D) comparisons of arithmetic / text trees; (E) function calls with constant arguments; (F) seeded random typed expressions up to depth 6; (G) whole statements. Exhaustive families are complete in the thorough tier and a seeded subsample in the quick tier. Each expression is evaluated on 11 stored pairs before and after Optimize, row and batch evaluator. non-trivial = accepted by the checker and rewritten by the optimizer (folded tree differs from the original); distinct = distinct (original, folded) trees"
	// keep(n): every case in the thorough tier, one in n in the quick tier
	// (the widened search after a broken correspondence: one in n/6)
	keep := func(n int) bool {
		if c.search {
			n = n / 6
		}
		return thorough || n <= 1 || r.chance(1, n)
	}

	// ---- A: arithmetic
	full := append(append(append([]string{}, c04IntC...), c04FltC...), "int(value)", "float(value)")
	for _, a := range full {
		for _, b := range full {
			for _, op := range c04Arith {
				if keep(2) {
					ctx.one(c04Bin(a, op, b), "A arithmetic depth 1")
				}
			}
		}
	}
	small := []string{"2", "0.5", "1.5", "int(value)", "float(value)"}
	var d1 []string
	for _, a := range small {
		for _, b := range small {
			for _, op := range c04Arith {
				d1 = append(d1, c04Bin(a, op, b))
			}
		}
	}
	all := append(append([]string{}, small...), d1...)
	for i, a := range all {
		for j, b := range all {
			if i < len(small) && j < len(small) {
				continue
			}
			for _, op := range c04Arith {
				if keep(100) {
					ctx.one(c04Bin(a, op, b), "A arithmetic depth 2")
				}
			}
		}
	}
	// ---- B: chains
	xs := []string{"int(value)", "float(value)", "2", "1.5", "strlen(key)"}
	cs := []string{"0", "1", "2", "3", "7", "0.5", "1.5", "2.0"}
	ops2 := []string{"+", "*"}
	for _, x := range xs {
		for _, c1 := range cs {
			for _, c2 := range cs {
				for _, o := range ops2 {
					if keep(2) {
						ctx.one(c04Bin(c04Bin(x, o, c1), o, c2), "B chain of 2, same operator")
					}
					if keep(8) {
						ctx.one(c04Bin(c04Bin(c1, o, x), o, c2), "B chain of 2, constant first")
						ctx.one(c04Bin(c1, o, c04Bin(x, o, c2)), "B chain of 2, right nested")
					}
				}
				for _, o := range [][2]string{{"+", "*"}, {"*", "+"}, {"+", "-"}, {"-", "+"}, {"*", "/"}, {"-", "-"}} {
					if keep(12) {
						ctx.one(c04Bin(c04Bin(x, o[0], c1), o[1], c2), "B chain of 2, mixed operators")
					}
				}
				for _, c3 := range cs {
					for _, o := range ops2 {
						if keep(50) {
							ctx.one(c04Bin(c04Bin(c04Bin(x, o, c1), o, c2), o, c3), "B chain of 3, same operator")
						}
						if keep(120) {
							ctx.one(c04Bin(c04Bin(x, o, c04Bin(c1, o, c2)), o, c3), "B chain of 3, constants pre-grouped")
							ctx.one(c04Bin(c04Bin(c04Bin(x, o, c1), o, c04Bin(c2, o, c3)), o, c1), "B chain with all-value operand")
						}
					}
					if keep(200) {
						o1, o2, o3 := pick(r, ops2), pick(r, c04Arith[:3]), pick(r, ops2)
						ctx.one(c04Bin(c04Bin(c04Bin(x, o1, c1), o2, c2), o3, c3), "B chain of 3, mixed operators")
					}
				}
			}
		}
	}
	ss := []string{"key", "value", "'a'", "upper(key)", "str(int(value))"}
	sc := []string{"'a'", "'b'", "''"}
	for _, x := range ss {
		for _, c1 := range sc {
			for _, c2 := range sc {
				if keep(2) {
					ctx.one(c04Bin(c04Bin(x, "+", c1), "+", c2), "B text chain")
					ctx.one(c04Bin(c04Bin(c1, "+", x), "+", c2), "B text chain")
				}
				for _, c3 := range sc {
					if keep(6) {
						ctx.one(c04Bin(c04Bin(c04Bin(x, "+", c1), "+", c2), "+", c3), "B text chain")
						ctx.one(c04Bin(c04Bin(x, "+", c04Bin(c1, "+", c2)), "+", c3), "B text chain")
					}
				}
			}
		}
	}
	// ---- C: Boolean
	atoms := []string{"(1 < 2)", "(2 < 1)", "(key = 'a')", "(int(value) > 2)", "!(key = 'a')"}
	moreAtoms := append(append([]string{}, atoms...), "(value ^= 'a')", "is_int(value)", "('a' = 'a')", "(1.5 > 0.5)", "(1 = 2)", "is_int('x')", "(int(value) / 0 > 1)", "(1 / (1 - 1) > 0)")
	bops := []string{"&", "|", "and", "or"}
	for _, a := range moreAtoms {
		ctx.one(a, "C Boolean atom")
		ctx.one("!"+a, "C Boolean atom")
		for _, b := range moreAtoms {
			for _, o := range bops {
				if keep(3) {
					ctx.one(c04Bin(a, o, b), "C Boolean depth 1")
				}
			}
		}
	}
	var b1 []string
	for _, a := range atoms {
		for _, b := range atoms {
			for _, o := range bops[:2] {
				b1 = append(b1, c04Bin(a, o, b))
			}
		}
	}
	ball := append(append([]string{}, atoms...), b1...)
	for i, a := range ball {
		for j, b := range ball {
			if i < len(atoms) && j < len(atoms) {
				continue
			}
			for _, o := range bops[:2] {
				if keep(24) {
					ctx.one(c04Bin(a, o, b), "C Boolean depth 2")
				}
			}
			if keep(100) {
				ctx.one(c04Bin(a, pick(r, bops[2:]), b), "C Boolean depth 2")
				ctx.one("!"+c04Bin(a, pick(r, bops[:2]), b), "C Boolean depth 2")
			}
		}
	}
	// ---- D: comparisons
	cmpLeaves := []string{"1", "2", "0.5", "int(value)", "float(value)"}
	var cmpD1 []string
	cmpD1 = append(cmpD1, cmpLeaves...)
	for _, a := range cmpLeaves {
		for _, b := range cmpLeaves {
			for _, op := range c04Arith {
				cmpD1 = append(cmpD1, c04Bin(a, op, b))
			}
		}
	}
	cmps := []string{"=", "!=", "<", "<=", ">", ">="}
	for _, a := range cmpD1 {
		for _, b := range cmpLeaves {
			for _, o := range cmps {
				if keep(30) {
					ctx.one(c04Bin(a, o, b), "D comparison")
				}
				if keep(60) {
					ctx.one(c04Bin(b, o, a), "D comparison")
				}
			}
		}
	}
	texts := []string{"'a'", "'b'", "key", "('a' + 'b')", "(key + 'a')", "upper('a')", "(upper('a') + 'b')"}
	for _, a := range texts {
		for _, b := range texts {
			for _, o := range append(cmps, "^=") {
				if keep(4) {
					ctx.one(c04Bin(a, o, b), "D text comparison")
				}
			}
		}
	}
	for _, a := range []string{"(key = 'a')", "(1 < 2)", "(2 < 1)", "is_int('1')"} {
		for _, b := range []string{"true", "false", "(1 < 2)"} {
			for _, o := range []string{"=", "!="} {
				ctx.one(c04Bin(a, o, b), "D Boolean comparison")
			}
		}
	}
	// ---- E: function calls
	calls := []string{
		"upper('a')", "lower('A')", "upper('a' + 'b')", "upper(lower('A') + 'b')", "upper(key)", "upper(key + ('a' + 'b'))",
		"strlen('abc')", "strlen('a' + 'b')", "strlen(upper('ab')) + 1", "(strlen('abc') * 2) * 3", "strlen(key) + (1 + 2)",
		"int('12')", "int('12') + 1", "int('x')", "int(1.5)", "int(1.5 + 2.0)", "int('2.5')", "int(2) * 0.5", "int(value) + int('3')",
		"float('0.5')", "float('0.5') * 2", "float(2)", "float(1 + 2)", "float('x')", "float(value) + float('1.5')", "(float(value) + float('0.5')) + 1.5",
		"str(12)", "str(1 + 2)", "str(1.5)", "str(0.5 + 0.25)", "str(2) + 'a'", "str(int(value))", "'n=' + str(3 * 7)",
		"is_int('12')", "is_int('x')", "is_int(12)", "is_float('1.5')", "is_float(1.5)", "is_float('x')", "is_int('1') & (key = 'a')", "is_int('x') | (key = 'a')", "is_int(value) & is_int('1')",
		"substr('abcdef', 1, 3)", "substr('abcdef', 1, 1 + 2)", "substr('abc', 0, 10)", "substr('abc', 2, 1)", "substr(key, 0, 1 + 0)", "substr('ab' + 'cd', 1, 3)", "substr('abc', 1, 'x')",
		"len('abc')", "len(split('a,b', ','))", "len(split('a,b', ',')) + 1", "len('ab') + (1 + 2)", "(len('ab') + 1) + 2", "len(list(1, 2, 3))", "len(12)",
		"split('a,b', ',')", "split('a,b', ',')[0]", "split('a,b', ',')[1] + 'x'", "split(key, ',')[0]", "split('a' + ',b', ',')[1]",
		"list(1, 2, 3)", "list(1, 2, 3)[0]", "list(1 + 1, 2)[0]", "list(0.5, 2)[1]", "int_list(1, '2')[1]", "float_list(1, 0.5)[0]", "list(1, 2)[0] + 1",
		"join(',', 'a', 'b')", "join(',', 'a', upper('b'))", "join(',', key, 'a' + 'b')", "join('a' + 'b', 'x', 'y')", "join(',', 1 + 2, 'a')", "join(1, 'a')",
		"cosine_distance(list(1, 2), list(1, 2))", "l2_distance(list(1, 2), list(1, 2))", "l2_distance(list(3, 0), list(0, 4))", "l2_distance(list(3, 0), list(0, 4)) + 1", "l2_distance(list(1, 2), list(1))",
		"json('{}')", "json(value)", "json('{\"a\": 1}')['a']",
		"str(json(value)['n'])", "str(json(value)['s'])", "str(json(value)['b'])", "len(str(json(value)['n']))", "upper(str(json(value)['s']))",
		"str(json(value)['o']['s']) + 'z'", "str(json(value)['n']) = '1.000000'", "strlen(str(json(value)['n'])) > 3", "str(json(value)['s']) + str(json(value)['n'])",
		"str(str(json(value)['n']))", "str(upper(key))", "str(key + 'a')", "str(split(value, ',')[0])", "lower(str(json(value)['b']))", "is_int(str(json(value)['n']))",
		"UPPER('a')", "Upper('a') + 'b'", "nosuchfn('a')", "upper()", "upper('a', 'b')", "strlen(upper(lower('Ab')))",
		"int(str(int('7')))", "upper(str(1 + 2) + 'x')", "strlen(str(1.5 * 2))", "is_int(str(1 + 2))", "int(upper('1') + '2') * 2",
		"'a' in ('a', 'b')", "'a' in (upper('a'), 'b')", "key in ('a' + 'b', 'a')", "1 in (1, 1 + 1)", "int(value) in (1 + 1, 12)", "'a' in split('a,b', ',')", "upper('a') in split('A,b', ',')", "2 in list(1, 1 + 1)",
		"1 between 0 and 2", "1 + 1 between 0 and 3", "int(value) between 1 + 1 and 3 * 7", "'b' between 'a' and 'c'", "'a' + 'b' between 'a' and 'b'",
		"0.125 * 0.0625", "1 / 128.0", "float('0.0078125')", "float(value) * 0.125 * 0.0625", "(float(value) * 0.0078125) * 0.5",
		"0.0078125 + 0.00390625", "3 * 0.001953125", "float(value) + (0.125 * 0.0625)", "(0.5 * 0.0078125) > 0.0039", "str(0.125 * 0.0625)",
		"(1 + 2) * 3", "1 + 2 * 3", "(1 + 2) * (3 + 7)", "(1 + 2) * (0.5 + 1.5)", "7 / 2", "7 / 2.0", "7 / (1 + 1)", "3 * 0.5", "0.5 * 3", "1 - 2 - 3", "2 * 3 / 7", "7 / 0.5 / 2",
		"1 / (1 - 1)", "1.5 / (0.5 - 0.5)", "int(value) / (1 - 1)", "9223372036854775807 + 1", "(int(value) + 9223372036854775807) + 1", "9223372036854775807 * 2 * 3", "(int(value) * 4611686018427387904) * 4",
		"'a' + 'b'", "'a' + 'b' + 'c'", "('a' + 'b') + ('a' + 'b')", "key + 'a' + 'b'", "key + ('a' + 'b')", "'a' + key + 'b'", "'a' + 'b' + key", "key + value + 'a' + 'b'", "(key + 'a') + ('b' + 'a')",
		"(int(value) + 1) + (2 + 3)", "(int(value) + (1 + 2)) + 3", "(int(value) + 1) + (2 * 3)", "((int(value) * 2) * 3) * 7", "(int(value) * 2) * (3 * 7)", "(float(value) * 0.5) * 2", "(float(value) + 0.5) + 1.5", "(float(value) + 1) + 0.5", "(int(value) + 0.5) + 1", "(int(value) * 2) * 0.5",
		"true", "false", "1", "1.5", "'a'", "key", "value", "int(value)",
	}
	for _, x := range calls {
		ctx.one(x, "E calls and lists")
	}
	// ---- H: two constant calls in ONE expression / statement whose (folded) arguments print
	// alike but differ in kind (an integer and a float with an integral value that is itself the
	// result of folding): anything the optimizer remembers per statement must not mix them up
	{
		alike := [][2]string{{"(1.5 + 1.5)", "3"}, {"(0.5 + 0.5)", "1"}, {"(1.5 * 2)", "3"}, {"(2 * 1.5)", "3"}, {"(4 / 2.0)", "2"}, {"(3.5 - 0.5)", "3"}, {"(7 - 0.5 - 0.5)", "6"}}
		fns := []string{"str(%s)", "is_float(%s)", "is_int(%s)", "strlen(str(%s))", "float(%s)", "int(%s)", "str(%s + 1)", "list(%s, 1)[0]"}
		for _, ab := range alike {
			for _, f := range fns {
				for _, sw := range []bool{false, true} {
					a, b := fmt.Sprintf(f, ab[0]), fmt.Sprintf(f, ab[1])
					if sw {
						a, b = b, a
					}
					if strings.HasPrefix(f, "str(") {
						ctx.one(c04Bin(a, "+", b), "H alike constants, one expression")
						ctx.one(c04Bin(c04Bin(a, "+", "key"), "+", b), "H alike constants, one expression")
					}
					ctx.one(c04Bin(a, "=", b), "H alike constants, one expression")
					ctx.one(c04Bin(c04Bin(a, "=", b), "|", "(key = 'a')"), "H alike constants, one expression")
					if keep(2) {
						ctx.statement(a, c04Bin(c04Bin(b, "=", b), "&", "(key != 'zz')"))
						ctx.statement(c04Bin("str(int(value))", "+", "str("+b+")"), c04Bin(a, "=", a))
					}
				}
			}
		}
	}
	// ---- F: random
	nr := 450
	if c.search {
		nr = 4000
	}
	if thorough {
		nr = 25000
	}
	g := &c04Gen{r: r}
	for i := 0; i < nr; i++ {
		d := 2 + r.intn(5)
		var x string
		switch r.intn(4) {
		case 0:
			x = g.num(d, false)
		case 1:
			x = g.num(d, true)
		case 2:
			x = g.str(d)
		default:
			x = g.boolean(d)
		}
		ctx.one(x, fmt.Sprintf("F random depth<=%d", d))
	}
	// ---- G: whole statements
	ns := 30
	if thorough {
		ns = 500
	}
	for i := 0; i < ns; i++ {
		var field string
		switch r.intn(3) {
		case 0:
			field = g.num(1+r.intn(3), r.chance(1, 3))
		case 1:
			field = g.str(1 + r.intn(3))
		default:
			field = g.boolean(1 + r.intn(2))
		}
		ctx.statement(field, g.boolean(1+r.intn(3)))
	}
	// ---- I: statements with a REPEATED field name, one of the definitions constant / foldable: a name
	// denotes the FIRST field carrying it, whatever the folder does to the others; compared with
	// the same statement written without names
	for _, pq := range [][2]string{
		{"select int(value) as x, 2 + 3 as x, key where x > 4", "select int(value), 2 + 3, key where int(value) > 4"},
		{"select 2 + 3 as x, int(value) as x, key where x > 4", "select 2 + 3, int(value), key where 2 + 3 > 4"},
		{"select strlen(key) as n, 1 + 1 as n, n * 10 as m, key where n < 2", "select strlen(key), 1 + 1, strlen(key) * 10, key where strlen(key) < 2"},
		{"select key as a, 'x' + 'y' as a, a + '!' as b where a != 'xy'", "select key, 'x' + 'y', key + '!' where key != 'xy'"},
		{"select is_int(value) as b, 1 < 2 as b, key where b", "select is_int(value), 1 < 2, key where is_int(value)"},
		{"select 1 < 2 as b, is_int(value) as b, key where b | key = 'zz'", "select 1 < 2, is_int(value), key where 1 < 2 | key = 'zz'"},
		{"select upper(key) as u, upper('a' + 'b') as u, key where u ^= 'A'", "select upper(key), upper('a' + 'b'), key where upper(key) ^= 'A'"},
	} {
		var ref string
		for _, md := range []struct {
			batch bool
			B     int
		}{{false, 32}, {true, 3}, {true, 32}} {
			for which, q := range pq {
				res := runQuery(q, newStore(c04Pairs), md.batch, md.B, which == 0 && md.B == 3)
				got := fmt.Sprint(res.Err, res.Panic, canonRows(res.Rows))
				rp := c04Replay{Expr: q, Family: "I repeated field name", Query: q, HowTo: "compare with the statement written without names: " + pq[1], Batches: md.B}
				idx := e.add("Case (EBool 0 true) (EBool 0 true) P []", rp, false)
				e.count("family I repeated field name")
				if ref == "" {
					ref = got
				} else if got != ref {
					rp.Orig, rp.After = ref[:min(len(ref), 400)], got[:min(len(got), 400)]
					e.fail(idx, "a statement with a repeated field name returns other rows than the same statement written without names", "C04/repeated-name", rp)
				}
			}
		}
	}
	c04TextStream(c, e, r)
	e.m.Exhaustive = thorough
	return e.flush()
}
