package main

// C04, stream T: statement TEXTS with foldable constant sub-expressions in WHERE, select fields,
// fields named by ORDER BY / GROUP BY items and by other fields, and aggregate arguments,
// x stores x iteration modes.  kvql has no public switch that disables the folder
// (optimizer.go: optimizeSelectExpressions is called unconditionally), so "without the rewrite"
// is the same text with every constant written in a row-dependent way the folder cannot fold and
// that has the same value and kind:  1 + 2  as  (1 + (strlen(key) - strlen(key))) + 2,
// 'a' + 'b'  as  (substr(key, 0, 0) + 'a') + 'b'.  Both texts go through
// NewOptimizer(q).BuildPlan(store) + drain in every mode; the Coq side (Corr/C04Text.v) compares
// the two observations (code 2), the folded pipeline twin (Corr/C03Text.check_ps), the
// no-fold twin Model/PipelineNoFold.v and the two twins with each other on the same text.

import (
	"fmt"
	"strings"

	kvql "github.com/c4pt0r/kvql"
)

type t4Replay struct {
	Kind     string      `json:"kind"`
	Query    string      `json:"query"`
	NoFold   string      `json:"query_fold_defeated"`
	Store    [][2]string `json:"store"`
	Obs      []string    `json:"observed_per_mode,omitempty"`
	ObsNoFld []string    `json:"observed_per_mode_fold_defeated,omitempty"`
}

const t4Zero = "(strlen(key) - strlen(key))"
const t4Empty = "substr(key, 0, 0)"

// {foldable, fold-defeating} spellings of the same constant
var t4Int = [][2]string{
	{"(1 + 2)", "((1 + " + t4Zero + ") + 2)"},
	{"(2 * 3)", "((2 + " + t4Zero + ") * 3)"},
	{"(7 - 2 * 2)", "(7 - (2 + " + t4Zero + ") * 2)"},
	{"(0 + 1 + 1)", "(((0 + " + t4Zero + ") + 1) + 1)"},
	{"strlen('abc')", "strlen(" + t4Empty + " + 'abc')"},
}
var t4Text = [][2]string{
	{"('a' + 'b')", "((" + t4Empty + " + 'a') + 'b')"},
	{"('k' + '0')", "((" + t4Empty + " + 'k') + '0')"},
	{"lower('K0')", "lower(" + t4Empty + " + 'K0')"},
	{"('' + 'b')", "((" + t4Empty + " + '') + 'b')"},
	{"substr('xk0', 1, 2)", "substr(" + t4Empty + " + 'xk0', 1, 2)"},
}
var t4Bool = [][2]string{
	{"(1 < 2)", "((1 + " + t4Zero + ") < 2)"},
	{"(2 < 1)", "((2 + " + t4Zero + ") < 1)"},
	{"('a' = 'a')", "((" + t4Empty + " + 'a') = 'a')"},
	{"(1 + 1 = 2)", "(((1 + " + t4Zero + ") + 1) = 2)"},
	{"is_int('7')", "is_int(" + t4Empty + " + '7')"},
}

// %I %T %B are replaced by a constant of that kind
var t4Templates = []string{
	"select key, int(value) + %I as n where key >= %T & %B",
	"select key, %T + value as t where int(value) > %I | !%B order by t desc",
	"select key, %I as c, value where key ^= %T limit 3",
	"select key, %I as c, %T as t, %B as b where key > %T",
	"select key as a, a + %T as b, b + %T as c where b > %T",
	"select int(value) + %I as x, key where x > %I order by x, key",
	"select int(value) * %I as x, key where x >= %I & %B order by x desc limit 4",
	"select substr(key, 0, 1) as g, count(1) as c, sum(int(value) + %I) as s where %B group by g order by g",
	"select key, count(1) as c, max(int(value) * %I) as m where key > %T group by key",
	"select %T + substr(key, 0, 1) as g, count(1) as c where key ^= 'k' | %B group by g order by g desc",
	"select substr(key, 0, 1) as g, min(int(value) - %I) as m, avg(int(value)) as a where int(value) < %I + 4 group by g",
	"select count(1) as c, sum(int(value) * %I) as s where key >= %T",
	"select key where key in (%T, 'k00', %T)",
	"select key, value where int(value) between %I - 3 and %I",
	"select key where key = %T | key = %T",
	"select key, value where key < %T & int(value) != %I",
	"select * where key >= %T & %B",
	"select key, int(value) + %I as n where %B order by n desc, key limit 1, 3",
	"select key, (int(value) + %I) + %I as n where (key + %T) + %T > %T",
	"select key, float(value) * %I as f where %B & key ^= %T",
}

func t4Instantiate(r *rng, tpl string) (q, q2 string) {
	var a, b strings.Builder
	for i := 0; i < len(tpl); i++ {
		if tpl[i] == '%' && i+1 < len(tpl) {
			var pool [][2]string
			switch tpl[i+1] {
			case 'I':
				pool = t4Int
			case 'T':
				pool = t4Text
			case 'B':
				pool = t4Bool
			}
			if pool != nil {
				p := pool[r.intn(len(pool))]
				a.WriteString(p[0])
				b.WriteString(p[1])
				i++
				continue
			}
		}
		a.WriteByte(tpl[i])
		b.WriteByte(tpl[i])
	}
	return a.String(), b.String()
}

// t4Runs drains q in every mode; runs grouped by outcome as in psCase
func t4Runs(q string, kvs [][2]string) (runs string, plan kvql.FinalPlan, obs []string, rowsModes int) {
	groups := []string{}
	modesOf := map[string][]int{}
	for _, m := range psModes {
		B := m
		if m == 0 {
			B = 32
		}
		res, p := c03w2Run(q, kvs, m != 0, B)
		if plan == nil && p != nil {
			plan = p
		}
		o := psObs(res)
		if _, have := modesOf[o]; !have {
			groups = append(groups, o)
		}
		modesOf[o] = append(modesOf[o], m)
		if strings.HasPrefix(o, "(PRows") {
			rowsModes++
		}
		short := o
		if len(short) > 200 {
			short = short[:200] + "..."
		}
		obs = append(obs, fmt.Sprintf("mode %d: %s", m, short))
	}
	rs := make([]string, len(groups))
	for i, o := range groups {
		rs[i] = fmt.Sprintf("(%s, %s)", coqNatList(modesOf[o]), o)
	}
	return coqList(rs), plan, obs, rowsModes
}

func t4Case(e *emitter, q, q2 string, kvs [][2]string, bucket string) {
	rp := t4Replay{Kind: "statement text with foldable constants vs the same text with every constant written so that the folder cannot fold it; both through NewOptimizer(q).BuildPlan(store) + drain", Query: q, NoFold: q2, Store: kvs}
	runs, plan, obs, _ := t4Runs(q, kvs)
	runs2, _, obs2, rows2 := t4Runs(q2, kvs)
	rp.Obs, rp.ObsNoFld = obs, obs2
	planTerm := "None"
	if plan != nil {
		parts := &c03w2Parts{}
		shape, ok := c03w2Walk(plan, parts)
		scanTerm, scanKind := psScan(plan)
		types := make([]string, len(plan.FieldTypeList()))
		for i, t := range plan.FieldTypeList() {
			types[i] = c03w2TypeCtor[t]
		}
		if ok && scanTerm != "" {
			planTerm = fmt.Sprintf("(Some (%s, %s, %s, %s))", coqStrList(plan.FieldNameList()), coqList(types), shape, scanTerm)
		}
		e.count("T:scan=" + scanKind)
	}
	e.add(fmt.Sprintf("CaseX4 (T4Case (PSCase %s %s %s %s) %s %s)", coqStr(q), coqPairs(kvs), planTerm, runs, coqStr(q2), runs2), rp, plan != nil && len(kvs) > 0 && rows2 > 0)
	e.count("family T statement text: " + bucket)
	if rows2 == 0 {
		e.count("T:fold-defeated text returned no rows in any mode (no claim)")
	}
}

func c04TextStream(c *runCtx, e *emitter, r *rng) {
	e.m.Rule += "; (T) statement TEXTS: 20 SELECT templates (projection / aggregate, references between fields, ORDER BY / GROUP BY items naming folded fields, aggregate arguments, IN lists, BETWEEN bounds, LIMIT) with foldable integer / text / Boolean constants drawn from 15 spellings x stores of 0..12 pairs x {row, batch 1, 2, 3, 32}, each run as written and with every constant written fold-proof (strlen(key) - strlen(key), substr(key, 0, 0)); rows / values / kinds / order compared (Corr/C04Text.v), both pipeline twins (with the folder, with the identity folder) evaluated on the same text"
	n := 2
	if c.thorough() || c.search {
		n = 40
	}
	for _, tpl := range t4Templates {
		for i := 0; i < n; i++ {
			q, q2 := t4Instantiate(r, tpl)
			kvs := c03MakeStore(r, r.intn(13), true)
			bucket := "projection"
			if strings.Contains(tpl, "count(") || strings.Contains(tpl, "sum(") {
				bucket = "aggregate"
			}
			t4Case(e, q, q2, kvs, bucket)
		}
	}
}
