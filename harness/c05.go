package main

// C05: aliases are pure abbreviations and the field cache is invisible.
//
// Statements with 1-3 aliased select fields, the names used in WHERE, in function arguments
// (join, ilist, ...), under ! / in IN lists / under [i], in ORDER BY and GROUP BY, run over
// stores whose first k scanned rows FAIL the filter (k = 0..B+1, so that a value cached for a
// rejected row could leak), with the cache on and off, row-at-a-time and in batches of
// B in {1,2,3,32}, through every access path (full, prefix, range, point reads).
//
// Direct verdicts on the implementation (e.fail):
//   cache-visible         rows(cache on) != rows(cache off) in the same iteration mode
//   alias-not-abbreviation rows(aliased text) != rows(text with every use of a name replaced
//                         by its defining expression)
//   row-shape             a returned row does not have one column per announced field name
//   column-value          (plain projections) the rows are not [value of every field expression
//                         on the pair] for exactly the accepted pairs in scan order, the values
//                         computed by Expression.Execute without any context
//   chunk-cache           after a scan plan's Batch the cached column of an alias is not the
//                         alias evaluated on the RETURNED rows
// Coq side (Corr/C05.v): the row-mode twin with the cache as state (Model/Cache.v) against the
// row-mode observations; the chunk-cache bookkeeping twin against ctx.FieldChunkCaches after
// every Batch call of the scan; and the same spec judgements computed by the cache-free twin.

import (
	"context"
	"fmt"
	"os"
	"os/exec"
	"regexp"
	"sort"
	"strings"
	"time"

	kvql "github.com/c4pt0r/kvql"
)

func init() {
	registry["C05"] = runC05
	registry["C05-child"] = runC05Child
}

type c05Alias struct {
	name string
	def  string // {x} marks a use of alias x
	typ  gty
}

type c05Query struct {
	lead    []string
	aliases []c05Alias
	extra   []string
	where   string
	suffix  string
	kind    string // plain | order | limit | group
	tag     string
}

var c05Hole = regexp.MustCompile(`\{(\w+)\}`)

func (qy *c05Query) defOf(name string) string {
	for _, a := range qy.aliases {
		if a.name == name {
			return a.def
		}
	}
	return name
}

// sub renders a template: aliased -> the bare names; expanded -> the (recursively expanded)
// definitions, parenthesised when they are not a single call / atom.
func (qy *c05Query) sub(t string, aliased bool, depth int) string {
	return c05Hole.ReplaceAllStringFunc(t, func(m string) string {
		name := m[1 : len(m)-1]
		if aliased || depth > 8 {
			return name
		}
		d := qy.sub(qy.defOf(name), false, depth+1)
		if strings.ContainsAny(d, " ") && !c05SingleCall(d) {
			return "(" + d + ")"
		}
		return d
	})
}

// c05SingleCall: text of the form name(...) with the parenthesis closing at the very end
func c05SingleCall(d string) bool {
	i := strings.IndexByte(d, '(')
	if i <= 0 || !regexp.MustCompile(`^\w+$`).MatchString(d[:i]) || d[len(d)-1] != ')' {
		return false
	}
	depth := 0
	for j := i; j < len(d); j++ {
		switch d[j] {
		case '(':
			depth++
		case ')':
			depth--
			if depth == 0 && j != len(d)-1 {
				return false
			}
		case '\'':
			k := strings.IndexByte(d[j+1:], '\'')
			if k < 0 {
				return false
			}
			j += k + 1
		}
	}
	return depth == 0
}

func (qy *c05Query) text(aliased bool, pathPred string) string {
	fs := append([]string{}, qy.lead...)
	for _, a := range qy.aliases {
		d := qy.sub(a.def, aliased, 0)
		if aliased {
			fs = append(fs, d+" as "+a.name)
		} else {
			fs = append(fs, d)
		}
	}
	for _, x := range qy.extra {
		fs = append(fs, qy.sub(x, aliased, 0))
	}
	w := qy.sub(qy.where, aliased, 0)
	if pathPred != "" {
		w = pathPred + " & (" + w + ")"
	}
	return "select " + strings.Join(fs, ", ") + " where " + w + qy.sub(qy.suffix, aliased, 0)
}

// ---------------------------------------------------------------- fixed statement shapes (exhaustive part)

func c05Templates() []*c05Query {
	I, S, F, Bo, L := gInt, gStr, gFlt, gBool, gList
	return []*c05Query{
		{tag: "where-int", lead: []string{"key"}, aliases: []c05Alias{{"n", "int(value)", I}}, where: "{n} > 2", kind: "plain"},
		{tag: "where-alias-of-alias", aliases: []c05Alias{{"n", "int(value)", I}, {"m", "{n} + 1", I}}, where: "{m} != 6", kind: "plain"},
		{tag: "forward-ref", aliases: []c05Alias{{"m", "{n} * 2", I}, {"n", "int(value)", I}}, lead: []string{"key"}, where: "{n} != 5 & {m} > 2", kind: "plain"},
		{tag: "join-ilist-args", lead: []string{"key"}, aliases: []c05Alias{{"n", "int(value)", I}, {"u", "upper(value)", S}},
			extra: []string{"join('-', {n}, {u}, key)", "ilist({n}, {n} + 1)", "list({n}, 2)"}, where: "{n} >= 3 | {u} = 'A'", kind: "plain"},
		{tag: "str-prefix", aliases: []c05Alias{{"u", "upper(value)", S}, {"t", "{u} + key", S}}, lead: []string{"value"}, where: "{u} ^= 'A' & strlen({t}) > 3", kind: "plain"},
		{tag: "float", lead: []string{"key"}, aliases: []c05Alias{{"f", "float(value) * 0.5", F}, {"g", "{f} + 1.5", F}}, extra: []string{"flist({f}, {g})"}, where: "{g} > 2.5", kind: "plain"},
		{tag: "bool-alias", lead: []string{"key"}, aliases: []c05Alias{{"b", "int(value) > 3", Bo}, {"n", "int(value)", I}}, where: "{b} | !{b} & {n} = 2", kind: "plain"},
		{tag: "list-alias", aliases: []c05Alias{{"l", "split(value, ',')", L}, {"h", "{l}[0]", S}}, lead: []string{"key"}, extra: []string{"len({l})"}, where: "'a' in {l} | {h} = 'b'", kind: "plain"},
		{tag: "in-list-item", lead: []string{"key"}, aliases: []c05Alias{{"n", "int(value)", I}, {"m", "strlen(value)", I}}, extra: []string{"ilist({n}, {m})[1]"}, where: "{n} in (7, {m}, 12) | {n} between {m} and 3", kind: "plain"},
		{tag: "not", lead: []string{"key"}, aliases: []c05Alias{{"n", "int(value)", I}}, where: "!({n} > 2) | {n} = 7", kind: "plain"},
		{tag: "prefix-names", lead: []string{"key"}, aliases: []c05Alias{{"v", "int(value)", I}, {"v2", "int(value) * 100", I}}, where: "{v} < 5 & {v2} > 150", kind: "plain"},
		{tag: "same-name-twice", aliases: []c05Alias{{"a", "upper(value)", S}, {"a", "int(value)", I}}, lead: []string{"key"}, where: "{a} != 'A'", kind: "plain"},
		// a name announced twice with definitions of the SAME type and different values: every use
		// of the name (WHERE, arguments, ORDER BY) stands for the FIRST field carrying it
		{tag: "same-name-twice-text", aliases: []c05Alias{{"a", "upper(value)", S}, {"a", "lower(value) + key", S}}, lead: []string{"key"}, extra: []string{"{a} + '!'"}, where: "{a} ^= 'A' | {a} = 'B'", kind: "plain"},
		{tag: "same-name-twice-num", lead: []string{"key"}, aliases: []c05Alias{{"a", "int(value)", I}, {"a", "int(value) * 100", I}}, extra: []string{"str({a})", "ilist({a}, 1)"}, where: "{a} < 50 & {a} > 2", kind: "plain"},
		{tag: "same-name-twice-order", lead: []string{"key"}, aliases: []c05Alias{{"a", "int(value)", I}, {"a", "0 - int(value)", I}}, where: "{a} >= 3", suffix: " order by {a} desc, key", kind: "order"},
		{tag: "unused-alias", lead: []string{"key"}, aliases: []c05Alias{{"n", "int(value)", I}, {"m", "{n} * {n}", I}}, where: "value != '5'", kind: "plain"},
		{tag: "order-by", lead: []string{"key"}, aliases: []c05Alias{{"n", "int(value)", I}}, where: "{n} > 2", suffix: " order by {n} desc, key", kind: "order"},
		{tag: "order-by-derived", aliases: []c05Alias{{"n", "int(value)", I}, {"s", "str({n} * 2)", S}}, lead: []string{"key"}, where: "{n} != 5", suffix: " order by {s}, key desc", kind: "order"},
		{tag: "order-by-concat-alias", lead: []string{"key"}, aliases: []c05Alias{{"y", "value", S}, {"m", "{y} + 'x'", S}}, where: "strlen({y}) >= 1", suffix: " order by {m}, key", kind: "order"},
		{tag: "three-uses", lead: []string{"key"}, aliases: []c05Alias{{"n", "int(value)", I}, {"u", "upper(value)", S}}, extra: []string{"{n} + 1", "{u} + {u}"},
			where: "({n} + 1 > 2 & {n} * 2 < 30 & {n} != 5) | ({u} + 'x' = 'Ax' & {u} != 'B' & strlen({u}) = 1)", kind: "plain"},
		{tag: "limit", lead: []string{"key"}, aliases: []c05Alias{{"n", "int(value)", I}}, extra: []string{"join(',', {n}, {n})"}, where: "{n} > 2", suffix: " limit 1, 3", kind: "limit"},
		{tag: "group-by", aliases: []c05Alias{{"g", "int(value) / 4", I}, {"c", "count(1)", I}, {"s", "sum({g})", I}}, where: "{g} >= 1", suffix: " group by {g}", kind: "group"},
		// statement shapes of buildFinalPlan not covered above (Model/CachePlans.v): limit over order, the dropped
		// `order by key asc`, order / order + limit over the aggregate node, the pushed-down limit
		{tag: "order-limit", lead: []string{"key"}, aliases: []c05Alias{{"n", "int(value)", I}}, where: "{n} > 2", suffix: " order by {n} desc, key limit 1, 2", kind: "order"},
		{tag: "order-by-key-asc-limit", lead: []string{"key"}, aliases: []c05Alias{{"n", "int(value)", I}, {"m", "{n} + 1", I}}, where: "{m} > 3", suffix: " order by key limit 1, 2", kind: "order"},
		{tag: "group-order", aliases: []c05Alias{{"g", "int(value) / 4", I}, {"c", "count(1)", I}, {"s", "sum({g} + 1)", I}}, where: "{g} >= 0", suffix: " group by {g} order by {s} desc, {g}", kind: "group"},
		{tag: "group-order-limit", aliases: []c05Alias{{"g", "strlen(value)", I}, {"c", "count({g})", I}, {"m", "max({g} * 2)", I}}, where: "{g} >= 1", suffix: " group by {g} order by {g} desc limit 1, 2", kind: "group"},
		{tag: "group-limit", aliases: []c05Alias{{"g", "int(value) / 2", I}, {"s", "sum({g})", I}}, where: "{g} >= 1", suffix: " group by {g} limit 1, 2", kind: "group"},
		// a name whose value was built by a concatenation (a byte slice with spare capacity), used
		// more than once on the LEFT of another concatenation: results are values, not views of
		// one buffer
		{tag: "concat-left-twice", aliases: []c05Alias{{"p", "key + ':'", S}, {"kv", "{p} + value", S}, {"m", "{p} + 'end'", S}}, where: "key ^= 'k'", kind: "plain"},
		{tag: "concat-left-thrice", lead: []string{"key"}, aliases: []c05Alias{{"p", "upper(value) + '-' + key", S}}, extra: []string{"{p} + 'a'", "{p} + 'bc'", "{p} + {p}"}, where: "{p} + 'x' != {p} + 'y'", kind: "plain"},
		{tag: "group-by-two", aliases: []c05Alias{{"n", "int(value)", I}, {"p", "{n} / 3", I}, {"m", "max({n} + {p})", I}}, where: "{n} > 2 | {p} = 0", suffix: " group by {n}, {p}", kind: "group"},
	}
}

// ---------------------------------------------------------------- random statements

type c05Gen struct {
	r *rng
}

var c05Names = []string{"n", "m", "s", "t", "f", "b", "l", "x", "y"}

func (g *c05Gen) baseDef(t gty) string {
	r := g.r
	switch t {
	case gInt:
		return pick(r, []string{"int(value)", "strlen(value)", "int(value) * 2", "int(value) + strlen(key)", "int(value) / 2"})
	case gStr:
		return pick(r, []string{"upper(value)", "lower(value)", "key + value", "substr(value, 0, 1)", "str(int(value))", "value"})
	case gFlt:
		return pick(r, []string{"float(value)", "float(value) * 0.5", "int(value) / 2.0", "float(value) + 0.25"})
	case gBool:
		return pick(r, []string{"int(value) > 3", "value ^= 'a'", "is_int(value)", "strlen(value) = 1"})
	default:
		return pick(r, []string{"split(value, ',')", "ilist(int(value), 2)", "list(int(value), strlen(value))"})
	}
}

// derivedDef: a definition of type t in terms of the earlier alias a
func (g *c05Gen) derivedDef(t gty, a c05Alias) (string, bool) {
	r := g.r
	u := "{" + a.name + "}"
	switch t {
	case gInt:
		switch a.typ {
		case gInt:
			return pick(r, []string{u + " + 1", u + " * " + u, u + " - 2", "int(str(" + u + "))"}), true
		case gStr:
			return pick(r, []string{"strlen(" + u + ")", "int(" + u + ")"}), true
		case gList:
			return "len(" + u + ")", true
		case gFlt:
			return "int(" + u + ")", true
		}
	case gStr:
		switch a.typ {
		case gInt, gFlt:
			return pick(r, []string{"str(" + u + ")", "join('/', " + u + ", key)"}), true
		case gStr:
			return pick(r, []string{"upper(" + u + ")", u + " + 'x'", "substr(" + u + ", 0, 2)", "join('-', " + u + ", " + u + ")"}), true
		case gBool:
			return "str(" + u + ")", true
		case gList:
			return pick(r, []string{u + "[0]", u + "[1]"}), true
		}
	case gFlt:
		switch a.typ {
		case gInt:
			return pick(r, []string{u + " * 0.5", u + " + 1.5", "float(" + u + ")"}), true
		case gFlt:
			return pick(r, []string{u + " + 0.5", u + " * 2.0"}), true
		case gStr:
			return "float(" + u + ")", true
		}
	case gBool:
		switch a.typ {
		case gInt:
			return pick(r, []string{u + " > 3", u + " != 2", u + " in (1, 2, 3)"}), true
		case gStr:
			return pick(r, []string{u + " ^= 'A'", u + " = 'a'", "is_int(" + u + ")"}), true
		case gFlt:
			return u + " > 1.5", true
		case gBool:
			return "!" + u, true
		}
	case gList:
		switch a.typ {
		case gInt:
			return pick(r, []string{"ilist(" + u + ", " + u + " + 1)", "list(" + u + ", 2)"}), true
		case gStr:
			return "split(" + u + ", ',')", true
		case gFlt:
			return "flist(" + u + ", 0.5)", true
		}
	}
	return "", false
}

// pred: a Boolean test on alias a
func (g *c05Gen) pred(a c05Alias, others []c05Alias) string {
	r := g.r
	u := "{" + a.name + "}"
	switch a.typ {
	case gInt:
		var o string
		for _, b := range others {
			if b.typ == gInt && b.name != a.name {
				o = "{" + b.name + "}"
			}
		}
		opts := []string{u + " > 2", u + " >= 5", u + " != 5", u + " in (1, 3, 7)", u + " between 2 and 7",
			u + " + 1 > 4", "!(" + u + " > 4)", u + " < 3", "ilist(" + u + ", 3)[0] > 2"}
		if o != "" {
			opts = append(opts, u+" in (1, "+o+")", u+" > "+o, u+" between 1 and "+o+" + 2")
		}
		return pick(r, opts)
	case gStr:
		return pick(r, []string{u + " = 'A'", u + " ^= 'A'", u + " != 'a'", u + " in ('A', 'a', '3')", "upper(" + u + ") = 'A'",
			"strlen(" + u + ") > 1", u + " + 'x' = 'ax'", u + " >= 'a'", "!(" + u + " = '5')"})
	case gFlt:
		return pick(r, []string{u + " > 1.0", u + " <= 2.5", u + " * 2.0 > 5.0", u + " >= 3"})
	case gBool:
		return pick(r, []string{u + " & value != 'zz'", "!" + u, u + " | value = '5'", u + " = true"})
	default:
		if strings.HasPrefix(a.def, "split") {
			return pick(r, []string{"'a' in " + u, "len(" + u + ") > 1", u + "[0] = 'a'", "'3' in " + u, u + "[1] != ''"})
		}
		return pick(r, []string{"2 in " + u, "len(" + u + ") > 1", u + "[0] > 1", u + "[1] = 2", "3 in " + u})
	}
}

func (g *c05Gen) query() *c05Query {
	r := g.r
	qy := &c05Query{kind: "plain", tag: "random"}
	n := 1 + r.intn(3)
	names := append([]string{}, c05Names...)
	for i := 0; i < n; i++ {
		j := r.intn(len(names))
		nm := names[j]
		names = append(names[:j], names[j+1:]...)
		t := pick(r, []gty{gInt, gInt, gStr, gStr, gFlt, gBool, gList})
		a := c05Alias{name: nm, typ: t}
		if i > 0 && r.chance(3, 5) {
			if d, ok := g.derivedDef(t, qy.aliases[r.intn(i)]); ok {
				a.def = d
			}
		}
		if a.def == "" {
			a.def = g.baseDef(t)
		}
		qy.aliases = append(qy.aliases, a)
	}
	al := qy.aliases
	// WHERE: one or two tests on aliases
	w := g.pred(al[r.intn(len(al))], al)
	if r.chance(1, 2) {
		w = "(" + w + ") " + pick(r, []string{"&", "|", "and", "or"}) + " (" + g.pred(al[r.intn(len(al))], al) + ")"
	}
	if r.chance(1, 4) {
		// the same name several times in one clause
		a := al[r.intn(len(al))]
		w = "(" + w + ") " + pick(r, []string{"&", "|"}) + " (" + g.pred(a, al) + ") " + pick(r, []string{"&", "|"}) + " (" + g.pred(a, al) + ")"
	}
	qy.where = w
	if r.chance(2, 3) {
		qy.lead = []string{"key"}
	}
	// function-argument uses in an extra field
	if r.chance(1, 2) {
		a := al[r.intn(len(al))]
		b := al[r.intn(len(al))]
		u, v := "{"+a.name+"}", "{"+b.name+"}"
		if a.typ != gList && b.typ != gList {
			qy.extra = append(qy.extra, pick(r, []string{
				"join('-', " + u + ", " + v + ")", "ilist(" + u + ", " + v + ")", "str(" + u + ")", "list(" + u + ", 2)",
				"flist(" + u + ")", "ilist(" + u + ", 3)[0]", "join(',', " + u + ", key, " + v + ")"}))
		} else if a.typ == gList {
			qy.extra = append(qy.extra, pick(r, []string{"len(" + u + ")", u + "[1]"}))
		}
	}
	// select-list order is free: a definition may use a name defined further right
	if len(al) > 1 && r.chance(1, 3) {
		al[0], al[len(al)-1] = al[len(al)-1], al[0]
	}
	switch r.intn(8) {
	case 0:
		for _, a := range al {
			if a.typ == gInt || a.typ == gStr || a.typ == gFlt {
				qy.suffix = " order by {" + a.name + "}" + pick(r, []string{"", " desc", " asc"}) + ", key"
				qy.kind = "order"
				qy.lead = []string{"key"}
				break
			}
		}
	case 1:
		qy.suffix = pick(r, []string{" limit 2", " limit 1, 2", " limit 0, 5"})
		qy.kind = "limit"
	}
	return qy
}

// groupQuery: GROUP BY over one or two aliases, with aggregates whose arguments use them
func (g *c05Gen) groupQuery() *c05Query {
	r := g.r
	qy := &c05Query{kind: "group", tag: "random-group"}
	t := pick(r, []gty{gInt, gInt, gStr})
	a := c05Alias{name: "g", typ: t, def: g.baseDef(t)}
	if t == gInt && r.chance(1, 2) {
		a.def = "(" + a.def + ") / " + pick(r, []string{"2", "3", "4"})
	}
	qy.aliases = []c05Alias{a}
	keys := " group by {g}"
	if r.chance(1, 3) {
		if d, ok := g.derivedDef(pick(r, []gty{gInt, gStr}), a); ok {
			b := c05Alias{name: "h", def: d}
			b.typ = gStr
			if strings.HasPrefix(d, "{g} ") || strings.HasPrefix(d, "strlen") || strings.HasPrefix(d, "int(") {
				b.typ = gInt
			}
			qy.aliases = append(qy.aliases, b)
			keys += ", {h}"
		}
	}
	arg := "{g}"
	if t == gStr {
		arg = "strlen({g})"
	}
	aggs := []string{"count(1)", "sum(" + arg + ")", "max(" + arg + " + 1)", "min(" + arg + ")", "sum(int(value))"}
	n := 1 + r.intn(2)
	for i := 0; i < n; i++ {
		qy.aliases = append(qy.aliases, c05Alias{name: []string{"c", "s"}[i], def: aggs[r.intn(len(aggs))], typ: gInt})
	}
	qy.where = g.pred(a, qy.aliases[:1])
	qy.suffix = keys
	if r.chance(1, 4) {
		qy.suffix += pick(r, []string{" limit 2", " limit 1, 2"})
	}
	return qy
}

// ---------------------------------------------------------------- running and judging

type c05Replay struct {
	Tag      string      `json:"shape,omitempty"`
	Query    string      `json:"query"`
	Expanded string      `json:"expanded,omitempty"`
	Store    [][2]string `json:"store,omitempty"`
	Path     string      `json:"access_path,omitempty"`
	B        int         `json:"batch_size,omitempty"`
	K        int         `json:"rejected_prefix,omitempty"`
	Mode     string      `json:"mode,omitempty"`
	Cache    string      `json:"cache,omitempty"`
	Got      string      `json:"got,omitempty"`
	Want     string      `json:"want,omitempty"`
	What     string      `json:"what,omitempty"`
}

// outcome of a run as a comparable text: rows by content, errors by class only (an alias use
// and its expansion sit at different offsets)
func c05Outcome(r runResult) string {
	if r.Panic != "" {
		return "PANIC " + r.Panic
	}
	s := strings.Join(canonRows(r.Rows), "\n")
	if r.Err != nil {
		if r.BuildErr {
			return "REJECTED " + errClass(r.Err)
		}
		return "ERROR " + errClass(r.Err)
	}
	return "ROWS\n" + s
}

func c05Short(s string) string {
	s = strings.ReplaceAll(strings.ReplaceAll(s, "\x1f", " | "), "\n", " ; ")
	if len(s) > 600 {
		s = s[:600] + "..."
	}
	return s
}

var c05Pool = []string{"0", "1", "2", "3", "5", "7", "12", "a", "A", "ab", "a,b", "b,a,c", "", "2.5", "-4", "b", "c,a"}

type c05Ref struct {
	sel *kvql.SelectStmt
}

// evalWhere: the expanded WHERE clause on one pair, by the row evaluator without a context
func (rf *c05Ref) evalWhere(k, v string) (pass bool, ok bool) {
	defer func() {
		if r := recover(); r != nil {
			pass, ok = false, false
		}
	}()
	res, err := rf.sel.Where.Expr.Execute(kvql.NewKVPStr(k, v), nil)
	if err != nil {
		return false, false
	}
	b, isb := res.(bool)
	return b, isb
}

func (rf *c05Ref) evalFields(k, v string) (row []kvql.Column, ok bool) {
	defer func() {
		if r := recover(); r != nil {
			row, ok = nil, false
		}
	}()
	for _, f := range rf.sel.Fields {
		x, err := f.Execute(kvql.NewKVPStr(k, v), nil)
		if err != nil {
			return nil, false
		}
		row = append(row, x)
	}
	return row, true
}

func c05Key(i int) string { return fmt.Sprintf("k%02d", i) }

// buildStore: n pairs k00.. whose first k fail the (expanded) WHERE clause, the rest mixed
// with at least one accepted pair.  ok=false when the clause cannot be failed / passed so.
func c05BuildStore(r *rng, rf *c05Ref, k, tail int) ([][2]string, bool) {
	var st [][2]string
	choose := func(i int, want bool) (string, bool) {
		off := r.intn(len(c05Pool))
		for j := 0; j < len(c05Pool); j++ {
			v := c05Pool[(off+j)%len(c05Pool)]
			p, ok := rf.evalWhere(c05Key(i), v)
			if ok && p == want {
				return v, true
			}
		}
		return "", false
	}
	for i := 0; i < k; i++ {
		v, ok := choose(i, false)
		if !ok {
			return nil, false
		}
		st = append(st, [2]string{c05Key(i), v})
	}
	passed := false
	for i := k; i < k+tail; i++ {
		// after the rejected prefix: accepted, rejected, accepted (a rejected pair between two
		// accepted ones of the same refill), then mixed
		want := r.chance(3, 5)
		switch i - k {
		case 0, 2:
			want = true
		case 1:
			want = false
		}
		if i == k+tail-1 && !passed {
			want = true
		}
		v, ok := choose(i, want)
		if !ok {
			v, ok = choose(i, !want)
			want = !want
			if !ok {
				return nil, false
			}
		}
		passed = passed || want
		st = append(st, [2]string{c05Key(i), v})
	}
	return st, true
}

var c05Paths = []string{"full", "prefix", "range", "mget"}

func c05PathPred(path string, st [][2]string) string {
	switch path {
	case "prefix":
		return "key ^= 'k'"
	case "range":
		return "key between 'k' and 'l'"
	case "mget":
		ks := []string{"'k999'"}
		for i, kv := range st {
			ks = append(ks, "'"+kv[0]+"'")
			if i%2 == 1 {
				// a listed key that is not stored, in the MIDDLE of the list: the sub-chunk
				// read there comes out short
				ks = append(ks, "'"+kv[0]+"!'")
			}
		}
		ks = append(ks, "'j0'")
		return "key in (" + strings.Join(ks, ", ") + ")"
	}
	return ""
}

// scanFilter: the WHERE expression the plan's scan node evaluates, and the node's kind
func c05ScanFilter(p kvql.Plan) (kvql.Expression, string) {
	switch s := p.(type) {
	case *kvql.FullScanPlan:
		return s.Filter.Ast.Expr, "full"
	case *kvql.PrefixScanPlan:
		return s.Filter.Ast.Expr, "prefix"
	case *kvql.RangeScanPlan:
		return s.Filter.Ast.Expr, "range"
	case *kvql.MultiGetPlan:
		return s.Filter.Ast.Expr, "mget"
	}
	return nil, "other"
}

// c05Refd: the aliases the filter evaluates chunk-wise (and so records in the chunk cache).
// The vector bodies of join / list / int_list / float_list evaluate their arguments row by
// row without a context (D7 fix), so names used only below them are not recorded.
func c05Refd(e kvql.Expression) []string {
	seen := map[string]bool{}
	rowBody := map[string]bool{"join": true, "list": true, "int_list": true, "ilist": true, "float_list": true, "flist": true}
	e.Walk(func(x kvql.Expression) bool {
		switch y := x.(type) {
		case *kvql.FieldReferenceExpr:
			seen[y.Name.Data] = true
		case *kvql.FunctionCallExpr:
			if n, err := kvql.GetFuncNameFromExpr(y); err == nil && rowBody[n] {
				return false
			}
		}
		return true
	})
	out := []string{}
	for k := range seen {
		out = append(out, k)
	}
	sort.Strings(out)
	return out
}

func c05CoqRows(rows [][]kvql.Column) string {
	p := make([]string, len(rows))
	for i, r := range rows {
		q := make([]string, len(r))
		for j, c := range r {
			q[j] = coqCanon(c)
		}
		p[i] = coqList(q)
	}
	return coqList(p)
}

func c05CoqObs(r runResult) string {
	if r.Panic != "" {
		return "RPanic"
	}
	if r.Err != nil {
		o := coqObs(nil, r.Err, "")
		return "(RErr" + strings.TrimSuffix(strings.TrimPrefix(o, "(OErr"), ")") + ")"
	}
	return "(RRows " + c05CoqRows(r.Rows) + ")"
}

func c05CoqExprs(es []kvql.Expression) (string, bool) {
	p := make([]string, len(es))
	ok := true
	for i, e := range es {
		var o bool
		p[i], o = coqExpr(e)
		ok = ok && o
	}
	return coqList(p), ok
}

const c05Trivial = "CRow [] [] (EBool 0 true) [] (RRows []) (RRows [])"

type c05Run struct {
	e *emitter
}

// combo: one statement on one store through one access path with batch size B.
func (cr *c05Run) combo(qy *c05Query, st [][2]string, path string, B, k int, coq bool) {
	e := cr.e
	pp := c05PathPred(path, st)
	qa, qe := qy.text(true, pp), qy.text(false, pp)
	rp := c05Replay{Tag: qy.tag, Query: qa, Expanded: qe, Store: st, Path: path, B: B, K: k}

	type key struct {
		aliased, batch, cache bool
	}
	runs := map[key]runResult{}
	for _, aliased := range []bool{true, false} {
		for _, batch := range []bool{false, true} {
			for _, cache := range []bool{true, false} {
				text := qe
				if aliased {
					text = qa
				}
				runs[key{aliased, batch, cache}] = runQuery(text, newStore(st), batch, B, cache)
			}
		}
	}
	ref := runs[key{true, false, false}]
	if ref.BuildErr {
		e.count("rejected")
		if !strings.HasPrefix(qy.tag, "random") && !runs[key{false, false, false}].BuildErr {
			// a fixed shape (accepted by the library the twins were validated against) is refused with
			// the names while the same statement with the definitions written out is accepted: the
			// name does not stand for its definition
			idx := e.add(c05vOld(c05Trivial), rp, false)
			r := rp
			r.What = "the statement with the names is rejected, the statement with the definitions written out is accepted"
			e.fail(idx, "a statement using a select-field name is rejected although the same statement with the definition written out is accepted", "C05/alias-rejected-expansion-accepted", r)
		}
		return
	}
	e.count("kind=" + qy.kind)
	e.count("path=" + path)
	e.count(fmt.Sprintf("B=%d", B))
	e.count(fmt.Sprintf("rejected_prefix=%d", k))
	e.count(fmt.Sprintf("aliases=%d", len(qy.aliases)))
	if ref.Err != nil {
		e.count("exec_error")
	}

	// ---- the Coq case for this combo
	idx := -1
	_ = idx
	var plan kvql.FinalPlan
	var proj *kvql.ProjectionPlan
	var wexpr kvql.Expression
	pkind := "other"
	if qy.kind == "plain" {
		kvql.PlanBatchSize, kvql.EnableFieldCache = B, true
		var err error
		plan, err = kvql.NewOptimizer(qa).BuildPlan(newStore(st))
		if err == nil {
			proj, _ = plan.(*kvql.ProjectionPlan)
		}
		if proj != nil {
			wexpr, pkind = c05ScanFilter(proj.ChildPlan)
		}
	}
	e.count("plan=" + pkind)
	namesTerm, fieldsTerm, whereTerm := "", "", ""
	modelled := false
	if coq && proj != nil && wexpr != nil && !proj.AllFields {
		var ok1, ok2 bool
		fieldsTerm, ok1 = c05CoqExprs(proj.Fields)
		whereTerm, ok2 = coqExpr(wexpr)
		namesTerm = coqStrList(proj.FieldNames)
		modelled = ok1 && ok2
		if !modelled {
			e.m.OutOfModel++
		}
	}
	nontrivial := len(ref.Rows) > 0 && len(ref.Rows) < len(st) && strings.Contains(qy.where, "{")
	term := c05Trivial
	if modelled {
		term = fmt.Sprintf("CRow %s %s %s %s %s %s", namesTerm, fieldsTerm, whereTerm, coqPairs(st),
			c05CoqObs(runs[key{true, false, true}]), c05CoqObs(runs[key{true, false, false}]))
	}
	// the verdicts are computed first so that the case's replay carries what was observed
	var fWhat, fSig string
	fRep := rp
	failed := false
	fail := func(what, sig string, r c05Replay) {
		if !failed {
			failed, fWhat, fSig, fRep = true, what, sig, r
		}
	}
	var chunkTerms []string
	var chunkReps []c05Replay
	var chunkNT []bool
	var vecTerms, vecFail []string
	var vecReps []c05Replay
	var vecNT []bool
	defer func() {
		idx = e.add(c05vOld(term), fRep, nontrivial && modelled)
		if failed {
			e.fail(idx, fWhat, fSig, fRep)
		}
		for i := range chunkTerms {
			e.add(c05vOld(chunkTerms[i]), chunkReps[i], chunkNT[i])
		}
		for i := range vecTerms {
			vi := e.add(vecTerms[i], vecReps[i], vecNT[i])
			if vecFail[i] != "" {
				e.fail(vi, vecFail[i], "C05/cache-visible", vecReps[i])
			}
		}
	}()

	// ---- statement level (ORDER BY / LIMIT / GROUP BY): the composed twins with the cache switch
	if coq && qy.kind != "plain" {
		cr.c5lStmtCase(qy, qa, st, path, B, k, runs[key{true, false, true}], runs[key{true, false, false}],
			runs[key{true, true, true}], runs[key{true, true, false}])
	}
	// ---- text level (harness/c05text.go): both texts through the text twin, expand_stmt through the twin
	if coq && (k == 0 || qy.kind != "plain") {
		cr.c05TextCase(qy, qa, qe, st, path, B, k, runs[key{true, false, false}], runs[key{true, true, false}],
			runs[key{false, false, false}], runs[key{false, true, false}])
	}
	// ---- the chunk caches: ExecuteBatch sequences on one context, and ProjectionPlan.Batch drains
	if modelled && proj != nil && wexpr != nil {
		cr.vecCases(qa, proj, wexpr, st, B, rp, namesTerm, fieldsTerm, whereTerm, true,
			func(t string, r c05Replay, nt bool, failWhat string) {
				vecTerms, vecReps, vecNT, vecFail = append(vecTerms, t), append(vecReps, r), append(vecNT, nt), append(vecFail, failWhat)
			})
	}
	// ---- V1: cache on = cache off, per iteration mode
	for _, aliased := range []bool{true, false} {
		for _, batch := range []bool{false, true} {
			on, off := c05Outcome(runs[key{aliased, batch, true}]), c05Outcome(runs[key{aliased, batch, false}])
			if on != off {
				r := rp
				r.Mode, r.Got, r.Want = c05Mode(batch, B), c05Short(on), c05Short(off)
				if !aliased {
					r.Query = qe
				}
				r.What = "got = cache on, want = cache off"
				fail("switching the field cache changes the result", "C05/cache-visible", r)
				return
			}
		}
	}
	// ---- V2: aliased text = expanded text, per iteration mode and cache setting
	if runs[key{false, false, false}].BuildErr {
		e.count("expanded_rejected")
	} else {
		for _, batch := range []bool{false, true} {
			for _, cache := range []bool{true, false} {
				a, x := c05Outcome(runs[key{true, batch, cache}]), c05Outcome(runs[key{false, batch, cache}])
				if a != x {
					r := rp
					r.Mode, r.Cache, r.Got, r.Want = c05Mode(batch, B), c05OnOff(cache), c05Short(a), c05Short(x)
					r.What = "got = with the names, want = with the names replaced by their definitions"
					fail("a statement using field names returns other rows than the same statement with the definitions written out", "C05/alias-not-abbreviation", r)
					return
				}
			}
		}
	}
	// ---- V3: one column per announced field
	for kk, rr := range runs {
		if !kk.aliased || rr.Err != nil || rr.Panic != "" {
			continue
		}
		for _, row := range rr.Rows {
			if len(row) != len(rr.Fields) {
				r := rp
				r.Mode, r.Cache = c05Mode(kk.batch, B), c05OnOff(kk.cache)
				r.Got, r.Want = fmt.Sprintf("%d columns", len(row)), fmt.Sprintf("%d field names %v", len(rr.Fields), rr.Fields)
				fail("a returned row does not have one column per announced field name", "C05/row-shape", r)
				return
			}
		}
	}
	if row, bat := c05Outcome(runs[key{true, false, false}]), c05Outcome(runs[key{true, true, false}]); row != bat {
		e.count("row_vs_batch_differs(C03)")
	}
	// ---- V4: plain projections: the rows are the field values on the accepted pairs
	if qy.kind == "plain" {
		if sel, err := kvql.NewParser(qy.text(false, "")).Parse(); err == nil {
			if ss, ok := sel.(*kvql.SelectStmt); ok {
				rf := &c05Ref{sel: ss}
				var want [][]kvql.Column
				good := true
				for _, kv := range st {
					p, ok := rf.evalWhere(kv[0], kv[1])
					if !ok {
						good = false
						break
					}
					if p {
						row, ok := rf.evalFields(kv[0], kv[1])
						if !ok {
							good = false
							break
						}
						want = append(want, row)
					}
				}
				if good {
					w := "ROWS\n" + strings.Join(canonRows(want), "\n")
					for kk, rr := range runs {
						// (batch mode is tied to this reference through V1/V2 and, where row and
						// batch evaluation differ on ill-typed operands, by C03)
						if !kk.aliased || kk.batch {
							continue
						}
						if got := c05Outcome(rr); got != w {
							r := rp
							r.Mode, r.Cache, r.Got, r.Want = c05Mode(kk.batch, B), c05OnOff(kk.cache), c05Short(got), c05Short(w)
							r.What = "want = every field expression evaluated (without any context) on the pairs the WHERE clause accepts, in key order"
							fail("a returned column is not the value of its field's expression on the row's pair", "C05/column-value", r)
							return
						}
					}
				} else {
					e.count("reference_error")
				}
			}
		}
	}
	// ---- V5 + chunk cases: the scan's Batch calls with the cache on
	if proj != nil && wexpr != nil && ref.Err == nil && ref.Panic == "" {
		cr.chunkCases(qy, proj, wexpr, pkind, st, B, rp, fail, modelled && B <= 3, namesTerm, fieldsTerm, whereTerm,
			func(t string, r c05Replay, nt bool) {
				chunkTerms, chunkReps, chunkNT = append(chunkTerms, t), append(chunkReps, r), append(chunkNT, nt)
			})
	}
}

func c05Mode(batch bool, B int) string {
	if batch {
		return fmt.Sprintf("batch(%d)", B)
	}
	return "row"
}
func c05OnOff(c bool) string {
	if c {
		return "on"
	}
	return "off"
}

// chunkCases drives the scan node of a fresh plan batch by batch (cache on) and looks at the
// context after every call.
func (cr *c05Run) chunkCases(qy *c05Query, proj *kvql.ProjectionPlan, wexpr kvql.Expression, pkind string,
	st [][2]string, B int, rp c05Replay, fail func(string, string, c05Replay), coq bool, namesTerm, fieldsTerm, whereTerm string,
	addCase func(string, c05Replay, bool)) {
	e := cr.e
	defer func() {
		if r := recover(); r != nil {
			rr := rp
			rr.What = fmt.Sprint("panic while driving the scan node: ", r)
			fail("a scan plan's Batch panics with the field cache on", "C05/cache-visible", rr)
		}
	}()
	kvql.PlanBatchSize, kvql.EnableFieldCache = B, true
	refd := c05Refd(wexpr)
	defs := map[string]kvql.Expression{}
	for i, n := range proj.FieldNames {
		if _, have := defs[n]; !have && i < len(proj.Fields) {
			defs[n] = proj.Fields[i]
		}
	}
	// the units the scan reads per refill: pairs for cursor scans, listed keys for point reads
	type unit struct {
		kv      [2]string
		present bool
	}
	var units []unit
	if mg, ok := proj.ChildPlan.(*kvql.MultiGetPlan); ok {
		have := map[string]string{}
		for _, kv := range st {
			have[kv[0]] = kv[1]
		}
		for _, k := range mg.Keys {
			v, ok := have[k]
			units = append(units, unit{[2]string{k, v}, ok})
		}
	} else {
		for _, kv := range st {
			units = append(units, unit{kv, true})
		}
	}
	pos := 0
	ctx := kvql.NewExecuteCtx()
	for call := 0; call < 200; call++ {
		ctx.Clear()
		rows, err := proj.ChildPlan.Batch(ctx)
		if err != nil || len(rows) == 0 {
			return
		}
		// refills of this call: B units at a time from pos
		var chunks [][][2]string
		read := pos
		lastKey := string(rows[len(rows)-1].Key)
		done := false
		for read < len(units) && !done {
			end := read + B
			if end > len(units) {
				end = len(units)
			}
			var ch [][2]string
			for _, u := range units[read:end] {
				if u.present {
					ch = append(ch, u.kv)
					if u.kv[0] == lastKey {
						done = true
					}
				}
			}
			if len(ch) > 0 {
				chunks = append(chunks, ch)
			}
			read = end
		}
		pos = read
		// the model sees all remaining refills too (it must stop by itself): append them
		var rest [][][2]string
		for r2 := read; r2 < len(units); {
			end := r2 + B
			if end > len(units) {
				end = len(units)
			}
			var ch [][2]string
			for _, u := range units[r2:end] {
				if u.present {
					ch = append(ch, u.kv)
				}
			}
			if len(ch) > 0 {
				rest = append(rest, ch)
			}
			r2 = end
		}
		// V5: every cached column is the alias on the returned rows
		names := make([]string, 0, len(ctx.FieldChunkCaches))
		for n := range ctx.FieldChunkCaches {
			names = append(names, n)
		}
		sort.Strings(names)
		cols := []string{}
		for _, n := range names {
			col := ctx.FieldChunkCaches[n]
			d := defs[n]
			bad := len(col) != len(rows)
			for i := 0; !bad && i < len(rows); i++ {
				if d == nil {
					bad = true
					break
				}
				want, err := d.Execute(rows[i], nil)
				if err != nil || canonCol(want) != canonCol(col[i]) {
					bad = true
				}
			}
			if bad {
				rr := rp
				rr.Mode, rr.Cache = c05Mode(true, B), "on"
				got := make([]string, len(col))
				for i, x := range col {
					got[i] = canonCol(x)
				}
				ks := make([]string, len(rows))
				for i, kv := range rows {
					ks[i] = string(kv.Key)
				}
				rr.Got = fmt.Sprintf("cached column of %s after Batch call %d: %v", n, call, got)
				rr.Want = fmt.Sprintf("the value of %s on the returned rows %v", n, ks)
				fail("after a scan's Batch the cached column of an alias is not the alias evaluated on the returned rows", "C05/chunk-cache", rr)
				return
			}
			cc := make([]string, len(col))
			for i, x := range col {
				cc[i] = coqCanon(x)
			}
			cols = append(cols, "("+coqStr(n)+", "+coqList(cc)+")")
		}
		e.count("chunk_calls")
		if len(rows) < len(concat2(chunks)) {
			e.count("chunk_calls_with_rejected_rows")
		}
		if coq {
			all := append(append([][][2]string{}, chunks...), rest...)
			chs := make([]string, len(all))
			for i, ch := range all {
				chs[i] = coqPairs(ch)
			}
			ks := make([]string, len(rows))
			for i, kv := range rows {
				ks[i] = string(kv.Key)
			}
			term := fmt.Sprintf("CChunk %s %s %s true %d %s %s %s %s", namesTerm, fieldsTerm, whereTerm, B,
				coqStrList(refd), coqList(chs), coqStrList(ks), coqList(cols))
			rr := rp
			rr.Mode, rr.Cache = c05Mode(true, B), "on"
			rr.What = fmt.Sprintf("scan node, Batch call %d; refills from unit %d", call, pos)
			addCase(term, rr, len(rows) < len(concat2(chunks)) && len(refd) > 0)
			e.count("coq_chunk_cases")
		}
	}
}

func concat2(xss [][][2]string) [][2]string {
	var out [][2]string
	for _, xs := range xss {
		out = append(out, xs...)
	}
	return out
}

// ---------------------------------------------------------------- names defined in terms of themselves (D19)

var c05Cyclic = []string{
	"select upper(u) as u where key ^= 'k'",
	"select u + 'x' as u where key ^= 'k'",
	"select upper(b) as a, lower(a) as b where key ^= 'k'",
	"select int(value) as n, n + m as m where n > 1",
	"select key, join(',', x, key) as x where x != ''",
	"select split(l[0], ',') as l where key ^= 'k'",
	"select upper(c) as a, upper(a) as b, upper(b) as c where a != ''",
}

// runC05Child runs one statement (text in C05_QUERY) in every mode; a statement whose field
// refers to itself would recurse until the Go runtime kills the process, so the parent
// runs it here, in a process of its own.
func runC05Child(c *runCtx) error {
	q := os.Getenv("C05_QUERY")
	st := [][2]string{{"k00", "1"}, {"k01", "a,b"}, {"k02", "5"}}
	out := ""
	for _, batch := range []bool{false, true} {
		for _, cache := range []bool{true, false} {
			r := runQuery(q, newStore(st), batch, 2, cache)
			o := c05Outcome(r)
			if out == "" {
				out = o
			} else if o != out {
				fmt.Println("DIFFERS")
				return nil
			}
		}
	}
	if strings.HasPrefix(out, "REJECTED") {
		fmt.Println("REJECTED")
	} else {
		fmt.Println("SAME")
	}
	return nil
}

func (cr *c05Run) cyclicCases(c *runCtx) {
	e := cr.e
	exe, err := os.Executable()
	if err != nil {
		e.m.Notes = append(e.m.Notes, "self-reference statements not run: "+err.Error())
		return
	}
	for _, q := range c05Cyclic {
		ctx, cancel := context.WithTimeout(context.Background(), 20*time.Second)
		cmd := exec.CommandContext(ctx, exe, "C05-child", "--out", c.out)
		cmd.Env = append(os.Environ(), "C05_QUERY="+q)
		outb, err := cmd.Output()
		cancel()
		res := strings.TrimSpace(string(outb))
		rp := c05Replay{Tag: "self-reference", Query: q, Got: res}
		bad := err != nil || (res != "REJECTED" && res != "SAME")
		if bad {
			rp.Got = fmt.Sprintf("%s (child process: %v)", res, err)
			rp.Want = "the statement is rejected (a field defined in terms of itself has no value), or runs to the same result in every mode"
		}
		idx := e.add(c05vOld(c05Trivial), rp, false)
		e.count("self_reference:" + strings.ToLower(strings.Fields(res + " crashed")[0]))
		if bad {
			e.fail(idx, "a statement whose field is defined in terms of itself does not terminate / crashes / depends on the cache", "C05/self-reference", rp)
		}
	}
}

func runC05(c *runCtx) error {
	// (the shared generator's streams for seeds s and s+1 are the same stream shifted by one draw:
	// spread the seeds far apart)
	r := newRng(c.seed*1000003 + 0xC05)
	header := "From Coq Require Import List String ZArith.\nFrom KV Require Import Base.Bytes Model.Ast Model.Value Model.SelectPlans Corr.EvalCommon Corr.C03Stmt Corr.C05.\nFrom KV Require Model.Order Spec.Group.\nFrom KV Require Corr.C05Text.\nImport C05.Vec.\nImport C05.Stmt.\nImport C05.Text.\nImport ListNotations.\nOpen Scope string_scope.\n"
	e := newEmitter(c.out, "C05", header, 150)
	e.m.Rule = "24 fixed statement shapes (aliases used in WHERE, in join/ilist/list arguments, under !, as IN-list items and BETWEEN bounds, under [i], alias of alias, use before definition, a name defined twice, ORDER BY, LIMIT, GROUP BY with aggregates of aliases, and their combinations: every plan shape of buildFinalPlan) x batch size B in {1,2,3,32} x stores whose first k scanned pairs fail the filter for every k in 0..B+1 (B=32, quick tier: k in {0,1,2,31,32,33}) followed by an accepted, a rejected, an accepted and 0-2 mixed pairs x access paths {full, prefix, range, point reads}; plus seeded random statements with 1-3 aliased fields over typed definitions; every combination is run row-at-a-time and in batches, cache on and off, with the names and with the definitions written out; non-trivial = some pair rejected and some returned, with an alias used in WHERE; distinct = distinct (statement, store) terms; every ORDER BY / LIMIT / GROUP BY combination additionally as a CStmt case (Model/CachePlans.v: the composed twins with the cache switch against the four drains row/batch x cache on/off); 4 statements whose aggregate select field also uses a field name, B in {1,2,32} (direct verdict only)"
	cr := &c05Run{e: e}
	cr.cyclicCases(c)
	cr.vecCollisionCases()
	cr.c5lMixedAggregateCases()
	Bs := []int{1, 2, 3, 32}
	ks := func(B int) []int {
		if B == 32 && !c.thorough() {
			return []int{0, 1, 2, 31, 32, 33}
		}
		out := []int{}
		for k := 0; k <= B+1; k++ {
			out = append(out, k)
		}
		return out
	}
	mkRef := func(qy *c05Query) *c05Ref {
		stmt, err := kvql.NewParser(qy.text(false, "")).Parse()
		if err != nil {
			return nil
		}
		ss, ok := stmt.(*kvql.SelectStmt)
		if !ok {
			return nil
		}
		return &c05Ref{sel: ss}
	}
	rounds := 1
	if c.thorough() {
		rounds = 3
	}
	for round := 0; round < rounds; round++ {
		for _, qy := range c05Templates() {
			rf := mkRef(qy)
			if rf == nil {
				e.count("template_rejected:" + qy.tag)
				continue
			}
			if qy.tag == "prefix-names" && round == 0 {
				// alias names in a prefix relation over keys chosen so that name ++ key of
				// two different (alias, chunk) pairs is the same text: v ++ 2b = v2 ++ b
				st := [][2]string{{"2b", "1"}, {"2c", "5"}, {"b", "3"}, {"c", "4"}}
				for _, B := range Bs {
					cr.combo(qy, st, "full", B, 0, true)
				}
			}
			for _, B := range Bs {
				for _, k := range ks(B) {
					st, ok := c05BuildStore(r, rf, k, 3+r.intn(3))
					if !ok {
						e.count("no_store")
						continue
					}
					for _, path := range c05Paths {
						if B == 32 && !c.thorough() && path != "full" && path != "mget" && k != 33 {
							continue
						}
						cr.combo(qy, st, path, B, k, (B <= 3 || k >= 31) && round == 0)
					}
				}
			}
		}
	}
	n := 160
	if c.thorough() {
		n = 16000
	}
	if c.search {
		n = 4000
	}
	g := &c05Gen{r: r}
	for i := 0; i < n; i++ {
		qy := g.query()
		if i%8 == 7 {
			qy = g.groupQuery()
		}
		rf := mkRef(qy)
		if rf == nil {
			e.count("rejected")
			continue
		}
		for j := 0; j < 2; j++ {
			B := pick(r, []int{1, 2, 2, 3, 3, 32})
			k := r.intn(B + 2)
			if B == 32 {
				k = pick(r, []int{0, 1, 31, 32, 33})
			}
			st, ok := c05BuildStore(r, rf, k, 3+r.intn(3))
			if !ok {
				e.count("no_store")
				continue
			}
			cr.combo(qy, st, pick(r, c05Paths), B, k, (B <= 3 || i%4 == 0) && (n <= 200 || i%3 == 0))
		}
	}
	return e.flush()
}

// ---------------------------------------------------------------- batch part: the chunk caches (Corr/C05.v, Module Vec)

// c05vOld wraps a case of the row / bookkeeping kinds into the extended case type.
func c05vOld(term string) string { return "COld (" + term + ")" }

func c05vErrTerm(ctor string, err error) string {
	o := coqObs(nil, err, "")
	return "(" + ctor + strings.TrimSuffix(strings.TrimPrefix(o, "(OErr"), ")") + ")"
}

// c05vUnits: what the scan node reads, in order: pairs for cursor scans, listed keys (present or
// not) for point reads.
type c05vUnit struct {
	kv      [2]string
	present bool
}

func c05vUnits(proj *kvql.ProjectionPlan, st [][2]string) []c05vUnit {
	var units []c05vUnit
	if mg, ok := proj.ChildPlan.(*kvql.MultiGetPlan); ok {
		have := map[string]string{}
		for _, kv := range st {
			have[kv[0]] = kv[1]
		}
		for _, k := range mg.Keys {
			v, ok := have[k]
			units = append(units, c05vUnit{[2]string{k, v}, ok})
		}
		return units
	}
	for _, kv := range st {
		units = append(units, c05vUnit{kv, true})
	}
	return units
}

func c05vSlots(units []c05vUnit) string {
	p := make([]string, len(units))
	for i, u := range units {
		if u.present {
			p[i] = "Some (" + coqStr(u.kv[0]) + ", " + coqStr(u.kv[1]) + ")"
		} else {
			p[i] = "None"
		}
	}
	return coqList(p)
}

// c05vRefills cuts the units into the refills of a scan's Batch: sizes[i % len(sizes)] units per
// refill, the missing ones dropped, empty refills skipped.
func c05vRefills(units []c05vUnit, sizes []int) [][][2]string {
	var out [][][2]string
	for pos, i := 0, 0; pos < len(units); i++ {
		n := sizes[i%len(sizes)]
		if n < 1 {
			n = 1
		}
		end := pos + n
		if end > len(units) {
			end = len(units)
		}
		var ch [][2]string
		for _, u := range units[pos:end] {
			if u.present {
				ch = append(ch, u.kv)
			}
		}
		if len(ch) > 0 {
			out = append(out, ch)
		}
		pos = end
	}
	return out
}

// c05vExecSeq: ExecuteBatch of e on the chunks, one after the other, on ONE context.
func c05vExecSeq(e kvql.Expression, chunks [][][2]string, cache bool) (terms []string, text string) {
	kvql.EnableFieldCache = cache
	ctx := kvql.NewExecuteCtx()
	var sb strings.Builder
	for _, ch := range chunks {
		chunk := make([]kvql.KVPair, len(ch))
		for i, kv := range ch {
			chunk[i] = kvql.NewKVPStr(kv[0], kv[1])
		}
		vals, err, pn := func() (vals []any, err error, pn string) {
			defer func() {
				if r := recover(); r != nil {
					pn = fmt.Sprint(r)
				}
			}()
			vals, err = e.ExecuteBatch(chunk, ctx)
			return
		}()
		switch {
		case pn != "":
			terms = append(terms, "VPanic")
			sb.WriteString("PANIC " + pn + "\n")
			return terms, sb.String()
		case err != nil:
			terms = append(terms, c05vErrTerm("VErr", err))
			sb.WriteString("ERROR " + errClass(err) + "\n")
			return terms, sb.String()
		}
		p := make([]string, len(vals))
		for i, v := range vals {
			p[i] = coqCanon(v)
			sb.WriteString(canonCol(v) + "\x1f")
		}
		sb.WriteString("\n")
		terms = append(terms, "(VCol "+coqList(p)+")")
	}
	return terms, sb.String()
}

// c05vDrain: a fresh plan for q, its ProjectionPlan's Batch until no rows, on one context.
func c05vDrain(q string, st [][2]string, B int, cache bool) (term string, text string, ok bool) {
	kvql.PlanBatchSize, kvql.EnableFieldCache = B, cache
	plan, err := kvql.NewOptimizer(q).BuildPlan(newStore(st))
	if err != nil {
		return "", "", false
	}
	proj, isProj := plan.(*kvql.ProjectionPlan)
	if !isProj {
		return "", "", false
	}
	ctx := kvql.NewExecuteCtx()
	var batches []string
	var sb strings.Builder
	for call := 0; call < 10000; call++ {
		rows, err, pn := func() (rows [][]kvql.Column, err error, pn string) {
			defer func() {
				if r := recover(); r != nil {
					pn = fmt.Sprint(r)
				}
			}()
			rows, err = proj.Batch(ctx)
			return
		}()
		if pn != "" {
			return "DPanic", "PANIC " + pn, true
		}
		if err != nil {
			return c05vErrTerm("DErr", err), "ERROR " + errClass(err), true
		}
		if len(rows) == 0 {
			return "(DBatches " + coqList(batches) + ")", sb.String(), true
		}
		batches = append(batches, c05CoqRows(rows))
		sb.WriteString(strings.Join(canonRows(rows), "\n") + "\n--\n")
	}
	return "DPanic", "TIMEOUT", true
}

// vecCases emits, for one statement on one store at batch size B, ONE case (CVec): the WHERE
// clause's ExecuteBatch over the scan's refills on one shared context (and, for some, over
// refills of irregular sizes), and the ProjectionPlan.Batch drain, each with the cache on and off.
// verdict: with names free of '-' a difference between on and off is reported as a violation.
func (cr *c05Run) vecCases(qa string, proj *kvql.ProjectionPlan, wexpr kvql.Expression, st [][2]string, B int,
	rp c05Replay, namesTerm, fieldsTerm, whereTerm string, verdict bool,
	addCase func(string, c05Replay, bool, string)) {
	e := cr.e
	units := c05vUnits(proj, st)
	seqs := [][]int{{B}}
	if B <= 3 && len(units) > 3 && (len(units)+B)%3 == 0 {
		seqs = append(seqs, []int{1, 3, 2})
	}
	r := rp
	r.Mode, r.Cache = c05Mode(true, B)+": ExecuteBatch of the WHERE clause on successive chunks sharing one context; ProjectionPlan.Batch until empty", "on / off"
	what := ""
	var seqTerms []string
	multi := false
	for _, sizes := range seqs {
		chunks := c05vRefills(units, sizes)
		if len(chunks) == 0 {
			continue
		}
		on, onText := c05vExecSeq(wexpr, chunks, true)
		off, offText := c05vExecSeq(wexpr, chunks, false)
		chs := make([]string, len(chunks))
		for i, ch := range chunks {
			chs[i] = coqPairs(ch)
		}
		seqTerms = append(seqTerms, fmt.Sprintf("(%s, %s, %s)", coqList(chs), coqList(on), coqList(off)))
		if onText != offText {
			e.count("vec_seq_on_differs_from_off")
			if r.Got == "" {
				r.Got, r.Want = c05Short(onText), c05Short(offText)
				r.What = fmt.Sprintf("chunk sizes %v: got = columns per chunk with the cache on, want = with the cache off", sizes)
			}
			if verdict {
				what = "ExecuteBatch on chunks sharing one context returns other columns with the field cache on than with it off"
			}
		}
		e.count("vec_seq")
		e.count(fmt.Sprintf("vec_seq_chunks=%d", c05vMin(len(chunks), 6)))
		multi = multi || len(chunks) > 1
	}
	onT, onText, ok1 := c05vDrain(qa, st, B, true)
	offT, offText, ok2 := c05vDrain(qa, st, B, false)
	if !ok1 || !ok2 {
		return
	}
	if onText != offText {
		e.count("vec_drain_on_differs_from_off")
		if r.Got == "" {
			r.Got, r.Want = c05Short(onText), c05Short(offText)
			r.What = "got = batches with the cache on, want = with the cache off"
		}
		if verdict && what == "" {
			what = "switching the field cache changes the batches ProjectionPlan.Batch returns"
		}
	}
	e.count("vec_cases")
	if strings.Count(onText, "--") > 1 {
		e.count("vec_drain_several_batches")
	}
	term := fmt.Sprintf("CVec %s %s %s %d %s %s %s %s", namesTerm, fieldsTerm, whereTerm, B, c05vSlots(units),
		coqList(seqTerms), onT, offT)
	addCase(term, r, multi && strings.Count(onText, "--") > 0, what)
}

func c05vMin(a, b int) int {
	if a < b {
		return a
	}
	return b
}

// vecCollisionCases: field names containing '-'.  The pinned plan.go keyed the per-chunk entries
// by the text name-key, so (a, "b-c") and (a-b, "c") were one entry (wrong rows / index out of
// range with the cache on; Properties/C05.v cache_invisible_batch_text_key_refuted is the witness
// for that keying).  Since the fix the key is injective (Corr/C05.v c05v_keyfix = true) and these
// statements get the verdict of cache_invisible_batch like all others.
func (cr *c05Run) vecCollisionCases() {
	e := cr.e
	type cc struct {
		q  string
		st [][2]string
	}
	cases := []cc{
		{"select key, value as a, upper(key) as `a-b` where a = '9' | `a-b` = 'C'", [][2]string{{"b-c", "1"}, {"c", "2"}, {"d", "3"}}},
		{"select key, int(value) as n, strlen(key) as `n-k` where n > 100 | `n-k` = 1", [][2]string{{"k-x", "5"}, {"x", "7"}, {"y", "8"}}},
		{"select strlen(key) as `n-k`, int(value) as n, key where `n-k` = 1 | n > 100", [][2]string{{"k-x", "5"}, {"x", "7"}, {"y", "8"}}},
		{"select key, upper(value) as `u-1`, lower(value) as u where u = 'zz' | `u-1` ^= 'B'", [][2]string{{"1-k", "a"}, {"k", "b"}, {"l", "B"}}},
		{"select key, value as `a-`, upper(value) as `a` where `a-` = 'w' | a = 'V'", [][2]string{{"-k", "v"}, {"k", "w"}}},
		// a '-' in a name without two entries sharing a text
		{"select key, int(value) as `n-1` where `n-1` > 2", [][2]string{{"k1", "1"}, {"k2", "5"}, {"k3", "2"}, {"k4", "7"}}},
	}
	for _, c := range cases {
		for _, B := range []int{1, 2, 3} {
			kvql.PlanBatchSize, kvql.EnableFieldCache = B, true
			plan, err := kvql.NewOptimizer(c.q).BuildPlan(newStore(c.st))
			if err != nil {
				e.count("vec_collision_rejected")
				continue
			}
			proj, _ := plan.(*kvql.ProjectionPlan)
			if proj == nil {
				continue
			}
			wexpr, _ := c05ScanFilter(proj.ChildPlan)
			if wexpr == nil || proj.AllFields {
				continue
			}
			fieldsTerm, ok1 := c05CoqExprs(proj.Fields)
			whereTerm, ok2 := coqExpr(wexpr)
			if !ok1 || !ok2 {
				e.m.OutOfModel++
				continue
			}
			rp := c05Replay{Tag: "dash-in-field-name", Query: c.q, Store: c.st, Path: "full", B: B}
			before := e.m.Dist["vec_seq_on_differs_from_off"] + e.m.Dist["vec_drain_on_differs_from_off"]
			e.count("vec_dash_name_statements")
			cr.vecCases(c.q, proj, wexpr, c.st, B, rp, coqStrList(proj.FieldNames), fieldsTerm, whereTerm, false,
				func(t string, r c05Replay, nt bool, _ string) { e.add(t, r, nt) })
			if e.m.Dist["vec_seq_on_differs_from_off"]+e.m.Dist["vec_drain_on_differs_from_off"] > before {
				e.count("vec_dash_name_cache_visible")
			}
		}
	}
}
