package main

// C05, the TEXT stream (Coq side: coq/Corr/C05Text.v, theorems: Properties/C05.v
// alias_text_is_expansion_partial, row_shape_text_partial, text_is_run_select).
//
// For a combination of harness/c05.go (statement template, store, access path, batch size) the
// aliased text qa and the text qe with every name written out as its definition are both run
// through kvql.NewOptimizer(text).BuildPlan + drain (row and batch mode, field cache off: combo's
// runs).  The case carries both texts, the store, the batch size and the four outcomes; coqc runs
// the text twin Model/PipelineS.select_stmt_text_st on both texts and the syntactic expansion
// Model/AliasText.expand_stmt of the statement parsed from qa through the same twin.

import (
	"strconv"
	"strings"
)

func c05tVal(c any) string {
	switch c.(type) {
	case []byte, string, bool, int64, int, int32, float64:
		return c03w2Val(c)
	}
	return "C05Text.TVL " + coqCanon(c)
}

func c05tObs(res runResult) string {
	if res.Panic != "" {
		return "QPanic"
	}
	if res.Err != nil {
		o := coqObs(nil, res.Err, "")
		return "(QErr" + strings.TrimPrefix(strings.TrimSuffix(o, ")"), "(OErr") + ")"
	}
	p := make([]string, len(res.Rows))
	for i, row := range res.Rows {
		c := make([]string, len(row))
		for j, col := range row {
			c[j] = "(" + c05tVal(col) + ")"
		}
		p[i] = coqList(c)
	}
	return "(QRows " + coqList(p) + ")"
}

type c05tReplay struct {
	Kind     string      `json:"kind"`
	Tag      string      `json:"shape,omitempty"`
	Query    string      `json:"query"`
	Expanded string      `json:"expanded"`
	Store    [][2]string `json:"store"`
	Path     string      `json:"access_path,omitempty"`
	B        int         `json:"batch_size"`
	K        int         `json:"rejected_prefix"`
	ARow     string      `json:"aliased_row,omitempty"`
	ABat     string      `json:"aliased_batch,omitempty"`
	ERow     string      `json:"expanded_row,omitempty"`
	EBat     string      `json:"expanded_batch,omitempty"`
	What     string      `json:"what,omitempty"`
}

// c05TextCase emits the CTxt case of one combination (both texts accepted by BuildPlan).
func (cr *c05Run) c05TextCase(qy *c05Query, qa, qe string, st [][2]string, path string, B, k int,
	aRow, aBat, eRow, eBat runResult) {
	e := cr.e
	if aRow.BuildErr || eRow.BuildErr || aBat.BuildErr || eBat.BuildErr {
		e.count("c5t:excluded:rejected")
		return
	}
	ordered := strings.Contains(qy.suffix, "order by")
	term := "CTxt (C05Text.TCase " + coqStr(qa) + " " + coqStr(qe) + " " + coqPairs(st) + " " +
		strconv.Itoa(B) + " " + coqBool(ordered) + " " + c05tObs(aRow) + " " + c05tObs(aBat) + " " + c05tObs(eRow) + " " + c05tObs(eBat) + ")"
	rp := c05tReplay{Kind: "text (aliased text, expanded text, expand_stmt through the text twin)", Tag: qy.tag, Query: qa, Expanded: qe,
		Store: st, Path: path, B: B, K: k,
		ARow: c05Short(c05Outcome(aRow)), ABat: c05Short(c05Outcome(aBat)), ERow: c05Short(c05Outcome(eRow)), EBat: c05Short(c05Outcome(eBat)),
		What: "code 1: the text twin (Model/PipelineS.v) and the implementation differ on one of the two texts; code 6: the implementation returns other rows for the text with the names than for the text with the definitions written out; code 7: Model/AliasText.expand_stmt of the parsed statement, run through the twin, differs from the text with the names"}
	nontrivial := len(aRow.Rows) > 0 && strings.Contains(qy.where+qy.suffix+strings.Join(qy.extra, " "), "{")
	e.add(term, rp, nontrivial)
	e.count("c5t:twin")
	e.count("c5t:kind=" + qy.kind)
	if aRow.Err != nil || aBat.Err != nil {
		e.count("c5t:exec_error")
	}
}
