package main

// C06: no query text and no data can crash the library.
// Exploration: grammar-valid statements, single-edit corruptions (token / byte level), byte
// mutations, deep nesting x hostile stores x {row, batch} x batch sizes.  Every case runs in
// a child process (chunks of a few hundred) so that a fatal runtime error (stack overflow,
// which recover() cannot catch) is attributed to the case that caused it.  Any PANIC, FATAL
// or TIMEOUT outcome is a failing input by itself.  The Coq side compares the evaluator twin
// (proved panic-free: Properties/C06.v) with Expression.Execute on the select fields of the
// valid statements, including the "panicked" observation.

import (
	"bufio"
	"encoding/json"
	"fmt"
	"os"
	"os/exec"
	"strings"
	"time"

	kvql "github.com/c4pt0r/kvql"
)

func init() { registry["C06"] = runC06; registry["C06child"] = runC06Child }

type c06Job struct {
	ID    int    `json:"id"`
	Query string `json:"q"`
	Store int    `json:"s"`
	Batch bool   `json:"b"`
	B     int    `json:"n"`
	Pad   int    `json:"p"`
}

type c06Out struct {
	ID    int    `json:"id"`
	Class string `json:"c"` // rows | error | PANIC | TIMEOUT
	Info  string `json:"i,omitempty"`
}

var c06Stores = [][][2]string{
	{},
	{{"a", "abc"}, {"ab", ""}, {"b", "x,y"}, {"k", "--"}, {"", "z"}},
	{{"a", "12"}, {"ab", "-3"}, {"b", "2.5"}, {"c", "9223372036854775807"}, {"d", "-9223372036854775808"}, {"e", "1e308"}, {"f", "99999999999999999999"}, {"g", "NaN"}, {"h", "Inf"}},
	{{"j1", `{"a": 1, "b": "x", "l": [1, 2, "s"], "o": {"p": null}}`}, {"j2", `[1,2]`}, {"j3", `{"a": "str", "l": {}}`}, {"j4", `{`}, {"j5", `null`}, {"j6", `{"a": 1.5e300}`}},
	{{"\xff\xfe", "\x00\x80"}, {"a\x00b", "\xc3\x28"}, {"\xe2\x82", "ok"}, {"z", "\xf0\x9f\x98\x80"}},
	w5C06LongStore(),
}

// w5C06LongStore: 44 pairs k00..k43 whose values cycle through eleven kinds (integer, text,
// float, comma list, empty, negative, huge float, boolean text, JSON with a numeric and with a
// textual member, non-UTF-8): every chunk of every batch size holds columns of mixed dynamic
// type, ORDER BY sees mixed kinds in one column, aggregates see text they cannot convert.
func w5C06LongStore() [][2]string {
	vals := []string{"12", "abc", "2.5", "x,y,z", "", "-3", "1e308", "true", `{"a": 1, "l": [1, 2]}`, `{"a": "s"}`, "\xff\x00"}
	var out [][2]string
	for i := 0; i < 44; i++ {
		out = append(out, [2]string{fmt.Sprintf("k%02d", i), vals[i%len(vals)]})
	}
	return out
}

// w5C06Shapes: statement shapes that exercise what Proofs/NoPanicVecProofs.v,
// NoPanicPlanProofs.v, NoPanicOrderProofs.v and NoPanicAggrProofs.v prove about the twins:
// long chunks with mixed-type columns, aliases in batch mode over point reads, ORDER BY over
// mixed kinds, aggregates over unconvertible text.  They are part of the corpus (so they are
// also mutated) and additionally run on the long store in row mode and in batch mode with
// every batch size (w5C06Jobs).
var w5C06Shapes = []string{
	// long chunks, mixed-type columns: every vector body and every binary operator loop
	"select key, int(value) + 1, float(value) * 2, upper(value), is_int(value), is_float(value), split(value, ',')[1] where key >= ''",
	"select key, value where int(value) > 1 | value ^= 'a' | strlen(value) between 1 and 3",
	"select key where value in ('12', 'abc', '2.5') & key between 'k00' and 'k99'",
	"select key, substr(value, 1, 3), len(split(value, ',')), join('-', key, value), lower(key + value) where key ^= 'k'",
	"select key, cosine_distance(list(1, 2, 3), list(int(value), 2, 3)), l2_distance(list(float(value), 1), list(1, 2)) where key ^= 'k'",
	"select key, cosine_distance(split(value, ','), list(1, 2, 3)) where key ^= 'k'",
	"select key, int(value) / (strlen(value) + 1), value + '1', !is_int(value), value = '12', key = value where key > 'k1'",
	"select key, int(value) / strlen(value), float(value) / int(value) where key > 'k1'",
	"select key, json(value)['a'], json(value)['l'][1] where key >= 'k0' & value ~= '^[{]'",
	"select key, json(value)['l']['x'], json(value)['a'][0] where key >= 'k0' & value ~= '^[{]'",
	"select key, value, int(value) as n where key < 'k20' & value != '' limit 3, 50",
	"select key, strlen(value) where key > 'k10' & key <= 'k30' & !(value ^= '{')",
	// aliases in batch mode over point reads (MultiGet chunks shorter than the key list)
	"select key, upper(value) as u, u + 'x' as w, strlen(w) where key in ('k01', 'k02', 'k03', 'k04', 'k05', 'k06', 'k07') & u != 'ABC'",
	"select key, int(value) as n, n * 2 as m, m + n where key = 'k03' | key = 'k05' | key = 'k08'",
	"select key, list(n, n + 1) as l, int(value) as n where key in ('k00', 'k08', 'k16', 'zz') & n in l",
	"select key, split(value, ',') as parts, parts[0] where key in ('k03', 'k11', 'k14', 'k25', 'k36', 'nokey') & 'x' in parts",
	"select key, u, upper(value) as u, join(',', u, u) where key in ('k40', 'k41', 'k42', 'k43', 'k44') limit 1, 3",
	// a select-field name on the RIGHT of & / | in WHERE (its column is computed for the rows the left
	// operand leaves, the projection reads it for the rows that pass), also behind a name and nested
	"select key, int(value) as v where value != '12' & v >= 0",
	"select key, int(value) as v, upper(value) as u where (value ^= 'a' | v > 1) & (key > 'k05' | u != 'ABC')",
	"select key, strlen(value) as n, n + 1 as m where key < 'k40' & (value = '' | m > 2) & n >= 0 limit 2, 40",
	"select key, upper(value) as u where !(value ^= '1') & u != '' & key in ('k01', 'k02', 'k03', 'k10', 'k11', 'k12', 'k20')",
	// ORDER BY over mixed kinds (text / numbers / booleans / JSON members in one column)
	"select key, value as v where key >= '' order by v",
	"select key, int(value) + 0 as n, float(value) as f where key > '' order by f, n desc",
	"select key, is_int(value) as b, value as v where key > '' order by b desc, v",
	"select key, json(value)['a'] as a, int(value) as n where key >= '' order by a, n desc limit 3, 30",
	"select value as v, sum(int(value)) as s, avg(float(value)) as a where key > '' group by v order by a desc, s",
	"select key, split(value, ',') as l where key > '' order by l",
	"select value as v, sum(value) as s, min(value) as m, count(1) as c where key > '' group by v order by s desc, m, c",
	"select key, int(value) + 0 as n, value + '' as t where key > '' order by n desc, t, key limit 30, 10",
	// aggregates over unconvertible text
	"select sum(value), avg(value), min(value), max(value), count(1), group_concat(value, '|'), json_arrayagg(value) where key > ''",
	"select value, sum(value), min(key), max(upper(value)) where key > '' group by value",
	"select sum(float(value)) / count(1), max(int(value)) - min(int(value)), avg(strlen(value)) * 2 where key >= ''",
	"select is_int(value) as g, sum(key), avg(upper(value)), min(split(value, ',')[0]), quantile(value, 0.5) where key >= '' group by g",
	"select substr(key, 0, 2) as g, json_arrayagg(float(value)), group_concat(json(value)['a'], ';'), sum(1) / count(value) where key >= '' group by g limit 0, 2",
	// the same over DELETE (batch scan + filter, no projection)
	"delete where upper(value) = 'ABC' | int(value) > 5 limit 7",
	"delete where key <= 'k05' & strlen(value) >= 0",
}

// c06BigShapes: statements of up to a few kilobytes built by REPETITION -- what must neither
// panic (stack, index) nor take exponential time: alias chains in which every field mentions the
// previous one twice, deep parentheses and call nesting, long AND/OR chains, long IN lists, many
// fields, long literals; and ORDER BY over every kind of GROUP BY key
func c06BigShapes() []string {
	var out []string
	for _, n := range []int{12, 24, 40, 60} {
		fs := []string{"key as a0"}
		for i := 1; i <= n; i++ {
			fs = append(fs, fmt.Sprintf("a%d = a%d as a%d", i-1, i-1, i))
		}
		out = append(out, "select "+strings.Join(fs, ", ")+" where key ^= 'k'")
		gs := []string{"value as b0"}
		for i := 1; i <= n; i++ {
			gs = append(gs, fmt.Sprintf("substr(b%d + b%d, 1, 3) as b%d", i-1, i-1, i)) // (no growth: b + b alone doubles the text)
		}
		out = append(out, "select "+strings.Join(gs, ", ")+" where key = 'k03' & strlen(b1) > 0")
	}
	for _, d := range []int{50, 300} {
		out = append(out, "select key where "+strings.Repeat("(", d)+"key = 'k01'"+strings.Repeat(")", d))
		out = append(out, "select "+strings.Repeat("upper(", d)+"value"+strings.Repeat(")", d)+" where key = 'k01'")
		out = append(out, "select key where "+strings.Repeat("!", d)+"(key = 'k01')")
		at := make([]string, d)
		for i := range at {
			at[i] = fmt.Sprintf("key != 'q%d'", i)
		}
		out = append(out, "select key where "+strings.Join(at, " & "))
		out = append(out, "select key where "+strings.Join(at, " | ")+" limit 2")
		in := make([]string, d)
		for i := range in {
			in[i] = fmt.Sprintf("'k%02d'", i)
		}
		out = append(out, "select key where key in ("+strings.Join(in, ", ")+") & value != ''")
		out = append(out, "select key, value + '"+strings.Repeat("xy", d*4)+"' where key = 'k02'")
		out = append(out, "select key where int(value) + "+strings.Repeat("1 + ", d)+"1 > 0")
	}
	// one name defined twice (or more), the later definition using the name itself; names used
	// before their definition; a name that is also a keyword / function name: whatever the
	// resolution rule, no stack overflow, no endless loop
	out = append(out,
		"select key as a, a + 'x' as a where key ^= 'k'",
		"select value as v, upper(v) as v, v + v as v where key ^= 'k0'",
		"select key as a, a as a, a as a where a ^= 'k'",
		"select a + 'x' as a, key as a where key ^= 'k'",
		"select key as a, a + 'x' as b, b + a as a, a + b as b where b ^= 'k' & a != ''",
		"select int(value) as n, n + 1 as n, n * 2 as n where n > 0 order by n",
		"select key as a, count(1) as a where key ^= 'k' group by a",
		"select key as a, a + 'x' as a, count(1) as c where key ^= 'k' group by a order by a",
		"select value as `upper`, upper(`upper`) as `upper` where `upper` != ''",
		"select key as `key`, `key` + 'x' as `key` where `key` ^= 'k'",
	)
	// ORDER BY over every kind of GROUP BY key (the aggregate node renders its group keys)
	for _, g := range []string{"is_int(value)", "key ^= 'k0'", "int(value)", "float(value)", "upper(value)", "strlen(value)", "split(value, ',')[0]", "value = '12'"} {
		out = append(out, "select "+g+" as g, count(1) as c where key >= '' group by g order by g")
		out = append(out, "select "+g+" as g, count(1) as c, min(key) as m where key >= '' group by g order by g desc, c, m")
	}
	return out
}

func w5C06Jobs(jobs []c06Job) []c06Job {
	long := len(c06Stores) - 1
	for _, q := range c06BigShapes() {
		jobs = append(jobs, c06Job{ID: len(jobs), Query: q, Store: long, Batch: false, B: 1, Pad: 0})
		jobs = append(jobs, c06Job{ID: len(jobs), Query: q, Store: long, Batch: true, B: 3, Pad: 7})
	}
	for _, q := range w5C06Shapes {
		jobs = append(jobs, c06Job{ID: len(jobs), Query: q, Store: long, Batch: false, B: 1, Pad: 0})
		for _, b := range []int{1, 3, 7, 32, 100} {
			jobs = append(jobs, c06Job{ID: len(jobs), Query: q, Store: long, Batch: true, B: b, Pad: 7})
		}
	}
	return jobs
}

func c06RunOne(j c06Job) (out c06Out) {
	out.ID = j.ID
	out.Class = "rows"
	defer func() {
		if r := recover(); r != nil {
			out.Class = "PANIC"
			out.Info = fmt.Sprint(r)
		}
	}()
	kvql.DefaultErrorPadding = j.Pad
	st := newStore(c06Stores[j.Store])
	res := runQuery(j.Query, st, j.Batch, j.B, true)
	if res.Panic != "" {
		if strings.HasPrefix(res.Panic, "TIMEOUT") {
			out.Class = "TIMEOUT"
		} else {
			out.Class = "PANIC"
		}
		out.Info = res.Panic
		return
	}
	if res.Err != nil {
		out.Class = "error"
		if qb, ok := res.Err.(kvql.QueryBinder); ok {
			qb.BindQuery(j.Query)
			qb.SetPadding(j.Pad)
		}
		_ = res.Err.Error() // rendering must not panic either
		return
	}
	for _, row := range res.Rows {
		_ = canonRow(row)
	}
	return
}

// child mode: reads jobs (one JSON per line) from the file named by --out, writes results to stdout
func runC06Child(c *runCtx) error {
	f, err := os.Open(c.out)
	if err != nil {
		return err
	}
	defer f.Close()
	sc := bufio.NewScanner(f)
	sc.Buffer(make([]byte, 1<<20), 1<<24)
	w := bufio.NewWriter(os.Stdout)
	for sc.Scan() {
		var j c06Job
		if json.Unmarshal(sc.Bytes(), &j) != nil {
			continue
		}
		fmt.Fprintf(w, "START %d\n", j.ID)
		w.Flush()
		done := make(chan c06Out, 1)
		go func() { done <- c06RunOne(j) }()
		var o c06Out
		select {
		case o = <-done:
		case <-time.After(20 * time.Second):
			o = c06Out{ID: j.ID, Class: "TIMEOUT", Info: "no result within 20 s"}
		}
		b, _ := json.Marshal(o)
		fmt.Fprintf(w, "DONE %s\n", b)
		w.Flush()
		if o.Class == "TIMEOUT" {
			return nil // the stuck goroutine cannot be killed: end this child
		}
	}
	return nil
}

func c06RunChunk(dir string, jobs []c06Job, results map[int]c06Out) {
	for len(jobs) > 0 {
		path := fmt.Sprintf("%s/jobs_%d.jsonl", dir, jobs[0].ID)
		var sb strings.Builder
		for _, j := range jobs {
			b, _ := json.Marshal(j)
			sb.Write(b)
			sb.WriteByte('\n')
		}
		os.WriteFile(path, []byte(sb.String()), 0o644)
		cmd := exec.Command(os.Args[0], "C06child", "--out", path)
		cmd.Env = append(os.Environ(), "GOMAXPROCS=2", "GOMEMLIMIT=2GiB")
		outBytes, _ := cmd.Output()
		os.Remove(path)
		started := -1
		doneIDs := map[int]bool{}
		for _, line := range strings.Split(string(outBytes), "\n") {
			if strings.HasPrefix(line, "START ") {
				fmt.Sscanf(line, "START %d", &started)
			} else if strings.HasPrefix(line, "DONE ") {
				var o c06Out
				if json.Unmarshal([]byte(line[5:]), &o) == nil {
					results[o.ID] = o
					doneIDs[o.ID] = true
				}
			}
		}
		// everything up to the last started job is accounted for; a started job without a
		// result killed the child
		rest := []c06Job{}
		cut := false
		for _, j := range jobs {
			if doneIDs[j.ID] {
				continue
			}
			if j.ID == started && !cut {
				results[j.ID] = c06Out{ID: j.ID, Class: "FATAL", Info: "the process died while running this case (fatal runtime error, e.g. stack overflow)"}
				cut = true
				continue
			}
			rest = append(rest, j)
		}
		if len(rest) == len(jobs) {
			// no progress at all: give up on this chunk
			for _, j := range rest {
				results[j.ID] = c06Out{ID: j.ID, Class: "FATAL", Info: "child process produced no output"}
			}
			return
		}
		jobs = rest
	}
}

func mutateQuery(r *rng, q string) string {
	toks := kvql.NewLexer(q).Split()
	switch r.intn(11) {
	case 9: // trailing blanks (the renderer trims them, positions and EOF carets must cope)
		return q + strings.Repeat(" ", 1+r.intn(60))
	case 10: // cut the statement off and pad it: an end-of-input error on a padded query
		if len(q) > 4 {
			return q[:len(q)/2+r.intn(len(q)/2)] + strings.Repeat(" ", 30+r.intn(40))
		}
	case 0: // delete one token
		if len(toks) > 0 {
			t := pick(r, toks)
			end := t.Pos + len(t.Data)
			if t.Tp == kvql.STRING {
				end += 2
			}
			if t.Pos <= len(q) && end <= len(q) {
				return q[:t.Pos] + q[end:]
			}
		}
	case 1: // duplicate one token
		if len(toks) > 0 {
			t := pick(r, toks)
			if t.Pos <= len(q) {
				return q[:t.Pos] + t.Data + " " + q[t.Pos:]
			}
		}
	case 2: // replace one token by another token of the statement
		if len(toks) > 1 {
			t, u := pick(r, toks), pick(r, toks)
			end := t.Pos + len(t.Data)
			if t.Pos <= len(q) && end <= len(q) {
				return q[:t.Pos] + u.Data + q[end:]
			}
		}
	case 3: // delete one byte
		if len(q) > 0 {
			i := r.intn(len(q))
			return q[:i] + q[i+1:]
		}
	case 4: // replace one byte
		if len(q) > 0 {
			i := r.intn(len(q))
			return q[:i] + string([]byte{pick(r, []byte("'\"`()[],;=!<>^~&|+-*/ \t\n\x00\xffaZ09._"))}) + q[i+1:]
		}
	case 5: // insert a byte
		i := r.intn(len(q) + 1)
		return q[:i] + string([]byte{pick(r, []byte("'\"`()[],;=!<>^~&|+-*/ \t\n\x00\xffaZ09._"))}) + q[i:]
	case 6: // truncate
		if len(q) > 0 {
			return q[:r.intn(len(q))]
		}
	case 7: // leading blanks (error rendering offsets)
		return strings.Repeat(" ", 1+r.intn(60)) + q
	default: // swap two adjacent tokens
		if len(toks) > 1 {
			i := r.intn(len(toks) - 1)
			a, b := toks[i], toks[i+1]
			ea, eb := a.Pos+len(a.Data), b.Pos+len(b.Data)
			if a.Pos <= ea && ea <= b.Pos && eb <= len(q) {
				return q[:a.Pos] + q[b.Pos:eb] + q[ea:b.Pos] + q[a.Pos:ea] + q[eb:]
			}
		}
	}
	return q + " " + q
}

func c06Corpus(r *rng, n int) []string {
	base := []string{
		"select * where key ^= 'a'",
		"select key, int(value) + 1 where key in ('k1', 'k2', 'k3') & is_int(value)",
		"select count(1), sum(int(value)) as sum, substr(key, 0, 2) as kprefix where key between 'k' and 'l' group by kprefix order by sum desc",
		"select key, split(value) as f1 where 'a' in f1",
		"select key, value, l2_distance(list(1,2,3,4), json(value)) as l2_dis where key ^= 'embedding_json' & l2_dis > 0.6 order by l2_dis desc limit 5",
		"select key, json(value)['a'] as a, json(value)['l'][1] where key ^= 'j' order by a",
		"select key, json(value)['o']['p'], json(value)['x']['y'][2] where true | key = 'a'",
		"put ('k1', 'v1'), ('k2', upper('v' + key))",
		"put ('k3', str(1/(1-1)))",
		"remove 'k1', 'k2'",
		"delete where key ^= 'prefix' and value ~= '^val_' limit 10",
		"delete where key in ('k1', 'k2', 'k3')",
		"select key, value where value ~= '(' ",
		"select key, value where value ~= '[a-' & key > 'a'",
		"select avg(float(value)), min(int(value)), max(value), group_concat(key, ','), json_arrayagg(value), quantile(float(value), 0.5) where key > ''",
		"select substr(value, 2, 1), substr(key, 5, 100), substr(value, 0, 0) where key >= ''",
		"select list(1, 2)[5], split(value, ',')[3], int_list()[0] where key != ''",
		"select join() where key = 'a'",
		"select cosine_distance(split(value, ','), list(1, 2)), l2_distance(list(1), list(1, 2)) where key ^= 'b'",
		"select upper(u) as u where key = 'a'",
		"select key, int(value) as n where n > 2 order by n limit 1, 2",
		"select key where key = 'a' order by nosuch",
		"select * where key between 'b' and 'a'",
		"select 1/0, 1/0.0, 9223372036854775807 + 1, int(value) / int(value) where key ^= ''",
		// constants only the folder can build (negative / overflowing literals) in every integer position
		"select key, substr(value, 0 - 3, 2), substr(value, 1, 0 - 2), substr(key, 0 - 1, 0 - 1) where key >= ''",
		"select key, substr(value, 0 - 9223372036854775807, 9223372036854775807 + 1) where key >= ''",
		"select key, int_list(0 - 1, 2)[0], list(0 - 1, 0 - 2.5)[1], str(0 - 7), strlen(str(0 - 10)) where key >= ''",
		"select key where substr(value, 0 - 3, 2) = '' | int(value) > 0 - 5 & key between 'a' + 'b' and 'k' + 'z'",
		"delete where substr(value, 0 - 3, 2) = 'zz' & key ^= 'k'",
		"put ('k' + str(0 - 1), substr('abcdef', 0 - 2, 3))",
		"select key, int(value) as n where n > 2 & key in ('a', 'ab', 'b', 'c')",
		"select key, upper(value) as u where u != 'X' & key in ('a', 'b', 'c', 'd', 'e', 'f')",
		"select key, value where key ^= 'j' order by json(value)['a']",
		"select key, sum(float(value)) as s, count(1) where key > '' group by key order by s",
		"select key, json(value)['a'] as a where key ^= 'j' order by a desc, key",
		"select key, join(',', u, u) , upper(value) as u where key > ''",
		"                                                  select * where key = 'a' and and value = 'b' and key ^= 'ccccccccccccccccccccccccccccccccccccccccccccccccccc' oops",
		"select key, value where key ^= 'cccccccccccccccccccccccccccccccccccccccccccccccccccccccccccc' & value in ('a', 'b'                                          ",
		"select * where (key = 'aaaaaaaaaaaaaaaaaaaaaaaaaaaaaaaaaaaaaaaaaaaaaaaaaaaaaaaaaaaaaaaaaaaaaaaaaaaaaaaaaaa'                                                  ",
		"select * where key in (1, 'a')", "select * where !(key)", "where key = 'a'", ";;;", "",
		"select * where key = 'a' limit 99999999999999999999",
		"select * where key = 'a' limit -1, 2",
	}
	base = append(base, w5C06Shapes...)
	g := newEgen(r)
	out := append([]string{}, base...)
	for len(out) < n {
		switch r.intn(6) {
		case 0:
			out = append(out, "select * where "+g.gen(gBool, 1+r.intn(3)))
		case 1:
			out = append(out, fmt.Sprintf("select key, %s as x, %s where %s order by x %s limit %d, %d", g.gen(pick(r, []gty{gStr, gInt, gFlt}), 2), g.gen(gList, 1), g.gen(gBool, 2), pick(r, []string{"asc", "desc"}), r.intn(3), r.intn(5)))
		case 2:
			out = append(out, fmt.Sprintf("select %s as g, count(1), sum(%s) where %s group by g", g.gen(gStr, 1), g.gen(gInt, 1), g.gen(gBool, 1)))
		case 3:
			out = append(out, fmt.Sprintf("put (%s, %s), ('z', %s)", g.gen(gStr, 1), g.gen(gStr, 2), g.gen(gInt, 1)))
		case 4:
			out = append(out, fmt.Sprintf("delete where %s limit %d", g.gen(gBool, 2), r.intn(4)))
		default:
			out = append(out, "select "+g.gen(pick(r, []gty{gStr, gInt, gFlt, gBool, gList}), 3)+" where key >= ''")
		}
	}
	return out
}

func runC06(c *runCtx) error {
	r := newRng(c.seed)
	header := "From Coq Require Import List String ZArith.\nFrom KV Require Import Base.Bytes Model.Ast Model.Value Corr.EvalCommon Corr.C06.\nFrom KV Require Import Corr.C06Text.\nImport ListNotations.\nOpen Scope string_scope.\nNotation case := xcase (only parsing).\nNotation mismatches := xmismatches (only parsing).\nNotation Case := XCase (only parsing).\n"
	e := newEmitter(c.out, "C06", header, 250)
	e.m.Rule = "valid statements (README examples, typed grammar for every statement kind), single-edit corruptions at token and byte level, byte mutations, deep nesting (4 kB) x 6 hostile stores (empty, non-numeric, extreme numbers, mixed-type JSON, non-UTF-8, 44 pairs of mixed kinds) x {row, batch} x B in {1,3,32} x paddings; plus the shapes of w5C06Shapes (long chunks with mixed-type columns, aliases over point reads, ORDER BY over mixed kinds, aggregates over unconvertible text) on a 44-pair mixed store in row mode and batch mode with B in {1,3,7,32,100}; each case in a child process; non-trivial = the case differs from every other case text; the Coq side re-evaluates the select fields of valid statements with the proved-panic-free evaluator twin"
	nValid, nMut := 150, 5
	if c.thorough() || c.search {
		nValid, nMut = 1500, 12
	}
	nValid += len(w5C06Shapes) // the generated part of the corpus keeps its size
	corpus := c06Corpus(r, nValid)
	var queries []string
	for _, q := range corpus {
		queries = append(queries, q)
		for i := 0; i < nMut; i++ {
			m := mutateQuery(r, q)
			if r.chance(1, 4) {
				m = mutateQuery(r, m)
			}
			queries = append(queries, m)
		}
	}
	// deep nesting: a few kilobytes
	for _, n := range []int{50, 1000, 4000} {
		queries = append(queries,
			"select * where "+strings.Repeat("(", n)+"key = 'a'"+strings.Repeat(")", n),
			"select * where "+strings.Repeat("!", n)+"(key = 'a')",
			"select "+strings.Repeat("upper(", n)+"key"+strings.Repeat(")", n)+" where key = 'a'",
			"select * where key = 'a'"+strings.Repeat(" & key = 'a'", n/4),
			"select "+strings.Repeat("1+", n)+"1 where key = 'a'",
			"select json(value)"+strings.Repeat("['a']", n)+" where key ^= 'j'",
			"select * where key in ("+strings.Repeat("'a',", n)+"'b')",
			strings.Repeat("select ", n))
	}
	var jobs []c06Job
	for qi, q := range queries {
		for k := 0; k < 2; k++ {
			j := c06Job{ID: len(jobs), Query: q, Store: (qi + k*2) % len(c06Stores), Batch: (qi+k)%2 == 0, B: pick(r, []int{1, 3, 32}), Pad: pick(r, []int{0, 7, 12})}
			jobs = append(jobs, j)
		}
	}
	jobs = w5C06Jobs(jobs)
	results := map[int]c06Out{}
	chunk := 400
	for i := 0; i < len(jobs); i += chunk {
		end := i + chunk
		if end > len(jobs) {
			end = len(jobs)
		}
		c06RunChunk(c.out, jobs[i:end], results)
	}
	// evaluator-level cases for the Coq side: select fields of valid statements
	for _, q := range corpus {
		if !strings.HasPrefix(q, "select ") {
			continue
		}
		stmt, err := kvql.NewParser(q).Parse()
		if err != nil {
			continue
		}
		sel, ok := stmt.(*kvql.SelectStmt)
		if !ok || sel.GroupBy != nil {
			continue
		}
		for _, f := range sel.Fields {
			if kvql.IsAggrFuncExpr(f) {
				continue
			}
			term, okT := coqExpr(f)
			if !okT {
				e.m.OutOfModel++
				continue
			}
			obs := make([]string, len(evalPairs))
			for i, kv := range evalPairs {
				val, err, pn := execRow(f, kv[0], kv[1], false)
				obs[i] = coqObs(val, err, pn)
			}
			e.add(fmt.Sprintf("Case %s %s", term, coqObsRows(evalPairs, obs)), map[string]string{"field_of": q, "field": f.String()}, true)
			e.count("coq_eval_case")
		}
	}
	seenQ := map[string]bool{}
	for _, j := range jobs {
		o := results[j.ID]
		e.count("outcome=" + o.Class)
		if !seenQ[j.Query] {
			seenQ[j.Query] = true
			e.m.Distinct++
		}
		if o.Class == "PANIC" || o.Class == "FATAL" || o.Class == "TIMEOUT" {
			q := j.Query
			if len(q) > 600 {
				q = q[:300] + " ...[" + fmt.Sprint(len(j.Query)) + " bytes]... " + q[len(q)-200:]
			}
			rp := map[string]any{"query": q, "query_len": len(j.Query), "store": c06Stores[j.Store], "batch": j.Batch, "batch_size": j.B, "padding": j.Pad, "outcome": o.Class, "info": o.Info}
			sig := "C06/" + o.Class
			for _, kw := range []string{"slice bounds", "interface conversion", "index out of range", "nil pointer", "nil map", "divide", "TIMEOUT"} {
				if strings.Contains(o.Info, kw) {
					sig += ":" + strings.ReplaceAll(kw, " ", "-")
					break
				}
			}
			idx := e.add("Case (EBool 0 true) []", rp, false)
			e.fail(idx, "the library "+map[string]string{"PANIC": "panicked", "FATAL": "died with a fatal runtime error", "TIMEOUT": "did not terminate"}[o.Class]+": "+o.Info, sig, rp)
		}
	}
	txStream(c, e, newRng(c.seed+0x6c06)) // harness/c06text.go: the whole text twins, outcome classes
	e.m.Cases = len(e.cases)
	e.m.Notes = append(e.m.Notes, fmt.Sprintf("process-level exploration: %d runs of %d distinct query texts", len(jobs), len(seenQ)))
	if len(e.m.Samples) < 8 {
		for i := 0; i < 3 && i < len(jobs); i++ {
			e.m.Samples = append(e.m.Samples, jobs[(i*977)%len(jobs)])
		}
	}
	return e.flush()
}
