package main

// C06, text stream (tx): the WHOLE text twins -- Model/PipelineS.v select_stmt_text_st (every
// SELECT shape), Model/PipelineW.v write_text / delete_text -- which Properties/C06.v proves free
// of panic / fuel outcomes (select_stmt_text_never_panics, write_text_never_panics), against
// kvql.NewOptimizer(q).BuildPlan(store) + drain on valid AND corrupted query texts.  A case is
// one text on one store; the Go side drains row-at-a-time and in batches of 1, 2, 3, 32 and
// records the OUTCOME CLASS per mode (rows + their number | SyntaxError of BuildPlan + position |
// other error of BuildPlan | error of the drain | PANIC); write plans that finished are polled
// again (Next, Batch, Next).  The Coq side (Corr/C06Text.v) evaluates the twin on the same text.

import (
	"fmt"
	"strings"

	kvql "github.com/c4pt0r/kvql"
)

var txModes = []int{0, 1, 2, 3, 32}

type txReplay struct {
	Kind  string      `json:"kind"`
	Query string      `json:"query"`
	Store [][2]string `json:"store"`
	Obs   []string    `json:"observed_per_mode"`
}

// write statements inside Model/PipelineW.v (valid; the stream also mutates them)
var txWrites = []string{
	"put ('k1', 'v1')", "put ('k1', 'v1'), ('k2', upper('v' + key))", "put ('k03', str(1 + 2)), ('zz', key + 'x'), ('k05', '')",
	"put ('k3', str(1/(1-1)))", "put ('a' + 'b', lower('V')), (key, 'v')", "put (1, 2)", "put ('k', value)", "put ('k', 'v'),",
	"remove 'k00'", "remove 'k00', 'k02', 'nokey'", "remove 'k' + '03', lower('A01')", "remove key", "remove 1", "remove",
	"delete where key ^= 'k'", "delete where key ^= 'k' limit 2", "delete where key in ('k00', 'k02', 'nokey')",
	"delete where key = 'k03' | key = 'a01'", "delete where int(value) > 2 & key > 'a'", "delete where key > 'b' limit 1, 2",
	"delete where key between 'a' and 'k05' and value != '7'", "delete where 10 / (int(value) - 7) > 1", "delete where key", "delete",
	"delete where false", "delete where key ^= 'k' limit", "delete key = 'a'", "put", "put ()", "put ('a')", "put ('a', 'b', 'c')",
}

// txRun: BuildPlan + drain; a write plan that finished is polled again
func txRun(q string, kvs [][2]string, batch bool, B int) (res runResult) {
	res, plan := c03w2Run(q, kvs, batch, B)
	if plan == nil || res.Panic != "" || res.Err != nil {
		return res
	}
	switch plan.(type) {
	case *kvql.PutPlan, *kvql.RemovePlan, *kvql.DeletePlan:
		func() {
			defer func() {
				if r := recover(); r != nil {
					res.Panic = "polling the finished plan: " + fmt.Sprint(r)
				}
			}()
			ctx := kvql.NewExecuteCtx()
			plan.Next(ctx)
			plan.Batch(ctx)
			plan.Next(ctx)
		}()
	}
	return res
}

func txClass(res runResult) (term, short string) {
	switch {
	case res.Panic != "":
		return "KPanic", "PANIC"
	case res.Err != nil && res.BuildErr:
		if errClass(res.Err) == "syntax" {
			return fmt.Sprintf("(KReject (%d))", errPos(res.Err)), "rejected"
		}
		return "KBuildErr", "build_error"
	case res.Err != nil:
		return "KRunErr", "run_error"
	}
	return fmt.Sprintf("(KRows %d)", len(res.Rows)), "rows"
}

func txCase(e *emitter, q string, kvs [][2]string, bucket string) {
	rp := txReplay{Kind: "query text through NewOptimizer(q).BuildPlan(store) + drain, outcome class per mode (text twins Model/PipelineS.v / PipelineW.v)", Query: q, Store: kvs}
	groups := []string{}
	modesOf := map[string][]int{}
	outcome := ""
	var panicInfo string
	for _, m := range txModes {
		B := m
		if m == 0 {
			B = 32
		}
		res := txRun(q, kvs, m != 0, B)
		if res.BuildErr && res.Panic == "" && isAggArityErr(res.Err) {
			e.m.OutOfModel++
			e.count("tx/aggregate_argument_count(judged_by_C14_stream_agg)")
			return
		}
		term, short := txClass(res)
		if _, have := modesOf[term]; !have {
			groups = append(groups, term)
		}
		modesOf[term] = append(modesOf[term], m)
		if short == "PANIC" {
			outcome, panicInfo = short, res.Panic
		} else if outcome == "" {
			outcome = short
		}
		// rendering the error after BindQuery must not panic either
		if res.Err != nil {
			func() {
				defer func() {
					if r := recover(); r != nil {
						outcome, panicInfo = "PANIC", "rendering the error: "+fmt.Sprint(r)
					}
				}()
				if qb, ok := res.Err.(kvql.QueryBinder); ok {
					qb.BindQuery(q)
					qb.SetPadding(m)
				}
				_ = res.Err.Error()
			}()
		}
		rp.Obs = append(rp.Obs, fmt.Sprintf("mode %d: %s", m, term))
	}
	runs := make([]string, len(groups))
	for i, o := range groups {
		runs[i] = fmt.Sprintf("(%s, %s)", coqNatList(modesOf[o]), o)
	}
	idx := e.add(fmt.Sprintf("CaseX (TCase %s %s %s)", coqStr(q), coqPairs(kvs), coqList(runs)), rp, true)
	e.count("tx:" + outcome)
	e.count("tx:class=" + bucket)
	if outcome == "PANIC" {
		sig := "C06/PANIC"
		for _, kw := range []string{"slice bounds", "interface conversion", "index out of range", "nil pointer", "nil map", "divide", "TIMEOUT"} {
			if strings.Contains(panicInfo, kw) {
				sig += ":" + strings.ReplaceAll(kw, " ", "-")
				break
			}
		}
		e.fail(idx, "the library panicked on a query text: "+panicInfo, sig, rp)
	}
}

func txStream(c *runCtx, e *emitter, r *rng) {
	e.m.Rule += "; tx: query TEXTS -- SELECT statements of every plan shape (projection / aggregate, ORDER BY, GROUP BY, LIMIT, every access path), PUT / REMOVE / DELETE statements, the README corpus, each also with single-edit corruptions (token and byte level) -- x stores of 0..12 pairs x {row, batch 1, 2, 3, 32}: outcome class (rows and their number | SyntaxError of BuildPlan and its position | other BuildPlan error | drain error | PANIC) of kvql.NewOptimizer(q).BuildPlan(store) + drain vs the whole text twins select_stmt_text_st / write_text / delete_text evaluated on the same text (Corr/C06Text.v); finished write plans are polled again; every returned error is rendered after BindQuery"
	thorough := c.thorough() || c.search
	store := func() [][2]string { return c03MakeStore(r, r.intn(13), !r.chance(1, 4)) }
	nMut := 2
	nGen := 70
	if thorough {
		nMut, nGen = 6, 1500
	}
	emit := func(q, bucket string) {
		txCase(e, q, store(), bucket)
		for i := 0; i < nMut; i++ {
			m := mutateQuery(r, q)
			if r.chance(1, 4) {
				m = mutateQuery(r, m)
			}
			txCase(e, m, store(), bucket+"+corrupted")
		}
	}
	for _, q := range txWrites {
		emit(q, "write")
	}
	for i, q := range psDirected {
		if thorough || i%3 == 0 {
			emit(q, "directed")
		}
	}
	for i, q := range c06Corpus(r, 0) {
		if thorough || i%4 == 0 {
			emit(q, "corpus")
		}
	}
	g := newEgen(r)
	for i := 0; i < nGen; i++ {
		wk := pick(r, psWhereKinds)
		wh := pick(r, psWhere[wk])
		if r.chance(1, 10) {
			wh = c03Where(r, g)
		}
		var q, bucket string
		if r.chance(1, 2) {
			p := psProjs[r.intn(len(psProjs))]
			tail, kind := psTail(r, p.orders, 3)
			q, bucket = "select "+p.fields+" where "+wh+tail, "projection"+kind
		} else {
			a := psAggs[r.intn(len(psAggs))]
			tail, kind := psTail(r, a.orders, 3)
			gb := ""
			if a.group != "" {
				gb = " group by " + a.group
			}
			q, bucket = "select "+a.fields+" where "+wh+gb+tail, "aggregate"+kind
		}
		emit(q, bucket)
	}
}
