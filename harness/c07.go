package main

// C07: ORDER BY returns a sorted permutation of the unordered result.
//  part A  node level: a FinalOrderPlan built directly over a scripted child that yields
//          arbitrary columns (every dynamic type the compare* switches know, plus ones they
//          do not) in an arbitrary chunking:
//          A1  every ordered pair of a value pool as a two-row input, per declared type and
//              direction (a two-row sort shows Less(b, a), so this compares the comparator
//              of the twin with the implementation's pair by pair, also where Less is not an
//              order at all);
//          A2  exhaustive tie patterns: all assignments of small keys to 3 rows x 2 sort
//              fields x all asc/desc combinations, per key kind;
//          A3  seeded random rows, 1..3 sort fields over homogeneous and mixed columns,
//              duplicate field names, random chunkings.
//  part B  statement level: SELECT ... ORDER BY over stores with duplicate values: key,
//          value, aliased text / number / Boolean expressions, aggregates with GROUP BY,
//          1..3 order fields, all asc/desc/default spellings; the same statement without
//          the ORDER BY clause supplies the child rows; order by key asc alone.
//  Every case is judged here directly (panic, error, not a permutation, adjacent pair out
//  of order under an exact Go rendering of the property) and again in Coq (Corr/C07.v).

import (
	"bytes"
	"fmt"
	"math"
	"math/big"
	"sort"
	"strconv"
	"strings"

	kvql "github.com/c4pt0r/kvql"
)

func init() { registry["C07"] = runC07 }

// ---------------------------------------------------------------- scripted child

type c07Child struct {
	chunks [][][]kvql.Column
	flat   [][]kvql.Column
	bi, ri int
	names  []string
	types  []kvql.Type
}

func newC07Child(chunks [][][]kvql.Column, names []string, types []kvql.Type) *c07Child {
	p := &c07Child{chunks: chunks, names: names, types: types}
	for _, c := range chunks {
		p.flat = append(p.flat, c...)
	}
	return p
}
func (p *c07Child) String() string             { return "c07Child" }
func (p *c07Child) Explain() []string          { return []string{"c07Child"} }
func (p *c07Child) Init() error                { p.bi, p.ri = 0, 0; return nil }
func (p *c07Child) FieldNameList() []string    { return p.names }
func (p *c07Child) FieldTypeList() []kvql.Type { return p.types }
func (p *c07Child) Next(ctx *kvql.ExecuteCtx) ([]kvql.Column, error) {
	if p.ri >= len(p.flat) {
		return nil, nil
	}
	r := p.flat[p.ri]
	p.ri++
	return append([]kvql.Column{}, r...), nil
}
func (p *c07Child) Batch(ctx *kvql.ExecuteCtx) ([][]kvql.Column, error) {
	if p.bi >= len(p.chunks) {
		return nil, nil
	}
	c := p.chunks[p.bi]
	p.bi++
	out := make([][]kvql.Column, len(c))
	for i, r := range c {
		out[i] = append([]kvql.Column{}, r...)
	}
	return out, nil
}

// ---------------------------------------------------------------- Gallina printer

func c07Int(c any) (int64, bool) {
	switch v := c.(type) {
	case int:
		return int64(v), true
	case int16:
		return int64(v), true
	case int32:
		return int64(v), true
	case int64:
		return v, true
	case uint:
		return int64(v), true
	case uint16:
		return int64(v), true
	case uint32:
		return int64(v), true
	case uint64:
		return int64(v), true
	}
	return 0, false
}

func c07Float(c any) (float64, bool) {
	switch v := c.(type) {
	case float32:
		return float64(v), true
	case float64:
		return v, true
	}
	return 0, false
}

func c07Z(z int64) string {
	if z < 0 {
		return fmt.Sprintf("(%d)%%Z", z)
	}
	return fmt.Sprintf("%d%%Z", z)
}

func c07Val(c any) string {
	switch v := c.(type) {
	case []byte:
		return "VBytes " + coqStr(string(v))
	case string:
		return "VStr " + coqStr(v)
	case bool:
		return "VBool " + coqBool(v)
	}
	if f, ok := c07Float(c); ok {
		return fmt.Sprintf("VFloat %d%%Z", math.Float64bits(f))
	}
	if z, ok := c07Int(c); ok {
		return "VInt " + c07Z(z)
	}
	return "VOther " + coqStr(canonCol(c))
}

func c07Row(r []kvql.Column) string {
	p := make([]string, len(r))
	for i, c := range r {
		p[i] = "(" + c07Val(c) + ")"
	}
	return coqList(p)
}

func c07Rows(rs [][]kvql.Column) string {
	p := make([]string, len(rs))
	for i, r := range rs {
		p[i] = c07Row(r)
	}
	return coqList(p)
}

func c07OptRows(have bool, rs [][]kvql.Column) string {
	if !have {
		return "None"
	}
	return "(Some " + c07Rows(rs) + ")"
}

var c07TypeCtor = map[kvql.Type]string{kvql.TUNKNOWN: "TUNKNOWN", kvql.TBOOL: "TBOOL", kvql.TSTR: "TSTR",
	kvql.TNUMBER: "TNUMBER", kvql.TIDENT: "TIDENT", kvql.TLIST: "TLIST", kvql.TJSON: "TJSON"}

// human-readable value for replays: dynamic type and content
func c07Show(c any) string {
	switch v := c.(type) {
	case []byte:
		return fmt.Sprintf("[]byte(%q)", string(v))
	case string:
		return fmt.Sprintf("string(%q)", v)
	case nil:
		return "nil"
	}
	if f, ok := c07Float(c); ok {
		return fmt.Sprintf("%T(%s)", c, strconv.FormatFloat(f, 'g', -1, 64))
	}
	return fmt.Sprintf("%T(%v)", c, c)
}

func c07ShowRows(rs [][]kvql.Column) [][]string {
	out := make([][]string, len(rs))
	for i, r := range rs {
		out[i] = make([]string, len(r))
		for j, c := range r {
			out[i][j] = c07Show(c)
		}
	}
	return out
}

// ---------------------------------------------------------------- the property in Go (direct judge)

type c07Ord struct {
	Name string `json:"name"`
	Desc bool   `json:"desc"`
	pos  int    // index of the first field of that name
	tp   kvql.Type
	expr string // Gallina term of the select-list expression the name refers to
}

type c07Key struct {
	kind int // 0 none (the property does not say), 1 text, 2 number, 3 Boolean
	text []byte
	num  *big.Rat
	b    bool
}

var c07Huge = new(big.Rat).SetInt(new(big.Int).Lsh(big.NewInt(1), 1024))

func c07SpecKey(tp kvql.Type, v any) c07Key {
	switch tp {
	case kvql.TSTR:
		switch x := v.(type) {
		case []byte:
			return c07Key{kind: 1, text: x}
		case string:
			return c07Key{kind: 1, text: []byte(x)}
		}
	case kvql.TNUMBER:
		if z, ok := c07Int(v); ok {
			return c07Key{kind: 2, num: new(big.Rat).SetInt64(z)}
		}
		if f, ok := c07Float(v); ok {
			switch {
			case math.IsNaN(f):
				return c07Key{}
			case math.IsInf(f, 1):
				return c07Key{kind: 2, num: c07Huge}
			case math.IsInf(f, -1):
				return c07Key{kind: 2, num: new(big.Rat).Neg(c07Huge)}
			}
			return c07Key{kind: 2, num: new(big.Rat).SetFloat64(f)}
		}
	case kvql.TBOOL:
		if b, ok := v.(bool); ok {
			return c07Key{kind: 3, b: b}
		}
	}
	return c07Key{}
}

func c07KeyCmp(a, b c07Key) int {
	if a.kind != b.kind {
		if a.kind < b.kind {
			return -1
		}
		return 1
	}
	switch a.kind {
	case 1:
		return bytes.Compare(a.text, b.text)
	case 2:
		return a.num.Cmp(b.num)
	case 3:
		x, y := 0, 0
		if a.b {
			x = 1
		}
		if b.b {
			y = 1
		}
		return x - y
	}
	return 0
}

// lexicographic over the order fields, each ascending or descending as written
func c07SpecCmp(ords []c07Ord, a, b []kvql.Column) int {
	for _, o := range ords {
		if o.pos >= len(a) || o.pos >= len(b) {
			continue
		}
		c := c07KeyCmp(c07SpecKey(o.tp, a[o.pos]), c07SpecKey(o.tp, b[o.pos]))
		if o.Desc {
			c = -c
		}
		if c != 0 {
			return c
		}
	}
	return 0
}

// all sort keys are keys the property speaks about; a number column that mixes integers and
// floats is judged only if its integers are exactly representable in binary64 (the code
// compares such pairs after converting the integer, like every mixed comparison in kvql)
func c07InDomain(ords []c07Ord, rows [][]kvql.Column) bool {
	for _, o := range ords {
		ints, floats, big := false, false, false
		for _, r := range rows {
			if o.pos >= len(r) || c07SpecKey(o.tp, r[o.pos]).kind == 0 {
				return false
			}
			if z, ok := c07Int(r[o.pos]); ok {
				ints = true
				if z > 1<<53 || z < -(1<<53) {
					big = true
				}
			}
			if _, ok := c07Float(r[o.pos]); ok {
				floats = true
			}
		}
		if ints && floats && big {
			return false
		}
	}
	return true
}

// dynamic kind of a value under a declared type, as in Spec.OrderSpec.col_kind
func c07Kind(tp kvql.Type, v any) string {
	switch tp {
	case kvql.TSTR:
		switch v.(type) {
		case []byte, string:
			return "text"
		}
		return ""
	case kvql.TNUMBER:
		if _, ok := c07Int(v); ok {
			return "int"
		}
		if f, ok := c07Float(v); ok && !math.IsNaN(f) {
			return "float"
		}
		return ""
	case kvql.TBOOL:
		if _, ok := v.(bool); ok {
			return "bool"
		}
		return ""
	}
	return "untyped"
}

// homogeneous = Spec.OrderSpec.homogeneous; also returns a label for the distribution
func c07Homogeneous(ords []c07Ord, rows [][]kvql.Column) (bool, string) {
	all := true
	labels := []string{}
	for _, o := range ords {
		kinds := map[string]bool{}
		for _, r := range rows {
			k := ""
			if o.pos < len(r) {
				k = c07Kind(o.tp, r[o.pos])
			}
			kinds[k] = true
		}
		switch {
		case len(kinds) == 0:
			labels = append(labels, "empty")
		case len(kinds) == 1 && !kinds[""]:
			for k := range kinds {
				labels = append(labels, k)
			}
		case len(kinds) == 2 && kinds["int"] && kinds["float"]:
			labels = append(labels, "int+float")
			for _, r := range rows {
				if z, ok := c07Int(r[o.pos]); ok && (z > 1<<53 || z < -(1<<53)) {
					all = false // an integer binary64 cannot represent next to a float
				}
			}
		default:
			labels = append(labels, "hetero")
			all = false
		}
	}
	return all, strings.Join(labels, ",")
}

func c07Multiset(rows [][]kvql.Column) map[string]int {
	m := map[string]int{}
	for _, r := range rows {
		m[canonRow(r)]++
	}
	return m
}

func c07SameMultiset(a, b [][]kvql.Column) bool {
	if len(a) != len(b) {
		return false
	}
	ma, mb := c07Multiset(a), c07Multiset(b)
	if len(ma) != len(mb) {
		return false
	}
	for k, v := range ma {
		if mb[k] != v {
			return false
		}
	}
	return true
}

func c07SameSeq(a, b [][]kvql.Column) bool {
	if len(a) != len(b) {
		return false
	}
	for i := range a {
		if canonRow(a[i]) != canonRow(b[i]) {
			return false
		}
	}
	return true
}

// ---------------------------------------------------------------- cases

type c07Replay struct {
	Kind      string       `json:"kind"`
	Query     string       `json:"query,omitempty"`
	Unordered string       `json:"query_without_order_by,omitempty"`
	Store     [][2]string  `json:"store,omitempty"`
	B         int          `json:"batch_size"`
	Names     []string     `json:"field_names"`
	Types     []string     `json:"field_types"`
	Orders    []c07Ord     `json:"order_by"`
	HasAggr   bool         `json:"has_aggregate,omitempty"`
	Child     [][][]string `json:"child_batches"`
	ObsRow    [][]string   `json:"observed_row_mode,omitempty"`
	ObsBatch  [][]string   `json:"observed_batch_mode,omitempty"`
	Verdict   string       `json:"go_verdict,omitempty"`
	PanicRow  string       `json:"panic_row,omitempty"`
	PanicBat  string       `json:"panic_batch,omitempty"`
	ErrText   string       `json:"error,omitempty"`
	Columns   string       `json:"sort_column_kinds"`
}

type c07Case struct {
	kind    int // 0 node, 1 select, 2 aggregate select, 3 order by key asc
	query   string
	unord   string
	store   [][2]string
	B       int
	names   []string
	types   []kvql.Type
	ords    []c07Ord
	hasAggr bool
	chunks  [][][]kvql.Column
	hasRow  bool
	hasBat  bool
	obsRow  [][]kvql.Column
	obsBat  [][]kvql.Column
	panicR  string
	panicB  string
	errText string
	elided  bool // the statement's plan has no order node (kind 3 expects that)
}

var c07KindName = []string{"node", "select", "aggregate", "key-asc"}

func c07Flat(chunks [][][]kvql.Column) [][]kvql.Column {
	out := [][]kvql.Column{}
	for _, c := range chunks {
		out = append(out, c...)
	}
	return out
}

func c07Dirs(ords []c07Ord) string {
	s := ""
	for _, o := range ords {
		if o.Desc {
			s += "d"
		} else {
			s += "a"
		}
	}
	return s
}

// strconv oracle for the text values met in number sort columns
func c07Parse(cs *c07Case) string {
	seen := map[string]bool{}
	items := []string{}
	add := func(s string) {
		if seen[s] {
			return
		}
		seen[s] = true
		pi, pf := "None", "None"
		if z, err := strconv.ParseInt(s, 10, 64); err == nil {
			pi = "(Some " + c07Z(z) + ")"
		}
		if f, err := strconv.ParseFloat(s, 64); err == nil {
			pf = fmt.Sprintf("(Some %d%%Z)", math.Float64bits(f))
		}
		items = append(items, fmt.Sprintf("(%s, (%s, %s))", coqStr(s), pi, pf))
	}
	for _, o := range cs.ords {
		if o.tp != kvql.TNUMBER {
			continue
		}
		for _, r := range c07Flat(cs.chunks) {
			if o.pos >= len(r) {
				continue
			}
			switch v := r[o.pos].(type) {
			case []byte:
				add(string(v))
			case string:
				add(v)
			}
		}
	}
	return coqList(items)
}

func c07Emit(e *emitter, cs *c07Case) {
	rows := c07Flat(cs.chunks)
	ordTerms := make([]string, len(cs.ords))
	for i, o := range cs.ords {
		ex := o.expr
		if ex == "" {
			ex = "(EName 0 \"\")"
		}
		ordTerms[i] = fmt.Sprintf("OrderField %s %s %s", coqStr(o.Name), ex, coqBool(o.Desc))
	}
	typeTerms := make([]string, len(cs.types))
	typeNames := make([]string, len(cs.types))
	for i, t := range cs.types {
		typeTerms[i] = c07TypeCtor[t]
		if typeTerms[i] == "" {
			typeTerms[i] = "TUNKNOWN"
		}
		typeNames[i] = typeTerms[i]
	}
	chunkTerms := make([]string, len(cs.chunks))
	for i, c := range cs.chunks {
		chunkTerms[i] = c07Rows(c)
	}
	term := fmt.Sprintf("Case %d %d %s %s %s %s %s %s %s %s", cs.kind, cs.B, coqStrList(cs.names),
		coqList(typeTerms), coqList(ordTerms), coqBool(cs.hasAggr), c07Parse(cs), coqList(chunkTerms),
		c07OptRows(cs.hasRow && cs.panicR == "", cs.obsRow), c07OptRows(cs.hasBat && cs.panicB == "", cs.obsBat))

	homog, label := c07Homogeneous(cs.ords, rows)
	rp := c07Replay{Kind: c07KindName[cs.kind], Query: cs.query, Unordered: cs.unord, Store: cs.store, B: cs.B,
		Names: cs.names, Types: typeNames, Orders: cs.ords, HasAggr: cs.hasAggr, PanicRow: cs.panicR,
		PanicBat: cs.panicB, ErrText: cs.errText, Columns: label}
	for _, c := range cs.chunks {
		rp.Child = append(rp.Child, c07ShowRows(c))
	}
	if cs.hasRow {
		rp.ObsRow = c07ShowRows(cs.obsRow)
	}
	if cs.hasBat {
		rp.ObsBatch = c07ShowRows(cs.obsBat)
	}

	// non-trivial: at least two rows whose sort keys differ
	nontrivial := false
	for i := 1; i < len(rows) && !nontrivial; i++ {
		if c07SpecCmp(cs.ords, rows[0], rows[i]) != 0 {
			nontrivial = true
		}
	}
	ties := false
	sorted := append([][]kvql.Column{}, rows...)
	sort.SliceStable(sorted, func(i, j int) bool { return c07SpecCmp(cs.ords, sorted[i], sorted[j]) < 0 })
	for i := 1; i < len(sorted); i++ {
		if c07SpecCmp(cs.ords, sorted[i-1], sorted[i]) == 0 {
			ties = true
		}
	}

	// direct verdict on the implementation
	bad, sig := "", ""
	inDomain := c07InDomain(cs.ords, rows)
	judge := func(mode string, have bool, obs [][]kvql.Column, pn string) {
		if bad != "" || !have {
			return
		}
		switch {
		case pn != "":
			bad, sig = "panic in "+mode+" mode: "+pn, "C07/panic"
		case !c07SameMultiset(obs, rows):
			bad, sig = fmt.Sprintf("%s mode: the %d rows returned with ORDER BY are not a permutation of the %d rows returned without it", mode, len(obs), len(rows)), "C07/not-a-permutation"
		case cs.kind == 3 && !c07SameSeq(obs, rows):
			bad, sig = mode+" mode: order by key asc alone changed the natural key order", "C07/key-asc-reordered"
		case cs.kind != 3 && inDomain:
			for i := 1; i < len(obs); i++ {
				if c07SpecCmp(cs.ords, obs[i-1], obs[i]) > 0 {
					bad = fmt.Sprintf("%s mode: rows %d and %d are out of order under ORDER BY %s: %v then %v", mode, i-1, i,
						c07OrderText(cs.ords), c07ShowRows(obs[i-1 : i])[0], c07ShowRows(obs[i : i+1])[0])
					sig = "C07/out-of-order"
					break
				}
			}
		}
	}
	if cs.errText != "" {
		bad, sig = "error: "+cs.errText, "C07/error"
	}
	judge("row", cs.hasRow, cs.obsRow, cs.panicR)
	judge("batch", cs.hasBat, cs.obsBat, cs.panicB)
	if sig != "" {
		sig += "/" + c07KindName[cs.kind] // one replay per kind of input (node / statement)
	}
	rp.Verdict = bad

	idx := e.add(term, rp, nontrivial)
	e.count("kind=" + c07KindName[cs.kind])
	e.count(fmt.Sprintf("order_fields=%d", len(cs.ords)))
	e.count("dirs=" + c07Dirs(cs.ords))
	for _, l := range strings.Split(label, ",") {
		e.count("sort_column=" + l)
	}
	if homog {
		e.count("columns=all_homogeneous")
	} else {
		e.count("columns=some_mixed")
	}
	e.count(fmt.Sprintf("B=%d", cs.B))
	switch n := len(rows); {
	case n == 0:
		e.count("rows=0")
	case n == 1:
		e.count("rows=1")
	case n == 2:
		e.count("rows=2")
	case n <= 6:
		e.count("rows=3..6")
	case n <= 33:
		e.count("rows=7..33")
	default:
		e.count("rows>33")
	}
	if ties {
		e.count("ties=yes")
	} else {
		e.count("ties=no")
	}
	if !inDomain {
		e.count("sort_keys_outside_the_property_text")
	}
	if cs.kind != 0 {
		if cs.elided {
			e.count("plan=order_node_elided")
		} else {
			e.count("plan=order_node")
		}
	}
	if !homog && len(rows) > 6 {
		// Less need not be an order on such columns; only panic-freedom and the permutation
		// are judged, the sort-key sequence is not compared with the twin
		e.m.OutOfModel++
	}
	if bad != "" {
		e.fail(idx, bad, sig, rp)
	}
}

func c07OrderText(ords []c07Ord) string {
	p := make([]string, len(ords))
	for i, o := range ords {
		p[i] = o.Name + " asc"
		if o.Desc {
			p[i] = o.Name + " desc"
		}
	}
	return strings.Join(p, ", ")
}

// ---------------------------------------------------------------- part A: node level

func c07Resolve(names []string, types []kvql.Type, ords []c07Ord) []c07Ord {
	out := make([]c07Ord, len(ords))
	for i, o := range ords {
		o.pos = -1
		for j, n := range names {
			if n == o.Name {
				o.pos = j
				break
			}
		}
		if o.pos >= 0 && o.pos < len(types) {
			o.tp = types[o.pos]
		}
		out[i] = o
	}
	return out
}

func c07RunNode(e *emitter, B int, names []string, types []kvql.Type, ords []c07Ord, chunks [][][]kvql.Column) {
	cs := &c07Case{kind: 0, B: B, names: names, types: types, ords: c07Resolve(names, types, ords), chunks: chunks,
		hasRow: true, hasBat: true}
	kvql.PlanBatchSize = B
	for _, batch := range []bool{false, true} {
		var rows [][]kvql.Column
		pn := ""
		func() {
			defer func() {
				if r := recover(); r != nil {
					pn = fmt.Sprint(r)
				}
			}()
			ofs := make([]kvql.OrderField, len(ords))
			for i, o := range ords {
				ofs[i] = kvql.OrderField{Name: o.Name, Field: &kvql.NameExpr{Data: o.Name}, Order: kvql.ASC}
				if o.Desc {
					ofs[i].Order = kvql.DESC
				}
			}
			p := &kvql.FinalOrderPlan{Orders: ofs, FieldNames: names, FieldTypes: types,
				ChildPlan: newC07Child(chunks, names, types)}
			if err := p.Init(); err != nil {
				cs.errText = err.Error()
				return
			}
			res := drainPlan(p, batch, runResult{})
			pn = res.Panic
			if res.Err != nil {
				cs.errText = res.Err.Error()
			}
			rows = res.Rows
		}()
		if batch {
			cs.obsBat, cs.panicB = rows, pn
		} else {
			cs.obsRow, cs.panicR = rows, pn
		}
	}
	c07Emit(e, cs)
}

func c07Chunk(r *rng, rows [][]kvql.Column, B int, random bool) [][][]kvql.Column {
	out := [][][]kvql.Column{}
	for i := 0; i < len(rows); {
		s := B
		if random {
			s = 1 + r.intn(2*B+1)
		}
		if s < 1 {
			s = 1
		}
		if i+s > len(rows) {
			s = len(rows) - i
		}
		out = append(out, rows[i:i+s])
		i += s
	}
	return out
}

// the value pool of A1: every dynamic type with a case in the compare* switches, values that
// tie, text that parses as a number, and types without a case
func c07Pool() []kvql.Column {
	return []kvql.Column{
		[]byte("a"), []byte("ab"), "a", "b", []byte(""), []byte("12"), "12", "2.5", []byte("true"), "true", "zz",
		int64(3), int64(-1), int(3), int32(12), uint64(7), int64(1 << 53), int64(1<<53 + 1),
		float64(2.5), float64(3), float32(12), float64(-1), math.Copysign(0, -1), float64(0), float64(1 << 53),
		math.Inf(1), math.NaN(), math.SmallestNonzeroFloat64, -math.SmallestNonzeroFloat64, math.MaxFloat64,
		true, false, nil, int8(3), map[string]any{"x": 1.0},
	}
}

func c07PartA(c *runCtx, e *emitter, r *rng) {
	// A1: ordered pairs of the pool, two rows [a; b], a tag column tells the rows apart
	pool := c07Pool()
	types := []kvql.Type{kvql.TSTR, kvql.TNUMBER, kvql.TBOOL, kvql.TJSON}
	for ti, tp := range types {
		for di, desc := range []bool{false, true} {
			for i, a := range pool {
				for j, b := range pool {
					if !c.thorough() && !c.search && (i+j+ti+di)%2 == 1 && i != j {
						continue // quick tier: half of the pairs per (type, direction), complementary halves
					}
					names := []string{"v", "tag"}
					tps := []kvql.Type{tp, kvql.TSTR}
					rows := [][]kvql.Column{{a, "r0"}, {b, "r1"}}
					c07RunNode(e, 2, names, tps, []c07Ord{{Name: "v", Desc: desc}}, [][][]kvql.Column{rows})
				}
			}
		}
	}
	// A2: tie patterns, 3 rows x 2 sort fields over a 2- or 3-valued key domain, all directions
	doms := map[string][]kvql.Column{
		"int":   {int64(0), int64(1), int64(2)},
		"text":  {[]byte("a"), []byte("ab"), []byte("b")},
		"float": {float64(-0.5), float64(0.25), float64(2)},
		"bool":  {false, true},
	}
	domType := map[string]kvql.Type{"int": kvql.TNUMBER, "text": kvql.TSTR, "float": kvql.TNUMBER, "bool": kvql.TBOOL}
	for _, k1 := range []string{"int", "text", "float", "bool"} {
		for _, k2 := range []string{"int", "text", "bool"} {
			d1, d2 := doms[k1], doms[k2]
			if !c.thorough() && !c.search {
				d1, d2 = d1[:2], d2[:2]
			}
			cells := [][2]kvql.Column{}
			for _, x := range d1 {
				for _, y := range d2 {
					cells = append(cells, [2]kvql.Column{x, y})
				}
			}
			n := len(cells)
			for a := 0; a < n; a++ {
				for b := 0; b < n; b++ {
					for cc := 0; cc < n; cc++ {
						if (c.thorough() || c.search) && n > 4 && (a+2*b+3*cc)%3 != 0 && !(a == b || b == cc) {
							continue // thorough: a third of the tie-free triples of the 9-cell domains
						}
						for dirs := 0; dirs < 4; dirs++ {
							if !c.thorough() && !c.search && (k1 != "int" || k2 != "int") && (a+b+cc+dirs)%2 == 1 {
								continue
							}
							rows := [][]kvql.Column{
								{cells[a][0], cells[a][1], "r0"}, {cells[b][0], cells[b][1], "r1"}, {cells[cc][0], cells[cc][1], "r2"}}
							c07RunNode(e, 2, []string{"x", "y", "tag"}, []kvql.Type{domType[k1], domType[k2], kvql.TSTR},
								[]c07Ord{{Name: "x", Desc: dirs&1 == 1}, {Name: "y", Desc: dirs&2 == 2}},
								c07Chunk(r, rows, 2, false))
						}
					}
				}
			}
		}
	}
	// A3: random rows
	nA3 := 500
	if c.thorough() {
		nA3 = 20000
	}
	if c.search {
		nA3 = 8000
	}
	colGens := []struct {
		tp  kvql.Type
		gen func() kvql.Column
	}{
		{kvql.TSTR, func() kvql.Column { return []byte(pick(r, []string{"", "a", "a", "ab", "b", "ba", "\x00", "\xff"})) }},
		{kvql.TSTR, func() kvql.Column { return pick(r, []string{"x", "x", "xy", "y"}) }},
		{kvql.TNUMBER, func() kvql.Column { return int64(r.intn(5) - 2) }},
		{kvql.TNUMBER, func() kvql.Column {
			return pick(r, []float64{-1.5, -1.5, 0, math.Copysign(0, -1), 0.25, 3, 1e300, math.Inf(-1), 5e-324, 2.2250738585072014e-308, -1e-310})
		}},
		{kvql.TBOOL, func() kvql.Column { return r.chance(1, 2) }},
		// mixed int / float (D16): small integers, exactly representable
		{kvql.TNUMBER, func() kvql.Column {
			if r.chance(1, 2) {
				return int64(r.intn(4))
			}
			return pick(r, []float64{0.5, 1, 2.5, 3})
		}},
		// text in a number column
		{kvql.TNUMBER, func() kvql.Column { return []byte(pick(r, []string{"1", "2", "10", "-3", "2.5", "1e1"})) }},
		// text in a Boolean column
		{kvql.TBOOL, func() kvql.Column { return pick(r, []string{"true", "false", "x"}) }},
		// anything
		{kvql.TSTR, func() kvql.Column { return pick(r, c07Pool()) }},
		{kvql.TNUMBER, func() kvql.Column { return pick(r, c07Pool()) }},
	}
	for it := 0; it < nA3; it++ {
		ncol := 2 + r.intn(3)
		names := make([]string, ncol+1)
		tps := make([]kvql.Type, ncol+1)
		gens := make([]func() kvql.Column, ncol)
		for j := 0; j < ncol; j++ {
			g := colGens[r.intn(5)] // homogeneous generators
			if r.chance(1, 4) {
				g = colGens[r.intn(len(colGens))]
			}
			names[j] = fmt.Sprintf("c%d", j)
			if j > 0 && r.chance(1, 12) {
				names[j] = names[j-1] // duplicate field name: the first one is the sort column
			}
			tps[j], gens[j] = g.tp, g.gen
		}
		names[ncol], tps[ncol] = "tag", kvql.TSTR
		n := r.intn(8)
		if r.chance(1, 10) {
			n = 8 + r.intn(30)
		}
		rows := make([][]kvql.Column, n)
		for i := range rows {
			rows[i] = make([]kvql.Column, ncol+1)
			for j := 0; j < ncol; j++ {
				rows[i][j] = gens[j]()
			}
			rows[i][ncol] = fmt.Sprintf("r%d", i)
		}
		nord := 1 + r.intn(3)
		ords := []c07Ord{}
		for k := 0; k < nord; k++ {
			ords = append(ords, c07Ord{Name: names[r.intn(ncol)], Desc: r.chance(1, 2)})
		}
		B := pick(r, []int{1, 2, 3, 5})
		c07RunNode(e, B, names, tps, ords, c07Chunk(r, rows, B, r.chance(1, 2)))
	}
}

// ---------------------------------------------------------------- part B: statements

type c07Item struct {
	sql   string // expression text
	alias string // "" = no alias
	name  string // field name the implementation gives it
	tp    kvql.Type
	aggr  bool
}

func c07ItemText(it c07Item) string {
	if it.alias != "" {
		return it.sql + " as " + it.alias
	}
	return it.sql
}

var c07Plain = []c07Item{
	{sql: "key", name: "KEY", tp: kvql.TSTR},
	{sql: "value", name: "VALUE", tp: kvql.TSTR},
	{sql: "upper(value)", alias: "u", name: "u", tp: kvql.TSTR},
	{sql: "lower(key)", alias: "lk", name: "lk", tp: kvql.TSTR},
	{sql: "substr(key, 0, 2)", alias: "p2", name: "p2", tp: kvql.TSTR},
	{sql: "int(value)", alias: "n", name: "n", tp: kvql.TNUMBER},
	{sql: "float(value)", alias: "f", name: "f", tp: kvql.TNUMBER},
	{sql: "int(value) * 2 - 3", alias: "m", name: "m", tp: kvql.TNUMBER},
	{sql: "float(value) / 4", alias: "q", name: "q", tp: kvql.TNUMBER},
	{sql: "strlen(value)", alias: "sl", name: "sl", tp: kvql.TNUMBER},
	{sql: "is_int(value)", alias: "isi", name: "isi", tp: kvql.TBOOL},
	{sql: "key > 'k04'", alias: "late", name: "late", tp: kvql.TBOOL},
	{sql: "value ^= '1'", alias: "one", name: "one", tp: kvql.TBOOL},
	// names that look like the keywords (written in back quotes they are ordinary field names):
	// a decision taken on the NAME of an order field instead of the field it resolves to shows here
	{sql: "upper(value)", alias: "`KEY`", name: "KEY", tp: kvql.TSTR},
	{sql: "int(value)", alias: "`VALUE`", name: "VALUE", tp: kvql.TNUMBER},
	{sql: "value", alias: "`key`", name: "key", tp: kvql.TSTR},
}

var c07Aggr = []c07Item{
	{sql: "count(1)", alias: "c", name: "c", tp: kvql.TNUMBER, aggr: true},
	{sql: "sum(int(value))", alias: "si", name: "si", tp: kvql.TNUMBER, aggr: true},
	{sql: "sum(float(value))", alias: "sf", name: "sf", tp: kvql.TNUMBER, aggr: true},
	{sql: "sum(value)", alias: "sv", name: "sv", tp: kvql.TNUMBER, aggr: true}, // int in one group, float in another (D16)
	{sql: "avg(int(value))", alias: "av", name: "av", tp: kvql.TNUMBER, aggr: true},
	{sql: "min(int(value))", alias: "mn", name: "mn", tp: kvql.TNUMBER, aggr: true},
	{sql: "max(float(value))", alias: "mx", name: "mx", tp: kvql.TNUMBER, aggr: true},
	{sql: "group_concat(value, ',')", alias: "gc", name: "gc", tp: kvql.TSTR, aggr: true},
}

var c07GroupKeys = []c07Item{
	{sql: "substr(key, 0, 2)", alias: "g", name: "g", tp: kvql.TSTR},
	{sql: "upper(value)", alias: "g", name: "g", tp: kvql.TSTR},
	{sql: "is_int(value)", alias: "g", name: "g", tp: kvql.TBOOL},
	{sql: "strlen(value)", alias: "g", name: "g", tp: kvql.TNUMBER},
	// numbers of different widths and signs (-30, -5, 20, 45, 70, 95, 120): their order is not the
	// order of their decimal texts
	{sql: "strlen(value) * 25 - 30", alias: "g", name: "g", tp: kvql.TNUMBER},
	{sql: "float(strlen(value)) * 2.5 - 3", alias: "g", name: "g", tp: kvql.TNUMBER},
}

var c07Values = []string{"3", "3", "10", "-1", "2.5", "0.75", "abc", "", "7", "007", "1e2", "-0", "b", "B", "10", "2.50"}

func c07Store(r *rng, n int, distinct int) [][2]string {
	kvs := [][2]string{}
	for i := 0; i < n; i++ {
		k := fmt.Sprintf("k%02d", i)
		if r.chance(1, 8) {
			k = fmt.Sprintf("K%02d", i)
		}
		kvs = append(kvs, [2]string{k, c07Values[r.intn(min(distinct, len(c07Values)))]})
	}
	sort.Slice(kvs, func(i, j int) bool { return kvs[i][0] < kvs[j][0] })
	return kvs
}

// the Gallina term of select-list expression j of the statement (what parseOrderBy stores
// in OrderField.Field), printed from the implementation's parse of the select list
func c07FieldExprs(q string) []string {
	defer func() { recover() }()
	st, err := kvql.NewParser(q).Parse()
	if err != nil {
		return nil
	}
	sel, ok := st.(*kvql.SelectStmt)
	if !ok {
		return nil
	}
	out := []string{}
	for _, f := range sel.Fields {
		t, ok := coqExpr(f)
		if !ok {
			t = "(EName 0 \"\")"
		}
		out = append(out, t)
	}
	return out
}

func c07RunStmt(e *emitter, kind int, items []c07Item, star bool, where string, groupBy string,
	ordIdx []int, ordDesc []int, useExprName bool, kvs [][2]string, B int) {
	// ordDesc: 0 nothing written (ascending), 1 "asc", 2 "desc"
	items = append([]c07Item{}, items...)
	if useExprName {
		// un-aliased expressions, named in ORDER BY by repeating the expression
		for i := range items {
			if items[i].alias != "" {
				items[i].alias = ""
			}
		}
	}
	sel := "*"
	if !star {
		p := make([]string, len(items))
		for i, it := range items {
			p[i] = c07ItemText(it)
		}
		sel = strings.Join(p, ", ")
	}
	base := "select " + sel + " where " + where
	if groupBy != "" {
		base += " group by " + groupBy
	}
	names := make([]string, len(items))
	types := make([]kvql.Type, len(items))
	for i, it := range items {
		names[i], types[i] = it.name, it.tp
	}
	// the field names are the implementation's own (they are only looked up, never compared)
	func() {
		defer func() { recover() }()
		if st, err := kvql.NewParser(base).Parse(); err == nil {
			if ss, ok := st.(*kvql.SelectStmt); ok && len(ss.FieldNames) == len(items) {
				names = append([]string{}, ss.FieldNames...)
			}
		}
	}()
	op := make([]string, len(ordIdx))
	ords := make([]c07Ord, len(ordIdx))
	for i, j := range ordIdx {
		w := items[j].alias
		switch {
		case w != "":
		case items[j].sql == "key" || items[j].sql == "value":
			w = items[j].sql
		default:
			w = items[j].sql // the expression repeated; it is looked up by its String() form
		}
		op[i] = w + []string{"", " asc", " desc"}[ordDesc[i]]
		ords[i] = c07Ord{Name: names[j], Desc: ordDesc[i] == 2}
	}
	q := base + " order by " + strings.Join(op, ", ")
	cs := &c07Case{kind: kind, query: q, unord: base, store: kvs, B: B, names: names, types: types,
		hasAggr: groupBy != "", hasRow: true, hasBat: true}
	cs.ords = c07Resolve(names, types, ords)
	// the expression an order name refers to is the first select item of that name
	if fe := c07FieldExprs(base); len(fe) == len(items) {
		for i := range cs.ords {
			if cs.ords[i].pos >= 0 {
				cs.ords[i].expr = fe[cs.ords[i].pos]
			}
		}
	}
	st := newStore(kvs)
	unR := runQuery(base, st.clone(), false, B, true)
	unB := runQuery(base, st.clone(), true, B, true)
	if unR.Err != nil || unB.Err != nil || unR.Panic != "" || unB.Panic != "" || !c07SameSeq(unR.Rows, unB.Rows) {
		// the statement without ORDER BY does not run, or its two modes disagree (C03's
		// business): nothing to compare the ordered statement with
		e.m.OutOfModel++
		e.count("unordered_statement_unusable")
		return
	}
	// child batches as batch mode delivered them
	i0 := 0
	for _, l := range unB.BatchLen {
		cs.chunks = append(cs.chunks, unB.Rows[i0:i0+l])
		i0 += l
	}
	for _, batch := range []bool{false, true} {
		res := runQuery(q, st.clone(), batch, B, true)
		if res.Err != nil {
			cs.errText = res.Err.Error()
		}
		if batch {
			cs.obsBat, cs.panicB = res.Rows, res.Panic
		} else {
			cs.obsRow, cs.panicR = res.Rows, res.Panic
		}
	}
	// plan shape (recorded in the distribution, not compared)
	func() {
		defer func() { recover() }()
		kvql.PlanBatchSize = B
		if plan, err := kvql.NewOptimizer(q).BuildPlan(st.clone()); err == nil {
			_, isOrder := plan.(*kvql.FinalOrderPlan)
			cs.elided = !isOrder
		}
	}()
	c07Emit(e, cs)
}

func c07PartB(c *runCtx, e *emitter, r *rng) {
	nPlain, nAggr := 500, 250
	if c.thorough() {
		nPlain, nAggr = 14000, 7000
	}
	if c.search {
		nPlain, nAggr = 6000, 3000
	}
	sizes := []int{0, 1, 2, 3, 4, 5, 6, 7, 9, 12}
	wheres := []string{"key ^= 'k'", "key ^= ''", "key >= 'k02'", "key ^= 'k' & value != 'abc'", "key in ('k01', 'k03', 'k00', 'k07', 'K02')"}
	// B1: order by key [asc] alone (elided) and its non-elided neighbours, exhaustively
	for _, n := range []int{0, 1, 5, 9} {
		kvs := c07Store(r, n, 8)
		for _, B := range []int{1, 2, 3} {
			for _, star := range []bool{true, false} {
				items := []c07Item{c07Plain[0], c07Plain[1]}
				if !star {
					items = []c07Item{{sql: "key", alias: "kk", name: "kk", tp: kvql.TSTR}, c07Plain[5]}
				}
				for _, d := range []int{0, 1} {
					c07RunStmt(e, 3, items, star, "key ^= ''", "", []int{0}, []int{d}, false, kvs, B)
				}
				c07RunStmt(e, 1, items, star, "key ^= ''", "", []int{0}, []int{2}, false, kvs, B)
				c07RunStmt(e, 1, items, star, "key ^= ''", "", []int{0, 1}, []int{1, 0}, false, kvs, B)
			}
		}
	}
	// B1b: a single ascending ORDER BY over a field NAMED like the key keyword
	for _, n := range []int{2, 5, 9, 40} {
		kvs := c07Store(r, n, 8)
		for _, B := range []int{1, 3, 32} {
			for _, ki := range []int{len(c07Plain) - 3, len(c07Plain) - 2, len(c07Plain) - 1} {
				items := []c07Item{c07Plain[ki], c07Plain[0]}
				for _, d := range []int{0, 1, 2} {
					c07RunStmt(e, 1, items, false, "key ^= ''", "", []int{0}, []int{d}, false, kvs, B)
				}
			}
		}
	}
	// B1c: order fields DEFINED IN TERMS OF other select fields (`u + '-' + key as uk`): the type of such a
	// field (text vs number decides how the column is compared) is known only once the names inside it
	// are resolved, whatever the moment the ORDER BY clause is parsed
	for _, n := range []int{5, 9, 40} {
		kvs := c07Store(r, n, 8)
		derived := []c07Item{
			{sql: "upper(value)", alias: "u", name: "u", tp: kvql.TSTR},
			{sql: "u + '-' + key", alias: "uk", name: "uk", tp: kvql.TSTR},
			{sql: "int(value)", alias: "n", name: "n", tp: kvql.TNUMBER},
			{sql: "n * 2 + strlen(u)", alias: "m2", name: "m2", tp: kvql.TNUMBER},
			{sql: "uk + u", alias: "uku", name: "uku", tp: kvql.TSTR},
			{sql: "key", name: "KEY", tp: kvql.TSTR},
		}
		for _, B := range []int{1, 3, 32} {
			for _, d := range []int{0, 1, 2} {
				c07RunStmt(e, 1, derived, false, "key ^= ''", "", []int{1}, []int{d}, false, kvs, B)
				c07RunStmt(e, 1, derived, false, "key ^= ''", "", []int{3, 1}, []int{d, 2 - d}, false, kvs, B)
				c07RunStmt(e, 1, derived, false, "key ^= ''", "", []int{4, 5}, []int{d, 1}, false, kvs, B)
				c07RunStmt(e, 1, derived, false, "key ^= ''", "", []int{0, 3, 5}, []int{2 - d, d, 0}, false, kvs, B)
			}
		}
	}
	// B2: plain selects
	for it := 0; it < nPlain; it++ {
		n := pick(r, sizes)
		B := pick(r, []int{1, 2, 3, 3, 5})
		if r.chance(1, 12) {
			B = 32
			n = pick(r, []int{31, 32, 33, 40, 65, 70})
		}
		kvs := c07Store(r, n, 3+r.intn(14))
		star := r.chance(1, 8)
		var items []c07Item
		if star {
			items = []c07Item{c07Plain[0], c07Plain[1]}
		} else {
			perm := []int{}
			for i := range c07Plain {
				perm = append(perm, i)
			}
			for i := len(perm) - 1; i > 0; i-- {
				j := r.intn(i + 1)
				perm[i], perm[j] = perm[j], perm[i]
			}
			k := 2 + r.intn(4)
			for _, i := range perm[:k] {
				items = append(items, c07Plain[i])
			}
		}
		nord := 1 + r.intn(min(3, len(items)))
		// distinct order fields, every asc/desc/default spelling equally likely
		idx := []int{}
		for len(idx) < nord {
			j := r.intn(len(items))
			dup := false
			for _, x := range idx {
				dup = dup || x == j
			}
			if !dup {
				idx = append(idx, j)
			}
		}
		desc := make([]int, nord)
		for i := range desc {
			desc[i] = r.intn(3)
		}
		if nord == 1 && items[idx[0]].sql == "key" && desc[0] != 2 {
			desc[0] = 2 // order by key asc alone is B1's subject
		}
		useExpr := !star && r.chance(1, 10)
		c07RunStmt(e, 1, items, star, pick(r, wheres), "", idx, desc, useExpr, kvs, B)
	}
	// B3: aggregates
	for it := 0; it < nAggr; it++ {
		n := pick(r, sizes)
		B := pick(r, []int{1, 2, 3, 5})
		kvs := c07Store(r, n, 3+r.intn(14))
		g := pick(r, c07GroupKeys)
		items := []c07Item{g}
		perm := []int{}
		for i := range c07Aggr {
			perm = append(perm, i)
		}
		for i := len(perm) - 1; i > 0; i-- {
			j := r.intn(i + 1)
			perm[i], perm[j] = perm[j], perm[i]
		}
		for _, i := range perm[:1+r.intn(3)] {
			items = append(items, c07Aggr[i])
		}
		nord := 1 + r.intn(min(3, len(items)))
		idx := []int{}
		for len(idx) < nord {
			j := r.intn(len(items))
			if len(idx) == 0 && r.chance(2, 3) {
				j = 1 + r.intn(len(items)-1) // an aggregate first, most of the time
			}
			dup := false
			for _, x := range idx {
				dup = dup || x == j
			}
			if !dup {
				idx = append(idx, j)
			}
		}
		desc := make([]int, nord)
		for i := range desc {
			desc[i] = r.intn(3)
		}
		c07RunStmt(e, 2, items, false, pick(r, wheres[:3]), "g", idx, desc, false, kvs, B)
	}
	// B3b: ORDER BY over the GROUP BY key itself, first and second position, both directions, for
	// every group key kind (the aggregate node hands its key columns on as rendered text)
	for gi, g := range c07GroupKeys {
		for _, n := range []int{5, 9, 12} {
			kvs := c07Store(r, n, 3+r.intn(14))
			for _, B := range []int{1, 3} {
				items := []c07Item{g, c07Aggr[gi%len(c07Aggr)], c07Aggr[(gi+3)%len(c07Aggr)]}
				for _, d := range []int{0, 2} {
					c07RunStmt(e, 2, items, false, "key ^= 'k'", "g", []int{0}, []int{d}, false, kvs, B)
					c07RunStmt(e, 2, items, false, "key ^= 'k'", "g", []int{1, 0}, []int{2 - d, d}, false, kvs, B)
				}
			}
		}
	}
	// B4: JSON fields (statically text): text values, and the number / string mix of D16
	js := [][2]string{{"j1", `{"x":"b","n":2}`}, {"j2", `{"x":"a","n":"s"}`}, {"j3", `{"x":"b","n":1.5}`}, {"j4", `{"x":"","n":"a"}`}}
	for _, B := range []int{1, 2, 3} {
		for d := 0; d < 3; d++ {
			items := []c07Item{c07Plain[0], {sql: "json(value)['x']", alias: "x", name: "x", tp: kvql.TSTR},
				{sql: "json(value)['n']", alias: "jn", name: "jn", tp: kvql.TSTR}}
			c07RunStmt(e, 1, items, false, "key ^= 'j'", "", []int{1, 0}, []int{d, 2}, false, js, B)
			c07RunStmt(e, 1, items, false, "key ^= 'j'", "", []int{2}, []int{d}, false, js, B)
			c07RunStmt(e, 1, items, false, "key ^= 'j'", "", []int{2, 1}, []int{d, 1}, false, js, B)
		}
	}
}

func runC07(c *runCtx) error {
	r := newRng(c.seed)
	e := newEmitter(c.out, "C07", "From Coq Require Import List String ZArith.\nFrom KV Require Import Base.Bytes Model.Ast Model.Order Corr.C07.\nImport ListNotations.\nOpen Scope string_scope.\nOpen Scope list_scope.\nDefinition bs (l : list nat) : string := Bytes.bs (map N.of_nat l).\n", 400)
	e.m.Rule = "node level: FinalOrderPlan over a scripted child (all ordered pairs of a 35-value pool of dynamic types x 4 declared types x asc/desc as two-row inputs; all tie patterns of 3 rows x 2 sort fields x 4 direction combinations per key kind; seeded random rows, 1..3 sort fields, homogeneous and mixed columns, duplicate names, random chunkings); statement level: SELECT ... ORDER BY over seeded stores with duplicate values (key, value, aliased text/number/Boolean expressions, aggregates with GROUP BY, JSON fields; 1..3 order fields; asc/desc/default), both modes, B in {1,2,3,5,32}, the statement without ORDER BY supplying the child rows; non-trivial = at least two rows with different sort keys; distinct = distinct Gallina case terms"
	c07PartA(c, e, r)
	c07PartB(c, e, r)
	e.m.Notes = append(e.m.Notes, "out_of_model counts inputs with more than 6 rows whose sort columns are not homogeneous (Less need not be an order there): panic-freedom and the permutation are still judged, the sort-key sequence is not compared")
	return e.flush()
}
