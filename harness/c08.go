package main

// C08: LIMIT returns exactly the requested slice.
//  part A  node level: LimitPlan / FinalLimitPlan over a scripted child that yields an
//          arbitrary chunking of rows 0..n-1 (exhaustive grid for small B).
//  part B  statement level: plain / ordered / aggregated SELECT and DELETE with LIMIT over a
//          real store; rows are identified by their index in the unlimited result and the
//          child's actual batch sizes are recorded by a pass-through recorder.

import (
	"fmt"
	"math"
	"strings"

	kvql "github.com/c4pt0r/kvql"
)

func init() { registry["C08"] = runC08 }

// scripted children --------------------------------------------------------------

type scriptPlan struct {
	chunks [][]int
	bi     int
	flat   []int
	ri     int
}

func newScriptPlan(chunks [][]int) *scriptPlan {
	p := &scriptPlan{chunks: chunks}
	for _, c := range chunks {
		p.flat = append(p.flat, c...)
	}
	return p
}
func idKey(i int) []byte { return []byte(fmt.Sprintf("r%05d", i)) }
func keyID(k []byte) int {
	var i int
	if _, err := fmt.Sscanf(string(k), "r%05d", &i); err != nil {
		return 99999
	}
	return i
}
func (p *scriptPlan) String() string    { return "script" }
func (p *scriptPlan) Explain() []string { return []string{"script"} }
func (p *scriptPlan) Init() error       { p.bi, p.ri = 0, 0; return nil }
func (p *scriptPlan) Next(ctx *kvql.ExecuteCtx) ([]byte, []byte, error) {
	if p.ri >= len(p.flat) {
		return nil, nil, nil
	}
	k := idKey(p.flat[p.ri])
	p.ri++
	return k, []byte("v"), nil
}
func (p *scriptPlan) Batch(ctx *kvql.ExecuteCtx) ([]kvql.KVPair, error) {
	if p.bi >= len(p.chunks) {
		return nil, nil
	}
	c := p.chunks[p.bi]
	p.bi++
	out := make([]kvql.KVPair, len(c))
	for i, id := range c {
		out[i] = kvql.KVPair{Key: idKey(id), Value: []byte("v")}
	}
	return out, nil
}

type scriptFinal struct{ p *scriptPlan }

func (f *scriptFinal) String() string             { return "scriptFinal" }
func (f *scriptFinal) Explain() []string          { return []string{"scriptFinal"} }
func (f *scriptFinal) Init() error                { return f.p.Init() }
func (f *scriptFinal) FieldNameList() []string    { return []string{"KEY"} }
func (f *scriptFinal) FieldTypeList() []kvql.Type { return []kvql.Type{kvql.TSTR} }
func (f *scriptFinal) Next(ctx *kvql.ExecuteCtx) ([]kvql.Column, error) {
	k, _, err := f.p.Next(ctx)
	if k == nil || err != nil {
		return nil, err
	}
	return []kvql.Column{k}, nil
}
func (f *scriptFinal) Batch(ctx *kvql.ExecuteCtx) ([][]kvql.Column, error) {
	kvs, err := f.p.Batch(ctx)
	if err != nil || len(kvs) == 0 {
		return nil, err
	}
	out := make([][]kvql.Column, len(kvs))
	for i, kv := range kvs {
		out[i] = []kvql.Column{kv.Key}
	}
	return out, nil
}

// pass-through recorders ---------------------------------------------------------

type recFinal struct {
	inner kvql.FinalPlan
	sizes []int
}

func (r *recFinal) String() string             { return r.inner.String() }
func (r *recFinal) Explain() []string          { return r.inner.Explain() }
func (r *recFinal) Init() error                { return r.inner.Init() }
func (r *recFinal) FieldNameList() []string    { return r.inner.FieldNameList() }
func (r *recFinal) FieldTypeList() []kvql.Type { return r.inner.FieldTypeList() }
func (r *recFinal) Next(ctx *kvql.ExecuteCtx) ([]kvql.Column, error) {
	return r.inner.Next(ctx)
}
func (r *recFinal) Batch(ctx *kvql.ExecuteCtx) ([][]kvql.Column, error) {
	rows, err := r.inner.Batch(ctx)
	if err == nil && len(rows) > 0 {
		r.sizes = append(r.sizes, len(rows))
	}
	return rows, err
}

type recPlan struct {
	inner kvql.Plan
	sizes []int
}

func (r *recPlan) String() string    { return r.inner.String() }
func (r *recPlan) Explain() []string { return r.inner.Explain() }
func (r *recPlan) Init() error       { return r.inner.Init() }
func (r *recPlan) Next(ctx *kvql.ExecuteCtx) ([]byte, []byte, error) {
	return r.inner.Next(ctx)
}
func (r *recPlan) Batch(ctx *kvql.ExecuteCtx) ([]kvql.KVPair, error) {
	rows, err := r.inner.Batch(ctx)
	if err == nil && len(rows) > 0 {
		r.sizes = append(r.sizes, len(rows))
	}
	return rows, err
}

// ---------------------------------------------------------------------------------

type c08Replay struct {
	Kind    string  `json:"kind"`
	Query   string  `json:"query,omitempty"`
	B       int     `json:"batch_size"`
	Start   int     `json:"start"`
	Count   int     `json:"count"`
	Chunks  [][]int `json:"child_batches"`
	ObsB    []int   `json:"observed_batch_mode,omitempty"`
	ObsR    []int   `json:"observed_row_mode,omitempty"`
	Want    []int   `json:"required_slice"`
	Store   int     `json:"store_size,omitempty"`
	PanicB  string  `json:"panic_batch,omitempty"`
	PanicR  string  `json:"panic_row,omitempty"`
	HasRow  bool    `json:"has_row_mode"`
	HasBat  bool    `json:"has_batch_mode"`
	ErrText string  `json:"error,omitempty"`
	// the number a DELETE reported (machine-integer twin, Corr/C08M.v)
	DelCount *int `json:"reported_deleted,omitempty"`
}

func sliceOf(flat []int, s, c int) []int {
	if s < 0 { // plan fields set directly (machine-integer cases): a negative offset skips nothing
		s = 0
	}
	if c < 0 { // ... and a negative count yields nothing
		c = 0
	}
	if s > len(flat) {
		s = len(flat)
	}
	r := flat[s:]
	if c < len(r) {
		r = r[:c]
	}
	return append([]int{}, r...)
}

func eqInts(a, b []int) bool {
	if len(a) != len(b) {
		return false
	}
	for i := range a {
		if a[i] != b[i] {
			return false
		}
	}
	return true
}

func optNatList(have bool, xs []int) string {
	if !have {
		return "None"
	}
	return "(Some " + coqNatList(xs) + ")"
}

func c08Emit(e *emitter, rp c08Replay) {
	flat := []int{}
	for _, c := range rp.Chunks {
		flat = append(flat, c...)
	}
	rp.Want = sliceOf(flat, rp.Start, rp.Count)
	kindN := map[string]int{"LimitPlan": 0, "FinalLimitPlan": 1, "select": 2, "ordered": 3, "aggregated": 4, "delete": 5,
		"aggregated-all": 6, "select-range": 7, "select-keys": 8, "delete-keys": 9, "select-alias": 10, "aggregated-ordered": 11, "aggregated-interleaved": 12}[rp.Kind]
	// offsets and counts beyond the end of the result are handed to the twin as len+1: the
	// slice is the same one (Properties/C08.v: slice_saturates), and a nat numeral near 2^63
	// cannot be written down
	mStart, mCount := min(rp.Start, len(flat)+1), min(rp.Count, len(flat)+1)
	if mStart != rp.Start || mCount != rp.Count {
		e.count("offset_or_count_clamped_for_twin")
	}
	if rp.Start > 1<<40 || rp.Count > 1<<40 {
		e.count("huge_offset_or_count")
	}
	term := fmt.Sprintf("Case %d %d %d %d %s %s %s", kindN, rp.B, mStart, mCount,
		coqNatListList(rp.Chunks), optNatList(rp.HasBat, rp.ObsB), optNatList(rp.HasRow, rp.ObsR))
	nontrivial := len(flat) > 0 && (rp.Start > 0 || rp.Count < len(flat))
	var idx int
	if c08OnlyM {
		idx = c08AddM(e, rp, kindN, nontrivial) // extreme grid: the machine-integer twin only
	} else {
		idx = e.add(term, rp, nontrivial)
		c08AddM(e, rp, kindN, false) // the same case through the machine-integer twin, unclamped
	}
	e.count("kind=" + rp.Kind)
	e.count(fmt.Sprintf("B=%d", rp.B))
	switch {
	case rp.Start == 0:
		e.count("start=0")
	case rp.B > 0 && rp.Start%rp.B == 0:
		e.count("start=multiple_of_B")
	default:
		e.count("start=other")
	}
	if rp.Start > len(flat) || rp.Count > len(flat)-rp.Start {
		e.count("slice_beyond_end")
	}
	bad := ""
	if rp.PanicB != "" || rp.PanicR != "" {
		bad = "panic: " + rp.PanicB + rp.PanicR
	} else if rp.ErrText != "" {
		bad = "error: " + rp.ErrText
	} else if rp.HasBat && !eqInts(rp.ObsB, rp.Want) {
		bad = "batch mode returned a different slice"
	} else if rp.HasRow && !eqInts(rp.ObsR, rp.Want) {
		bad = "row mode returned a different slice"
	}
	if bad != "" {
		e.fail(idx, bad, fmt.Sprintf("C08/%s", rp.Kind), rp)
	}
}

// chunkings of n rows: uniform chunks of size B (what the scans produce), one big chunk,
// singletons, and a few seeded random compositions
func chunkings(r *rng, n, B, extra int) [][][]int {
	mk := func(sizes []int) [][]int {
		out := [][]int{}
		id := 0
		for _, s := range sizes {
			c := []int{}
			for j := 0; j < s; j++ {
				c = append(c, id)
				id++
			}
			out = append(out, c)
		}
		return out
	}
	var res [][][]int
	uni := []int{}
	for left := n; left > 0; left -= B {
		if left >= B {
			uni = append(uni, B)
		} else {
			uni = append(uni, left)
		}
	}
	res = append(res, mk(uni))
	if n > 0 && n != B {
		res = append(res, mk([]int{n}))
	}
	if n > 1 && B != 1 {
		ones := make([]int, n)
		for i := range ones {
			ones[i] = 1
		}
		res = append(res, mk(ones))
	}
	for k := 0; k < extra && n > 1; k++ {
		sizes := []int{}
		for left := n; left > 0; {
			s := 1 + r.intn(min(left, 2*B+1))
			sizes = append(sizes, s)
			left -= s
		}
		res = append(res, mk(sizes))
	}
	return res
}

func runNode(final bool, B, s, c int, chunks [][]int) c08Replay {
	kvql.PlanBatchSize = B
	rp := c08Replay{B: B, Start: s, Count: c, Chunks: chunks, HasRow: true, HasBat: true}
	for _, batch := range []bool{true, false} {
		var ids []int
		var pn string
		func() {
			defer func() {
				if r := recover(); r != nil {
					pn = fmt.Sprint(r)
				}
			}()
			ctx := kvql.NewExecuteCtx()
			if final {
				rp.Kind = "FinalLimitPlan"
				p := &kvql.FinalLimitPlan{Start: s, Count: c, ChildPlan: &scriptFinal{newScriptPlan(chunks)}}
				p.Init()
				res := drainPlan(p, batch, runResult{})
				pn = res.Panic
				if res.Err != nil {
					rp.ErrText = res.Err.Error()
				}
				for _, row := range res.Rows {
					if b, ok := row[0].([]byte); ok {
						ids = append(ids, keyID(b))
					} else {
						ids = append(ids, 99998)
					}
				}
			} else {
				rp.Kind = "LimitPlan"
				p := &kvql.LimitPlan{Start: s, Count: c, ChildPlan: newScriptPlan(chunks)}
				p.Init()
				for i := 0; i < maxPolls; i++ {
					if batch {
						rows, err := p.Batch(ctx)
						if err != nil {
							rp.ErrText = err.Error()
						}
						if len(rows) == 0 {
							break
						}
						for _, kv := range rows {
							ids = append(ids, keyID(kv.Key))
						}
					} else {
						k, _, err := p.Next(ctx)
						if err != nil {
							rp.ErrText = err.Error()
						}
						if k == nil {
							break
						}
						ids = append(ids, keyID(k))
					}
				}
			}
		}()
		if batch {
			rp.ObsB, rp.PanicB = ids, pn
		} else {
			rp.ObsR, rp.PanicR = ids, pn
		}
	}
	return rp
}

func c08Store(n int) *refStore {
	kvs := [][2]string{}
	for i := 0; i < n; i++ {
		// values: distinct, so that ORDER BY value has no ties; two groups per value prefix
		kvs = append(kvs, [2]string{fmt.Sprintf("k%03d", i), fmt.Sprintf("%03d", (i*7)%n+1000)})
	}
	return newStore(kvs)
}

// statement-level case: unlimited statement first, then the limited one in both modes
func runStmtCase(e *emitter, kind string, n, B, s, c int) {
	var base, lim string
	switch kind {
	case "select":
		base = "select * where key ^= 'k'"
	case "ordered":
		base = "select key, value where key ^= 'k' order by value desc"
	case "aggregated":
		base = "select key, count(1) where key ^= 'k' group by key"
	case "delete":
		base = "select * where key ^= 'k'"
	case "select-alias":
		// explicit fields, an alias used in WHERE (the scan's filter fills the field cache that
		// the projection reads): rows are compared by content, so a column of another row shows
		base = "select key, int(value) as v, v + 1 as w where v >= 0 & key ^= 'k'"
	case "aggregated-ordered":
		// ORDER BY above the aggregate: the limit must NOT be pushed into the aggregate node
		base = "select key, count(1) as c, sum(int(value)) as sm where key ^= 'k' group by key order by key desc"
	case "aggregated-interleaved":
		// groups whose pairs INTERLEAVE in key order (grouped by the value's last digit): the limit
		// pushed into the aggregate node cuts the GROUPS, not the scan
		base = "select substr(value, 3, 4) as g, count(1) as c, sum(int(value)) as sm, group_concat(key, ',') as ks where key ^= 'k' group by g"
	case "aggregated-all":
		// one row for all pairs: the limit is pushed down into AggregatePlan
		base = "select count(1), sum(int(value)) where key ^= 'k'"
	case "select-range":
		base = "select * where key >= 'k' & key < 'l' & value != 'zz'"
	case "select-keys", "delete-keys":
		// point reads: the limit sits on top of a MultiGetPlan (and, for DELETE, must keep
		// the planner from turning the statement into a blind RemovePlan)
		ks := []string{}
		for i := 0; i < n+1; i++ {
			ks = append(ks, fmt.Sprintf("'k%03d'", i))
		}
		base = "select * where key in (" + strings.Join(ks, ", ") + ")"
	}
	// a fifth of the statements write offset and count ZERO-PADDED (010 is ten)
	numFmt := "%d"
	if (n+2*s+3*c+B)%5 == 0 && s < 1<<40 && c < 1<<40 {
		numFmt = "%03d"
	}
	lim = fmt.Sprintf("%s limit "+numFmt+", "+numFmt, base, s, c)
	if kind == "delete" {
		lim = fmt.Sprintf("delete where key ^= 'k' limit "+numFmt+", "+numFmt, s, c)
	}
	if kind == "delete-keys" {
		lim = "delete" + strings.TrimPrefix(base, "select *") + fmt.Sprintf(" limit "+numFmt+", "+numFmt, s, c)
	}
	st := c08Store(n)
	un := runQuery(base, st.clone(), true, B, true)
	if un.Err != nil || un.Panic != "" {
		rp := c08Replay{Kind: kind, Query: base, B: B, Start: s, Count: c, Store: n, ErrText: fmt.Sprint(un.Err, un.Panic)}
		c08Emit(e, rp)
		return
	}
	index := map[string]int{}
	for i, r := range canonRows(un.Rows) {
		index[r] = i
	}
	keyIndex := map[string]int{}
	for i, r := range un.Rows {
		if b, ok := r[0].([]byte); ok {
			keyIndex[string(b)] = i
		}
	}
	rp := c08Replay{Kind: kind, Query: lim, B: B, Start: s, Count: c, Store: n}
	for _, batch := range []bool{true, false} {
		if (kind == "delete" || kind == "delete-keys") && !batch {
			continue // DeletePlan always drains its child in batches
		}
		st2 := st.clone()
		kvql.PlanBatchSize = B
		kvql.EnableFieldCache = true
		var ids []int
		var sizes []int
		var pn string
		var errText string
		func() {
			defer func() {
				if r := recover(); r != nil {
					pn = fmt.Sprint(r)
				}
			}()
			plan, err := kvql.NewOptimizer(lim).BuildPlan(st2)
			if err != nil {
				errText = err.Error()
				return
			}
			var recF *recFinal
			var recP *recPlan
			switch p := plan.(type) {
			case *kvql.FinalLimitPlan:
				recF = &recFinal{inner: p.ChildPlan}
				p.ChildPlan = recF
			case *kvql.DeletePlan:
				if lp, ok := p.ChildPlan.(*kvql.LimitPlan); ok {
					recP = &recPlan{inner: lp.ChildPlan}
					lp.ChildPlan = recP
				}
			}
			res := drainPlan(plan, batch, runResult{})
			pn = res.Panic
			if res.Err != nil {
				errText = res.Err.Error()
			}
			if kind == "delete" || kind == "delete-keys" {
				if len(res.Rows) == 1 && len(res.Rows[0]) == 1 {
					if n, ok := res.Rows[0][0].(int); ok {
						rp.DelCount = &n
					}
				}
				for _, cl := range st2.log {
					if cl.Op == "BatchDelete" {
						for _, k := range cl.Ks {
							if i, ok := keyIndex[string(k)]; ok {
								ids = append(ids, i)
							} else {
								ids = append(ids, 99997)
							}
						}
					} else if cl.Op == "Delete" {
						if i, ok := keyIndex[cl.Key]; ok {
							ids = append(ids, i)
						} else {
							ids = append(ids, 99997)
						}
					}
				}
			} else {
				for _, r := range canonRows(res.Rows) {
					if i, ok := index[r]; ok {
						ids = append(ids, i)
					} else {
						ids = append(ids, 99996)
					}
				}
			}
			if recF != nil {
				sizes = recF.sizes
			}
			if recP != nil {
				sizes = recP.sizes
			}
		}()
		if batch {
			rp.HasBat, rp.ObsB, rp.PanicB = true, ids, pn
			// chunking seen by the limit logic in batch mode
			total := len(un.Rows)
			if kind == "aggregated" || kind == "aggregated-all" || kind == "aggregated-interleaved" {
				// AggregatePlan serves its prepared group rows in chunks of B
				sizes = nil
				for left := total; left > 0; left -= B {
					sizes = append(sizes, min(left, B))
				}
			} else {
				// the recorder saw only the batches pulled before the limit was reached;
				// complete it with the rest of the unlimited result in chunks of B
				seen := 0
				for _, x := range sizes {
					seen += x
				}
				for left := total - seen; left > 0; left -= B {
					sizes = append(sizes, min(left, B))
				}
			}
			id := 0
			for _, x := range sizes {
				ch := []int{}
				for j := 0; j < x; j++ {
					ch = append(ch, id)
					id++
				}
				rp.Chunks = append(rp.Chunks, ch)
			}
		} else {
			rp.HasRow, rp.ObsR, rp.PanicR = true, ids, pn
		}
		if errText != "" {
			rp.ErrText = errText
		}
	}
	c08Emit(e, rp)
}

func boundary(B int, top bool) []int {
	xs := []int{0, 1, B - 1, B, B + 1, 2*B - 1, 2 * B, 2*B + 1}
	if top {
		xs = []int{0, 1, B - 1, B, B + 1, 2 * B, 2*B + 1, 3*B + 1}
	}
	seen := map[int]bool{}
	out := []int{}
	for _, x := range xs {
		if x >= 0 && !seen[x] {
			seen[x] = true
			out = append(out, x)
		}
	}
	return out
}

func runC08(c *runCtx) error {
	r := newRng(c.seed)
	e := newEmitter(c.out, "C08", "From Coq Require Import List String ZArith.\nFrom KV Require Import Base.Bytes Corr.C08M Corr.C08.\nImport ListNotations.\nOpen Scope string_scope.\nNotation case := xcase (only parsing).\nNotation mismatches := xmismatches (only parsing).\nNotation Case := XCase (only parsing).\n", 1500)
	e.m.Rule = "node level: (B, start, count, chunking of rows 0..n-1) grid; statement level: (kind, store size, B, start, count); non-trivial = non-empty unlimited result and the slice is a proper part of it (start>0 or count<n); distinct = distinct Gallina case terms"
	// part A: node level, exhaustive grid for small B
	Bs := []int{1, 2, 3}
	extra := 1
	if c.thorough() || c.search {
		Bs = []int{1, 2, 3, 4}
		extra = 3
	}
	for _, B := range Bs {
		for n := 0; n <= 3*B+1; n++ {
			for _, ch := range chunkings(r, n, B, extra) {
				for s := 0; s <= 2*B+2; s++ {
					for cnt := 0; cnt <= 2*B+2; cnt++ {
						for _, final := range []bool{false, true} {
							if final && !c.thorough() && (s+cnt+n)%3 != 0 {
								continue // quick tier: FinalLimitPlan on a third of the grid
							}
							c08Emit(e, runNode(final, B, s, cnt, ch))
						}
					}
				}
			}
		}
	}
	// B = 32 boundary grid, node level
	{
		B := 32
		for _, n := range boundary(B, true) {
			for _, s := range boundary(B, false) {
				for _, cnt := range boundary(B, false) {
					chs := chunkings(r, n, B, 1)
					c08Emit(e, runNode(false, B, s, cnt, chs[0]))
					if c.thorough() {
						for _, ch := range chs[1:] {
							c08Emit(e, runNode(true, B, s, cnt, ch))
						}
					}
				}
			}
		}
	}
	// huge offsets and counts (`limit s, 9223372036854775807` = everything after the first s
	// rows): any arithmetic on offset+count in the machine's int wraps there
	huge := []int{math.MaxInt64, math.MaxInt64 - 1, 1 << 62, 1<<63 - 32, 1 << 32}
	for _, B := range []int{1, 2, 3, 32} {
		for _, n := range []int{0, 1, B + 1, 2*B + 1} {
			chs := chunkings(r, n, B, 1)
			for _, hv := range huge {
				for _, sm := range []int{0, 1, 2, B, B + 1} {
					for _, final := range []bool{false, true} {
						c08Emit(e, runNode(final, B, sm, hv, chs[0]))
						c08Emit(e, runNode(final, B, hv, sm, chs[0]))
					}
				}
				c08Emit(e, runNode(false, B, hv, hv, chs[0]))
			}
		}
	}
	for _, kind := range []string{"select", "ordered", "aggregated", "delete", "aggregated-all", "select-range", "select-keys", "delete-keys"} {
		for _, B := range []int{2, 32} {
			for _, n := range []int{0, 3, B + 2, 2*B + 1} {
				for _, hv := range huge[:3] {
					for _, sm := range []int{0, 1, 2, B} {
						runStmtCase(e, kind, n, B, sm, hv)
					}
					runStmtCase(e, kind, n, B, hv, 2)
				}
			}
		}
	}
	// part B: statements
	kinds := []string{"select", "ordered", "aggregated", "delete", "aggregated-all", "select-range", "select-keys", "delete-keys", "select-alias", "aggregated-ordered", "aggregated-interleaved"}
	for _, kind := range kinds {
		for _, B := range []int{1, 2, 3} {
			ns := []int{0, 1, B, B + 1, 2 * B, 3*B + 1}
			ss := []int{0, 1, B, B + 1, 2 * B}
			cs := []int{0, 1, B, B + 1, 2*B + 2}
			if c.thorough() {
				ns, ss, cs = nil, nil, nil
				for i := 0; i <= 3*B+1; i++ {
					ns = append(ns, i)
				}
				for i := 0; i <= 2*B+2; i++ {
					ss = append(ss, i)
					cs = append(cs, i)
				}
			}
			done := map[[3]int]bool{}
			for _, n := range ns {
				for _, s := range ss {
					for _, cnt := range cs {
						if done[[3]int{n, s, cnt}] {
							continue
						}
						done[[3]int{n, s, cnt}] = true
						runStmtCase(e, kind, n, B, s, cnt)
					}
				}
			}
		}
		B := 32
		for _, n := range []int{0, 31, 32, 33, 64, 65, 97} {
			for _, s := range []int{0, 1, 31, 32, 33, 64} {
				for _, cnt := range []int{1, 32, 33, 65} {
					if !c.thorough() && (n+s+cnt)%2 == 1 {
						continue
					}
					runStmtCase(e, kind, n, B, s, cnt)
				}
			}
		}
	}
	// machine integers: extreme grid through Model/Limit64.v, LIMIT numerals through the parser twin
	runC08Machine(c, e, r)
	e.m.Exhaustive = true
	return e.flush()
}
