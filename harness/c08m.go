package main

// C08, machine integers (Corr/C08M.v, Model/Limit64.v).
//  - every case of c08.go is ALSO handed to the machine-integer twin with its offset and count as
//    they are (c08AddM; nothing clamped);
//  - part M: the extreme grid s, n in {0,1,B-1,B,B+1, 2^31-1, 2^31, 2^32, 2^62, 2^63-2, 2^63-1}
//    x result sizes x B x {LimitPlan, FinalLimitPlan, plain / ordered / aggregated SELECT, DELETE}
//    x modes (machine twin only: the unary twin cannot take these numbers);
//  - part P: LIMIT numerals (leading zeros, 2^31, 2^32, 2^63-1, 2^63, 2^64, 23 digits, signs, floats,
//    missing / extra parameters) through NewOptimizer(q).BuildPlan: the SyntaxError position or the
//    Start / Count (Start / Limit) fields of the limit node in the plan, against the lexer + parser
//    twins.

import (
	"errors"
	"fmt"
	"math"

	kvql "github.com/c4pt0r/kvql"
)

// set while part M runs: c08Emit then emits the machine case only
var c08OnlyM bool

func coqZ(x int) string { return fmt.Sprintf("(%d)%%Z", x) }

type c08MReplay struct {
	Machine bool      `json:"machine_integer_twin"`
	Case    c08Replay `json:"case"`
}

func c08AddM(e *emitter, rp c08Replay, kindN int, nontrivial bool) int {
	del := "None"
	if rp.DelCount != nil {
		del = "(Some " + coqZ(*rp.DelCount) + ")"
	}
	term := fmt.Sprintf("CaseM (MCase %d %s %s %s %s %s %s %s)", kindN, coqZ(rp.B), coqZ(rp.Start), coqZ(rp.Count),
		coqNatListList(rp.Chunks), optNatList(rp.HasBat, rp.ObsB), optNatList(rp.HasRow, rp.ObsR), del)
	e.count("machine_twin_cases")
	if rp.Start >= 1<<31 || rp.Count >= 1<<31 {
		e.count("machine_twin_offset_or_count>=2^31")
	}
	if rp.Start < 0 || rp.Count < 0 {
		e.count("machine_twin_negative_offset_or_count")
	}
	return e.add(term, c08MReplay{true, rp}, nontrivial)
}

func extremeValues(B int) []int {
	xs := []int{0, 1, B - 1, B, B + 1, math.MaxInt32, 1 << 31, 1 << 32, 1 << 62, math.MaxInt64 - 1, math.MaxInt64}
	seen := map[int]bool{}
	out := []int{}
	for _, x := range xs {
		if x >= 0 && !seen[x] {
			seen[x] = true
			out = append(out, x)
		}
	}
	return out
}

type c08PReplay struct {
	Kind     string `json:"kind"`
	Query    string `json:"query"`
	Observed string `json:"observed"`
}

// what BuildPlan says about a statement text with a LIMIT clause
func c08PlanLimit(q string) (term string, bad string, oom bool) {
	defer func() {
		if r := recover(); r != nil {
			term, bad = "PObsNone", "panic: "+fmt.Sprint(r)
		}
	}()
	st := c08Store(3)
	plan, err := kvql.NewOptimizer(q).BuildPlan(st)
	if err != nil {
		var se *kvql.SyntaxError
		if errors.As(err, &se) {
			return fmt.Sprintf("(PObsErr %s)", coqZ(se.Pos)), "", false
		}
		return "PObsNone", "", true
	}
	findAgg := func(p kvql.FinalPlan) *kvql.AggregatePlan {
		if op, ok := p.(*kvql.FinalOrderPlan); ok {
			p = op.ChildPlan
		}
		if ap, ok := p.(*kvql.AggregatePlan); ok {
			return ap
		}
		return nil
	}
	neg := func(a, b int) string {
		if a < 0 || b < 0 {
			return "a LIMIT clause was accepted with a negative offset or count"
		}
		return ""
	}
	switch p := plan.(type) {
	case *kvql.FinalLimitPlan:
		if ap := findAgg(p.ChildPlan); ap != nil {
			return fmt.Sprintf("(PObsAgg %s %s (Some (%s, %s)))", coqZ(ap.Start), coqZ(ap.Limit), coqZ(p.Start), coqZ(p.Count)), neg(p.Start, p.Count), false
		}
		return fmt.Sprintf("(PObsLimit %s %s)", coqZ(p.Start), coqZ(p.Count)), neg(p.Start, p.Count), false
	case *kvql.DeletePlan:
		if lp, ok := p.ChildPlan.(*kvql.LimitPlan); ok {
			return fmt.Sprintf("(PObsLimit %s %s)", coqZ(lp.Start), coqZ(lp.Count)), neg(lp.Start, lp.Count), false
		}
		return "PObsNone", "", false
	default:
		if ap := findAgg(plan); ap != nil {
			bad := ""
			if ap.Limit >= 0 {
				bad = neg(ap.Start, ap.Limit)
			}
			return fmt.Sprintf("(PObsAgg %s %s None)", coqZ(ap.Start), coqZ(ap.Limit)), bad, false
		}
		return "PObsNone", "", false
	}
}

func runC08Machine(c *runCtx, e *emitter, r *rng) {
	// part M: the extreme grid
	c08OnlyM = true
	Bs := []int{1, 2, 32}
	if c.thorough() || c.search {
		Bs = []int{1, 2, 3, 4, 32}
	}
	for _, B := range Bs {
		vals := extremeValues(B)
		for _, n := range []int{0, 1, B + 1, 2*B + 1} {
			chs := chunkings(r, n, B, 1)
			for _, s := range vals {
				for _, cnt := range vals {
					if s < 1<<31 && cnt < 1<<31 && !c.thorough() {
						continue // the small corner is the exhaustive grid of parts A and B
					}
					c08Emit(e, runNode(false, B, s, cnt, chs[0]))
					c08Emit(e, runNode(true, B, s, cnt, chs[len(chs)-1]))
					for _, kind := range []string{"select", "ordered", "aggregated", "delete"} {
						runStmtCase(e, kind, n, B, s, cnt)
					}
					if (s == math.MaxInt64 || cnt == math.MaxInt64) && B != 1 {
						for _, kind := range []string{"aggregated-all", "delete-keys", "aggregated-ordered", "aggregated-interleaved"} {
							runStmtCase(e, kind, n, B, s, cnt)
						}
					}
				}
			}
		}
	}
	// negative Start / Count (the plan fields are public; the parser cannot produce them)
	for _, B := range []int{1, 2, 32} {
		for _, n := range []int{0, 1, B + 1, 2*B + 1} {
			chs := chunkings(r, n, B, 1)
			negs := []int{-1, -2, -B, math.MinInt64 + 1, math.MinInt64}
			others := []int{0, 1, B, math.MaxInt64}
			for _, ng := range negs {
				for _, o := range append(others, negs...) {
					for _, final := range []bool{false, true} {
						c08Emit(e, runNode(final, B, ng, o, chs[0]))
						c08Emit(e, runNode(final, B, o, ng, chs[len(chs)-1]))
					}
				}
			}
		}
	}
	c08OnlyM = false

	// part P: the LIMIT numerals
	nums := []string{"0", "1", "2", "007", "2147483647", "2147483648", "4294967296", "4611686018427387904",
		"9223372036854775806", "9223372036854775807", "09223372036854775807", "9223372036854775808",
		"18446744073709551615", "18446744073709551616", "18446744073709551617", "99999999999999999999999",
		"-1", "+1", "- 1", "1.0", "1e3", ".5", "1.", "'1'", "key", "(1)", "1+1"}
	type shape struct {
		kind       string
		base       string
		agg, order bool
	}
	shapes := []shape{
		{"select", "select * where key ^= 'k'", false, false},
		{"ordered", "select key, value where key ^= 'k' order by value desc", false, true},
		{"aggregated", "select key, count(1) where key ^= 'k' group by key", true, false},
		{"aggregated-ordered", "select key, count(1) as c where key ^= 'k' group by key order by key desc", true, true},
		{"aggregated-all", "select count(1) where key ^= 'k'", true, false},
		{"delete", "delete where key ^= 'k'", false, false},
	}
	emitP := func(sh shape, tail string) {
		q := sh.base + tail
		obs, bad, oom := c08PlanLimit(q)
		if oom {
			e.m.OutOfModel++
			e.count("numeral_case_not_a_syntax_error")
			return
		}
		term := fmt.Sprintf("CaseP (PCase %s %s %s %s)", coqStr(q), coqBool(sh.agg), coqBool(sh.order), obs)
		rp := c08PReplay{Kind: "limit-numerals/" + sh.kind, Query: q, Observed: obs}
		idx := e.add(term, rp, true)
		e.count("kind=limit-numerals")
		if len(obs) > 8 && obs[:8] == "(PObsErr" {
			e.count("limit-numerals: rejected")
		} else {
			e.count("limit-numerals: accepted")
		}
		if bad != "" {
			e.fail(idx, bad, "C08/limit-numerals", rp)
		}
	}
	for _, sh := range shapes {
		emitP(sh, "")
		emitP(sh, " limit")
		emitP(sh, " limit ,")
		emitP(sh, " limit 1 2")
		emitP(sh, " limit 1, 2, 3")
		emitP(sh, " limit 1, 2,")
		emitP(sh, " limit 1,, 2")
		emitP(sh, " limit 1 limit 2")
		emitP(sh, " limit 1;")
		emitP(sh, " LIMIT 2 , 3 ;;")
		for _, a := range nums {
			emitP(sh, " limit "+a)
			emitP(sh, " limit "+a+",")
			emitP(sh, " limit , "+a)
			bsel := []string{"0", "1", "9223372036854775807", "9223372036854775808", "-1"}
			if c.thorough() {
				bsel = nums
			}
			for _, b := range bsel {
				emitP(sh, " limit "+a+", "+b)
			}
			emitP(sh, " limit "+a+","+a)
			emitP(sh, " limit "+a+" "+a)
		}
	}
}
