package main

// C09: GROUP BY partitions by value tuples and aggregates equal their definitions.
//
//  part A  node level: a real kvql.AggregatePlan over a scripted child (rows 0..n-1 in an
//          arbitrary chunking) whose GROUP BY expressions, non-aggregate fields and aggregate
//          arguments are scripted expressions returning chosen typed values per row.  The
//          tuples are chosen so that their renderings collide under plain concatenation
//          (exhaustive over short sequences of a colliding pool, seeded random beyond).
//  part B  statement level: real statements (parser, optimizer, scan, filter) over a store;
//          the oracle values of every scanned pair come from running
//          `select key, <group exprs>, <fields>, <aggregate args> where P` on the implementation.
//
// The Coq side (Corr/C09.v) evaluates the twin on the same oracle values and judges the
// implementation's rows against Spec/Group.v.  The Go side reports panics, row/batch
// differences and rejected statements directly.

import (
	"encoding/json"
	"fmt"
	"math"
	"regexp"
	"strconv"
	"strings"

	kvql "github.com/c4pt0r/kvql"
)

func init() { registry["C09"] = runC09 }

// ---------------------------------------------------------------- values

type c09Val struct {
	K string // b bytes, s string, i int, f float, t true, x false, n nil, ? unknown, ! the evaluation fails
	S string
	I int64
	F float64
}

// replay files show a value as "bytes:ab", "string:ab", "int:5", "float:2.5", "true", "false", "nil"
func (v c09Val) MarshalJSON() ([]byte, error) {
	t := ""
	switch v.K {
	case "b":
		t = "bytes:" + v.S
	case "s":
		t = "string:" + v.S
	case "i":
		t = fmt.Sprintf("int:%d", v.I)
	case "f":
		t = "float:" + strconv.FormatFloat(v.F, 'g', -1, 64)
	case "t":
		t = "true"
	case "x":
		t = "false"
	case "n":
		t = "nil"
	case "!":
		t = "evaluation fails"
	default:
		t = "unknown:" + v.S
	}
	return json.Marshal(t)
}

func c09B(s string) c09Val  { return c09Val{K: "b", S: s} }
func c09S(s string) c09Val  { return c09Val{K: "s", S: s} }
func c09I(i int64) c09Val   { return c09Val{K: "i", I: i} }
func c09F(f float64) c09Val { return c09Val{K: "f", F: f} }
func c09Bool(b bool) c09Val {
	if b {
		return c09Val{K: "t"}
	}
	return c09Val{K: "x"}
}

func c09FromAny(v any) c09Val {
	switch x := v.(type) {
	case nil:
		return c09Val{K: "n"}
	case []byte:
		return c09B(string(x))
	case string:
		return c09S(x)
	case int64:
		return c09I(x)
	case int:
		return c09I(int64(x))
	case float64:
		return c09F(x)
	case bool:
		return c09Bool(x)
	}
	return c09Val{K: "?", S: fmt.Sprintf("%T:%v", v, v)}
}

// c09Fail is the scripted value of an evaluation that fails (c09TblExpr.Execute returns an error)
type c09Fail struct{}

var c09Bad = c09Val{K: "!"}

// lcoq: the OUTCOME of an evaluation (a value, or "fails") for an LCase
func (v c09Val) lcoq() string {
	if v.K == "!" {
		return "er"
	}
	return "ok (" + v.coq() + ")"
}

func c09LVals(vs []c09Val) string {
	p := make([]string, len(vs))
	for i, v := range vs {
		p[i] = v.lcoq()
	}
	return coqList(p)
}

func (v c09Val) any() any {
	switch v.K {
	case "!":
		return c09Fail{}
	case "b":
		return []byte(v.S)
	case "s":
		return v.S
	case "i":
		return v.I
	case "f":
		return v.F
	case "t":
		return true
	case "x":
		return false
	}
	return nil
}

func (v c09Val) coq() string {
	switch v.K {
	case "b":
		return "vB " + coqStr(v.S)
	case "s":
		return "vS " + coqStr(v.S)
	case "i":
		if v.I < 0 {
			return fmt.Sprintf("vI (%d)", v.I)
		}
		return fmt.Sprintf("vI %d", v.I)
	case "f":
		return fmt.Sprintf("vF %d", math.Float64bits(v.F))
	case "t":
		return "vT"
	case "x":
		return "vX"
	case "n":
		return "vN"
	}
	return "vS " + coqStr("?unknown column type "+v.S)
}

// text is what the value contributes to the group key (used only to MEASURE collisions and
// to state the required groups in replays): the rendering, for floats the exact bits
func (v c09Val) text() string {
	switch v.K {
	case "b", "s":
		return v.S
	case "i":
		return fmt.Sprint(v.I)
	case "f":
		return strconv.FormatUint(math.Float64bits(v.F), 16)
	case "t":
		return "true"
	case "x":
		return "false"
	}
	return ""
}

func c09Vals(vs []c09Val) string {
	p := make([]string, len(vs))
	for i, v := range vs {
		p[i] = v.coq()
	}
	return coqList(p)
}

// in-model tests --------------------------------------------------------------------

var (
	c09IntRe   = regexp.MustCompile(`^[+-]?[0-9]{1,15}$`)
	c09FloatRe = regexp.MustCompile(`^[+-]?[0-9]{1,8}\.[0-9]{1,7}$`)
	c09WordRe  = regexp.MustCompile(`^[a-hj-mo-z ,;|]*$`) // no digit, no i/n (inf, nan), no sign, no dot
)

// numeric text the twin's ParseInt/ParseFloat fragment decides like strconv
func c09TextInModel(s string) bool {
	return c09IntRe.MatchString(s) || c09FloatRe.MatchString(s) || c09WordRe.MatchString(s)
}

// floats whose JSON text the twin models: finite, small, short decimal expansion
func c09JSONFloatOK(f float64) bool {
	if math.IsNaN(f) || math.IsInf(f, 0) {
		return true // Marshal error on both sides
	}
	if f == 0 {
		return !math.Signbit(f)
	}
	a := math.Abs(f)
	if a >= 1e6 || a < 1e-3 {
		return false
	}
	s := fmt.Sprintf("%.6f", a)
	back := 0.0
	fmt.Sscanf(s, "%g", &back)
	return back == a
}

func c09JSONStringOK(s string) bool {
	for i := 0; i < len(s); i++ {
		if s[i] < 0x20 || s[i] > 0x7e {
			return false
		}
	}
	return true
}

// ---------------------------------------------------------------- case description

type c09Call struct {
	Fn  string `json:"fn"` // count sum avg min max json_arrayagg group_concat
	Sep string `json:"sep,omitempty"`
	Arg int    `json:"arg"` // index into the pair's aggregate-argument values
}

type c09Expr struct {
	Kind string   `json:"kind"` // int flt call bin
	I    int64    `json:"i,omitempty"`
	F    float64  `json:"f,omitempty"`
	Call int      `json:"call,omitempty"`
	Op   string   `json:"op,omitempty"` // + - * /
	L    *c09Expr `json:"l,omitempty"`
	R    *c09Expr `json:"r,omitempty"`
}

type c09Field struct {
	Key   int       `json:"key"` // >= 0: non-aggregate field, index into the pair's K values; -1: aggregate
	E     *c09Expr  `json:"expr,omitempty"`
	Calls []c09Call `json:"calls,omitempty"`
}

type c09Pair struct {
	G []c09Val `json:"group_values"`
	K []c09Val `json:"field_values"`
	A []c09Val `json:"aggregate_args"`
}

type c09Obs struct {
	Err   string     `json:"error,omitempty"`
	Panic string     `json:"panic,omitempty"`
	Rows  [][]c09Val `json:"rows"`
}

type c09Case struct {
	Kind     string      `json:"kind"`                                         // node | stmt
	Lazy     bool        `json:"pairs_hold_outcomes_of_evaluations,omitempty"` // LCase: a value may be "evaluation fails"
	Query    string      `json:"query,omitempty"`
	Oracle   string      `json:"oracle_query,omitempty"`
	Store    [][2]string `json:"store,omitempty"`
	All      bool        `json:"no_group_by"`
	Fields   []c09Field  `json:"fields"`
	Start    int         `json:"start"`
	Limit    int         `json:"limit"` // -1: none
	B        int         `json:"batch_size"`
	Chunks   []int       `json:"child_batches"`
	Pairs    []c09Pair   `json:"scanned_pairs"`
	Groups   [][]int     `json:"required_groups_as_indexes_of_scanned_pairs"`
	ObsRow   *c09Obs     `json:"observed_row_mode,omitempty"`
	ObsBatch *c09Obs     `json:"observed_batch_mode,omitempty"`
}

func (e *c09Expr) coq() string {
	switch e.Kind {
	case "int":
		if e.I < 0 {
			return fmt.Sprintf("eN (%d)", e.I)
		}
		return fmt.Sprintf("eN %d", e.I)
	case "flt":
		return fmt.Sprintf("eF %d", math.Float64bits(e.F))
	case "call":
		return fmt.Sprintf("eC %d", e.Call)
	}
	op := map[string]string{"+": "Plus", "-": "Minus", "*": "Times", "/": "Divide"}[e.Op]
	return fmt.Sprintf("eB %s (%s) (%s)", op, e.L.coq(), e.R.coq())
}

func (c c09Call) coq() string {
	fn := map[string]string{"count": "ACount", "sum": "ASum", "avg": "AAvg", "min": "AMin", "max": "AMax",
		"json_arrayagg": "AJsonArrayAgg"}[c.Fn]
	if c.Fn == "group_concat" {
		fn = "(AGroupConcat " + coqStr(c.Sep) + ")"
	}
	return fmt.Sprintf("Call %s %d", fn, c.Arg)
}

func (f c09Field) coq() string {
	if f.Key >= 0 {
		return fmt.Sprintf("fK %d", f.Key)
	}
	cs := make([]string, len(f.Calls))
	for i, c := range f.Calls {
		cs[i] = c.coq()
	}
	return fmt.Sprintf("fA (%s) %s", f.E.coq(), coqList(cs))
}

func (o *c09Obs) coq() string {
	if o == nil {
		return "None"
	}
	if o.Err != "" || o.Panic != "" {
		return "(Some None)"
	}
	rs := make([]string, len(o.Rows))
	for i, r := range o.Rows {
		rs[i] = c09Vals(r)
	}
	return "(Some (Some " + coqList(rs) + "))"
}

func (c *c09Case) coq() string {
	fs := make([]string, len(c.Fields))
	for i, f := range c.Fields {
		fs[i] = f.coq()
	}
	lim := "None"
	if c.Limit >= 0 {
		lim = fmt.Sprintf("(Some %d)", c.Limit)
	}
	ps := make([]string, len(c.Pairs))
	ctor := "Case"
	for i, p := range c.Pairs {
		if c.Lazy {
			ps[i] = fmt.Sprintf("mkL %s %s %s", c09LVals(p.G), c09LVals(p.K), c09LVals(p.A))
		} else {
			ps[i] = fmt.Sprintf("mkO %s %s %s", c09Vals(p.G), c09Vals(p.K), c09Vals(p.A))
		}
	}
	if c.Lazy {
		ctor = "LCase"
	}
	return fmt.Sprintf("%s (Plan %s %s %d %s) %d %s %s %s %s", ctor, coqBool(c.All), coqList(fs), c.Start, lim,
		c.B, coqNatList(c.Chunks), coqList(ps), c.ObsRow.coq(), c.ObsBatch.coq())
}

func c09ObsOf(res runResult) *c09Obs {
	o := &c09Obs{Panic: res.Panic}
	if res.Err != nil {
		o.Err = res.Err.Error()
	}
	for _, r := range res.Rows {
		row := make([]c09Val, len(r))
		for i, col := range r {
			row[i] = c09FromAny(col)
		}
		o.Rows = append(o.Rows, row)
	}
	return o
}

func c09SameObs(a, b *c09Obs) bool {
	if (a.Err != "") != (b.Err != "") || (a.Panic != "") != (b.Panic != "") {
		return false
	}
	if a.Err != "" {
		return true
	}
	if len(a.Rows) != len(b.Rows) {
		return false
	}
	for i := range a.Rows {
		if len(a.Rows[i]) != len(b.Rows[i]) {
			return false
		}
		for j := range a.Rows[i] {
			x, y := a.Rows[i][j], b.Rows[i][j]
			if x.K == "b" {
				x.K = "s"
			}
			if y.K == "b" {
				y.K = "s"
			}
			if x.K != y.K || x.S != y.S || x.I != y.I || math.Float64bits(x.F) != math.Float64bits(y.F) {
				return false
			}
		}
	}
	return true
}

// c09Emit registers the case, measures it and reports what the Go side can judge itself.
func c09Emit(e *emitter, c *c09Case) {
	// measured distribution
	tuples := map[string]int{}
	concat := map[string]map[string]bool{}
	gidx := map[string]int{}
	c.Groups = nil
	for pi, p := range c.Pairs {
		parts := make([]string, len(p.G))
		for i, g := range p.G {
			parts[i] = g.K[:1] + ":" + g.text()
		}
		t := strings.Join(parts, "\x00")
		if c.All {
			t = ""
		}
		tuples[t]++
		if _, ok := gidx[t]; !ok {
			gidx[t] = len(c.Groups)
			c.Groups = append(c.Groups, nil)
		}
		c.Groups[gidx[t]] = append(c.Groups[gidx[t]], pi)
		cc := ""
		for _, g := range p.G {
			cc += g.text()
		}
		if concat[cc] == nil {
			concat[cc] = map[string]bool{}
		}
		concat[cc][t] = true
	}
	collide := false
	for _, ts := range concat {
		if len(ts) > 1 {
			collide = true
		}
	}
	multi := false
	for _, n := range tuples {
		if n > 1 {
			multi = true
		}
	}
	nontrivial := len(c.Pairs) >= 2 && (len(tuples) >= 2 || multi)
	idx := e.add(c.coq(), c, nontrivial)
	e.count("kind=" + c.Kind)
	e.count(fmt.Sprintf("B=%d", c.B))
	e.count(fmt.Sprintf("pairs=%s", c09Bucket(len(c.Pairs))))
	e.count(fmt.Sprintf("groups=%s", c09Bucket(len(tuples))))
	if c.All {
		e.count("group_columns=none")
	} else if len(c.Pairs) > 0 {
		e.count(fmt.Sprintf("group_columns=%d", len(c.Pairs[0].G)))
		for _, g := range c.Pairs[0].G {
			e.count("group_value_kind=" + g.K)
		}
	}
	if collide {
		e.count("tuples_colliding_under_concatenation")
	}
	if multi {
		e.count("some_group_has_several_pairs")
	}
	if c.Limit >= 0 {
		e.count("with_limit")
	}
	if c.Lazy {
		e.count("pairs_hold_outcomes_of_evaluations")
	}
	for _, f := range c.Fields {
		if f.Key >= 0 {
			e.count("field=group_value")
			continue
		}
		if f.E.Kind != "call" {
			e.count("field=arithmetic_around_aggregates")
		}
		for _, cl := range f.Calls {
			e.count("aggregate=" + cl.Fn)
			if len(c.Pairs) > 0 && cl.Fn != "count" {
				kinds := map[string]bool{}
				for _, p := range c.Pairs {
					kinds[p.A[cl.Arg].K] = true
				}
				ks := []string{}
				for _, k := range []string{"b", "s", "i", "f", "t", "x", "n"} {
					if kinds[k] {
						ks = append(ks, k)
					}
				}
				e.count("argument_kinds=" + strings.Join(ks, ""))
			}
		}
	}
	// direct verdicts of the Go side
	sig := "C09/" + c.Kind
	for _, o := range []*c09Obs{c.ObsRow, c.ObsBatch} {
		if o != nil && o.Panic != "" {
			e.fail(idx, "panic: "+o.Panic, sig+"/panic", c)
			return
		}
	}
	if c.Limit < 0 {
		for _, o := range []*c09Obs{c.ObsRow, c.ObsBatch} {
			if o != nil && o.Err == "" && len(o.Rows) != len(c.Groups) {
				e.fail(idx, fmt.Sprintf("%d rows for %d distinct tuples of GROUP BY values", len(o.Rows), len(c.Groups)), sig+"/group-count", c)
				return
			}
		}
	}
	if c.ObsRow != nil && c.ObsBatch != nil {
		if c.ObsRow.Err != "" || c.ObsBatch.Err != "" {
			e.count("execution_error")
		}
		// a failing group (x / 0) surfaces when its row is completed: with LIMIT batch mode
		// completes whole runs of PlanBatchSize rows and may fail where row mode does not reach
		// the failing group; the converse (batch completes, row fails) is a violation
		lazy := c.Limit >= 0 && c.ObsBatch.Err != ""
		if !lazy && !c09SameObs(c.ObsRow, c.ObsBatch) {
			e.fail(idx, "row mode and batch mode return different aggregate rows", sig+"/row-batch", c)
		}
	}
}

func c09Bucket(n int) string {
	switch {
	case n <= 3:
		return fmt.Sprint(n)
	case n <= 6:
		return "4-6"
	case n <= 12:
		return "7-12"
	}
	return "13+"
}

// ---------------------------------------------------------------- scripted expressions (node level)

type c09TblExpr struct {
	name string
	tp   kvql.Type
	vals []any // by row id
}

func (t *c09TblExpr) Check(ctx *kvql.CheckCtx) error { return nil }
func (t *c09TblExpr) String() string                 { return t.name }
func (t *c09TblExpr) ReturnType() kvql.Type          { return t.tp }
func (t *c09TblExpr) GetPos() int                    { return 0 }
func (t *c09TblExpr) Walk(cb kvql.WalkCallback)      { cb(t) }
func (t *c09TblExpr) Execute(kv kvql.KVPair, ctx *kvql.ExecuteCtx) (any, error) {
	id := keyID(kv.Key)
	if id < 0 || id >= len(t.vals) {
		return nil, fmt.Errorf("scripted expression: no row %q", kv.Key)
	}
	if _, bad := t.vals[id].(c09Fail); bad {
		return nil, kvql.NewExecuteError(0, "scripted expression %s fails on row %q", t.name, kv.Key)
	}
	return t.vals[id], nil
}
func (t *c09TblExpr) ExecuteBatch(chunk []kvql.KVPair, ctx *kvql.ExecuteCtx) ([]any, error) {
	out := make([]any, len(chunk))
	for i, kv := range chunk {
		v, err := t.Execute(kv, ctx)
		if err != nil {
			return nil, err
		}
		out[i] = v
	}
	return out, nil
}

func c09Column(name string, pairs []c09Pair, sel func(p c09Pair) c09Val) *c09TblExpr {
	t := &c09TblExpr{name: name, tp: kvql.TSTR}
	for _, p := range pairs {
		v := sel(p)
		switch v.K {
		case "i", "f":
			t.tp = kvql.TNUMBER
		case "t", "x":
			t.tp = kvql.TBOOL
		}
		t.vals = append(t.vals, v.any())
	}
	return t
}

var c09Ops = map[string]kvql.Operator{"+": kvql.Add, "-": kvql.Sub, "*": kvql.Mul, "/": kvql.Div}

// c09BuildExpr builds the kvql expression of an aggregate field (fresh objects: Result is mutable)
func c09BuildExpr(e *c09Expr, calls []c09Call, pairs []c09Pair) kvql.Expression {
	switch e.Kind {
	case "int":
		return &kvql.NumberExpr{Data: fmt.Sprint(e.I), Int: e.I}
	case "flt":
		return &kvql.FloatExpr{Data: fmt.Sprint(e.F), Float: e.F}
	case "call":
		cl := calls[e.Call]
		arg := c09Column(fmt.Sprintf("a%d", cl.Arg), pairs, func(p c09Pair) c09Val { return p.A[cl.Arg] })
		args := []kvql.Expression{arg}
		if cl.Fn == "group_concat" {
			args = append(args, &kvql.StringExpr{Data: cl.Sep})
		}
		return &kvql.FunctionCallExpr{Name: &kvql.NameExpr{Data: cl.Fn}, Args: args}
	}
	return &kvql.BinaryOpExpr{Op: c09Ops[e.Op], Left: c09BuildExpr(e.L, calls, pairs), Right: c09BuildExpr(e.R, calls, pairs)}
}

func c09RunNode(c *c09Case, chunks [][]int) {
	c.Kind = "node"
	for _, ch := range chunks {
		c.Chunks = append(c.Chunks, len(ch))
	}
	for _, batch := range []bool{false, true} {
		var res runResult
		func() {
			defer func() {
				if r := recover(); r != nil {
					res.Panic = fmt.Sprint(r)
				}
			}()
			kvql.PlanBatchSize = c.B
			kvql.EnableFieldCache = true
			p := &kvql.AggregatePlan{ChildPlan: newScriptPlan(chunks), AggrAll: c.All, Limit: c.Limit, Start: c.Start}
			for i, f := range c.Fields {
				p.FieldNames = append(p.FieldNames, fmt.Sprintf("f%d", i))
				p.FieldTypes = append(p.FieldTypes, kvql.TSTR)
				if f.Key >= 0 {
					k := f.Key
					p.Fields = append(p.Fields, c09Column(fmt.Sprintf("k%d", k), c.Pairs, func(p c09Pair) c09Val { return p.K[k] }))
				} else {
					p.Fields = append(p.Fields, c09BuildExpr(f.E, f.Calls, c.Pairs))
				}
			}
			if !c.All {
				ng := 0
				if len(c.Pairs) > 0 {
					ng = len(c.Pairs[0].G)
				}
				for j := 0; j < ng; j++ {
					jj := j
					p.GroupByFields = append(p.GroupByFields, kvql.GroupByField{Name: fmt.Sprintf("g%d", j),
						Expr: c09Column(fmt.Sprintf("g%d", j), c.Pairs, func(p c09Pair) c09Val { return p.G[jj] })})
				}
			}
			if err := p.Init(); err != nil {
				res.Err = err
				return
			}
			res = drainPlan(p, batch, runResult{})
		}()
		if batch {
			c.ObsBatch = c09ObsOf(res)
		} else {
			c.ObsRow = c09ObsOf(res)
		}
	}
}

// ---------------------------------------------------------------- generators (node level)

func c09Call1(fn string, arg int) c09Field {
	return c09Field{Key: -1, E: &c09Expr{Kind: "call", Call: 0}, Calls: []c09Call{{Fn: fn, Sep: ",", Arg: arg}}}
}

// exhaustive: every sequence up to maxLen over a pool of tuples; the fields show the tuple,
// count the members and list the members' row numbers (group_concat over the row number)
func c09Exhaustive(e *emitter, r *rng, pool [][]c09Val, maxLen int, sample int) {
	ng := len(pool[0])
	var fields []c09Field
	for j := 0; j < ng; j++ {
		fields = append(fields, c09Field{Key: j})
	}
	fields = append(fields, c09Call1("count", 0), c09Call1("group_concat", 0), c09Call1("sum", 0), c09Call1("json_arrayagg", 0))
	var rec func(seq []int)
	emit := func(seq []int) {
		c := &c09Case{Fields: fields, Limit: -1, B: 1 + r.intn(3)}
		for i, t := range seq {
			c.Pairs = append(c.Pairs, c09Pair{G: pool[t], K: pool[t], A: []c09Val{c09I(int64(i))}})
		}
		chs := chunkings(r, len(seq), c.B, 1)
		c09RunNode(c, chs[r.intn(len(chs))])
		c09Emit(e, c)
	}
	rec = func(seq []int) {
		emit(seq)
		if len(seq) == maxLen {
			return
		}
		for t := range pool {
			rec(append(append([]int{}, seq...), t))
		}
	}
	rec(nil)
	for k := 0; k < sample; k++ {
		n := maxLen + 1 + r.intn(3)
		seq := make([]int, n)
		for i := range seq {
			seq[i] = r.intn(len(pool))
		}
		emit(seq)
	}
}

// c09ArgSequences: one or two groups, every sequence of argument values up to maxLen over a pool
// of values that are hard to tell apart (neighbours above 2^53, int/float twins, numeric text),
// all numeric aggregates: the ORDER in which the values arrive must not matter for min/max and
// the exact integers must survive
func c09ArgSequences(e *emitter, r *rng, pool []c09Val, maxLen int) {
	fields := []c09Field{{Key: 0}, c09Call1("min", 0), c09Call1("max", 0), c09Call1("sum", 0), c09Call1("count", 0), c09Call1("avg", 0)}
	var rec func(seq []int)
	rec = func(seq []int) {
		if len(seq) > 0 {
			c := &c09Case{Fields: fields, Limit: -1, B: 1 + r.intn(3)}
			for i, t := range seq {
				g := c09B("g")
				if len(seq) == maxLen && i == 0 {
					g = c09B("h") // the longest sequences: first pair in a group of its own
				}
				c.Pairs = append(c.Pairs, c09Pair{G: []c09Val{g}, K: []c09Val{g}, A: []c09Val{pool[t]}})
			}
			if c09InModel(c) {
				chs := chunkings(r, len(seq), c.B, 1)
				c09RunNode(c, chs[r.intn(len(chs))])
				c09Emit(e, c)
			} else {
				e.m.OutOfModel++
			}
		}
		if len(seq) == maxLen {
			return
		}
		for t := range pool {
			rec(append(append([]int{}, seq...), t))
		}
	}
	rec(nil)
}

var (
	c09TextPool  = []string{"", "a", "b", "ab", "ba", "abc", "bc", "c", "1", "12", "2", "21"}
	c09IntPool   = []int64{0, 1, 2, 11, 12, 21, -1, 112}
	c09FloatPool = []float64{0.5, 1.5, 1.5000001, 1.5000002, 2.25, 10, -1.5, 5.9, 0.25, 3}
	c09ArgInts   = []int64{0, 1, 2, 3, 5, 7, -2, -5, 10, 100}
	// integers float64 cannot tell apart (neighbours above 2^53, 2^62): min/max/sum must stay exact
	c09ArgBigInts = []int64{9007199254740992, 9007199254740993, 9007199254740994, -9007199254740992, -9007199254740993,
		4611686018427387904, 4611686018427387905, -4611686018427387905, 1, 0}
	c09ArgFloats = []float64{0.5, 1.5, 2.25, -1.5, 5.9, 0.25, 3, 2.5, -5.9, 10.9, 0.1, 7}
	c09ArgTexts  = []string{"5", "5.9", "-5", "-5.9", "7", "2.5", "0.25", "12", "x", "", "-6", "3.0", "010", "-010", "0017", "08", "007.5"} // (zero-padded numerals are decimal)
	c09ArgWords  = []string{"x", "y z", "a,b", "", "p|q", "<a&b>", "q\"t"}
	c09NumFns    = []string{"count", "sum", "avg", "min", "max"}
	c09AllFns    = []string{"count", "sum", "avg", "min", "max", "json_arrayagg", "group_concat"}
)

// a column of group values of one kind
func c09GroupColumn(r *rng, n int) []c09Val {
	out := make([]c09Val, n)
	kind := r.intn(10)
	width := 2 + r.intn(4)
	for i := range out {
		switch {
		case kind < 4:
			out[i] = c09B(c09TextPool[r.intn(min(len(c09TextPool), width*2))])
		case kind < 6:
			out[i] = c09S(c09TextPool[r.intn(min(len(c09TextPool), width*2))])
		case kind < 8:
			out[i] = c09I(c09IntPool[r.intn(min(len(c09IntPool), width+2))])
		case kind < 9:
			out[i] = c09F(c09FloatPool[r.intn(min(len(c09FloatPool), width))])
		default:
			out[i] = c09Bool(r.intn(2) == 0)
		}
	}
	return out
}

// a column of aggregate arguments; what: int, float, mixed (typed), text (numeric text), word, bool
func c09ArgColumn(r *rng, n int, what string) []c09Val {
	out := make([]c09Val, n)
	for i := range out {
		switch what {
		case "int":
			out[i] = c09I(pick(r, c09ArgInts))
		case "bigint":
			out[i] = c09I(pick(r, c09ArgBigInts))
		case "float":
			out[i] = c09F(pick(r, c09ArgFloats))
		case "mixed":
			if r.intn(2) == 0 {
				out[i] = c09I(pick(r, c09ArgInts))
			} else {
				out[i] = c09F(pick(r, c09ArgFloats))
			}
		case "text":
			out[i] = c09B(pick(r, c09ArgTexts))
		case "word":
			if r.intn(2) == 0 {
				out[i] = c09B(pick(r, c09ArgWords))
			} else {
				out[i] = c09S(pick(r, c09ArgWords))
			}
		default:
			out[i] = c09Bool(r.intn(3) == 0)
		}
	}
	return out
}

// an aggregate field over the argument columns [kinds]: a call, or arithmetic around calls
func c09AggField(r *rng, kinds []string, stmt bool) c09Field {
	numArgs := []int{}
	for i, k := range kinds {
		if k != "word" {
			numArgs = append(numArgs, i)
		}
	}
	call := func(numeric bool) c09Call {
		fns := c09AllFns
		if numeric {
			fns = c09NumFns
		}
		fn := pick(r, fns)
		arg := r.intn(len(kinds))
		if fn != "count" && fn != "json_arrayagg" && fn != "group_concat" {
			if len(numArgs) == 0 {
				fn = "count"
			} else {
				arg = pick(r, numArgs)
			}
		}
		return c09Call{Fn: fn, Sep: pick(r, []string{",", "", "; ", "|"}), Arg: arg}
	}
	f := c09Field{Key: -1}
	leaf := func() *c09Expr {
		switch r.intn(5) {
		case 0:
			if stmt { // literals of the query language: no sign
				return &c09Expr{Kind: "int", I: pick(r, []int64{0, 1, 2, 3, 10})}
			}
			return &c09Expr{Kind: "int", I: pick(r, []int64{0, 1, 2, 3, 10, -4})}
		case 1:
			if stmt { // no sign, and a fractional part (2.0 would be written 2, an integer literal)
				return &c09Expr{Kind: "flt", F: pick(r, []float64{0.5, 1.25, 2.5})}
			}
			return &c09Expr{Kind: "flt", F: pick(r, []float64{0.5, 2, 1.25, -3.5})}
		}
		f.Calls = append(f.Calls, call(true))
		return &c09Expr{Kind: "call", Call: len(f.Calls) - 1}
	}
	switch r.intn(10) {
	case 0, 1, 2, 3, 4:
		f.Calls = []c09Call{call(false)}
		f.E = &c09Expr{Kind: "call", Call: 0}
	case 5, 6, 7:
		f.Calls = []c09Call{call(true)}
		l := &c09Expr{Kind: "call", Call: 0}
		rr := leaf()
		if r.intn(3) == 0 {
			l, rr = rr, l
		}
		f.E = &c09Expr{Kind: "bin", Op: pick(r, []string{"+", "-", "*", "/"}), L: l, R: rr}
	default:
		f.Calls = []c09Call{call(true)}
		inner := &c09Expr{Kind: "bin", Op: pick(r, []string{"+", "-", "*", "/"}), L: &c09Expr{Kind: "call", Call: 0}, R: leaf()}
		outer := leaf()
		if stmt && outer.Kind != "call" {
			// (x op c1) op c2 is re-associated and folded by the expression optimizer (C04)
			f.Calls = append(f.Calls, call(true))
			outer = &c09Expr{Kind: "call", Call: len(f.Calls) - 1}
		}
		f.E = &c09Expr{Kind: "bin", Op: pick(r, []string{"+", "-", "*", "/"}), L: inner, R: outer}
		if r.intn(2) == 0 {
			f.E.L, f.E.R = f.E.R, f.E.L
		}
	}
	// the expression must contain an aggregate call on some path the planner looks at
	return f
}

func c09HasConstOnly(e *c09Expr) bool {
	if e.Kind == "bin" {
		lc := e.L.Kind == "int" || e.L.Kind == "flt"
		rc := e.R.Kind == "int" || e.R.Kind == "flt"
		return (lc && rc) || c09HasConstOnly(e.L) || c09HasConstOnly(e.R)
	}
	return false
}

func c09RandomNode(e *emitter, r *rng, count int) {
	for it := 0; it < count; it++ {
		n := r.intn(11)
		if r.intn(8) == 0 {
			n = 11 + r.intn(30)
		}
		c := &c09Case{Limit: -1, B: pick(r, []int{1, 2, 3, 4, 32})}
		ng := 1 + r.intn(3)
		if r.intn(8) == 0 {
			c.All, ng = true, 0
		}
		gcols := make([][]c09Val, ng)
		for j := range gcols {
			gcols[j] = c09GroupColumn(r, n)
		}
		na := 1 + r.intn(3)
		kinds := make([]string, na)
		acols := make([][]c09Val, na)
		for j := range acols {
			kinds[j] = pick(r, []string{"int", "int", "float", "float", "mixed", "mixed", "text", "text", "word", "bool", "bigint"})
			acols[j] = c09ArgColumn(r, n, kinds[j])
		}
		for i := 0; i < n; i++ {
			p := c09Pair{}
			for j := range gcols {
				p.G = append(p.G, gcols[j][i])
				p.K = append(p.K, gcols[j][i])
			}
			for j := range acols {
				p.A = append(p.A, acols[j][i])
			}
			c.Pairs = append(c.Pairs, p)
		}
		// fields: some of the group values (in any position) and 1..3 aggregate fields
		for j := 0; j < ng; j++ {
			if r.intn(4) != 0 {
				c.Fields = append(c.Fields, c09Field{Key: j})
			}
		}
		nf := 1 + r.intn(3)
		for k := 0; k < nf; k++ {
			f := c09AggField(r, kinds, false)
			for tries := 0; tries < 20 && c09HasConstOnly(f.E); tries++ {
				f = c09AggField(r, kinds, false) // constant subexpressions belong to the folder (C04)
			}
			if c09HasConstOnly(f.E) {
				f = c09Call1("count", 0)
			}
			pos := r.intn(len(c.Fields) + 1)
			c.Fields = append(c.Fields[:pos], append([]c09Field{f}, c.Fields[pos:]...)...)
		}
		if r.intn(3) == 0 {
			c.Start, c.Limit = r.intn(4), r.intn(5)
		}
		if !c09InModel(c) {
			e.m.OutOfModel++
			continue
		}
		chs := chunkings(r, n, c.B, 2)
		c09RunNode(c, chs[r.intn(len(chs))])
		c09Emit(e, c)
	}
}

// c09InModel: every value the twin must render or parse lies in the modelled fragment
func c09InModel(c *c09Case) bool {
	for _, p := range c.Pairs {
		for _, vs := range [][]c09Val{p.G, p.K, p.A} {
			for _, v := range vs {
				if v.K == "?" {
					return false
				}
				if v.K == "f" && (math.IsNaN(v.F) || math.IsInf(v.F, 0)) {
					return false
				}
			}
		}
	}
	for _, f := range c.Fields {
		for _, cl := range f.Calls {
			for _, p := range c.Pairs {
				v := p.A[cl.Arg]
				switch cl.Fn {
				case "sum", "avg", "min", "max":
					if (v.K == "b" || v.K == "s") && !c09TextInModel(v.S) {
						return false
					}
				case "json_arrayagg":
					if v.K == "f" && !c09JSONFloatOK(v.F) {
						return false
					}
					if (v.K == "b" || v.K == "s") && !c09JSONStringOK(v.S) {
						return false
					}
				}
			}
		}
	}
	return true
}

// ---------------------------------------------------------------- statement level

type c09Src struct {
	Sel    string // text in the select list of the aggregate statement ("" = not selected)
	Group  string // text in GROUP BY ("" = not a group expression)
	Oracle string // expression text for the oracle statement
}

// group expressions: selected text, group-by text, oracle text
var c09GroupExprs = []c09Src{
	{"key", "key", "key"},
	{"", "key", "key"},
	{"value", "value", "value"},
	{"", "value", "value"},
	{"upper(key) as u", "u", "upper(key)"},
	{"lower(value) as l", "l", "lower(value)"},
	{"substr(key, 0, 1) as p", "p", "substr(key, 0, 1)"},
	{"int(value) as n", "n", "int(value)"},
	{"float(value) as f", "f", "float(value)"},
	{"is_int(value) as b", "b", "is_int(value)"},
	{"strlen(key) as sl", "sl", "strlen(key)"},
	{"upper(key)", "upper(key)", "upper(key)"},
	{"key + value as kv", "kv", "key + value"},
}

var c09ArgExprs = []struct{ Text, Oracle, Kind string }{
	{"int(value)", "int(value)", "num"},
	{"float(value)", "float(value)", "num"},
	{"value", "value", "num"},
	{"strlen(key)", "strlen(key)", "num"},
	{"key", "key", "word"},
	{"upper(key)", "upper(key)", "word"},
}

var (
	c09Keys   = []string{"a", "a1", "a12", "ab", "abc", "b", "b1", "bc", "1", "11", "12", "2", "A", "aB"}
	c09Values = []string{"1", "12", "2", "21", "5", "5.9", "2.5", "0.25", "-3", "10", "c", "bc", "", "-5.9", "7", "2.5000001", "010", "-010", "0017"}
	c09Wheres = []string{"true", "key ^= 'a'", "key > 'a1'", "value != '5'", "key ^= 'zz'", "key in ('a', 'ab', 'b1', '1', '11')"}
)

func c09RandomStore(r *rng) [][2]string {
	n := r.intn(10)
	if r.intn(6) == 0 {
		n = len(c09Keys)
	}
	perm := make([]int, len(c09Keys))
	for i := range perm {
		perm[i] = i
	}
	for i := len(perm) - 1; i > 0; i-- {
		j := r.intn(i + 1)
		perm[i], perm[j] = perm[j], perm[i]
	}
	width := 3 + r.intn(len(c09Values)-2)
	kvs := [][2]string{}
	for i := 0; i < n; i++ {
		kvs = append(kvs, [2]string{c09Keys[perm[i]], c09Values[r.intn(width)]})
	}
	return kvs
}

func (e *c09Expr) text(calls []string) string {
	switch e.Kind {
	case "int":
		return fmt.Sprint(e.I)
	case "flt":
		return fmt.Sprintf("%v", e.F)
	case "call":
		return calls[e.Call]
	}
	return "(" + e.L.text(calls) + " " + e.Op + " " + e.R.text(calls) + ")"
}

func c09RunStmt(e *emitter, r *rng, store [][2]string, groups []c09Src, aggs []c09Field, argSrc [][2]string, where string, start, limit, B int, positions []int) {
	// select list: group expressions that are selected + aggregate fields, interleaved by [positions]
	type item struct {
		text string
		f    c09Field
	}
	items := []item{}
	nk := 0
	oracle := []string{"key"}
	for _, g := range groups {
		oracle = append(oracle, g.Oracle)
	}
	for _, g := range groups {
		if g.Sel != "" {
			items = append(items, item{g.Sel, c09Field{Key: nk}})
			oracle = append(oracle, g.Oracle)
			nk++
		}
	}
	for _, a := range argSrc {
		oracle = append(oracle, a[1])
	}
	for i, a := range aggs {
		calls := make([]string, len(a.Calls))
		for j, cl := range a.Calls {
			if cl.Fn == "group_concat" {
				calls[j] = fmt.Sprintf("group_concat(%s, '%s')", argSrc[cl.Arg][0], cl.Sep)
			} else if cl.Fn == "count" {
				// count never evaluates its argument: count(1), or count over the argument column
				// (whose evaluation may fail on some pair without failing the statement)
				calls[j] = "count(1)"
				if r.intn(2) == 0 {
					calls[j] = fmt.Sprintf("count(%s)", argSrc[cl.Arg][0])
				}
			} else {
				calls[j] = fmt.Sprintf("%s(%s)", cl.Fn, argSrc[cl.Arg][0])
			}
		}
		txt := a.E.text(calls)
		if a.E.Kind == "bin" {
			txt = txt[1 : len(txt)-1]
		}
		pos := positions[i%len(positions)] % (len(items) + 1)
		items = append(items[:pos], append([]item{{txt, a}}, items[pos:]...)...)
	}
	c := &c09Case{Kind: "stmt", Store: store, All: len(groups) == 0, Start: start, Limit: limit, B: B}
	sel := make([]string, len(items))
	for i, it := range items {
		sel[i] = it.text
		c.Fields = append(c.Fields, it.f)
	}
	q := "select " + strings.Join(sel, ", ") + " where " + where
	if len(groups) > 0 {
		gb := make([]string, len(groups))
		for i, g := range groups {
			gb[i] = g.Group
		}
		q += " group by " + strings.Join(gb, ", ")
	}
	if limit >= 0 {
		q += fmt.Sprintf(" limit %d, %d", start, limit)
	}
	c.Query = q
	c.Oracle = "select " + strings.Join(oracle, ", ") + " where " + where
	st := newStore(store)
	or := runQuery(c.Oracle, st.clone(), false, B, true)
	if or.Panic != "" {
		e.count("stmt_oracle_failed")
		e.m.OutOfModel++
		return
	}
	if or.Err != nil {
		// some expression fails on some pair: record the OUTCOME of every evaluation on every
		// scanned pair (one statement per expression and pair) and let the twin decide with the
		// evaluation discipline which of them the plan asks for
		pairs, okp := c3zOutcomes(store, where, oracle[1:])
		if !okp {
			e.count("stmt_where_failed")
			e.m.OutOfModel++
			return
		}
		e.count("stmt_oracle_failed_outcomes_per_pair")
		c.Lazy = true
		for _, row := range pairs {
			p := c09Pair{}
			k := 0
			p.G, k = row[k:k+len(groups)], k+len(groups)
			p.K, k = row[k:k+nk], k+nk
			p.A = row[k : k+len(argSrc)]
			c.Pairs = append(c.Pairs, p)
		}
	}
	for _, row := range or.Rows {
		if c.Lazy {
			break
		}
		p := c09Pair{}
		k := 1
		for range groups {
			p.G = append(p.G, c09FromAny(row[k]))
			k++
		}
		for j := 0; j < nk; j++ {
			p.K = append(p.K, c09FromAny(row[k]))
			k++
		}
		for range argSrc {
			p.A = append(p.A, c09FromAny(row[k]))
			k++
		}
		c.Pairs = append(c.Pairs, p)
	}
	if !c09InModel(c) {
		e.count("stmt_out_of_model")
		e.m.OutOfModel++
		return
	}
	rejected := false
	for _, batch := range []bool{false, true} {
		st2 := st.clone()
		var res runResult
		var sizes []int
		func() {
			defer func() {
				if rr := recover(); rr != nil {
					res.Panic = fmt.Sprint(rr)
				}
			}()
			kvql.PlanBatchSize = B
			kvql.EnableFieldCache = true
			plan, err := kvql.NewOptimizer(q).BuildPlan(st2)
			if err != nil {
				res.Err, res.BuildErr = err, true
				return
			}
			var rec *recPlan
			if ap, ok := plan.(*kvql.AggregatePlan); ok {
				rec = &recPlan{inner: ap.ChildPlan}
				ap.ChildPlan = rec
			}
			res = drainPlan(plan, batch, runResult{})
			if rec != nil {
				sizes = rec.sizes
			}
		}()
		if res.BuildErr {
			rejected = true
			break
		}
		if batch {
			c.ObsBatch = c09ObsOf(res)
			c.Chunks = sizes
		} else {
			c.ObsRow = c09ObsOf(res)
		}
	}
	if rejected {
		e.count("stmt_rejected_by_planner")
		return
	}
	tot := 0
	for _, s := range c.Chunks {
		tot += s
	}
	if tot != len(c.Pairs) {
		c.Chunks = nil // child batches not observed in full (error path): one chunk
	}
	c09Emit(e, c)
}

func c09RandomStmt(e *emitter, r *rng, count int) {
	for it := 0; it < count; it++ {
		store := c09RandomStore(r)
		ng := r.intn(4)
		var groups []c09Src
		used := map[string]bool{}
		nsel := 0
		for len(groups) < ng {
			g := pick(r, c09GroupExprs)
			if used[g.Oracle] {
				continue
			}
			used[g.Oracle] = true
			groups = append(groups, g)
			if g.Sel != "" {
				nsel++
			}
		}
		na := 1 + r.intn(2)
		argSrc := [][2]string{}
		kinds := []string{}
		for j := 0; j < na; j++ {
			a := pick(r, c09ArgExprs)
			argSrc = append(argSrc, [2]string{a.Text, a.Oracle})
			kinds = append(kinds, map[string]string{"num": "text", "word": "word"}[a.Kind])
		}
		// aggregate arguments may also name a selected integer alias
		for _, g := range groups {
			if g.Group == "n" && r.intn(2) == 0 {
				argSrc = append(argSrc, [2]string{"n", "int(value)"})
				kinds = append(kinds, "int")
			}
		}
		nf := 1 + r.intn(3)
		var aggs []c09Field
		for k := 0; k < nf; k++ {
			f := c09AggField(r, kinds, true)
			for tries := 0; tries < 20 && (c09HasConstOnly(f.E) || c09DivByConstZero(f.E)); tries++ {
				f = c09AggField(r, kinds, true)
			}
			if c09HasConstOnly(f.E) || c09DivByConstZero(f.E) {
				f = c09Call1("count", 0)
			}
			aggs = append(aggs, f)
		}
		// the planner refuses `select <only aggregates> group by <as many expressions>`
		if len(groups) > 0 && nsel < len(groups) && nsel+len(aggs) == len(groups) {
			aggs = append(aggs, c09Call1("count", 0))
		}
		start, limit := 0, -1
		if r.intn(4) == 0 {
			start, limit = r.intn(3), r.intn(4)
		}
		c09RunStmt(e, r, store, groups, aggs, argSrc, pick(r, c09Wheres), start, limit, pick(r, []int{1, 2, 3, 32}),
			[]int{r.intn(5), r.intn(5), r.intn(5)})
	}
}

func c09DivByConstZero(e *c09Expr) bool {
	if e.Kind != "bin" {
		return false
	}
	if e.Op == "/" && ((e.R.Kind == "int" && e.R.I == 0) || (e.R.Kind == "flt" && e.R.F == 0)) {
		return true // rejected by the checker
	}
	return c09DivByConstZero(e.L) || c09DivByConstZero(e.R)
}

// the statement-level collision stores: (key, value) pairs whose concatenations coincide
func c09CollisionStmts(e *emitter, r *rng) {
	stores := [][][2]string{
		{{"a", "bc"}, {"ab", "c"}},
		{{"a", "bc"}, {"ab", "c"}, {"abc", ""}},
		{{"1", "12"}, {"11", "2"}},
		{{"1", "12"}, {"11", "2"}, {"112", ""}, {"2", "5"}},
		{{"a", "1"}, {"a1", ""}, {"b", "1"}},
		{{"A", "b"}, {"a", "B"}, {"aB", ""}, {"ab", ""}},
		// tuples that coincide under other plausible key encodings: a one-byte length prefix
		// (wraps at 256), a decimal length prefix without separator, a separator byte
		{{"a", strings.Repeat("x", 255) + "," + strings.Repeat("y", 44)}, {"a," + strings.Repeat("x", 255), strings.Repeat("y", 44)}},
		{{"0", "abcdefgh1z"}, {"10abcdefgh", "z"}},
		{{"a,b", "c"}, {"a", "b,c"}, {"a:b", "c"}, {"a", "b:c"}},
		{{"a\x00b", "c"}, {"a", "b\x00c"}, {"a|b", "c"}, {"a", "b|c"}},
	}
	shapes := [][]c09Src{
		{c09GroupExprs[0], c09GroupExprs[2]},
		{c09GroupExprs[1], c09GroupExprs[3]},
		{c09GroupExprs[0], c09GroupExprs[3]},
		{c09GroupExprs[4], c09GroupExprs[5]},
		{c09GroupExprs[2], c09GroupExprs[0]},
		{c09GroupExprs[0], c09GroupExprs[2], c09GroupExprs[4]},
		{c09GroupExprs[7], c09GroupExprs[0]},
	}
	for _, st := range stores {
		for _, sh := range shapes {
			for _, B := range []int{1, 2, 32} {
				aggs := []c09Field{c09Call1("count", 0), c09Call1("group_concat", 0)}
				c09RunStmt(e, r, st, sh, aggs, [][2]string{{"key", "key"}}, "true", 0, -1, B, []int{len(sh), len(sh) + 1})
			}
		}
	}
}

func runC09(c *runCtx) error {
	r := newRng(c.seed)
	e := newEmitter(c.out, "C09", "From Coq Require Import List String ZArith.\nFrom KV Require Import Base.Bytes Spec.Group Corr.C09.\nImport ListNotations.\nOpen Scope string_scope.\n", 300)
	e.m.Rule = "node level: AggregatePlan over scripted child/expressions (tuple sequences over colliding pools, exhaustive up to a length, random typed columns beyond); statement level: random stores x group expressions x aggregate fields x where x limit x batch size; non-trivial = at least two scanned pairs and (at least two groups or a group with several pairs); distinct = distinct Gallina case terms"
	bt := func(ss ...string) []c09Val {
		out := make([]c09Val, len(ss))
		for i, s := range ss {
			out[i] = c09B(s)
		}
		return out
	}
	poolText := [][]c09Val{bt("a", "bc"), bt("ab", "c"), bt("abc", ""), bt("", "abc"), bt("a", "b")}
	poolInt := [][]c09Val{{c09I(1), c09I(12)}, {c09I(11), c09I(2)}, {c09I(1), c09I(1)}, {c09I(112), c09I(0)}}
	poolMix := [][]c09Val{{c09S("a"), c09I(1), c09B("x")}, {c09S("a1"), c09I(0), c09B("")}, {c09S("a"), c09I(10), c09B("")},
		{c09S(""), c09I(-1), c09Bool(true)}, {c09S("-"), c09I(1), c09Bool(true)}}
	poolFlt := [][]c09Val{{c09F(1.5), c09B("0")}, {c09F(1.5), c09B("")}, {c09F(1.0000001), c09B("x")}, {c09F(1.0000002), c09B("x")}}
	nText, nOther, sample, nNode, nStmt := 4, 3, 60, 1000, 1000
	if c.thorough() || c.search {
		nText, nOther, sample, nNode, nStmt = 5, 5, 600, 12000, 12000
	}
	c09Exhaustive(e, r, poolText, nText, sample)
	c09Exhaustive(e, r, poolInt, nOther, sample/2)
	c09Exhaustive(e, r, poolMix, nOther, sample/2)
	c09Exhaustive(e, r, poolFlt, nOther, sample/2)
	big := []c09Val{c09I(9007199254740992), c09I(9007199254740993), c09I(9007199254740994), c09I(-9007199254740993), c09I(-9007199254740992), c09I(4611686018427387905), c09I(4611686018427387904)}
	twins := []c09Val{c09I(2), c09F(2), c09F(2.5), c09B("2"), c09B("2.0"), c09I(3), c09B("-3"), c09F(-3)}
	c09ArgSequences(e, r, big, 3)
	c09ArgSequences(e, r, twins, 3)
	c09CollisionStmts(e, r)
	c09RandomNode(e, r, nNode)
	c09RandomStmt(e, r, nStmt)
	c3zNodes(e, r, nNode/2)
	c3zStmts(e, r, c.thorough() || c.search)
	e.m.Exhaustive = true
	e.m.Notes = append(e.m.Notes, "exhaustive part: every sequence of group tuples up to the stated length over four pools of tuples whose renderings collide under concatenation; random part seeded")
	return e.flush()
}

// ---------------------------------------------------------------- c3z: the evaluation discipline
// Cases whose pairs hold the OUTCOME of every evaluation (a value, or "fails"): the Go code asks
// for the GROUP BY values of every pair, for the non-aggregate fields on the first pair of a
// group only, for the argument of every aggregate call except count on every pair; and it
// completes a group's row only when Next / Batch reach it.  An evaluation that fails but is not
// asked for must be harmless; one that is asked for must fail the statement, in both modes.

// c3zOutcomes evaluates every expression of [exprs] on every pair that passes [where], one pair
// and one expression at a time (`select <expr>` on a store that holds that pair only).
func c3zOutcomes(store [][2]string, where string, exprs []string) ([][]c09Val, bool) {
	scan := runQuery("select key, value where "+where, newStore(store), false, 32, false)
	if scan.Err != nil || scan.Panic != "" {
		return nil, false
	}
	out := [][]c09Val{}
	for _, row := range scan.Rows {
		one := [][2]string{{string(row[0].([]byte)), string(row[1].([]byte))}}
		vals := make([]c09Val, len(exprs))
		for i, x := range exprs {
			rr := runQuery("select "+x+" where true", newStore(one), false, 1, false)
			switch {
			case rr.BuildErr || rr.Panic != "":
				return nil, false
			case rr.Err != nil:
				vals[i] = c09Bad
			case len(rr.Rows) != 1 || len(rr.Rows[0]) != 1:
				return nil, false
			default:
				vals[i] = c09FromAny(rr.Rows[0][0])
			}
		}
		out = append(out, vals)
	}
	return out, true
}

// 10 / (count(a) - k): fails exactly for the groups of k pairs
func c3zFinField(arg int, k int64) c09Field {
	return c09Field{Key: -1, Calls: []c09Call{{Fn: "count", Sep: ",", Arg: arg}},
		E: &c09Expr{Kind: "bin", Op: "/", L: &c09Expr{Kind: "int", I: 10},
			R: &c09Expr{Kind: "bin", Op: "-", L: &c09Expr{Kind: "call", Call: 0}, R: &c09Expr{Kind: "int", I: k}}}}
}

// node level: random typed columns as in c09RandomNode, plus failing evaluations
func c3zNodes(e *emitter, r *rng, count int) {
	for it := 0; it < count; it++ {
		n := 1 + r.intn(10)
		c := &c09Case{Limit: -1, B: pick(r, []int{1, 2, 3, 4}), Lazy: true}
		ng := 1 + r.intn(2)
		if r.intn(8) == 0 {
			c.All, ng = true, 0
		}
		gcols := make([][]c09Val, ng)
		for j := range gcols {
			gcols[j] = c09GroupColumn(r, n)
		}
		na := 1 + r.intn(2)
		kinds := make([]string, na)
		acols := make([][]c09Val, na+1)
		for j := 0; j < na; j++ {
			kinds[j] = pick(r, []string{"int", "int", "float", "mixed", "text", "word", "bool"})
			acols[j] = c09ArgColumn(r, n, kinds[j])
		}
		acols[na] = c09ArgColumn(r, n, "int") // read by count calls only
		seen := map[string]bool{}
		first := make([]bool, n)
		for i := 0; i < n; i++ {
			p := c09Pair{}
			t := ""
			for j := range gcols {
				p.G = append(p.G, gcols[j][i])
				p.K = append(p.K, gcols[j][i])
				t += gcols[j][i].K[:1] + ":" + gcols[j][i].text() + "\x00"
			}
			first[i] = !seen[t]
			seen[t] = true
			for j := range acols {
				p.A = append(p.A, acols[j][i])
			}
			c.Pairs = append(c.Pairs, p)
		}
		for j := 0; j < ng; j++ {
			c.Fields = append(c.Fields, c09Field{Key: j})
		}
		nf := 1 + r.intn(2)
		for k := 0; k < nf; k++ {
			f := c09AggField(r, kinds, false)
			for tries := 0; tries < 20 && c09HasConstOnly(f.E); tries++ {
				f = c09AggField(r, kinds, false)
			}
			if c09HasConstOnly(f.E) {
				f = c09Call1("sum", 0)
			}
			pos := r.intn(len(c.Fields) + 1)
			c.Fields = append(c.Fields[:pos], append([]c09Field{f}, c.Fields[pos:]...)...)
		}
		c.Fields = append(c.Fields, c09Call1("count", na))
		if r.intn(2) == 0 {
			f := c3zFinField(na, int64(1+r.intn(3)))
			pos := r.intn(len(c.Fields) + 1)
			c.Fields = append(c.Fields[:pos], append([]c09Field{f}, c.Fields[pos:]...)...)
			e.count("c3z:completion_may_fail")
		}
		if r.intn(2) == 0 {
			c.Start, c.Limit = r.intn(4), r.intn(5)
		}
		// failing evaluations
		what := r.intn(8)
		for i := 0; i < n; i++ {
			// the skipped ones: non-aggregate fields on later pairs of a group, count's argument
			if !first[i] {
				for j := range c.Pairs[i].K {
					if r.intn(2) == 0 {
						c.Pairs[i].K[j] = c09Bad
						e.count("c3z:field_fails_on_later_pair")
					}
				}
			}
			if r.intn(2) == 0 {
				c.Pairs[i].A[na] = c09Bad
				e.count("c3z:count_argument_fails")
			}
		}
		i := r.intn(n)
		switch {
		case what == 0 && ng > 0 && first[i]:
			c.Pairs[i].K[r.intn(ng)] = c09Bad
			e.count("c3z:field_fails_on_first_pair")
		case what == 1 && ng > 0:
			c.Pairs[i].G[r.intn(ng)] = c09Bad
			e.count("c3z:group_value_fails")
		case what == 2:
			c.Pairs[i].A[r.intn(na)] = c09Bad // read by an aggregate only if a field names that column
			e.count("c3z:aggregate_argument_fails")
		}
		if !c09InModel(c) {
			e.m.OutOfModel++
			continue
		}
		chs := chunkings(r, n, c.B, 2)
		c09RunNode(c, chs[r.intn(len(chs))])
		c09Emit(e, c)
	}
}

type c3zTpl struct {
	sel    string // select list
	group  string // GROUP BY list as written ("" = none)
	groups []string
	keys   []string
	args   []string
	fields []c09Field
}

// statement level: real statements (parser, checker, optimizer, scan) in which a skipped
// evaluation fails; `group by g, g` admits a select field that is no GROUP BY field
func c3zStmts(e *emitter, r *rng, thorough bool) {
	g := "substr(key, 0, 1)"
	bad3, bad4 := "10 / (int(value) - 3)", "10 / (int(value) - 4)"
	tpls := []c3zTpl{
		{"substr(key, 0, 1) as g, 10 / (int(value) - 3) as x, count(1) as c, sum(int(value)) as s", "g, g",
			[]string{g, g}, []string{g, bad3}, []string{"1", "int(value)"},
			[]c09Field{{Key: 0}, {Key: 1}, c09Call1("count", 0), c09Call1("sum", 1)}},
		{"10 / (int(value) - 3) as x, max(int(value)) as m, substr(key, 0, 1) as g", "g, g",
			[]string{g, g}, []string{bad3, g}, []string{"int(value)"},
			[]c09Field{{Key: 0}, c09Call1("max", 0), {Key: 1}}},
		{"substr(key, 0, 1) as g, count(10 / (int(value) - 3)) as c, sum(int(value)) as s", "g",
			[]string{g}, []string{g}, []string{bad3, "int(value)"},
			[]c09Field{{Key: 0}, c09Call1("count", 0), c09Call1("sum", 1)}},
		{"count(10 / (int(value) - 3)) as c, max(int(value)) as m", "",
			nil, nil, []string{bad3, "int(value)"},
			[]c09Field{c09Call1("count", 0), c09Call1("max", 1)}},
		{"substr(key, 0, 1) as g, count(10 / (int(value) - 3)) as c, sum(10 / (int(value) - 4)) as s", "g",
			[]string{g}, []string{g}, []string{bad3, bad4},
			[]c09Field{{Key: 0}, c09Call1("count", 0), c09Call1("sum", 1)}},
		{"substr(key, 0, 1) as g, 10 / (count(1) - 2) as x, sum(int(value)) as s", "g",
			[]string{g}, []string{g}, []string{"1", "int(value)"},
			[]c09Field{{Key: 0}, c3zFinField(0, 2), c09Call1("sum", 1)}},
		{"substr(key, 0, 1) as g, 10 / (count(10 / (int(value) - 3)) - 2) as x, 10 / (int(value) - 4) as y", "g, g",
			[]string{g, g}, []string{g, bad4}, []string{bad3},
			[]c09Field{{Key: 0}, c3zFinField(0, 2), {Key: 1}}},
		{"10 / (int(value) - 1) as g, sum(10 / (int(value) - 3)) as s", "g",
			[]string{"10 / (int(value) - 1)"}, []string{"10 / (int(value) - 1)"}, []string{bad3},
			[]c09Field{{Key: 0}, c09Call1("sum", 0)}},
	}
	limits := [][2]int{{0, -1}, {0, -1}, {0, 1}, {1, 1}, {0, 2}, {1, 2}, {2, 1}, {2, 3}, {0, 0}, {1, 0}, {3, 2}}
	reps := 3
	if thorough {
		reps = 20
	}
	for _, t := range tpls {
		for _, B := range []int{1, 2, 3} {
			for k := 0; k < reps*len(limits)/3; k++ {
				l := pick(r, limits)
				store := [][2]string{}
				for gi := 0; gi < 1+r.intn(4); gi++ {
					for j := 1; j <= 1+r.intn(3); j++ {
						store = append(store, [2]string{fmt.Sprintf("%c%d", 'a'+gi, j), fmt.Sprint(1 + r.intn(6))})
					}
				}
				c3zRunStmt(e, t, store, l[0], l[1], B)
			}
		}
	}
}

func c3zRunStmt(e *emitter, t c3zTpl, store [][2]string, start, limit, B int) {
	where := "key != 'zzzz'"
	q := "select " + t.sel + " where " + where
	if t.group != "" {
		q += " group by " + t.group
	}
	if limit >= 0 {
		q += fmt.Sprintf(" limit %d, %d", start, limit)
	}
	exprs := append(append(append([]string{}, t.groups...), t.keys...), t.args...)
	rows, ok := c3zOutcomes(store, where, exprs)
	if !ok {
		e.count("c3z:stmt_outcomes_not_recorded")
		e.m.OutOfModel++
		return
	}
	c := &c09Case{Kind: "stmt", Lazy: true, Query: q, Store: store, All: t.group == "", Fields: t.fields, Start: start, Limit: limit, B: B,
		Oracle: "select <e> where true, for every pair and every e of: " + strings.Join(exprs, " ; ")}
	for _, row := range rows {
		ng, nk := len(t.groups), len(t.keys)
		c.Pairs = append(c.Pairs, c09Pair{G: row[:ng], K: row[ng : ng+nk], A: row[ng+nk:]})
	}
	if !c09InModel(c) {
		e.count("stmt_out_of_model")
		e.m.OutOfModel++
		return
	}
	st := newStore(store)
	for _, batch := range []bool{false, true} {
		st2 := st.clone()
		var res runResult
		var sizes []int
		func() {
			defer func() {
				if rr := recover(); rr != nil {
					res.Panic = fmt.Sprint(rr)
				}
			}()
			kvql.PlanBatchSize = B
			kvql.EnableFieldCache = true
			plan, err := kvql.NewOptimizer(q).BuildPlan(st2)
			if err != nil {
				res.Err, res.BuildErr = err, true
				return
			}
			var rec *recPlan
			if ap, ok := plan.(*kvql.AggregatePlan); ok {
				rec = &recPlan{inner: ap.ChildPlan}
				ap.ChildPlan = rec
			}
			res = drainPlan(plan, batch, runResult{})
			if rec != nil {
				sizes = rec.sizes
			}
		}()
		if res.BuildErr {
			e.count("c3z:stmt_rejected_by_planner: " + t.sel)
			return
		}
		if batch {
			c.ObsBatch = c09ObsOf(res)
			c.Chunks = sizes
		} else {
			c.ObsRow = c09ObsOf(res)
		}
	}
	tot := 0
	for _, s := range c.Chunks {
		tot += s
	}
	if tot != len(c.Pairs) {
		c.Chunks = nil
	}
	e.count("c3z:stmt")
	c09Emit(e, c)
}
