package main

// C10: scalar functions and list indexing compute their documented values.
// Exhaustive over argument pools per function (constant and row-dependent arguments), plus
// seeded random typed expressions.  Observed: Expression.Execute on every pair; the Go side
// also requires ExecuteBatch and the constant folder to give the same value (content-wise).

import (
	"fmt"
	"strings"

	kvql "github.com/c4pt0r/kvql"
)

func init() { registry["C10"] = runC10 }

type c10Replay struct {
	Expr string `json:"expression"`
	What string `json:"what,omitempty"`
	Key  string `json:"key,omitempty"`
	Val  string `json:"value,omitempty"`
	Row  string `json:"row_mode,omitempty"`
	Bat  string `json:"batch_mode,omitempty"`
	Fold string `json:"folded,omitempty"`
}

func c10Case(e *emitter, expr string, bucket string) {
	fe, err := parseField(expr)
	if err != nil {
		e.count("rejected")
		return
	}
	term, ok := coqExpr(fe)
	if !ok {
		e.m.OutOfModel++
		return
	}
	obs := make([]string, len(evalPairs))
	rowCanon := make([]string, len(evalPairs))
	rowErr := make([]bool, len(evalPairs))
	anyPanic := ""
	for i, kv := range evalPairs {
		val, err, pn := execRow(fe, kv[0], kv[1], false)
		obs[i] = coqObs(val, err, pn)
		if pn != "" {
			anyPanic = pn
		}
		rowErr[i] = err != nil || pn != ""
		if !rowErr[i] {
			rowCanon[i] = canonCol(val)
		}
	}
	rp := c10Replay{Expr: expr}
	idx := e.add(fmt.Sprintf("Case %s %s", term, coqObsRows(evalPairs, obs)), rp, true)
	e.count(bucket)
	if anyPanic != "" {
		rp.What = "panic: " + anyPanic
		e.fail(idx, "evaluating the expression panics", "C10/panic", rp)
		return
	}
	// batch mode must agree with row mode wherever batch mode succeeds
	fe2, _ := parseField(expr)
	vals, berr, bpn := execBatch(fe2, evalPairs, false)
	if bpn != "" {
		rp.What = "panic in batch mode: " + bpn
		e.fail(idx, "evaluating the expression in batch mode panics", "C10/panic", rp)
		return
	}
	if berr == nil {
		for i := range evalPairs {
			if rowErr[i] || canonCol(vals[i]) != rowCanon[i] {
				rp.Key, rp.Val, rp.Row, rp.Bat = evalPairs[i][0], evalPairs[i][1], rowCanon[i], canonCol(vals[i])
				if rowErr[i] {
					rp.Row = "error"
				}
				e.fail(idx, "batch evaluation gives a different value than row evaluation", "C10/row-vs-batch", rp)
				return
			}
		}
	} else {
		e.count("batch_error")
	}
	// constant folding must not change the value
	fe3, _ := parseField(expr)
	var folded kvql.Expression
	func() {
		defer func() {
			if r := recover(); r != nil {
				anyPanic = fmt.Sprint(r)
			}
		}()
		eo := kvql.ExpressionOptimizer{Root: fe3}
		folded = eo.Optimize()
	}()
	if anyPanic != "" {
		rp.What = "panic in the constant folder: " + anyPanic
		e.fail(idx, "folding the expression panics", "C10/panic", rp)
		return
	}
	for i, kv := range evalPairs {
		if rowErr[i] {
			continue
		}
		val, err, pn := execRow(folded, kv[0], kv[1], false)
		if err != nil || pn != "" || canonCol(val) != rowCanon[i] {
			rp.Key, rp.Val, rp.Row, rp.Fold = kv[0], kv[1], rowCanon[i], fmt.Sprint(canonCol(val), err, pn)
			e.fail(idx, "the folded expression gives a different value", "C10/folded", rp)
			return
		}
	}
	// ... nor in batch mode (the plans run the FOLDED tree through ExecuteBatch)
	fvals, fberr, fbpn := execBatch(folded, evalPairs, false)
	if fbpn != "" {
		rp.What = "panic in batch mode on the folded expression: " + fbpn
		e.fail(idx, "evaluating the folded expression in batch mode panics", "C10/panic", rp)
		return
	}
	if fberr == nil {
		for i := range evalPairs {
			if rowErr[i] {
				continue // folding may remove a failing operand (C04 speaks of pairs on which the original evaluates)
			}
			if canonCol(fvals[i]) != rowCanon[i] {
				rp.Key, rp.Val, rp.Row, rp.Bat = evalPairs[i][0], evalPairs[i][1], rowCanon[i], canonCol(fvals[i])
				e.fail(idx, "batch evaluation of the folded expression gives a different value than row evaluation", "C10/folded-batch", rp)
				return
			}
		}
	}
}

func runC10(c *runCtx) error {
	r := newRng(c.seed)
	header := "From Coq Require Import List String ZArith.\nFrom KV Require Import Base.Bytes Model.Ast Model.Value Corr.EvalCommon Corr.C10.\nImport ListNotations.\nOpen Scope string_scope.\n"
	// json() cases (c10json.go) are XJCase terms of Corr/C10.v's xcase; the cases of this file are embedded
	header += "From KV Require Import Corr.C10Json.\nNotation case := xcase (only parsing).\nNotation mismatches := xmismatches (only parsing).\nNotation Case := XCase (only parsing).\n"
	e := newEmitter(c.out, "C10", header, 250)
	e.m.Rule = "every documented scalar function applied to every combination of arguments from small pools (texts incl. empty and separators at the ends, integers incl. int64 extremes, exactly representable floats, lists in every representation), with constant and with row-dependent arguments, evaluated on 11 stored pairs; plus seeded random typed expressions of depth <= 3; non-trivial = accepted by the checker; distinct = distinct expression trees"
	texts := []string{"''", "'a'", "'Ab,c'", "',a,'", "'12'", "'-7'", "'2.5'", "'abc'", "'9223372036854775807'", "'9223372036854775808'", "key", "value", "upper(value)"}
	ints := []string{"0", "1", "2", "7", "9223372036854775807", "int(value)", "strlen(key)"}
	flts := []string{"0.5", "2.0", "1.25", "float(value)"}
	seps := []string{"','", "'a'", "'ab'", "''", "'b,'"}
	lists := []string{"split(value, ',')", "split('a,b,,c', ',')", "list(1, 2, 3)", "list(0.5, 2)", "int_list(1, '2', value)", "float_list(1, 0.5)", "ilist(7)", "flist(2)", "list('3', 4.5)", "list(value, 2)"}
	for _, t := range texts {
		for _, f := range []string{"upper", "lower", "strlen", "int", "float", "str", "is_int", "is_float", "len"} {
			c10Case(e, fmt.Sprintf("%s(%s)", f, t), "fn="+f)
		}
		for _, s := range seps {
			c10Case(e, fmt.Sprintf("split(%s, %s)", t, s), "fn=split")
			c10Case(e, fmt.Sprintf("len(split(%s, %s))", t, s), "fn=len")
			c10Case(e, fmt.Sprintf("join(%s, %s, 'x', 3)", s, t), "fn=join")
			c10Case(e, fmt.Sprintf("split(join(%s, %s, 'p', 'q'), %s)", s, t, s), "split-join")
			c10Case(e, fmt.Sprintf("join(%s, split(%s, %s)[0], split(%s, %s)[1])", s, t, s, t, s), "join-split")
			for _, i := range []string{"0", "1", "2", "5"} {
				c10Case(e, fmt.Sprintf("split(%s, %s)[%s]", t, s, i), "index")
			}
		}
		for _, a := range []string{"0", "1", "2", "5"} {
			for _, b := range []string{"0", "1", "3", "100", "int(value)"} {
				c10Case(e, fmt.Sprintf("substr(%s, %s, %s)", t, a, b), "fn=substr")
			}
		}
		// positions given as constant expressions: the folder turns them into literals no query
		// text can spell (negative numbers); every mode must treat them like the computed value
		for _, a := range []string{"0 - 3", "1 - 2", "2 - 1", "0 - int(value)"} {
			for _, b := range []string{"2", "0 - 1", "5 - 2"} {
				c10Case(e, fmt.Sprintf("substr(%s, %s, %s)", t, a, b), "fn=substr/computed-position")
			}
		}
		c10Case(e, fmt.Sprintf("substr(%s, 1, 0 - 2)", t), "fn=substr/computed-position")
	}
	for _, i := range ints {
		for _, f := range []string{"str", "int", "float", "is_int", "is_float", "strlen"} {
			c10Case(e, fmt.Sprintf("%s(%s)", f, i), "fn="+f)
		}
		c10Case(e, fmt.Sprintf("int(str(%s))", i), "str-int")
	}
	for _, x := range flts {
		for _, f := range []string{"str", "int", "float", "is_int", "is_float"} {
			c10Case(e, fmt.Sprintf("%s(%s)", f, x), "fn="+f)
		}
	}
	for _, l := range lists {
		c10Case(e, l, "list-ctor")
		c10Case(e, "len("+l+")", "fn=len")
		for _, i := range []string{"0", "1", "2", "3"} {
			c10Case(e, fmt.Sprintf("%s[%s]", l, i), "index")
		}
		for _, l2 := range lists {
			c10Case(e, fmt.Sprintf("l2_distance(%s, %s)", l, l2), "fn=l2_distance")
			c10Case(e, fmt.Sprintf("cosine_distance(%s, %s)", l, l2), "fn=cosine_distance")
		}
	}
	// distance functions on coordinates whose squares do not fit 53 bits and on coordinates that
	// are not dyadic: the documented formula computes differences first
	for _, pr := range [][2]string{
		{"float_list(100000001, 7)", "float_list(100000000, 7)"}, {"int_list(100000001, 7)", "int_list(100000000, 7)"},
		{"list(100000001, 7)", "list(100000000, 2)"}, {"float_list(94906267, 1)", "float_list(94906266, 1)"},
		{"float_list(300000003, 400000004)", "float_list(300000000, 400000000)"}, {"list(0.1, 0.2)", "list(0.3, 0.7)"},
		{"float_list(1000000.1, 2)", "float_list(1000000.2, 2)"}, {"split('100000001,7', ',')", "int_list(100000000, 7)"},
		{"int_list(9007199254740992, 1)", "int_list(9007199254740991, 1)"},
	} {
		c10Case(e, fmt.Sprintf("l2_distance(%s, %s)", pr[0], pr[1]), "fn=l2_distance")
		c10Case(e, fmt.Sprintf("l2_distance(%s, %s)", pr[1], pr[0]), "fn=l2_distance")
		c10Case(e, fmt.Sprintf("cosine_distance(%s, %s)", pr[0], pr[1]), "fn=cosine_distance")
	}
	for _, a := range ints[:5] {
		for _, b := range append(ints[:4], flts[:2]...) {
			c10Case(e, fmt.Sprintf("list(%s, %s)", a, b), "list-ctor")
			c10Case(e, fmt.Sprintf("int_list(%s, %s)[1]", a, b), "index")
			c10Case(e, fmt.Sprintf("float_list(%s, %s)[0]", a, b), "index")
		}
	}
	// = / != on the numbers the conversion functions return: integer, float and mixed operands
	for _, a := range []string{"0.5", "1.5", "2.25", "float(value)", "float(strlen(key))", "int(value) * 0.5"} {
		for _, b := range []string{"0.5", "1.5", "2.25", "2", "int(value)", "float(value)", "strlen(key)"} {
			for _, op := range []string{"=", "!="} {
				c10Case(e, fmt.Sprintf("%s %s %s", a, op, b), "float-eq")
				c10Case(e, fmt.Sprintf("%s %s %s", b, op, a), "float-eq")
			}
		}
	}
	// long arguments: vectors / lists / texts well beyond anything a short enumeration reaches
	for _, n := range []int{16, 17, 20, 33, 70} {
		ones, zeros, asc := make([]string, n), make([]string, n), make([]string, n)
		for i := 0; i < n; i++ {
			ones[i], zeros[i], asc[i] = "1", "0", fmt.Sprint(i%7)
		}
		o, z, a := strings.Join(ones, ", "), strings.Join(zeros, ", "), strings.Join(asc, ", ")
		c10Case(e, fmt.Sprintf("l2_distance(list(%s), list(%s))", o, z), "long")
		c10Case(e, fmt.Sprintf("l2_distance(int_list(%s), list(%s))", a, z), "long")
		c10Case(e, fmt.Sprintf("cosine_distance(list(%s), list(%s))", a, o), "long")
		c10Case(e, fmt.Sprintf("len(int_list(%s))", a), "long")
		c10Case(e, fmt.Sprintf("int_list(%s)[%d]", a, n-1), "long")
		c10Case(e, fmt.Sprintf("join(',', %s)", a), "long")
		c10Case(e, fmt.Sprintf("len(split(join(',', %s), ','))", a), "long")
		c10Case(e, fmt.Sprintf("strlen(upper(join('', %s, key)))", strings.Join(ones, ", ")), "long")
		c10Case(e, fmt.Sprintf("substr(join('', %s), %d, %d)", o, n-3, n+5), "long")
	}
	// arity
	for _, x := range []string{"upper()", "upper(key, key)", "join()", "join(',')", "substr(key, 1)", "list()", "split(key)", "nosuchfn(key)", "len()"} {
		c10Case(e, x, "arity")
	}
	c10StmtStream(e, c)
	n := 300
	if c.thorough() || c.search {
		n = 6000
	}
	g := newEgen(r)
	for i := 0; i < n; i++ {
		t := pick(r, []gty{gStr, gInt, gFlt, gBool, gList})
		c10Case(e, g.gen(t, 1+r.intn(3)), "random")
	}
	c10JsonStream(e, c, newRng(c.seed+0x10a))
	return e.flush()
}

// c10StmtStream: the same functions inside whole statements over a store of several batches
// (80 pairs, batch size 32 and 7): state carried from one chunk to the next (cached columns,
// parsed documents) shows only there.  Direct verdicts: batch drain = row drain, and every
// returned column = the expression evaluated on that row's pair alone.
// c10AliasStream: function arguments that reach the row only through a select-field NAME.  The
// statement with names must return what the statement with the definitions written out returns,
// in both modes (a dispatcher that decides "this call does not depend on the row" must see
// through names).
func c10AliasStream(e *emitter, kvs [][2]string) {
	pairs := [][2]string{
		{"select key, value as v, upper(v), split(v, ',')[0], int_list(strlen(v), 1)[0] where key ^= 'm'",
			"select key, value, upper(value), split(value, ',')[0], int_list(strlen(value), 1)[0] where key ^= 'm'"},
		{"select key, split(value, ',') as p, len(p), join('-', p[0], p[1]), upper(p[1]) where key ^= 'm' & len(p) = 3",
			"select key, split(value, ','), len(split(value, ',')), join('-', split(value, ',')[0], split(value, ',')[1]), upper(split(value, ',')[1]) where key ^= 'm' & len(split(value, ',')) = 3"},
		{"select key, int(split(value, ',')[0]) as n, str(n), float(n) / 2, is_int(str(n)), list(n, n + 1)[1] where key ^= 'm' & n > 3",
			"select key, int(split(value, ',')[0]), str(int(split(value, ',')[0])), float(int(split(value, ',')[0])) / 2, is_int(str(int(split(value, ',')[0]))), list(int(split(value, ',')[0]), int(split(value, ',')[0]) + 1)[1] where key ^= 'm' & int(split(value, ',')[0]) > 3"},
		{"select key as k, strlen(k), substr(k, 1, 2), lower(upper(k)), cosine_distance(list(strlen(k), 1), list(1, 1)) where k ^= 'm1'",
			"select key, strlen(key), substr(key, 1, 2), lower(upper(key)), cosine_distance(list(strlen(key), 1), list(1, 1)) where key ^= 'm1'"},
	}
	for pi, pq := range pairs {
		var ref string
		for _, md := range []struct {
			batch bool
			B     int
		}{{false, 32}, {true, 32}, {true, 7}, {true, 1}} {
			for which, query := range pq {
				res := runQuery(query, newStore(kvs), md.batch, md.B, true)
				rp := c10Replay{Expr: query, What: fmt.Sprintf("batch=%v B=%d store=160 pairs; statement with names vs definitions written out: %q", md.batch, md.B, pq[1])}
				idx := e.add(fmt.Sprintf("Case (EBool 0 true) [] (* alias statement %d.%d *)", pi, which), rp, true)
				e.count("alias_statement")
				if res.Panic != "" || res.Err != nil {
					e.fail(idx, "the statement fails: "+res.Panic+fmt.Sprint(res.Err), "C10/alias-stmt-fails", rp)
					continue
				}
				got := fmt.Sprint(canonRows(res.Rows))
				if ref == "" {
					ref = got
				} else if got != ref {
					rp.Row, rp.Bat = ref[:min(len(ref), 300)], got[:min(len(got), 300)]
					e.fail(idx, "function results over a named field differ from the results over its definition (or between the modes)", "C10/alias-args", rp)
				}
			}
		}
	}
}

func c10StmtStream(e *emitter, c *runCtx) {
	kvs := [][2]string{}
	for i := 0; i < 80; i++ {
		doc := fmt.Sprintf(`{"id": %d, "tag": "t%d", "l": [%d, %d, "s%d"], "o": {"p": "q%d"}}`, i, i%7, i, i*2, i, i%5)
		kvs = append(kvs, [2]string{fmt.Sprintf("k%02d", i), doc})
	}
	for i := 0; i < 80; i++ {
		kvs = append(kvs, [2]string{fmt.Sprintf("m%02d", i), fmt.Sprintf("%d,a%d,%d", i, i%4, i*3)})
	}
	type q struct{ field, where string }
	qs := []q{
		{"json(value)['tag']", "key ^= 'k' & json(value)['tag'] = 't3'"},
		{"json(value)['o']['p']", "key ^= 'k' & json(value)['o']['p'] != 'q0'"},
		{"json(value)['l'][2]", "key ^= 'k' & json(value)['l'][2] ^= 's1'"},
		{"split(value, ',')[1]", "key ^= 'm' & split(value, ',')[1] = 'a2'"},
		{"len(split(value, ','))", "key ^= 'm' & int(split(value, ',')[0]) > 40"},
		{"split('x,y,z', ',')[1]", "key ^= 'm'"},
		{"len(split('x,y,z', ','))", "key ^= 'm' & len(split('x,y,z', ',')) = 3"},
		{"json('{\"x\":{\"y\":\"deep\"}}')['x']['y']", "key ^= 'k'"},
		{"upper(split(value, ',')[1]) + str(strlen(key))", "key ^= 'm' & substr(value, 0, 1) != '1'"},
		{"int(split(value, ',')[2]) - int(split(value, ',')[0])", "key ^= 'm' & int(split(value, ',')[2]) / 3 = int(split(value, ',')[0])"},
		{"l2_distance(list(1, 2, 3, 4, 5, 6, 7, 8, 9, 10, 11, 12, 13, 14, 15, 16, 17, 18), list(0, 0, 0, 0, 0, 0, 0, 0, 0, 0, 0, 0, 0, 0, 0, 0, 0, 0))", "key ^= 'm0'"},
		{"join('-', split(value, ',')[0], split(value, ',')[1], strlen(value))", "key ^= 'm' & is_int(split(value, ',')[0])"},
		{"list(int(split(value, ',')[0]), 2)[0]", "key ^= 'm' & float_list(split(value, ',')[0], 1)[0] > 10.5"},
		{"int(str(int(split(value, ',')[0]) * 100000000000))", "key ^= 'm'"},
		// constant arguments with long fractions / many digits: what the statement returns for a
		// constant call is what the function returns for those arguments (folding must not round)
		{"float('0.0078125')", "key ^= 'm0'"},
		{"float('0.00006103515625') * 16384", "key ^= 'm0'"},
		{"str(float('0.0078125') * 128)", "key ^= 'm0'"},
		{"float(0.0000001) * 10000000", "key ^= 'm0'"},
		{"float('123456789.015625') - 123456789", "key ^= 'm0'"},
		{"int('9007199254740993') - 9007199254740992", "key ^= 'm0'"},
		{"str(9007199254740993)", "key ^= 'm0'"},
		{"float('0.5') + float(value) * 0", "key ^= 'm0' & float('0.0078125') * 128 = 1.0"},
	}
	c10AliasStream(e, kvs)
	for qi, x := range qs {
		query := fmt.Sprintf("select key, %s where %s", x.field, x.where)
		fe, perr := parseField(x.field)
		var rowRes runResult
		for _, md := range []struct {
			batch bool
			B     int
		}{{false, 32}, {true, 32}, {true, 7}} {
			res := runQuery(query, newStore(kvs), md.batch, md.B, true)
			rp := c10Replay{Expr: query, What: fmt.Sprintf("batch=%v B=%d store=160 pairs", md.batch, md.B)}
			idx := e.add(fmt.Sprintf("Case (EBool 0 true) [] (* statement %d *)", qi), rp, true)
			e.count("statement")
			if res.Panic != "" {
				e.fail(idx, "the statement panics: "+res.Panic, "C10/panic", rp)
				continue
			}
			if !md.batch {
				rowRes = res
				if res.Err == nil && perr == nil {
					for _, row := range res.Rows {
						k, _ := row[0].([]byte)
						v, _ := newStore(kvs).Get(k)
						val, verr, pn := execRow(fe, string(k), string(v), false)
						if verr != nil || pn != "" || canonCol(val) != canonCol(row[1]) {
							rp.Key, rp.Row, rp.Fold = string(k), canonCol(row[1]), fmt.Sprint(canonCol(val), verr, pn)
							e.fail(idx, "a select field differs from its expression evaluated on that row's pair", "C10/stmt-vs-expr", rp)
							break
						}
					}
				}
				continue
			}
			if res.Err != nil {
				e.count("batch_error")
				continue
			}
			if rowRes.Err != nil || fmt.Sprint(canonRows(res.Rows)) != fmt.Sprint(canonRows(rowRes.Rows)) {
				rp.Row, rp.Bat = fmt.Sprint(len(rowRes.Rows), " rows ", rowRes.Err), fmt.Sprint(len(res.Rows), " rows")
				e.fail(idx, "draining the statement in batches gives other rows than row-at-a-time", "C10/row-vs-batch", rp)
			}
		}
	}
}
