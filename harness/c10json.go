package main

// C10, json() and JSON navigation: access chains  json(arg)['a']['b'][1]...  over generated
// documents (stored values and constants), evaluated by Expression.Execute on every pair and by
// ExecuteBatch on the whole chunk; the twin (Model/Json.v: jeval / jeval_batch with the JSON
// text fragment standing in for encoding/json) is evaluated on the same trees and pairs by
// Corr/C10Json.v.  Direct verdicts on the Go side: batch mode = row mode, the constant-folded
// tree = the tree as parsed, a statement's column = the expression on that row's pair.

import (
	"fmt"
	"sort"
	"strings"

	kvql "github.com/c4pt0r/kvql"
)

func coqJCanon(c any) string {
	list := func(n int, at func(int) any) string {
		p := make([]string, n)
		for i := 0; i < n; i++ {
			p[i] = coqJCanon(at(i))
		}
		return "(JCList " + coqList(p) + ")"
	}
	obj := func(m map[string]any) string {
		ks := make([]string, 0, len(m))
		for k := range m {
			ks = append(ks, k)
		}
		sort.Strings(ks)
		p := make([]string, len(ks))
		for i, k := range ks {
			p[i] = fmt.Sprintf("(%s, %s)", coqStr(k), coqJCanon(m[k]))
		}
		return "(JCObj " + coqList(p) + ")"
	}
	switch v := c.(type) {
	case nil:
		return "JCNil"
	case []byte:
		return "(JCText " + coqStr(string(v)) + ")"
	case string:
		return "(JCText " + coqStr(v) + ")"
	case bool:
		return "(JCBool " + coqBool(v) + ")"
	case int:
		return fmt.Sprintf("(JCInt (%d))", v)
	case int64:
		return fmt.Sprintf("(JCInt (%d))", v)
	case float64:
		return "(JCFlt " + fcodeTerm(v) + ")"
	case []string:
		return list(len(v), func(i int) any { return v[i] })
	case []int64:
		return list(len(v), func(i int) any { return v[i] })
	case []float64:
		return list(len(v), func(i int) any { return v[i] })
	case []any:
		return list(len(v), func(i int) any { return v[i] })
	case kvql.JSON:
		return obj(map[string]any(v))
	case map[string]any:
		return obj(v)
	default:
		return "JCOther"
	}
}

func coqErrClass(err error) (int, int) {
	o := coqObs(nil, err, "") // (OErr cls (pos))
	var cls, pos int
	fmt.Sscanf(o, "(OErr %d (%d))", &cls, &pos)
	if cls == 3 {
		pos = 0
	}
	return cls, pos
}

func coqJObs(val any, err error, pn string) string {
	if pn != "" {
		return "JOPanic"
	}
	if err != nil {
		cls, pos := coqErrClass(err)
		return fmt.Sprintf("(JOErr %d (%d))", cls, pos)
	}
	return "(JOVal " + coqJCanon(val) + ")"
}

type c10jReplay struct {
	Expr  string      `json:"expression"`
	Pairs [][2]string `json:"pairs,omitempty"`
	What  string      `json:"what,omitempty"`
	Key   string      `json:"key,omitempty"`
	Val   string      `json:"value,omitempty"`
	Row   string      `json:"row_mode,omitempty"`
	Bat   string      `json:"batch_mode,omitempty"`
	Fold  string      `json:"folded,omitempty"`
}

// one access chain on one chunk of pairs
func c10JsonCase(e *emitter, expr string, pairs [][2]string, bucket string) {
	fe, err := parseField(expr)
	if err != nil {
		e.count("json_rejected")
		return
	}
	term, ok := coqExpr(fe)
	if !ok {
		e.m.OutOfModel++
		return
	}
	rows := make([]string, len(pairs))
	rowCanon := make([]string, len(pairs))
	rowErr := make([]bool, len(pairs))
	anyPanic, anyErr := "", false
	for i, kv := range pairs {
		val, err, pn := execRow(fe, kv[0], kv[1], false)
		rows[i] = fmt.Sprintf("(%s, %s, %s)", coqStr(kv[0]), coqStr(kv[1]), coqJObs(val, err, pn))
		if pn != "" {
			anyPanic = pn
		}
		rowErr[i] = err != nil || pn != ""
		anyErr = anyErr || rowErr[i]
		if !rowErr[i] {
			rowCanon[i] = canonCol(val)
		}
	}
	fe2, _ := parseField(expr)
	vals, berr, bpn := execBatch(fe2, pairs, false)
	bobs := "JBPanic"
	if bpn == "" && berr != nil {
		cls, pos := coqErrClass(berr)
		bobs = fmt.Sprintf("(JBErr %d (%d))", cls, pos)
	} else if bpn == "" {
		p := make([]string, len(vals))
		for i, v := range vals {
			p[i] = coqJCanon(v)
		}
		bobs = "(JBVals " + coqList(p) + ")"
	}
	rp := c10jReplay{Expr: expr, Pairs: pairs}
	idx := e.add(fmt.Sprintf("XJCase %s %s %s", term, coqList(rows), bobs), rp, true)
	e.count(bucket)
	if anyPanic != "" || bpn != "" {
		rp.What = "panic: " + anyPanic + bpn
		e.fail(idx, "evaluating the JSON access panics", "C10/panic", rp)
		return
	}
	// batch mode = row mode
	if berr == nil {
		if len(vals) != len(pairs) {
			rp.What = fmt.Sprintf("batch column of %d values for %d pairs", len(vals), len(pairs))
			e.fail(idx, "the batch column has the wrong length", "C10/json-row-vs-batch", rp)
			return
		}
		for i := range pairs {
			if rowErr[i] || canonCol(vals[i]) != rowCanon[i] {
				rp.Key, rp.Val, rp.Row, rp.Bat = pairs[i][0], pairs[i][1], rowCanon[i], canonCol(vals[i])
				if rowErr[i] {
					rp.Row = "error"
				}
				e.fail(idx, "batch evaluation of a JSON access gives a different value than row evaluation", "C10/json-row-vs-batch", rp)
				return
			}
		}
	} else {
		e.count("json_batch_error")
		if !anyErr {
			rp.Bat = berr.Error()
			e.fail(idx, "batch evaluation of a JSON access fails where every row evaluates", "C10/json-row-vs-batch", rp)
			return
		}
	}
	// the constant folder must not change the value
	fe3, _ := parseField(expr)
	var folded kvql.Expression
	fpn := ""
	func() {
		defer func() {
			if r := recover(); r != nil {
				fpn = fmt.Sprint(r)
			}
		}()
		eo := kvql.ExpressionOptimizer{Root: fe3}
		folded = eo.Optimize()
	}()
	if fpn != "" {
		rp.What = "panic in the constant folder: " + fpn
		e.fail(idx, "folding the JSON access panics", "C10/panic", rp)
		return
	}
	for i, kv := range pairs {
		if rowErr[i] {
			continue
		}
		val, err, pn := execRow(folded, kv[0], kv[1], false)
		if err != nil || pn != "" || canonCol(val) != rowCanon[i] {
			rp.Key, rp.Val, rp.Row, rp.Fold = kv[0], kv[1], rowCanon[i], fmt.Sprint(canonCol(val), err, pn)
			e.fail(idx, "the folded JSON access gives a different value", "C10/json-folded", rp)
			return
		}
	}
}

// ---------------------------------------------------------------- documents

type jgen struct{ r *rng }

func (g *jgen) ws() string {
	switch g.r.intn(6) {
	case 0:
		return " "
	case 1:
		return "\n"
	case 2:
		return " \t"
	case 3:
		return "\r\n "
	}
	return ""
}

var jNames = []string{"a", "b", "l", "o", "a", "s", "n", "b", "key with space", ""}
var jStrs = []string{"", "x", "a b", "t3", "{not json}", "[1]", "12", "A~z"}
var jNums = []string{"0", "1", "2", "-7", "2.5", "-0.25", "10", "1.5", "100", "0.125", "-0", "3.0", "123456789", "1048576"}

func (g *jgen) val(depth int) string {
	k := g.r.intn(10)
	if depth <= 0 && k < 5 {
		k = 5 + g.r.intn(5)
	}
	switch {
	case k < 3: // object
		n := g.r.intn(4)
		var b strings.Builder
		b.WriteString("{" + g.ws())
		for i := 0; i < n; i++ {
			if i > 0 {
				b.WriteString("," + g.ws())
			}
			b.WriteString(`"` + pick(g.r, jNames) + `"` + g.ws() + ":" + g.ws() + g.val(depth-1) + g.ws())
		}
		b.WriteString("}")
		return b.String()
	case k < 5: // array
		n := g.r.intn(4)
		var b strings.Builder
		b.WriteString("[" + g.ws())
		for i := 0; i < n; i++ {
			if i > 0 {
				b.WriteString("," + g.ws())
			}
			b.WriteString(g.val(depth-1) + g.ws())
		}
		b.WriteString("]")
		return b.String()
	case k < 7:
		return `"` + pick(g.r, jStrs) + `"`
	case k < 9:
		return pick(g.r, jNums)
	default:
		return pick(g.r, []string{"true", "false", "null"})
	}
}

// an object whose members are drawn so that the paths below hit something
func (g *jgen) top() string {
	n := 1 + g.r.intn(5)
	var b strings.Builder
	b.WriteString(g.ws() + "{" + g.ws())
	for i := 0; i < n; i++ {
		if i > 0 {
			b.WriteString("," + g.ws())
		}
		b.WriteString(`"` + pick(g.r, jNames[:8]) + `"` + g.ws() + ":" + g.ws() + g.val(2) + g.ws())
	}
	b.WriteString("}" + g.ws())
	return b.String()
}

// texts the fragment covers (valid and invalid JSON), written out
var jFixedDocs = []string{
	``, ` `, `{}`, ` { } `, `[]`, `[1,2]`, `null`, `7`, `"s"`, `true`,
	`{"a":1}`, `{"a":{"b":[1,"x",{"c":null}]},"l":[1,2.5,"s",[3]],"s":"","t":true,"n":null,"o":{}}`,
	` { "a" : 1 , "a" : 2 } `, `{"a":{"b":1},"a":{"c":2}}`, `{"a":[1],"a":"later"}`,
	`{"l":[[["deep"]]],"a":{"b":{"b":{"b":"x"}}}}`, `{"a":{"b":[0,1,2,3,4,5,6,7,8,9,10,11]}}`,
	`{"a":"","l":"","s":{"q":1}}`, `{"a":"text","l":"text"}`, `{"a":12,"l":2.5}`, `{"a":true,"l":false}`, `{"a":null,"l":null}`,
	`{"a":[],"l":{}}`, `{"a":[{"b":[7,8]},{"b":"second"}],"l":[{"a":1}]}`,
	// not JSON: nothing is decoded
	`{"a":1}x`, `{"a":01}`, `{"a":`, `{"a" 1}`, `{'a':1}`, `[1,]`, `{"a":1,}`, `nul`, `{"a":-}`, `{"a":1.}`, `{"a":.5}`,
	`{"a":tru e}`, `{"a":1 "b":2}`, `{"a":1}}`, `{{"a":1}`, `{"a":[1,2}`, `{a:1}`, `{"a":+1}`, `{"a":1,"l":[1 2]}`, `{"a":"unterminated}`,
	"{\"a\":\"tab\tinside\"}", `{"a":1}{"a":2}`, `{"a":1} {"a":2}`, `{"a":00}`, `{"a":-01}`, `{"a":1..2}`, `{"a":1-2}`, `{"a":truee}`, `{"a":nulll,"l":1}`,
}

// texts outside the fragment: counted (code 99), never compared
var jUnsupportedDocs = []string{
	`{"a":1e2}`, `{"a":1E-2,"l":[1]}`, `{"a":"line\nbreak"}`, `{"a":"q\"uote"}`, "{\"a\":\"é\"}",
	"{\"a\":\"\xff\"}", `{"a":9007199254740993,"l":[1]}`, `{"a":1e}`, `{"a":"\x"}`,
}

var jPaths = []string{
	`['a']`, `['a']['b']`, `['a']['b'][1]`, `['a']['b'][0]`, `['a']['b'][11]`, `['a']['b']['b']['b']`, `['a']['c']`,
	`['l']`, `['l'][0]`, `['l'][2]`, `['l'][3][0]`, `['l'][5]`, `['l']['x']`, `['l'][0][0][0]`, `['l'][0]['a']`,
	`['a'][0]`, `['a'][0]['b'][1]`, `['a'][1]['b']`, `['s']`, `['s']['q']`, `['s'][0]`, `['t']`, `['t']['x']`, `['n']`, `['n'][0]`,
	`['o']`, `['o']['p']`, `['zz']`, `['zz']['y'][3]['w']`, `['b']`, `['b'][0]`, `['key with space']`, `['']`, `['A']`,
	`['a'][99999999999999999999]`, `['l'][007]`,
}

func c10JsonStream(e *emitter, c *runCtx, r *rng) {
	g := &jgen{r: r}
	nrand := 48
	if c.thorough() || c.search {
		nrand = 600
	}
	docs := append([]string{}, jFixedDocs...)
	for i := 0; i < nrand; i++ {
		if r.chance(1, 8) {
			docs = append(docs, g.ws()+g.val(3)+g.ws()) // any top-level value
		} else {
			docs = append(docs, g.top())
		}
	}
	// stored values, six documents to a chunk
	const per = 6
	for start := 0; start < len(docs); start += per {
		end := start + per
		if end > len(docs) {
			end = len(docs)
		}
		pairs := make([][2]string, 0, per)
		for i := start; i < end; i++ {
			pairs = append(pairs, [2]string{fmt.Sprintf("j%03d", i), docs[i]})
		}
		for _, p := range jPaths {
			c10JsonCase(e, "json(value)"+p, pairs, "json_stored")
		}
		c10JsonCase(e, "json(value)", pairs, "json_whole")
		c10JsonCase(e, "json(key)['a']", pairs, "json_other_arg")
		c10JsonCase(e, "json(strlen(value))['a']", pairs, "json_other_arg")
		c10JsonCase(e, "json(upper(key))['a'][0]", pairs, "json_other_arg")
		c10JsonCase(e, "json(value)[0]", pairs, "json_other_arg")
		c10JsonCase(e, "json(value)['a', 'b']", pairs, "json_other_arg")
		c10JsonCase(e, "json(value)[key]", pairs, "json_other_arg")
		c10JsonCase(e, "split(value, ',')[0]['a']", pairs, "json_list_left")
		c10JsonCase(e, "split(value, ',')[9]['a'][2]", pairs, "json_list_left")
		c10JsonCase(e, "split(value, ':')[1][0]", pairs, "json_list_left")
	}
	for _, d := range jUnsupportedDocs {
		pairs := [][2]string{{"u", d}}
		for _, p := range []string{`['a']`, `['l'][0]`, ``} {
			c10JsonCase(e, "json(value)"+p, pairs, "json_unsupported_text")
		}
	}
	// constants
	cpairs := [][2]string{{"k1", "v1"}, {"k2", ""}}
	for i, d := range docs {
		if strings.ContainsAny(d, "'\\") || i%2 == 1 && i >= len(jFixedDocs) {
			continue
		}
		for _, p := range []string{`['a']`, `['a']['b']`, `['a']['b'][1]`, `['l'][0]`, `['l'][2]`, `['s']['q']`, `['a'][0]`, `['l']['x']`} {
			c10JsonCase(e, "json('"+d+"')"+p, cpairs, "json_constant")
		}
	}
	c10JsonStmtStream(e, docs)
}

// whole statements over a store of documents (several batches): batch drain = row drain and
// every returned column = the expression on that row's pair
func c10JsonStmtStream(e *emitter, docs []string) {
	kvs := [][2]string{}
	for i, d := range docs {
		kvs = append(kvs, [2]string{fmt.Sprintf("j%03d", i), d})
	}
	for qi, p := range []string{`['a']`, `['a']['b']`, `['l'][0]`, `['l'][2]`, `['s']['q']`, `['zz']['y'][3]`, `['o']['p']`, `['a']['b'][1]`, `['l']['x']`, `['a'][0]`} {
		field := "json(value)" + p
		query := fmt.Sprintf("select key, %s where key ^= 'j'", field)
		fe, perr := parseField(field)
		var rowRes runResult
		for _, md := range []struct {
			batch bool
			B     int
		}{{false, 32}, {true, 32}, {true, 7}, {true, 1}} {
			res := runQuery(query, newStore(kvs), md.batch, md.B, true)
			rp := c10jReplay{Expr: query, What: fmt.Sprintf("batch=%v B=%d store=%d documents", md.batch, md.B, len(kvs))}
			idx := e.add(fmt.Sprintf("Case (EBool 0 true) [] (* json statement %d *)", qi), rp, true)
			e.count("json_statement")
			if res.Panic != "" {
				e.fail(idx, "the statement panics: "+res.Panic, "C10/panic", rp)
				continue
			}
			if !md.batch {
				rowRes = res
				if perr == nil {
					for _, row := range res.Rows {
						k, _ := row[0].([]byte)
						v, _ := newStore(kvs).Get(k)
						val, verr, pn := execRow(fe, string(k), string(v), false)
						if verr != nil || pn != "" || canonCol(val) != canonCol(row[1]) {
							rp.Key, rp.Row, rp.Fold = string(k), canonCol(row[1]), fmt.Sprint(canonCol(val), verr, pn)
							e.fail(idx, "a select field differs from its JSON access evaluated on that row's pair", "C10/json-stmt", rp)
							break
						}
					}
				}
				continue
			}
			if (res.Err != nil) != (rowRes.Err != nil) {
				rp.Row, rp.Bat = fmt.Sprint(rowRes.Err), fmt.Sprint(res.Err)
				e.fail(idx, "the statement fails in one mode only", "C10/json-stmt", rp)
				continue
			}
			if res.Err != nil {
				e.count("json_statement_error")
				continue
			}
			if fmt.Sprint(canonRows(res.Rows)) != fmt.Sprint(canonRows(rowRes.Rows)) {
				rp.Row, rp.Bat = fmt.Sprint(len(rowRes.Rows), " rows"), fmt.Sprint(len(res.Rows), " rows")
				e.fail(idx, "draining the JSON statement in batches gives other rows than row-at-a-time", "C10/json-stmt", rp)
			}
		}
	}
}
