package main

// C11: DELETE removes exactly the pairs its WHERE (and LIMIT) selects, nothing else.
//  part A  curated predicates hitting every access path (full, prefix, range, point reads, the
//          RemovePlan shortcut, unsatisfiable, OR/AND mixes) x limits x batch sizes {1,2,3,32}
//          x prior states whose result sizes straddle the batch size, both polling modes;
//  part B  seeded random predicate trees (depth <= 2 over key/value atoms) x random limits,
//          states and batch sizes;
//  part C  B = 32 with states larger than a batch (several BatchDelete calls);
//  part D  random statement sequences (length <= 12) of put / remove / delete / select on one
//          storage against a model map kept by the harness.
// Per delete case the harness records: the plan BuildPlan built (read off its public fields),
// the per-pair verdict of the implementation's own FilterExec.Filter on every pair of the prior
// state, the storage call log, the final state, and what `select * where P [limit]` returns on
// a clone of the prior state.  The generator's own reading of each predicate (a Go closure) is
// used for the direct verdict on the implementation.

import (
	"fmt"
	"sort"
	"strings"

	kvql "github.com/c4pt0r/kvql"
)

func init() { registry["C11"] = runC11 }

// ---------------------------------------------------------------- predicates

type c11Pred struct {
	text  string
	match func(k, v string) bool
}

func c11Q(s string) string { return "'" + s + "'" }

func c11In(k string, ls ...string) bool {
	for _, l := range ls {
		if k == l {
			return true
		}
	}
	return false
}

// curated predicates: every access path, the shortcut, and mixes
var c11Curated = []c11Pred{
	// full scans
	{"value = 'x'", func(k, v string) bool { return v == "x" }},
	{"value ^= 'x'", func(k, v string) bool { return strings.HasPrefix(v, "x") }},
	{"!(key = 'a')", func(k, v string) bool { return k != "a" }},
	{"true", func(k, v string) bool { return true }},
	{"key ^= 'a' | key ^= 'b'", func(k, v string) bool { return strings.HasPrefix(k, "a") || strings.HasPrefix(k, "b") }},
	{"key = 'a' | value = 'y'", func(k, v string) bool { return k == "a" || v == "y" }},
	// prefix scans
	{"key ^= 'a'", func(k, v string) bool { return strings.HasPrefix(k, "a") }},
	{"key ^= 'a' & value = 'x'", func(k, v string) bool { return strings.HasPrefix(k, "a") && v == "x" }},
	{"key ^= 'ab' | key ^= 'a'", func(k, v string) bool { return strings.HasPrefix(k, "a") }},
	{"key ^= 'zz'", func(k, v string) bool { return strings.HasPrefix(k, "zz") }},
	{"key ^= 'a' | key = 'ab'", func(k, v string) bool { return strings.HasPrefix(k, "a") }},
	// range scans
	{"key > 'ab' & key <= 'c'", func(k, v string) bool { return k > "ab" && k <= "c" }},
	{"key >= 'b'", func(k, v string) bool { return k >= "b" }},
	{"key < 'b'", func(k, v string) bool { return k < "b" }},
	{"'b' > key & value = 'x'", func(k, v string) bool { return k < "b" && v == "x" }},
	{"key between 'ab' and 'c'", func(k, v string) bool { return k >= "ab" && k <= "c" }},
	{"key > 'c' | key < 'ab'", func(k, v string) bool { return k > "c" || k < "ab" }},
	{"key between 'a' and 'c' & key ^= 'b'", func(k, v string) bool { return k >= "a" && k <= "c" && strings.HasPrefix(k, "b") }},
	{"key >= 'b' | key = 'a'", func(k, v string) bool { return k >= "b" || k == "a" }},
	// point reads that stay a DeletePlan (AND in the filter, or a LIMIT)
	{"key in ('a', 'b', 'ba', 'd') & value = 'x'", func(k, v string) bool { return c11In(k, "a", "b", "ba", "d") && v == "x" }},
	{"key = 'a' & value ^= 'x'", func(k, v string) bool { return k == "a" && strings.HasPrefix(v, "x") }},
	{"(key = 'a' | key = 'b') & value = 'x'", func(k, v string) bool { return c11In(k, "a", "b") && v == "x" }},
	{"key in ('a', 'b', 'c') & key ^= 'a'", func(k, v string) bool { return k == "a" }},
	{"key in ('c', 'a', 'zz', 'ab', 'b') and key >= 'ab'", func(k, v string) bool { return c11In(k, "c", "zz", "ab", "b") }},
	// the RemovePlan shortcut (point reads, no LIMIT, no AND)
	{"key = 'a'", func(k, v string) bool { return k == "a" }},
	{"'ab' = key", func(k, v string) bool { return k == "ab" }},
	{"key in ('a', 'zz', 'c')", func(k, v string) bool { return c11In(k, "a", "zz", "c") }},
	{"key in ('c', 'a', 'c', 'nope')", func(k, v string) bool { return c11In(k, "a", "c") }},
	{"key = 'ab' | key = 'b'", func(k, v string) bool { return c11In(k, "ab", "b") }},
	{"key in ('a', 'b') or key = 'c' or false", func(k, v string) bool { return c11In(k, "a", "b", "c") }},
	{"key <= ''", func(k, v string) bool { return k == "" }},
	{"key = 'a' | key <= ''", func(k, v string) bool { return k == "a" || k == "" }},
	// unsatisfiable: EmptyResultPlan
	{"key = 'a' & key = 'b'", func(k, v string) bool { return false }},
	{"false", func(k, v string) bool { return false }},
	{"key < ''", func(k, v string) bool { return false }},
	{"key ^= 'a' & key ^= 'b'", func(k, v string) bool { return false }},
}

var c11Lits = []string{"a", "ab", "b", "ba", "c", "zz"}

// random predicate trees: atoms over key / value, combined with & | and or
func c11Atom(r *rng) c11Pred {
	l := pick(r, c11Lits)
	m := pick(r, c11Lits)
	switch r.intn(16) {
	case 0:
		return c11Pred{"key = " + c11Q(l), func(k, v string) bool { return k == l }}
	case 1:
		return c11Pred{c11Q(l) + " = key", func(k, v string) bool { return k == l }}
	case 2:
		return c11Pred{fmt.Sprintf("key in (%s, %s)", c11Q(l), c11Q(m)), func(k, v string) bool { return k == l || k == m }}
	case 3:
		return c11Pred{"key ^= " + c11Q(l), func(k, v string) bool { return strings.HasPrefix(k, l) }}
	case 4:
		return c11Pred{"key > " + c11Q(l), func(k, v string) bool { return k > l }}
	case 5:
		return c11Pred{"key >= " + c11Q(l), func(k, v string) bool { return k >= l }}
	case 6:
		return c11Pred{"key < " + c11Q(l), func(k, v string) bool { return k < l }}
	case 7:
		return c11Pred{"key <= " + c11Q(l), func(k, v string) bool { return k <= l }}
	case 8:
		return c11Pred{c11Q(l) + " > key", func(k, v string) bool { return k < l }}
	case 9:
		return c11Pred{c11Q(l) + " <= key", func(k, v string) bool { return k >= l }}
	case 10:
		lo, hi := l, m
		if lo > hi {
			lo, hi = hi, lo
		}
		if lo == hi {
			hi = hi + "z"
		}
		return c11Pred{fmt.Sprintf("key between %s and %s", c11Q(lo), c11Q(hi)), func(k, v string) bool { return k >= lo && k <= hi }}
	case 11:
		return c11Pred{"value = 'x'", func(k, v string) bool { return v == "x" }}
	case 12:
		return c11Pred{"value ^= 'x'", func(k, v string) bool { return strings.HasPrefix(v, "x") }}
	case 13:
		return c11Pred{"key != " + c11Q(l), func(k, v string) bool { return k != l }}
	case 14:
		return c11Pred{"value != 'x'", func(k, v string) bool { return v != "x" }}
	default:
		return c11Pred{fmt.Sprintf("key in (%s, %s, 'd')", c11Q(l), c11Q(m)), func(k, v string) bool { return k == l || k == m || k == "d" }}
	}
}

func c11Tree(r *rng, depth int) c11Pred {
	if depth == 0 || r.chance(1, 4) {
		return c11Atom(r)
	}
	a, b := c11Tree(r, depth-1), c11Tree(r, depth-1)
	switch r.intn(4) {
	case 0:
		return c11Pred{"(" + a.text + ") & (" + b.text + ")", func(k, v string) bool { return a.match(k, v) && b.match(k, v) }}
	case 1:
		return c11Pred{"(" + a.text + ") and (" + b.text + ")", func(k, v string) bool { return a.match(k, v) && b.match(k, v) }}
	case 2:
		return c11Pred{"(" + a.text + ") | (" + b.text + ")", func(k, v string) bool { return a.match(k, v) || b.match(k, v) }}
	default:
		return c11Pred{"(" + a.text + ") or (" + b.text + ")", func(k, v string) bool { return a.match(k, v) || b.match(k, v) }}
	}
}

// ---------------------------------------------------------------- states

var c11KeyPool = []string{"a", "ab", "b", "ba", "c", "zz", "abc", "ca", "d", "e", "zzz", "aa", "bb", "f"}

// c11Store: n keys of the pool; the keys the predicates name (the first six of the pool) are
// taken first, so that small states still hold pairs the predicates select
func c11Store(r *rng, n int, withEmptyKey bool) [][2]string {
	keys := append([]string{}, c11KeyPool...)
	shuffle := func(xs []string) {
		for i := len(xs) - 1; i > 0; i-- {
			j := r.intn(i + 1)
			xs[i], xs[j] = xs[j], xs[i]
		}
	}
	shuffle(keys[:6])
	shuffle(keys[6:])
	if n > len(keys) {
		n = len(keys)
	}
	keys = keys[:n]
	if withEmptyKey && n > 0 {
		keys[0] = ""
	}
	sort.Strings(keys)
	out := make([][2]string, len(keys))
	for i, k := range keys {
		out[i] = [2]string{k, pick(r, []string{"x", "x", "y", "xz"})}
	}
	return out
}

func c11BigStore(r *rng, n int) [][2]string {
	pre := []string{"a", "ab", "b", "c", "d"}
	seen := map[string]bool{}
	keys := []string{}
	for len(keys) < n {
		k := fmt.Sprintf("%s%02d", pick(r, pre), r.intn(60))
		if !seen[k] {
			seen[k] = true
			keys = append(keys, k)
		}
	}
	sort.Strings(keys)
	out := make([][2]string, n)
	for i, k := range keys {
		out[i] = [2]string{k, pick(r, []string{"x", "x", "y", "xz"})}
	}
	return out
}

// ---------------------------------------------------------------- observation helpers

type c11Limit struct {
	on   bool
	s, n int
}

func (l c11Limit) text() string {
	if !l.on {
		return ""
	}
	return fmt.Sprintf(" limit %d, %d", l.s, l.n)
}

func (l c11Limit) coq() string {
	if !l.on {
		return "None"
	}
	return fmt.Sprintf("(Some (%d, %d))", l.s, l.n)
}

func c11Slice(keys []string, l c11Limit) []string {
	if !l.on {
		return keys
	}
	s := l.s
	if s > len(keys) {
		s = len(keys)
	}
	out := keys[s:]
	if l.n < len(out) {
		out = out[:l.n]
	}
	return out
}

// the WHERE tree as the optimizer sees it (after constant folding) and the per-pair verdicts
// of the implementation's FilterExec on the given pairs
func c11Verdicts(pred string, kvs [][2]string) (keys []string, exprTerm string, ok bool) {
	defer func() {
		if r := recover(); r != nil {
			ok = false
		}
	}()
	sel, err := parseWhere(pred)
	if err != nil {
		return nil, "None", false
	}
	eo := kvql.ExpressionOptimizer{Root: sel.Where.Expr}
	sel.Where.Expr = eo.Optimize()
	exprTerm = "None"
	if t, okT := coqExpr(sel.Where.Expr); okT {
		exprTerm = "(Some " + t + ")"
	}
	fe := &kvql.FilterExec{Ast: sel.Where}
	for _, kv := range kvs {
		ctx := kvql.NewExecuteCtx()
		pass, err := fe.Filter(kvql.NewKVPStr(kv[0], kv[1]), ctx)
		if err != nil {
			return nil, exprTerm, false
		}
		if pass {
			keys = append(keys, kv[0])
		}
	}
	return keys, exprTerm, true
}

func c11ColBytes(c kvql.Column) string {
	switch x := c.(type) {
	case []byte:
		return string(x)
	case string:
		return x
	}
	return fmt.Sprint(c)
}

// dplan term of a built DELETE plan
func c11DPlan(plan kvql.FinalPlan) (term, path string, limited, ok bool) {
	switch x := plan.(type) {
	case *kvql.DeletePlan:
		t, p, okT := c13PlanTerm(x.ChildPlan)
		_, lim := x.ChildPlan.(*kvql.LimitPlan)
		return "(DScan " + t + ")", p, lim, okT
	case *kvql.RemovePlan:
		ks := make([]string, len(x.Keys))
		for i, ke := range x.Keys {
			se, isStr := ke.(*kvql.StringExpr)
			if !isStr {
				return "", "?", false, false
			}
			ks[i] = se.Data
		}
		return "(DRemove " + coqStrList(ks) + ")", "shortcut", false, true
	}
	return "", "?", false, false
}

// plan term of a built SELECT * [limit] plan (FinalLimitPlan over ProjectionPlan is rendered as
// a limit node over the scan: the two limit nodes are the same code)
func c11SelectPlan(plan kvql.FinalPlan) (string, bool) {
	switch x := plan.(type) {
	case *kvql.ProjectionPlan:
		t, _, ok := c13PlanTerm(x.ChildPlan)
		return t, ok
	case *kvql.FinalLimitPlan:
		pp, isP := x.ChildPlan.(*kvql.ProjectionPlan)
		if !isP || x.Start < 0 || x.Count < 0 {
			return "", false
		}
		t, _, ok := c13PlanTerm(pp.ChildPlan)
		return fmt.Sprintf("(PLimit %d %d %s)", x.Start, x.Count, t), ok
	}
	return "", false
}

func c11Writes(log []call) []call {
	var out []call
	for _, c := range log {
		if isWrite(c.Op) {
			out = append(out, c)
		}
	}
	return out
}

func c11Minus(kvs [][2]string, del []string) [][2]string {
	gone := map[string]bool{}
	for _, k := range del {
		gone[k] = true
	}
	out := [][2]string{}
	for _, kv := range kvs {
		if !gone[kv[0]] {
			out = append(out, kv)
		}
	}
	return out
}

func c11EqStrs(a, b []string) bool {
	if len(a) != len(b) {
		return false
	}
	for i := range a {
		if a[i] != b[i] {
			return false
		}
	}
	return true
}

// ---------------------------------------------------------------- one delete case

type c11Replay struct {
	Query    string      `json:"query"`
	Select   string      `json:"select_on_prior_state"`
	Plan     string      `json:"plan,omitempty"`
	Store    [][2]string `json:"prior_state"`
	Mode     string      `json:"mode"`
	B        int         `json:"batch_size"`
	Verdicts []string    `json:"keys_passing_the_filter"`
	Selected []string    `json:"keys_select_returns"`
	Required [][2]string `json:"required_final_state"`
	Final    [][2]string `json:"final_state"`
	Writes   []string    `json:"write_calls"`
	Outcome  string      `json:"outcome"`
	Panic    string      `json:"panic,omitempty"`
}

var c11ClassCode = map[string]int{"ok": 0, "storage": 1, "exec": 2, "syntax": 3, "other": 4}

func c11DeleteCase(e *emitter, p c11Pred, lim c11Limit, kvs [][2]string, batch bool, B int, origin string) {
	q := "delete where " + p.text + lim.text()
	q2 := "select * where " + p.text + lim.text()
	mode, modeN := "row", 0
	if batch {
		mode, modeN = "batch", 1
	}
	rp := c11Replay{Query: q, Select: q2, Store: kvs, Mode: mode, B: B}

	// the plan, from a scratch build
	kvql.PlanBatchSize = B
	kvql.EnableFieldCache = true
	var plan kvql.FinalPlan
	var berr error
	func() {
		defer func() {
			if r := recover(); r != nil {
				rp.Panic = fmt.Sprint(r)
			}
		}()
		plan, berr = kvql.NewOptimizer(q).BuildPlan(newStore(kvs))
	}()
	if rp.Panic != "" {
		e.m.OutOfModel++
		e.count("build_panic")
		return
	}
	if berr != nil {
		e.m.OutOfModel++
		e.count("rejected")
		if e.m.Dist["rejected"] <= 5 {
			e.m.Notes = append(e.m.Notes, "rejected (excluded): "+q+": "+berr.Error())
		}
		return
	}
	rp.Plan = strings.Join(plan.Explain(), " <- ")
	dpT, path, limited, ok := c11DPlan(plan)
	if !ok {
		e.m.OutOfModel++
		e.count("plan_shape_not_modelled")
		return
	}
	verd, exprT, vok := c11Verdicts(p.text, kvs)
	if !vok {
		e.m.OutOfModel++
		e.count("filter_does_not_evaluate")
		return
	}
	rp.Verdicts = verd

	// select * where P [limit] on a clone of the prior state
	sres := runQuery(q2, newStore(kvs), batch, B, true)
	if sres.Err != nil || sres.Panic != "" {
		e.m.OutOfModel++
		e.count("select_failed")
		return
	}
	var selKeys []string
	for _, row := range sres.Rows {
		if len(row) > 0 {
			selKeys = append(selKeys, c11ColBytes(row[0]))
		}
	}
	rp.Selected = selKeys

	// the delete itself
	st := newStore(kvs)
	res := runQuery(q, st, batch, B, true)
	rp.Outcome = errClass(res.Err)
	rp.Panic = res.Panic
	final := st.pairs()
	rp.Final = final
	rp.Writes = c12LogText(c11Writes(st.log))
	if rp.Outcome == "exec" {
		e.m.OutOfModel++
		e.count("evaluation_error_in_statement")
		return
	}

	// the generator's own reading of the statement
	var wantKeys []string
	for _, kv := range kvs {
		if p.match(kv[0], kv[1]) {
			wantKeys = append(wantKeys, kv[0])
		}
	}
	wantDel := c11Slice(wantKeys, lim)
	rp.Required = c11Minus(kvs, wantDel)

	term := fmt.Sprintf("KDelete (DCase %s %s %s %s %s %d %d %d %s %s %s)", coqPairs(kvs), coqStrList(verd), dpT, exprT,
		lim.coq(), B, modeN, c11ClassCode[rp.Outcome], c12CoqLog(st.log), coqPairs(final), coqStrList(selKeys))
	idx := e.add(term, rp, len(kvs) > 0)

	e.count("kind=delete")
	e.count("origin=" + origin)
	e.count("access=" + path)
	e.count("mode=" + mode)
	e.count(fmt.Sprintf("B=%d", B))
	if limited {
		e.count("limit=yes")
	} else {
		e.count("limit=no")
	}
	nd := len(wantDel)
	switch {
	case nd == 0:
		e.count("deleted=0")
	case nd < B:
		e.count("deleted<B")
	case nd == B:
		e.count("deleted=B")
	case nd < 2*B:
		e.count("deleted in (B,2B)")
	case nd%B == 0:
		e.count("deleted=kB,k>=2")
	default:
		e.count("deleted>2B")
	}
	if nd == len(kvs) && nd > 0 {
		e.count("deleted=everything")
	}
	nw := len(rp.Writes)
	switch {
	case nw == 0:
		e.count("write_calls=0")
	case nw == 1:
		e.count("write_calls=1")
	default:
		e.count("write_calls=2+")
	}

	// direct verdict on the implementation
	put := false
	for _, c := range st.log {
		if c.Op == "Put" || c.Op == "BatchPut" {
			put = true
		}
	}
	switch {
	case rp.Panic != "":
		e.fail(idx, "panic: "+rp.Panic, "C11/panic", rp)
	case rp.Outcome != "ok":
		e.fail(idx, "the DELETE failed: "+rp.Outcome, "C11/delete-fails", rp)
	case put:
		e.fail(idx, "a DELETE wrote a pair (Put / BatchPut)", "C11/delete-writes", rp)
	case !c12EqPairs(final, c11Minus(kvs, selKeys)):
		e.fail(idx, "the final state is not the prior state minus the keys that select * with the same WHERE and LIMIT returns on the prior state", "C11/delete-not-select", rp)
	case !c12EqPairs(final, rp.Required):
		e.fail(idx, "the final state is not the prior state minus the pairs the WHERE and LIMIT denote", "C11/delete-not-exact", rp)
	}
}

// ---------------------------------------------------------------- statement sequences

type c11Step struct {
	Query  string      `json:"query"`
	After  [][2]string `json:"state_after"`
	Model  [][2]string `json:"model_map_after"`
	Rows   [][2]string `json:"rows,omitempty"`
	Want   [][2]string `json:"rows_required,omitempty"`
	Status string      `json:"outcome"`
}

type c11HistReplay struct {
	Prior [][2]string `json:"prior_state"`
	B     int         `json:"batch_size"`
	Steps []c11Step   `json:"statements"`
	What  string      `json:"what,omitempty"`
}

func c11History(e *emitter, r *rng, length int) {
	B := pick(r, []int{1, 2, 3, 32})
	prior := c11Store(r, r.intn(9), r.chance(1, 6))
	st := newStore(prior)
	model := map[string]string{}
	for _, kv := range prior {
		model[kv[0]] = kv[1]
	}
	rp := c11HistReplay{Prior: prior, B: B}
	var steps []string
	bad := ""
	okModel := true
	for i := 0; i < length; i++ {
		cur := st.pairs()
		batch := r.chance(1, 2)
		modeN := 0
		if batch {
			modeN = 1
		}
		kind := r.intn(10)
		var q, opT string
		step := c11Step{}
		switch {
		case kind < 3: // put
			n := 1 + r.intn(3)
			parts := []string{}
			kvs := [][2]string{}
			for j := 0; j < n; j++ {
				k, v := pick(r, c11KeyPool), pick(r, []string{"x", "y", "xz", "w"})
				parts = append(parts, fmt.Sprintf("(%s, %s)", c11Q(k), c11Q(v)))
				kvs = append(kvs, [2]string{k, v})
				model[k] = v
			}
			q = "put " + strings.Join(parts, ", ")
			opT = "OPut " + coqPairs(kvs)
			e.count("history_stmt=put")
		case kind < 4: // remove
			n := 1 + r.intn(3)
			parts := []string{}
			ks := []string{}
			for j := 0; j < n; j++ {
				k := pick(r, c11KeyPool)
				parts = append(parts, c11Q(k))
				ks = append(ks, k)
				delete(model, k)
			}
			q = "remove " + strings.Join(parts, ", ")
			opT = "ORemove " + coqStrList(ks)
			e.count("history_stmt=remove")
		default: // delete / select
			var p c11Pred
			if r.chance(1, 2) {
				p = pick(r, c11Curated)
			} else {
				p = c11Tree(r, 2)
			}
			lim := c11Limit{}
			if r.chance(2, 5) {
				lim = c11Limit{true, r.intn(4), r.intn(5)}
			}
			verd, _, vok := c11Verdicts(p.text, cur)
			if !vok {
				e.m.OutOfModel++
				continue
			}
			var want []string
			for _, kv := range cur {
				if p.match(kv[0], kv[1]) {
					want = append(want, kv[0])
				}
			}
			want = c11Slice(want, lim)
			kvql.PlanBatchSize = B
			if kind < 8 {
				q = "delete where " + p.text + lim.text()
				plan, err := kvql.NewOptimizer(q).BuildPlan(newStore(cur))
				if err != nil {
					e.m.OutOfModel++
					continue
				}
				dpT, path, _, ok := c11DPlan(plan)
				if !ok {
					e.m.OutOfModel++
					continue
				}
				for _, k := range want {
					delete(model, k)
				}
				opT = fmt.Sprintf("ODelete %s %s %d %s", coqStrList(verd), lim.coq(), B, dpT)
				e.count("history_stmt=delete")
				e.count("history_delete_access=" + path)
			} else {
				q = "select * where " + p.text + lim.text()
				plan, err := kvql.NewOptimizer(q).BuildPlan(newStore(cur))
				if err != nil {
					e.m.OutOfModel++
					continue
				}
				plT, ok := c11SelectPlan(plan)
				if !ok {
					e.m.OutOfModel++
					continue
				}
				for _, k := range want {
					step.Want = append(step.Want, [2]string{k, model[k]})
				}
				opT = fmt.Sprintf("OSelect %s %s %d %d %s", coqStrList(verd), lim.coq(), B, modeN, plT)
				e.count("history_stmt=select")
			}
		}
		res := runQuery(q, st, batch, B, true)
		step.Query = q
		step.Status = errClass(res.Err)
		if res.Panic != "" {
			step.Status = "panic: " + res.Panic
		}
		if strings.HasPrefix(q, "select") {
			for _, row := range res.Rows {
				if len(row) >= 2 {
					step.Rows = append(step.Rows, [2]string{c11ColBytes(row[0]), c11ColBytes(row[1])})
				}
			}
			opT += " " + coqPairs(step.Rows)
			if okModel && bad == "" && !c12EqPairs(step.Rows, step.Want) {
				bad = fmt.Sprintf("statement %d (%s) did not return the pairs of the current state that its WHERE and LIMIT denote", i+1, q)
			}
		}
		step.After = st.pairs()
		step.Model = c12SortedMap(model)
		if step.Status != "ok" {
			if bad == "" {
				bad = fmt.Sprintf("statement %d (%s) failed: %s", i+1, q, step.Status)
			}
			okModel = false
		}
		if okModel && bad == "" && !c12EqPairs(step.After, step.Model) {
			bad = fmt.Sprintf("after statement %d (%s) the storage differs from the model map", i+1, q)
		}
		rp.Steps = append(rp.Steps, step)
		steps = append(steps, "("+opT+", "+coqPairs(step.After)+")")
		if step.Status != "ok" {
			break
		}
	}
	rp.What = bad
	term := fmt.Sprintf("KHistory (HCase %s %s)", coqPairs(prior), coqList(steps))
	idx := e.add(term, rp, len(steps) > 1)
	e.count("kind=history")
	e.count(fmt.Sprintf("history_len=%d", len(steps)))
	if bad != "" {
		e.fail(idx, bad, "C11/history-diverges", rp)
	}
}

// ---------------------------------------------------------------- driver

func runC11(c *runCtx) error {
	r := newRng(c.seed)
	header := "From Coq Require Import List String ZArith.\nFrom KV Require Import Base.Bytes Model.Ast Model.Storage Model.ScanIO Model.FilterOpt Model.Delete Corr.C11.\nImport ListNotations.\nOpen Scope string_scope.\n"
	e := newEmitter(c.out, "C11", header, 60)
	e.m.Rule = "a delete case = (delete where P [limit s, n], prior state, batch size, polling mode) with the built plan, the per-pair verdicts of FilterExec.Filter, the storage call log, the final state and the result of select * where P [limit s, n] on a clone of the prior state; a history case = a sequence of <= 12 put / remove / delete / select statements on one storage with the state after each; non-trivial = non-empty prior state (delete) / at least two statements (history); distinct = distinct Gallina case terms"
	deep := c.thorough() || c.search
	Bs := []int{1, 2, 3, 32}
	// limits relative to the batch size and to the state size (so that most slices are non-empty)
	limitsFor := func(B, n int) []c11Limit {
		ls := []c11Limit{{}, {true, 0, 1}, {true, 1, 2}, {true, 0, 0}, {true, 0, n}, {true, n / 3, n}, {true, 1, B}}
		if n > B {
			ls = append(ls, c11Limit{true, B, B + 1})
		}
		if n > 2*B {
			ls = append(ls, c11Limit{true, 2 * B, 1})
		}
		return ls
	}
	sizesFor := func(B int) []int {
		if deep {
			out := []int{}
			for n := 0; n <= min(3*B+1, len(c11KeyPool)); n++ {
				out = append(out, n)
			}
			return out
		}
		return []int{1, min(B+1, 6), min(2*B+1, 9), min(3*B+2, len(c11KeyPool)), len(c11KeyPool)}
	}
	// part A: curated predicates x limits x B x states
	rr := 0
	for _, B := range Bs {
		for pi, p := range c11Curated {
			for _, n := range sizesFor(B) {
				for li, lim := range limitsFor(B, n) {
					rr++
					if !deep && (rr+pi+li)%2 != int(c.seed%2) {
						continue // quick tier: a rotating half of the grid
					}
					kvs := c11Store(r, n, rr%7 == 0)
					batch := rr%2 == 0
					c11DeleteCase(e, p, lim, kvs, batch, B, "curated")
					if deep {
						c11DeleteCase(e, p, lim, kvs, !batch, B, "curated")
					}
				}
			}
		}
	}
	// every curated predicate at least once without LIMIT on a full state, both modes (the shortcut and
	// every access path are hit whatever the rotation above selected)
	for i, p := range c11Curated {
		B := Bs[i%len(Bs)]
		kvs := c11Store(r, len(c11KeyPool), i%3 == 0)
		c11DeleteCase(e, p, c11Limit{}, kvs, false, B, "curated-full")
		c11DeleteCase(e, p, c11Limit{}, kvs, true, B, "curated-full")
	}
	// part B: random predicate trees
	nRandom := 1200
	if deep {
		nRandom = 25000
	}
	for i := 0; i < nRandom; i++ {
		B := pick(r, Bs)
		p := c11Tree(r, 2)
		lim := c11Limit{}
		if r.chance(1, 2) {
			lim = c11Limit{true, r.intn(2*B + 2), r.intn(2*B + 3)}
		}
		kvs := c11Store(r, r.intn(len(c11KeyPool)+1), r.chance(1, 8))
		c11DeleteCase(e, p, lim, kvs, r.chance(1, 2), B, "random")
	}
	// part C: B = 32, states larger than a batch
	{
		B := 32
		ns := []int{33, 70}
		preds := []int{0, 3, 6, 12}
		if deep {
			ns = []int{31, 32, 33, 64, 65, 97}
			preds = []int{0, 1, 3, 4, 6, 7, 11, 12, 16, 18}
		}
		bigLimits := []c11Limit{{}, {true, 31, 3}, {true, 32, 33}, {true, 0, 64}, {true, 33, 1}}
		for _, pi := range preds {
			for _, n := range ns {
				for li, lim := range bigLimits {
					rr++
					if !deep && (rr+li)%2 == 0 {
						continue
					}
					c11DeleteCase(e, c11Curated[pi], lim, c11BigStore(r, n), rr%2 == 0, B, "big")
				}
			}
		}
	}
	// part C2: sizes around powers of two and beyond a thousand -- key sets handed to the direct
	// removal (IN lists of 127, 128, 129, 256, 257 literal keys) and scan-and-delete over more than
	// 1024 selected pairs with batch sizes whose running totals step over 1024 (buffering /
	// chunking of the writes)
	{
		mkKeys := func(n int) []string {
			ks := make([]string, n)
			for i := range ks {
				ks[i] = fmt.Sprintf("q%04d", i)
			}
			return ks
		}
		store := func(n int) [][2]string {
			out := make([][2]string, n)
			for i, k := range mkKeys(n) {
				out[i] = [2]string{k, []string{"x", "x", "y", "x"}[i%4]}
			}
			return out
		}
		sizes := []int{127, 128, 129, 256}
		if deep {
			sizes = []int{63, 64, 65, 127, 128, 129, 255, 256, 257, 512}
		}
		for _, n := range sizes {
			ks := mkKeys(n)
			set := map[string]bool{}
			qs := make([]string, n)
			for i, k := range ks {
				set[k] = true
				qs[i] = c11Q(k)
			}
			p := c11Pred{"key in (" + strings.Join(qs, ", ") + ")", func(k, v string) bool { return set[k] }}
			c11DeleteCase(e, p, c11Limit{}, store(n+44), n%2 == 0, 32, "large-keyset")
			pa := c11Pred{p.text + " & value = 'x'", func(k, v string) bool { return set[k] && v == "x" }}
			c11DeleteCase(e, pa, c11Limit{}, store(n+44), true, 3, "large-keyset")
		}
		big := []int{1100}
		if deep {
			big = []int{1025, 1100, 2400}
		}
		for _, n := range big {
			for _, B := range []int{3, 5, 32} {
				if deep || B == 3 {
					c11DeleteCase(e, c11Pred{"key ^= 'q'", func(k, v string) bool { return strings.HasPrefix(k, "q") }}, c11Limit{}, store(n), true, B, "large-store")
				}
				if deep || B == 32 {
					c11DeleteCase(e, c11Pred{"key ^= 'q' & value = 'x'", func(k, v string) bool { return strings.HasPrefix(k, "q") && v == "x" }}, c11Limit{}, store(n+n/3), true, B, "large-store")
				}
			}
		}
	}
	// part C3: LARGE VALUES (40 / 80 KiB each, megabytes per batch): what is deleted must not
	// depend on how many BYTES a batch carries.  The Coq side judges the same statement over the
	// same keys with one-letter stand-ins for the values (the twin is value-size agnostic); the
	// implementation is judged directly on the large store (final state = prior state minus the
	// keys select returns = prior state minus the pairs the predicate denotes).
	for _, sz := range []int{40 << 10, 80 << 10} {
		for _, B := range []int{32, 3} {
			small, large := [][2]string{}, [][2]string{}
			for i := 0; i < 64; i++ {
				k := fmt.Sprintf("q%02d", i)
				letter := []string{"A", "B"}[i%2]
				small = append(small, [2]string{k, letter})
				large = append(large, [2]string{k, strings.Repeat(letter, sz)})
			}
			for _, pv := range []struct {
				text string
				sel  func(k, v string) bool
			}{
				{"key ^= 'q' & value ^= 'A'", func(k, v string) bool { return strings.HasPrefix(v, "A") }},
				{"value ^= 'B'", func(k, v string) bool { return strings.HasPrefix(v, "B") }},
				{"key >= 'q10' & value ^= 'A'", func(k, v string) bool { return k >= "q10" && strings.HasPrefix(v, "A") }},
			} {
				c11DeleteCase(e, c11Pred{pv.text, pv.sel}, c11Limit{}, small, true, B, "large-values-standin")
				idx := len(e.cases) - 1
				var want [][2]string
				for _, kv := range large {
					if !pv.sel(kv[0], kv[1]) {
						want = append(want, kv)
					}
				}
				st := newStore(large)
				res := runQuery("delete where "+pv.text, st, true, B, true)
				sel := runQuery("select * where "+pv.text, newStore(large), true, B, true)
				selKeys := []string{}
				for _, row := range sel.Rows {
					if kb, ok := row[0].([]byte); ok {
						selKeys = append(selKeys, string(kb))
					}
				}
				e.count("large_values")
				final := st.pairs()
				keysOf := func(kvs [][2]string) []string {
					out := make([]string, len(kvs))
					for i, kv := range kvs {
						out[i] = kv[0]
					}
					return out
				}
				rp := map[string]any{"query": "delete where " + pv.text, "batch_size": B, "store": fmt.Sprintf("64 pairs q00..q63, values %d bytes of 'A' (even) / 'B' (odd)", sz),
					"keys_left": keysOf(final), "keys_required": keysOf(want), "keys_select_returns": selKeys, "outcome": fmt.Sprint(res.Err, res.Panic)}
				if res.Err != nil || res.Panic != "" {
					e.fail(idx, "the DELETE over large values failed: "+fmt.Sprint(res.Err, res.Panic), "C11/large-values-fails", rp)
				} else if fmt.Sprint(keysOf(final)) != fmt.Sprint(keysOf(want)) || fmt.Sprint(keysOf(final)) != fmt.Sprint(keysOf(c11Minus(large, selKeys))) {
					e.fail(idx, "with large values the final state is not the prior state minus the pairs the WHERE selects", "C11/large-values-delete-not-exact", rp)
				}
			}
		}
	}
	// part D: statement sequences against a model map
	nHist := 150
	if deep {
		nHist = 3000
	}
	for i := 0; i < nHist; i++ {
		c11History(e, r, 2+r.intn(11))
	}
	// part E: DELETE statements as query TEXTS through the whole pipeline (Model/PipelineW.v)
	pwRunC11(c, e, r)
	e.m.Exhaustive = deep
	e.m.Notes = append(e.m.Notes, "curated predicates x limits x batch sizes x state sizes 0..3B+1 are enumerated in the thorough tier (a rotating half in the quick tier); random predicate trees, big states and statement sequences are seeded")
	return e.flush()
}

// ---------------------------------------------------------------------------------------------
// C11 from the query TEXT: kvql.NewOptimizer(q).BuildPlan(store) polled until nil against the Coq
// twin of the whole pipeline (Model/PipelineW.v delete_text, evaluated by Corr/C11.v check_dtext):
// lexer, statement parser (DELETE, WHERE, LIMIT), Check + Boolean WHERE, function-call check,
// constant folding of the WHERE tree, region inference and the RemovePlan-shortcut test on the
// FOLDED tree, LIMIT, scan-and-delete / direct removal.

type pwDReplay struct {
	Kind     string      `json:"kind"`
	Query    string      `json:"query"`
	Select   string      `json:"select_on_prior_state,omitempty"`
	Build    string      `json:"build_plan"`
	Store    [][2]string `json:"prior_state"`
	Mode     string      `json:"mode"`
	B        int         `json:"batch_size"`
	Verdicts []string    `json:"keys_passing_the_unfolded_where,omitempty"`
	Limit    string      `json:"limit_of_the_parsed_statement,omitempty"`
	Selected []string    `json:"keys_select_returns,omitempty"`
	Required [][2]string `json:"required_final_state,omitempty"`
	Final    [][2]string `json:"final_state"`
	Writes   []string    `json:"write_calls"`
	Outcome  string      `json:"outcome"`
	Panic    string      `json:"panic,omitempty"`
}

// pwDeleteParse: the harness's own parse of q as a DELETE: the WHERE tree as parsed and checked
// (NOT folded), the LIMIT, and FilterExec.Filter's verdict on every pair
func pwDeleteParse(q string, kvs [][2]string) (where kvql.Expression, lim c11Limit, keys []string, parsed, evaluable bool) {
	defer func() {
		if r := recover(); r != nil {
			evaluable = false
		}
	}()
	stmt, err := kvql.NewParser(q).Parse()
	if err != nil {
		return nil, lim, nil, false, false
	}
	ds, ok := stmt.(*kvql.DeleteStmt)
	if !ok || ds.Where == nil {
		return nil, lim, nil, false, false
	}
	parsed = true
	where = ds.Where.Expr
	if ds.Limit != nil {
		lim = c11Limit{true, ds.Limit.Start, ds.Limit.Count}
	}
	fe := &kvql.FilterExec{Ast: ds.Where}
	evaluable = true
	for _, kv := range kvs {
		pass, ferr := fe.Filter(kvql.NewKVPStr(kv[0], kv[1]), kvql.NewExecuteCtx())
		if ferr != nil {
			evaluable = false
			continue
		}
		if pass {
			keys = append(keys, kv[0])
		}
	}
	return
}

func pwDeleteCase(e *emitter, q string, kvs [][2]string, batch bool, B int, origin string) {
	mode, modeN := "row", 0
	if batch {
		mode, modeN = "batch", 1
	}
	rp := pwDReplay{Kind: "DELETE text through NewOptimizer(q).BuildPlan(store), polled until nil", Query: q, Store: kvs, Mode: mode, B: B}
	toks := pwLex(q)
	isDelete := len(toks) > 0 && toks[0].Tp == kvql.DELETE

	// the plan, from a scratch build
	kvql.PlanBatchSize = B
	kvql.EnableFieldCache = true
	var plan kvql.FinalPlan
	var berr error
	func() {
		defer func() {
			if r := recover(); r != nil {
				rp.Panic = fmt.Sprint(r)
			}
		}()
		plan, berr = kvql.NewOptimizer(q).BuildPlan(newStore(kvs))
	}()
	built := "DAccepted"
	dpT, path, limited := "(DScan (PScan SEmpty))", "-", false
	switch {
	case rp.Panic != "":
		built = "DBuildErr"
		rp.Build = "panic: " + rp.Panic
	case berr != nil:
		if errClass(berr) == "syntax" {
			built = fmt.Sprintf("(DRejected (%d))", errPos(berr))
		} else {
			built = "DBuildErr"
		}
		rp.Build = "error: " + berr.Error()
	default:
		rp.Build = strings.Join(plan.Explain(), " <- ")
		var ok bool
		dpT, path, limited, ok = c11DPlan(plan)
		if dp, isD := plan.(*kvql.DeletePlan); isD {
			if lp, isL := dp.ChildPlan.(*kvql.LimitPlan); isL && (lp.Start > pwLimitBound || lp.Count > pwLimitBound) {
				// the Coq side counts LIMIT in unary: beyond the bound the twin is outside its model
				// (Model/PipelineW.v limit_bound) and the plan is not printed
				dpT, ok = "(DScan (PScan SEmpty))", true
				e.count("text:limit_beyond_model_bound")
			}
		}
		if !ok {
			if isDelete {
				e.m.OutOfModel++
				e.count("text:plan_shape_not_modelled")
				return
			}
			dpT, path = "(DScan (PScan SEmpty))", "not-a-delete"
		}
	}

	// the harness's own reading: per-pair verdicts of the UNFOLDED tree, LIMIT of the parsed statement
	where, lim, verd, parsed, evaluable := pwDeleteParse(q, kvs)
	rp.Verdicts = verd
	rp.Limit = lim.text()
	verdOK := built == "DAccepted" && parsed && evaluable && (!lim.on || (lim.s >= 0 && lim.n >= 0))

	// select * where P [limit] on a clone of the prior state: the same text with `delete` replaced
	var selKeys []string
	if verdOK {
		lq := strings.ToLower(q)
		i := strings.Index(lq, "delete")
		q2 := q[:i] + "select * " + q[i+6:]
		rp.Select = q2
		sres := runQuery(q2, newStore(kvs), batch, B, true)
		if sres.Err != nil || sres.Panic != "" {
			verdOK = false
			e.count("text:select_failed")
		}
		for _, row := range sres.Rows {
			if len(row) > 0 {
				selKeys = append(selKeys, c11ColBytes(row[0]))
			}
		}
		rp.Selected = selKeys
	}

	// the delete itself
	st := newStore(kvs)
	res := runQuery(q, st, batch, B, true)
	rp.Outcome = errClass(res.Err)
	if res.Panic != "" {
		rp.Panic = res.Panic
	}
	final := st.pairs()
	rp.Final = final
	rp.Writes = c12LogText(c11Writes(st.log))
	class := c11ClassCode[rp.Outcome]
	if built != "DAccepted" {
		class = 3
	}
	climit := lim
	if !verdOK || lim.s > pwLimitBound || lim.n > pwLimitBound {
		climit = c11Limit{}
		verdOK = false // (a LIMIT the Coq side cannot count in unary: the harness judges alone)
	}
	term := fmt.Sprintf("KText (DTCase %s %s %s (DCase %s %s %s None %s %d %d %d %s %s %s))", coqStr(q), built, coqBool(verdOK),
		coqPairs(kvs), coqStrList(verd), dpT, climit.coq(), B, modeN, class, c12CoqLog(st.log), coqPairs(final), coqStrList(selKeys))
	idx := e.add(term, rp, built == "DAccepted" && len(kvs) > 0)

	e.count("text:origin=" + origin)
	switch {
	case !isDelete:
		e.count("text:outside_model_not_a_delete")
	case built == "DAccepted":
		e.count("text:accepted")
		e.count("text:access=" + path)
		if limited {
			e.count("text:limit=yes")
		} else if lim.on {
			e.count("text:limit=ignored_or_dropped")
		} else {
			e.count("text:limit=no")
		}
		e.count(fmt.Sprintf("text:B=%d", B))
		e.count("text:mode=" + mode)
		if !evaluable {
			e.count("text:accepted_where_not_evaluable_on_every_pair")
		}
		if rp.Outcome != "ok" {
			e.count("text:accepted_run_ends_in_" + rp.Outcome)
		}
	case built == "DBuildErr":
		e.count("text:build_error_not_syntax")
	default:
		e.count("text:rejected")
	}

	// direct verdict on the implementation
	put := false
	for _, c := range st.log {
		if c.Op == "Put" || c.Op == "BatchPut" {
			put = true
		}
	}
	switch {
	case !isDelete:
		// another statement kind (or none): not this twin's, not C11's
	case rp.Panic != "":
		e.fail(idx, "panic: "+rp.Panic, "C11/text-panic", rp)
	case built != "DAccepted":
		if len(st.log) != 0 || !c12EqPairs(final, kvs) {
			e.fail(idx, "BuildPlan returned an error, yet the storage was touched", "C11/text-rejected-touches", rp)
		}
	case !parsed:
		e.fail(idx, "BuildPlan accepted a text that Parser.Parse does not read as a DELETE statement", "C11/text-accepted-unparsed", rp)
	case put:
		e.fail(idx, "a DELETE wrote a pair (Put / BatchPut)", "C11/text-delete-writes", rp)
	case rp.Outcome != "ok":
		if evaluable && !c01SubexprFails(where, kvs) {
			e.fail(idx, "the DELETE failed although every sub-expression of its WHERE clause evaluates on every stored pair: "+rp.Outcome, "C11/text-delete-fails", rp)
		}
	case evaluable:
		rp.Required = c11Minus(kvs, c11Slice(verd, lim))
		if len(res.Rows) != 1 {
			e.fail(idx, fmt.Sprintf("the DELETE returned %d rows before nil", len(res.Rows)), "C11/text-rows", rp)
		} else if rp.Select != "" && !c12EqPairs(final, c11Minus(kvs, selKeys)) {
			e.fail(idx, "the final state is not the prior state minus the keys that select * with the same WHERE and LIMIT returns on the prior state", "C11/text-delete-not-select", rp)
		} else if !c12EqPairs(final, rp.Required) {
			e.fail(idx, "the final state is not the prior state minus the pairs the (unfolded) WHERE and the LIMIT of the statement text denote", "C11/text-delete-not-exact", rp)
		}
	}
}

// Model/PipelineW.v limit_bound
const pwLimitBound = 4096

// DELETE texts with a fixed reading
var pwDeleteDirected = []string{
	// the shortcut (point reads, no LIMIT, no AND / and in the FOLDED filter) and its neighbours
	"delete where key = 'a'", "delete where 'ab' = key", "delete where key in ('a', 'zz', 'c')", "delete where key = 'ab' | key = 'b'",
	"delete where key in ('a', 'b') or key = 'c' or false", "delete where key <= ''", "delete where key = 'a' | key <= ''",
	"delete where key = 'a' limit 10", "delete where key = 'a' limit 0", "delete where key = 'a' limit 0, 1", "delete where key in ('a', 'b', 'c') limit 1, 1",
	"delete where key = 'a' & value = 'x'", "delete where key = 'a' and value = 'x'", "delete where key = 'a' & key = 'a'", "delete where key in ('a', 'b') & true",
	"delete where key = 'a' & 1 = 1", "delete where 1 = 1 & key = 'a'", "delete where key = 'a' and 2 > 1", "delete where (key = 'a' | key = 'b') & 'x' = 'x'",
	"delete where key = 'a' & 1 = 2", "delete where key = 'a' | 1 = 2", "delete where key = 'a' | 1 = 1", "delete where key = 'a' | (value = 'x' & key = 'b')",
	"delete where key = 'a' + 'b'", "delete where key in ('a', 'a' + 'b')", "delete where key = lower('AB')", "delete where key = str(1 + 11)", "delete where 'a' + 'b' = key | key = 'c'",
	"delete where key = 'a' | upper(key) = 'B'", "delete where key = 'a' | value = 'x'", "delete where !(key != 'a')", "delete where key between 'a' and 'a'",
	"delete where key in ('c', 'a', 'c', 'nope')", "delete where key = 'a' | key = 'a'", "delete where key = value", "delete where key = 'a' | key = value",
	// every access path, LIMIT
	"delete where true", "delete where false", "delete where value = 'x'", "delete where key ^= 'a'", "delete where key ^= 'a' & value = 'x'", "delete where key > 'ab' & key <= 'c'",
	"delete where key >= 'b'", "delete where key between 'ab' and 'c'", "delete where key ^= 'a' limit 1, 2", "delete where true limit 2", "delete where false limit 2",
	"delete where key = 'a' & key = 'b' limit 3", "delete where key >= 'b' limit 0, 0", "delete where value ^= 'x' limit 1 2", "delete where key ^= lower('A') limit 007",
	"delete where key ^= 'a' limit 99999999999999999999", "delete where key ^= 'a' limit 9223372036854775807", "delete where key ^= 'a' limit 1, 9223372036854775807",
	"delete where key ^= 'a' limit 3000000", "delete where key > 'a' + 'a' limit 2, 1",
	// syntax and checker rejections
	"delete", "delete where", "delete where ;", "delete key = 'a'", "delete from x where key = 'a'", "delete * where key = 'a'", "delete where key = 'a' limit", "delete where key = 'a' limit ,",
	"delete where key = 'a' limit 1,", "delete where key = 'a' limit , 1", "delete where key = 'a' limit 1, 2, 3", "delete where key = 'a' limit 1 2 3", "delete where key = 'a' limit 'x'",
	"delete where key = 'a' limit 1 limit 2", "delete where key = 'a' limit 1 key", "delete where key = 'a' order by key", "delete where key = 'a' group by key", "delete where key = 'a' key",
	"delete where key = 'a' limit 1 order by key", "delete where key", "delete where 1", "delete where 'a'", "delete where key + 'a'", "delete where key = 1", "delete where value > 1",
	"delete where nofunc(key) = 'a'", "delete where upper(key, key) = 'A'", "delete where count(key) > 0", "delete where key = 'a' | sum(1) = 1", "delete where `x` = 'a'", "delete where x",
	"delete where (key = 'a'", "delete where key = 'a')", "delete where key in ()", "delete where key in ('a',)", "delete where key between 'a'", "delete where key = 'a' &",
	"delete where limit 1", "delete where key = 'a' limit -1", "delete where key = 'a' limit 1.5", "delete delete where key = 'a'", "delete where where key = 'a'",
	// evaluation errors and the model boundary
	"delete where int(value) / (1 - 1) = 1", "delete where int(value) / 0 = 1", "delete where key ^= 'a' & 1 / (strlen(value) - 1) = 1", "delete where key = 'a' | 1 / (strlen(value) - 1) = 1",
	"delete where key ~= '^a'", "delete where key = 'a' & value ~= 'x'", "delete where float(value) > 1.5", "delete where key ^= 'a' & 1.5 + 1 = 2.5",
	"DELETE WHERE KEY='a'OR KEY='b'", "delete where(key)=('a')", "delete\twhere\nkey = 'ab' ; ", "  delete where key = 'a';;", "Delete Where Key In ('a', 'b') Limit 1",
	"select * where key = 'a'", "where key = 'a'", "put ('a', 'b')", "remove 'a'", "", ";", "x",
}

func pwRunC11(c *runCtx, e *emitter, r *rng) {
	e.m.Rule += "; TEXT cases: DELETE statements (the curated and random predicates above, constant / foldable sub-predicates AND/OR-mixed with key atoms, the shapes that just qualify / just do not qualify for the RemovePlan shortcut, LIMIT in every spelling, a directed list of rejections of every front-end stage, and malformed variants) rendered as query texts with varied spacing, keyword case, trailing semicolons and extra parentheses, x prior states x batch sizes {1,2,3,32} x polling mode; each is run through kvql.NewOptimizer(q).BuildPlan(store), polled until nil, and compared with Model/PipelineW.v delete_text on the text (accepted / rejected and error position, the plan that was built, write calls, final state)"
	deep := c.thorough() || c.search
	Bs := []int{1, 2, 3, 32}
	store := func() [][2]string { return c11Store(r, r.intn(len(c11KeyPool)+1), r.chance(1, 8)) }
	for i, q := range pwDeleteDirected {
		pwDeleteCase(e, q, store(), i%2 == 0, Bs[i%4], "directed")
		if deep {
			pwDeleteCase(e, pwRender(r, q, 2, true, r.intn(3)), store(), i%2 == 1, pick(r, Bs), "directed")
			pwDeleteCase(e, pwRender(r, q, 1, true, 0), store(), r.chance(1, 2), pick(r, Bs), "directed")
		}
	}
	n := 380
	if deep {
		n = 10000
	}
	katoms := keyAtoms([]string{"", "a", "ab", "b", "c"}, false)
	limits := []string{"", "", "", " limit 1", " limit 2", " limit 0", " limit 1, 2", " limit 0, 3", " limit 2, 1", " limit 3 1", " limit 05", " limit 1,1", " limit 40"}
	for i := 0; i < n; i++ {
		var pred string
		switch r.intn(9) {
		case 0:
			pred = pick(r, c11Curated).text
		case 1:
			pred = c11Tree(r, 2).text
		case 2:
			pred = fmt.Sprintf("(%s) %s (%s)", pick(r, pbConstAtoms), pick(r, []string{"&", "|", "and", "or"}), pick(r, katoms))
		case 3:
			pred = fmt.Sprintf("(%s) %s (%s)", pick(r, katoms), pick(r, []string{"&", "|", "and", "or"}), pick(r, pbConstAtoms))
		case 4:
			pred = pick(r, pbFoldAtoms)
			if r.chance(1, 2) {
				pred = fmt.Sprintf("%s %s %s", pred, pick(r, []string{"&", "|"}), pick(r, append(pbConstAtoms[:12:12], katoms...)))
			}
		case 5:
			// point reads with and without what disqualifies the shortcut
			a, b := pick(r, c11Lits), pick(r, c11Lits)
			pred = pick(r, []string{"key = '" + a + "'", "key in ('" + a + "', '" + b + "')", "key = '" + a + "' | key = '" + b + "'", "key = '" + a + "' + ''", "'" + b + "' = key"})
			switch r.intn(5) {
			case 0:
				pred += " & " + pick(r, []string{"true", "1 = 1", "value = 'x'", "key != 'zz'", "2 > 1 & true"})
			case 1:
				pred += " and " + pick(r, []string{"true", "'a' < 'b'", "value ^= 'x'"})
			case 2:
				pred += " | " + pick(r, []string{"false", "1 = 2", "key = 'c'", "false & true"})
			}
		case 6:
			pred = pick(r, c11Curated).text + " " + pick(r, []string{"&", "|"}) + " " + pick(r, pbConstAtoms)
		default:
			pred = c11Atom(r).text
			if r.chance(1, 2) {
				pred = "(" + pred + ") " + pick(r, []string{"&", "|", "and", "or"}) + " (" + c11Atom(r).text + ")"
			}
		}
		pred = pwWrap(r, pred)
		q := "delete where " + pred + pick(r, limits)
		semis := 0
		if r.chance(1, 3) {
			semis = 1 + r.intn(2)
		}
		q = pwRender(r, q, r.intn(3), r.chance(1, 2), semis)
		origin := "generated"
		if r.chance(1, 8) {
			q = pbMangle(r, q)
			origin = "mangled"
		}
		pwDeleteCase(e, q, store(), r.chance(1, 2), pick(r, Bs), origin)
	}
}
