package main

// C12: PUT and REMOVE apply exactly the stated writes, once, all-or-nothing.
//  part A  statement level, exhaustive over small pools: every PUT of <= 2 pairs and every
//          REMOVE of <= 3 keys over pools of key/value expressions (literals, numbers,
//          concatenations, function calls, some referring to `key`, some failing at
//          evaluation), polling patterns and prior states assigned round-robin;
//  part B  every polling pattern over {Next, Batch} of length <= 4 (incl. none) x a set of
//          representative statements;
//  part C  seeded random statements (1..5 pairs / keys), random prior states and polls;
//  part D  statement sequences (put / remove, each followed by point SELECTs) against a model
//          map kept by the harness.
// For every case the harness evaluates each key / value expression itself through the public
// Expression.Execute (value expression i on the pair whose key is the evaluated key i) and
// hands that table to the Coq twin; the generator's own knowledge of what each pool expression
// denotes is used for the direct verdict on the implementation.

import (
	"fmt"
	"sort"
	"strings"

	kvql "github.com/c4pt0r/kvql"
)

func init() { registry["C12"] = runC12 }

// ---------------------------------------------------------------- Gallina printing of call logs

func c12CoqKVList(kvs []kvql.KVPair) string {
	p := make([]string, len(kvs))
	for i, kv := range kvs {
		p[i] = "(" + coqStr(string(kv.Key)) + ", " + coqStr(string(kv.Value)) + ")"
	}
	return coqList(p)
}

func c12CoqCall(c call) string {
	switch c.Op {
	case "Get":
		return "CGet " + coqStr(c.Key)
	case "Put":
		v := ""
		if len(c.Arg) == 1 {
			v = string(c.Arg[0].Value)
		}
		return "CPut " + coqStr(c.Key) + " " + coqStr(v)
	case "BatchPut":
		return "CBatchPut " + c12CoqKVList(c.Arg)
	case "Delete":
		return "CDelete " + coqStr(c.Key)
	case "BatchDelete":
		ks := make([]string, len(c.Ks))
		for i, k := range c.Ks {
			ks[i] = string(k)
		}
		return "CBatchDelete " + coqStrList(ks)
	case "Cursor":
		return "CCursor"
	case "Seek":
		return "CSeek " + coqStr(c.Key)
	case "Next":
		if c.Nil {
			return "CNext None"
		}
		return "CNext (Some " + coqStr(c.Key) + ")"
	}
	return "CCursor (* unknown op " + c.Op + " *)"
}

func c12CoqLog(log []call) string {
	p := make([]string, len(log))
	for i, c := range log {
		p[i] = c12CoqCall(c)
	}
	return coqList(p)
}

func c12CallText(c call) string {
	switch c.Op {
	case "Put":
		v := ""
		if len(c.Arg) == 1 {
			v = string(c.Arg[0].Value)
		}
		return fmt.Sprintf("Put(%q,%q)", c.Key, v)
	case "BatchPut":
		p := make([]string, len(c.Arg))
		for i, kv := range c.Arg {
			p[i] = fmt.Sprintf("(%q,%q)", kv.Key, kv.Value)
		}
		return "BatchPut[" + strings.Join(p, ",") + "]"
	case "BatchDelete":
		p := make([]string, len(c.Ks))
		for i, k := range c.Ks {
			p[i] = fmt.Sprintf("%q", k)
		}
		return "BatchDelete[" + strings.Join(p, ",") + "]"
	case "Next":
		if c.Nil {
			return "Next->nil"
		}
		return fmt.Sprintf("Next->%q", c.Key)
	case "Cursor":
		return "Cursor"
	}
	return fmt.Sprintf("%s(%q)", c.Op, c.Key)
}

func c12LogText(log []call) []string {
	out := make([]string, len(log))
	for i, c := range log {
		out[i] = c12CallText(c)
	}
	return out
}

// ---------------------------------------------------------------- expression pools

// c12Expr is a key or value expression of the generator: its text, whether it fails at
// evaluation, and what it denotes given the pair's evaluated key (generator's own semantics).
type c12Expr struct {
	text  string
	fails bool
	kind  string // literal number concat call keyref failing
	want  func(key string) string
}

func c12Const(text, kind, val string) c12Expr {
	return c12Expr{text: text, kind: kind, want: func(string) string { return val }}
}

// key expressions (evaluated on the empty pair, so `key` is "")
var c12KeyPool = []c12Expr{
	c12Const("'a'", "literal", "a"),
	c12Const("'b'", "literal", "b"),
	c12Const("'a' + 'b'", "concat", "ab"),
	c12Const("12", "number", "12"),
	c12Const("lower('AB')", "call", "ab"),
	{text: "str(1/(1-1))", fails: true, kind: "failing"},
	c12Const("upper('c')", "call", "C"),
	c12Const("3 + 4", "number", "7"),
	c12Const("'k' + upper('x') + 'y'", "concat", "kXy"),
	{text: "str(2/(strlen('a')-1))", fails: true, kind: "failing"}, // (a wrong argument count is rejected when the plan is built since the C14 fix)
	c12Const("\"b\"", "literal", "b"),
	c12Const("'ab' + 'c'", "concat", "abc"),
}

// number literals in a spelling that is not the one the evaluated number prints as: the written
// / removed key is the EVALUATED key
var c12SpellKeys = []c12Expr{
	c12Const("007", "number", "7"),
	c12Const("00", "number", "0"),
	c12Const("012", "number", "12"),
	c12Const("0012 + 0", "number", "12"),
	c12Const("7", "number", "7"),
	c12Const("'007'", "literal", "007"),
}

// only in PUT: a key expression may mention `key` (the empty key at that point)
var c12PutKeyExtra = []c12Expr{}

var c12ValPool = []c12Expr{
	c12Const("'v1'", "literal", "v1"),
	{text: "key", kind: "keyref", want: func(k string) string { return k }},
	{text: "key + '!'", kind: "keyref", want: func(k string) string { return k + "!" }},
	c12Const("7", "number", "7"),
	{text: "str(1/(1-1))", fails: true, kind: "failing"},
	c12Const("'x' + 'y'", "concat", "xy"),
	{text: "upper(key)", kind: "keyref", want: func(k string) string { return strings.ToUpper(k) }},
	{text: "lower('Q') + key", kind: "keyref", want: func(k string) string { return "q" + k }},
	{text: "strlen(key)", kind: "keyref", want: func(k string) string { return fmt.Sprint(len(k)) }},
	c12Const("'v2'", "literal", "v2"),
	c12Const("2 * 3 + 1", "number", "7"),
	{text: "1/(1-1)", fails: true, kind: "failing"},
	{text: "l2_distance(list(1,2), list(1))", fails: true, kind: "failing"},
	{text: "str(7/(strlen(key)-strlen(key)))", fails: true, kind: "failing"},
	{text: "'p' + upper(key + 'z')", kind: "keyref", want: func(k string) string { return "p" + strings.ToUpper(k+"z") }},
	c12Const("''", "literal", ""),
}

// prior states over the universe of keys the pools can produce
var c12Priors = [][][2]string{
	{},
	{{"a", "old-a"}},
	{{"a", "old-a"}, {"ab", "old-ab"}, {"b", "old-b"}},
	{{"12", "n"}, {"7", "seven"}, {"C", "big"}, {"zz", "last"}},
	{{"a", "old-a"}, {"abc", "x"}, {"b", "old-b"}, {"kXy", "y"}, {"m", "mid"}},
	{{"0", "zero"}, {"a", "v1"}, {"ab", "ab!"}},
}

// ---------------------------------------------------------------- one case

type c12Stmt struct {
	remove bool
	keys   []c12Expr
	vals   []c12Expr // put only
}

func (s c12Stmt) text() string {
	if s.remove {
		p := make([]string, len(s.keys))
		for i, k := range s.keys {
			p[i] = k.text
		}
		if len(p) == 0 {
			return "remove"
		}
		return "remove " + strings.Join(p, ", ")
	}
	p := make([]string, len(s.keys))
	for i := range s.keys {
		p[i] = "(" + s.keys[i].text + ", " + s.vals[i].text + ")"
	}
	if len(p) == 0 {
		return "put"
	}
	return "put " + strings.Join(p, ", ")
}

type c12Replay struct {
	Query     string      `json:"query"`
	Prior     [][2]string `json:"prior_state"`
	Polls     []string    `json:"polls"`
	Results   []string    `json:"poll_results"`
	Log       []string    `json:"storage_calls"`
	Final     [][2]string `json:"final_state"`
	Want      [][2]string `json:"required_final_state,omitempty"`
	Evaluated []string    `json:"evaluated_expressions"`
	Reads     []string    `json:"point_selects_afterwards,omitempty"`
	Seq       int         `json:"sequence,omitempty"`
	Step      int         `json:"step,omitempty"`
	Panic     string      `json:"panic,omitempty"`
}

// harness-side rendering of an evaluated expression (what the plans store): text as is,
// integers in decimal, floats with %f
func c12ToString(v any) string {
	switch x := v.(type) {
	case string:
		return x
	case []byte:
		return string(x)
	case int, int8, int16, int32, int64, uint, uint8, uint16, uint32, uint64:
		return fmt.Sprintf("%d", x)
	case float32, float64:
		return fmt.Sprintf("%f", x)
	case bool:
		if x {
			return "true"
		}
		return "false"
	case nil:
		return "<nil>"
	}
	return ""
}

func c12Eval(e kvql.Expression, key string) (out string, failed bool) {
	defer func() {
		if r := recover(); r != nil {
			out, failed = "", true
		}
	}()
	v, err := e.Execute(kvql.NewKVPStr(key, ""), kvql.NewExecuteCtx())
	if err != nil {
		return "", true
	}
	return c12ToString(v), false
}

// c12Table parses q (a PUT or REMOVE of n pairs / keys) and evaluates every key and value
// expression through the public Expression.Execute: key expressions on the empty pair, value
// expression i on the pair whose key is the evaluated key i.  status != "" : not usable.
func c12Table(q string, n int, exprText func(id int) string) (table []c12Entry, evKeys, evVals []string, evalOK bool, status string) {
	evalOK = true
	pstmt, perr := kvql.NewParser(q).Parse()
	if perr != nil {
		return nil, nil, nil, false, "rejected_by_parser"
	}
	switch ps := pstmt.(type) {
	case *kvql.PutStmt:
		if len(ps.KVPairs) != n {
			return nil, nil, nil, false, "pair_count_differs"
		}
		for i, kvp := range ps.KVPairs {
			k, kf := c12Eval(kvp.Key, "")
			table = append(table, c12Entry{2 * i, "", k, kf, exprText(2 * i)})
			if kf {
				evalOK = false
				evKeys, evVals = append(evKeys, ""), append(evVals, "")
				continue
			}
			v, vf := c12Eval(kvp.Value, k)
			table = append(table, c12Entry{2*i + 1, k, v, vf, exprText(2*i + 1)})
			if vf {
				evalOK = false
			}
			evKeys, evVals = append(evKeys, k), append(evVals, v)
		}
	case *kvql.RemoveStmt:
		if len(ps.Keys) != n {
			return nil, nil, nil, false, "key_count_differs"
		}
		for i, ke := range ps.Keys {
			k, kf := c12Eval(ke, "")
			table = append(table, c12Entry{i, "", k, kf, exprText(i)})
			if kf {
				evalOK = false
			}
			evKeys = append(evKeys, k)
		}
	default:
		return nil, nil, nil, false, "not_a_write_statement"
	}
	return
}

type c12Entry struct {
	id       int
	key      string
	out      string
	failed   bool
	exprText string
}

func c12CoqEntry(en c12Entry) string {
	r := "None"
	if !en.failed {
		r = "(Some " + coqStr(en.out) + ")"
	}
	return fmt.Sprintf("(%d, %s, %s, %s)", en.id, coqStr(en.key), coqStr(""), r)
}

func c12QuoteKey(k string) (string, bool) {
	for i := 0; i < len(k); i++ {
		if k[i] == '\'' || k[i] == '\\' || k[i] < 0x20 || k[i] > 0x7e {
			return "", false
		}
	}
	return "'" + k + "'", true
}

func c12OptStr(s *string) string {
	if s == nil {
		return "None"
	}
	return "(Some " + coqStr(*s) + ")"
}

// c12Run executes one statement on st (which is modified) and emits the case.  It returns
// the evaluated pairs / keys according to the generator (nil when some expression fails).
func c12Run(e *emitter, s c12Stmt, st *refStore, polls []int, seq, step int, readKeys []string) {
	q := s.text()
	prior := st.pairs()
	rp := c12Replay{Query: q, Prior: prior, Seq: seq, Step: step}
	kind := 0
	if s.remove {
		kind = 1
	}
	n := len(s.keys)

	// the table: evaluated by the harness through the public Expression interface, on a
	// separate parse of the statement
	exprText := func(id int) string {
		if s.remove {
			return s.keys[id].text
		}
		if id%2 == 0 {
			return s.keys[id/2].text
		}
		return s.vals[id/2].text
	}
	table, evKeys, _, evalOK, status := c12Table(q, n, exprText)
	if status != "" {
		e.m.OutOfModel++
		e.count(status)
		return
	}
	for _, en := range table {
		if en.failed {
			rp.Evaluated = append(rp.Evaluated, fmt.Sprintf("%s [key=%q] -> evaluation error", en.exprText, en.key))
		} else {
			rp.Evaluated = append(rp.Evaluated, fmt.Sprintf("%s [key=%q] -> %q", en.exprText, en.key, en.out))
		}
	}

	// sanity filter: the generator's own denotation of the pool expressions must agree with what
	// the harness obtained through Expression.Execute; an expression whose meaning changed (that
	// is the evaluator's business, C04/C10/C14, not C12's) takes the case out of the model
	for _, en := range table {
		var ge c12Expr
		keyArg := ""
		if s.remove {
			ge = s.keys[en.id]
		} else if en.id%2 == 0 {
			ge = s.keys[en.id/2]
		} else {
			ge = s.vals[en.id/2]
			keyArg = en.key
		}
		if ge.fails != en.failed || (!en.failed && ge.want != nil && ge.want(keyArg) != en.out) {
			e.m.OutOfModel++
			e.count("pool_expression_changed_meaning")
			return
		}
	}

	// the required final state (generator's denotation = the harness's evaluation, by the filter)
	model := map[string]string{}
	for _, kv := range prior {
		model[kv[0]] = kv[1]
	}
	genFails := false
	genKnown := true
	var genKeys []string
	for i := range s.keys {
		if s.keys[i].fails || (!s.remove && s.vals[i].fails) {
			genFails = true
		}
	}
	if !genFails && len(polls) > 0 {
		for i := range s.keys {
			if s.keys[i].want == nil || (!s.remove && s.vals[i].want == nil) {
				genKnown = false
				break
			}
			k := s.keys[i].want("")
			genKeys = append(genKeys, k)
			if s.remove {
				delete(model, k)
			} else {
				model[k] = s.vals[i].want(k)
			}
		}
	}

	// run the implementation
	var results []string
	var obsRes []string
	firstErrClass := ""
	anyErrAfterOK := false
	func() {
		defer func() {
			if r := recover(); r != nil {
				rp.Panic = fmt.Sprint(r)
			}
		}()
		kvql.PlanBatchSize = 32
		kvql.EnableFieldCache = true
		plan, err := kvql.NewOptimizer(q).BuildPlan(st)
		if err != nil {
			rp.Panic = "BuildPlan rejected the statement: " + err.Error()
			return
		}
		ctx := kvql.NewExecuteCtx()
		for i, p := range polls {
			var row []kvql.Column
			var err error
			if p == 0 {
				row, err = plan.Next(ctx)
				rp.Polls = append(rp.Polls, "Next")
			} else {
				var rows [][]kvql.Column
				rows, err = plan.Batch(ctx)
				rp.Polls = append(rp.Polls, "Batch")
				if len(rows) > 1 {
					rp.Panic = fmt.Sprintf("Batch returned %d rows", len(rows))
				}
				if len(rows) > 0 {
					row = rows[0]
				}
			}
			// C12 sees three outcomes of a poll: no error, a storage error, an evaluation error
			// (whatever Go type the evaluator's error has)
			ec := errClass(err)
			if ec != "ok" && ec != "storage" {
				ec = "exec"
			}
			cls := map[string]int{"ok": 0, "storage": 1, "exec": 2}[ec]
			if i == 0 {
				firstErrClass = ec
			} else if err != nil {
				anyErrAfterOK = true
			}
			if row == nil {
				obsRes = append(obsRes, fmt.Sprintf("(None, %d)", cls))
				results = append(results, fmt.Sprintf("nil err=%v", err))
			} else {
				cnt, ok := row[0].(int)
				if !ok || len(row) != 1 || cnt < 0 {
					rp.Panic = fmt.Sprintf("unexpected row %v", row)
					cnt = 0
				}
				obsRes = append(obsRes, fmt.Sprintf("(Some %d, %d)", cnt, cls))
				results = append(results, fmt.Sprintf("[%d] err=%v", cnt, err))
			}
		}
	}()
	rp.Results = results
	log := append([]call{}, st.log...)
	st.log = nil
	rp.Log = c12LogText(log)
	final := st.pairs()
	rp.Final = final

	// read-your-write: point SELECTs afterwards
	var reads []string
	type rd struct {
		k string
		v *string
	}
	var rds []rd
	seenK := map[string]bool{}
	cand := append([]string{}, readKeys...)
	if evalOK {
		cand = append(cand, evKeys...)
	}
	for ri, k := range cand {
		if seenK[k] {
			continue
		}
		seenK[k] = true
		qk, ok := c12QuoteKey(k)
		if !ok {
			continue
		}
		res := runQuery("select * where key = "+qk, st, (ri+len(polls))%2 == 0, 32, true)
		st.log = nil
		var got *string
		bad := ""
		if res.Err != nil || res.Panic != "" {
			bad = fmt.Sprint("error ", res.Err, res.Panic)
		} else if len(res.Rows) > 1 {
			bad = fmt.Sprintf("%d rows", len(res.Rows))
		} else if len(res.Rows) == 1 {
			r := res.Rows[0]
			kb, ok1 := r[0].([]byte)
			vb, ok2 := r[1].([]byte)
			if !ok1 || !ok2 || string(kb) != k {
				bad = fmt.Sprintf("row %v", canonRow(r))
			} else {
				s := string(vb)
				got = &s
			}
		}
		if bad != "" {
			s := "\x00unreadable:" + bad
			got = &s
		}
		rds = append(rds, rd{k, got})
		if got == nil {
			reads = append(reads, fmt.Sprintf("key=%q -> no row", k))
		} else {
			reads = append(reads, fmt.Sprintf("key=%q -> %q", k, *got))
		}
	}
	rp.Reads = reads

	// the case term
	ents := make([]string, len(table))
	for i, en := range table {
		ents[i] = c12CoqEntry(en)
	}
	pl := make([]string, len(polls))
	for i, p := range polls {
		pl[i] = fmt.Sprint(p)
	}
	rdT := make([]string, len(rds))
	for i, r := range rds {
		rdT[i] = "(" + coqStr(r.k) + ", " + c12OptStr(r.v) + ")"
	}
	term := fmt.Sprintf("Plain (Case %d %s %d %s %s %s %s %s %s)", kind, coqPairs(prior), n, coqList(ents),
		coqList(pl), coqList(obsRes), c12CoqLog(log), coqPairs(final), coqList(rdT))
	nontrivial := n > 0 && len(polls) > 0
	if !genFails && genKnown {
		for _, kv := range c12SortedMap(model) {
			rp.Want = append(rp.Want, kv)
		}
	}
	idx := e.add(term, rp, nontrivial)

	// measured distribution
	if s.remove {
		e.count("stmt=remove")
	} else {
		e.count("stmt=put")
	}
	e.count(fmt.Sprintf("n=%d", min(n, 6)))
	e.count(fmt.Sprintf("polls=%d", min(len(polls), 7)))
	if genFails {
		e.count("some_expression_fails")
	}
	dup := false
	seen := map[string]bool{}
	for _, k := range genKeys {
		if seen[k] {
			dup = true
		}
		seen[k] = true
	}
	if dup {
		e.count("duplicate_key_in_statement")
	}
	overw := false
	for _, k := range genKeys {
		for _, kv := range prior {
			if kv[0] == k {
				overw = true
			}
		}
	}
	if overw {
		e.count("touches_existing_key")
	}
	for i := range s.keys {
		e.count("keyexpr=" + s.keys[i].kind)
		if !s.remove {
			e.count("valexpr=" + s.vals[i].kind)
		}
	}
	if seq > 0 {
		e.count("in_sequence")
	}

	// direct verdict on the implementation
	nw := 0
	for _, c := range log {
		if isWrite(c.Op) {
			nw++
		}
	}
	switch {
	case rp.Panic != "":
		e.fail(idx, "panic / malformed result: "+rp.Panic, "C12/panic", rp)
	case genFails && len(polls) > 0 && (nw != 0 || !c12EqPairs(final, prior) || firstErrClass != "exec"):
		e.fail(idx, "an expression failed to evaluate, yet a write was issued / the state changed / no error was returned", "C12/all-or-nothing", rp)
	case len(polls) == 0 && (nw != 0 || !c12EqPairs(final, prior)):
		e.fail(idx, "a plan that was never polled wrote to the store", "C12/exactly-once", rp)
	case !genFails && len(polls) > 0 && (nw != c12Btoi(n > 0) || len(log) != nw || firstErrClass != "ok" || anyErrAfterOK):
		e.fail(idx, fmt.Sprintf("the writes were issued %d time(s) (storage calls %v), required exactly %d", nw, rp.Log, c12Btoi(n > 0)), "C12/exactly-once", rp)
	case !genFails && genKnown && !c12EqPairs(final, c12SortedMap(model)):
		e.fail(idx, "final state differs from the prior state overwritten in order by the stated pairs / minus the stated keys", "C12/final-state", rp)
	default:
		// read-your-write against the model map
		if !genFails && genKnown || genFails {
			for _, r := range rds {
				want, have := model[r.k]
				if (r.v == nil) != !have || (r.v != nil && *r.v != want) {
					e.fail(idx, fmt.Sprintf("select * where key = %q after the statement does not observe the write", r.k), "C12/read-your-write", rp)
					break
				}
			}
		}
	}
}

func c12Btoi(b bool) int {
	if b {
		return 1
	}
	return 0
}

func c12SortedMap(m map[string]string) [][2]string {
	ks := make([]string, 0, len(m))
	for k := range m {
		ks = append(ks, k)
	}
	sort.Strings(ks)
	out := make([][2]string, len(ks))
	for i, k := range ks {
		out[i] = [2]string{k, m[k]}
	}
	return out
}

func c12EqPairs(a, b [][2]string) bool {
	if len(a) != len(b) {
		return false
	}
	for i := range a {
		if a[i] != b[i] {
			return false
		}
	}
	return true
}

// all polling patterns over {Next=0, Batch=1} of length <= maxLen, shortest first
func c12Patterns(maxLen int) [][]int {
	out := [][]int{{}}
	for l := 1; l <= maxLen; l++ {
		for m := 0; m < 1<<l; m++ {
			p := make([]int, l)
			for i := 0; i < l; i++ {
				p[i] = (m >> i) & 1
			}
			out = append(out, p)
		}
	}
	return out
}

func runC12(c *runCtx) error {
	r := newRng(c.seed)
	e := newEmitter(c.out, "C12", "From Coq Require Import List String ZArith.\nFrom KV Require Import Base.Bytes Model.Storage Corr.C12.\nImport ListNotations.\nOpen Scope string_scope.\n", 400)
	e.m.Rule = "a case = (PUT/REMOVE statement over the expression pools, prior state, polling pattern over {Next,Batch}); observed: per-poll result, storage call log, final state, point SELECTs afterwards; non-trivial = at least one pair/key and at least one poll; distinct = distinct Gallina case terms"
	deep := c.thorough() || c.search
	patterns := c12Patterns(4)
	nonEmpty := patterns[1:]
	rr := 0
	nextPolls := func() []int { rr++; return nonEmpty[rr%len(nonEmpty)] }
	nextPrior := func() *refStore { return newStore(c12Priors[rr%len(c12Priors)]) }
	readSample := []string{"a", "b", "zz"}

	// part A: exhaustive small statements
	nk, nv := 8, 6
	if deep {
		nk, nv = len(c12KeyPool), 9
	}
	putKeys := append(append([]c12Expr{}, c12KeyPool[:nk]...), c12PutKeyExtra...)
	vals := c12ValPool[:nv]
	type pr struct{ k, v c12Expr }
	var prs []pr
	for _, k := range putKeys {
		for _, v := range vals {
			prs = append(prs, pr{k, v})
		}
	}
	c12Run(e, c12Stmt{}, nextPrior(), nextPolls(), 0, 0, readSample)
	for _, p := range prs {
		c12Run(e, c12Stmt{keys: []c12Expr{p.k}, vals: []c12Expr{p.v}}, nextPrior(), nextPolls(), 0, 0, readSample)
	}
	for _, p1 := range prs {
		for _, p2 := range prs {
			c12Run(e, c12Stmt{keys: []c12Expr{p1.k, p2.k}, vals: []c12Expr{p1.v, p2.v}}, nextPrior(), nextPolls(), 0, 0, readSample)
		}
	}
	rk := c12KeyPool[:8]
	if deep {
		rk = c12KeyPool
	}
	rk3 := rk
	if !deep {
		rk3 = rk[2:6]
	}
	c12Run(e, c12Stmt{remove: true}, nextPrior(), nextPolls(), 0, 0, readSample)
	for _, k1 := range rk {
		c12Run(e, c12Stmt{remove: true, keys: []c12Expr{k1}}, nextPrior(), nextPolls(), 0, 0, readSample)
		for _, k2 := range rk {
			c12Run(e, c12Stmt{remove: true, keys: []c12Expr{k1, k2}}, nextPrior(), nextPolls(), 0, 0, readSample)
			for _, k3 := range rk3 {
				c12Run(e, c12Stmt{remove: true, keys: []c12Expr{k1, k2, k3}}, nextPrior(), nextPolls(), 0, 0, readSample)
			}
		}
	}

	// part A2: number-literal keys whose spelling differs from their evaluated text
	for _, k1 := range c12SpellKeys {
		c12Run(e, c12Stmt{remove: true, keys: []c12Expr{k1}}, nextPrior(), nextPolls(), 0, 0, []string{"7", "007", "0"})
		for _, v := range []c12Expr{c12ValPool[0], c12ValPool[1], c12ValPool[8]} {
			c12Run(e, c12Stmt{keys: []c12Expr{k1}, vals: []c12Expr{v}}, nextPrior(), nextPolls(), 0, 0, []string{"7", "007", "12"})
		}
		for _, k2 := range c12SpellKeys {
			c12Run(e, c12Stmt{remove: true, keys: []c12Expr{k1, k2}}, nextPrior(), nextPolls(), 0, 0, []string{"7", "007", "12"})
			c12Run(e, c12Stmt{keys: []c12Expr{k1, k2}, vals: []c12Expr{c12ValPool[1], c12ValPool[0]}}, nextPrior(), nextPolls(), 0, 0, []string{"7", "007", "0"})
		}
	}

	// part A3: arithmetic whose value depends on HOW it is grouped (integers above 2^53 mixed with
	// floats: exact integer addition first, then one rounding): the written / removed key and the
	// value are the EVALUATED expressions as written, not a re-associated form of them
	{
		bigK := c12Const("9007199254740993 + 2 + 0.0", "number", fmt.Sprintf("%f", float64(int64(9007199254740993)+2)+0.0))
		bigK2 := c12Const("9007199254740993 + 1 + 1.0", "number", fmt.Sprintf("%f", float64(int64(9007199254740993)+1)+1.0))
		bigV := c12Expr{text: "strlen(key) + 9007199254740993 + 0.5", kind: "keyref", want: func(k string) string {
			return fmt.Sprintf("%f", float64(int64(len(k))+9007199254740993)+0.5)
		}}
		mulV := c12Const("3 * 3002399751580331 * 0.5", "number", fmt.Sprintf("%f", float64(int64(3)*3002399751580331)*0.5))
		prior := [][2]string{{bigK.want(""), "old"}, {"9007199254740994.000000", "other"}, {"a", "x"}}
		for _, st := range []c12Stmt{
			{keys: []c12Expr{c12KeyPool[0]}, vals: []c12Expr{bigK}},
			{keys: []c12Expr{c12KeyPool[0], c12KeyPool[1]}, vals: []c12Expr{bigV, mulV}},
			{keys: []c12Expr{bigK}, vals: []c12Expr{c12ValPool[1]}},
			{keys: []c12Expr{bigK2, c12KeyPool[0]}, vals: []c12Expr{c12ValPool[2], bigV}},
			{remove: true, keys: []c12Expr{bigK}},
			{remove: true, keys: []c12Expr{c12KeyPool[0], bigK2}},
		} {
			c12Run(e, st, newStore(prior), nextPolls(), 0, 0, []string{bigK.want(""), "9007199254740994.000000", "a"})
		}
	}

	// part B: every polling pattern x representative statements
	K, V := c12KeyPool, c12ValPool
	reps := []c12Stmt{
		{},
		{keys: []c12Expr{K[0]}, vals: []c12Expr{V[0]}},
		{keys: []c12Expr{K[0], K[0]}, vals: []c12Expr{V[0], V[9]}},
		{keys: []c12Expr{K[2], K[4], K[1]}, vals: []c12Expr{V[2], V[6], V[1]}},
		{keys: []c12Expr{K[0], K[1]}, vals: []c12Expr{V[0], V[4]}},
		{keys: []c12Expr{K[5]}, vals: []c12Expr{V[0]}},
		{keys: []c12Expr{K[6], K[3]}, vals: []c12Expr{V[7], V[8]}},
		{remove: true},
		{remove: true, keys: []c12Expr{K[0]}},
		{remove: true, keys: []c12Expr{K[0], K[2], K[0]}},
		{remove: true, keys: []c12Expr{K[1], K[5]}},
		{remove: true, keys: []c12Expr{K[9]}},
	}
	for _, s := range reps {
		for _, p := range patterns {
			rr++
			c12Run(e, s, newStore(c12Priors[2+rr%3]), p, 0, 0, readSample)
		}
	}

	// part C: random statements
	nRandom := 1000
	if deep {
		nRandom = 40000
	}
	allPutKeys := append(append([]c12Expr{}, c12KeyPool...), c12PutKeyExtra...)
	randStmt := func(failing bool) c12Stmt {
		s := c12Stmt{remove: r.chance(1, 3)}
		n := 1 + r.intn(5)
		for i := 0; i < n; i++ {
			for {
				var k, v c12Expr
				if s.remove {
					k = pick(r, c12KeyPool)
				} else {
					k = pick(r, allPutKeys)
					v = pick(r, c12ValPool)
				}
				if !failing && (k.fails || v.fails) {
					continue
				}
				s.keys = append(s.keys, k)
				if !s.remove {
					s.vals = append(s.vals, v)
				}
				break
			}
		}
		return s
	}
	randPrior := func() *refStore {
		universe := []string{"", "0", "12", "7", "C", "a", "ab", "abc", "b", "kXy", "m", "zz"}
		kvs := [][2]string{}
		for _, k := range universe {
			if r.chance(2, 5) {
				kvs = append(kvs, [2]string{k, fmt.Sprintf("p%d", r.intn(50))})
			}
		}
		return newStore(kvs)
	}
	for i := 0; i < nRandom; i++ {
		s := randStmt(r.chance(1, 4))
		np := 1 + r.intn(6)
		polls := make([]int, np)
		for j := range polls {
			polls[j] = r.intn(2)
		}
		c12Run(e, s, randPrior(), polls, 0, 0, []string{"a", "", "kXy"})
	}

	// part C2: long statements (more pairs / keys than one batch of 32), with and without an
	// evaluation failure at an early, a late (beyond the first 32) and the last position --
	// all-or-nothing and exactly-once must not depend on the length of the statement
	for _, n := range []int{31, 32, 33, 40, 70} {
		for _, failAt := range []int{-1, 0, n / 2, n - 1} {
			for _, remove := range []bool{false, true} {
				s := c12Stmt{remove: remove}
				for i := 0; i < n; i++ {
					k := c12KeyPool[i%len(c12KeyPool)]
					v := c12ValPool[(i*3)%len(c12ValPool)]
					for k.fails {
						k = c12KeyPool[r.intn(len(c12KeyPool))]
					}
					for v.fails {
						v = c12ValPool[r.intn(len(c12ValPool))]
					}
					if i == failAt {
						if remove {
							for !k.fails {
								k = c12KeyPool[r.intn(len(c12KeyPool))]
							}
						} else {
							for !v.fails {
								v = c12ValPool[r.intn(len(c12ValPool))]
							}
						}
					}
					s.keys = append(s.keys, k)
					if !remove {
						s.vals = append(s.vals, v)
					}
				}
				c12Run(e, s, randPrior(), []int{r.intn(2), r.intn(2)}, 0, 0, []string{"a", "", "kXy"})
			}
		}
	}

	// part C3: many DISTINCT literal keys (sizes around powers of two: writes handed to the
	// storage in chunks / buffers must still be exactly the stated ones)
	c3sizes := []int{127, 128, 129, 256}
	if deep {
		c3sizes = []int{63, 64, 65, 127, 128, 129, 255, 256, 257, 512, 1024, 1025}
	}
	for _, n := range c3sizes {
		for _, remove := range []bool{false, true} {
			s := c12Stmt{remove: remove}
			var prior [][2]string
			for i := 0; i < n; i++ {
				k := fmt.Sprintf("n%04d", i)
				s.keys = append(s.keys, c12Const("'"+k+"'", "literal", k))
				if !remove {
					s.vals = append(s.vals, c12ValPool[[]int{0, 1, 9}[i%3]])
				}
				if i%3 != 1 {
					prior = append(prior, [2]string{k, "old"})
				}
			}
			prior = append(prior, [2]string{"zz", "last"}, [2]string{"a", "first"})
			c12Run(e, s, newStore(prior), []int{1, 0}, 0, 0, []string{"n0000", fmt.Sprintf("n%04d", n-1), "zz"})
		}
	}

	// part D: statement sequences against the model map (each statement is a case whose prior
	// state is the store left by the previous ones; the direct verdict compares the store to
	// the generator's model map after every statement)
	nSeq := 100
	if deep {
		nSeq = 5000
	}
	for sq := 1; sq <= nSeq; sq++ {
		st := randPrior()
		steps := 3 + r.intn(10)
		for step := 1; step <= steps; step++ {
			s := randStmt(r.chance(1, 6))
			polls := []int{r.intn(2)}
			for r.chance(1, 3) {
				polls = append(polls, r.intn(2))
			}
			st.log = nil
			c12Run(e, s, st, polls, sq, step, []string{pick(r, []string{"a", "b", "ab", "12", "7", "C", "m"})})
		}
	}
	// part E: the statements as query TEXTS through the whole pipeline (Model/PipelineW.v)
	pwRunC12(c, e, r)
	e.m.Exhaustive = true
	e.m.Notes = append(e.m.Notes, "exhaustive: all PUT statements of <= 2 pairs and REMOVE statements of <= 3 keys over the (tier-dependent) pools; all polling patterns of length <= 4 on the representative statements; random beyond")
	return e.flush()
}

// ---------------------------------------------------------------------------------------------
// C12 from the query TEXT: kvql.NewOptimizer(q).BuildPlan(store) + the polls against the Coq twin
// of the whole pipeline (Model/PipelineW.v write_text, evaluated by Corr/C12.v check_wtext):
// lexer, statement parser, Validate (no `value` in PUT, no key / value in REMOVE, text-or-number
// results), function-call check, NO constant folding, PutPlan / RemovePlan over the evaluator twin.

type pwReplay struct {
	Kind      string      `json:"kind"`
	Query     string      `json:"query"`
	Prior     [][2]string `json:"prior_state"`
	Polls     []string    `json:"polls"`
	Build     string      `json:"build_plan"`
	Results   []string    `json:"poll_results,omitempty"`
	Log       []string    `json:"storage_calls"`
	Final     [][2]string `json:"final_state"`
	Want      [][2]string `json:"required_final_state,omitempty"`
	Evaluated []string    `json:"evaluated_expressions,omitempty"`
	Panic     string      `json:"panic,omitempty"`
}

// words whose case is varied (keywords and function names are case-insensitive)
var pwCaseWords = map[string]bool{"put": true, "remove": true, "delete": true, "where": true, "limit": true, "and": true,
	"or": true, "in": true, "between": true, "key": true, "value": true, "true": true, "false": true, "upper": true,
	"lower": true, "str": true, "strlen": true, "int": true}

// pwRender: the units of q re-joined with varied spacing (style as in pbRender) and keyword case,
// then 0..2 trailing semicolons
func pwRender(r *rng, q string, style int, mixCase bool, semis int) string {
	toks := pbTokens(q)
	if mixCase {
		for i, t := range toks {
			if pwCaseWords[t] {
				switch r.intn(3) {
				case 0:
					toks[i] = strings.ToUpper(t)
				case 1:
					toks[i] = strings.ToUpper(t[:1]) + t[1:]
				}
			}
		}
	}
	for i := 0; i < semis; i++ {
		toks = append(toks, ";")
	}
	return pbRender(r, toks, style, false)
}

// pwWrap: an expression text in 0..2 pairs of parentheses
func pwWrap(r *rng, x string) string {
	for k := r.intn(3); k > 0 && r.chance(1, 2); k-- {
		x = "(" + x + ")"
	}
	return x
}

// pwTable: the harness's own parse of q and evaluation of every key / value expression through
// the public Expression.Execute (as c12Table, without knowing the statement beforehand)
func pwTable(q string) (kind, n int, table []c12Entry, evPairs [][2]string, evalOK, ok bool) {
	defer func() {
		if r := recover(); r != nil {
			ok = false
		}
	}()
	pstmt, perr := kvql.NewParser(q).Parse()
	if perr != nil {
		return 0, 0, nil, nil, false, false
	}
	evalOK = true
	switch ps := pstmt.(type) {
	case *kvql.PutStmt:
		kind, n = 0, len(ps.KVPairs)
		for i, kvp := range ps.KVPairs {
			k, kf := c12Eval(kvp.Key, "")
			table = append(table, c12Entry{2 * i, "", k, kf, kvp.Key.String()})
			if kf {
				evalOK = false
				continue
			}
			v, vf := c12Eval(kvp.Value, k)
			table = append(table, c12Entry{2*i + 1, k, v, vf, kvp.Value.String()})
			if vf {
				evalOK = false
			}
			evPairs = append(evPairs, [2]string{k, v})
		}
	case *kvql.RemoveStmt:
		kind, n = 1, len(ps.Keys)
		for i, ke := range ps.Keys {
			k, kf := c12Eval(ke, "")
			table = append(table, c12Entry{i, "", k, kf, ke.String()})
			if kf {
				evalOK = false
			}
			evPairs = append(evPairs, [2]string{k, ""})
		}
	default:
		return 0, 0, nil, nil, false, false
	}
	return kind, n, table, evPairs, evalOK, true
}

// pwGen: what the generator wrote (nil for directed and mangled texts): the pool expressions with
// the generator's own denotation, independent of the implementation's parser and evaluator
type pwGen struct {
	remove     bool
	keys, vals []c12Expr
}

func pwWriteCase(e *emitter, q string, prior [][2]string, polls []int, origin string, gen *pwGen) {
	rp := pwReplay{Kind: "PUT / REMOVE text through NewOptimizer(q).BuildPlan(store), polled", Query: q, Prior: prior}
	st := newStore(prior)
	built := ""
	var obsRes, results []string
	firstErrClass := ""
	anyErrLater := false
	planKind := ""
	func() {
		defer func() {
			if r := recover(); r != nil {
				rp.Panic = fmt.Sprint(r)
			}
		}()
		kvql.PlanBatchSize = 32
		kvql.EnableFieldCache = true
		plan, err := kvql.NewOptimizer(q).BuildPlan(st)
		if err != nil {
			if errClass(err) == "syntax" {
				built = fmt.Sprintf("(WRejected (%d))", errPos(err))
			} else {
				built = "WBuildErr"
			}
			rp.Build = "error: " + err.Error()
			return
		}
		built = "WAccepted"
		planKind = fmt.Sprintf("%T", plan)
		rp.Build = planKind
		ctx := kvql.NewExecuteCtx()
		for i, p := range polls {
			var row []kvql.Column
			var err error
			if p == 0 {
				row, err = plan.Next(ctx)
				rp.Polls = append(rp.Polls, "Next")
			} else {
				var rows [][]kvql.Column
				rows, err = plan.Batch(ctx)
				rp.Polls = append(rp.Polls, "Batch")
				if len(rows) > 1 {
					rp.Panic = fmt.Sprintf("Batch returned %d rows", len(rows))
				}
				if len(rows) > 0 {
					row = rows[0]
				}
			}
			ec := errClass(err)
			if ec != "ok" && ec != "storage" {
				ec = "exec"
			}
			cls := map[string]int{"ok": 0, "storage": 1, "exec": 2}[ec]
			if i == 0 {
				firstErrClass = ec
			} else if err != nil {
				anyErrLater = true
			}
			if row == nil {
				obsRes = append(obsRes, fmt.Sprintf("(None, %d)", cls))
				results = append(results, fmt.Sprintf("nil err=%v", err))
			} else {
				cnt, ok := row[0].(int)
				if !ok || len(row) != 1 || cnt < 0 {
					rp.Panic = fmt.Sprintf("unexpected row %v", row)
					cnt = 0
				}
				obsRes = append(obsRes, fmt.Sprintf("(Some %d, %d)", cnt, cls))
				results = append(results, fmt.Sprintf("[%d] err=%v", cnt, err))
			}
		}
	}()
	if built == "" { // BuildPlan panicked
		built = "WBuildErr"
	}
	rp.Results = results
	log := append([]call{}, st.log...)
	rp.Log = c12LogText(log)
	final := st.pairs()
	rp.Final = final

	kind, n, table, evPairs, evalOK, tok := pwTable(q)
	for _, en := range table {
		if en.failed {
			rp.Evaluated = append(rp.Evaluated, fmt.Sprintf("%s [key=%q] -> evaluation error", en.exprText, en.key))
		} else {
			rp.Evaluated = append(rp.Evaluated, fmt.Sprintf("%s [key=%q] -> %q", en.exprText, en.key, en.out))
		}
	}
	ents := make([]string, len(table))
	for i, en := range table {
		ents[i] = c12CoqEntry(en)
	}
	pl := make([]string, len(polls))
	for i, p := range polls {
		pl[i] = fmt.Sprint(p)
	}
	term := fmt.Sprintf("WText (WTCase %s %s %s (Case %d %s %d %s %s %s %s %s []))", coqStr(q), built, coqBool(tok && built == "WAccepted"),
		kind, coqPairs(prior), n, coqList(ents), coqList(pl), coqList(obsRes), c12CoqLog(log), coqPairs(final))
	idx := e.add(term, rp, built == "WAccepted" && n > 0 && len(polls) > 0)

	// measured distribution
	e.count("text:origin=" + origin)
	switch {
	case built == "WAccepted":
		e.count("text:accepted")
		e.count("text:plan=" + strings.TrimPrefix(planKind, "*kvql."))
		e.count(fmt.Sprintf("text:polls=%d", min(len(polls), 7)))
		if tok && !evalOK {
			e.count("text:accepted_some_expression_fails")
		}
		if tok {
			seen := map[string]bool{}
			for _, kv := range evPairs {
				if seen[kv[0]] {
					e.count("text:duplicate_key_in_statement")
					break
				}
				seen[kv[0]] = true
			}
		}
	case built == "WBuildErr":
		e.count("text:build_error_not_syntax")
	default:
		e.count("text:rejected")
	}
	isWriteStmt := true
	if toks := pwLex(q); len(toks) == 0 || (toks[0].Tp != kvql.PUT && toks[0].Tp != kvql.REMOVE) {
		e.count("text:outside_model_not_a_put_or_remove")
		isWriteStmt = false
	}

	// direct verdict on the implementation, from the harness's own evaluation of the expressions
	nw := 0
	for _, c := range log {
		if isWrite(c.Op) {
			nw++
		}
	}
	switch {
	case !isWriteStmt:
		// another statement kind (or no statement at all): not this twin's, not C12's
	case rp.Panic != "":
		e.fail(idx, "panic / malformed result: "+rp.Panic, "C12/text-panic", rp)
	case built != "WAccepted":
		if len(log) != 0 || !c12EqPairs(final, prior) {
			e.fail(idx, "BuildPlan returned an error, yet the storage was touched", "C12/text-rejected-touches", rp)
		}
	case !tok:
		e.fail(idx, "BuildPlan accepted a text that Parser.Parse does not read as a PUT / REMOVE statement", "C12/text-accepted-unparsed", rp)
	case len(polls) == 0:
		if nw != 0 || !c12EqPairs(final, prior) {
			e.fail(idx, "a plan that was never polled wrote to the store", "C12/text-exactly-once", rp)
		}
	case !evalOK:
		if nw != 0 || !c12EqPairs(final, prior) || firstErrClass != "exec" {
			e.fail(idx, "an expression failed to evaluate, yet a write was issued / the state changed / no error was returned", "C12/text-all-or-nothing", rp)
		}
	default:
		model := map[string]string{}
		for _, kv := range prior {
			model[kv[0]] = kv[1]
		}
		for _, kv := range evPairs {
			if kind == 0 {
				model[kv[0]] = kv[1]
			} else {
				delete(model, kv[0])
			}
		}
		rp.Want = c12SortedMap(model)
		switch {
		case nw != c12Btoi(n > 0) || len(log) != nw || firstErrClass != "ok" || anyErrLater:
			e.fail(idx, fmt.Sprintf("the writes were issued %d time(s) (storage calls %v), required exactly %d", nw, rp.Log, c12Btoi(n > 0)), "C12/text-exactly-once", rp)
		case !c12EqPairs(final, rp.Want):
			e.fail(idx, "final state differs from the prior state overwritten in order by the evaluated pairs / minus the evaluated keys of the statement text", "C12/text-final-state", rp)
		}
	}
	// ... and from the generator's own denotation of what it wrote (independent of the
	// implementation's parser and evaluator)
	if gen != nil && built == "WAccepted" && rp.Panic == "" && len(polls) > 0 && len(e.m.ImplFails) > 0 && e.m.ImplFails[len(e.m.ImplFails)-1].Case == idx {
		return
	}
	if gen != nil && built == "WAccepted" && rp.Panic == "" && len(polls) > 0 {
		fails := false
		for i := range gen.keys {
			if gen.keys[i].fails || (!gen.remove && gen.vals[i].fails) {
				fails = true
			}
		}
		if fails {
			if nw != 0 || !c12EqPairs(final, prior) || firstErrClass != "exec" {
				e.fail(idx, "an expression the generator wrote fails to evaluate, yet a write was issued / the state changed / no error was returned", "C12/text-all-or-nothing", rp)
			}
			return
		}
		model := map[string]string{}
		for _, kv := range prior {
			model[kv[0]] = kv[1]
		}
		for i := range gen.keys {
			k := gen.keys[i].want("")
			if gen.remove {
				delete(model, k)
			} else {
				model[k] = gen.vals[i].want(k)
			}
		}
		rp.Want = c12SortedMap(model)
		if !c12EqPairs(final, rp.Want) {
			e.fail(idx, "final state differs from the prior state overwritten in order by the pairs / minus the keys the generator wrote into the statement text", "C12/text-final-state", rp)
		}
	}
}

func pwLex(q string) (toks []*kvql.Token) {
	defer func() {
		if recover() != nil {
			toks = nil
		}
	}()
	toks = kvql.NewLexer(q).Split()
	n := len(toks)
	for n > 1 && toks[n-1].Tp == kvql.SEMI {
		n--
	}
	return toks[:n]
}

// texts with a fixed reading: rejections of every front-end stage, shapes at the edge of the
// statement syntax, evaluation that depends on NOT folding / on the pair's own key
var pwWriteDirected = []string{
	"put", "remove", "put;", "remove ;;", "PUT ('a', 'b')", "Remove 'a'", "put('a','b')", "put ( 'a' , 'b' ) ;",
	"put ('a', value)", "put ('a', key + value)", "put (key, 'v')", "put (key + 'x', 'v')", "put (value, 'v')",
	"remove key", "remove value", "remove 'a', key", "remove upper(key)", "remove 'a' + value",
	"put (1 = 1, 'v')", "put ('a', 1 = 1)", "put (true, 'v')", "put ('a', !true)", "remove true", "remove 1 > 2", "remove ('a', 'b')",
	"put ('a', ('b', 'c'))", "put ('a')", "put ('a',)", "put ('a', 'b',)", "put ('a', 'b') ('c', 'd')", "put ('a', 'b'), ", "put ('a', 'b'),,",
	"put 'a', 'b'", "put ('a' 'b')", "put (('a', 'b'))", "put ('a', 'b'", "put 'a'", "remove 'a',", "remove 'a' 'b'", "remove ,'a'", "remove 'a',,'b'",
	"put (nofunc('a'), 'b')", "put ('a', nofunc(key))", "put ('a', upper(key, key))", "put (upper(), 'b')", "remove nofunc('a')", "remove lower('A', 'B')",
	"put ('a', count(key))", "remove sum(1)", "put ('a', 'b') limit 1", "remove 'a' limit 1", "put ('a', 'b') where key = 'a'", "remove 'a' where key = 'a'",
	"put ('a', 1 + 'x')", "put ('a' + 1, 'x')", "remove 'a' + 1", "put (1 + 2, 3 * 4)", "put ('1' + '2', key + key)", "remove 1 + 2, '1' + '2'",
	"put ('k', key), ('k', key + key), ('k', upper(key) + 'z')", "put ('a', 'x'), ('a', 'y'), ('a', key)", "remove 'a', 'a', 'a'",
	"put (007, key)", "put (00, 'z')", "remove 007, 7, '007'", "put (0012 + 0, key + '!')", "put (12, strlen(key))", "put (9223372036854775807 + 1, 'x')",
	"put ('a', str(1/(1-1)))", "put (str(1/(1-1)), 'a')", "put ('a', 'x'), ('b', str(1/(strlen(key)-1)))", "remove 'a', str(1/(1-1))", "remove str(2/(strlen('a')-1)), 'a'",
	"put ('a', 1/0)", "put ('a', 1/(1-1))", "remove 1/0", "put ('a', 1.5)", "put (1.5, 'x')", "put ('f', 0.5 + 0.25)", "remove 2.0", "put ('a', 7 / 2)", "put ('a', 7.0 / 2)",
	"put ('a', 'it''s')", "put (\"a\", \"b\")", "put ('', '')", "remove ''", "put ('a b', ' ')", "put ('a', key = 'a')", "put ('a', `x`)", "remove `x`", "put ('a', x)", "remove x",
	"put ('a', upper(lower(upper(key + 'q'))))", "put (lower('AB'), upper(key))", "put ('a', substr('hello', 1, 3) + key)", "remove substr('hello', 1, 3)",
	"put ('a', 'b') -- c", "select * where key = 'a'", "where key = 'a'", "delete where key = 'a'", "", ";", "x", "('a', 'b')", "put put ('a', 'b')", "remove remove 'a'",
	"put ('a', value) ('b'", "put ('a', 'b'), ('c', value)", "put ('a', 'b'), (key, 'c')", "remove 'a', 1 = 1", "put ('a', 'b'), ('c', 1 = 1)",
	"put ('a', key ~= 'x')", "put ('a', str(key ~= 'x'))", "put ('a', json(key))", "put ('a', split('x,y', ',')[1])", "put ('a', list(1, 2)[0])",
}

func pwRunC12(c *runCtx, e *emitter, r *rng) {
	e.m.Rule += "; TEXT cases: PUT / REMOVE statements over the same expression pools rendered as query texts (varied spacing, keyword case, trailing semicolons, parenthesised expressions, number-literal keys in non-canonical spelling, duplicate keys, constant sub-expressions that the optimizer would fold in a WHERE clause, `key` inside PUT values, failing expressions), a directed list of rejections of every front-end stage and statement-syntax edge shapes, and malformed variants, x prior states x polling patterns; each is run through kvql.NewOptimizer(q).BuildPlan(store) and polled, and compared with Model/PipelineW.v write_text on the text (accepted / rejected and error position, poll results, storage call log, final state)"
	deep := c.thorough() || c.search
	patterns := c12Patterns(4)
	randPrior := func() [][2]string {
		universe := []string{"", "0", "007", "12", "3", "7", "C", "a", "ab", "abc", "b", "f", "k", "kXy", "m", "zz"}
		kvs := [][2]string{}
		for _, k := range universe {
			if r.chance(2, 5) {
				kvs = append(kvs, [2]string{k, fmt.Sprintf("p%d", r.intn(50))})
			}
		}
		return kvs
	}
	randPolls := func() []int {
		if r.chance(1, 12) {
			return []int{}
		}
		np := 1 + r.intn(5)
		polls := make([]int, np)
		for j := range polls {
			polls[j] = r.intn(2)
		}
		return polls
	}
	for i, q := range pwWriteDirected {
		pwWriteCase(e, q, randPrior(), patterns[1+i%(len(patterns)-1)], "directed", nil)
		if deep {
			pwWriteCase(e, pwRender(r, q, 2, true, r.intn(3)), randPrior(), randPolls(), "directed", nil)
			pwWriteCase(e, pwRender(r, q, 1, true, 0), randPrior(), randPolls(), "directed", nil)
		}
	}
	n := 420
	if deep {
		n = 12000
	}
	keyPool := append(append([]c12Expr{}, c12KeyPool...), c12SpellKeys...)
	for i := 0; i < n; i++ {
		remove := r.chance(1, 3)
		np := r.intn(5)
		if r.chance(1, 20) {
			np = 6 + r.intn(30)
		}
		failing := r.chance(1, 4)
		parts := []string{}
		gen := &pwGen{remove: remove}
		for j := 0; j < np; j++ {
			var k, v c12Expr
			for {
				k = pick(r, keyPool)
				v = pick(r, c12ValPool)
				if failing || !(k.fails || (!remove && v.fails)) {
					break
				}
			}
			gen.keys = append(gen.keys, k)
			if remove {
				parts = append(parts, pwWrap(r, k.text))
			} else {
				gen.vals = append(gen.vals, v)
				parts = append(parts, "("+pwWrap(r, k.text)+", "+pwWrap(r, v.text)+")")
			}
		}
		q := "put "
		if remove {
			q = "remove "
		}
		q += strings.Join(parts, ", ")
		semis := 0
		if r.chance(1, 3) {
			semis = 1 + r.intn(2)
		}
		q = pwRender(r, q, r.intn(3), r.chance(1, 2), semis)
		origin := "generated"
		if r.chance(1, 7) {
			q = pbMangle(r, q)
			origin = "mangled"
			gen = nil
		}
		pwWriteCase(e, q, randPrior(), randPolls(), origin, gen)
	}
}
