package main

// C13: SELECT is read-only, rejected statements touch nothing, storage errors surface.
// A case = one statement on one store in one mode at one batch size.  The harness records the
// fault-free run (storage call log, outcome, sizes of the returned batches, final data) and
// then re-runs the statement once for EVERY call index of that log with the reference storage
// failing at exactly that call (exhaustive single-fault injection).  The plan tree handed to
// the Coq twin is read off the built plan's public fields; the WHERE filter is handed over as
// the set of keys whose pair passes it, computed here from the statement template.

import (
	"fmt"
	"sort"
	"strings"

	kvql "github.com/c4pt0r/kvql"
)

func init() { registry["C13"] = runC13 }

var c13FaultRot int

// ---------------------------------------------------------------- plan trees as Gallina terms

func c13OptBytes(b []byte) string {
	if b == nil {
		return "None"
	}
	return "(Some " + coqStr(string(b)) + ")"
}

func c13PlanTerm(p kvql.Plan) (string, string, bool) {
	switch x := p.(type) {
	case *kvql.EmptyResultPlan:
		return "(PScan SEmpty)", "empty", true
	case *kvql.FullScanPlan:
		return "(PScan SFull)", "full", true
	case *kvql.PrefixScanPlan:
		return "(PScan (SPrefix " + coqStr(x.Prefix) + "))", "prefix", true
	case *kvql.RangeScanPlan:
		return "(PScan (SRange " + c13OptBytes(x.Start) + " " + c13OptBytes(x.End) + "))", "range", true
	case *kvql.MultiGetPlan:
		return "(PScan (SMget " + coqStrList(x.Keys) + "))", "mget", true
	case *kvql.LimitPlan:
		c, path, ok := c13PlanTerm(x.ChildPlan)
		return fmt.Sprintf("(PLimit %d %d %s)", x.Start, x.Count, c), path, ok && x.Start >= 0 && x.Count >= 0
	}
	return "(PScan SEmpty)", "?", false
}

func c13FinalTerm(p kvql.FinalPlan) (string, string, []string, bool) {
	switch x := p.(type) {
	case *kvql.ProjectionPlan:
		c, path, ok := c13PlanTerm(x.ChildPlan)
		return "(FProj " + c + ")", path, []string{"projection"}, ok
	case *kvql.AggregatePlan:
		c, path, ok := c13PlanTerm(x.ChildPlan)
		lim := "None"
		if x.Limit >= 0 {
			lim = fmt.Sprintf("(Some %d)", x.Limit)
		}
		return fmt.Sprintf("(FAggr %s %s %d %s)", c, coqBool(x.AggrAll), x.Start, lim), path, []string{"aggregate"}, ok && x.Start >= 0
	case *kvql.FinalOrderPlan:
		c, path, nodes, ok := c13FinalTerm(x.ChildPlan)
		return "(FOrder " + c + ")", path, append(nodes, "order"), ok
	case *kvql.FinalLimitPlan:
		c, path, nodes, ok := c13FinalTerm(x.ChildPlan)
		return fmt.Sprintf("(FLimit %d %d %s)", x.Start, x.Count, c), path, append(nodes, "limit"), ok && x.Start >= 0 && x.Count >= 0
	}
	return "(FProj (PScan SEmpty))", "?", nil, false
}

// ---------------------------------------------------------------- statement templates

type c13Filter struct {
	text  string
	match func(k, v string) bool
}

func c13HasP(k, p string) bool { return strings.HasPrefix(k, p) }

var c13Filters = []c13Filter{
	{"value = 'x'", func(k, v string) bool { return v == "x" }},
	{"value ^= 'x'", func(k, v string) bool { return c13HasP(v, "x") }},
	{"key ^= 'a'", func(k, v string) bool { return c13HasP(k, "a") }},
	{"key ^= 'a' & value = 'x'", func(k, v string) bool { return c13HasP(k, "a") && v == "x" }},
	{"key ^= 'zz'", func(k, v string) bool { return c13HasP(k, "zz") }},
	{"key > 'ab' & key <= 'c'", func(k, v string) bool { return k > "ab" && k <= "c" }},
	{"key >= 'b'", func(k, v string) bool { return k >= "b" }},
	{"key < 'b' & value = 'x'", func(k, v string) bool { return k < "b" && v == "x" }},
	{"key between 'ab' and 'c'", func(k, v string) bool { return k >= "ab" && k <= "c" }},
	{"key = 'a'", func(k, v string) bool { return k == "a" }},
	{"key in ('a', 'zz', 'c')", func(k, v string) bool { return k == "a" || k == "zz" || k == "c" }},
	{"key = 'ab' | key = 'b'", func(k, v string) bool { return k == "ab" || k == "b" }},
	{"key in ('a', 'b', 'ba', 'd') & value = 'x'", func(k, v string) bool {
		return (k == "a" || k == "b" || k == "ba" || k == "d") && v == "x"
	}},
	{"key = 'a' & key = 'b'", func(k, v string) bool { return false }},
}

type c13Shape struct {
	name string
	text func(where string, s, n int) string
	del  bool
	lim  bool
}

var c13Shapes = []c13Shape{
	{"select*", func(w string, s, n int) string { return "select * where " + w }, false, false},
	{"select-limit", func(w string, s, n int) string { return fmt.Sprintf("select key where %s limit %d, %d", w, s, n) }, false, true},
	{"select-order", func(w string, s, n int) string { return "select key, value where " + w + " order by value desc" }, false, false},
	{"select-order-limit", func(w string, s, n int) string {
		return fmt.Sprintf("select key, value where %s order by value desc, key limit %d, %d", w, s, n)
	}, false, true},
	{"aggregate-all", func(w string, s, n int) string { return "select count(1) where " + w }, false, false},
	{"aggregate-group", func(w string, s, n int) string { return "select value, count(1) where " + w + " group by value" }, false, false},
	{"aggregate-group-limit", func(w string, s, n int) string {
		return fmt.Sprintf("select value, count(1) where %s group by value limit %d, %d", w, s, n)
	}, false, true},
	{"aggregate-order-limit", func(w string, s, n int) string {
		return fmt.Sprintf("select value, count(1) as c where %s group by value order by value limit %d, %d", w, s, n)
	}, false, true},
	{"delete", func(w string, s, n int) string { return "delete where " + w }, true, false},
	{"delete-limit", func(w string, s, n int) string { return fmt.Sprintf("delete where %s limit %d, %d", w, s, n) }, true, true},
}

var c13Rejected = []string{
	"select * where",
	"select * where key = 1",
	"select key where key > 'a' group by key",
	"select sum(key, value) where key > 'a'",
	"select key where value = 'x' order by value",
	"select * where key ^= 'a' limit",
	"select * where key ^= 'a' limit 1 2 3",
	"put ('a', value)",
	"put ('a' 'b')",
	"put ('a', true)",
	"remove key",
	"remove 'a' 'b'",
	"delete where",
	"delete where key = 1",
	"delete key = 'a'",
	"frobnicate everything",
	"",
	"where key +",
	"select upper(key where key = 'a'",
}

var c13Writes = []string{
	"put ('a', 'x')",
	"put ('a', 'x'), ('q', key + '!'), ('a', 'y')",
	"put ('k' + 'k', upper(key))",
	"put ('a', str(1/(1-1)))",
	"put ('a', 'x'), ('b', 1/(1-1))",
	"put",
	"remove 'a'",
	"remove 'a', 'nope', 'c'",
	"remove 'a', str(1/(1-1))",
	"remove",
}

var c13KeyPool = []string{"a", "ab", "abc", "b", "ba", "c", "ca", "d", "e", "f", "g", "h", "zz", "zzz"}

func c13Store(r *rng, n int) [][2]string {
	keys := append([]string{}, c13KeyPool...)
	// seeded shuffle, then the first n
	for i := len(keys) - 1; i > 0; i-- {
		j := r.intn(i + 1)
		keys[i], keys[j] = keys[j], keys[i]
	}
	if n > len(keys) {
		n = len(keys)
	}
	keys = keys[:n]
	sort.Strings(keys)
	out := make([][2]string, n)
	for i, k := range keys {
		out[i] = [2]string{k, pick(r, []string{"x", "x", "y", "xz"})}
	}
	return out
}

// c13BigStore: n keys spread over the prefixes a, ab, b, c, d with numeric suffixes
func c13BigStore(r *rng, n int) [][2]string {
	pre := []string{"a", "ab", "b", "c", "d"}
	seen := map[string]bool{}
	keys := []string{}
	for len(keys) < n {
		k := fmt.Sprintf("%s%02d", pick(r, pre), r.intn(60))
		if !seen[k] {
			seen[k] = true
			keys = append(keys, k)
		}
	}
	sort.Strings(keys)
	out := make([][2]string, n)
	for i, k := range keys {
		out[i] = [2]string{k, pick(r, []string{"x", "x", "y", "xz"})}
	}
	return out
}

// ---------------------------------------------------------------- one case

type c13Fault struct {
	Index      int      `json:"fault_at_call"`
	Call       string   `json:"failing_call"`
	Class      string   `json:"error_returned"`
	Calls      int      `json:"storage_calls_issued"`
	Prefix     bool     `json:"log_is_prefix_of_fault_free_log"`
	DataOK     bool     `json:"no_effect_after_the_fault"`
	CallsAfter []string `json:"calls_after_the_fault,omitempty"`
	Rows       int      `json:"rows_returned"`
}

type c13Replay struct {
	Query   string      `json:"query"`
	Kind    string      `json:"kind"`
	Plan    string      `json:"plan"`
	Store   [][2]string `json:"store"`
	Mode    string      `json:"mode"`
	B       int         `json:"batch_size"`
	Log     []string    `json:"storage_calls_fault_free"`
	Outcome string      `json:"outcome_fault_free"`
	Sizes   []int       `json:"returned_batch_sizes"`
	Final   [][2]string `json:"final_state,omitempty"`
	Bad     []c13Fault  `json:"faults_not_surfaced,omitempty"`
	Faults  int         `json:"faults_injected"`
	Panic   string      `json:"panic,omitempty"`
}

func c13Sizes(res runResult, batch bool) []int {
	if batch {
		return append([]int{}, res.BatchLen...)
	}
	out := make([]int, len(res.Rows))
	for i := range out {
		out[i] = 1
	}
	return out
}

func c13EqCall(a, b call) bool { return c12CallText(a) == c12CallText(b) && a.Op == b.Op }

// c13ApplyWrites replays the mutating calls of log on a copy of kvs
func c13ApplyWrites(kvs [][2]string, log []call) [][2]string {
	m := map[string]string{}
	for _, kv := range kvs {
		m[kv[0]] = kv[1]
	}
	for _, c := range log {
		switch c.Op {
		case "Put", "BatchPut":
			for _, kv := range c.Arg {
				m[string(kv.Key)] = string(kv.Value)
			}
		case "Delete":
			delete(m, c.Key)
		case "BatchDelete":
			for _, k := range c.Ks {
				delete(m, string(k))
			}
		}
	}
	return c12SortedMap(m)
}

var c13ClassCode = map[string]int{"ok": 0, "storage": 1, "exec": 2, "syntax": 3, "other": 4}

func c13Run(e *emitter, q string, kvs [][2]string, match func(k, v string) bool, batch bool, B int, expectRejected bool, shape string) {
	mode := "row"
	modeN := 0
	if batch {
		mode, modeN = "batch", 1
	}
	rp := c13Replay{Query: q, Store: kvs, Mode: mode, B: B}

	// the plan tree, from a scratch build
	kvql.PlanBatchSize = B
	kvql.EnableFieldCache = true
	kind := 0
	fpT, plT := "(FProj (PScan SEmpty))", "(PScan SEmpty)"
	n, tableT := 0, "[]"
	path := "-"
	var nodes []string
	var plan kvql.FinalPlan
	var berr error
	func() {
		defer func() {
			if r := recover(); r != nil {
				rp.Panic = fmt.Sprint(r)
			}
		}()
		plan, berr = kvql.NewOptimizer(q).BuildPlan(newStore(kvs))
	}()
	if rp.Panic != "" {
		idx := e.add(fmt.Sprintf("Case 0 %s [] %s %s 0 [] %d %d [] 4 [] %s []", coqPairs(kvs), fpT, plT, B, modeN, coqPairs(kvs)), rp, false)
		e.fail(idx, "BuildPlan panicked: "+rp.Panic, "C13/panic", rp)
		return
	}
	ok := true
	if berr != nil {
		kind = 0
		rp.Kind = "rejected"
		if !expectRejected {
			e.m.OutOfModel++
			e.count("unexpectedly_rejected")
			return
		}
	} else {
		rp.Plan = strings.Join(plan.Explain(), " <- ")
		switch x := plan.(type) {
		case *kvql.PutPlan:
			kind, rp.Kind = 3, "put"
			n = len(x.KVPairs)
			tb, _, _, _, status := c12Table(q, n, func(int) string { return "" })
			if status != "" {
				ok = false
			}
			ents := make([]string, len(tb))
			for i, en := range tb {
				ents[i] = c12CoqEntry(en)
			}
			tableT = coqList(ents)
		case *kvql.RemovePlan:
			kind, rp.Kind = 4, "remove"
			n = len(x.Keys)
			ents := make([]string, n)
			for i, ke := range x.Keys {
				k, kf := c12Eval(ke, "")
				ents[i] = c12CoqEntry(c12Entry{i, "", k, kf, ""})
			}
			tableT = coqList(ents)
		case *kvql.DeletePlan:
			kind, rp.Kind = 2, "delete"
			plT, path, ok = c13PlanTerm(x.ChildPlan)
			if _, isLim := x.ChildPlan.(*kvql.LimitPlan); isLim {
				nodes = append(nodes, "limit")
			}
			nodes = append(nodes, "delete")
		default:
			kind, rp.Kind = 1, "select"
			fpT, path, nodes, ok = c13FinalTerm(plan)
		}
		if expectRejected {
			e.m.OutOfModel++
			e.count("unexpectedly_accepted")
			return
		}
	}
	if !ok {
		e.m.OutOfModel++
		e.count("plan_shape_not_modelled")
		return
	}

	// fault-free run
	st0 := newStore(kvs)
	res0 := runQuery(q, st0, batch, B, true)
	log0 := st0.log
	rp.Log = c12LogText(log0)
	rp.Outcome = errClass(res0.Err)
	rp.Sizes = c13Sizes(res0, batch)
	final0 := st0.pairs()
	rp.Final = final0
	rp.Panic = res0.Panic
	if rp.Outcome == "exec" && kind != 0 && kind != 3 && kind != 4 {
		// the filter / projection failed to evaluate: outside the traffic model
		e.m.OutOfModel++
		e.count("evaluation_error_in_statement")
		return
	}

	// every single fault
	var faults []string
	var bad []c13Fault
	selectWrote := false
	for _, c := range log0 {
		if isWrite(c.Op) && kind == 1 {
			selectWrote = true
		}
	}
	for i := range log0 {
		st := newStore(kvs)
		st.faultAt = i
		// the error VALUE rotates over an ordinary error and the values a dropped connection
		// produces (io.EOF, io.ErrUnexpectedEOF, a wrapped io.EOF, context.Canceled): a failing
		// read is a fault whatever its value
		c13FaultRot++
		st.faultErr = faultValues[c13FaultRot%len(faultValues)]
		res := runQuery(q, st, batch, B, true)
		cls := errClass(res.Err)
		prefix := len(st.log) <= len(log0)
		if prefix {
			for j := range st.log {
				if !c13EqCall(st.log[j], log0[j]) {
					prefix = false
					break
				}
			}
		}
		// the faulted call has no effect and nothing happens after it
		dataOK := c12EqPairs(st.pairs(), c13ApplyWrites(kvs, log0[:i]))
		for _, c := range st.log {
			if isWrite(c.Op) && kind == 1 {
				selectWrote = true
			}
		}
		faults = append(faults, fmt.Sprintf("FObs %d %d %d %s %s", i, c13ClassCode[cls], len(st.log), coqBool(prefix), coqBool(dataOK)))
		if cls != "storage" || len(st.log) != i+1 || !prefix || !dataOK || res.Panic != "" {
			f := c13Fault{Index: i, Call: c12CallText(log0[i]), Class: cls, Calls: len(st.log), Prefix: prefix, DataOK: dataOK, Rows: len(res.Rows)}
			if len(st.log) > i+1 {
				f.CallsAfter = c12LogText(st.log[i+1:])
			}
			if res.Panic != "" {
				f.Class = "panic: " + res.Panic
			}
			bad = append(bad, f)
		}
	}
	rp.Faults = len(log0)
	if len(bad) > 3 {
		bad = bad[:3]
	}
	rp.Bad = bad

	// keys passing the filter
	var matchKeys []string
	if match != nil {
		for _, kv := range kvs {
			if match(kv[0], kv[1]) {
				matchKeys = append(matchKeys, kv[0])
			}
		}
	}

	term := fmt.Sprintf("Case %d %s %s %s %s %d %s %d %d %s %d %s %s %s", kind, coqPairs(kvs), coqStrList(matchKeys),
		fpT, plT, n, tableT, B, modeN, c12CoqLog(log0), c13ClassCode[rp.Outcome], coqNatList(rp.Sizes), coqPairs(final0), coqList(faults))
	idx := e.add(term, rp, len(log0) > 0 || kind == 0)

	e.count("kind=" + rp.Kind)
	e.count("mode=" + mode)
	e.count(fmt.Sprintf("B=%d", B))
	if kind == 1 || kind == 2 {
		e.count("access=" + path)
		for _, nd := range nodes {
			e.count("node=" + nd)
		}
		e.count("shape=" + shape)
	}
	switch {
	case len(log0) == 0:
		e.count("calls=0")
	case len(log0) <= 5:
		e.count("calls=1-5")
	case len(log0) <= 15:
		e.count("calls=6-15")
	default:
		e.count("calls=16+")
	}
	e.m.Dist["faults_injected"] += len(log0)

	// direct verdict on the implementation
	wrote := false
	for _, c := range log0 {
		if isWrite(c.Op) {
			wrote = true
		}
	}
	switch {
	case rp.Panic != "":
		e.fail(idx, "panic: "+rp.Panic, "C13/panic", rp)
	case kind == 1 && (selectWrote || !c12EqPairs(final0, kvs)):
		e.fail(idx, "a SELECT invoked a mutating storage operation", "C13/select-writes", rp)
	case kind == 0 && (wrote || !c12EqPairs(final0, kvs)):
		e.fail(idx, "a rejected statement invoked a mutating storage operation", "C13/rejected-mutates", rp)
	case len(bad) > 0:
		f := bad[0]
		what := fmt.Sprintf("storage error at call %d (%s) was not surfaced: returned %q after %d storage call(s)", f.Index, f.Call, f.Class, f.Calls)
		e.fail(idx, what, "C13/fault-not-surfaced", rp)
	}
}

func runC13(c *runCtx) error {
	r := newRng(c.seed)
	e := newEmitter(c.out, "C13", "From Coq Require Import List String.\nFrom KV Require Import Base.Bytes Model.Storage Model.ScanIO Corr.C13.\nImport ListNotations.\nOpen Scope string_scope.\n", 60)
	e.m.Rule = "a case = (statement, store, row/batch mode, batch size) with its fault-free run and one faulted run per storage call index of that run (exhaustive single-fault injection); non-trivial = the fault-free run issues at least one storage call (or the statement is a rejected one); distinct = distinct Gallina case terms"
	deep := c.thorough() || c.search
	Bs := []int{1, 2, 3, 32}
	limits := [][2]int{{0, 1}, {1, 2}, {2, 1}, {0, 0}, {3, 5}}
	rr := 0
	stores := func(B int) []int {
		if deep {
			out := []int{}
			for n := 0; n <= min(3*B+1, len(c13KeyPool)); n++ {
				out = append(out, n)
			}
			return out
		}
		return []int{0, 1, min(B+1, 6), min(2*B+1, 9), min(3*B+1, len(c13KeyPool))}
	}
	// statements over every access path x every plan shape
	for _, B := range Bs {
		for _, sh := range c13Shapes {
			for fi, f := range c13Filters {
				for _, n := range stores(B) {
					rr++
					if !deep && (rr+fi)%3 == 0 {
						continue // quick tier: two thirds of the grid, rotating
					}
					reps := 1
					if deep {
						reps = 3 // three stores (and limits) per grid point
					}
					for rep := 0; rep < reps; rep++ {
						lim := limits[(rr+rep)%len(limits)]
						q := sh.text(f.text, lim[0], lim[1])
						kvs := c13Store(r, n)
						for _, batch := range []bool{false, true} {
							if sh.del && !batch && !deep && rr%2 == 0 {
								continue // DeletePlan drains its child in batches in both modes
							}
							c13Run(e, q, kvs, f.match, batch, B, false, sh.name)
						}
					}
				}
			}
		}
	}
	// B = 32 with stores larger than a batch (several refills, long call logs)
	{
		B := 32
		bigNs := []int{33, 70}
		bigFilters := []int{0, 2, 6}
		if deep {
			bigNs = []int{31, 32, 33, 64, 65, 97}
			bigFilters = []int{0, 2, 3, 5, 6, 8}
		}
		bigLimits := [][2]int{{31, 3}, {32, 33}, {0, 64}, {33, 1}}
		for _, sh := range c13Shapes {
			for _, fi := range bigFilters {
				f := c13Filters[fi]
				for _, n := range bigNs {
					rr++
					if !deep && rr%3 != 0 {
						continue
					}
					lim := bigLimits[rr%len(bigLimits)]
					kvs := c13BigStore(r, n)
					c13Run(e, sh.text(f.text, lim[0], lim[1]), kvs, f.match, rr%2 == 0, B, false, sh.name)
				}
			}
		}
	}
	// PUT / REMOVE statements
	for _, q := range c13Writes {
		for _, n := range []int{0, 3} {
			kvs := c13Store(r, n)
			for _, batch := range []bool{false, true} {
				c13Run(e, q, kvs, nil, batch, 2, false, "write")
			}
		}
	}
	// rejected statements
	for _, q := range c13Rejected {
		kvs := c13Store(r, 4)
		for _, batch := range []bool{false, true} {
			c13Run(e, q, kvs, nil, batch, 2, true, "rejected")
		}
	}
	// stream "batch-polls": every single Next() / Batch() call of a SELECT (harness/c13batch.go)
	c13BatchStream(c, e, r)
	e.m.Exhaustive = true
	e.m.Notes = append(e.m.Notes, "exhaustive: every storage call index of every fault-free run is failed once")
	return e.flush()
}
