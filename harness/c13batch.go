package main

// C13, stream "batch-polls": the storage calls and the rows of EVERY SINGLE Next() / Batch()
// call of a built SELECT plan on a fault-free storage (Corr/C13Batch.v, twin
// Model/ScanBatches.v select_polls).  The whole-statement log of the main stream cannot see a
// change of the batch boundaries; this one can.
//
// A case is emitted as a kind-5 `Case` term of Corr/C13.v (same positional layout as c13Run):
//   Case 5 store matchkeys fplan (PScan SEmpty) 0 [] B mode wholeLog 0 rowsPerPoll store
//        [FObs 0 0 buildCalls true true; FObs 1 0 callsOfPoll0 true true; ...]
// rowsPerPoll and the FObs list include the LAST poll (the one that answered "no more rows").

import (
	"fmt"
	"strings"

	kvql "github.com/c4pt0r/kvql"
)

type c13Poll struct {
	Calls []string `json:"storage_calls"`
	Rows  int      `json:"rows_returned"`
}

type c13BatchReplay struct {
	Stream     string      `json:"stream"`
	Query      string      `json:"query"`
	Store      [][2]string `json:"store"`
	B          int         `json:"batch_size"`
	Mode       string      `json:"mode"`
	Plan       string      `json:"plan"`
	BuildCalls []string    `json:"storage_calls_of_BuildPlan"`
	Polls      []c13Poll   `json:"polls"`
	Panic      string      `json:"panic,omitempty"`
}

// c13MaxRows: the loose bound of Corr/C13Batch.v max_rows
func c13MaxRows(batch bool, B int) int {
	if !batch {
		return 1
	}
	return 4 * B
}

func c13BatchRun(e *emitter, q string, kvs [][2]string, match func(k, v string) bool, batch bool, B int, shape string) {
	mode, modeN := "row", 0
	if batch {
		mode, modeN = "batch", 1
	}
	rp := c13BatchReplay{Stream: "batch-polls", Query: q, Store: kvs, B: B, Mode: mode}
	kvql.PlanBatchSize = B
	kvql.EnableFieldCache = true

	st := newStore(kvs)
	var (
		plan       kvql.FinalPlan
		berr       error
		runErr     error
		buildCalls int
		pollCalls  []int
		pollRows   []int
		ended      bool
	)
	func() {
		defer func() {
			if r := recover(); r != nil {
				rp.Panic = fmt.Sprint(r)
			}
		}()
		plan, berr = kvql.NewOptimizer(q).BuildPlan(st)
		if berr != nil {
			return
		}
		buildCalls = len(st.log)
		ctx := kvql.NewExecuteCtx()
		for i := 0; i < maxPolls; i++ {
			before := len(st.log)
			n := 0
			if batch {
				rows, err := plan.Batch(ctx)
				if err != nil {
					runErr = err
					return
				}
				n = len(rows)
				if n > 0 {
					ctx.Clear()
				}
			} else {
				row, err := plan.Next(ctx)
				if err != nil {
					runErr = err
					return
				}
				if row != nil {
					n = 1
				}
			}
			pollCalls = append(pollCalls, len(st.log)-before)
			pollRows = append(pollRows, n)
			if n == 0 {
				ended = true
				return
			}
		}
	}()
	fpT, plT := "(FProj (PScan SEmpty))", "(PScan SEmpty)"
	if rp.Panic != "" {
		idx := e.add(fmt.Sprintf("Case 0 %s [] %s %s 0 [] %d %d [] 4 [] %s []", coqPairs(kvs), fpT, plT, B, modeN, coqPairs(kvs)), rp, false)
		e.fail(idx, "panic while polling the plan one call at a time: "+rp.Panic, "C13/panic", rp)
		return
	}
	if berr != nil {
		e.m.OutOfModel++
		e.count("unexpectedly_rejected")
		return
	}
	switch plan.(type) {
	case *kvql.PutPlan, *kvql.RemovePlan, *kvql.DeletePlan:
		e.m.OutOfModel++
		e.count("plan_shape_not_modelled")
		return
	}
	fpT, path, _, ok := c13FinalTerm(plan)
	if !ok {
		e.m.OutOfModel++
		e.count("plan_shape_not_modelled")
		return
	}
	if runErr != nil {
		// the filter / projection failed to evaluate: outside the traffic model
		e.m.OutOfModel++
		e.count("evaluation_error_in_statement")
		return
	}
	rp.Plan = strings.Join(plan.Explain(), " <- ")
	log := st.log
	rp.BuildCalls = c12LogText(log[:buildCalls])
	faults := []string{fmt.Sprintf("FObs 0 0 %d true true", buildCalls)}
	pos := buildCalls
	for i, n := range pollCalls {
		rp.Polls = append(rp.Polls, c13Poll{Calls: c12LogText(log[pos : pos+n]), Rows: pollRows[i]})
		faults = append(faults, fmt.Sprintf("FObs %d 0 %d true true", i+1, n))
		pos += n
	}

	var matchKeys []string
	if match != nil {
		for _, kv := range kvs {
			if match(kv[0], kv[1]) {
				matchKeys = append(matchKeys, kv[0])
			}
		}
	}
	final := st.pairs()
	term := fmt.Sprintf("Case %d %s %s %s %s %d %s %d %d %s %d %s %s %s", 5, coqPairs(kvs), coqStrList(matchKeys),
		fpT, plT, 0, "[]", B, modeN, c12CoqLog(log), 0, coqNatList(pollRows), coqPairs(kvs), coqList(faults))
	idx := e.add(term, rp, len(log) > 0)

	e.count("stream=batch-polls")
	e.count("stream=batch-polls/mode=" + mode)
	e.count(fmt.Sprintf("stream=batch-polls/B=%d", B))
	e.count("stream=batch-polls/shape=" + shape)
	e.count("stream=batch-polls/access=" + path)
	np := len(pollRows)
	switch {
	case np <= 1:
		e.count("stream=batch-polls/polls=1")
	case np == 2:
		e.count("stream=batch-polls/polls=2")
	case np <= 4:
		e.count("stream=batch-polls/polls=3-4")
	case np <= 8:
		e.count("stream=batch-polls/polls=5-8")
	default:
		e.count("stream=batch-polls/polls=9+")
	}
	short, shortThenRows, long, silentEnd := false, false, false, false
	for i := 0; i+1 < np; i++ {
		if batch && pollRows[i] < B {
			short = true
			if i+2 < np {
				shortThenRows = true
			}
		}
		if batch && pollRows[i] > B {
			long = true
		}
	}
	if np > 0 && pollCalls[np-1] == 0 {
		silentEnd = true
	}
	if short {
		e.count("stream=batch-polls/short_nonfinal_batch")
	}
	if shortThenRows {
		e.count("stream=batch-polls/short_batch_followed_by_rows")
	}
	if long {
		e.count("stream=batch-polls/batch_longer_than_B")
	}
	if silentEnd {
		e.count("stream=batch-polls/last_poll_without_storage_call")
	}

	// direct verdict on the implementation (the codes of Corr/C13Batch.v spec_code)
	wrote := false
	for _, c := range log {
		if isWrite(c.Op) {
			wrote = true
		}
	}
	bad := ""
	for i := 0; i+1 < np; i++ {
		if pollRows[i] == 0 || pollRows[i] > c13MaxRows(batch, B) {
			bad = fmt.Sprintf("poll %d returned %d row(s) but was not the last one (batch size %d, %s mode)", i, pollRows[i], B, mode)
			break
		}
	}
	switch {
	case wrote || !c12EqPairs(final, kvs):
		e.fail(idx, "a SELECT polled one call at a time invoked a mutating storage operation", "C13/select-writes", rp)
	case pos != len(log):
		e.fail(idx, "batch-polls: the per-poll call counts do not add up to the call log", "C13/batch-polls", rp)
	case bad != "":
		e.fail(idx, "batch-polls: "+bad, "C13/batch-polls", rp)
	case !ended || np == 0 || pollRows[np-1] != 0:
		e.fail(idx, "batch-polls: the poll loop did not end on the empty answer", "C13/batch-polls", rp)
	}
}

// c13BatchStream: SELECT texts (every filter of c13Filters x every select shape of c13Shapes)
// x batch sizes x store sizes around the multiples of the batch size x both modes.
func c13BatchStream(c *runCtx, e *emitter, r *rng) {
	deep := c.thorough() || c.search
	limits := [][2]int{{0, 1}, {1, 2}, {2, 1}, {0, 0}, {3, 5}, {0, 4}, {1, 3}, {0, 7}, {2, 6}}
	bigLimits := [][2]int{{31, 3}, {32, 33}, {0, 64}, {33, 1}, {0, 32}, {1, 32}}
	rr, k := 0, 0
	for _, B := range []int{1, 2, 3, 32} {
		// store sizes: exact multiples of B and one more, and larger ones (the number of MATCHING
		// pairs then falls on and around the multiples of B too); negative = c13BigStore of that size
		var sizes []int
		if B == 32 {
			sizes = []int{14, -32, -33, -64, -65, -40, -97}
		} else {
			sizes = []int{B, 14, B + 1, 10, 2 * B, 12, 2*B + 1, 7, 3 * B, 14, 3*B + 1, 9, 4 * B}
		}
		for _, sh := range c13Shapes {
			if sh.del {
				continue
			}
			k += 2 // the rotation over the store sizes shifts from shape to shape
			for _, f := range c13Filters {
				rr++
				k++
				pickN := 1
				if deep {
					pickN = 3
				}
				for rep := 0; rep < pickN; rep++ {
					n := sizes[(k+3*rep)%len(sizes)]
					var kvs [][2]string
					lim := limits[(rr+rep)%len(limits)]
					if n < 0 {
						kvs = c13BigStore(r, -n)
						if (rr+rep)%2 == 0 {
							lim = bigLimits[(rr+rep)%len(bigLimits)]
						}
					} else {
						kvs = c13Store(r, n)
					}
					q := sh.text(f.text, lim[0], lim[1])
					switch {
					case deep:
						c13BatchRun(e, q, kvs, f.match, true, B, sh.name)
						c13BatchRun(e, q, kvs, f.match, false, B, sh.name)
					case rr%4 == 0:
						// quick tier: row mode on a quarter of the grid (every poll is one Next())
						c13BatchRun(e, q, kvs, f.match, false, B, sh.name)
					default:
						c13BatchRun(e, q, kvs, f.match, true, B, sh.name)
					}
				}
			}
		}
	}
	// long poll sequences: small batch sizes over stores of a few dozen pairs (many refills, the
	// filter rejecting part of every chunk, limits cutting in the middle of a batch)
	longLimits := [][2]int{{0, 64}, {5, 7}, {4, 9}, {0, 10}, {7, 3}}
	for _, B := range []int{2, 3, 5} {
		for si, sh := range c13Shapes[:2] { // select*, select-limit
			for _, fi := range []int{0, 1, 2, 3, 6, 7, 8} {
				f := c13Filters[fi]
				rr++
				ns := []int{20 + rr%17}
				if deep {
					ns = []int{4 * B, 6*B + 1, 20 + rr%17, 47}
				}
				for _, n := range ns {
					lim := longLimits[(rr+si+n)%len(longLimits)]
					kvs := c13BigStore(r, n)
					c13BatchRun(e, sh.text(f.text, lim[0], lim[1]), kvs, f.match, true, B, sh.name)
				}
			}
		}
	}
}
