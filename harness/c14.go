package main

// C14: statically wrong statements are rejected before any storage access; statements the
// typing rules allow are accepted and never raise an operand-type error at execution.
//
// The harness owns a typed AST generator: it builds the statement tree itself, renders the
// query text (recording the byte offset of every token, which is the position the parser
// gives the node) and prints the UNCHECKED tree as a Model/Checker.v [stmt] term.  The
// implementation is observed through Optimizer.BuildPlan on a logging store (accept / error
// class and position / number of storage calls), Parser.Parse (the tree the checker leaves
// behind, printed with coqExpr) and execution of accepted statements on generated stores.
// The Coq side runs the checker twin on the same tree, compares, and judges the observed
// behaviour against Spec/Typing.v.
//
//   grid     exhaustive: every binary operator x operand atom pair, `!` x atom, IN lists,
//            BETWEEN bounds, function arguments / counts, field access shapes, statement forms
//   typed    seeded random well-typed statements from the typed grammar
//   mutant   every single-fault mutant of them: the fault placed at every node of the tree
//            (under !, inside function arguments, IN lists, BETWEEN bounds, select fields)
//   fieldref select fields that refer to other select fields, defined BEFORE or AFTER their use
//            (chains of depth 1..3 of every operand type, the field list in definition order,
//            reversed and mixed), used well typed and ill typed (text + number, number as text
//            operand, Boolean used arithmetically, non-Boolean under ! / & / WHERE) from another
//            field, from WHERE and from ORDER BY
//   not-judged  shapes outside the property's verdict (function parameter types; element access /
//            membership on list values, dynamically typed like JSON) and the one known finding
//            (= / != with a float operand): twin comparison only

import (
	"errors"
	"fmt"
	"strings"

	kvql "github.com/c4pt0r/kvql"
)

func init() { registry["C14"] = runC14 }

// ------------------------------------------------------------------ own AST

type xkind int

const (
	xBin xkind = iota
	xField
	xStr
	xNot
	xCall
	xName
	xNum
	xFloat
	xBool
	xList
	xAccess
)

type xnode struct {
	k    xkind
	op   string // xBin
	s    string // text of xStr / xName / xNum / xFloat, function name of xCall, key|value of xField
	b    bool
	kids []*xnode
	par  bool // rendered inside parentheses
	pos  int
	npos int // xCall: position of the name node (same token)
	// xCall: the function name as WRITTEN when it differs from s in letter case (then in back
	// quotes); s stays the lower-case name every classification of the harness looks at
	spell string
}

func xb(op string, l, r *xnode) *xnode { return &xnode{k: xBin, op: op, kids: []*xnode{l, r}} }
func xkey() *xnode                     { return &xnode{k: xField, s: "key"} }
func xval() *xnode                     { return &xnode{k: xField, s: "value"} }
func xs(s string) *xnode               { return &xnode{k: xStr, s: s} }
func xn(s string) *xnode               { return &xnode{k: xNum, s: s} }
func xf(s string) *xnode               { return &xnode{k: xFloat, s: s} }
func xbool(b bool) *xnode              { return &xnode{k: xBool, b: b} }
func xnot(r *xnode) *xnode             { return &xnode{k: xNot, kids: []*xnode{r}} }
func xname(s string) *xnode            { return &xnode{k: xName, s: s} }
func xcall(f string, args ...*xnode) *xnode {
	return &xnode{k: xCall, s: f, kids: args}
}
func xlist(items ...*xnode) *xnode { return &xnode{k: xList, kids: items} }
func xacc(l, f *xnode) *xnode      { return &xnode{k: xAccess, kids: []*xnode{l, f}} }
func xin(l *xnode, items ...*xnode) *xnode {
	return xb("in", l, xlist(items...))
}
func xbetween(l, lo, hi *xnode) *xnode { return xb("between", l, xlist(lo, hi)) }

func (n *xnode) clone() *xnode {
	c := *n
	c.kids = make([]*xnode, len(n.kids))
	for i, k := range n.kids {
		c.kids[i] = k.clone()
	}
	return &c
}

// all nodes in pre-order, each with a setter that replaces it in its parent
type xslot struct {
	n      *xnode
	set    func(*xnode)
	parent *xnode
	idx    int
}

func (n *xnode) slots(out *[]xslot, parent *xnode, idx int, set func(*xnode)) {
	*out = append(*out, xslot{n, set, parent, idx})
	for i := range n.kids {
		i := i
		n.kids[i].slots(out, n, i, func(r *xnode) { n.kids[i] = r })
	}
}

// needsParen: the node, standing as an operand, must be parenthesised to parse back as built
func (n *xnode) compound() bool { return n.k == xBin || n.k == xNot }

type xwriter struct {
	buf  strings.Builder
	toks []int // byte offset of every token
}

func (w *xwriter) tok(t string) int {
	if w.buf.Len() > 0 {
		w.buf.WriteByte(' ')
	}
	p := w.buf.Len()
	w.buf.WriteString(t)
	w.toks = append(w.toks, p)
	return p
}

func (n *xnode) render(w *xwriter, operand bool) {
	if operand && n.compound() {
		w.tok("(")
		n.render(w, false)
		w.tok(")")
		return
	}
	switch n.k {
	case xBin:
		n.kids[0].render(w, true)
		n.pos = w.tok(n.op)
		r := n.kids[1]
		switch {
		case n.op == "in" && r.k == xList:
			r.pos = n.pos
			w.tok("(")
			for i, it := range r.kids {
				if i > 0 {
					w.tok(",")
				}
				it.render(w, false)
			}
			w.tok(")")
		case n.op == "between" && r.k == xList && len(r.kids) == 2:
			r.pos = n.pos
			r.kids[0].render(w, true)
			w.tok("and")
			r.kids[1].render(w, true)
		default:
			r.render(w, true)
		}
	case xField:
		n.pos = w.tok(n.s)
	case xStr:
		n.pos = w.tok("'" + n.s + "'")
	case xNot:
		n.pos = w.tok("!")
		n.kids[0].render(w, true)
	case xCall:
		nm := n.s
		if n.spell != "" && strings.ToLower(n.spell) == n.s {
			nm = "`" + n.spell + "`" // a function name keeps its spelling only inside back quotes
		}
		n.pos = w.tok(nm)
		n.npos = n.pos
		w.tok("(")
		for i, a := range n.kids {
			if i > 0 {
				w.tok(",")
			}
			a.render(w, false)
		}
		w.tok(")")
	case xName, xNum, xFloat:
		n.pos = w.tok(n.s)
	case xBool:
		if n.b {
			n.pos = w.tok("true")
		} else {
			n.pos = w.tok("false")
		}
	case xList:
		// a list outside IN / BETWEEN cannot be written
		n.pos = w.tok("(")
		for i, it := range n.kids {
			if i > 0 {
				w.tok(",")
			}
			it.render(w, false)
		}
		w.tok(")")
	case xAccess:
		n.kids[0].render(w, true)
		n.pos = w.tok("[")
		n.kids[1].render(w, false)
		w.tok("]")
	}
}

var xopCtor = map[string]string{
	"&": "OAnd", "|": "OOr", "=": "OEq", "!=": "ONotEq", "^=": "OPrefixMatch", "~=": "ORegExpMatch",
	"+": "OAdd", "-": "OSub", "*": "OMul", "/": "ODiv", ">": "OGt", ">=": "OGte", "<": "OLt", "<=": "OLte",
	"in": "OIn", "between": "OBetween", "and": "OKWAnd", "or": "OKWOr",
}

func (n *xnode) coq() string {
	kids := func() string {
		p := make([]string, len(n.kids))
		for i, k := range n.kids {
			p[i] = k.coq()
		}
		return coqList(p)
	}
	switch n.k {
	case xBin:
		return fmt.Sprintf("(EBin %d %s %s %s)", n.pos, xopCtor[n.op], n.kids[0].coq(), n.kids[1].coq())
	case xField:
		if n.s == "key" {
			return fmt.Sprintf("(EField %d KeyKW)", n.pos)
		}
		return fmt.Sprintf("(EField %d ValueKW)", n.pos)
	case xStr:
		return fmt.Sprintf("(EStr %d %s)", n.pos, coqStr(n.s))
	case xNot:
		return fmt.Sprintf("(ENot %d %s)", n.pos, n.kids[0].coq())
	case xCall:
		nm := n.s
		if n.spell != "" && strings.ToLower(n.spell) == n.s {
			nm = n.spell
		}
		return fmt.Sprintf("(ECall %d (EName %d %s) %s)", n.pos, n.npos, coqStr(nm), kids())
	case xName:
		return fmt.Sprintf("(EName %d %s)", n.pos, coqStr(n.s))
	case xNum:
		return fmt.Sprintf("(ENum %d %s)", n.pos, coqStr(n.s))
	case xFloat:
		return fmt.Sprintf("(EFloat %d %s)", n.pos, coqStr(n.s))
	case xBool:
		return fmt.Sprintf("(EBool %d %s)", n.pos, coqBool(n.b))
	case xList:
		return fmt.Sprintf("(EList %d %s)", n.pos, kids())
	case xAccess:
		return fmt.Sprintf("(EAccess %d %s %s)", n.pos, n.kids[0].coq(), n.kids[1].coq())
	}
	return "(EBool 0 false)"
}

// positions at which a well-typed statement may fail because of the data (not the types):
// the divisor of `/` and a BETWEEN whose lower bound is not below the upper one
func (n *xnode) valueSites(out map[int]bool) {
	if n.k == xBin && n.op == "/" {
		// the constant folder may replace the divisor by a literal placed at its first token
		var all func(d *xnode)
		all = func(d *xnode) {
			out[d.pos] = true
			for _, k := range d.kids {
				all(k)
			}
		}
		all(n.kids[1])
	}
	if n.k == xBin && n.op == "between" {
		out[n.pos] = true
	}
	if n.k == xCall && (n.s == "cosine_distance" || n.s == "l2_distance") {
		// the distance functions fail with plain errors on data: an element of a list of strings that
		// does not parse, lists of different length (key -3: plain errors are data-dependent here)
		out[-3] = true
	}
	for _, k := range n.kids {
		k.valueSites(out)
	}
}

// ------------------------------------------------------------------ statements

type xfield struct {
	e     *xnode
	alias string
}

type xorder struct {
	name string // alias, key or value
	desc bool
	pos  int
}

type xstmt struct {
	form   string // select | put | remove | delete
	star   bool
	fields []xfield
	where  *xnode
	order  []xorder
	pairs  [][2]*xnode
	keys   []*xnode
}

func (s *xstmt) clone() *xstmt {
	c := &xstmt{form: s.form, star: s.star}
	for _, f := range s.fields {
		c.fields = append(c.fields, xfield{f.e.clone(), f.alias})
	}
	if s.where != nil {
		c.where = s.where.clone()
	}
	c.order = append(c.order, s.order...)
	for _, p := range s.pairs {
		c.pairs = append(c.pairs, [2]*xnode{p[0].clone(), p[1].clone()})
	}
	for _, k := range s.keys {
		c.keys = append(c.keys, k.clone())
	}
	return c
}

// roots of the expression trees, with setters
func (s *xstmt) roots() []xslot {
	var out []xslot
	switch s.form {
	case "select":
		for i := range s.fields {
			i := i
			out = append(out, xslot{n: s.fields[i].e, set: func(r *xnode) { s.fields[i].e = r }, idx: i})
		}
		out = append(out, xslot{n: s.where, set: func(r *xnode) { s.where = r }, idx: -1})
	case "delete":
		out = append(out, xslot{n: s.where, set: func(r *xnode) { s.where = r }, idx: -1})
	case "put":
		for i := range s.pairs {
			i := i
			out = append(out, xslot{n: s.pairs[i][0], set: func(r *xnode) { s.pairs[i][0] = r }, idx: 2 * i})
			out = append(out, xslot{n: s.pairs[i][1], set: func(r *xnode) { s.pairs[i][1] = r }, idx: 2*i + 1})
		}
	case "remove":
		for i := range s.keys {
			i := i
			out = append(out, xslot{n: s.keys[i], set: func(r *xnode) { s.keys[i] = r }, idx: i})
		}
	}
	return out
}

func (s *xstmt) allSlots() []xslot {
	var out []xslot
	for _, r := range s.roots() {
		r.n.slots(&out, nil, r.idx, r.set)
	}
	return out
}

func (s *xstmt) render() (string, []int) {
	w := &xwriter{}
	switch s.form {
	case "select":
		w.tok("select")
		if s.star {
			w.tok("*")
		}
		for i, f := range s.fields {
			if i > 0 {
				w.tok(",")
			}
			f.e.render(w, false)
			if f.alias != "" {
				w.tok("as")
				w.tok(f.alias)
			}
		}
		w.tok("where")
		s.where.render(w, false)
		if len(s.order) > 0 {
			w.tok("order")
			w.tok("by")
			for i := range s.order {
				if i > 0 {
					w.tok(",")
				}
				s.order[i].pos = w.tok(s.order[i].name)
				if s.order[i].desc {
					w.tok("desc")
				}
			}
		}
	case "delete":
		w.tok("delete")
		w.tok("where")
		s.where.render(w, false)
	case "put":
		w.tok("put")
		for i, p := range s.pairs {
			if i > 0 {
				w.tok(",")
			}
			w.tok("(")
			p[0].render(w, false)
			w.tok(",")
			p[1].render(w, false)
			w.tok(")")
		}
	case "remove":
		w.tok("remove")
		for i, k := range s.keys {
			if i > 0 {
				w.tok(",")
			}
			k.render(w, false)
		}
	}
	return w.buf.String(), w.toks
}

// FieldNames entry of a field as far as a name can refer to it: the alias, the text of a
// bare name, KEY / VALUE; other printed forms can never equal a name token
func fieldName(f xfield) string {
	if f.alias != "" {
		return f.alias
	}
	switch f.e.k {
	case xName:
		return f.e.s
	case xField:
		return strings.ToUpper(f.e.s)
	}
	return ""
}

func (s *xstmt) coq() string {
	switch s.form {
	case "select":
		fs := []string{}
		for _, f := range s.fields {
			fs = append(fs, fmt.Sprintf("(%s, %s)", coqStr(fieldName(f)), f.e.coq()))
		}
		if s.star {
			fs = []string{`("KEY", EField 0 KeyKW)`, `("VALUE", EField 0 ValueKW)`}
		}
		os := []string{}
		for _, o := range s.order {
			nm := o.name
			if nm == "key" || nm == "value" {
				nm = strings.ToUpper(nm)
			}
			os = append(os, fmt.Sprintf("(%d, %s)", o.pos, coqStr(nm)))
		}
		return fmt.Sprintf("(SSelect %s %s %s)", coqList(fs), s.where.coq(), coqList(os))
	case "delete":
		return fmt.Sprintf("(SDelete %s)", s.where.coq())
	case "put":
		ps := []string{}
		for _, p := range s.pairs {
			ps = append(ps, fmt.Sprintf("(%s, %s)", p[0].coq(), p[1].coq()))
		}
		return fmt.Sprintf("(SPut %s)", coqList(ps))
	case "remove":
		ks := []string{}
		for _, k := range s.keys {
			ks = append(ks, k.coq())
		}
		return fmt.Sprintf("(SRemove %s)", coqList(ks))
	}
	return "(SRemove [])"
}

// the statement Parser.Parse returns, as a Model/Checker.v term (names / order are not compared)
func coqObservedStmt(st kvql.Statement) (string, bool) {
	exprs := func(es []kvql.Expression) (string, bool) {
		p := make([]string, len(es))
		ok := true
		for i, e := range es {
			var o bool
			p[i], o = coqExpr(e)
			ok = ok && o
		}
		return coqList(p), ok
	}
	switch s := st.(type) {
	case *kvql.SelectStmt:
		fs := make([]string, len(s.Fields))
		ok := true
		for i, f := range s.Fields {
			t, o := coqExpr(f)
			ok = ok && o
			fs[i] = fmt.Sprintf(`("", %s)`, t)
		}
		w, o := coqExpr(s.Where.Expr)
		return fmt.Sprintf("(SSelect %s %s [])", coqList(fs), w), ok && o
	case *kvql.DeleteStmt:
		w, o := coqExpr(s.Where.Expr)
		return fmt.Sprintf("(SDelete %s)", w), o
	case *kvql.PutStmt:
		ps := make([]string, len(s.KVPairs))
		ok := true
		for i, kv := range s.KVPairs {
			k, o1 := coqExpr(kv.Key)
			v, o2 := coqExpr(kv.Value)
			ok = ok && o1 && o2
			ps[i] = fmt.Sprintf("(%s, %s)", k, v)
		}
		return fmt.Sprintf("(SPut %s)", coqList(ps)), ok
	case *kvql.RemoveStmt:
		ks, ok := exprs(s.Keys)
		return fmt.Sprintf("(SRemove %s)", ks), ok
	}
	return "", false
}

// ------------------------------------------------------------------ observation

type c14Replay struct {
	Stream   string   `json:"stream"`
	Query    string   `json:"query"`
	Fault    string   `json:"fault,omitempty"`
	Base     string   `json:"mutant_of,omitempty"`
	Class    string   `json:"build_outcome"`
	Pos      int      `json:"error_position,omitempty"`
	Error    string   `json:"build_error,omitempty"`
	Calls    int      `json:"storage_calls_during_build"`
	CallLog  []string `json:"storage_call_log,omitempty"`
	TypeErr  string   `json:"operand_type_error_at_execution,omitempty"`
	ValueErr string   `json:"data_dependent_error_at_execution,omitempty"`
	Panic    string   `json:"panic,omitempty"`
	T1Eval   string   `json:"t1_eval,omitempty"`
}

var c14Stores = [][][2]string{
	{{"a", "12"}, {"ab", "-3"}, {"b", "2.5"}, {"ka", "abc"}, {"kb", ""}, {"kc", "a,b,c"}, {"", "7"}, {"x,y", "007"}, {"12", "x"}, {"zz", "0"}},
	{},
	{{"k", "1"}},
}

type c14Obs struct {
	cls      int
	pos      int
	calls    int
	errText  string
	callLog  []string
	tree     string // Coq term of the parsed statement ("" if none)
	typeErr  string
	valueErr string
	panicked string
}

func errCls(err error) (int, int) {
	var se *kvql.SyntaxError
	var ee *kvql.ExecuteError
	switch {
	case err == nil:
		return 0, 0
	case errors.As(err, &ee):
		return 1, ee.Pos
	case errors.As(err, &se):
		return 2, se.Pos
	}
	return 3, 0
}

func c14Build(q string, st *refStore) (plan kvql.FinalPlan, err error, pn string) {
	defer func() {
		if r := recover(); r != nil {
			pn = fmt.Sprint(r)
		}
	}()
	kvql.PlanBatchSize = 2
	kvql.EnableFieldCache = true
	plan, err = kvql.NewOptimizer(q).BuildPlan(st)
	return
}

func c14Observe(q string, sites map[int]bool, execute bool) c14Obs {
	var o c14Obs
	st := newStore(c14Stores[0])
	_, err, pn := c14Build(q, st)
	o.panicked = pn
	o.cls, o.pos = errCls(err)
	if err != nil {
		o.errText = err.Error()
	}
	o.calls = len(st.log)
	for _, c := range st.log {
		o.callLog = append(o.callLog, c.Op+" "+c.Key)
	}
	if pn != "" || err != nil {
		return o
	}
	// the tree the checker leaves behind
	func() {
		defer func() {
			if r := recover(); r != nil {
				o.panicked = fmt.Sprint(r)
			}
		}()
		stmt, perr := kvql.NewParser(q).Parse()
		if perr == nil {
			if t, ok := coqObservedStmt(stmt); ok {
				o.tree = t
			}
		}
	}()
	if !execute {
		return o
	}
	for _, kvs := range c14Stores {
		for _, batch := range []bool{false, true} {
			res := runQuery(q, newStore(kvs), batch, 2, true)
			if res.Panic != "" {
				o.panicked = res.Panic
				continue
			}
			if res.Err == nil {
				continue
			}
			cls, pos := errCls(res.Err)
			if (cls == 1 && sites[pos]) || (cls == 3 && sites[-3]) {
				o.valueErr = res.Err.Error()
				continue
			}
			if o.typeErr == "" {
				o.typeErr = res.Err.Error()
			}
		}
	}
	return o
}

// dynamically typed field access (JSON values, cascaded access): excepted by the property
func (n *xnode) dynamicAccess() bool {
	if n.k == xAccess {
		l := n.kids[0]
		if l.k == xAccess || staticKind(l) == "json" {
			return true
		}
	}
	if n.k == xCall && n.s == "json" {
		return true
	}
	for _, k := range n.kids {
		if k.dynamicAccess() {
			return true
		}
	}
	return false
}

func (s *xstmt) dynamic() bool {
	for _, r := range s.roots() {
		if r.n.dynamicAccess() {
			return true
		}
	}
	return false
}

func (s *xstmt) sites() map[int]bool {
	m := map[int]bool{}
	for _, r := range s.roots() {
		r.n.valueSites(m)
	}
	return m
}

// c14Case renders, observes and emits one statement.  mode: 0 full verdict, 1 known-finding
// shape (twin comparison only), 2 judged here only.
// c14MixCase: every seventh statement writes its scalar function names with a capital letter in
// back quotes (`Upper`(key)): function names are case-insensitive for the static checks AND for
// the executor
var c14MixCount int

func c14MixCase(s *xstmt) {
	c14MixCount++
	if c14MixCount%7 != 0 {
		return
	}
	for _, sl := range s.allSlots() {
		n := sl.n
		if n != nil && n.k == xCall && len(n.s) > 1 && n.s == strings.ToLower(n.s) {
			if _, isAggr := kvql.GetAggrFunctionByName(n.s); !isAggr {
				n.spell = strings.ToUpper(n.s[:1]) + n.s[1:]
			}
		}
	}
}

func c14Case(e *emitter, s *xstmt, stream, fault, base string, mode int) (int, c14Obs, c14Replay) {
	c14MixCase(s)
	q, toks := s.render()
	// sanity: the token offsets recorded while rendering are the lexer's
	lx := kvql.NewLexer(q).Split()
	if len(lx) != len(toks) {
		e.m.OutOfModel++
		e.count("out_of_model=token_count")
		return -1, c14Obs{}, c14Replay{}
	}
	for i, t := range lx {
		if t.Pos != toks[i] {
			e.m.OutOfModel++
			e.count("out_of_model=token_offset")
			return -1, c14Obs{}, c14Replay{}
		}
	}
	o := c14Observe(q, s.sites(), true)
	if o.typeErr != "" && s.dynamic() {
		// JSON values and cascaded field access are dynamically typed: excepted by the property
		e.count("dynamic_access_exempt")
		o.valueErr, o.typeErr = o.typeErr, ""
	}
	rp := c14Replay{Stream: stream, Query: q, Fault: fault, Base: base, Pos: o.pos, Error: o.errText,
		Calls: o.calls, TypeErr: o.typeErr, ValueErr: o.valueErr, Panic: o.panicked}
	rp.Class = []string{"accepted", "ExecuteError", "SyntaxError", "other error"}[o.cls]
	if o.cls != 0 {
		rp.CallLog = o.callLog
	}
	tree := "None"
	if o.tree != "" {
		tree = "(Some " + o.tree + ")"
	}
	// T1: outcome classes of Execute / ExecuteBatch on the checked trees, per stored pair / chunk
	evStore, evTrees := "[]", "[]"
	var evInfo t1EvalInfo
	if o.cls == 0 && mode != 2 && t1EvalStreams[stream] && (s.form == "select" || s.form == "delete") {
		evStore, evTrees, evInfo = t1EvalTerms(q, t1StoreFor(s))
		evTrees = c14FoldEvalTerms(q, t1StoreFor(s), evTrees, &evInfo) // the folded trees (c14fold.go)
		rp.T1Eval = evInfo.summary
	}
	term := fmt.Sprintf("Case %s %d %d (%d) %d %s %s %s %s", s.coq(), mode, o.cls, o.pos, o.calls, tree, coqBool(o.typeErr != ""), evStore, evTrees)
	idx := e.add(term, rp, true)
	if evInfo.trees > 0 {
		e.count("t1_eval_statements")
		for k, v := range evInfo.dist {
			e.m.Dist[k] += v
		}
		if evInfo.panic != "" {
			e.fail(idx, "evaluating a tree of an accepted statement panicked: "+evInfo.panic, "C14/t1-evaluation-panic", rp)
		}
	}
	e.count("stream=" + stream)
	e.count("form=" + s.form)
	if o.cls == 0 {
		e.count("outcome=accepted")
		if o.typeErr != "" {
			e.count("accepted_then_operand_type_error")
		} else if o.valueErr != "" {
			e.count("accepted_then_data_dependent_error")
		}
	} else {
		e.count("outcome=rejected")
		e.count(fmt.Sprintf("rejected_with_storage_calls=%v", o.calls > 0))
	}
	if fault != "" {
		e.count("fault=" + strings.SplitN(fault, ":", 2)[0])
	}
	if o.panicked != "" {
		e.count("panic")
	}
	// direct verdicts that need no typing oracle
	if o.cls != 0 && o.calls > 0 {
		e.fail(idx, "a rejected statement caused storage calls before the rejection", "C14/storage-access-before-rejection", rp)
	}
	return idx, o, rp
}

// ------------------------------------------------------------------ typed grammar

type xty int

const (
	tStr xty = iota
	tInt
	tFlt
	tBool
	tSList // list of strings (split)
	tNList // list of numbers
)

type xalias struct {
	name string
	t    xty
}

type c14gen struct {
	r       *rng
	key     bool // `key` allowed
	value   bool // `value` allowed
	aliases []xalias
}

var c14Strs = []string{"a", "ab", "b", "ka", "12", "x,y", "", ","}
var c14Ints = []string{"0", "1", "2", "3", "7", "10"}
var c14Flts = []string{"0.5", "1.5", "2.25", "2.0"}

func (g *c14gen) aliasOf(t xty) *xnode {
	var c []string
	for _, a := range g.aliases {
		if a.t == t {
			c = append(c, a.name)
		}
	}
	if len(c) == 0 {
		return nil
	}
	return xname(pick(g.r, c))
}

func (g *c14gen) strLeaf() *xnode {
	r := g.r
	if a := g.aliasOf(tStr); a != nil && r.chance(1, 4) {
		return a
	}
	if g.key && r.chance(1, 3) {
		return xkey()
	}
	if g.value && r.chance(1, 3) {
		return xval()
	}
	return xs(pick(r, c14Strs))
}

func (g *c14gen) gen(t xty, d int) *xnode {
	r := g.r
	if a := g.aliasOf(t); a != nil && r.chance(1, 5) {
		return a
	}
	sub := func(tt xty) *xnode { return g.gen(tt, d-1) }
	switch t {
	case tStr:
		if d <= 0 {
			return g.strLeaf()
		}
		switch r.intn(9) {
		case 0:
			return xb("+", sub(tStr), sub(tStr))
		case 1:
			return xcall(pick(r, []string{"upper", "lower"}), sub(tStr))
		case 2:
			return xcall("str", sub(pick(r, []xty{tInt, tFlt, tStr, tBool})))
		case 3:
			return xcall("substr", sub(tStr), xn(pick(r, []string{"0", "1", "2"})), sub(tInt))
		case 4:
			return xacc(sub(tSList), xn(pick(r, []string{"0", "1", "2"})))
		case 5:
			return xcall("join", xs(pick(r, []string{",", "-"})), sub(tStr), sub(pick(r, []xty{tStr, tInt})))
		case 6:
			return xcall("upper", sub(pick(r, []xty{tInt, tBool})))
		default:
			return g.strLeaf()
		}
	case tInt:
		if d <= 0 {
			return xn(pick(r, c14Ints))
		}
		switch r.intn(8) {
		case 0:
			return xb(pick(r, []string{"+", "-", "*"}), sub(tInt), sub(tInt))
		case 1:
			return xb("/", sub(tInt), xn(pick(r, []string{"1", "2", "3"})))
		case 2:
			return xcall("int", sub(pick(r, []xty{tStr, tStr, tInt, tFlt})))
		case 3:
			return xcall("strlen", sub(tStr))
		case 4:
			return xcall("len", sub(pick(r, []xty{tSList, tNList, tStr})))
		case 5:
			return xb("/", sub(tInt), sub(tInt))
		default:
			return xn(pick(r, c14Ints))
		}
	case tFlt:
		if d <= 0 {
			return xf(pick(r, c14Flts))
		}
		switch r.intn(6) {
		case 0:
			return xb(pick(r, []string{"+", "-", "*"}), sub(tFlt), sub(pick(r, []xty{tFlt, tInt})))
		case 1:
			return xb("/", sub(pick(r, []xty{tFlt, tInt})), xf(pick(r, []string{"0.5", "2.0"})))
		case 2:
			return xcall("float", sub(pick(r, []xty{tStr, tInt, tFlt})))
		case 3:
			return xb("*", sub(tInt), sub(tFlt))
		default:
			return xf(pick(r, c14Flts))
		}
	case tBool:
		if d <= 0 {
			switch r.intn(4) {
			case 0:
				return xbool(r.chance(1, 2))
			case 1:
				return xcall(pick(r, []string{"is_int", "is_float"}), g.strLeaf())
			default:
				return xb(pick(r, []string{"=", "!=", "^=", "<", ">="}), g.strLeaf(), xs(pick(r, c14Strs)))
			}
		}
		num := pick(r, []xty{tInt, tInt, tFlt})
		switch r.intn(15) {
		case 0:
			l := sub(tStr)
			return xb(pick(r, []string{"=", "!=", ">", ">=", "<", "<=", "^="}), l, g.notSameField(l, sub(tStr)))
		case 1:
			return xb(pick(r, []string{">", ">=", "<", "<="}), sub(num), sub(pick(r, []xty{tInt, tFlt})))
		case 2:
			return xb(pick(r, []string{"=", "!="}), sub(num), sub(pick(r, []xty{tInt, tFlt})))
		case 3:
			return xb(pick(r, []string{"&", "|", "and", "or"}), sub(tBool), sub(tBool))
		case 4:
			return xnot(sub(tBool))
		case 5:
			return xin(sub(tStr), sub(tStr), xs(pick(r, c14Strs)))
		case 6:
			return xin(sub(num), xn(pick(r, c14Ints)), sub(tInt), sub(num))
		case 7:
			return xbetween(sub(tStr), xs("a"), xs("kb"))
		case 8:
			return xbetween(sub(num), xn("1"), xn("10"))
		case 9:
			return xbetween(sub(num), sub(tInt), sub(num))
		case 10:
			return xb("in", sub(tStr), sub(tSList))
		case 11:
			return xb("in", sub(tInt), sub(tNList))
		case 12:
			return xb(pick(r, []string{"=", "!="}), sub(tBool), sub(tBool))
		case 13:
			return xcall(pick(r, []string{"is_int", "is_float"}), sub(pick(r, []xty{tStr, tInt, tFlt})))
		default:
			return xb("~=", sub(tStr), xs(pick(r, []string{"^a", "b$", "[0-9]+"})))
		}
	case tSList:
		if a := g.aliasOf(tSList); a != nil && r.chance(1, 2) {
			return a
		}
		return xcall("split", g.gen(tStr, d-1), xs(pick(r, []string{",", "a"})))
	case tNList:
		switch r.intn(3) {
		case 0:
			return xcall("list", g.gen(tInt, d-1), g.gen(tInt, d-1))
		case 1:
			return xcall(pick(r, []string{"int_list", "ilist"}), g.gen(tInt, d-1), g.gen(tStr, d-1))
		default:
			return xcall(pick(r, []string{"float_list", "flist"}), g.gen(tFlt, d-1), g.gen(tInt, d-1))
		}
	}
	return xs("a")
}

// a comparison of `key` with `key` (or value with value) is not a statement of the language
// (side rule of Spec/Typing.v); the typed grammar does not produce it
func (g *c14gen) notSameField(l, r *xnode) *xnode {
	if l.k == xField && r.k == xField && l.s == r.s {
		return xs(pick(g.r, c14Strs))
	}
	return r
}

func (g *c14gen) stmt() *xstmt {
	r := g.r
	g.aliases = nil
	switch r.intn(8) {
	case 0: // put
		s := &xstmt{form: "put"}
		n := 1 + r.intn(2)
		for i := 0; i < n; i++ {
			g.key, g.value = false, false
			k := g.gen(pick(r, []xty{tStr, tStr, tInt}), r.intn(3))
			g.key = true
			v := g.gen(pick(r, []xty{tStr, tStr, tInt, tFlt}), r.intn(3))
			s.pairs = append(s.pairs, [2]*xnode{k, v})
		}
		return s
	case 1: // remove
		s := &xstmt{form: "remove"}
		g.key, g.value = false, false
		n := 1 + r.intn(3)
		for i := 0; i < n; i++ {
			s.keys = append(s.keys, g.gen(pick(r, []xty{tStr, tStr, tInt}), r.intn(3)))
		}
		return s
	case 2: // delete
		g.key, g.value = true, true
		return &xstmt{form: "delete", where: g.gen(tBool, 1+r.intn(3))}
	case 3: // select *
		g.key, g.value = true, true
		return &xstmt{form: "select", star: true, where: g.gen(tBool, 1+r.intn(3))}
	default: // select fields
		g.key, g.value = true, true
		s := &xstmt{form: "select"}
		n := 1 + r.intn(3)
		refs := r.chance(1, 2)
		if refs {
			n = 2 + r.intn(3)
		}
		var defined []xalias
		names := []string{"f1", "f2", "f3", "n"}
		for i := 0; i < n; i++ {
			t := pick(r, []xty{tStr, tInt, tFlt, tBool, tSList, tStr, tInt})
			// half of the statements: a field definition may use the fields generated so far;
			// the list is shuffled afterwards, so a field is used before or after its definition
			g.aliases = nil
			if refs {
				g.aliases = defined
			}
			f := xfield{e: g.gen(t, r.intn(3))}
			if f.e.k == xName {
				// a field that is only a name is never resolved (it stands for its own text)
				g.aliases = nil
				f.e = g.gen(t, 1+r.intn(2))
			}
			if r.chance(2, 3) {
				f.alias = names[i]
				defined = append(defined, xalias{names[i], t})
			}
			s.fields = append(s.fields, f)
		}
		if refs {
			for i := len(s.fields) - 1; i > 0; i-- {
				j := r.intn(i + 1)
				s.fields[i], s.fields[j] = s.fields[j], s.fields[i]
			}
		}
		g.aliases = defined
		s.where = g.gen(tBool, 1+r.intn(3))
		if r.chance(1, 8) {
			if a := g.aliasOf(tBool); a != nil {
				s.where = a
			}
		}
		if r.chance(1, 3) {
			for _, a := range defined {
				if a.t != tSList && r.chance(1, 2) {
					s.order = append(s.order, xorder{name: a.name, desc: r.chance(1, 2)})
				}
			}
		}
		g.aliases = nil
		return s
	}
}

// ------------------------------------------------------------------ single-fault mutants

type c14mut struct {
	fault string
	s     *xstmt
}

// replacements that change the static type of a node
func wrongTyped(n *xnode) []*xnode {
	isText := n.k == xStr || n.k == xField
	out := []*xnode{}
	if !(n.k == xNum || n.k == xFloat) {
		out = append(out, xn("1"))
	}
	if !isText {
		out = append(out, xs("a"))
	}
	if n.k != xBool {
		out = append(out, xbool(true))
	}
	return out
}

// typed parameters that the implementation tests only at execution (known finding): start / end
// of substr, the separators of split and join
func typedParam(sl xslot) bool {
	p := sl.parent
	if p == nil || p.k != xCall {
		return false
	}
	switch p.s {
	case "substr":
		return sl.idx == 1 || sl.idx == 2
	case "split":
		return sl.idx == 1
	case "join":
		return sl.idx == 0
	}
	return false
}

func c14Mutants(base *xstmt, r *rng, perSlot int) []c14mut {
	var out []c14mut
	n := len(base.allSlots())
	add := func(i int, fault string, f func(sl xslot)) {
		c := base.clone()
		sl := c.allSlots()[i]
		f(sl)
		out = append(out, c14mut{fault, c})
	}
	binOps := []string{"&", "|", "and", "or", "=", "!=", "^=", "~=", "+", "-", "*", "/", ">", "<="}
	for i := 0; i < n; i++ {
		sl := base.allSlots()[i]
		nd := sl.n
		if sl.parent != nil && sl.parent.k == xAccess && sl.idx == 1 {
			// the field name of an access: another literal kind, or an expression
			add(i, "field-name:literal-kind", func(sl xslot) {
				if sl.n.k == xNum {
					sl.set(xs("a"))
				} else {
					sl.set(xn("0"))
				}
			})
			add(i, "field-name:expression", func(sl xslot) { sl.set(xb("+", xn("0"), xn("1"))) })
			continue
		}
		if sl.parent != nil && sl.parent.k == xBin && sl.idx == 1 && nd.k == xList {
			continue // the list node itself; its items are visited
		}
		if !typedParam(sl) {
			reps := wrongTyped(nd)
			for k := 0; k < len(reps) && k < perSlot; k++ {
				rep := reps[(k+r.intn(len(reps)))%len(reps)]
				add(i, fmt.Sprintf("operand-type:%s", rep.coqKind()), func(sl xslot) { sl.set(rep) })
			}
		}
		switch nd.k {
		case xBin:
			if nd.op != "in" && nd.op != "between" {
				op := pick(r, binOps)
				if op != nd.op {
					add(i, "operator:"+nd.op+"->"+op, func(sl xslot) { sl.n.op = op })
				}
			}
		case xCall:
			add(i, "unknown-function", func(sl xslot) { sl.n.s = "nosuchfn" })
			add(i, "argument-count:+1", func(sl xslot) { sl.n.kids = append(sl.n.kids, xs("a")) })
			if len(nd.kids) > 0 {
				add(i, "argument-count:-1", func(sl xslot) { sl.n.kids = sl.n.kids[:len(sl.n.kids)-1] })
			}
			add(i, "aggregate-misplaced", func(sl xslot) { sl.set(xcall("str", xcall("count", xn("1")))) })
		case xStr, xField:
			if base.form == "put" || base.form == "remove" {
				kw := pick(r, []string{"key", "value"})
				add(i, "forbidden-keyword:"+kw, func(sl xslot) { sl.set(&xnode{k: xField, s: kw}) })
			}
		case xName:
			add(i, "undefined-name", func(sl xslot) { sl.n.s = "nosuchname" })
		}
	}
	return out
}

func (n *xnode) coqKind() string {
	switch n.k {
	case xNum:
		return "number"
	case xStr:
		return "text"
	case xBool:
		return "boolean"
	}
	return "expr"
}

// ------------------------------------------------------------------ exhaustive grid

type c14atom struct {
	name string
	mk   func() *xnode
}

func c14Atoms() []c14atom {
	return []c14atom{
		{"key", xkey}, {"value", xval},
		{"text", func() *xnode { return xs("a") }},
		{"int", func() *xnode { return xn("2") }},
		{"float", func() *xnode { return xf("1.5") }},
		{"zero", func() *xnode { return xn("0") }},
		{"true", func() *xnode { return xbool(true) }},
		{"name", func() *xnode { return xname("nosuchname") }},
		{"alias-text", func() *xnode { return xname("fs") }},
		{"alias-int", func() *xnode { return xname("fi") }},
		{"alias-bool", func() *xnode { return xname("fb") }},
		{"alias-list", func() *xnode { return xname("fl") }},
		{"call-text", func() *xnode { return xcall("upper", xval()) }},
		{"call-int", func() *xnode { return xcall("int", xval()) }},
		{"call-bool", func() *xnode { return xcall("is_int", xval()) }},
		{"call-list", func() *xnode { return xcall("split", xval(), xs(",")) }},
		{"call-json", func() *xnode { return xcall("json", xval()) }},
		{"call-unknown", func() *xnode { return xcall("nosuchfn", xval()) }},
		{"cmp", func() *xnode { return xb("=", xkey(), xs("a")) }},
		{"sum", func() *xnode { return xb("+", xcall("int", xval()), xn("1")) }},
		{"concat", func() *xnode { return xb("+", xval(), xs("x")) }},
		{"not", func() *xnode { return xnot(xb("=", xkey(), xs("a"))) }},
		{"index", func() *xnode { return xacc(xcall("split", xval(), xs(",")), xn("0")) }},
	}
}

// select with the four aliases the atoms use, <e> placed in WHERE (Boolean results) or as an
// extra select field (other results)
func c14GridStmt(e *xnode, inWhere bool) *xstmt {
	s := &xstmt{form: "select", fields: []xfield{
		{xcall("upper", xkey()), "fs"}, {xcall("int", xval()), "fi"},
		{xcall("is_int", xval()), "fb"}, {xcall("split", xval(), xs(",")), "fl"}}}
	if inWhere {
		s.where = e
	} else {
		s.fields = append(s.fields, xfield{e, ""})
		s.where = xb("^=", xkey(), xs("k"))
	}
	return s
}

// ------------------------------------------------------------------ fields that refer to fields

// a chain c0, c1 = step(c0), ..., cd = step(c(d-1)) of select fields of one operand type
type c14chain struct {
	name string
	leaf func() *xnode
	step func(prev string) *xnode
}

func c14Chains() []c14chain {
	return []c14chain{
		// the name on the LEFT of +: the type of the sum is read off the referenced field
		{"text-left", xkey, func(p string) *xnode { return xb("+", xname(p), xs("x")) }},
		{"text-right", func() *xnode { return xcall("upper", xval()) }, func(p string) *xnode { return xb("+", xs("x"), xname(p)) }},
		{"text-call", xkey, func(p string) *xnode { return xcall("upper", xname(p)) }},
		{"num-left", func() *xnode { return xcall("int", xval()) }, func(p string) *xnode { return xb("+", xname(p), xn("1")) }},
		{"num-mul", func() *xnode { return xcall("strlen", xkey()) }, func(p string) *xnode { return xb("*", xn("2"), xname(p)) }},
		{"bool-not", func() *xnode { return xcall("is_int", xval()) }, func(p string) *xnode { return xnot(xname(p)) }},
		{"bool-and", func() *xnode { return xb(">", xkey(), xs("a")) }, func(p string) *xnode { return xb("&", xname(p), xbool(true)) }},
	}
}

// what is done with the last field of the chain
type c14use struct {
	name string
	mk   func(t string) *xnode
}

func c14Uses() []c14use {
	return []c14use{
		{"plus-number", func(t string) *xnode { return xb("+", xname(t), xn("1")) }},
		{"number-plus", func(t string) *xnode { return xb("+", xn("1"), xname(t)) }},
		{"plus-text", func(t string) *xnode { return xb("+", xname(t), xs("y")) }},
		{"text-plus", func(t string) *xnode { return xb("+", xs("y"), xname(t)) }},
		{"times", func(t string) *xnode { return xb("*", xname(t), xn("2")) }},
		{"minus", func(t string) *xnode { return xb("-", xn("7"), xname(t)) }},
		{"not", func(t string) *xnode { return xnot(xname(t)) }},
		{"and", func(t string) *xnode { return xb("&", xname(t), xbool(true)) }},
		{"greater-number", func(t string) *xnode { return xb(">", xname(t), xn("1")) }},
		{"greater-text", func(t string) *xnode { return xb(">", xname(t), xs("a")) }},
		{"equal-boolean", func(t string) *xnode { return xb("=", xname(t), xbool(true)) }},
		{"prefix", func(t string) *xnode { return xb("^=", xname(t), xs("a")) }},
		{"in-texts", func(t string) *xnode { return xin(xname(t), xs("ax"), xs("b")) }},
		{"between-numbers", func(t string) *xnode { return xbetween(xname(t), xn("0"), xn("99")) }},
		{"call", func(t string) *xnode { return xcall("upper", xname(t)) }},
	}
}

// the fields of a chain of depth d in the given order: "before" every field is defined before it
// is used, "after" every field is used before it is defined, "mixed" both
func c14ChainFields(ch c14chain, d int, order string) ([]xfield, string) {
	fs := []xfield{{ch.leaf(), "c0"}}
	for i := 1; i <= d; i++ {
		fs = append(fs, xfield{ch.step(fmt.Sprintf("c%d", i-1)), fmt.Sprintf("c%d", i)})
	}
	top := fmt.Sprintf("c%d", d)
	switch order {
	case "after":
		for i, j := 0, len(fs)-1; i < j; i, j = i+1, j-1 {
			fs[i], fs[j] = fs[j], fs[i]
		}
	case "mixed":
		// c1, c0, c2, c3 -> c1 c0 c3 c2 ...: neighbours swapped
		for i := 0; i+1 < len(fs); i += 2 {
			fs[i], fs[i+1] = fs[i+1], fs[i]
		}
	}
	return fs, top
}

func c14FieldRefs(e *emitter, full bool, sample func(int) bool) {
	// the statement of the repaired defect and its accepted / rejected neighbours, always (first: the replay of a violation is the first failing case)
	zq := func(a, b, c xfield) *xstmt {
		return &xstmt{form: "select", fields: []xfield{a, b, c}, where: xb(">", xkey(), xs("a"))}
	}
	zq0 := func() xfield { return xfield{xb("+", xname("zq1"), xs("x")), "zq0"} }
	zq1 := func() xfield { return xfield{xkey(), "zq1"} }
	zq2n := func() xfield { return xfield{xb("+", xname("zq0"), xn("1")), "zq2"} }
	zq2s := func() xfield { return xfield{xb("+", xname("zq0"), xs("y")), "zq2"} }
	c14Classify(e, zq(zq2n(), zq0(), zq1()), "fieldref", "forward-reference/text-plus-number")
	c14Classify(e, zq(zq0(), zq1(), zq2n()), "fieldref", "forward-reference/text-plus-number")
	c14Classify(e, zq(zq2s(), zq0(), zq1()), "fieldref", "forward-reference/text-plus-text")
	c14Classify(e, zq(zq1(), zq0(), zq2s()), "fieldref", "forward-reference/text-plus-text")
	for _, w := range []*xnode{xb(">", xname("zq0"), xn("1")), xb(">", xname("zq0"), xs("a")), xb(">", xb("+", xname("zq0"), xn("1")), xn("1"))} {
		c14Classify(e, &xstmt{form: "select", fields: []xfield{zq0(), zq1()}, where: w.clone()}, "fieldref", "forward-reference/where")
		c14Classify(e, &xstmt{form: "select", fields: []xfield{zq1(), zq0()}, where: w.clone()}, "fieldref", "forward-reference/where")
	}
	all := func() *xnode { return xb(">=", xkey(), xs("")) }
	for _, ch := range c14Chains() {
		for d := 1; d <= 3; d++ {
			for _, order := range []string{"before", "after", "mixed"} {
				what := fmt.Sprintf("%s/depth%d/%s", ch.name, d, order)
				// the chain alone, and ordered by its last field
				if full || d == 2 || sample(3) {
					fs, top := c14ChainFields(ch, d, order)
					c14Classify(e, &xstmt{form: "select", fields: fs, where: all()}, "fieldref", what+"/alone")
					fs, top = c14ChainFields(ch, d, order)
					c14Classify(e, &xstmt{form: "select", fields: fs, where: all(), order: []xorder{{name: top}}}, "fieldref", what+"/order-by")
					fs, top = c14ChainFields(ch, d, order)
					c14Classify(e, &xstmt{form: "select", fields: fs, where: xname(top)}, "fieldref", what+"/where-root")
				}
				for _, u := range c14Uses() {
					if !full && !sample(6) && !(d == 2 && order == "after" && (u.name == "plus-number" || u.name == "plus-text")) {
						continue // quick tier: a sixth of the uses, plus the shape of the repaired defect
					}
					// from another field, placed first (used before every definition) or last
					fs, top := c14ChainFields(ch, d, order)
					c14Classify(e, &xstmt{form: "select", fields: append([]xfield{{u.mk(top), "u"}}, fs...), where: all()}, "fieldref", what+"/field-first:"+u.name)
					fs, top = c14ChainFields(ch, d, order)
					c14Classify(e, &xstmt{form: "select", fields: append(fs, xfield{u.mk(top), "u"}), where: all()}, "fieldref", what+"/field-last:"+u.name)
					// from the WHERE clause
					fs, top = c14ChainFields(ch, d, order)
					c14Classify(e, &xstmt{form: "select", fields: fs, where: u.mk(top)}, "fieldref", what+"/where:"+u.name)
					// a field that uses the chain, ordered by
					fs, top = c14ChainFields(ch, d, order)
					c14Classify(e, &xstmt{form: "select", fields: append([]xfield{{u.mk(top), "u"}}, fs...), where: all(), order: []xorder{{name: "u", desc: true}}}, "fieldref", what+"/order-by-user:"+u.name)
				}
			}
		}
	}
}

func runC14(c *runCtx) error {
	r := newRng(c.seed)
	header := "From Coq Require Import List String ZArith.\nFrom KV Require Import Base.Bytes Model.Ast Model.Checker Corr.C14.\nImport ListNotations.\nOpen Scope string_scope.\n"
	e := newEmitter(c.out, "C14", header, 400)
	e.m.Rule = "statements are built by the harness's own typed AST generator and rendered to text; grid: every binary operator x 23 operand atoms on either side (literals, key/value, names, field names of every type, calls of every result type, compound operands), ! x atom, IN lists and BETWEEN bounds x atoms, function argument counts, field access shapes, PUT / REMOVE / DELETE forms x atoms; typed: seeded random well-typed statements (depth <= 3); fieldref: select fields that refer to select fields defined before or after them (7 chains of depth 1..3 over text / number / Boolean definitions x 3 field orders x 15 uses of the last field from a field placed first / last, from WHERE, under ORDER BY; typed statements: half of them with field definitions that use other fields, the field list shuffled); mutant: every single-fault mutant of each typed statement, the fault (wrong operand type, other operator, unknown function, argument count, misplaced aggregate, forbidden keyword, undefined name, field-name kind) placed at every node; non-trivial = every case (each is a distinct statement judged against the typing rules); distinct = distinct Gallina case terms"
	atoms := c14Atoms()
	ops := []string{"&", "|", "and", "or", "=", "!=", "^=", "~=", "+", "-", "*", "/", ">", ">=", "<", "<="}
	boolOp := map[string]bool{"&": true, "|": true, "and": true, "or": true, "=": true, "!=": true, "^=": true, "~=": true, ">": true, ">=": true, "<": true, "<=": true}
	// ---------------------------------------------------------------- grid
	full := c.thorough() || c.search
	gi := 0
	sample := func(k int) bool { gi++; return (gi+int(c.seed))%k == 0 } // quick tier: every k-th, shifted by the seed
	for _, op := range ops {
		for _, a := range atoms {
			for _, b := range atoms {
				if !full && !sample(4) && !(a.name == "key" || a.name == "int" || b.name == "text") {
					continue // quick tier: a quarter of the pairs plus every pair with a core atom
				}
				nd := xb(op, a.mk(), b.mk())
				c14Classify(e, c14GridStmt(nd, boolOp[op]), "grid", "binary:"+op)
			}
		}
	}
	// call-level faults (unknown function, wrong argument count, aggregate out of place) standing
	// next to a DECIDING constant (`true | F`, `false & F`, a foldable constant comparison): the
	// fault is rejected when the plan is built, whatever the folder would make of the clause
	{
		faults := []func() *xnode{
			func() *xnode { return xb("=", xcall("upper", xkey(), xkey()), xs("K1")) },
			func() *xnode { return xcall("is_int", xkey(), xval()) },
			func() *xnode { return xb("=", xcall("upper", xcall("nosuch", xkey())), xs("K1")) },
			func() *xnode { return xb(">", xcall("count", xkey()), xn("0")) },
			func() *xnode { return xb("=", xcall("lower"), xs("k")) },
		}
		deciders := []func(f *xnode) *xnode{
			func(f *xnode) *xnode { return xb("|", xbool(true), f) },
			func(f *xnode) *xnode { return xb("&", xbool(false), f) },
			func(f *xnode) *xnode { return xb("|", xb("<", xn("1"), xn("2")), f) },
			func(f *xnode) *xnode { return xb("&", xb("<", xn("2"), xn("1")), f) },
			func(f *xnode) *xnode { return xb("|", f, xbool(true)) },
			func(f *xnode) *xnode { return xb("&", xb("=", xkey(), xs("a")), xb("|", xbool(true), f)) },
		}
		for fi, mkF := range faults {
			for _, dec := range deciders {
				c14Classify(e, c14GridStmt(dec(mkF()), true), "grid", "fault-next-to-deciding-constant/where")
				if fi != 3 { // (an aggregate call is no fault in a select field; the GROUP BY consistency rules are outside the typing spec)
					c14Classify(e, c14GridStmt(dec(mkF()), false), "grid", "fault-next-to-deciding-constant/field")
				}
				c14Classify(e, &xstmt{form: "delete", where: dec(mkF())}, "grid", "fault-next-to-deciding-constant/delete")
			}
		}
	}
	for _, a := range atoms {
		c14Classify(e, c14GridStmt(xnot(a.mk()), true), "grid", "not")
		c14Classify(e, c14GridStmt(a.mk(), true), "grid", "where-root")
		c14Classify(e, c14GridStmt(a.mk(), false), "grid", "select-field")
		c14Classify(e, &xstmt{form: "delete", where: a.mk()}, "grid", "delete-where")
		for _, b := range atoms {
			if !full && !sample(3) && !(b.name == "text" || b.name == "int" || a.name == "key") {
				continue
			}
			if !b.mk().compound() { // `in (` always starts a list
				c14Classify(e, c14GridStmt(xb("in", a.mk(), b.mk()), true), "grid", "in-expr")
			}
			c14Classify(e, c14GridStmt(xin(a.mk(), b.mk()), true), "grid", "in-list1")
			c14Classify(e, c14GridStmt(xin(a.mk(), xs("a"), b.mk()), true), "grid", "in-list2")
			c14Classify(e, c14GridStmt(xin(a.mk(), xn("1"), b.mk()), true), "grid", "in-list2")
			c14Classify(e, c14GridStmt(xbetween(a.mk(), b.mk(), xs("z")), true), "grid", "between")
			c14Classify(e, c14GridStmt(xbetween(a.mk(), xn("1"), b.mk()), true), "grid", "between")
			c14Classify(e, c14GridStmt(xacc(a.mk(), b.mk()), false), "grid", "access")
			c14Classify(e, c14GridStmt(xacc(xacc(xcall("json", xval()), xs("x")), b.mk()), false), "grid", "access-cascade")
		}
		for _, fn := range []string{"upper", "int", "len", "str", "is_int", "strlen", "list", "nosuchfn"} {
			c14Classify(e, c14GridStmt(xcall(fn, a.mk()), false), "grid", "call-arg")
		}
		c14Classify(e, c14GridStmt(xcall("substr", xkey(), a.mk(), xn("2")), false), "grid", "typed-param")
		c14Classify(e, c14GridStmt(xcall("substr", xkey(), xn("0"), a.mk()), false), "grid", "typed-param")
		c14Classify(e, c14GridStmt(xcall("split", xkey(), a.mk()), false), "grid", "typed-param")
		c14Classify(e, c14GridStmt(xcall("join", a.mk(), xkey()), false), "grid", "typed-param")
		// statement forms
		for _, form := range []string{"put-key", "put-value", "remove"} {
			nd := a.mk()
			if hasAliasName(nd) {
				continue
			}
			var s *xstmt
			switch form {
			case "put-key":
				s = &xstmt{form: "put", pairs: [][2]*xnode{{nd, xs("v")}}}
			case "put-value":
				s = &xstmt{form: "put", pairs: [][2]*xnode{{xs("k"), nd}}}
			default:
				s = &xstmt{form: "remove", keys: []*xnode{xs("k1"), nd}}
			}
			c14Classify(e, s, "grid", form)
		}
	}
	// argument counts of every scalar function, 0..4 arguments
	for _, fn := range []string{"lower", "upper", "int", "float", "str", "is_int", "is_float", "substr", "json", "split", "list", "float_list", "int_list", "flist", "ilist", "len", "join", "strlen", "cosine_distance", "l2_distance", "nosuchfn"} {
		for n := 0; n <= 4; n++ {
			args := []*xnode{}
			for i := 0; i < n; i++ {
				args = append(args, xn(fmt.Sprint(i+1)))
			}
			if fn == "join" && n > 0 {
				args[0] = xs(",")
			}
			if fn == "split" && n > 1 {
				args[1] = xs(",")
			}
			c14Classify(e, c14GridStmt(xcall(fn, args...), false), "grid", "argument-count")
			c14Classify(e, c14GridStmt(xb("=", xcall("str", xcall(fn, args...)), xs("a")), true), "grid", "argument-count")
		}
	}
	// aggregate functions: placement (twin) and argument count (judged here only)
	for _, ag := range []string{"count", "sum", "avg", "min", "max"} {
		arg := xcall("int", xval())
		c14Classify(e, &xstmt{form: "select", fields: []xfield{{xcall(ag, arg.clone()), ""}}, where: xb("^=", xkey(), xs("k"))}, "grid", "aggregate")
		c14Classify(e, &xstmt{form: "select", fields: []xfield{{xb("+", xcall(ag, arg.clone()), xn("1")), ""}}, where: xb("^=", xkey(), xs("k"))}, "grid", "aggregate")
		c14Classify(e, &xstmt{form: "select", fields: []xfield{{xcall("str", xcall(ag, arg.clone())), ""}}, where: xb("^=", xkey(), xs("k"))}, "grid", "aggregate-misplaced")
		c14Classify(e, &xstmt{form: "select", fields: []xfield{{xnot(xb(">", xcall(ag, arg.clone()), xn("1"))), ""}}, where: xb("^=", xkey(), xs("k"))}, "grid", "aggregate-misplaced")
		c14Classify(e, &xstmt{form: "select", star: true, where: xb(">", xcall(ag, arg.clone()), xn("0"))}, "grid", "aggregate-misplaced")
		c14Classify(e, &xstmt{form: "delete", where: xb(">", xcall(ag, arg.clone()), xn("0"))}, "grid", "aggregate-misplaced")
		c14Classify(e, &xstmt{form: "put", pairs: [][2]*xnode{{xs("k"), xcall(ag, xn("1"))}}}, "grid", "aggregate-misplaced")
		c14Classify(e, &xstmt{form: "remove", keys: []*xnode{xcall(ag, xn("1"))}}, "grid", "aggregate-misplaced")
		c14Classify(e, &xstmt{form: "select", fields: []xfield{{xcall(ag, xcall(ag, arg.clone())), ""}}, where: xb("^=", xkey(), xs("k"))}, "grid", "aggregate-misplaced")
		for _, n := range []int{0, 2} {
			args := []*xnode{}
			for i := 0; i < n; i++ {
				args = append(args, xn("1"))
			}
			s := &xstmt{form: "select", fields: []xfield{{xcall(ag, args...), ""}}, where: xb("^=", xkey(), xs("k"))}
			c14HarnessOnly(e, s, "aggregate-argument-count", false)
		}
	}
	// ORDER BY names
	for _, o := range []string{"fs", "fi", "fb", "fl", "nosuchname", "key"} {
		s := c14GridStmt(xb("^=", xkey(), xs("k")), true)
		s.order = []xorder{{name: o}}
		c14Classify(e, s, "grid", "order-by")
	}
	// ---------------------------------------------------------------- fields that refer to fields
	c14FieldRefs(e, full, sample)
	// ---------------------------------------------------------------- known-finding shapes
	c14Known(e)
	// ---------------------------------------------------------------- T1: every scalar function with
	// well-typed and ill-typed arguments at several depths, list-valued IN
	t1Functions(e, full, sample)
	// ---------------------------------------------------------------- t2: foldable constants next to
	// typed operands (c14fold.go)
	c14FoldStream(e, full, sample)
	// ---------------------------------------------------------------- typed statements and their mutants
	n, perSlot := 60, 1
	if c.thorough() || c.search {
		n, perSlot = 2500, 3
	}
	g := &c14gen{r: r}
	for i := 0; i < n; i++ {
		base := g.stmt()
		bq, _ := base.render()
		c14Classify(e, base, "typed", "")
		for _, m := range c14Mutants(base, r, perSlot) {
			c14ClassifyM(e, m.s, "mutant", m.fault, bq)
		}
	}
	// ---------------------------------------------------------------- aggregated SELECT texts vs
	// Model/AggInit.parse_check_agg (harness/c14agg.go, Corr/C14Agg.v)
	runC14Agg(e, c, r)
	e.m.Exhaustive = full // the grid part; the typed / mutant part is seeded random
	return e.flush()
}

func hasAliasName(n *xnode) bool {
	if n.k == xName && (n.s == "fs" || n.s == "fi" || n.s == "fb" || n.s == "fl") {
		return true
	}
	for _, k := range n.kids {
		if hasAliasName(k) {
			return true
		}
	}
	return false
}

// c14Classify emits a case with the full verdict unless the statement carries a known-finding
// shape, which goes through c14Known's path.
func c14Classify(e *emitter, s *xstmt, stream, what string) { c14ClassifyM(e, s, stream, what, "") }

func c14ClassifyM(e *emitter, s *xstmt, stream, what, base string) {
	if k := knownShape(s); k != "" {
		c14KnownCase(e, s, k)
		return
	}
	c14Case(e, s, stream, what, base, 0)
}

// c14HarnessOnly: statements whose rejection happens outside the twin (aggregate argument
// counts are validated when the aggregation plan is built); judged here: rejected (or
// accepted, as stated) with no storage call.
func c14HarnessOnly(e *emitter, s *xstmt, what string, wantAccept bool) {
	idx, o, rp := c14Case(e, s, "harness-only", what, "", 2)
	if idx < 0 {
		return
	}
	if (o.cls == 0) != wantAccept {
		e.fail(idx, "a statement with a wrong aggregate argument count was accepted when the plan was built", "C14/aggregate-argument-count-accepted", rp)
	}
}

// ------------------------------------------------------------------ known findings

// knownShape recognises the shapes the typing rules and the implementation are known to
// disagree on (see known_findings.json); "" otherwise.
func knownShape(s *xstmt) string {
	found := ""
	c14AliasKinds = map[string]string{}
	c14AliasDefs = map[string]*xnode{}
	for _, f := range s.fields {
		if f.alias != "" {
			if _, dup := c14AliasDefs[f.alias]; !dup {
				c14AliasDefs[f.alias] = f.e
			}
		}
	}
	// a field may use fields defined after it: the kinds are taken once per field, each round
	// seeing the kinds of the round before (reference chains are no longer than the field list)
	for round := 0; round <= len(s.fields); round++ {
		next := map[string]string{}
		for name, def := range c14AliasDefs {
			next[name] = staticKind(def)
		}
		c14AliasKinds = next
	}
	var walk func(n *xnode)
	walk = func(n *xnode) {
		if n.k == xAccess && numberList(n.kids[0]) && n.kids[1].k == xNum && found == "" {
			found = "number-list-element-as-text"
		}
		if n.k == xCall && found == "" {
			bad := func(i int, want string) bool {
				if i >= len(n.kids) {
					return false
				}
				t := staticKind(n.kids[i])
				return t != "" && t != want
			}
			switch n.s {
			case "substr":
				if len(n.kids) == 3 && (bad(1, "num") || bad(2, "num")) {
					found = "function-parameter-type"
				}
			case "split":
				if len(n.kids) == 2 && bad(1, "str") {
					found = "function-parameter-type"
				}
			case "join":
				if len(n.kids) >= 2 && bad(0, "str") {
					found = "function-parameter-type"
				}
			case "len":
				if len(n.kids) == 1 && (staticKind(n.kids[0]) == "bool" || staticKind(n.kids[0]) == "json") {
					found = "function-parameter-type"
				}
			case "json":
				if k := ""; len(n.kids) == 1 {
					k = staticKind(n.kids[0])
					if k != "" && k != "str" && k != "ident" {
						found = "function-parameter-type"
					}
				}
			case "cosine_distance", "l2_distance":
				if len(n.kids) == 2 {
					for _, a := range n.kids {
						if k := staticKind(a); k != "" && k != "list" && k != "json" {
							found = "function-parameter-type"
						}
					}
				}
			}
		}
		if n.k == xBin && n.op == "in" && found == "" {
			lk, ek := staticKind(n.kids[0]), elemKind(n.kids[1])
			if ek != "" && (lk == "str" || lk == "num") && lk != ek {
				found = "in-list-element-kind"
			}
		}
		for _, k := range n.kids {
			walk(k)
		}
	}
	for _, r := range s.roots() {
		walk(r.n)
	}
	return found
}

// kinds of the field names of the statement being classified (set by knownShape)
var c14AliasKinds = map[string]string{}
var c14AliasDefs = map[string]*xnode{}

// coarse static kinds of harness nodes (only what knownShape needs; "" = not determined here)
func staticKind(n *xnode) string {
	switch n.k {
	case xStr, xField, xAccess:
		return "str"
	case xNum, xFloat:
		return "num"
	case xBool, xNot:
		return "bool"
	case xName:
		if k, ok := c14AliasKinds[n.s]; ok {
			return k
		}
		return "ident"
	case xCall:
		switch n.s {
		case "upper", "lower", "str", "substr", "join":
			return "str"
		case "int", "float", "strlen", "len", "cosine_distance", "l2_distance":
			return "num"
		case "is_int", "is_float":
			return "bool"
		case "split", "list", "int_list", "ilist", "float_list", "flist":
			return "list"
		case "json":
			return "json"
		}
		return ""
	case xBin:
		switch n.op {
		case "-", "*", "/":
			return "num"
		case "+":
			if staticKind(n.kids[0]) == "str" {
				return "str"
			}
			return "num"
		}
		return "bool"
	}
	return ""
}

// element kind of a list-valued right side of IN
func elemKind(n *xnode) string {
	switch n.k {
	case xName:
		if d, ok := c14AliasDefs[n.s]; ok && d.k != xName {
			return elemKind(d)
		}
	case xCall:
		switch n.s {
		case "split":
			return "str"
		case "list", "int_list", "ilist", "float_list", "flist":
			return "num"
		}
	}
	return ""
}

func numberList(n *xnode) bool {
	if n.k == xName {
		if d, ok := c14AliasDefs[n.s]; ok && d.k != xName {
			return numberList(d)
		}
	}
	if n.k != xCall {
		return false
	}
	switch n.s {
	case "list", "int_list", "ilist", "float_list", "flist":
		return true
	}
	return false
}

// c14KnownCase: shapes on which the typing verdict is not applied.
//
//	function-parameter-type     parameter TYPES of functions are not among the faults the
//	                            property lists: neither required to be rejected nor judged
//	number-list-element-as-text, in-list-element-kind
//	                            element access / membership on list VALUES is dynamically typed
//	                            like JSON field access, which the property excepts
//
// The twin comparison (accept / position / tree) still runs for all of them (mode 1).
// (= / != with a float operand was the known finding C14/float-equality-fails-at-execution
// until the executor was repaired; those statements are ordinary judged cases now.)
func c14KnownCase(e *emitter, s *xstmt, shape string) {
	idx, _, _ := c14Case(e, s, "not-judged", shape, "", 1)
	if idx < 0 {
		return
	}
	e.count("not_judged=" + shape)
}

func c14Known(e *emitter) {
	where := func(w *xnode) *xstmt { return &xstmt{form: "select", star: true, where: w} }
	field := func(f *xnode) *xstmt {
		return &xstmt{form: "select", fields: []xfield{{f, ""}}, where: xb("^=", xkey(), xs(""))}
	}
	for _, op := range []string{"=", "!=", "^=", "<"} {
		// the side rule of the typing: never key with key, nor value with value
		c14Classify(e, where(xb(op, xkey(), xkey())), "grid", "same-field-comparison")
		c14Classify(e, where(xb(op, xval(), xval())), "grid", "same-field-comparison")
	}
	for _, op := range []string{"=", "!="} {
		// = / != with a float operand on either side (the repaired finding
		// C14/float-equality-fails-at-execution): judged like every other statement
		c14Classify(e, where(xb(op, xcall("float", xval()), xf("1.5"))), "grid", "float-equality")
		c14Classify(e, where(xb(op, xf("1.5"), xcall("float", xval()))), "grid", "float-equality")
		c14Classify(e, where(xb(op, xcall("int", xval()), xf("2.0"))), "grid", "float-equality")
		c14Classify(e, where(xb(op, xcall("float", xval()), xcall("int", xval()))), "grid", "float-equality")
		c14Classify(e, where(xb(op, xf("1.5"), xf("1.5"))), "grid", "float-equality")
		c14Classify(e, where(xb(op, xb("*", xcall("int", xval()), xf("0.5")), xf("2.25"))), "grid", "float-equality")
	}
	for _, l := range []string{"list", "int_list", "float_list"} {
		c14KnownCase(e, where(xb("=", xacc(xcall(l, xn("1"), xn("2")), xn("0")), xs("1"))), "number-list-element-as-text")
		c14KnownCase(e, where(xb("^=", xacc(xcall(l, xn("1"), xn("2")), xn("0")), xs("1"))), "number-list-element-as-text")
		c14KnownCase(e, where(xb("<", xacc(xcall(l, xn("1"), xn("2")), xn("1")), xs("1"))), "number-list-element-as-text")
	}
	c14KnownCase(e, field(xcall("substr", xkey(), xs("a"), xn("1"))), "function-parameter-type")
	c14KnownCase(e, field(xcall("substr", xkey(), xn("0"), xs("a"))), "function-parameter-type")
	c14KnownCase(e, field(xcall("join", xn("1"), xkey())), "function-parameter-type")
	c14KnownCase(e, field(xcall("split", xkey(), xn("1"))), "function-parameter-type")
	c14KnownCase(e, field(xcall("len", xb("=", xkey(), xs("a")))), "function-parameter-type")
	c14KnownCase(e, field(xcall("json", xn("1"))), "function-parameter-type")
	c14KnownCase(e, field(xcall("l2_distance", xcall("list", xn("1"), xn("2")), xkey())), "function-parameter-type")
	c14KnownCase(e, where(xb("in", xn("2"), xcall("split", xval(), xs(",")))), "in-list-element-kind")
	c14KnownCase(e, where(xb("in", xkey(), xcall("list", xn("1"), xn("2")))), "in-list-element-kind")
}
