package main

// C14, task T1: the scalar function bodies, list-valued IN and batch mode.
//
//   t1 stream   every scalar function of the table (json excepted) with well-typed and ill-typed
//               arguments, placed as a select field, inside other calls / operators in WHERE, and
//               behind a field name (the definition is used through a reference from another field
//               and from WHERE); IN over every list-valued function, with elements of the kind of
//               the left operand and of the other kind
//   evaluator   for every accepted SELECT / DELETE of the streams listed in t1EvalStreams the checked
//               trees of Parser.Parse (WHERE, select fields) are evaluated with Expression.Execute on
//               every pair of t1Store and with ExecuteBatch on its consecutive chunks of 1, 3 and 8
//               pairs; the outcome (value / error class and position / panic) goes into the case, the
//               Coq side (Corr/C14.v check_evals) classifies it with the data-dependent sites of the
//               twin's tree and compares the class with the class of the evaluator twins' outcome.

import (
	"errors"
	"fmt"
	"strings"

	kvql "github.com/c4pt0r/kvql"
)

var t1EvalStreams = map[string]bool{"t1": true, "typed": true, "mutant": true, "not-judged": true}

// two stores of eight pairs.  The float parser twin (Base/Flt.v) is deliberately conservative: a
// text that starts like a number and goes on otherwise ("1,2") is outside its model, so such
// values are offered only to statements that do not convert text to numbers (they are what makes
// split(value, ',') a list of numbers for the distance functions)
var t1StoreText = [][2]string{
	{"a", "12"}, {"ab", "-3"}, {"b", "2.5"}, {"kc", "a,b,c"}, {"", "7"}, {"zz", "0"}, {"ka", "abc"}, {"kb", ""},
}
var t1StoreLists = [][2]string{
	{"a", "12"}, {"ab", "-3"}, {"b", "2.5"}, {"kc", "a,b,c"}, {"", "7"}, {"zz", "0"}, {"kd", "1,2"}, {"x,y", "1,2,3"},
}

// does the tree convert text to a number (toInt / toFloat / ParseFloat on an argument)?
func (n *xnode) t1Converts() bool {
	if n.k == xCall {
		switch n.s {
		case "int", "float", "is_float", "list", "int_list", "ilist", "float_list", "flist":
			return true
		}
	}
	for _, k := range n.kids {
		if k.t1Converts() {
			return true
		}
	}
	return false
}

func t1StoreFor(s *xstmt) [][2]string {
	for _, r := range s.roots() {
		if r.n.t1Converts() {
			return t1StoreText
		}
	}
	return t1StoreLists
}

var t1Batches = []int{1, 3, 8}

type t1EvalInfo struct {
	trees   int
	dist    map[string]int
	panic   string
	summary string
}

func t1Obs(err error, pn string) (string, string) {
	if pn != "" {
		return "TPanic", "panic"
	}
	if err != nil {
		var se *kvql.SyntaxError
		var ee *kvql.ExecuteError
		switch {
		case errors.As(err, &ee):
			return fmt.Sprintf("(TErr 1 (%d))", ee.Pos), "ExecuteError"
		case errors.As(err, &se):
			return fmt.Sprintf("(TErr 2 (%d))", se.Pos), "SyntaxError"
		default:
			return "(TErr 3 0)", "plain-error"
		}
	}
	return "TVal", "value"
}

func t1Parse(q string) (trees []kvql.Expression, pn string) {
	defer func() {
		if r := recover(); r != nil {
			pn = fmt.Sprint(r)
		}
	}()
	stmt, err := kvql.NewParser(q).Parse()
	if err != nil {
		return nil, ""
	}
	switch st := stmt.(type) {
	case *kvql.SelectStmt:
		if st.GroupBy != nil || st.Where == nil {
			return nil, ""
		}
		trees = append(trees, st.Where.Expr)
		trees = append(trees, st.Fields...)
	case *kvql.DeleteStmt:
		if st.Where == nil {
			return nil, ""
		}
		trees = append(trees, st.Where.Expr)
	}
	return trees, ""
}

// t1EvalTerms: the Gallina terms of the store and of the observed outcome classes
func t1EvalTerms(q string, t1Store [][2]string) (string, string, t1EvalInfo) {
	info := t1EvalInfo{dist: map[string]int{}}
	trees, pn := t1Parse(q)
	if pn != "" || len(trees) == 0 {
		return "[]", "[]", info
	}
	info.trees = len(trees)
	st := make([]string, len(t1Store))
	for i, kv := range t1Store {
		st[i] = fmt.Sprintf("(%s, %s)", coqStr(kv[0]), coqStr(kv[1]))
	}
	var sum []string
	ev := make([]string, 0, len(trees))
	for ti, e := range trees {
		rows := make([]string, len(t1Store))
		for i, kv := range t1Store {
			_, err, p := execRow(e, kv[0], kv[1], false)
			var cls string
			rows[i], cls = t1Obs(err, p)
			info.dist["t1_row_outcome="+cls]++
			if p != "" && info.panic == "" {
				info.panic = fmt.Sprintf("tree %d, pair (%q, %q), row mode: %s", ti, kv[0], kv[1], p)
			}
			if err != nil && len(sum) < 4 {
				sum = append(sum, fmt.Sprintf("tree %d (%q,%q): %v", ti, kv[0], kv[1], err))
			}
		}
		bs := make([]string, 0, len(t1Batches))
		for _, B := range t1Batches {
			var outs []string
			for lo := 0; lo < len(t1Store); lo += B {
				hi := lo + B
				if hi > len(t1Store) {
					hi = len(t1Store)
				}
				_, err, p := execBatch(e, t1Store[lo:hi], false)
				o, cls := t1Obs(err, p)
				outs = append(outs, o)
				info.dist["t1_batch_outcome="+cls]++
				if p != "" && info.panic == "" {
					info.panic = fmt.Sprintf("tree %d, chunk [%d,%d) of size %d, batch mode: %s", ti, lo, hi, B, p)
				}
				if err != nil && len(sum) < 6 && B == len(t1Store) {
					sum = append(sum, fmt.Sprintf("tree %d batch: %v", ti, err))
				}
			}
			bs = append(bs, fmt.Sprintf("(%d, %s)", B, coqList(outs)))
		}
		ev = append(ev, fmt.Sprintf("EvTree %d %s %s", ti, coqList(rows), coqList(bs)))
	}
	info.summary = strings.Join(sum, " | ")
	return coqList(st), coqList(ev), info
}

// ------------------------------------------------------------------ the t1 generator

type t1call struct {
	fn   string
	what string // well | ill | dyn
	t    xty    // result type of the call
	mk   func() *xnode
}

func t1Split() *xnode  { return xcall("split", xval(), xs(",")) }
func t1IntVal() *xnode { return xcall("int", xval()) }

// every function with well-typed and ill-typed argument lists
func t1Calls() []t1call {
	var out []t1call
	add := func(fn, what string, t xty, mk func() *xnode) { out = append(out, t1call{fn, what, t, mk}) }
	// conversions: one argument of any type
	anyArgs := []func() *xnode{xkey, func() *xnode { return xn("12") }, func() *xnode { return xf("2.5") },
		func() *xnode { return xbool(true) }, t1Split, func() *xnode { return xcall("list", xn("1"), xn("2")) },
		func() *xnode { return xb("+", xval(), xs("x")) }, func() *xnode { return xname("nosuchname") }}
	for _, fn := range []string{"upper", "lower", "str"} {
		for _, a := range anyArgs {
			fn, a := fn, a
			add(fn, "well", tStr, func() *xnode { return xcall(fn, a()) })
		}
	}
	for _, fn := range []string{"int", "strlen"} {
		for _, a := range anyArgs {
			fn, a := fn, a
			add(fn, "well", tInt, func() *xnode { return xcall(fn, a()) })
		}
	}
	for _, a := range anyArgs {
		a := a
		add("float", "well", tFlt, func() *xnode { return xcall("float", a()) })
		add("is_int", "well", tBool, func() *xnode { return xcall("is_int", a()) })
		add("is_float", "well", tBool, func() *xnode { return xcall("is_float", a()) })
	}
	// substr(s, start, end)
	for _, a := range []func() *xnode{xkey, func() *xnode { return xn("12345") }, func() *xnode { return xcall("upper", xval()) }, func() *xnode { return xbool(true) }} {
		a := a
		add("substr", "well", tStr, func() *xnode { return xcall("substr", a(), xn("0"), xn("2")) })
		add("substr", "well", tStr, func() *xnode { return xcall("substr", a(), xn("1"), t1IntVal()) })
		add("substr", "well", tStr, func() *xnode { return xcall("substr", a(), xb("-", xcall("strlen", xkey()), xn("1")), xn("10")) })
		add("substr", "well", tStr, func() *xnode { return xcall("substr", a(), xf("0.5"), xcall("float", xval())) })
		add("substr", "ill", tStr, func() *xnode { return xcall("substr", a(), xs("a"), xn("2")) })
		add("substr", "ill", tStr, func() *xnode { return xcall("substr", a(), xn("0"), xval()) })
		add("substr", "ill", tStr, func() *xnode { return xcall("substr", a(), xbool(true), xn("1")) })
		add("substr", "ill", tStr, func() *xnode { return xcall("substr", a(), xn("0"), t1Split()) })
	}
	// split(s, sep)
	for _, a := range []func() *xnode{xval, xkey, func() *xnode { return xn("1213") }, func() *xnode { return xcall("lower", xval()) }} {
		a := a
		add("split", "well", tSList, func() *xnode { return xcall("split", a(), xs(",")) })
		add("split", "well", tSList, func() *xnode { return xcall("split", a(), xs("")) })
		add("split", "well", tSList, func() *xnode { return xcall("split", a(), xcall("substr", xkey(), xn("0"), xn("1"))) })
		add("split", "ill", tSList, func() *xnode { return xcall("split", a(), xn("1")) })
		add("split", "ill", tSList, func() *xnode { return xcall("split", a(), t1IntVal()) })
		add("split", "ill", tSList, func() *xnode { return xcall("split", a(), xbool(false)) })
	}
	// join(sep, a, ...)
	add("join", "well", tStr, func() *xnode { return xcall("join", xs(","), xkey(), xval()) })
	add("join", "well", tStr, func() *xnode { return xcall("join", xs("-"), xkey(), xn("12"), xf("2.5"), xbool(true)) })
	add("join", "well", tStr, func() *xnode { return xcall("join", xkey(), xs("a"), xs("b")) })
	add("join", "well", tStr, func() *xnode { return xcall("join", xs(""), xval()) })
	add("join", "well", tStr, func() *xnode { return xcall("join", xs(";"), t1Split(), xcall("list", xn("1"))) })
	add("join", "well", tStr, func() *xnode { return xcall("join", xcall("upper", xkey()), xb("/", xn("6"), t1IntVal()), xkey()) })
	add("join", "ill", tStr, func() *xnode { return xcall("join", xn("1"), xkey()) })
	add("join", "ill", tStr, func() *xnode { return xcall("join", t1IntVal(), xkey(), xval()) })
	add("join", "ill", tStr, func() *xnode { return xcall("join", xbool(true), xkey()) })
	add("join", "ill", tStr, func() *xnode { return xcall("join", t1Split(), xkey()) })
	// len(a)
	for _, a := range []func() *xnode{xkey, t1Split, func() *xnode { return xcall("list", xn("1"), xn("2")) },
		func() *xnode { return xn("12") }, func() *xnode { return xcall("int_list", xval()) }, func() *xnode { return xcall("flist", xf("0.5"), xn("1")) },
		func() *xnode { return xname("nosuchname") }, func() *xnode { return xf("1.5") }, func() *xnode { return xcall("split", xkey(), xs("")) }} {
		a := a
		add("len", "well", tInt, func() *xnode { return xcall("len", a()) })
	}
	for _, a := range []func() *xnode{func() *xnode { return xbool(true) }, func() *xnode { return xb("=", xkey(), xs("a")) },
		func() *xnode { return xnot(xbool(false)) }, func() *xnode { return xcall("is_int", xval()) }} {
		a := a
		add("len", "ill", tInt, func() *xnode { return xcall("len", a()) })
	}
	// the list constructors: arguments of any type are converted
	for _, fn := range []string{"list", "int_list", "ilist", "float_list", "flist"} {
		fn := fn
		add(fn, "well", tNList, func() *xnode { return xcall(fn, xn("1"), xn("2")) })
		add(fn, "well", tNList, func() *xnode { return xcall(fn, xval()) })
		add(fn, "well", tNList, func() *xnode { return xcall(fn, xval(), xn("2")) })
		add(fn, "well", tNList, func() *xnode { return xcall(fn, xf("2.5"), xn("1"), xkey()) })
		add(fn, "well", tNList, func() *xnode { return xcall(fn, xbool(true), xs("7")) })
		add(fn, "well", tNList, func() *xnode { return xcall(fn, xb("/", xn("6"), t1IntVal()), xcall("strlen", xkey())) })
		add(fn, "well", tNList, func() *xnode { return xcall(fn, t1Split()) })
	}
	// the distance functions
	for _, fn := range []string{"cosine_distance", "l2_distance"} {
		fn := fn
		add(fn, "well", tFlt, func() *xnode { return xcall(fn, xcall("list", xn("1"), xn("2")), xcall("list", xn("3"), xn("4"))) })
		add(fn, "well", tFlt, func() *xnode {
			return xcall(fn, xcall("int_list", xn("1"), xn("2")), xcall("float_list", xf("0.5"), xn("2")))
		})
		add(fn, "well", tFlt, func() *xnode { return xcall(fn, t1Split(), xcall("list", xn("1"), xn("2"))) })
		add(fn, "well", tFlt, func() *xnode { return xcall(fn, t1Split(), t1Split()) })
		add(fn, "well", tFlt, func() *xnode { return xcall(fn, xcall("ilist", xval(), xn("1")), xcall("flist", xn("1"))) })
		add(fn, "well", tFlt, func() *xnode { return xcall(fn, xcall("list", t1IntVal()), xcall("split", xkey(), xs(","))) })
		add(fn, "ill", tFlt, func() *xnode { return xcall(fn, xkey(), xval()) })
		add(fn, "ill", tFlt, func() *xnode { return xcall(fn, xcall("list", xn("1"), xn("2")), xkey()) })
		add(fn, "ill", tFlt, func() *xnode { return xcall(fn, xn("1"), xn("2")) })
		add(fn, "ill", tFlt, func() *xnode { return xcall(fn, xcall("list", xn("1")), xbool(true)) })
	}
	return out
}

// contexts: the call at depth 0 .. 3
type t1ctx struct {
	name string
	mk   func(c t1call) *xstmt // nil result: context does not apply to the result type
}

func t1Use(c *xnode, t xty) *xnode {
	// a Boolean expression that uses an operand of type t one level up
	switch t {
	case tStr:
		return xb("!=", xcall("upper", c), xs("zz"))
	case tInt, tFlt:
		return xb(">=", xb("+", c, xn("1")), xn("0"))
	case tBool:
		return xb("|", xnot(c), xb("!=", xkey(), xs("")))
	case tSList:
		return xb(">=", xcall("len", c), xn("0"))
	default:
		return xb(">=", xcall("len", c), xn("0"))
	}
}

func t1Contexts() []t1ctx {
	keep := func() *xnode { return xb("!=", xkey(), xs("zzzz")) }
	return []t1ctx{
		{"field", func(c t1call) *xstmt {
			return &xstmt{form: "select", fields: []xfield{{xkey(), ""}, {c.mk(), ""}}, where: keep()}
		}},
		{"where-depth1", func(c t1call) *xstmt {
			return &xstmt{form: "select", star: true, where: t1Use(c.mk(), c.t)}
		}},
		{"where-depth2", func(c t1call) *xstmt {
			inner := t1Use(c.mk(), c.t)
			return &xstmt{form: "select", star: true, where: xb("&", xb("=", xcall("str", inner), xs("true")), xb("|", inner.clone(), xbool(true)))}
		}},
		{"field-depth2", func(c t1call) *xstmt {
			var f *xnode
			switch c.t {
			case tStr:
				f = xcall("substr", xb("+", c.mk(), xs("xy")), xn("0"), xcall("strlen", c.mk()))
			case tInt, tFlt:
				f = xcall("str", xb("*", xn("2"), c.mk()))
			case tBool:
				f = xcall("str", xnot(c.mk()))
			default:
				f = xcall("join", xs("+"), xcall("len", c.mk()), c.mk())
			}
			return &xstmt{form: "select", fields: []xfield{{f, ""}}, where: keep()}
		}},
		{"alias", func(c t1call) *xstmt {
			// the call is a field of its own; another field and WHERE use it through its name
			var use *xnode
			switch c.t {
			case tStr:
				use = xb("+", xname("t1f"), xs("x"))
			case tInt, tFlt:
				use = xb("+", xname("t1f"), xn("1"))
			case tBool:
				use = xnot(xname("t1f"))
			default:
				use = xcall("len", xname("t1f"))
			}
			return &xstmt{form: "select", fields: []xfield{{use, "t1g"}, {c.mk(), "t1f"}}, where: t1Use(xname("t1f"), c.t)}
		}},
		{"delete", func(c t1call) *xstmt {
			return &xstmt{form: "delete", where: xb("&", t1Use(c.mk(), c.t), xb("=", xkey(), xs("nosuchkey")))}
		}},
	}
}

// IN over list-valued functions / field names
func t1InCases() []struct {
	what string
	mk   func() *xstmt
} {
	type ic = struct {
		what string
		mk   func() *xstmt
	}
	where := func(w func() *xnode) func() *xstmt {
		return func() *xstmt { return &xstmt{form: "select", star: true, where: w()} }
	}
	var out []ic
	strL := []func() *xnode{xkey, func() *xnode { return xs("a") }, func() *xnode { return xcall("upper", xkey()) }, func() *xnode { return xcall("substr", xval(), xn("0"), xn("1")) }}
	numL := []func() *xnode{func() *xnode { return xn("1") }, t1IntVal, func() *xnode { return xf("2.5") }, func() *xnode { return xcall("float", xval()) }, func() *xnode { return xb("+", xcall("strlen", xkey()), xn("1")) }}
	strLists := []func() *xnode{t1Split, func() *xnode { return xcall("split", xs("a,b"), xs(",")) }, func() *xnode { return xcall("split", xkey(), xs("")) }}
	numLists := []func() *xnode{func() *xnode { return xcall("list", xn("1"), xn("2"), xn("12")) }, func() *xnode { return xcall("int_list", xn("1"), xval()) },
		func() *xnode { return xcall("ilist", xval()) }, func() *xnode { return xcall("float_list", xf("2.5"), xn("1")) }, func() *xnode { return xcall("flist", xval(), xf("0.5")) },
		func() *xnode { return xcall("list", xval()) }}
	for _, l := range strL {
		for _, r := range strLists {
			l, r := l, r
			out = append(out, ic{"in-list-function/text-in-texts", where(func() *xnode { return xb("in", l(), r()) })})
			out = append(out, ic{"in-list-function/text-in-texts/under-not", where(func() *xnode { return xnot(xb("in", l(), r())) })})
		}
		for _, r := range numLists {
			l, r := l, r
			out = append(out, ic{"in-list-function/text-in-numbers", where(func() *xnode { return xb("in", l(), r()) })})
		}
	}
	for _, l := range numL {
		for _, r := range numLists {
			l, r := l, r
			out = append(out, ic{"in-list-function/number-in-numbers", where(func() *xnode { return xb("in", l(), r()) })})
			out = append(out, ic{"in-list-function/number-in-numbers/and", where(func() *xnode {
				return xb("&", xb("in", l(), r()), xb("!=", xkey(), xs("")))
			})})
		}
		for _, r := range strLists {
			l, r := l, r
			out = append(out, ic{"in-list-function/number-in-texts", where(func() *xnode { return xb("in", l(), r()) })})
		}
	}
	// through field names (the list is a field of its own), also two references deep
	for _, r := range append(append([]func() *xnode{}, strLists...), numLists...) {
		r := r
		for _, l := range []func() *xnode{xkey, t1IntVal} {
			l := l
			out = append(out, ic{"in-list-field", func() *xstmt {
				return &xstmt{form: "select", fields: []xfield{{xkey(), ""}, {r(), "t1l"}}, where: xb("in", l(), xname("t1l"))}
			}})
			out = append(out, ic{"in-list-field/forward", func() *xstmt {
				return &xstmt{form: "select", fields: []xfield{{xb("in", l(), xname("t1l")), "t1b"}, {r(), "t1l"}}, where: xb("|", xname("t1b"), xbool(true))}
			}})
		}
	}
	// rejected: the right side is not a list
	out = append(out, ic{"in-not-a-list", where(func() *xnode { return xb("in", xkey(), xcall("upper", xkey())) })})
	out = append(out, ic{"in-not-a-list", where(func() *xnode { return xb("in", xn("1"), xcall("len", xkey())) })})
	out = append(out, ic{"in-bool-left", where(func() *xnode { return xb("in", xbool(true), xcall("list", xn("1"))) })})
	return out
}

// an ill-typed EXPRESSION as argument i of every function (must be rejected when the plan is built,
// wherever the argument stands)
func t1BadArgs() []struct {
	what string
	mk   func() *xstmt
} {
	type bc = struct {
		what string
		mk   func() *xstmt
	}
	var out []bc
	good := map[string][]func() *xnode{
		"upper": {xkey}, "lower": {xkey}, "str": {xkey}, "int": {xval}, "float": {xval}, "strlen": {xkey},
		"is_int": {xval}, "is_float": {xval}, "len": {xkey},
		"substr":          {xkey, func() *xnode { return xn("0") }, func() *xnode { return xn("2") }},
		"split":           {xval, func() *xnode { return xs(",") }},
		"join":            {func() *xnode { return xs(",") }, xkey, xval},
		"list":            {xval, func() *xnode { return xn("2") }},
		"int_list":        {xval, func() *xnode { return xn("2") }},
		"ilist":           {xval, func() *xnode { return xn("2") }},
		"float_list":      {xval, func() *xnode { return xf("0.5") }},
		"flist":           {xval, func() *xnode { return xf("0.5") }},
		"cosine_distance": {func() *xnode { return xcall("list", xn("1"), xn("2")) }, func() *xnode { return xcall("list", xn("3"), xn("4")) }},
		"l2_distance":     {func() *xnode { return xcall("list", xn("1"), xn("2")) }, func() *xnode { return xcall("list", xn("3"), xn("4")) }},
	}
	bads := []struct {
		name string
		mk   func() *xnode
	}{
		{"text-times-number", func() *xnode { return xb("*", xs("a"), xn("2")) }},
		{"number-plus-text", func() *xnode { return xb("+", xn("1"), xkey()) }},
		{"not-of-number", func() *xnode { return xnot(xn("1")) }},
		{"text-less-number", func() *xnode { return xb("<", xkey(), xn("1")) }},
		{"unknown-function", func() *xnode { return xcall("nosuchfn", xkey()) }},
	}
	for _, fn := range []string{"upper", "lower", "str", "int", "float", "strlen", "is_int", "is_float", "len", "substr", "split", "join",
		"list", "int_list", "ilist", "float_list", "flist", "cosine_distance", "l2_distance"} {
		for pos := range good[fn] {
			for bi, bad := range bads {
				fn, pos, bad, bi := fn, pos, bad, bi
				mkCall := func() *xnode {
					args := make([]*xnode, len(good[fn]))
					for i, g := range good[fn] {
						args[i] = g()
					}
					args[pos] = bad.mk()
					return xcall(fn, args...)
				}
				what := fmt.Sprintf("bad-argument/%s/arg%d/%s", fn, pos, bad.name)
				if (bi+pos)%2 == 0 {
					out = append(out, bc{what, func() *xstmt {
						return &xstmt{form: "select", fields: []xfield{{mkCall(), ""}}, where: xb("!=", xkey(), xs("zzzz"))}
					}})
				} else {
					out = append(out, bc{what, func() *xstmt {
						return &xstmt{form: "select", star: true, where: xb("=", xcall("str", xcall("str", mkCall())), xs("x"))}
					}})
				}
			}
		}
	}
	return out
}

func t1Functions(e *emitter, full bool, sample func(int) bool) {
	for i, b := range t1BadArgs() {
		if !full && i%2 == 1 {
			continue
		}
		e.count("t1_bad_argument")
		c14Classify(e, b.mk(), "t1", "t1:"+b.what)
	}
	calls := t1Calls()
	ctxs := t1Contexts()
	for ci, c := range calls {
		for xi, cx := range ctxs {
			// quick tier: the field and alias contexts for every call, the others for every third
			if !full && !(cx.name == "field" || cx.name == "alias") && (ci+xi)%3 != 0 {
				continue
			}
			s := cx.mk(c)
			if s == nil {
				continue
			}
			e.count("t1_function=" + c.fn + "/" + c.what)
			e.count("t1_context=" + cx.name)
			c14Classify(e, s, "t1", "t1:"+c.fn+"/"+c.what+"/"+cx.name)
		}
	}
	for i, ic := range t1InCases() {
		if !full && i%2 == 1 && !strings.HasPrefix(ic.what, "in-list-field") {
			continue
		}
		e.count("t1_in=" + ic.what)
		c14Classify(e, ic.mk(), "t1", "t1:"+ic.what)
	}
}
