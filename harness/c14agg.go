// harness/c14agg.go -- C14 (and C17) stream "agg": aggregated SELECT texts, well and ill formed,
// run through Optimizer.BuildPlan on a logging store and compared in coqc with
// Model/AggInit.parse_check_agg (Corr/C14Agg.v, case mode 3 of Corr/C14.v): accept / reject, error
// class and position, kind of plan, zero storage calls on rejection; accepted plans are drained
// (row by row and in batches, on three stores) to see that they do not panic.
//
// What is generated:
//
//	grid    every aggregate function x 0..3 arguments x 9 places: alone, with ORDER BY + LIMIT,
//	        next to a GROUP BY key, under an arithmetic / comparison operator, next to a constant
//	        that lets the folder REMOVE the call (`(F > 0) & false`, `true | (F > 0)`), inside a
//	        scalar call, inside an aggregate call, in WHERE, as GROUP BY item
//	const   quantile x 26 second arguments, group_concat x 21 separators (literals of every kind,
//	        key / value, foldable and unfoldable expressions, failing expressions, field names of
//	        other select fields) x 3 tails
//	rules   fields missing from GROUP BY, GROUP BY without aggregate, ORDER BY on aggregates and on
//	        names that are no fields, upper-case names, unknown functions next to aggregates
//	random  seeded combinations: 1..3 fields from the pieces above, optional GROUP BY / ORDER BY /
//	        LIMIT, optional second fault
package main

import (
	"fmt"
	"strings"

	kvql "github.com/c4pt0r/kvql"
)

type aggReplay struct {
	Stream  string   `json:"stream"`
	Kind    string   `json:"kind"`
	Query   string   `json:"query"`
	Class   string   `json:"build_outcome"`
	Pos     int      `json:"error_position,omitempty"`
	Error   string   `json:"build_error,omitempty"`
	Calls   int      `json:"storage_calls_during_build"`
	CallLog []string `json:"storage_call_log,omitempty"`
	Plan    string   `json:"plan,omitempty"`
	Panic   string   `json:"panic_while_draining,omitempty"`
	BadCnt  bool     `json:"holds_wrong_aggregate_argument_count"`
}

type aggFn struct {
	name   string
	nargs  int
	number bool // result type: number (else text)
}

var aggFns = []aggFn{
	{"count", 1, true}, {"sum", 1, true}, {"avg", 1, true}, {"min", 1, true}, {"max", 1, true},
	{"quantile", 2, true}, {"json_arrayagg", 1, false}, {"group_concat", 2, false},
}

// the i-th argument (0-based) of a call of f with n arguments, all well formed when n == f.nargs
func aggArg(f aggFn, i int) string {
	switch i {
	case 0:
		if f.name == "count" {
			return "1"
		}
		if f.name == "group_concat" || f.name == "json_arrayagg" {
			return "key"
		}
		return "int(value)"
	case 1:
		if f.name == "quantile" {
			return "0.5"
		}
		return "','"
	}
	return "1"
}

func aggCall(f aggFn, n int) string {
	args := make([]string, n)
	for i := range args {
		args[i] = aggArg(f, i)
	}
	return f.name + "(" + strings.Join(args, ", ") + ")"
}

// a Boolean test of the call's result
func aggTest(f aggFn, call string) string {
	if f.number {
		return "(" + call + " > 0)"
	}
	return "(" + call + " = 'x')"
}

func planHasAggr(p any) bool {
	switch x := p.(type) {
	case *kvql.AggregatePlan:
		return true
	case *kvql.FinalOrderPlan:
		return planHasAggr(x.ChildPlan)
	case *kvql.FinalLimitPlan:
		return planHasAggr(x.ChildPlan)
	}
	return false
}

func aggDrain(q string) string {
	for _, kvs := range c14Stores {
		for _, batch := range []bool{false, true} {
			res := runQuery(q, newStore(kvs), batch, 2, true)
			if res.Panic != "" {
				return res.Panic
			}
		}
	}
	return ""
}

func aggCase(e *emitter, q, kind string, bad bool) {
	st := newStore(c14Stores[0])
	plan, err, pn := c14Build(q, st)
	cls, pos := errCls(err)
	rp := aggReplay{Stream: "agg", Kind: kind, Query: q, Pos: pos, Calls: len(st.log), BadCnt: bad}
	if pn != "" {
		// BuildPlan itself panicked: a direct verdict, the case is recorded as "other error"
		cls, pos = 3, 0
		rp.Panic = "BuildPlan: " + pn
	}
	rp.Class = []string{"accepted", "ExecuteError", "SyntaxError", "other error"}[cls]
	if err != nil {
		rp.Error = err.Error()
		for _, c := range st.log {
			rp.CallLog = append(rp.CallLog, c.Op+" "+c.Key)
		}
	}
	isagg := "None"
	panicked := ""
	if cls == 0 && pn == "" {
		rp.Plan = plan.String()
		if planHasAggr(plan) {
			isagg = "(Some (SPut []))"
		}
		panicked = aggDrain(q)
		rp.Panic = panicked
	}
	term := fmt.Sprintf("Case (SRemove []) 3 %d (%d) %d %s %s [(%s, \"\")] []", cls, pos, len(st.log), isagg,
		coqBool(panicked != ""), coqStr(q))
	idx := e.add(term, rp, true)
	e.count("stream=agg")
	e.count("agg_kind=" + kind)
	e.count("agg_outcome=" + rp.Class)
	if cls == 0 && isagg != "None" {
		e.count("agg_accepted_aggregate_plan")
	}
	if pn != "" {
		e.fail(idx, "BuildPlan panicked on an aggregated statement: "+pn, "C14/agg-build-panic", rp)
	}
	if cls != 0 && len(st.log) > 0 {
		e.fail(idx, "a rejected statement caused storage calls before the rejection", "C14/storage-access-before-rejection", rp)
	}
	if cls == 0 && bad {
		e.fail(idx, "a statement that calls an aggregate function with a wrong number of arguments was accepted when the plan was built", "C14/agg-arity-accepted", rp)
	}
	if panicked != "" {
		e.fail(idx, "an accepted aggregated statement panicked while its rows were computed: "+panicked, "C14/agg-run-panic", rp)
	}
}

var aggQuantileParams = []string{
	"0.5", "0.0", "1.0", "1", "0", "1.5", "2", "'0.5'", "key", "value", "true", "float(key)", "int(key)",
	"float('0.25')", "float(value) / 2", "1.0 / 0", "1 / int(key)", "1.0 / int(key)", "0.0 - 0.5", "0.5 - 1",
	"0.25 * 2", "strlen('ab') / 4.0", "l2_distance(list(1, 2), list(1))", "cosine_distance(list(1, 2), list(2, 4))",
	"float('nan')", "float('-inf')",
}

var aggConcatSeps = []string{
	"','", "''", "key", "value", "1", "1.5", "true", "'a' + 'b'", "key + 'b'", "upper('x')", "str(1)", "str(1 / int(key))",
	"substr('abc', 1, 1)", "int(key)", "split(value, ',')", "join(',', 1, 2)", "lower(key)", "1 + 2", "'a' = 'a'",
	"json(value)['a']", "strlen(key)",
}

func runC14Agg(e *emitter, c *runCtx, r *rng) {
	full := c.thorough() || c.search
	gi := 0
	sample := func(k int) bool { gi++; return (gi+int(c.seed))%k == 0 }
	// ---------------------------------------------------------------- grid
	for _, f := range aggFns {
		for n := 0; n <= 3; n++ {
			call := aggCall(f, n)
			bad := n != f.nargs
			test := aggTest(f, call)
			places := []struct{ kind, q string }{
				{"alone", "select " + call + " where key > ''"},
				{"order-limit", "select " + call + " as x where key > '' order by x desc limit 1, 2"},
				{"group-key", "select key, " + call + " where key > '' group by key"},
				{"group-key-limit", "select key as k, " + call + " as x where key > '' group by k order by k limit 2"},
				{"under-operator", "select key, 1 + strlen(" + "key) as n, " + test + " where key > '' group by key, n"},
				{"folded-away-and", "select " + test + " & false where key > ''"},
				{"folded-away-or", "select key, true | " + test + " as x where key > ''"},
				{"folded-away-deep", "select (1 < 2) | (" + test + " & (key = 'a')) where key > ''"},
				{"kept-and", "select " + test + " & true where key > ''"},
				{"in-scalar-call", "select str(" + call + ") where key > ''"},
				{"in-aggregate", "select count(" + call + ") where key > ''"},
				{"in-where", "select key where " + test},
				{"in-not", "select !" + test + " where key > ''"},
				{"in-list", "select 1 in (1, " + call + ") where key > ''"},
				{"group-item", "select " + call + " as x where key > '' group by x"},
				{"upper-case", "select " + strings.ToUpper(f.name) + call[len(f.name):] + " where key > ''"},
			}
			for pi, p := range places {
				if !full && !sample(2) && pi > 6 && n != f.nargs+1 {
					continue
				}
				aggCase(e, p.q, "grid:"+p.kind, bad)
			}
		}
	}
	// ---------------------------------------------------------------- constant arguments
	tails := []struct{ head, tail string }{
		{"select ", " where key > ''"},
		{"select key, ", " as x where key > '' group by key order by x limit 3"},
		{"select float(value) as m, int(value) as n, 'z' as s, ", " where key > '' group by m, n, s"},
	}
	for ti, t := range tails {
		params := append([]string{}, aggQuantileParams...)
		seps := append([]string{}, aggConcatSeps...)
		if ti == 2 {
			params = append(params, "m", "n", "s", "m / 4", "float(n)")
			seps = append(seps, "m", "n", "s", "s + s", "str(n)")
		}
		for _, p := range params {
			if !full && ti == 1 && !sample(3) {
				continue
			}
			aggCase(e, t.head+"quantile(int(value), "+p+")"+t.tail, "const:quantile", false)
		}
		for _, s := range seps {
			if !full && ti == 1 && !sample(3) {
				continue
			}
			aggCase(e, t.head+"group_concat(key, "+s+")"+t.tail, "const:group_concat", false)
		}
	}
	// ---------------------------------------------------------------- the rules of the aggregation plan
	rules := []string{
		"select key, count(1) where key > ''",
		"select key, value, count(1) where key > '' group by key",
		"select key, value, count(1) where key > '' group by key, value",
		"select key where key > '' group by key",
		"select key, value where key > '' group by key",
		"select key, upper(value) as u where key > '' group by key, u",
		"select count(1), sum(int(value)), key where key > '' group by key limit 1",
		"select count(1) as c, key where key > '' group by key order by c, key desc",
		"select count(1) as c where key > '' order by d",
		"select count(1) as c where key > '' order by count(1)",
		"select count(1) where key > '' order by key",
		"select key, count(1) as c where key > '' group by key order by c limit 0",
		"select count(1) + sum(int(value), 2) where key > ''",
		"select count(1, 2) + nosuch(1) where key > ''",
		"select nosuch(1) + count(1, 2) where key > ''",
		"select count(1, 2), nosuch(1) where key > ''",
		"select nosuch(1), count(1, 2) where key > ''",
		"select count(1, 2), key where key > ''",
		"select key, count(1, 2) where key > ''",
		"select count(1, 2) where key",
		"select count(1, 2) as c, c + 1 as d where key > '' group by d",
		"select count(1) as c, c + 1 as d where key > '' group by d",
		"select avg(int(value)) as a, quantile(int(value), a) where key > ''",
		"select avg(int(value)) as a, group_concat(key, a) where key > ''",
		"select avg(int(value)) as a, group_concat(key, str(a)) where key > ''",
		"select group_concat(key, a), group_concat(value, ',') as a where key > ''",
		"select sum(int(value)) in (1, 2), min(int(value)) between 0 and 5 where key > ''",
		"select quantile(int(value), 0.5) > 1 & group_concat(key, ',') = 'a' where key > ''",
		"select quantile(int(value), 2.5) > 1 | true where key > ''",
		"select false & (group_concat(key, 1) = 'a') where key > ''",
		"select count(1) where key > '' limit 1, 1",
		"select key, count(1) where key in ('a', 'b') group by key",
		"select key, count(1) where key = 'a' & key = 'b' group by key",
		"select count(1), quantile(int(value)) where key = 'a' & key = 'b'",
		"select * where key > '' group by key",
		"select key, count(*) where key > '' group by key",
	}
	for _, q := range rules {
		// (the statements of this list that hold a wrong argument count)
		bad := strings.Contains(q, "count(1, 2)") || strings.Contains(q, "sum(int(value), 2)") || strings.Contains(q, "quantile(int(value))")
		aggCase(e, q, "rules", bad)
	}
	// ---------------------------------------------------------------- seeded combinations
	n := 150
	if full {
		n = 3000
	}
	for i := 0; i < n; i++ {
		nf := 1 + r.intn(3)
		fields := []string{}
		bad := false
		groupKey := r.chance(1, 2)
		if groupKey {
			fields = append(fields, pick(r, []string{"key", "key as k", "upper(key) as k", "strlen(value) as k"}))
		}
		for j := 0; j < nf; j++ {
			f := pick(r, aggFns)
			cnt := f.nargs
			if r.chance(1, 5) {
				cnt = r.intn(4)
			}
			args := make([]string, cnt)
			for a := range args {
				args[a] = aggArg(f, a)
				if a == 1 && r.chance(1, 2) {
					if f.name == "quantile" {
						args[a] = pick(r, aggQuantileParams)
					} else if f.name == "group_concat" {
						args[a] = pick(r, aggConcatSeps)
					}
				}
			}
			call := f.name + "(" + strings.Join(args, ", ") + ")"
			if cnt != f.nargs {
				bad = true
			}
			switch r.intn(8) {
			case 0:
				call = aggTest(f, call)
			case 1:
				call = aggTest(f, call) + " & " + pick(r, []string{"false", "true", "(1 > 2)", "(key = 'a')"})
			case 2:
				call = pick(r, []string{"true", "false", "(2 > 1)"}) + " | " + aggTest(f, call)
			case 3:
				if f.number {
					call = pick(r, []string{"1 + ", "2 * ", "10 - "}) + call
				} else {
					call = "'<' + " + call
				}
			case 4:
				if r.chance(1, 3) {
					call = pick(r, []string{"str(", "upper(", "sum("}) + call + ")"
				}
			}
			if r.chance(1, 2) {
				call += fmt.Sprintf(" as a%d", j)
			}
			fields = append(fields, call)
		}
		if r.chance(1, 10) {
			fields = append(fields, pick(r, []string{"value", "nosuch(key)", "key"}))
		}
		if r.chance(1, 4) {
			r0 := r.intn(len(fields))
			fields[0], fields[r0] = fields[r0], fields[0]
		}
		q := "select " + strings.Join(fields, ", ") + " where " + pick(r, []string{"key > ''", "key ^= 'k'", "key = 'a'", "true", "key in ('a', 'zz')"})
		if groupKey && !r.chance(1, 8) {
			q += " group by " + pick(r, []string{"key", "k", "k"})
		}
		if r.chance(1, 3) {
			q += " order by " + pick(r, []string{"a0", "a0 desc", "k", "key", "a1, a0"})
		}
		if r.chance(1, 3) {
			q += pick(r, []string{" limit 1", " limit 1, 1", " limit 0"})
		}
		aggCase(e, q, "random", bad)
	}
}
