package main

// C14 (e): the trees the plans EVALUATE.  The constant folder (ExpressionOptimizer.Optimize) runs
// between Check and execution; fold_keeps_type_safety (Properties/C14.v) says that the folded tree
// of an accepted tree has the same static type and never answers a pair / a chunk with an
// operand-type error.
//
//   folded evaluation   for every statement whose checked trees are evaluated (t1EvalTerms) the
//               statement is parsed again, its WHERE tree and select fields are folded IN PLACE in
//               the order optimizeSelectExpressions / optimizeDeleteExpressions fold them, and the
//               roots Optimize returns are evaluated with Execute on every pair of the store and
//               with ExecuteBatch on its consecutive chunks; the outcomes go into the case as
//               EvTree entries with index 1000 + i (i: 0 = WHERE, i + 1 = select field i).  The Coq
//               side (Corr/C14.v check_tree_folded) evaluates FoldStmt.exec_tree of the twin's
//               checked tree, compares outcome classes (code 1) and judges: the CHECKED tree
//               satisfies the premises of the theorems and the FOLDED tree answers with an
//               operand-type error or a panic = code 5.
//   t2 stream   foldable constant sub-expressions of every operand type (operators on literals,
//               scalar calls on literals, a constant division by zero, text and number chains the
//               folder re-associates, deciding Boolean constants) next to typed operands, as a
//               select field, in WHERE, behind a field name used from another field and from
//               WHERE, under ORDER BY, in DELETE; well typed and with one operand of the other
//               type (must be rejected although the constant part folds).

import (
	"fmt"

	kvql "github.com/c4pt0r/kvql"
)

func init() { t1EvalStreams["t2"] = true }

const c14FoldBase = 1000

// the roots Optimize returns, folded in place as Optimizer.init does
func c14FoldedTrees(q string) (trees []kvql.Expression, pn string) {
	defer func() {
		if r := recover(); r != nil {
			pn = fmt.Sprint(r)
		}
	}()
	stmt, err := kvql.NewParser(q).Parse()
	if err != nil {
		return nil, ""
	}
	switch st := stmt.(type) {
	case *kvql.SelectStmt:
		if st.GroupBy != nil || st.Where == nil {
			return nil, ""
		}
		eo := kvql.ExpressionOptimizer{Root: st.Where.Expr}
		st.Where.Expr = eo.Optimize()
		for i, f := range st.Fields {
			eo.Root = f
			st.Fields[i] = eo.Optimize()
		}
		trees = append(trees, st.Where.Expr)
		trees = append(trees, st.Fields...)
	case *kvql.DeleteStmt:
		if st.Where == nil {
			return nil, ""
		}
		eo := kvql.ExpressionOptimizer{Root: st.Where.Expr}
		st.Where.Expr = eo.Optimize()
		trees = append(trees, st.Where.Expr)
	}
	return trees, ""
}

// c14FoldEvalTerms: the EvTree terms (index 1000 + i) of the folded trees, appended to the list
// term [evTrees] of the checked trees
func c14FoldEvalTerms(q string, store [][2]string, evTrees string, info *t1EvalInfo) string {
	if evTrees == "[]" {
		return evTrees
	}
	trees, pn := c14FoldedTrees(q)
	if pn != "" {
		if info.panic == "" {
			info.panic = "ExpressionOptimizer.Optimize: " + pn
		}
		return evTrees
	}
	if len(trees) == 0 {
		return evTrees
	}
	var ev []string
	for ti, e := range trees {
		rows := make([]string, len(store))
		for i, kv := range store {
			_, err, p := execRow(e, kv[0], kv[1], false)
			var cls string
			rows[i], cls = t1Obs(err, p)
			info.dist["fold_row_outcome="+cls]++
			if p != "" && info.panic == "" {
				info.panic = fmt.Sprintf("folded tree %d, pair (%q, %q), row mode: %s", ti, kv[0], kv[1], p)
			}
		}
		bs := make([]string, 0, len(t1Batches))
		for _, B := range t1Batches {
			var outs []string
			for lo := 0; lo < len(store); lo += B {
				hi := lo + B
				if hi > len(store) {
					hi = len(store)
				}
				_, err, p := execBatch(e, store[lo:hi], false)
				o, cls := t1Obs(err, p)
				outs = append(outs, o)
				info.dist["fold_batch_outcome="+cls]++
				if p != "" && info.panic == "" {
					info.panic = fmt.Sprintf("folded tree %d, chunk [%d,%d) of size %d, batch mode: %s", ti, lo, hi, B, p)
				}
			}
			bs = append(bs, fmt.Sprintf("(%d, %s)", B, coqList(outs)))
		}
		ev = append(ev, fmt.Sprintf("EvTree %d %s %s", c14FoldBase+ti, coqList(rows), coqList(bs)))
	}
	info.dist["fold_eval_trees"] += len(trees)
	// evTrees is "[a; b; ...]": splice the new entries in before the closing bracket
	return evTrees[:len(evTrees)-1] + "; " + coqList(ev)[1:]
}

// ------------------------------------------------------------------ the t2 generator

type t2const struct {
	name string
	t    xty
	mk   func() *xnode
}

func t2Consts() []t2const {
	return []t2const{
		// numbers
		{"1+2", tInt, func() *xnode { return xb("+", xn("1"), xn("2")) }},
		{"2*3", tInt, func() *xnode { return xb("*", xn("2"), xn("3")) }},
		{"7-7", tInt, func() *xnode { return xb("-", xn("7"), xn("7")) }},
		{"10/2", tInt, func() *xnode { return xb("/", xn("10"), xn("2")) }},
		{"10/(3-3)", tInt, func() *xnode { return xb("/", xn("10"), xb("-", xn("3"), xn("3"))) }},
		{"int('5')", tInt, func() *xnode { return xcall("int", xs("5")) }},
		{"strlen('abc')", tInt, func() *xnode { return xcall("strlen", xs("abc")) }},
		{"1.5+1", tFlt, func() *xnode { return xb("+", xf("1.5"), xn("1")) }},
		{"float('2.5')*2", tFlt, func() *xnode { return xb("*", xcall("float", xs("2.5")), xn("2")) }},
		// text
		{"'a'+'b'", tStr, func() *xnode { return xb("+", xs("a"), xs("b")) }},
		{"upper('x')", tStr, func() *xnode { return xcall("upper", xs("x")) }},
		{"substr('hello',1,2)", tStr, func() *xnode { return xcall("substr", xs("hello"), xn("1"), xn("2")) }},
		{"str(12)", tStr, func() *xnode { return xcall("str", xn("12")) }},
		{"lower('AB')+'c'", tStr, func() *xnode { return xb("+", xcall("lower", xs("AB")), xs("c")) }},
		// Booleans
		{"1<2", tBool, func() *xnode { return xb("<", xn("1"), xn("2")) }},
		{"'a'='b'", tBool, func() *xnode { return xb("=", xs("a"), xs("b")) }},
		{"true", tBool, func() *xnode { return xbool(true) }},
		{"false", tBool, func() *xnode { return xbool(false) }},
		{"is_int('5')", tBool, func() *xnode { return xcall("is_int", xs("5")) }},
		{"2>=3|1=1", tBool, func() *xnode { return xb("|", xb(">=", xn("2"), xn("3")), xb("=", xn("1"), xn("1"))) }},
	}
}

type t2ctx struct {
	name string
	t    xty // type of the result
	in   xty // type of the constant it takes (tInt stands for any number)
	mk   func(c *xnode) *xnode
}

func t2Contexts() []t2ctx {
	iv := func() *xnode { return xcall("int", xval()) }
	return []t2ctx{
		// number contexts
		{"num+C", tInt, tInt, func(c *xnode) *xnode { return xb("+", iv(), c) }},
		{"(num+1)+C", tInt, tInt, func(c *xnode) *xnode { return xb("+", xb("+", iv(), xn("1")), c) }},
		{"(num*2)*C", tInt, tInt, func(c *xnode) *xnode { return xb("*", xb("*", iv(), xn("2")), c) }},
		{"((num+1)+2)+C", tInt, tInt, func(c *xnode) *xnode { return xb("+", xb("+", xb("+", iv(), xn("1")), xn("2")), c) }},
		{"num/C", tInt, tInt, func(c *xnode) *xnode { return xb("/", iv(), c) }},
		{"C-num", tInt, tInt, func(c *xnode) *xnode { return xb("-", c, iv()) }},
		{"num>C", tBool, tInt, func(c *xnode) *xnode { return xb(">", iv(), c) }},
		{"num=C", tBool, tInt, func(c *xnode) *xnode { return xb("=", iv(), c) }},
		{"num between C and 100", tBool, tInt, func(c *xnode) *xnode { return xbetween(iv(), c, xn("100")) }},
		{"num in (C,1,2)", tBool, tInt, func(c *xnode) *xnode { return xin(iv(), c, xn("1"), xn("2")) }},
		{"C in list(1,num)", tBool, tInt, func(c *xnode) *xnode { return xb("in", c, xcall("list", xn("1"), iv())) }},
		{"substr(key,0,C)", tStr, tInt, func(c *xnode) *xnode { return xcall("substr", xkey(), xn("0"), c) }},
		// text contexts
		{"key+C", tStr, tStr, func(c *xnode) *xnode { return xb("+", xkey(), c) }},
		{"(key+'a')+C", tStr, tStr, func(c *xnode) *xnode { return xb("+", xb("+", xkey(), xs("a")), c) }},
		{"key=C", tBool, tStr, func(c *xnode) *xnode { return xb("=", xkey(), c) }},
		{"key^=C", tBool, tStr, func(c *xnode) *xnode { return xb("^=", xkey(), c) }},
		{"key in (C,'a')", tBool, tStr, func(c *xnode) *xnode { return xin(xkey(), c, xs("a")) }},
		{"C in split(value,',')", tBool, tStr, func(c *xnode) *xnode { return xb("in", c, xcall("split", xval(), xs(","))) }},
		{"split(value,C)", tSList, tStr, func(c *xnode) *xnode { return xcall("split", xval(), c) }},
		{"upper(C)+key", tStr, tStr, func(c *xnode) *xnode { return xb("+", xcall("upper", c), xkey()) }},
		// Boolean contexts
		{"C&key^='k'", tBool, tBool, func(c *xnode) *xnode { return xb("&", c, xb("^=", xkey(), xs("k"))) }},
		{"key^='k'|C", tBool, tBool, func(c *xnode) *xnode { return xb("|", xb("^=", xkey(), xs("k")), c) }},
		{"C and num>1", tBool, tBool, func(c *xnode) *xnode { return xb("and", c, xb(">", iv(), xn("1"))) }},
		{"!(C)|key='a'", tBool, tBool, func(c *xnode) *xnode { return xb("|", xnot(c), xb("=", xkey(), xs("a"))) }},
		{"(C&key='a')|(num/0.5>1)", tBool, tBool, func(c *xnode) *xnode {
			return xb("|", xb("&", c, xb("=", xkey(), xs("a"))), xb(">", xb("/", iv(), xf("0.5")), xn("1")))
		}},
	}
}

func t2Compatible(in, c xty) bool {
	if in == tInt {
		return c == tInt || c == tFlt
	}
	return in == c
}

// a Boolean clause that uses an expression of type t
func t2BoolOf(e *xnode, t xty) *xnode {
	switch t {
	case tBool:
		return e
	case tStr:
		return xb("!=", e, xs("zz"))
	case tSList:
		return xb(">=", xcall("len", e), xn("0"))
	default:
		return xb(">=", e, xn("-1000"))
	}
}

func t2All() *xnode { return xb(">=", xkey(), xs("")) }

// the statements one expression is placed in
func t2Statements(mk func() *xnode, t xty) []struct {
	what string
	s    *xstmt
} {
	var out []struct {
		what string
		s    *xstmt
	}
	add := func(what string, s *xstmt) {
		out = append(out, struct {
			what string
			s    *xstmt
		}{what, s})
	}
	add("field", &xstmt{form: "select", fields: []xfield{{mk(), "f"}, {xkey(), ""}}, where: t2All()})
	add("where", &xstmt{form: "select", fields: []xfield{{xkey(), ""}}, where: t2BoolOf(mk(), t)})
	add("order-by", &xstmt{form: "select", fields: []xfield{{xkey(), ""}, {mk(), "f"}}, where: t2All(), order: []xorder{{name: "f", desc: true}}})
	add("delete", &xstmt{form: "delete", where: t2BoolOf(mk(), t)})
	// behind a field name: g uses f (defined after it), WHERE uses f
	var g *xnode
	switch t {
	case tStr:
		g = xb("+", xname("f"), xs("!"))
	case tBool:
		g = xb("|", xname("f"), xb("=", xkey(), xs("a")))
	case tSList:
		g = xcall("len", xname("f"))
	default:
		g = xb("+", xname("f"), xn("1"))
	}
	add("reference", &xstmt{form: "select", fields: []xfield{{g, "g"}, {mk(), "f"}}, where: t2BoolOf(xname("f"), t)})
	return out
}

func c14FoldStream(e *emitter, full bool, sample func(int) bool) {
	consts := t2Consts()
	ctxs := t2Contexts()
	for ci, c := range consts {
		for xi, cx := range ctxs {
			c, cx := c, cx
			well := t2Compatible(cx.in, c.t)
			if !well && !full && (ci+xi)%5 != 0 {
				continue // quick tier: a fifth of the ill-typed combinations
			}
			mk := func() *xnode { return cx.mk(c.mk()) }
			for si, st := range t2Statements(mk, cx.t) {
				if !full && !(st.what == "field" || st.what == "where") && (ci+xi+si)%3 != 0 {
					continue // quick tier: field and WHERE for every pair, the other placements for a third
				}
				if !well && !(st.what == "field" || st.what == "where") {
					continue
				}
				e.count("t2_const=" + c.name)
				e.count("t2_context=" + cx.name)
				e.count("t2_placement=" + st.what)
				e.count(fmt.Sprintf("t2_well_typed=%v", well))
				c14Classify(e, st.s, "t2", "t2:"+c.name+"/"+cx.name+"/"+st.what)
			}
		}
	}
}
