package main

// C15: parsing follows the documented precedence; the printed form re-parses identically.
//
//  kind 3  precedence table: Token.Precedence() of every operator spelling (and of look-alike
//          non-operator tokens) against the Coq table.
//  kind 2  flat operator sequences a0 o1 a1 .. on, EXHAUSTIVE over 10 operator spellings (two per
//          binding level) up to a length bound; judged against an independent "split at the last
//          weakest operator" reference here (e.fail) and against climb_spec in Coq (code 4).
//  kind 0  random expression trees written with minimal / random / full parenthesisation,
//          random letter case and random admissible spacing, parsed through DELETE WHERE e
//          (the one statement form whose parse result is returned even when the type check
//          fails, so that the parser is observed on untyped trees too); plus single-edit
//          corruptions of such texts (the twin must refuse exactly what the parser refuses;
//          the reported offset is C17's subject and is not compared).  The parse must be the
//          generated tree (e.fail) and equal the Coq twin's parse of the same tokens, node
//          positions included.
//  kind 1  accepted statements (typed grammar, and a "loophole" stream of untyped operands
//          in places the checker might not look): the rendering of the accepted tree must
//          re-parse to the same tree (e.fail + code 2) and the tree must have the shape the
//          round-trip theorem assumes (code 3).
//
// The harness never gives `'a'and`-style adjacencies to the lexer (quote next to word; that is
// C16's defect D20): words and quoted literals are always separated by a blank.

import (
	"errors"
	"fmt"
	"strings"

	kvql "github.com/c4pt0r/kvql"
)

func init() { registry["C15"] = runC15 }

// the documented binding strength (property text / README), independent of lexer.go
var c15Prec = map[string]int{
	"|": 1, "or": 1, "&": 2, "and": 2,
	"=": 3, "!=": 3, "^=": 3, "~=": 3, ">": 3, ">=": 3, "<": 3, "<=": 3, "in": 3, "between": 3,
	"+": 4, "-": 4, "*": 5, "/": 5,
}

var c15BinOps = []string{"|", "or", "&", "and", "=", "!=", "^=", "~=", ">", ">=", "<", "<=", "in", "+", "-", "*", "/"}

// ------------------------------------------------------------------ generated trees

type c15gx struct {
	k    string // bin between inlist inraw not call access key value str name num float bool
	op   string
	s    string
	q    byte
	kids []*c15gx
}

func (n *c15gx) compound() bool {
	return n.k == "bin" || n.k == "between" || n.k == "inlist" || n.k == "inraw"
}

func (n *c15gx) prec() int {
	switch n.k {
	case "bin":
		return c15Prec[n.op]
	case "between", "inlist", "inraw":
		return 3
	}
	return 100
}

func (n *c15gx) nops() int {
	c := 0
	if n.compound() || n.k == "not" {
		c = 1
	}
	for _, k := range n.kids {
		c += k.nops()
	}
	return c
}

func (n *c15gx) depth() int {
	d := 0
	for _, k := range n.kids {
		if x := k.depth(); x > d {
			d = x
		}
	}
	return d + 1
}

// expected tree, positions omitted
func (n *c15gx) shape() string {
	ks := make([]string, len(n.kids))
	for i, k := range n.kids {
		ks[i] = k.shape()
	}
	switch n.k {
	case "bin":
		return "(" + n.op + " " + ks[0] + " " + ks[1] + ")"
	case "inraw":
		return "(in " + ks[0] + " " + ks[1] + ")"
	case "between":
		return "(between " + ks[0] + " (list " + ks[1] + " " + ks[2] + "))"
	case "inlist":
		return "(in " + ks[0] + " (list" + c15pre(" ", ks[1:]) + "))"
	case "not":
		return "(! " + ks[0] + ")"
	case "call":
		return "(call " + ks[0] + c15pre(" ", ks[1:]) + ")"
	case "access":
		return "(idx " + ks[0] + " " + ks[1] + ")"
	case "key":
		return "KEY"
	case "value":
		return "VALUE"
	case "str":
		return "s:" + n.s
	case "name":
		if n.q == '`' {
			return "n:" + n.s
		}
		return "n:" + strings.ToLower(n.s)
	case "num":
		return "i:" + n.s
	case "float":
		return "f:" + strings.ToLower(n.s)
	case "bool":
		return "b:" + strings.ToLower(n.s)
	}
	return "?"
}

func c15pre(sep string, xs []string) string {
	var b strings.Builder
	for _, x := range xs {
		b.WriteString(sep)
		b.WriteString(x)
	}
	return b.String()
}

// shape of a parsed tree in the same notation
func c15shapeOf(e kvql.Expression) string {
	switch x := e.(type) {
	case *kvql.BinaryOpExpr:
		return "(" + kvql.OperatorToString[x.Op] + " " + c15shapeOf(x.Left) + " " + c15shapeOf(x.Right) + ")"
	case *kvql.ListExpr:
		ks := make([]string, len(x.List))
		for i, k := range x.List {
			ks[i] = c15shapeOf(k)
		}
		return "(list" + c15pre(" ", ks) + ")"
	case *kvql.NotExpr:
		return "(! " + c15shapeOf(x.Right) + ")"
	case *kvql.FunctionCallExpr:
		ks := make([]string, len(x.Args))
		for i, k := range x.Args {
			ks[i] = c15shapeOf(k)
		}
		return "(call " + c15shapeOf(x.Name) + c15pre(" ", ks) + ")"
	case *kvql.FieldAccessExpr:
		return "(idx " + c15shapeOf(x.Left) + " " + c15shapeOf(x.FieldName) + ")"
	case *kvql.FieldExpr:
		if x.Field == kvql.KeyKW {
			return "KEY"
		}
		return "VALUE"
	case *kvql.StringExpr:
		return "s:" + x.Data
	case *kvql.NameExpr:
		return "n:" + x.Data
	case *kvql.FieldReferenceExpr:
		return "n:" + x.Name.Data
	case *kvql.NumberExpr:
		return "i:" + x.Data
	case *kvql.FloatExpr:
		return "f:" + x.Data
	case *kvql.BoolExpr:
		return "b:" + x.Data
	case nil:
		return "<nil>"
	}
	return fmt.Sprintf("?%T", e)
}

// ------------------------------------------------------------------ writing a tree as text

type c15lexeme struct {
	t string
	k byte // 'w' word, 'q' quoted literal, 's' symbol
}

type c15gen struct {
	r       *rng
	style   int  // 0 minimal, 1 random, 2 full parenthesisation
	rcase   bool // random letter case
	rspace  bool // random spacing
	aliases map[string][]string
}

func (g *c15gen) word(s string) c15lexeme {
	if g.rcase {
		b := []byte(s)
		for i := range b {
			if b[i] >= 'a' && b[i] <= 'z' && g.r.chance(1, 2) {
				b[i] -= 32
			}
		}
		s = string(b)
	}
	return c15lexeme{s, 'w'}
}

func c15sym(s string) c15lexeme { return c15lexeme{s, 's'} }

func (g *c15gen) opLex(op string) c15lexeme {
	if op[0] >= 'a' && op[0] <= 'z' {
		return g.word(op)
	}
	return c15sym(op)
}

func c15wrap(ls []c15lexeme) []c15lexeme {
	out := append([]c15lexeme{c15sym("(")}, ls...)
	return append(out, c15sym(")"))
}

// child renders a sub-tree, in parentheses when the grammar needs them (need), when the style
// is "full" and the node is an operator node, and - style "random" - in redundant ones.
func (g *c15gen) child(n *c15gx, need bool, noextra bool) []c15lexeme {
	ls := g.lex(n)
	if need || (g.style == 2 && n.compound() && !noextra) {
		ls = c15wrap(ls)
	}
	if g.style == 1 && !noextra {
		for g.r.chance(1, 6) {
			ls = c15wrap(ls)
		}
	}
	return ls
}

func (g *c15gen) lex(n *c15gx) []c15lexeme {
	var out []c15lexeme
	switch n.k {
	case "bin":
		p := n.prec()
		l, r := n.kids[0], n.kids[1]
		out = append(out, g.child(l, l.compound() && l.prec() < p, false)...)
		out = append(out, g.opLex(n.op))
		if n.op == "in" {
			// not a list: the operand must not begin with a parenthesis (r is "simple";
			// written in minimal style so that no redundant one is put in front either)
			save := g.style
			g.style = 0
			out = append(out, g.lex(r)...)
			g.style = save
		} else {
			out = append(out, g.child(r, r.compound() && r.prec() <= p, false)...)
		}
	case "inraw":
		l, r := n.kids[0], n.kids[1]
		out = append(out, g.child(l, l.compound() && l.prec() < 3, false)...)
		out = append(out, g.word("in"))
		// r is  atom arith atom, written bare: binds tighter than IN
		out = append(out, g.lex(r.kids[0])...)
		out = append(out, c15sym(r.op))
		out = append(out, g.lex(r.kids[1])...)
	case "between":
		l, lo, hi := n.kids[0], n.kids[1], n.kids[2]
		out = append(out, g.child(l, l.compound() && l.prec() < 3, false)...)
		out = append(out, g.word("between"))
		out = append(out, g.child(lo, lo.compound() && lo.prec() <= 3, false)...)
		out = append(out, g.word("and"))
		out = append(out, g.child(hi, hi.compound() && hi.prec() <= 3, false)...)
	case "inlist":
		l := n.kids[0]
		out = append(out, g.child(l, l.compound() && l.prec() < 3, false)...)
		out = append(out, g.word("in"), c15sym("("))
		for i, it := range n.kids[1:] {
			if i > 0 {
				out = append(out, c15sym(","))
			}
			out = append(out, g.child(it, false, false)...)
		}
		out = append(out, c15sym(")"))
	case "not":
		x := n.kids[0]
		out = append(out, c15sym("!"))
		out = append(out, g.child(x, x.compound(), false)...)
	case "call":
		h := n.kids[0]
		out = append(out, g.child(h, h.compound() || h.k == "not", false)...)
		out = append(out, c15sym("("))
		for i, a := range n.kids[1:] {
			if i > 0 {
				out = append(out, c15sym(","))
			}
			out = append(out, g.child(a, false, false)...)
		}
		out = append(out, c15sym(")"))
	case "access":
		l := n.kids[0]
		out = append(out, g.child(l, l.compound() || l.k == "not", false)...)
		out = append(out, c15sym("["))
		out = append(out, g.child(n.kids[1], false, false)...)
		out = append(out, c15sym("]"))
	case "key", "value", "bool":
		out = append(out, g.word(n.s))
	case "name":
		if n.q == '`' {
			out = append(out, c15lexeme{"`" + n.s + "`", 'q'})
		} else {
			out = append(out, g.word(n.s))
		}
	case "num":
		out = append(out, c15lexeme{n.s, 'w'})
	case "float":
		out = append(out, g.word(n.s))
	case "str":
		out = append(out, c15lexeme{string(n.q) + n.s + string(n.q), 'q'})
	}
	return out
}

// join: a blank is REQUIRED between two word/quoted lexemes, optional elsewhere
func (g *c15gen) join(ls []c15lexeme) string {
	var b strings.Builder
	for i, l := range ls {
		if i > 0 {
			p := ls[i-1]
			must := p.k != 's' && l.k != 's'
			n := 0
			if g.rspace {
				n = g.r.intn(3)
				if g.r.chance(1, 2) {
					n = 0
				}
			} else if !(p.t == "(" || l.t == ")" || l.t == "," || p.t == "!" || l.t == "[" || p.t == "[" || l.t == "]" || (l.t == "(" && p.k == 'w')) {
				n = 1
			}
			if must && n == 0 {
				n = 1
			}
			b.WriteString(strings.Repeat(" ", n))
		}
		b.WriteString(l.t)
	}
	return b.String()
}

// ------------------------------------------------------------------ untyped random trees

var c15Names = []string{"a", "b", "c", "f", "g", "x1", "upper", "len", "json", "n_2", "foo"}
var c15Strs = []string{"a", "k1", "x y", "", "and", "(", "a\"b", "it's", "`q`", "1", "%", "50%", "%%", "%s[%d]", "a\\b"}
var c15QNames = []string{"x", "A b", "select", "1", "UPPER", "a-b", "", "p100%", "%v"}

func (g *c15gen) atom() *c15gx {
	switch g.r.intn(9) {
	case 0:
		return &c15gx{k: "key", s: "key"}
	case 1:
		return &c15gx{k: "value", s: "value"}
	case 2, 3:
		s := pick(g.r, c15Strs)
		q := byte('\'')
		if strings.Contains(s, "'") || (g.r.chance(1, 3) && !strings.Contains(s, "\"")) {
			q = '"'
		}
		return &c15gx{k: "str", s: s, q: q}
	case 4:
		if g.r.chance(1, 8) {
			return &c15gx{k: "name", s: pick(g.r, c15QNames), q: '`'}
		}
		return &c15gx{k: "name", s: pick(g.r, c15Names)}
	case 5:
		return &c15gx{k: "num", s: pick(g.r, []string{"0", "1", "2", "42", "007"})}
	case 6:
		return &c15gx{k: "float", s: pick(g.r, []string{"1.5", "0.25", "2e3", ".5"})}
	case 7:
		return &c15gx{k: "bool", s: pick(g.r, []string{"true", "false"})}
	}
	return &c15gx{k: "name", s: pick(g.r, c15Names)}
}

// simple: operand that never starts with a parenthesis when written
func (g *c15gen) simple(d int) *c15gx {
	if d > 0 && g.r.chance(1, 3) {
		n := &c15gx{k: "call", kids: []*c15gx{{k: "name", s: pick(g.r, c15Names)}}}
		for i := g.r.intn(3); i > 0; i-- {
			n.kids = append(n.kids, g.expr(d-1))
		}
		return n
	}
	if d > 0 && g.r.chance(1, 6) {
		return &c15gx{k: "not", kids: []*c15gx{g.simple(d - 1)}}
	}
	return g.atom()
}

func (g *c15gen) expr(d int) *c15gx {
	if d <= 0 {
		return g.atom()
	}
	switch c := g.r.intn(20); {
	case c < 9:
		op := pick(g.r, c15BinOps)
		n := &c15gx{k: "bin", op: op, kids: []*c15gx{g.expr(d - 1), nil}}
		if op == "in" {
			n.kids[1] = g.simple(d - 1)
		} else {
			n.kids[1] = g.expr(d - 1)
		}
		return n
	case c < 10:
		return &c15gx{k: "between", kids: []*c15gx{g.expr(d - 1), g.expr(d - 1), g.expr(d - 1)}}
	case c < 11:
		n := &c15gx{k: "inlist", kids: []*c15gx{g.expr(d - 1)}}
		for i := g.r.intn(4); i > 0; i-- {
			n.kids = append(n.kids, g.expr(d-1))
		}
		return n
	case c < 12:
		return &c15gx{k: "inraw", kids: []*c15gx{g.expr(d - 1),
			{k: "bin", op: pick(g.r, []string{"+", "-", "*", "/"}), kids: []*c15gx{g.atom(), g.atom()}}}}
	case c < 14:
		return &c15gx{k: "not", kids: []*c15gx{g.expr(d - 1)}}
	case c < 16:
		h := &c15gx{k: "name", s: pick(g.r, c15Names)}
		if g.r.chance(1, 6) {
			h = g.expr(d - 1)
		}
		n := &c15gx{k: "call", kids: []*c15gx{h}}
		for i := g.r.intn(4); i > 0; i-- {
			n.kids = append(n.kids, g.expr(d-1))
		}
		return n
	case c < 18:
		l := g.simple(d - 1)
		if g.r.chance(1, 4) {
			l = g.expr(d - 1)
		}
		return &c15gx{k: "access", kids: []*c15gx{l, g.expr(d - 1)}}
	}
	return g.atom()
}

// ------------------------------------------------------------------ typed trees (accepted statements)

func c15lit(s string) *c15gx { return &c15gx{k: "str", s: s, q: '\''} }
func c15nm(s string) *c15gx  { return &c15gx{k: "name", s: s} }
func c15num(s string) *c15gx { return &c15gx{k: "num", s: s} }
func c15call(f string, a ...*c15gx) *c15gx {
	return &c15gx{k: "call", kids: append([]*c15gx{c15nm(f)}, a...)}
}
func c15bin(op string, l, r *c15gx) *c15gx { return &c15gx{k: "bin", op: op, kids: []*c15gx{l, r}} }

func (g *c15gen) tstr(d int) *c15gx {
	if al := g.aliases["s"]; len(al) > 0 && g.r.chance(1, 6) {
		return c15nm(pick(g.r, al))
	}
	if d <= 0 {
		switch g.r.intn(4) {
		case 0:
			return &c15gx{k: "key", s: "key"}
		case 1:
			return &c15gx{k: "value", s: "value"}
		}
		return c15lit(pick(g.r, []string{"a", "k1", "x y", "b\"c", "z"}))
	}
	switch g.r.intn(10) {
	case 0:
		return c15call("upper", g.tstr(d-1))
	case 1:
		return c15call("lower", g.tstr(d-1))
	case 2:
		return c15call("str", g.tnum(d-1))
	case 3:
		return c15call("substr", g.tstr(d-1), g.tnum(0), g.tnum(0))
	case 4:
		n := &c15gx{k: "access", kids: []*c15gx{c15call("json", &c15gx{k: "value", s: "value"}), c15lit("k")}}
		if g.r.chance(1, 2) {
			n = &c15gx{k: "access", kids: []*c15gx{n, pick(g.r, []*c15gx{c15lit("j"), c15num("1")})}}
		}
		return n
	case 5:
		return &c15gx{k: "access", kids: []*c15gx{c15call("split", g.tstr(d-1), c15lit(",")), c15num("0")}}
	case 6:
		return c15bin("+", g.tstr(d-1), g.tstr(d-1))
	case 7:
		return c15call("join", c15lit(","), g.tstr(d-1), g.tstr(d-1))
	}
	return g.tstr(0)
}

func (g *c15gen) tnum(d int) *c15gx {
	if al := g.aliases["n"]; len(al) > 0 && g.r.chance(1, 6) {
		return c15nm(pick(g.r, al))
	}
	if d <= 0 {
		if g.r.chance(1, 4) {
			return &c15gx{k: "float", s: pick(g.r, []string{"1.5", "0.25", "2e3"})}
		}
		return c15num(pick(g.r, []string{"1", "2", "10", "42"}))
	}
	switch g.r.intn(8) {
	case 0:
		return c15call("int", g.tstr(d-1))
	case 1:
		return c15call("float", g.tstr(d-1))
	case 2:
		return c15call("strlen", g.tstr(d-1))
	case 3:
		return c15call("len", c15call("split", g.tstr(d-1), c15lit(",")))
	case 4, 5, 6:
		return c15bin(pick(g.r, []string{"+", "-", "*", "/"}), g.tnum(d-1), g.tnum(d-1))
	}
	return g.tnum(0)
}

func (g *c15gen) tbool(d int) *c15gx {
	if al := g.aliases["b"]; len(al) > 0 && g.r.chance(1, 8) {
		return c15nm(pick(g.r, al))
	}
	if d <= 0 {
		return c15bin(pick(g.r, []string{"=", "!=", "^=", "~=", "<", ">=", ">", "<="}), g.tstr(0), g.tstr(0))
	}
	cmp := []string{"=", "!=", "<", ">=", ">", "<="}
	switch g.r.intn(12) {
	case 0:
		return c15bin(pick(g.r, append(cmp, "^=", "~=")), g.tstr(d-1), g.tstr(d-1))
	case 1:
		return c15bin(pick(g.r, cmp), g.tnum(d-1), g.tnum(d-1))
	case 2:
		n := &c15gx{k: "inlist", kids: []*c15gx{g.tstr(d - 1)}}
		for i := 1 + g.r.intn(3); i > 0; i-- {
			n.kids = append(n.kids, g.tstr(d-1))
		}
		return n
	case 3:
		n := &c15gx{k: "inlist", kids: []*c15gx{g.tnum(d - 1)}}
		for i := 1 + g.r.intn(3); i > 0; i-- {
			n.kids = append(n.kids, g.tnum(d-1))
		}
		return n
	case 4:
		return c15bin("in", g.tstr(d-1), c15call("split", g.tstr(d-1), c15lit(",")))
	case 5:
		return &c15gx{k: "between", kids: []*c15gx{g.tstr(d - 1), g.tstr(d - 1), g.tstr(d - 1)}}
	case 6:
		return &c15gx{k: "between", kids: []*c15gx{g.tnum(d - 1), g.tnum(d - 1), g.tnum(d - 1)}}
	case 7, 8, 9:
		return c15bin(pick(g.r, []string{"&", "|", "and", "or"}), g.tbool(d-1), g.tbool(d-1))
	case 10:
		return &c15gx{k: "not", kids: []*c15gx{g.tbool(d - 1)}}
	}
	return c15call(pick(g.r, []string{"is_int", "is_float"}), g.tstr(d-1))
}

// loophole: a Boolean-typed frame around an untyped operand, in the places where a checker
// that does not recurse would not look
func (g *c15gen) loophole() *c15gx {
	odd := func() *c15gx {
		switch g.r.intn(5) {
		case 0: // (!x)[0]
			return &c15gx{k: "access", kids: []*c15gx{{k: "not", kids: []*c15gx{g.simple(1)}}, pick(g.r, []*c15gx{c15num("0"), c15lit("k")})}}
		case 1: // x in a + b
			return &c15gx{k: "inraw", kids: []*c15gx{g.tstr(0), c15bin(pick(g.r, []string{"+", "-", "*"}), g.atom(), g.atom())}}
		case 2: // (!f)(x)
			return &c15gx{k: "call", kids: []*c15gx{{k: "not", kids: []*c15gx{c15nm("f")}}, g.atom()}}
		case 3:
			return g.expr(2)
		}
		return c15bin("in", g.tstr(0), g.simple(1))
	}
	o := odd()
	switch g.r.intn(8) {
	case 0:
		return &c15gx{k: "not", kids: []*c15gx{c15bin("=", o, c15lit("a"))}}
	case 1:
		return &c15gx{k: "not", kids: []*c15gx{o}}
	case 2:
		return &c15gx{k: "inlist", kids: []*c15gx{g.tstr(0), o}}
	case 3:
		return c15bin("=", &c15gx{k: "access", kids: []*c15gx{&c15gx{k: "access", kids: []*c15gx{c15call("json", &c15gx{k: "value", s: "value"}), c15lit("a")}}, o}}, c15lit("x"))
	case 4:
		return c15bin("=", &c15gx{k: "access", kids: []*c15gx{&c15gx{k: "access", kids: []*c15gx{o, c15num("0")}}, c15num("1")}}, c15lit("x"))
	case 5:
		return c15bin("=", c15call("upper", o), c15lit("x"))
	case 6:
		return c15bin("&", g.tbool(1), &c15gx{k: "not", kids: []*c15gx{c15bin("!=", c15lit("x"), o)}})
	}
	return &c15gx{k: "between", kids: []*c15gx{g.tstr(0), o, c15lit("z")}}
}

// ------------------------------------------------------------------ running the implementation

type c15Replay struct {
	Kind     string `json:"kind"`
	Query    string `json:"query"`
	Expected string `json:"expected_tree,omitempty"`
	Parsed   string `json:"parsed_tree,omitempty"`
	Rendered string `json:"rendered,omitempty"`
	Reparsed string `json:"reparsed_tree,omitempty"`
	Err      string `json:"error,omitempty"`
	Style    string `json:"style,omitempty"`
	Note     string `json:"note,omitempty"`
}

type c15Parse struct {
	tree   kvql.Expression
	fields []kvql.Expression
	errPos int // valid when isErr
	isErr  bool
	other  string // panic or non-syntax error
	errTxt string
	accept bool // statement accepted (no error at all)
}

func c15ParseQuery(q string) (res c15Parse) {
	defer func() {
		if r := recover(); r != nil {
			res = c15Parse{other: "panic: " + fmt.Sprint(r)}
		}
	}()
	st, err := kvql.NewParser(q).Parse()
	if err != nil {
		res.errTxt = err.Error()
	}
	switch s := st.(type) {
	case *kvql.DeleteStmt:
		if s != nil && s.Where != nil && s.Where.Expr != nil {
			res.tree = s.Where.Expr
		}
	case *kvql.SelectStmt:
		if s != nil && s.Where != nil && s.Where.Expr != nil {
			res.tree = s.Where.Expr
			if !s.AllFields {
				res.fields = s.Fields
			}
		}
	}
	res.accept = err == nil && res.tree != nil
	if res.tree == nil {
		var se *kvql.SyntaxError
		if errors.As(err, &se) {
			res.isErr, res.errPos = true, se.Pos
		} else {
			res.other = "no tree, error: " + fmt.Sprint(err)
		}
	}
	return
}

func c15coqObs(p c15Parse) (string, bool) {
	if p.tree != nil {
		t, ok := coqExpr(p.tree)
		return "(OTree " + t + ")", ok
	}
	if p.isErr {
		if p.errPos < 0 {
			return "(OErr None)", true
		}
		return fmt.Sprintf("(OErr (Some %d))", p.errPos), true
	}
	return "ONone", true
}

// plainName: re-lexing the bare text gives back this one NAME token
func c15plainName(s string) bool {
	ts := kvql.NewLexer(s).Split()
	return len(ts) == 1 && ts[0].Tp == kvql.NAME && ts[0].Data == s
}

// lexSafe: no string literal contains the quote its rendering uses, no name needs quoting
func c15lexSafe(e kvql.Expression) bool {
	ok := true
	var walk func(e kvql.Expression)
	walk = func(e kvql.Expression) {
		switch x := e.(type) {
		case *kvql.BinaryOpExpr:
			walk(x.Left)
			walk(x.Right)
		case *kvql.ListExpr:
			for _, k := range x.List {
				walk(k)
			}
		case *kvql.NotExpr:
			walk(x.Right)
		case *kvql.FunctionCallExpr:
			walk(x.Name)
			for _, k := range x.Args {
				walk(k)
			}
		case *kvql.FieldAccessExpr:
			walk(x.Left)
			walk(x.FieldName)
		case *kvql.StringExpr:
			if strings.Contains(x.Data, "'") {
				ok = false
			}
		case *kvql.NameExpr:
			// (fixed) NameExpr.String() prints such names in backticks; a name that itself
			// contains a backtick cannot be written at all
			if strings.Contains(x.Data, "`") {
				ok = false
			}
		case *kvql.FieldReferenceExpr:
			if strings.Contains(x.Name.Data, "`") {
				ok = false
			}
		}
	}
	walk(e)
	return ok
}

type c15 struct {
	e *emitter
	c *runCtx
}

var c15Styles = []string{"minimal", "random", "full"}

// emit runs one query through the implementation and records the case.
//
//	kind 0/2: q is "delete where ..." ; kind 1: any statement, recorded only when accepted.
func (h *c15) emit(kind int, q string, exp *c15gx, style string, note string) {
	e := h.e
	p := c15ParseQuery(q)
	kname := []string{"raw", "accepted", "flat", "prec"}[kind]
	rp := c15Replay{Kind: kname, Query: q, Style: style, Note: note, Err: p.errTxt}
	if exp != nil {
		rp.Expected = exp.shape()
	}
	if p.other != "" {
		if strings.HasPrefix(p.other, "panic") {
			idx := e.add(fmt.Sprintf("Case %d true [] ONone \"\" [] ONone []", kind), rp, false)
			rp.Err = p.other
			e.fail(idx, "the parser panicked: "+p.other, "C15/panic", rp)
			return
		}
		e.m.OutOfModel++
		e.count("out_of_model:" + kname)
		return
	}
	if kind == 1 && !p.accept {
		e.count("typed_statement_rejected")
		return
	}
	toks := kvql.NewLexer(q).Split()
	if kind == 1 {
		for i, t := range toks {
			if t.Tp == kvql.WHERE {
				toks = toks[i:]
				break
			}
		}
	}
	obs, ok := c15coqObs(p)
	if !ok {
		e.m.OutOfModel++
		e.count("out_of_model:tree")
		return
	}
	text, rtoks, reobs := "", []*kvql.Token{}, "ONone"
	safe := true
	var rep c15Parse
	if p.tree != nil {
		text = p.tree.String()
		rtoks = kvql.NewLexer(text).Split()
		rep = c15ParseQuery("delete where " + text)
		reobs, ok = c15coqObs(rep)
		if !ok || rep.other != "" {
			reobs = "ONone"
		}
		safe = c15lexSafe(p.tree)
		rp.Parsed = c15shapeOf(p.tree)
		rp.Rendered = text
		if rep.tree != nil {
			rp.Reparsed = c15shapeOf(rep.tree)
		} else {
			rp.Reparsed = "error: " + rep.errTxt + rep.other
		}
	}
	term := fmt.Sprintf("Case %d %s %s %s %s %s %s []", kind, coqBool(safe), coqTokens(toks), obs,
		coqStr(text), coqTokens(rtoks), reobs)
	nontrivial := p.tree != nil && exp != nil && exp.nops() > 0
	if exp == nil {
		nontrivial = true
	}
	idx := e.add(term, rp, nontrivial)
	// measured distribution
	e.count("kind=" + kname)
	if style != "" {
		e.count("style=" + style)
	}
	if p.tree != nil {
		e.count("outcome=tree")
	} else if p.errPos < 0 {
		e.count("outcome=error_at_eof")
	} else {
		e.count("outcome=error_at_token")
	}
	if !safe {
		e.count("literal_containing_its_quote_character(excluded_from_roundtrip)")
	}
	if exp != nil {
		n := exp.nops()
		switch {
		case n == 0:
			e.count("operators=0")
		case n <= 2:
			e.count("operators=1-2")
		case n <= 5:
			e.count("operators=3-5")
		case n <= 10:
			e.count("operators=6-10")
		default:
			e.count("operators>10")
		}
		e.count(fmt.Sprintf("depth=%d", min(exp.depth(), 7)))
	}
	// direct verdicts on the implementation
	if exp != nil && (p.tree == nil || c15shapeOf(p.tree) != exp.shape()) {
		e.fail(idx, "the parse is not the tree the documented precedence prescribes: "+q, "C15/precedence", rp)
		return
	}
	if kind == 1 && safe {
		if rep.tree == nil || c15shapeOf(rep.tree) != c15shapeOf(p.tree) {
			e.fail(idx, "the rendering of an accepted statement's filter does not re-parse to the same tree: "+text, "C15/roundtrip", rp)
			return
		}
		for _, f := range p.fields {
			ft := f.String()
			fr := c15ParseQuery("delete where " + ft)
			e.count("select_field_roundtrips")
			if c15lexSafe(f) && (fr.tree == nil || c15shapeOf(fr.tree) != c15shapeOf(f)) {
				rp2 := rp
				rp2.Rendered, rp2.Parsed = ft, c15shapeOf(f)
				e.fail(idx, "the rendering of an accepted statement's field does not re-parse to the same tree: "+ft, "C15/roundtrip", rp2)
				return
			}
		}
	}
}

// ------------------------------------------------------------------ flat sequences

// reference: split at the last operator of minimal binding strength
func c15climbRef(atoms []string, ops []string) string {
	if len(ops) == 0 {
		return atoms[0]
	}
	best := 0
	for i, o := range ops {
		if c15Prec[o] <= c15Prec[ops[best]] {
			best = i
		}
	}
	return "(" + ops[best] + " " + c15climbRef(atoms[:best+1], ops[:best]) + " " + c15climbRef(atoms[best+1:], ops[best+1:]) + ")"
}

var c15FlatOps = []string{"|", "or", "&", "and", "=", "in", "+", "-", "*", "/"}
var c15FlatOps7 = []string{"|", "and", "=", "in", "+", "-", "*"}
var c15FlatAtoms = [][2]string{{"a", "n:a"}, {"key", "KEY"}, {"'s'", "s:s"}, {"1", "i:1"}, {"b", "n:b"}, {"2.5", "f:2.5"}, {"value", "VALUE"}, {"true", "b:true"}, {"c", "n:c"}}

func (h *c15) flat(ops []string, rot int) {
	atoms := make([]string, len(ops)+1)
	shapes := make([]string, len(ops)+1)
	for i := range atoms {
		a := c15FlatAtoms[(i+rot)%len(c15FlatAtoms)]
		atoms[i], shapes[i] = a[0], a[1]
	}
	var b strings.Builder
	b.WriteString("delete where " + atoms[0])
	for i, o := range ops {
		b.WriteString(" " + o + " " + atoms[i+1])
	}
	q := b.String()
	want := c15climbRef(shapes, ops)
	p := c15ParseQuery(q)
	e := h.e
	rp := c15Replay{Kind: "flat", Query: q, Expected: want, Err: p.errTxt + p.other}
	obs, ok := c15coqObs(p)
	if !ok {
		obs = "ONone"
	}
	text, rtoks, reobs, safe := "", []*kvql.Token{}, "ONone", true
	if p.tree != nil {
		text = p.tree.String()
		rp.Parsed, rp.Rendered = c15shapeOf(p.tree), text
		if len(ops) <= 2 {
			rtoks = kvql.NewLexer(text).Split()
			rep := c15ParseQuery("delete where " + text)
			if ro, ok := c15coqObs(rep); ok && rep.other == "" {
				reobs = ro
			}
		} else {
			// longer sequences: the round trip of such trees is exercised by the raw stream;
			// here only the parse, the precedence verdict and the rendering are compared
			safe = false
		}
	}
	term := fmt.Sprintf("Case 2 %s %s %s %s %s %s []", coqBool(safe), coqTokens(kvql.NewLexer(q).Split()), obs,
		coqStr(text), coqTokens(rtoks), reobs)
	idx := e.add(term, rp, len(ops) > 1)
	e.count("kind=flat")
	e.count(fmt.Sprintf("flat_len=%d", len(ops)))
	if p.tree == nil || c15shapeOf(p.tree) != want {
		e.fail(idx, "flat operator sequence is not split at the last weakest operator: "+q, "C15/flat-precedence", rp)
	}
}

// flatAll: every sequence over ops of length lo..hi, shortest first (so that the first failing
// case is a smallest one)
func (h *c15) flatAll(ops []string, lo, hi int) {
	n := 0
	for l := lo; l <= hi; l++ {
		idx := make([]int, l)
		for {
			seq := make([]string, l)
			for i, j := range idx {
				seq[i] = ops[j]
			}
			h.flat(seq, n)
			n++
			i := l - 1
			for ; i >= 0; i-- {
				idx[i]++
				if idx[i] < len(ops) {
					break
				}
				idx[i] = 0
			}
			if i < 0 {
				break
			}
		}
	}
}

// ------------------------------------------------------------------ precedence table

func (h *c15) precTable() {
	var toks []*kvql.Token
	datas := []string{"|", "or", "&", "and", "=", "!=", "^=", "~=", ">", ">=", "<", "<=", "in", "between",
		"+", "-", "*", "/", "!", "AND", "OR", "IN", "", "==", "<>", "||", "&&", "^", "~", "%", "not", "like", "(", ")", "[", ",", "key"}
	for i, d := range datas {
		toks = append(toks, &kvql.Token{Tp: kvql.OPERATOR, Data: d, Pos: i})
	}
	others := []kvql.TokenType{kvql.SELECT, kvql.WHERE, kvql.KEY, kvql.VALUE, kvql.STRING, kvql.LPAREN, kvql.RPAREN,
		kvql.NAME, kvql.SEP, kvql.NUMBER, kvql.FLOAT, kvql.LIMIT, kvql.ORDER, kvql.BY, kvql.ASC, kvql.DESC, kvql.TRUE,
		kvql.FALSE, kvql.AS, kvql.GROUP, kvql.IN, kvql.BETWEEN, kvql.AND, kvql.LBRACK, kvql.RBRACK, kvql.PUT,
		kvql.REMOVE, kvql.SEMI, kvql.OR, kvql.DELETE}
	for _, tp := range others {
		for _, d := range []string{"+", "and", "in", "or", "*", "="} {
			toks = append(toks, &kvql.Token{Tp: tp, Data: d, Pos: 0})
		}
	}
	precs := make([]int, len(toks))
	bad := ""
	for i, t := range toks {
		precs[i] = t.Precedence()
		want := 0
		if t.Tp == kvql.OPERATOR {
			want = c15Prec[t.Data]
		}
		if precs[i] != want && bad == "" {
			bad = fmt.Sprintf("Token{%v,%q}.Precedence() = %d, documented %d", t.Tp, t.Data, precs[i], want)
		}
	}
	rp := c15Replay{Kind: "prec", Query: "Token.Precedence() of every operator spelling and of look-alike tokens", Note: fmt.Sprint(precs)}
	term := fmt.Sprintf("Case 3 true %s ONone \"\" [] ONone %s", coqTokens(toks), coqNatList(precs))
	idx := h.e.add(term, rp, true)
	h.e.count("kind=prec")
	if bad != "" {
		h.e.fail(idx, "precedence table differs from the documented one: "+bad, "C15/prec-table", rp)
	}
}

// ------------------------------------------------------------------ corruption of valid texts

var c15Junk = []c15lexeme{c15sym(")"), c15sym("("), c15sym(","), c15sym("]"), c15sym("["), {"and", 'w'}, c15sym("!"), {"in", 'w'},
	{"between", 'w'}, c15sym("+"), {"key", 'w'}, {"1", 'w'}, {"as", 'w'}, {"by", 'w'}, {"select", 'w'}, {"asc", 'w'},
	{"'s'", 'q'}, c15sym("="), c15sym("*"), {"or", 'w'}, {"where", 'w'}}

func (g *c15gen) corrupt(ls []c15lexeme) []c15lexeme {
	out := append([]c15lexeme{}, ls...)
	if len(out) == 0 {
		return out
	}
	i := g.r.intn(len(out))
	switch g.r.intn(5) {
	case 0: // delete
		out = append(out[:i], out[i+1:]...)
	case 1: // duplicate
		out = append(out[:i+1], out[i:]...)
	case 2: // swap
		if i+1 < len(out) {
			out[i], out[i+1] = out[i+1], out[i]
		}
	case 3: // insert
		out = append(out[:i], append([]c15lexeme{pick(g.r, c15Junk)}, out[i:]...)...)
	case 4: // truncate
		out = out[:i]
	}
	return out
}

// ------------------------------------------------------------------ driver

func runC15(c *runCtx) error {
	// newRng(n) and newRng(n+1) produce the same stream shifted by one draw; seeding through one
	// mixed draw decorrelates consecutive seeds
	r := newRng(newRng(c.seed).next())
	e := newEmitter(c.out, "C15", "From Coq Require Import List String.\nFrom KV Require Import Base.Bytes Model.Token Model.Ast Model.ExprParser Model.ScanIO Corr.C15Text Corr.C15.\nImport ListNotations.\nOpen Scope string_scope.\n", 300)
	e.m.Rule = "one case = one query text run through Lexer.Split and Parser.Parse, its rendering, the rendering's tokens and its re-parse; flat: every operator sequence over 10 spellings up to the length bound; raw: random untyped trees (depth<=4) written with minimal/random/full parentheses, random case and spacing, and single-edit corruptions; accepted: typed statements the library accepts; stmt: whole statements of every kind (SELECT lists / AS / *, WHERE-only, ORDER BY / GROUP BY / LIMIT tails, PUT, REMOVE, DELETE, trailing semicolons) from a typed and an untyped grammar plus single-edit corruptions, accept / reject, error offset and the accepted statement tree compared with Model/StmtParser.v; non-trivial = at least one operator (flat: at least two); distinct = distinct Gallina case terms"
	h := &c15{e: e, c: c}
	h.precTable()

	flatLen, nRaw, nBad, nTyped, nLoop := 4, 2000, 1000, 1200, 600
	if c.thorough() {
		flatLen, nRaw, nBad, nTyped, nLoop = 5, 12000, 6000, 6000, 5000
	}
	if c.search {
		nRaw, nBad, nTyped, nLoop = nRaw*6, nBad*4, nTyped*6, nLoop*8
	}
	if c.thorough() {
		h.flatAll(c15FlatOps, 1, flatLen)
	} else {
		// quick: all sequences up to length 3 over the 10 spellings, length 4 over 7 of them
		h.flatAll(c15FlatOps, 1, 3)
		h.flatAll(c15FlatOps7, 4, 4)
	}

	// long flat sequences: runs of ONE operator (what a left-associative parser nests to the left,
	// however long the run is), runs with one other operator set into them, random long mixtures
	longLens := []int{6, 7, 8, 9, 12, 16, 20, 33, 64, 130}
	if !c.thorough() {
		longLens = []int{7, 8, 9, 16, 33, 130}
	}
	for oi, op := range c15FlatOps {
		for li, n := range longLens {
			seq := make([]string, n)
			for i := range seq {
				seq[i] = op
			}
			h.flat(seq, oi+li)
			if n <= 33 {
				other := c15FlatOps[(oi+3+li)%len(c15FlatOps)]
				seq2 := append([]string{}, seq...)
				seq2[r.intn(n)] = other
				h.flat(seq2, oi+li+1)
			}
		}
	}
	for i := 0; i < 40; i++ {
		n := 6 + r.intn(19)
		seq := make([]string, n)
		for j := range seq {
			seq[j] = c15FlatOps[r.intn(len(c15FlatOps))]
		}
		h.flat(seq, i)
	}

	g := &c15gen{r: r}
	// raw trees
	for i := 0; i < nRaw; i++ {
		g.style, g.rcase, g.rspace = i%3, r.chance(1, 2), r.chance(1, 2)
		t := g.expr(1 + i*4/nRaw) // small trees first: the first failing case is a small one
		q := "delete where " + g.join(g.child(t, false, false))
		h.emit(0, q, t, c15Styles[g.style], "")
	}
	// pairs of texts that differ ONLY in the letter case inside quoted literals / back-quoted
	// names, lexed and parsed one right after the other (what is parsed depends on the text
	// alone, not on a text seen before that looks the same up to case)
	{
		var flip func(n *c15gx) (*c15gx, bool)
		flip = func(n *c15gx) (*c15gx, bool) {
			c := *n
			changed := false
			if (n.k == "str" || (n.k == "name" && n.q == '`')) && strings.ToUpper(n.s) != strings.ToLower(n.s) {
				c.s = strings.Map(func(r rune) rune {
					switch {
					case r >= 'a' && r <= 'z':
						return r - 32
					case r >= 'A' && r <= 'Z':
						return r + 32
					}
					return r
				}, n.s)
				changed = true
			}
			c.kids = make([]*c15gx, len(n.kids))
			for i, k := range n.kids {
				kk, ch := flip(k)
				c.kids[i] = kk
				changed = changed || ch
			}
			return &c, changed
		}
		nPairs := 150
		if c.thorough() {
			nPairs = 1500
		}
		for i, made := 0, 0; made < nPairs && i < nPairs*20; i++ {
			g.style, g.rcase, g.rspace = i%3, false, false
			t := g.expr(1 + r.intn(3))
			t2, changed := flip(t)
			if !changed {
				continue
			}
			made++
			pref := pick(r, []string{"delete where ", "DELETE WHERE ", "delete where "})
			h.emit(0, pref+g.join(g.child(t, false, false)), t, c15Styles[g.style], "case pair, first")
			h.emit(0, pref+g.join(g.child(t2, false, false)), t2, c15Styles[g.style], "case pair, second: the same text up to the case inside quotes")
		}
	}
	// corrupted texts: twin against implementation on error paths and odd separators
	for i := 0; i < nBad; i++ {
		g.style, g.rcase, g.rspace = i%3, false, r.chance(1, 3)
		t := g.expr(1 + r.intn(3))
		ls := g.corrupt(g.child(t, false, false))
		if r.chance(1, 4) {
			ls = g.corrupt(ls)
		}
		pref := "delete where "
		if r.chance(1, 25) {
			pref = pick(r, []string{"delete ", "", "delete where where ", "key ", "delete key where "})
		}
		h.emit(0, pref+g.join(ls), nil, "", "corrupted")
	}
	// accepted statements
	for i := 0; i < nTyped; i++ {
		g.style, g.rcase, g.rspace = i%3, r.chance(1, 3), r.chance(1, 3)
		g.aliases = nil
		q := ""
		if r.chance(1, 3) {
			// select list with aliases that the filter may use (fields do not use aliases)
			al := map[string][]string{}
			var fs []string
			for j, k := 0, 1+r.intn(3); j < k; j++ {
				ty := pick(r, []string{"s", "n", "b"})
				var f *c15gx
				switch ty {
				case "s":
					f = g.tstr(1 + r.intn(2))
				case "n":
					f = g.tnum(1 + r.intn(2))
				default:
					f = g.tbool(1)
				}
				txt := g.join(g.child(f, false, false))
				if r.chance(2, 3) {
					if r.chance(1, 5) {
						txt += " as " + pick(r, []string{"`my f`", "`select`", "`A`"})
					} else {
						name := fmt.Sprintf("%s%d", ty, j)
						txt += " as " + name
						al[ty] = append(al[ty], name)
					}
				}
				fs = append(fs, txt)
			}
			g.aliases = al
			t := g.tbool(1 + r.intn(3))
			q = "select " + strings.Join(fs, ", ") + " where " + g.join(g.child(t, false, false))
			h.emit(1, q, nil, c15Styles[g.style], "typed select")
			continue
		}
		t := g.tbool(1 + i*4/nTyped)
		q = pick(r, []string{"where ", "select * where ", "WHERE "}) + g.join(g.child(t, false, false))
		h.emit(1, q, t, c15Styles[g.style], "typed")
	}
	g.aliases = nil
	for i := 0; i < nLoop; i++ {
		g.style, g.rcase, g.rspace = i%3, false, false
		t := g.loophole()
		q := "where " + g.join(g.child(t, false, false))
		h.emit(1, q, t, c15Styles[g.style], "untyped operand inside a typed frame")
	}
	c15StmtStream(h)
	c15TextStream(h)
	e.m.Exhaustive = true
	if c.thorough() {
		e.m.Notes = append(e.m.Notes, fmt.Sprintf("flat operator sequences exhaustive up to length %d over %v", flatLen, c15FlatOps))
	} else {
		e.m.Notes = append(e.m.Notes, fmt.Sprintf("flat operator sequences exhaustive up to length 3 over %v and of length 4 over %v", c15FlatOps, c15FlatOps7))
	}
	return e.flush()
}

// ------------------------------------------------------------------ whole statements (kind 4)
//
// Statement-level parser twin (Model/StmtParser.v) against Parser.Parse: SELECT with field
// lists / AS / `*`, WHERE-only, ORDER BY / GROUP BY / LIMIT tails, PUT, REMOVE, DELETE, trailing
// semicolons; valid statements from a grammar (typed, so that many are accepted and the whole
// statement tree is compared), untyped ones (the parser is observed, the checker refuses), and
// single-edit corruptions.  Compared: accept / reject, the error offset, and for accepted
// statements the tree (fields, AS names, where, order names + directions, group-by names,
// limit start / count, put pairs, remove keys, every Pos).

type w1Replay struct {
	Kind    string `json:"kind"`
	Query   string `json:"query"`
	Outcome string `json:"outcome"`
	ErrPos  int    `json:"error_pos,omitempty"`
	Err     string `json:"error,omitempty"`
	Note    string `json:"note,omitempty"`
}

func w1w(s string) c15lexeme { return c15lexeme{s, 'w'} }

func w1coqLimit(l *kvql.LimitStmt) string {
	if l == nil {
		return "None"
	}
	return fmt.Sprintf("(Some (GLimit %d %s %s))", natPos(l.Pos), coqStr(fmt.Sprint(l.Start)), coqStr(fmt.Sprint(l.Count)))
}

func w1coqExprs(xs []kvql.Expression) (string, bool) {
	p := make([]string, len(xs))
	ok := true
	for i, x := range xs {
		var o bool
		p[i], o = coqExpr(x)
		ok = ok && o
	}
	return coqList(p), ok
}

// w1coqStmt prints an accepted statement as a Corr/C15.gostmt term.
func w1coqStmt(st kvql.Statement) (string, bool) {
	switch s := st.(type) {
	case *kvql.SelectStmt:
		if s == nil || s.Where == nil || s.Where.Expr == nil {
			return "", false
		}
		fs, ok := w1coqExprs(s.Fields)
		w, ok2 := coqExpr(s.Where.Expr)
		order := "None"
		if s.Order != nil {
			it := make([]string, len(s.Order.Orders))
			for i, o := range s.Order.Orders {
				it[i] = fmt.Sprintf("(%s, %s)", coqStr(o.Name), coqBool(o.Order == kvql.DESC))
			}
			order = fmt.Sprintf("(Some (%d, %s))", natPos(s.Order.Pos), coqList(it))
		}
		group := "None"
		if s.GroupBy != nil {
			it := make([]string, len(s.GroupBy.Fields))
			for i, f := range s.GroupBy.Fields {
				it[i] = coqStr(f.Name)
			}
			group = fmt.Sprintf("(Some (%d, %s))", natPos(s.GroupBy.Pos), coqList(it))
		}
		return fmt.Sprintf("(GSelect %d %s %s %s %d %s %s %s %s)", natPos(s.Pos), coqBool(s.AllFields), fs,
			coqStrList(s.FieldNames), natPos(s.Where.Pos), w, order, group, w1coqLimit(s.Limit)), ok && ok2
	case *kvql.PutStmt:
		if s == nil {
			return "", false
		}
		ps := make([]string, len(s.KVPairs))
		ok := true
		for i, kv := range s.KVPairs {
			k, ok1 := coqExpr(kv.Key)
			v, ok2 := coqExpr(kv.Value)
			ps[i] = "(" + k + ", " + v + ")"
			ok = ok && ok1 && ok2
		}
		return fmt.Sprintf("(GPut %d %s)", natPos(s.Pos), coqList(ps)), ok
	case *kvql.RemoveStmt:
		if s == nil {
			return "", false
		}
		ks, ok := w1coqExprs(s.Keys)
		return fmt.Sprintf("(GRemove %d %s)", natPos(s.Pos), ks), ok
	case *kvql.DeleteStmt:
		if s == nil || s.Where == nil || s.Where.Expr == nil {
			return "", false
		}
		w, ok := coqExpr(s.Where.Expr)
		return fmt.Sprintf("(GDelete %d %d %s %s)", natPos(s.Pos), natPos(s.Where.Pos), w, w1coqLimit(s.Limit)), ok
	}
	return "", false
}

type w1Out struct {
	st    kvql.Statement
	err   error
	panic string
}

func w1Parse(q string) (res w1Out) {
	defer func() {
		if r := recover(); r != nil {
			res = w1Out{panic: fmt.Sprint(r)}
		}
	}()
	st, err := kvql.NewParser(q).Parse()
	return w1Out{st: st, err: err}
}

func (h *c15) w1Emit(q string, kind string, note string) {
	e := h.e
	out := w1Parse(q)
	rp := w1Replay{Kind: "stmt:" + kind, Query: q, Note: note}
	toks := kvql.NewLexer(q).Split()
	if out.panic != "" {
		rp.Outcome, rp.Err = "panic", out.panic
		idx := e.add(fmt.Sprintf("Case 4 true %s ONone \"\" [] ONone []", coqTokens(toks)), rp, false)
		e.fail(idx, "the parser panicked: "+out.panic, "C15/panic", rp)
		return
	}
	obs := ""
	if out.err == nil {
		t, ok := w1coqStmt(out.st)
		if !ok {
			e.m.OutOfModel++
			e.count("out_of_model:stmt-tree")
			return
		}
		obs = "(OStmt " + t + ")"
		rp.Outcome = "accepted"
	} else {
		rp.Err = out.err.Error()
		pos := errPos(out.err)
		switch {
		case pos == -1:
			obs = "(OErr None)"
			rp.Outcome = "rejected_at_eof"
		case pos >= 0:
			obs = fmt.Sprintf("(OErr (Some %d))", pos)
			rp.Outcome = "rejected_at_offset"
		default:
			// an error without a position (none is known on these inputs)
			e.m.OutOfModel++
			e.count("out_of_model:stmt-error-without-position")
			return
		}
		rp.ErrPos = pos
	}
	e.add(fmt.Sprintf("Case 4 true %s %s \"\" [] ONone []", coqTokens(toks), obs), rp, true)
	e.count("kind=stmt")
	e.count("stmt=" + kind)
	e.count("stmt_outcome=" + rp.Outcome)
	if note != "" {
		e.count("stmt_" + note)
	}
}

// ---- statement grammar

type w1gen struct {
	g *c15gen
	r *rng
}

// expression of a type ("s", "n", "b") or untyped ("u"), as lexemes
func (w *w1gen) ex(ty string, d int) []c15lexeme {
	g := w.g
	var t *c15gx
	switch ty {
	case "s":
		t = g.tstr(d)
	case "n":
		t = g.tnum(d)
	case "b":
		t = g.tbool(d)
	default:
		t = g.expr(d)
	}
	return g.child(t, false, false)
}

// constant expressions for PUT / REMOVE (no key / value keyword)
func (w *w1gen) konst(d int) *c15gx {
	r := w.r
	if d <= 0 {
		if r.chance(1, 4) {
			return c15num(pick(r, []string{"1", "2", "42"}))
		}
		return c15lit(pick(r, []string{"a", "k1", "x y", "z", ""}))
	}
	switch r.intn(5) {
	case 0:
		return c15call("upper", w.konst(d-1))
	case 1:
		return c15bin("+", c15lit(pick(r, []string{"p", "q"})), w.konst(d-1))
	case 2:
		return c15call("str", c15num(pick(r, []string{"1", "7"})))
	case 3:
		return c15bin(pick(r, []string{"+", "*", "-"}), c15num("2"), c15num(pick(r, []string{"3", "10"})))
	}
	return w.konst(0)
}

func (w *w1gen) limit() []c15lexeme {
	r := w.r
	n := []string{"0", "1", "5", "10", "007", "100", "9223372036854775807", "9223372036854775808", "99999999999999999999"}
	out := []c15lexeme{w.g.word("limit")}
	switch r.intn(12) {
	case 0, 1, 2, 3, 4:
		out = append(out, w1w(pick(r, n)))
	case 5, 6, 7, 8:
		out = append(out, w1w(pick(r, n)), c15sym(","), w1w(pick(r, n)))
	case 9:
		out = append(out, w1w(pick(r, n)), w1w(pick(r, n))) // no separator: still two numbers
	case 10:
		out = append(out, c15sym(","), w1w(pick(r, n)))
	default:
		out = append(out, w1w(pick(r, n)), c15sym(","), w1w(pick(r, n)), c15sym(","), w1w(pick(r, n)))
	}
	return out
}

func w1commaJoin(items [][]c15lexeme) []c15lexeme {
	var out []c15lexeme
	for i, it := range items {
		if i > 0 {
			out = append(out, c15sym(","))
		}
		out = append(out, it...)
	}
	return out
}

// selectStmt: typed = fields / filter / tails well typed (most are accepted)
func (w *w1gen) selectStmt(typed bool) ([]c15lexeme, string) {
	g, r := w.g, w.r
	g.aliases = nil
	var out []c15lexeme
	al := map[string][]string{}
	type fld struct {
		lex   []c15lexeme
		alias string
		ty    string
	}
	var flds []fld
	star := false
	grouped := false
	form := r.intn(10)
	switch {
	case form == 0: // starts at WHERE
	case form <= 2:
		star = true
		out = append(out, g.word("select"), c15sym("*"))
	case form <= 4 && typed:
		// aggregate query: group keys + aggregates
		grouped = true
		out = append(out, g.word("select"))
		var items [][]c15lexeme
		for j, k := 0, 1+r.intn(2); j < k; j++ {
			f := fld{lex: w.ex("s", r.intn(2)), ty: "s"}
			it := append([]c15lexeme{}, f.lex...)
			if r.chance(2, 3) {
				f.alias = fmt.Sprintf("g%d", j)
				it = append(it, g.word("as"), w1w(f.alias))
			}
			flds = append(flds, f)
			items = append(items, it)
		}
		for j, k := 0, 1+r.intn(2); j < k; j++ {
			var a *c15gx
			switch r.intn(4) {
			case 0:
				a = c15call("count", c15num("1"))
			case 1:
				a = c15call("sum", c15call("int", &c15gx{k: "value", s: "value"}))
			case 2:
				a = c15call("max", &c15gx{k: "key", s: "key"})
			default:
				a = c15call("avg", c15call("strlen", &c15gx{k: "value", s: "value"}))
			}
			f := fld{lex: g.child(a, false, false), ty: "a"}
			it := append([]c15lexeme{}, f.lex...)
			if r.chance(1, 2) {
				f.alias = fmt.Sprintf("a%d", j)
				it = append(it, g.word("as"), w1w(f.alias))
			}
			flds = append(flds, f)
			items = append(items, it)
		}
		out = append(out, w1commaJoin(items)...)
	default:
		out = append(out, g.word("select"))
		var items [][]c15lexeme
		for j, k := 0, 1+r.intn(3); j < k; j++ {
			ty := pick(r, []string{"s", "s", "n", "b"})
			if !typed && r.chance(1, 2) {
				ty = "u"
			}
			f := fld{lex: w.ex(ty, r.intn(3)), ty: ty}
			it := append([]c15lexeme{}, f.lex...)
			if r.chance(1, 2) {
				if r.chance(1, 6) {
					q := pick(r, []string{"my f", "select", "A", "1"})
					f.alias = q
					it = append(it, g.word("as"), c15lexeme{"`" + q + "`", 'q'})
				} else {
					f.alias = fmt.Sprintf("%s%d", ty, j)
					it = append(it, g.word("as"), w1w(f.alias))
					al[ty] = append(al[ty], f.alias)
				}
			}
			flds = append(flds, f)
			items = append(items, it)
		}
		out = append(out, w1commaJoin(items)...)
		if r.chance(1, 12) {
			out = append(out, c15sym(",")) // trailing comma is tolerated
		}
	}
	// filter
	out = append(out, g.word("where"))
	if !grouped {
		g.aliases = al
	}
	if typed {
		out = append(out, w.ex("b", 1+r.intn(2))...)
	} else {
		out = append(out, w.ex("u", 1+r.intn(3))...)
	}
	g.aliases = nil
	// tails
	ref := func(f fld) []c15lexeme {
		if f.alias != "" && !strings.ContainsAny(f.alias, " ") && f.alias != "select" && f.alias != "A" && f.alias != "1" && r.chance(3, 4) {
			return []c15lexeme{w1w(f.alias)}
		}
		if f.alias != "" {
			return []c15lexeme{{"`" + f.alias + "`", 'q'}}
		}
		return f.lex // the field expression itself: its String() is the field's name
	}
	var tails [][]c15lexeme
	if grouped || (!typed && r.chance(1, 4)) {
		var items [][]c15lexeme
		for _, f := range flds {
			if f.ty != "a" && (r.chance(5, 6) || len(items) == 0) {
				it := ref(f)
				if r.chance(1, 10) { // a direction belongs to ORDER BY only: refused
					it = append(append([]c15lexeme{}, it...), g.word(pick(r, []string{"asc", "desc"})))
				}
				items = append(items, it)
			}
		}
		if len(items) == 0 {
			items = append(items, []c15lexeme{g.word("key")})
		}
		t := []c15lexeme{g.word("group"), g.word("by")}
		t = append(t, w1commaJoin(items)...)
		tails = append(tails, t)
	}
	if r.chance(1, 2) {
		var items [][]c15lexeme
		cand := flds
		if star {
			cand = []fld{{lex: []c15lexeme{g.word("key")}}, {lex: []c15lexeme{g.word("value")}}}
		}
		for _, f := range cand {
			if (f.ty == "u" || f.ty == "a" || f.ty == "s" || f.ty == "n" || f.ty == "b" || f.ty == "") && r.chance(2, 3) {
				it := ref(f)
				switch r.intn(3) {
				case 0:
					it = append(append([]c15lexeme{}, it...), g.word("asc"))
				case 1:
					it = append(append([]c15lexeme{}, it...), g.word("desc"))
				}
				if r.chance(1, 14) { // clause words of other clauses after an item: refused
					it = append(append([]c15lexeme{}, it...), pick(r, []c15lexeme{g.word("as"), g.word("asc"), g.word("by"), w1w("x")}))
				}
				items = append(items, it)
			}
		}
		if len(items) == 0 && !typed {
			items = append(items, w.ex("u", 1))
		}
		if len(items) > 0 {
			t := []c15lexeme{g.word("order"), g.word("by")}
			t = append(t, w1commaJoin(items)...)
			if r.chance(1, 10) {
				t = append(t, c15sym(","))
			}
			tails = append(tails, t)
		}
	}
	if len(tails) == 2 && r.chance(1, 2) {
		tails[0], tails[1] = tails[1], tails[0]
	}
	if r.chance(1, 2) {
		tails = append(tails, w.limit())
		if r.chance(1, 12) && len(tails) > 1 { // LIMIT not last: refused
			tails[0], tails[len(tails)-1] = tails[len(tails)-1], tails[0]
		}
	}
	for _, t := range tails {
		out = append(out, t...)
	}
	return out, "select"
}

func (w *w1gen) putStmt(typed bool) ([]c15lexeme, string) {
	g, r := w.g, w.r
	out := []c15lexeme{g.word("put")}
	n := 1 + r.intn(3)
	if r.chance(1, 15) {
		n = 0
	}
	for i := 0; i < n; i++ {
		if i > 0 {
			out = append(out, c15sym(","))
		}
		var k, v []c15lexeme
		if typed {
			k = g.child(w.konst(r.intn(3)), false, false)
			if r.chance(1, 3) {
				v = g.child(c15bin("+", &c15gx{k: "key", s: "key"}, w.konst(1)), false, false)
			} else {
				v = g.child(w.konst(r.intn(3)), false, false)
			}
		} else {
			k, v = w.ex("u", r.intn(3)), w.ex("u", r.intn(3))
		}
		out = append(out, c15sym("("))
		out = append(out, k...)
		out = append(out, c15sym(","))
		out = append(out, v...)
		out = append(out, c15sym(")"))
	}
	if n > 0 && r.chance(1, 12) {
		out = append(out, c15sym(","))
	}
	return out, "put"
}

func (w *w1gen) removeStmt(typed bool) ([]c15lexeme, string) {
	g, r := w.g, w.r
	out := []c15lexeme{g.word("remove")}
	n := 1 + r.intn(3)
	if r.chance(1, 15) {
		n = 0
	}
	for i := 0; i < n; i++ {
		if i > 0 {
			out = append(out, c15sym(","))
		}
		if typed {
			out = append(out, g.child(w.konst(r.intn(3)), false, false)...)
		} else {
			out = append(out, w.ex("u", r.intn(3))...)
		}
	}
	if n > 0 && r.chance(1, 12) {
		out = append(out, c15sym(","))
	}
	return out, "remove"
}

func (w *w1gen) deleteStmt(typed bool) ([]c15lexeme, string) {
	g, r := w.g, w.r
	out := []c15lexeme{g.word("delete"), g.word("where")}
	if typed {
		out = append(out, w.ex("b", 1+r.intn(2))...)
	} else {
		out = append(out, w.ex("u", 1+r.intn(3))...)
	}
	if r.chance(1, 2) {
		out = append(out, w.limit()...)
	}
	return out, "delete"
}

func (w *w1gen) stmt(typed bool) ([]c15lexeme, string) {
	var ls []c15lexeme
	var kind string
	switch c := w.r.intn(10); {
	case c < 6:
		ls, kind = w.selectStmt(typed)
	case c < 7:
		ls, kind = w.putStmt(typed)
	case c < 8:
		ls, kind = w.removeStmt(typed)
	default:
		ls, kind = w.deleteStmt(typed)
	}
	for w.r.chance(1, 8) {
		ls = append(ls, c15sym(";"))
	}
	return ls, kind
}

var w1Junk = []c15lexeme{c15sym(")"), c15sym("("), c15sym(","), c15sym(";"), c15sym("*"), c15sym("]"), c15sym("["),
	w1w("limit"), w1w("order"), w1w("group"), w1w("by"), w1w("asc"), w1w("desc"), w1w("as"), w1w("where"),
	w1w("select"), w1w("put"), w1w("remove"), w1w("delete"), w1w("1"), w1w("2"), w1w("x"), w1w("key"),
	{"'s'", 'q'}, w1w("and"), c15sym("="), w1w("in"), w1w("1.5")}

func (w *w1gen) corrupt(ls []c15lexeme) []c15lexeme {
	out := append([]c15lexeme{}, ls...)
	if len(out) == 0 {
		return out
	}
	r := w.r
	i := r.intn(len(out))
	switch r.intn(6) {
	case 0: // delete
		out = append(out[:i], out[i+1:]...)
	case 1: // duplicate
		out = append(out[:i+1], out[i:]...)
	case 2: // swap
		if i+1 < len(out) {
			out[i], out[i+1] = out[i+1], out[i]
		}
	case 3, 4: // insert
		out = append(out[:i], append([]c15lexeme{pick(r, w1Junk)}, out[i:]...)...)
	case 5: // truncate
		out = out[:i]
	}
	return out
}

func c15StmtStream(h *c15) {
	c := h.c
	r := newRng(newRng(c.seed ^ 0x77315354).next())
	w := &w1gen{g: &c15gen{r: r}, r: r}
	nTyped, nUntyped, nBad := 900, 500, 1400
	if c.thorough() {
		nTyped, nUntyped, nBad = 6000, 3000, 9000
	}
	if c.search {
		nTyped, nUntyped, nBad = nTyped*4, nUntyped*4, nBad*4
	}
	// fixed small statements first: the first failing case is a small one
	for _, q := range []string{"", ";", ";;", "where", "select", "select *", "select * where", "where key = 'a'", "where key = 'a';",
		"where key = 'a';;", "select * where key = 'a' limit 1", "select * where key = 'a' limit 1, 2",
		"select key, value where key ^= 'a' order by key desc", "select key as k where key ^= 'a' order by k",
		"select key, count(1) where key ^= 'a' group by key", "put", "put ('a', 'b')", "put ('a', 'b'), ('c', 'd')", "remove",
		"remove 'a'", "remove 'a', 'b'", "delete", "delete where", "delete where key = 'a'", "delete where key = 'a' limit 3",
		"delete where key = 'a' limit 3 4 5", "limit 1", "select * where key = 'a' limit", "select * where key = 'a' limit ,",
		"select * where key = 'a' order by", "select * where key = 'a' group by", "select * where key = 'a' order key",
		"select key as where key = 'a'", "select key as 1 where key = 'a'", "select key as k v where key = 'a'",
		"select a, * where key = 'a'", "select *, a where key = 'a'", "select where key = 'a'", "key = 'a'",
		"select key where key = 'a' limit 1 order by key", "select key where key = 'a' order by key order by key",
		"select key where key = 'a' limit 1 limit 2", "select key where key = 'a' group by key group by key",
		// semantic tests that parser.go runs in the middle of parsing, followed by a syntax error
		"select upper(u) as u where key = 'a' order", "select b + 1 as a, a + 1 as b where key = 'a' limit ,",
		"select key as k where key = 'a' order by zz limit ,", "select key as k where key = 'a' order by zz, k desc limit",
		"select json(value) as j where key = 'a' order by j limit ,", "select key where key = 'a' group by zz order",
		"select key, count(1) as c where key = 'a' group by c limit ,", "select key, value where key = 'a' group by key, value + 1 limit ,",
		"select key, value + 1 as v where key = 'a' group by key, v order by", "where key = 'a' order by key", "where key = 'a' group by key limit ,",
		"select * where key = 'a' order by key, value desc limit 2, 3;", "select * where key = 'a' order by KEY asc , limit 1",
		"select key as a, a + 'x' as b where b = 'y' order by b desc", "select key k where key = 'a'",
		"put ('a', 'b') ('c', 'd')", "put ('a' 'b')", "put ('a', 'b'", "put (", "put ('a', 'b'),", "put ('a', 'b');", "put ('a', value)",
		"remove 'a' 'b'", "remove 'a',", "remove key", "remove ;", "delete where key = 'a' limit 1, 2;", "delete where key = 'a' order by key",
		"delete where key = 'a' limit 1 x", "delete from", "delete where 1", ";where key = 'a'", "where key = 'a' ; limit 1"} {
		h.w1Emit(q, "fixed", "")
	}
	for i := 0; i < nTyped; i++ {
		w.g.style, w.g.rcase, w.g.rspace = i%3, r.chance(1, 3), r.chance(1, 3)
		ls, kind := w.stmt(true)
		h.w1Emit(w.g.join(ls), kind, "typed")
	}
	for i := 0; i < nUntyped; i++ {
		w.g.style, w.g.rcase, w.g.rspace = i%3, false, r.chance(1, 3)
		ls, kind := w.stmt(false)
		h.w1Emit(w.g.join(ls), kind, "untyped")
	}
	for i := 0; i < nBad; i++ {
		w.g.style, w.g.rcase, w.g.rspace = i%3, false, r.chance(1, 4)
		ls, kind := w.stmt(r.chance(2, 3))
		ls = w.corrupt(ls)
		if r.chance(1, 4) {
			ls = w.corrupt(ls)
		}
		h.w1Emit(w.g.join(ls), kind, "corrupted")
	}
}
