package main

// C15, text level (kind 5 of Corr/C15.v; Corr/C15Text.v): the lexer twin composed with the
// printer and parser twins, against the implementation.
//
//	TText     tree -> String() -> Lexer.Split -> Parser.Parse      (print_parse_text)
//	TCase     a text and the same text with the letter case of bytes outside quotes
//	          changed: same tokens, same parse                     (keyword_case_irrelevant)
//	TExplain  query -> BuildPlan -> scan node: access path, the tree its FilterExec holds,
//	          its Explain() line, the filter text cut out of that line, lexed and parsed
//	                                                               (explain_filter_reparses)

import (
	"fmt"
	"regexp"
	"strings"

	kvql "github.com/c4pt0r/kvql"
)

type c15tReplay struct {
	Kind     string `json:"kind"`
	Query    string `json:"query,omitempty"`
	Query2   string `json:"query2,omitempty"`
	Tree     string `json:"tree,omitempty"`
	Rendered string `json:"rendered,omitempty"`
	Reparsed string `json:"reparsed,omitempty"`
	Line     string `json:"explain_line,omitempty"`
	Path     string `json:"access_path,omitempty"`
	Note     string `json:"note,omitempty"`
}

var c15tDigits = regexp.MustCompile(`^[0-9]+$`)

// numsOK: every number / float literal of the tree is a token of the language (the constant
// folder can leave -5, 1e+06, NaN, +Inf: texts the lexer does not read back as one literal)
func c15tNumsOK(e kvql.Expression) bool {
	ok := true
	var walk func(e kvql.Expression)
	walk = func(e kvql.Expression) {
		switch x := e.(type) {
		case *kvql.BinaryOpExpr:
			walk(x.Left)
			walk(x.Right)
		case *kvql.ListExpr:
			for _, k := range x.List {
				walk(k)
			}
		case *kvql.NotExpr:
			walk(x.Right)
		case *kvql.FunctionCallExpr:
			walk(x.Name)
			for _, k := range x.Args {
				walk(k)
			}
		case *kvql.FieldAccessExpr:
			walk(x.Left)
			walk(x.FieldName)
		case *kvql.NumberExpr:
			if !c15tDigits.MatchString(x.Data) {
				ok = false
			}
		case *kvql.FloatExpr:
			ts := kvql.NewLexer(x.Data).Split()
			if len(ts) != 1 || ts[0].Tp != kvql.FLOAT || ts[0].Data != x.Data {
				ok = false
			}
		}
	}
	walk(e)
	return ok
}

func c15tOptExpr(e kvql.Expression) (string, bool) {
	if e == nil {
		return "None", true
	}
	t, ok := coqExpr(e)
	return "(Some " + t + ")", ok
}

func c15tAdd(h *c15, t string, rp c15tReplay, nontrivial bool) int {
	return h.e.add("Case 5 true [] (OText ("+t+")) \"\" [] ONone []", rp, nontrivial)
}

// one tree through String / Split / Parse.  accepted: the tree belongs to a statement the
// library accepted (then the re-parse is judged on the Go side as well).
func (h *c15) textCase(tree kvql.Expression, q string, accepted bool, note string) {
	e := h.e
	te, ok := coqExpr(tree)
	if !ok {
		e.m.OutOfModel++
		e.count("out_of_model:tree")
		return
	}
	text := tree.String()
	toks := kvql.NewLexer(text).Split()
	rep := c15ParseQuery("delete where " + text)
	re, ok := c15tOptExpr(rep.tree)
	if !ok || rep.other != "" {
		re = "None"
	}
	rp := c15tReplay{Kind: "text", Query: q, Tree: c15shapeOf(tree), Rendered: text, Note: note}
	if rep.tree != nil {
		rp.Reparsed = c15shapeOf(rep.tree)
	} else {
		rp.Reparsed = "error: " + rep.errTxt + rep.other
	}
	idx := c15tAdd(h, fmt.Sprintf("TText %s %s %s %s", te, coqStr(text), coqTokens(toks), re), rp, len(toks) > 1)
	e.count("kind=text")
	safe := c15lexSafe(tree)
	nums := c15tNumsOK(tree)
	if !safe {
		e.count("text: literal containing its quote character (excluded from the round trip)")
	}
	if !nums {
		e.count("text: number literal that is no token of the language (excluded from the round trip)")
	}
	if accepted && safe && nums {
		e.count("text: accepted statement, round trip judged")
		if rep.tree == nil || c15shapeOf(rep.tree) != c15shapeOf(tree) {
			e.fail(idx, "the rendering of an accepted statement's expression does not lex and re-parse to the same tree: "+text, "C15/text-roundtrip", rp)
		}
	}
}

// flipCase changes the letter case of ASCII letters outside quotes (as the lexer sees quotes:
// ' " ` open a literal that the same character closes)
func c15tFlipCase(r *rng, q string) string {
	b := []byte(q)
	var in byte
	for i, c := range b {
		if in != 0 {
			if c == in {
				in = 0
			}
			continue
		}
		switch {
		case c == '\'' || c == '"' || c == '`':
			in = c
		case c >= 'a' && c <= 'z' && r.chance(1, 2):
			b[i] = c - 32
		case c >= 'A' && c <= 'Z' && r.chance(1, 2):
			b[i] = c + 32
		}
	}
	return string(b)
}

func c15tSameTokens(a, b []*kvql.Token) bool {
	if len(a) != len(b) {
		return false
	}
	for i := range a {
		if a[i].Tp != b[i].Tp || a[i].Data != b[i].Data || a[i].Pos != b[i].Pos {
			return false
		}
	}
	return true
}

func c15tOutcome(p c15Parse) string {
	switch {
	case p.other != "":
		return "other: " + p.other
	case p.tree != nil:
		return fmt.Sprintf("tree %s err=%v", p.tree.String(), p.errTxt != "")
	case p.isErr:
		return fmt.Sprintf("error at %d", p.errPos)
	}
	return "none"
}

func (h *c15) caseCase(q1, q2 string, note string) {
	e := h.e
	t1, t2 := kvql.NewLexer(q1).Split(), kvql.NewLexer(q2).Split()
	rp := c15tReplay{Kind: "case", Query: q1, Query2: q2, Note: note}
	idx := c15tAdd(h, fmt.Sprintf("TCase %s %s %s %s", coqStr(q1), coqStr(q2), coqTokens(t1), coqTokens(t2)), rp, q1 != q2)
	e.count("kind=case")
	if q1 != q2 {
		e.count("case: texts differ")
	}
	if !c15tSameTokens(t1, t2) {
		e.fail(idx, "changing the letter case of a byte outside quotes changed the tokens: "+q1+" / "+q2, "C15/case", rp)
		return
	}
	if o1, o2 := c15tOutcome(c15ParseQuery(q1)), c15tOutcome(c15ParseQuery(q2)); o1 != o2 {
		e.fail(idx, "changing the letter case of a byte outside quotes changed the parse: "+q1+" -> "+o1+" / "+q2+" -> "+o2, "C15/case", rp)
	}
}

// the scan node of a plan, the head of its Explain line (everything before the filter text),
// its access path as a Model/ScanIO.v term, the tree its FilterExec holds
func c15tScanOf(p any) (scan kvql.Plan) {
	for {
		switch x := p.(type) {
		case *kvql.ProjectionPlan:
			p = x.ChildPlan
		case *kvql.AggregatePlan:
			p = x.ChildPlan
		case *kvql.FinalOrderPlan:
			p = x.ChildPlan
		case *kvql.FinalLimitPlan:
			p = x.ChildPlan
		case *kvql.LimitPlan:
			p = x.ChildPlan
		case *kvql.DeletePlan:
			p = x.ChildPlan
		case kvql.Plan:
			return x
		default:
			return nil
		}
	}
}

func c15tNil(b []byte) string {
	if b == nil {
		return "<nil>"
	}
	return string(b)
}

func c15tHead(p kvql.Plan) (head string, filter *kvql.FilterExec, ok bool) {
	switch x := p.(type) {
	case *kvql.FullScanPlan:
		return "FullScanPlan{Filter = '", x.Filter, true
	case *kvql.PrefixScanPlan:
		return "PrefixScanPlan{Prefix = '" + x.Prefix + "', Filter = '", x.Filter, true
	case *kvql.RangeScanPlan:
		return "RangeScanPlan{Start = '" + c15tNil(x.Start) + "', End = '" + c15tNil(x.End) + "', Filter = '", x.Filter, true
	case *kvql.MultiGetPlan:
		return "MultiGetPlan{Keys = <" + strings.Join(x.Keys, ", ") + ">, Filter = '", x.Filter, true
	}
	return "", nil, false
}

var c15tStore = [][2]string{{"a", "1"}, {"ab", "2"}, {"b", "x"}, {"k1", "10"}, {"k2", "2.5"}}

func (h *c15) explainCase(q string, note string) {
	e := h.e
	var plan kvql.FinalPlan
	var perr error
	func() {
		defer func() {
			if r := recover(); r != nil {
				perr = fmt.Errorf("panic: %v", r)
			}
		}()
		plan, perr = kvql.NewOptimizer(q).BuildPlan(newStore(c15tStore))
	}()
	if perr != nil || plan == nil {
		e.count("explain: statement rejected")
		return
	}
	lines := plan.Explain()
	scan := c15tScanOf(plan)
	if scan == nil || len(lines) == 0 {
		e.count("explain: no scan node (put / remove)")
		return
	}
	line := lines[len(lines)-1]
	sc, path := pbScanTerm(scan)
	rp := c15tReplay{Kind: "explain", Query: q, Line: line, Path: path, Note: note}
	if _, empty := scan.(*kvql.EmptyResultPlan); empty {
		c15tAdd(h, fmt.Sprintf("TExplain SEmpty (EBool 0 true) %s [] None", coqStr(line)), rp, false)
		e.count("kind=explain")
		e.count("explain: path=EMPTY")
		return
	}
	head, flt, ok := c15tHead(scan)
	if !ok || sc == "" || flt == nil || flt.Ast == nil || flt.Ast.Expr == nil {
		e.m.OutOfModel++
		e.count("out_of_model:explain")
		return
	}
	f := flt.Ast.Expr
	tf, ok := coqExpr(f)
	if !ok {
		e.m.OutOfModel++
		e.count("out_of_model:tree")
		return
	}
	rp.Tree = c15shapeOf(f)
	e.count("kind=explain")
	e.count("explain: path=" + path)
	if !strings.HasPrefix(line, head) || !strings.HasSuffix(line, "'}") || len(line) < len(head)+2 {
		idx := c15tAdd(h, fmt.Sprintf("TExplain %s %s %s [] None", sc, tf, coqStr(line)), rp, true)
		e.fail(idx, "the scan node's Explain line does not have the form <access path>, Filter = '<filter>'}: "+line, "C15/explain-form", rp)
		return
	}
	txt := line[len(head) : len(line)-2]
	toks := kvql.NewLexer(txt).Split()
	rep := c15ParseQuery("delete where " + txt)
	re, ok := c15tOptExpr(rep.tree)
	if !ok || rep.other != "" {
		re = "None"
	}
	rp.Rendered = txt
	if rep.tree != nil {
		rp.Reparsed = c15shapeOf(rep.tree)
	} else {
		rp.Reparsed = "error: " + rep.errTxt + rep.other
	}
	idx := c15tAdd(h, fmt.Sprintf("TExplain %s %s %s %s %s", sc, tf, coqStr(line), coqTokens(toks), re), rp, true)
	if txt != f.String() {
		e.fail(idx, "the filter shown by EXPLAIN is not the rendering of the filter the scan node runs: "+txt+" / "+f.String(), "C15/explain-filter", rp)
		return
	}
	safe, nums := c15lexSafe(f), c15tNumsOK(f)
	if !safe {
		e.count("explain: literal containing its quote character (excluded from the round trip)")
	}
	if !nums {
		e.count("explain: folded number literal that is no token of the language (excluded from the round trip)")
	}
	if safe && nums {
		e.count("explain: round trip judged")
		if rep.tree == nil || c15shapeOf(rep.tree) != c15shapeOf(f) {
			e.fail(idx, "the filter shown by EXPLAIN does not re-parse to the filter the scan node runs: "+txt, "C15/explain-roundtrip", rp)
		}
	}
}

// literal shapes at the edge of txt_ok, and every access path
var c15tLiteralQueries = []string{
	`where key = "it's"`, `where key = "a" & value = 'b"c'`, "where key = 'x`y'", `where upper(key) = "A'"`,
	"select key as `my f` where `my f` = 'a'", "select key as `A` where `A` = 'a'", "select key as `select` where `select` ^= 'a'",
	"select key as `x'y` where `x'y` = 'a'", "select value as v where v = 'a' | v ^= 'b'",
	"where int(value) > 007", "where float(value) > 1.50", "where float(value) > .5", "where float(value) > 5.", "where float(value) > 1E3",
	"where float(value) > 1e3", "where float(value) < inf", "where float(value) < INFINITY", "where int(value) = 9223372036854775807",
	"where float(value) > 9223372036854775808", "where key in ('a', \"b'\", 'c')", "where key between 'a' and \"b'\"",
	"where json(value)['k'] = 'a'", "where split(value, ',')[0] = 'a'", "where key in split(value, ',')", "where !(key = 'a') & !(!(value = 'b'))",
	"where int(value) between 1 and 2 * 3", "where key = 'a' and value = 'b' or key = 'c'",
}

var c15tExplainQueries = []string{
	"where key = 'a'", "where key ^= 'a'", "where key ^= 'a' & value = '1'", "where key > 'a' & key <= 'k1'", "where key >= 'b'", "where key < 'b'",
	"where key between 'a' and 'b'", "where key in ('a', 'b', 'zz')", "where key = 'a' | key = 'b'", "where key = 'a' & key = 'b'",
	"where key ^= \"a', Filter = \"", "where key = \"it's\"", "where key > \"a'\" & key < 'b'", "where key in (\"a', \", 'b')",
	"select * where key ^= 'a' limit 1, 2", "select key, value where key ^= 'k' order by value desc limit 3", "select count(1) where key ^= 'k'",
	"select key, int(value) as n where n > 1", "select key as k where k ^= 'a'", "select value as `my f` where `my f` = '1'",
	"delete where key ^= 'zz'", "delete where key = 'zz' limit 1", "delete where value = 'none'",
	"where int(value) > 1 + 2", "where int(value) > 1 - 6", "where int(value) > 2 * 3 - 10", "where float(value) > 1.5 * 2", "where float(value) > 1000000.0 * 1000000.0 * 1000000.0 * 1000.0",
	"where float(value) > 1.0 / 3", "where float(value) > 0.5 - 1", "where value = 'a' + 'b'", "where value = 'a' + \"'\"", "where value = upper('a')",
	"where value = lower('AB') + 'c'", "where int(value) > len('abc')", "where 1 = 1", "where 1 = 2", "where 1 = 1 & key ^= 'a'", "where 1 = 2 | key ^= 'a'",
	"where !(1 = 2) & key > 'a'", "where key = 'a' & true", "where key = 'a' | false", "where (key = 'a' | 1 = 1) & value = 'x'",
	"where key = 'a' + 'b'", "where key ^= 'k' + '1'", "where key in ('a' + 'b', 'c')", "where key between 'a' and 'a' + 'z'",
	"where int(value) in (1 - 2, 3)", "where int(value) between 0 - 5 and 5", "where is_int(value) & int(value) / 2 > 0 - 1",
	"put ('a', 'b')", "remove 'a'",
}

func c15TextStream(h *c15) {
	c, e := h.c, h.e
	r := newRng(newRng(c.seed + 15).next())
	g := &c15gen{r: r}
	nRaw, nTyped, nCase, nExplain := 500, 500, 500, 400
	if c.thorough() {
		nRaw, nTyped, nCase, nExplain = 5000, 5000, 5000, 4000
	}
	if c.search {
		nRaw, nTyped, nCase, nExplain = nRaw*6, nTyped*6, nCase*6, nExplain*6
	}
	// ---- TText: raw parses (nothing type-checked)
	for i := 0; i < nRaw; i++ {
		g.style, g.rcase, g.rspace = i%3, r.chance(1, 2), r.chance(1, 2)
		t := g.expr(1 + i*4/nRaw)
		q := "delete where " + g.join(g.child(t, false, false))
		p := c15ParseQuery(q)
		if p.tree == nil || p.other != "" {
			e.count("text: raw text rejected")
			continue
		}
		h.textCase(p.tree, q, false, "raw parse")
	}
	// ---- TText: accepted statements (checked trees, alias references), fields included
	textOfAccepted := func(q, note string) {
		p := c15ParseQuery(q)
		if !p.accept || p.other != "" {
			e.count("text: typed statement rejected")
			return
		}
		if _, err := kvql.NewOptimizer(q).BuildPlan(newStore(c15tStore)); err != nil {
			// Parse accepts, the call validation / plan construction does not
			e.count("text: typed statement rejected")
			return
		}
		h.textCase(p.tree, q, true, note)
		for _, f := range p.fields {
			h.textCase(f, q, true, note+", select field")
		}
	}
	for _, q := range c15tLiteralQueries {
		textOfAccepted(q, "literal shapes")
	}
	for i := 0; i < nTyped; i++ {
		g.style, g.rcase, g.rspace = i%3, r.chance(1, 3), r.chance(1, 3)
		g.aliases = nil
		t := g.tbool(1 + i*4/nTyped)
		q := pick(r, []string{"where ", "select * where ", "WHERE "}) + g.join(g.child(t, false, false))
		textOfAccepted(q, "typed")
	}
	// ---- TCase
	for i := 0; i < nCase; i++ {
		g.style, g.rcase, g.rspace = i%3, r.chance(1, 2), r.chance(1, 2)
		g.aliases = nil
		var ls []c15lexeme
		pref := "where "
		switch i % 4 {
		case 0:
			ls = g.child(g.tbool(1+r.intn(3)), false, false)
			pref = pick(r, []string{"where ", "select * where ", "select key, value where "})
		case 1:
			ls = g.child(g.expr(1+r.intn(3)), false, false)
			pref = "delete where "
		case 2:
			ls = g.corrupt(g.child(g.expr(1+r.intn(3)), false, false))
			pref = "delete where "
		default:
			ls = g.child(g.tbool(1+r.intn(2)), false, false)
			pref = "select key as k1, upper(value) as Uv where "
		}
		q1 := pref + g.join(ls)
		if i%4 == 3 {
			q1 += pick(r, []string{" order by k1 desc", " limit 2", " order by key asc limit 1, 2", " group by k1", ""})
		}
		if i%16 == 2 {
			q1 += pick(r, []string{" 'unterminated Quote", " \"x Y", " `Z"})
		}
		h.caseCase(q1, c15tFlipCase(r, q1), "")
	}
	// ---- TExplain
	for _, q := range c15tExplainQueries {
		h.explainCase(q, "directed")
	}
	keyAtoms := []string{"key = 'a'", "key ^= 'a'", "key ^= 'k'", "key > 'a'", "key <= 'k1'", "key between 'a' and 'b'",
		"key in ('a', 'k1')", "key >= \"a'\"", "key ^= \"k'\"", "key < 'b' + 'c'", "key = upper('a')", "1 = 1", "2 < 1"}
	for i := 0; i < nExplain; i++ {
		g.style, g.rcase, g.rspace = i%3, r.chance(1, 3), r.chance(1, 3)
		g.aliases = nil
		t := g.tbool(1 + r.intn(3))
		body := g.join(g.child(t, false, false))
		switch r.intn(4) {
		case 0:
			body = pick(r, keyAtoms) + pick(r, []string{" & ", " and "}) + "(" + body + ")"
		case 1:
			body = pick(r, keyAtoms) + pick(r, []string{" & ", " | "}) + pick(r, keyAtoms) + " & (" + body + ")"
		case 2:
			body = "(" + body + ") & " + pick(r, keyAtoms)
		}
		q := pick(r, []string{"where ", "select * where ", "select key where ", "delete where "}) + body
		if strings.HasPrefix(q, "select") && r.chance(1, 4) {
			q += pick(r, []string{" limit 2", " order by key desc", " limit 1, 1"})
		}
		h.explainCase(q, "typed")
	}
}
