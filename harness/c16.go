package main

// C16: tokens carry their true offset and text; spacing between tokens is irrelevant.
//  part A  every byte string up to length 4 (quick) / 5 (thorough) over a 16-symbol
//          token-relevant alphabet (blank, tab, the three quotes, = < ! ^ * ( , a E 1 .)
//  part B  lexeme sequences rendered with every choice of optional spacing: all sequences up
//          to length 3 (quick) / 4 (thorough) over a core pool, all pairs over the full pool,
//          each with every admissible assignment of "" / " " to the inner gaps
//  part C  seeded random: longer lexeme sequences with blanks of every kind, arbitrary bytes
//          inside quotes, boundary numbers, keywords in mixed case; random byte strings over the
//          whole special-character set; a corpus of realistic statements
// Observable: the (Tp, Data, Pos) list of Lexer.Split().  The Coq side (Corr/C16.v) compares it
// with the twin and judges it against Spec/LexSpec.v; the Go side judges it too (c16Judge),
// independently of the twin, so that a violating input is reported with its explanation.

import (
	"fmt"
	"strconv"
	"strings"

	kvql "github.com/c4pt0r/kvql"
)

func init() { registry["C16"] = runC16 }

// ---------------------------------------------------------------- lexemes

type c16Lexeme struct {
	Kind  string `json:"kind"` // word | quote | sym
	Text  string `json:"text"` // the word, the symbol, or the body of the literal
	Quote string `json:"quote,omitempty"`
}

type c16Item struct {
	Gap string    `json:"gap"`
	Lex c16Lexeme `json:"lexeme"`
}

func (l c16Lexeme) text() string {
	if l.Kind == "quote" {
		return l.Quote + l.Text + l.Quote
	}
	return l.Text
}

func c16Word(w string) c16Lexeme { return c16Lexeme{Kind: "word", Text: w} }
func c16Sym(s string) c16Lexeme  { return c16Lexeme{Kind: "sym", Text: s} }
func c16Quote(q byte, body string) c16Lexeme {
	return c16Lexeme{Kind: "quote", Text: body, Quote: string(q)}
}

var c16Symbols = map[string]kvql.TokenType{
	"!": kvql.OPERATOR, "*": kvql.OPERATOR, "+": kvql.OPERATOR, "-": kvql.OPERATOR, "/": kvql.OPERATOR,
	">": kvql.OPERATOR, "<": kvql.OPERATOR, "=": kvql.OPERATOR, "^": kvql.OPERATOR, "~": kvql.OPERATOR,
	"^=": kvql.OPERATOR, "~=": kvql.OPERATOR, "!=": kvql.OPERATOR, "<=": kvql.OPERATOR, ">=": kvql.OPERATOR,
	"&": kvql.OPERATOR, "|": kvql.OPERATOR, "(": kvql.LPAREN, ")": kvql.RPAREN, "[": kvql.LBRACK,
	"]": kvql.RBRACK, ",": kvql.SEP, ";": kvql.SEMI,
}

var c16Keywords = map[string]kvql.TokenType{
	"select": kvql.SELECT, "where": kvql.WHERE, "key": kvql.KEY, "value": kvql.VALUE, "limit": kvql.LIMIT,
	"order": kvql.ORDER, "by": kvql.BY, "asc": kvql.ASC, "desc": kvql.DESC, "true": kvql.TRUE,
	"false": kvql.FALSE, "as": kvql.AS, "group": kvql.GROUP, "in": kvql.OPERATOR, "between": kvql.OPERATOR,
	"put": kvql.PUT, "remove": kvql.REMOVE, "and": kvql.OPERATOR, "or": kvql.OPERATOR, "delete": kvql.DELETE,
}

func c16IsBlank(b byte) bool { return b == ' ' || (b >= 9 && b <= 13) }

func c16IsSpecial(b byte) bool {
	return c16IsBlank(b) || strings.IndexByte("'\"`~^=!*+-/><&|()[],;", b) >= 0
}

func c16Lower(s string) string {
	b := []byte(s)
	for i, c := range b {
		if c >= 'A' && c <= 'Z' {
			b[i] = c + 32
		}
	}
	return string(b)
}

// the kind a word must have, from the documented classification (keyword table, then integer,
// then float, else name) -- computed with strconv directly, not with the twin
func c16WordKind(w string) kvql.TokenType {
	if t, ok := c16Keywords[w]; ok {
		return t
	}
	if _, err := strconv.ParseInt(w, 10, 64); err == nil {
		return kvql.NUMBER
	}
	if _, err := strconv.ParseFloat(w, 64); err == nil {
		return kvql.FLOAT
	}
	return kvql.NAME
}

func c16Fuses(a, b c16Lexeme) bool {
	if a.Kind == "word" && b.Kind == "word" {
		return true
	}
	if a.Kind == "sym" && b.Kind == "sym" && b.Text == "=" {
		switch a.Text {
		case "!", "<", ">", "^", "~":
			return true
		}
	}
	return false
}

func c16Render(items []c16Item, tail string) string {
	var sb strings.Builder
	for _, it := range items {
		sb.WriteString(it.Gap)
		sb.WriteString(it.Lex.text())
	}
	sb.WriteString(tail)
	return sb.String()
}

type c16Tok struct {
	Tp   kvql.TokenType
	Data string
	Pos  int
}

func c16Expected(items []c16Item) []c16Tok {
	var out []c16Tok
	p := 0
	for _, it := range items {
		p += len(it.Gap)
		switch it.Lex.Kind {
		case "word":
			w := c16Lower(it.Lex.Text)
			out = append(out, c16Tok{c16WordKind(w), w, p})
		case "quote":
			tp := kvql.STRING
			if it.Lex.Quote == "`" {
				tp = kvql.NAME
			}
			out = append(out, c16Tok{tp, it.Lex.Text, p})
		default:
			out = append(out, c16Tok{c16Symbols[it.Lex.Text], it.Lex.Text, p})
		}
		p += len(it.Lex.text())
	}
	return out
}

// ---------------------------------------------------------------- the Go-side judge

func c16TokStr(t c16Tok) string {
	return fmt.Sprintf("%s %s @%d", tokCtor[t.Tp], strconv.Quote(t.Data), t.Pos)
}

func c16Toks(ts []*kvql.Token) []c16Tok {
	out := make([]c16Tok, len(ts))
	for i, t := range ts {
		out[i] = c16Tok{t.Tp, t.Data, t.Pos}
	}
	return out
}

func c16TokList(ts []c16Tok) string {
	p := make([]string, len(ts))
	for i, t := range ts {
		p[i] = c16TokStr(t)
	}
	return "[" + strings.Join(p, ", ") + "]"
}

// c16TokenOK judges one token against the query text: returns the number of query bytes the
// token stands for, or a description of what is wrong.
func c16TokenOK(q string, t c16Tok) (int, string) {
	n := len(t.Data)
	if t.Pos < 0 || t.Pos > len(q) {
		return 0, fmt.Sprintf("token %s: offset outside the query", c16TokStr(t))
	}
	at := func(i int) int {
		if i < len(q) {
			return int(q[i])
		}
		return -1
	}
	sub := func(i, n int) string {
		if i > len(q) {
			return ""
		}
		if i+n > len(q) {
			n = len(q) - i
		}
		return q[i : i+n]
	}
	// a symbol, verbatim, and maximal
	if tp, ok := c16Symbols[t.Data]; ok && tp == t.Tp {
		if sub(t.Pos, n) == t.Data {
			if n == 1 && strings.Contains("!<>^~", t.Data) && at(t.Pos+1) == '=' {
				return 0, fmt.Sprintf("token %s is the first half of the two-character operator %q", c16TokStr(t), sub(t.Pos, 2))
			}
			return n, ""
		}
	}
	// a quoted literal: both quotes present, content byte for byte, no quote inside
	if c := at(t.Pos); c >= 0 {
		b := byte(c)
		if (t.Tp == kvql.STRING && (b == '\'' || b == '"')) || (t.Tp == kvql.NAME && b == '`') {
			if sub(t.Pos+1, n) == t.Data && len(sub(t.Pos+1, n)) == n && at(t.Pos+1+n) == c && strings.IndexByte(t.Data, b) < 0 {
				return n + 2, ""
			}
			if t.Tp == kvql.STRING {
				return 0, fmt.Sprintf("token %s is not the literal that starts at offset %d (query text there: %s)", c16TokStr(t), t.Pos, strconv.Quote(sub(t.Pos, n+2)))
			}
		}
	}
	if t.Tp == kvql.STRING {
		return 0, fmt.Sprintf("token %s: no quote at offset %d", c16TokStr(t), t.Pos)
	}
	// a word: lower-cased text at the offset, kind determined by the text
	if n > 0 && len(sub(t.Pos, n)) == n && c16Lower(sub(t.Pos, n)) == t.Data {
		if want := c16WordKind(t.Data); want != t.Tp {
			return 0, fmt.Sprintf("token %s: the text %q must be classified as %s", c16TokStr(t), t.Data, tokCtor[want])
		}
		return n, ""
	}
	return 0, fmt.Sprintf("token %s does not carry the text at its offset (query text there: %s)", c16TokStr(t), strconv.Quote(sub(t.Pos, n)))
}

// c16Judge: per-token text/offset, source order and no overlap, no byte dropped.
func c16Judge(q string, ts []c16Tok) (sig, what string) {
	from := 0
	for _, t := range ts {
		w, bad := c16TokenOK(q, t)
		if bad != "" {
			return "C16/text-offset", bad
		}
		if t.Pos < from || w == 0 {
			return "C16/order", fmt.Sprintf("token %s overlaps or precedes the previous token (which ends at %d)", c16TokStr(t), from)
		}
		for i := from; i < t.Pos; i++ {
			if !c16IsBlank(q[i]) {
				return "C16/dropped-byte", fmt.Sprintf("byte %q at offset %d is not a blank and belongs to no token", q[i], i)
			}
		}
		from = t.Pos + w
		if from > len(q) {
			return "C16/text-offset", fmt.Sprintf("token %s extends beyond the query", c16TokStr(t))
		}
	}
	for i := from; i < len(q); i++ {
		if !c16IsBlank(q[i]) {
			return "C16/dropped-byte", fmt.Sprintf("byte %q at offset %d is not a blank and belongs to no token", q[i], i)
		}
	}
	return "", ""
}

func c16SameKindText(a, b []c16Tok) bool {
	if len(a) != len(b) {
		return false
	}
	for i := range a {
		if a[i].Tp != b[i].Tp || a[i].Data != b[i].Data {
			return false
		}
	}
	return true
}

func c16SameToks(a, b []c16Tok) bool {
	if !c16SameKindText(a, b) {
		return false
	}
	for i := range a {
		if a[i].Pos != b[i].Pos {
			return false
		}
	}
	return true
}

// ---------------------------------------------------------------- out-of-model classification

func c16NumOOM(w string) bool {
	b := w
	if len(b) > 0 && (b[0] == '+' || b[0] == '-') {
		b = b[1:]
	}
	if len(b) >= 3 && b[0] == '0' && b[1] == 'x' {
		return true
	}
	under := false
	for i := 0; i < len(w); i++ {
		c := w[i]
		switch {
		case c >= '0' && c <= '9', c == '.', c == 'e', c == '+', c == '-':
		case c == '_':
			under = true
		default:
			return false
		}
	}
	return under
}

// c16OutOfModel: a word (text outside quotes, or everything from an unterminated quote on)
// holds a non-ASCII byte, or has a numeric shape the twin does not model.  Computed from the
// query text alone.
func c16OutOfModel(q string) bool {
	i := 0
	for i < len(q) {
		c := q[i]
		if c == '\'' || c == '"' || c == '`' {
			j := strings.IndexByte(q[i+1:], c)
			if j < 0 {
				for k := i; k < len(q); k++ {
					if q[k] >= 0x80 {
						return true
					}
				}
				return false
			}
			i += j + 2
			continue
		}
		if c16IsSpecial(c) {
			i++
			continue
		}
		j := i
		for j < len(q) && !c16IsSpecial(q[j]) {
			if q[j] >= 0x80 {
				return true
			}
			j++
		}
		if c16NumOOM(c16Lower(q[i:j])) {
			return true
		}
		i = j
	}
	return false
}

// ---------------------------------------------------------------- Gallina printing
// Compact first-order syntax of Corr/C16.v (bl / tl / il / io / mk): bytes are the
// constructors x00..xff of Init.Byte, no string literals, no list or pair notations.

func c16BL(s string) string {
	var sb strings.Builder
	for i := 0; i < len(s); i++ {
		fmt.Fprintf(&sb, "(BC x%02x ", s[i])
	}
	sb.WriteString("BN")
	for i := 0; i < len(s); i++ {
		sb.WriteByte(')')
	}
	return sb.String()
}

func c16TL(ts []c16Tok) string {
	var sb strings.Builder
	for _, t := range ts {
		c, ok := tokCtor[t.Tp]
		if !ok {
			c = "NAME"
		}
		fmt.Fprintf(&sb, "(TC %s %s %d ", c, c16BL(t.Data), natPos(t.Pos))
	}
	sb.WriteString("TN")
	for range ts {
		sb.WriteByte(')')
	}
	return sb.String()
}

func c16LX(l c16Lexeme) string {
	switch l.Kind {
	case "word":
		return "(XW " + c16BL(l.Text) + ")"
	case "quote":
		return fmt.Sprintf("(XQ x%02x %s)", l.Quote[0], c16BL(l.Text))
	}
	return "(XS " + c16BL(l.Text) + ")"
}

func c16IO(items []c16Item, tail string) string {
	if items == nil {
		return "NoItems"
	}
	var sb strings.Builder
	sb.WriteString("(Items ")
	for _, it := range items {
		fmt.Fprintf(&sb, "(IC %s %s ", c16BL(it.Gap), c16LX(it.Lex))
	}
	sb.WriteString("IN_")
	for range items {
		sb.WriteByte(')')
	}
	sb.WriteString(" " + c16BL(tail) + ")")
	return sb.String()
}

// ---------------------------------------------------------------- one case

type c16Replay struct {
	Part   string    `json:"part"`
	Query  string    `json:"query_go_quoted"`
	Items  []c16Item `json:"lexemes,omitempty"`
	Tail   string    `json:"trailing_gap,omitempty"`
	Tokens string    `json:"tokens,omitempty"`
	OOM    bool      `json:"out_of_model,omitempty"`
}

type c16Run struct {
	e       *emitter
	compact bool // omit the token list from the replays of part A (thorough tier: 1.1 M cases)
}

// tokens handed out by an EARLIER Split stay what they were: every c16HeldEvery-th result is
// kept (the []*Token itself and a copy of its contents) and compared again after the next one
// hundred queries have been lexed (token storage shared between Split calls would show here)
var (
	c16Held         []*kvql.Token
	c16HeldCopy     []c16Tok
	c16HeldQuery    string
	c16HeldAge      int
	c16HeldBad      string
	c16HeldReported bool
)

const c16HeldEvery = 100

func c16Split(q string) (ts []c16Tok, panicked string) {
	defer func() {
		if r := recover(); r != nil {
			panicked = fmt.Sprint(r)
		}
	}()
	raw := kvql.NewLexer(q).Split()
	ts = c16Toks(raw)
	if c16Held != nil {
		c16HeldAge++
		now := c16Toks(c16Held)
		if c16HeldBad == "" && !c16SameToks(now, c16HeldCopy) {
			c16HeldBad = fmt.Sprintf("the tokens of %s, kept by the caller, changed after %d later Split call(s) (last: %s): were %s, are %s",
				strconv.Quote(c16HeldQuery), c16HeldAge, strconv.Quote(q), c16TokList(c16HeldCopy), c16TokList(now))
		}
		if c16HeldAge >= c16HeldEvery {
			c16Held = nil
		}
	}
	if c16Held == nil && len(raw) >= 3 {
		c16Held, c16HeldCopy, c16HeldQuery, c16HeldAge = raw, ts, q, 0
	}
	return ts, ""
}

// emit runs the lexer on q, judges the output and registers the case.  items == nil: a raw
// string.  Returns the observed tokens.
func (r *c16Run) emit(part, q string, items []c16Item, tail string) []c16Tok {
	e := r.e
	ts, pn := c16Split(q)
	oom := c16OutOfModel(q)
	rp := c16Replay{Part: part, Query: strconv.Quote(q), Items: items, Tail: tail, OOM: oom}
	if !(r.compact && part == "A") {
		rp.Tokens = c16TokList(ts)
	}
	term := fmt.Sprintf("mk %s %s %s %s", c16BL(q), c16IO(items, tail), coqBool(oom), c16TL(ts))
	quoted, twochar, adjacent := false, false, false
	for i, t := range ts {
		if t.Tp == kvql.STRING || (t.Tp == kvql.NAME && t.Pos < len(q) && q[t.Pos] == '`') {
			quoted = true
		}
		if t.Tp == kvql.OPERATOR && len(t.Data) == 2 && t.Data[1] == '=' {
			twochar = true
		}
		if i > 0 && t.Pos < len(q) && t.Pos > 0 && !c16IsBlank(q[t.Pos-1]) {
			adjacent = true
		}
	}
	nontrivial := !oom && len(ts) >= 1 && (len(ts) >= 2 || quoted || twochar)
	idx := e.add(term, rp, nontrivial)
	if c16HeldBad != "" && !c16HeldReported {
		e.fail(idx, c16HeldBad, "C16/tokens-changed-after-later-split", nil)
		c16HeldReported = true
	}
	e.count("part=" + part)
	switch {
	case len(q) <= 5:
		e.count(fmt.Sprintf("len=%d", len(q)))
	case len(q) <= 16:
		e.count("len=6..16")
	default:
		e.count("len>16")
	}
	switch {
	case len(ts) <= 3:
		e.count(fmt.Sprintf("tokens=%d", len(ts)))
	case len(ts) <= 8:
		e.count("tokens=4..8")
	default:
		e.count("tokens>8")
	}
	seen := map[kvql.TokenType]bool{}
	for _, t := range ts {
		if !seen[t.Tp] {
			seen[t.Tp] = true
			e.count("has_" + tokCtor[t.Tp])
		}
	}
	if quoted {
		e.count("has_quoted_literal")
	}
	if twochar {
		e.count("has_two_char_operator")
	}
	if adjacent {
		e.count("has_tokens_without_blank_between")
	}
	if c16Unterminated(q) {
		e.count("unterminated_quote")
	}
	if oom {
		e.m.OutOfModel++
		e.count("out_of_model")
		// the twin does not cover this text; that every token carries the text found at its offset
		// needs no twin: quoted tokens exactly (whatever bytes they hold), ASCII words up to case
		// (words with bytes >= 0x80 are re-encoded / trimmed by the case folding: not judged; the
		// word KIND is not judged here either: numeric words outside the modelled fragment)
		if pn == "" {
			for _, t := range ts {
				if t.Pos < 0 || t.Pos > len(q) {
					e.fail(idx, fmt.Sprintf("token %s reports an offset outside the query %s", c16TokStr(t), strconv.Quote(q)), "C16/text-offset", rp)
					break
				}
				quoted := t.Tp == kvql.STRING || (t.Tp == kvql.NAME && t.Pos < len(q) && q[t.Pos] == '`')
				end := t.Pos + len(t.Data)
				asciiWord := !quoted && c16ASCII(t.Data) && end <= len(q) && c16ASCII(q[t.Pos:end])
				if !quoted && !asciiWord {
					continue
				}
				if _, bad := c16TokenOK(q, t); bad != "" && !strings.Contains(bad, "must be classified as") {
					e.fail(idx, bad+"; query "+strconv.Quote(q)+" lexed as "+c16TokList(ts), "C16/text-offset", rp)
					break
				}
			}
		}
		return ts
	}
	if pn != "" {
		e.fail(idx, "Lexer.Split panicked on "+strconv.Quote(q)+": "+pn, "C16/panic", rp)
		return ts
	}
	if sig, what := c16Judge(q, ts); sig != "" {
		e.fail(idx, what+"; query "+strconv.Quote(q)+" lexed as "+c16TokList(ts), sig, rp)
		return ts
	}
	if items != nil {
		if want := c16Expected(items); !c16SameToks(ts, want) {
			e.fail(idx, "the lexemes of "+strconv.Quote(q)+" must give "+c16TokList(want)+" but Split returned "+c16TokList(ts),
				"C16/lexemes", rp)
		}
	}
	return ts
}

func c16ASCII(s string) bool {
	for i := 0; i < len(s); i++ {
		if s[i] >= 0x80 {
			return false
		}
	}
	return true
}

func c16Unterminated(q string) bool {
	i := 0
	for i < len(q) {
		c := q[i]
		if c == '\'' || c == '"' || c == '`' {
			j := strings.IndexByte(q[i+1:], c)
			if j < 0 {
				return true
			}
			i += j + 2
			continue
		}
		i++
	}
	return false
}

// spacings: the lexemes rendered with every admissible assignment of "" / " " to the inner
// gaps (lead / tail as given); all renderings must give the same kinds and texts.
func (r *c16Run) spacings(part string, ls []c16Lexeme, lead, tail string) {
	n := len(ls)
	inner := n - 1
	if inner < 0 {
		inner = 0
	}
	var first []c16Tok
	var firstQ string
	have := false
	for mask := 0; mask < 1<<inner; mask++ {
		items := make([]c16Item, n)
		ok := true
		for i, l := range ls {
			g := lead
			if i > 0 {
				g = " "
				if mask&(1<<(i-1)) != 0 {
					g = ""
					if c16Fuses(ls[i-1], l) {
						ok = false
						break
					}
				}
			}
			items[i] = c16Item{Gap: g, Lex: l}
		}
		if !ok {
			continue
		}
		q := c16Render(items, tail)
		ts := r.emit(part, q, items, tail)
		if c16OutOfModel(q) {
			continue
		}
		if !have {
			first, firstQ, have = ts, q, true
		} else if !c16SameKindText(first, ts) {
			idx := len(r.e.cases) - 1
			r.e.fail(idx, "spacing changed the tokens: "+strconv.Quote(firstQ)+" gives "+c16TokList(first)+" but "+strconv.Quote(q)+" gives "+c16TokList(ts),
				"C16/spacing", nil)
		}
	}
}

// ---------------------------------------------------------------- generators

var c16Alphabet = []byte{' ', '\t', '\'', '"', '`', '=', '<', '!', '^', '*', '(', ',', 'a', 'E', '1', '.'}

var c16CorePool = []c16Lexeme{
	c16Word("a"), c16Word("In"), c16Word("1"), c16Quote('\'', "x y"), c16Quote('"', "q'"),
	c16Quote('`', "K"), c16Sym("="), c16Sym("<"), c16Sym("<="), c16Sym("^"), c16Sym("*"),
	c16Sym("("), c16Sym(","),
}

var c16FullPool = []c16Lexeme{
	c16Word("a"), c16Word("Key"), c16Word("SELECT"), c16Word("in"), c16Word("And"), c16Word("12"),
	c16Word("1.5"), c16Word("x1"), c16Word("1e3"), c16Word("between"),
	c16Quote('\'', "a b"), c16Quote('"', "it's"), c16Quote('`', "k K"), c16Quote('\'', ""),
	c16Quote('\'', "<="), c16Quote('"', "`"), c16Quote('`', "'\""),
	c16Sym("="), c16Sym("<"), c16Sym(">"), c16Sym("<="), c16Sym(">="), c16Sym("!="), c16Sym("^="),
	c16Sym("~="), c16Sym("!"), c16Sym("^"), c16Sym("~"), c16Sym("*"), c16Sym("+"), c16Sym("-"),
	c16Sym("/"), c16Sym("("), c16Sym(")"), c16Sym("["), c16Sym("]"), c16Sym(","), c16Sym(";"),
	c16Sym("&"), c16Sym("|"),
}

var c16Corpus = []string{
	"select * where key ^= 'test' & value = 'value'",
	"where key^='test'|(key~='value'&value='test')",
	"select key, int(value) as n where n > 2 order by n desc limit 10, 5",
	"select * where key in ('a','b',\"c\") and value between 1 and 2.5",
	"put ('k1', 'v1'), ('k2', upper('v2'))",
	"remove 'k1', 'k2'",
	"delete where key ^= 'pre' limit 3",
	"select count(1), sum(int(value)) as s where key ^= 'k' group by substr(key,0,2)",
	"select json(value)['a']['b'], split(value, ',')[1] where !(key = 'x')",
	"select `weird name`, value where value ~= '^[a-z]+$' ; ",
	"SELECT * WHERE KEY >= 'a' AND KEY <= 'z' OR FALSE",
	"select * where key='a'&value!='b'|key<='c'&!(value>='d')",
	"select 1+2*3-4/5, -1, 1e3, 1.5e-3, .5, 5.",
	"select * where key = 'it''s'",
	"select * where key = 'abc",
	"select\t*\nwhere\r\nkey = \"a\tb\"",
	"select * where key ^ 'a' ~ 'b' *= 3",
}

var c16Words = []string{
	"a", "b", "key", "KEY", "Value", "select", "WHERE", "limit", "order", "By", "asc", "DESC", "true",
	"False", "as", "group", "in", "IN", "between", "put", "remove", "and", "AND", "or", "delete", "x1",
	"foo_bar", "int", "upper", "json", "n", "0", "7", "42", "007", "9223372036854775807",
	"9223372036854775808", "99999999999999999999", "1.5", "10.5.7", ".5", "5.", "1e3", "1E3", "1e", "e1",
	"1.e1", ".e1", "1e308", "1e309", "1.7976931348623158e308", "1.7976931348623159e308",
	"179769313486231580793728971405303415079934132710037826936173778980444968292764750946649017977587207096330286416692887910946555547851940402630657488671505820681908902000708383676273854845817711531764475730270069855571366959622842914819860834936475292719074168444365510704342711559699508093042880177904174497791",
	"179769313486231580793728971405303415079934132710037826936173778980444968292764750946649017977587207096330286416692887910946555547851940402630657488671505820681908902000708383676273854845817711531764475730270069855571366959622842914819860834936475292719074168444365510704342711559699508093042880177904174497792",
	"0.000001e314", "17976931348623158e292", "1e0400", "0e999", "00.00e99999", "1e00400", "1e400",
	"inf", "Inf", "infinity", "nan", "NaN", "infi", "nanx", "1a", "a1", "1..2", "1e1e1", "#", "@x", "$1", "a.b", "a:b", "{", "}", "%", "?", "\\",
}

var c16WordsOOM = []string{"0x1p3", "0X10", "1_0", "1_000.5", "0x", "0xg", "_1", "1_", "caf\xc3\xa9", "\xc2\xa0a", "a\x80"}

var c16Gaps = []string{" ", " ", " ", "  ", "\t", "\n", "\r\n", " \t ", "\v", "\f", "    "}

func c16RandBody(r *rng, q byte) string {
	n := r.intn(9)
	b := make([]byte, 0, n)
	for len(b) < n {
		var c byte
		switch r.intn(6) {
		case 0:
			c = byte(r.intn(256))
		case 1:
			c = "'\"` \t\n"[r.intn(6)]
		case 2:
			c = "~^=!*+-/><&|()[],;"[r.intn(18)]
		default:
			c = "abcXYZ019._ "[r.intn(12)]
		}
		if c == q {
			continue
		}
		b = append(b, c)
	}
	return string(b)
}

func c16RandLexeme(r *rng, allowOOM bool) c16Lexeme {
	switch k := r.intn(10); {
	case k < 4:
		if allowOOM && r.chance(1, 12) {
			return c16Word(pick(r, c16WordsOOM))
		}
		return c16Word(pick(r, c16Words))
	case k < 6:
		q := "'\"`"[r.intn(3)]
		return c16Quote(q, c16RandBody(r, q))
	default:
		syms := c16FullPool[17:]
		return syms[r.intn(len(syms))]
	}
}

func c16RandItems(r *rng, n int, allowOOM bool) ([]c16Item, string) {
	items := make([]c16Item, 0, n)
	var prev *c16Lexeme
	for i := 0; i < n; i++ {
		l := c16RandLexeme(r, allowOOM)
		g := ""
		if r.chance(1, 2) || (prev != nil && c16Fuses(*prev, l)) {
			g = pick(r, c16Gaps)
		}
		items = append(items, c16Item{Gap: g, Lex: l})
		prev = &items[len(items)-1].Lex
	}
	tail := ""
	if r.chance(1, 3) {
		tail = pick(r, c16Gaps)
	}
	return items, tail
}

func c16RandString(r *rng, n int) string {
	b := make([]byte, n)
	for i := range b {
		switch r.intn(8) {
		case 0:
			b[i] = "'\"`"[r.intn(3)]
		case 1:
			b[i] = " \t\n\r\v\f "[r.intn(7)]
		case 2, 3:
			b[i] = "~^=!*+-/><&|()[],;"[r.intn(18)]
		case 4:
			b[i] = "0123456789.eE_x"[r.intn(15)]
		default:
			b[i] = "abkeyKEYinor"[r.intn(12)]
		}
	}
	return string(b)
}

func runC16(c *runCtx) error {
	// newRng streams of neighbouring seeds are shifted copies of each other: reseed through
	// one mixed output so that different VERIF_SEEDs give unrelated cases
	r := newRng(newRng(c.seed).next())
	e := newEmitter(c.out, "C16",
		"From Coq Require Import List Init.Byte.\nFrom KV Require Import Model.Token Corr.C16.\nImport ListNotations.\n", 1500)
	e.m.Rule = "A: every byte string up to the length bound over the 16-symbol alphabet; B: lexeme sequences x every admissible choice of \"\"/\" \" for the inner gaps; C: seeded random lexeme sequences, random byte strings, statement corpus. non-trivial = in model and (>= 2 tokens, or a quoted literal, or a two-character operator); distinct = distinct Gallina case terms"
	run := &c16Run{e: e, compact: c.thorough()}

	// part A: exhaustive strings
	maxLen := 4
	if c.thorough() {
		maxLen = 5
	}
	// shortest first, so that the first failing case of a kind is also a smallest one
	for L := 0; L <= maxLen; L++ {
		buf := make([]byte, L)
		var rec func(n int)
		rec = func(n int) {
			if n == L {
				run.emit("A", string(buf), nil, "")
				return
			}
			for _, ch := range c16Alphabet {
				buf[n] = ch
				rec(n + 1)
			}
		}
		rec(0)
	}

	// part B: lexeme sequences x every choice of optional spacing
	seqLen := 3
	if c.thorough() {
		seqLen = 4
	}
	for L := 1; L <= seqLen; L++ {
		seq := make([]c16Lexeme, L)
		lead, tail := "", ""
		if L%2 == 0 {
			lead = " "
		}
		if L%3 == 0 {
			tail = " "
		}
		var recB func(n int)
		recB = func(n int) {
			if n == L {
				run.spacings("B", seq, lead, tail)
				return
			}
			for _, l := range c16CorePool {
				seq[n] = l
				recB(n + 1)
			}
		}
		recB(0)
	}
	for _, a := range c16FullPool {
		run.spacings("B-pairs", []c16Lexeme{a}, " ", "")
		for _, b := range c16FullPool {
			run.spacings("B-pairs", []c16Lexeme{a, b}, "", " ")
		}
	}

	// part B-long: long quoted literals and long words between every pair of symbols / words,
	// under every spacing (fast paths for long tokens, buffer boundaries, state carried over a
	// literal); quick tier: one length per (left, right, quote) round-robin, thorough: all
	{
		lens := []int{15, 16, 17, 32, 64, 257}
		body := func(n int) string {
			b := make([]byte, n)
			for i := range b {
				b[i] = "2024-01-01T00:00:00Z abc=<>!^~"[i%30]
			}
			return string(b)
		}
		neigh := append([]c16Lexeme{c16Word("a"), c16Word("12"), c16Word("in")}, c16FullPool[17:]...)
		quotes := []byte{'\'', '"', '`'}
		k := 0
		for _, a := range neigh {
			for _, b := range neigh {
				for _, q := range quotes {
					k++
					for li, L := range lens {
						if !c.thorough() && k%len(lens) != li {
							continue
						}
						run.spacings("B-long", []c16Lexeme{a, c16Quote(q, body(L)), b}, "", "")
					}
				}
			}
			for li, L := range lens {
				if !c.thorough() && li%2 == 1 {
					continue
				}
				w := strings.Repeat("ab1_", L/4+1)[:L]
				run.spacings("B-long", []c16Lexeme{a, c16Word(w), a}, "", " ")
				run.emit("B-long", a.text()+strings.Repeat(" ", L)+a.text()+strings.Repeat("\t", L), nil, "")
			}
		}
	}

	// part B-runes: quoted literals holding runes whose case-folded form has ANOTHER UTF-8 length
	// (U+0130, the Kelvin / Angstrom / Ohm signs, U+1E9E, U+023A, U+023E), followed by words and
	// operators under every spacing: folding the case of anything but a word shifts offsets
	for _, lit := range []string{"\u0130stanbul", "\u212a", "\u212b\u2126", "x\u1e9ey", "\u023a\u023e\u0130\u0130"} {
		for _, q := range []byte{'\'', '"', '`'} {
			for _, tail := range [][]c16Lexeme{{c16Sym("|"), c16Word("Value"), c16Sym("="), c16Quote('\'', "v2")}, {c16Word("AND"), c16Word("Key"), c16Sym("<="), c16Word("12")},
				{c16Sym(","), c16Word("x1"), c16Sym("("), c16Word("In")}} {
				ls := append([]c16Lexeme{c16Word("where"), c16Word("key"), c16Sym("="), c16Quote(q, lit)}, tail...)
				run.spacings("B-runes", ls[2:], "", "")
				items := make([]c16Item, len(ls))
				for i, l := range ls {
					g := " "
					if i == 0 {
						g = ""
					}
					items[i] = c16Item{Gap: g, Lex: l}
				}
				run.emit("B-runes", c16Render(items, ""), items, "")
			}
		}
	}
	// part B-bom: a query that starts with the bytes of a byte-order mark: they are bytes of the
	// query like any others (offsets are offsets into the text the caller holds)
	for _, q := range []string{"\ufeffselect key where key = 'a'", "\ufeff select * where key ^= 'k' limit 3", "\ufeff", "\ufeff'lit' = key", "\ufeff`n` (1)"} {
		run.emit("B-bom", q, nil, "")
	}

	// part C: statement corpus, then seeded random
	for _, q := range c16Corpus {
		run.emit("C-corpus", q, nil, "")
	}
	nSeq, nStr := 2500, 2500
	if c.thorough() {
		nSeq, nStr = 40000, 40000
	}
	if c.search {
		nSeq, nStr = nSeq*10, nStr*10
	}
	for i := 0; i < nSeq; i++ {
		n := 1 + r.intn(12)
		items, tail := c16RandItems(r, n, true)
		run.emit("C-lexemes", c16Render(items, tail), items, tail)
		if i%5 == 0 && n <= 6 {
			// the same lexemes under every "" / " " spacing
			ls := make([]c16Lexeme, len(items))
			for j, it := range items {
				ls[j] = it.Lex
			}
			run.spacings("C-spacings", ls, "", "")
		}
	}
	for i := 0; i < nStr; i++ {
		run.emit("C-bytes", c16RandString(r, 5+r.intn(20)), nil, "")
	}
	e.m.Exhaustive = true
	e.m.Notes = append(e.m.Notes, fmt.Sprintf("part A is exhaustive: all %d-symbol strings of length <= %d", len(c16Alphabet), maxLen))
	return e.flush()
}
