package main

// C17: reported error positions lie inside the query and render with an aligned caret.
//  part A  renderer grid: SyntaxError / ExecuteError values constructed with NewSyntaxError /
//          NewExecuteError for every (length, position, leading / trailing white space,
//          padding) of a grid that is exhaustive around the 35 / 70 byte window boundaries;
//          BindQuery + SetPadding + Error() is compared byte for byte with the twin and
//          judged against Spec/CaretSpec.v.
//  part B  positions: valid statements from a typed grammar (short and > 70 bytes), corrupted
//          by one edit (delete / duplicate / replace / swap one token, delete / duplicate /
//          replace one byte; early, middle, late), and statements that are accepted but fail
//          while executing, x leading / trailing blanks x paddings.  Every positional error
//          returned by BuildPlan / Next / Batch is checked: Pos == -1 or 0 <= Pos < len(query);
//          for BuildPlan errors Pos in {-1, 0} or a Pos of Lexer.Split(query); rendering as in A.

import (
	"errors"
	"fmt"
	"strings"

	kvql "github.com/c4pt0r/kvql"
)

func init() { registry["C17"] = runC17 }

type c17Replay struct {
	Origin  string `json:"origin"` // renderer-grid | build | exec
	ErrType string `json:"error_type"`
	Query   string `json:"query"`
	Pos     int    `json:"pos"`
	Pad     int    `json:"padding"`
	Msg     string `json:"message"`
	Toks    []int  `json:"token_starts"`
	Obs     string `json:"error_text,omitempty"`
	Panic   string `json:"render_panic,omitempty"`
	Base    string `json:"base_statement,omitempty"`
	Edit    string `json:"edit,omitempty"`
	Mode    string `json:"mode,omitempty"`
	Byte    string `json:"byte_at_pos,omitempty"`
	History string `json:"calls_on_the_error_value,omitempty"`
	Stale   string `json:"state_carried_by_the_returned_error,omitempty"`
}

func c17IsSpace(b byte) bool { return b == ' ' || (b >= 9 && b <= 13) }

func c17Trim(s string) string {
	i, j := 0, len(s)
	for i < j && c17IsSpace(s[i]) {
		i++
	}
	for j > i && c17IsSpace(s[j-1]) {
		j--
	}
	return s[i:j]
}

func c17Lead(s string) int {
	i := 0
	for i < len(s) && c17IsSpace(s[i]) {
		i++
	}
	return i
}

func c17Z(n int) string {
	if n < 0 {
		return fmt.Sprintf("(%d)", n)
	}
	return fmt.Sprint(n)
}

func c17ZList(xs []int) string {
	p := make([]string, len(xs))
	for i, x := range xs {
		p[i] = c17Z(x)
	}
	return "[" + strings.Join(p, ";") + "]%Z"
}

// ---- wire format: texts as segments (see Corr/C17.v, [decode]) ----

type c17Seg struct {
	kind   byte // 'L' literal, 'S' blanks, 'N' newline, 'Q' stretch of the query
	lit    string
	n, off int
}

func c17Decode(q string, segs []c17Seg) string {
	var b strings.Builder
	for _, s := range segs {
		switch s.kind {
		case 'L':
			b.WriteString(s.lit)
		case 'S':
			b.WriteString(strings.Repeat(" ", s.n))
		case 'N':
			b.WriteByte('\n')
		case 'T':
			b.WriteByte('\t')
		case 'Q':
			b.WriteString(q[s.off : s.off+s.n])
		}
	}
	return b.String()
}

// c17Encode splits a text into newlines, runs of >= 4 blanks and literal pieces; a literal
// piece of >= 8 bytes that occurs in q (possibly between "... " and " ...") becomes a
// reference into q.  The result always decodes to exactly s (checked; else one literal).
func c17Encode(s, q string) []c17Seg {
	var segs []c17Seg
	lit := func(t string) {
		if t == "" {
			return
		}
		if q != "" && len(t) >= 8 {
			pre, suf, core := "", "", t
			if strings.HasPrefix(core, "... ") {
				pre, core = "... ", core[4:]
			}
			if strings.HasSuffix(core, " ...") && len(core) >= 4 {
				suf, core = " ...", core[:len(core)-4]
			}
			for _, try := range [][3]string{{pre, core, suf}, {"", t, ""}} {
				if len(try[1]) < 4 {
					continue
				}
				if off := strings.Index(q, try[1]); off >= 0 {
					if try[0] != "" {
						segs = append(segs, c17Seg{kind: 'L', lit: try[0]})
					}
					segs = append(segs, c17Seg{kind: 'Q', off: off, n: len(try[1])})
					if try[2] != "" {
						segs = append(segs, c17Seg{kind: 'L', lit: try[2]})
					}
					return
				}
			}
		}
		segs = append(segs, c17Seg{kind: 'L', lit: t})
	}
	start := 0
	for i := 0; i < len(s); {
		switch {
		case s[i] == '\n' || s[i] == '\t':
			lit(s[start:i])
			if s[i] == '\n' {
				segs = append(segs, c17Seg{kind: 'N'})
			} else {
				segs = append(segs, c17Seg{kind: 'T'})
			}
			i++
			start = i
		case s[i] == ' ':
			j := i
			for j < len(s) && s[j] == ' ' {
				j++
			}
			if j-i >= 4 {
				lit(s[start:i])
				segs = append(segs, c17Seg{kind: 'S', n: j - i})
				start = j
			}
			i = j
		default:
			i++
		}
	}
	lit(s[start:])
	if c17Decode(q, segs) != s {
		return []c17Seg{{kind: 'L', lit: s}}
	}
	return segs
}

func c17Segs(segs []c17Seg) string {
	p := make([]string, len(segs))
	for i, s := range segs {
		switch s.kind {
		case 'L':
			p[i] = "Lit " + coqStr(s.lit)
		case 'S':
			p[i] = fmt.Sprintf("Sp %d", s.n)
		case 'N':
			p[i] = "NL"
		case 'T':
			p[i] = "Tab"
		case 'Q':
			p[i] = fmt.Sprintf("Sub %d %d", s.off, s.n)
		}
	}
	return coqList(p)
}

func c17TokenStarts(q string) (starts []int) {
	defer func() {
		if r := recover(); r != nil {
			starts = nil
		}
	}()
	for _, t := range kvql.NewLexer(q).Split() {
		starts = append(starts, t.Pos)
	}
	return
}

// c17PosErr extracts the positional error (type, pointer to the binder, position, message).
func c17PosErr(err error) (tp string, b kvql.QueryBinder, pos int, msg string, ok bool) {
	var se *kvql.SyntaxError
	if errors.As(err, &se) {
		return "syntax", se, se.Pos, se.Message, true
	}
	var ee *kvql.ExecuteError
	if errors.As(err, &ee) {
		return "exec", ee, ee.Pos, ee.Message, true
	}
	return "", nil, 0, "", false
}

var c17History int

// c17Emit binds the query, renders, records the case and the direct verdicts.
func c17Emit(e *emitter, origin string, err error, q string, pad int, base, edit, mode string) {
	tp, binder, pos, msg, ok := c17PosErr(err)
	if !ok {
		e.count("origin=" + origin + "/non_positional_error")
		return
	}
	rp := c17Replay{Origin: origin, ErrType: tp, Query: q, Pos: pos, Pad: pad, Msg: msg,
		Toks: c17TokenStarts(q), Base: base, Edit: edit, Mode: mode}
	var obs string
	func() {
		defer func() {
			if r := recover(); r != nil {
				rp.Panic = fmt.Sprint(r)
			}
		}()
		// an error handed out by the library is a FRESH value: no query bound yet, the default
		// padding (a value shared between statements would carry the last caller's settings)
		if origin == "build" || origin == "exec" {
			switch x := err.(type) {
			case *kvql.SyntaxError:
				if x.Query != "" || x.Padding != kvql.DefaultErrorPadding {
					rp.Stale = fmt.Sprintf("as returned: Query=%q Padding=%d (default %d)", x.Query, x.Padding, kvql.DefaultErrorPadding)
				}
			case *kvql.ExecuteError:
				if x.Query != "" || x.Padding != kvql.DefaultErrorPadding {
					rp.Stale = fmt.Sprintf("as returned: Query=%q Padding=%d (default %d)", x.Query, x.Padding, kvql.DefaultErrorPadding)
				}
			}
		}
		// the rendering is a function of the query and padding bound NOW: a quarter of the cases
		// each reach that state through another history of calls on the same error value
		c17History++
		switch c17History % 4 {
		case 1:
			rp.History = "BindQuery(q) SetPadding(pad+5) Error() SetPadding(pad) Error()"
			binder.BindQuery(q)
			binder.SetPadding(pad + 5)
			_ = err.Error()
		case 2:
			rp.History = "Error() BindQuery(other) Error() BindQuery(q) SetPadding(pad) Error()"
			_ = err.Error()
			binder.BindQuery("select * where other = 'x'")
			_ = err.Error()
		case 3:
			rp.History = "BindQuery(q) SetPadding(pad) Error() Error()"
			binder.BindQuery(q)
			binder.SetPadding(pad)
			_ = err.Error()
		}
		if c17History%4 != 1 && c17History%4 != 3 {
			binder.BindQuery(q) // (histories 1 and 3 keep the binding they made)
		}
		binder.SetPadding(pad)
		obs = err.Error()
	}()
	rp.Obs = obs
	if pos >= 0 && pos < len(q) {
		rp.Byte = fmt.Sprintf("%q", q[pos])
	}
	// outside the model: Go would decode a rune at the trimmed ends
	if t := c17Trim(q); len(t) > 0 && (t[0] >= 0x80 || t[len(t)-1] >= 0x80) {
		e.m.OutOfModel++
		e.count("out_of_model=non_ascii_at_trimmed_end")
		return
	}
	errN, origN := 0, 0
	if tp == "exec" {
		errN = 1
	}
	switch origin {
	case "build":
		origN = 1
	case "exec":
		origN = 2
	}
	obsTerm := "None"
	if rp.Panic == "" {
		obsTerm = "(Some " + c17Segs(c17Encode(obs, q)) + ")"
	}
	wireToks := rp.Toks
	if origN != 1 {
		wireToks = nil // only the parse/check verdict reads them
	}
	term := fmt.Sprintf("Case %d %d %s %s %s %s %s %s [] []", errN, origN, c17Segs(c17Encode(q, "")), c17Z(pos), c17Z(pad),
		c17Segs(c17Encode(msg, "")), c17ZList(wireToks), obsTerm)
	lead := c17Lead(q)
	tlen := len(c17Trim(q))
	judged := pad >= 0 && (pos == -1 || (pos >= 0 && pos < len(q) && !c17IsSpace(q[pos])))
	nontrivial := judged && (origN > 0 || lead > 0 || tlen > 70)
	idx := e.add(term, rp, nontrivial)

	// measured distribution
	e.count("origin=" + origin)
	e.count("type=" + tp)
	e.count(fmt.Sprintf("pad=%d", pad))
	switch {
	case lead == 0:
		e.count("lead=0")
	case lead < 36:
		e.count("lead=1..35")
	default:
		e.count("lead>=36")
	}
	if len(q)-lead-tlen > 0 {
		e.count("trail>0")
	} else {
		e.count("trail=0")
	}
	if tlen > 70 {
		e.count("trimmed_len>70")
	} else {
		e.count("trimmed_len<=70")
	}
	p := pos - lead
	switch {
	case pos == -1:
		e.count("pos=eof")
	case pos < 0 || pos >= len(q):
		e.count("pos=outside_query")
	case c17IsSpace(q[pos]):
		e.count("pos=on_blank")
	case tlen > 70 && p <= 35:
		e.count("pos=window_head")
	case tlen > 70 && tlen-p+35 > 70:
		e.count("pos=window_middle")
	case tlen > 70:
		e.count("pos=window_tail")
	default:
		e.count("pos=whole_query_shown")
	}
	if judged {
		e.count("caret_judged")
	}
	if edit != "" {
		e.count("edit=" + strings.SplitN(edit, "@", 2)[0])
	}

	// direct verdicts on the implementation
	if rp.Stale != "" {
		e.fail(idx, "a positional error returned by the library already carries a bound query or a non-default padding ("+rp.Stale+"): rendered the documented way (BindQuery, then Error) it shows another statement's settings", "C17/stale-error-value", rp)
		return
	}
	if rp.Panic != "" {
		e.fail(idx, "rendering the error panicked: "+rp.Panic, "C17/render-panic", rp)
		return
	}
	if origN > 0 && !(pos == -1 || (pos >= 0 && pos < len(q))) {
		e.fail(idx, fmt.Sprintf("error position %d is neither -1 nor inside the %d-byte query", pos, len(q)), "C17/pos-range", rp)
		return
	}
	if origN == 1 && pos != -1 && pos != 0 {
		found := false
		for _, s := range rp.Toks {
			if s == pos {
				found = true
			}
		}
		if !found {
			e.fail(idx, fmt.Sprintf("parse/check error position %d is not the start of a token", pos), "C17/pos-token-start", rp)
		}
	}
}

// ---------------------------------------------------------------- part A: renderer grid

const c17Alphabet = "abcdefghijklmnopqrstuvwxyzABCDEFGHIJKLMNOPQRSTUVWXYZ0123456789"

// filler text: 62-periodic distinct bytes (a caret off by < 62 columns hits another byte),
// a blank at every 9th offset except the ends; variant 1 puts a tab / newline inside.
func c17Text(n, variant int) string {
	b := make([]byte, n)
	for i := range b {
		b[i] = c17Alphabet[(i*7+variant*3)%len(c17Alphabet)]
		if i%9 == 5 && i != 0 && i != n-1 {
			b[i] = ' '
			if variant == 1 && i%18 == 5 {
				b[i] = '\t'
			}
			if variant == 1 && i%27 == 5 {
				b[i] = '\n'
			}
		}
	}
	if variant == 0 {
		// characters that mean something to formatting functions, all over the text
		for i := 3; i < n-1; i += 11 {
			b[i] = "%\\{$"[(i/11)%4]
			if b[i] == '%' && i+1 < n-1 {
				b[i+1] = "sd%v2"[(i/11)%5]
			}
		}
	}
	if variant == 1 && n > 70 {
		// multi-byte characters spread over the text (2-, 3- and 4-byte sequences), so that the
		// cut points of a 70-byte excerpt fall inside / next to them for some position
		mb := []string{"\u00e9", "\u65e5", "\U0001F600", "\u00fc"}
		for i, k := 7, 0; i+4 < n-1; i, k = i+13, k+1 {
			copy(b[i:], mb[k%4])
		}
	}
	if variant == 2 && n >= 6 {
		copy(b, "... ") // text that itself looks like the elision marker
		copy(b[n-2:], "..")
	}
	return string(b)
}

func runC17Grid(c *runCtx, e *emitter) {
	lengths := []int{1, 2, 3, 10, 34, 35, 36, 37, 69, 70, 71, 72, 73, 100, 105, 106, 107, 120}
	if c.thorough() || c.search {
		lengths = nil
		for l := 1; l <= 120; l++ {
			lengths = append(lengths, l)
		}
	}
	leads := []string{"", " ", "   ", strings.Repeat(" ", 40), "\t \n", "\v ", " \f\v  \r"}
	trails := []string{"", "  ", " \n"}
	pads := []int{0, 7, 12}
	msgs := []string{"Bad Expression", "", "Expect token ) but got EOF", "quote \" and\nnewline"}
	k := 0
	for _, L := range lengths {
		var positions []int
		if c.thorough() || c.search {
			for p := 0; p < L; p++ {
				positions = append(positions, p)
			}
		} else {
			seen := map[int]bool{}
			for _, p := range []int{0, 1, 2, 33, 34, 35, 36, 37, 38, L - 38, L - 37, L - 36, L - 35, L - 34, L - 33, L - 3, L - 2, L - 1, L / 2} {
				if p >= 0 && p < L && !seen[p] {
					seen[p] = true
					positions = append(positions, p)
				}
			}
		}
		for li, lead := range leads {
			for ti, trail := range trails {
				variant := 0
				if li == 4 || ti == 2 {
					variant = 1
				}
				if L%5 == 0 && li == 1 {
					variant = 2
				}
				q := lead + c17Text(L, variant) + trail
				// offsets are into the bound query: trimmed offset + leading blanks
				cand := []int{-1}
				for _, p := range positions {
					cand = append(cand, len(lead)+p)
				}
				// positions that no library error should carry; the renderer must still not
				// panic and the twin must agree: inside the blanks, past the end, below -1
				cand = append(cand, 0, len(q), len(q)+1, len(q)+50, -2, -40)
				if len(lead) > 0 {
					cand = append(cand, len(lead)-1)
				}
				if len(trail) > 0 {
					cand = append(cand, len(q)-1)
				}
				for _, pos := range cand {
					k++
					pad := pads[k%3]
					if k%97 == 0 {
						pad = -3
					}
					msg := msgs[0]
					if k%11 == 0 {
						msg = msgs[(k/11)%len(msgs)]
					}
					var err error
					if k%2 == 0 {
						err = kvql.NewSyntaxError(pos, "%s", msg)
					} else {
						err = kvql.NewExecuteError(pos, "%s", msg)
					}
					c17Emit(e, "renderer-grid", err, q, pad, "", "", "")
				}
			}
		}
	}
	// nothing bound / nothing but blanks
	for _, q := range []string{"", " ", "    ", "\t\n"} {
		for _, pos := range []int{-1, 0, 1, 5} {
			c17Emit(e, "renderer-grid", kvql.NewSyntaxError(pos, "Expect put, delete, select or where keyword"), q, 7, "", "", "")
			c17Emit(e, "renderer-grid", kvql.NewExecuteError(pos, "x"), q, 0, "", "", "")
		}
	}
}

// ---------------------------------------------------------------- part B: statements

type c17Gen struct{ r *rng }

var c17Lits = []string{"'a'", "'k3'", "'zz'", "'k'", "\"b c\"", "'x,y'", "''", "'50%'", "'img%20'", "'%s%d'", "'a\\b'", "'{0}$1'"}
var c17Nums = []string{"1", "2", "10", "0", "7"}

func (g *c17Gen) cat(parts ...[]string) []string {
	var out []string
	for _, p := range parts {
		out = append(out, p...)
	}
	return out
}
func c17w(xs ...string) []string { return xs }

func (g *c17Gen) str(d int) []string {
	r := g.r
	if d <= 0 {
		switch r.intn(4) {
		case 0:
			return c17w("key")
		case 1:
			return c17w("value")
		default:
			return c17w(pick(r, c17Lits))
		}
	}
	switch r.intn(9) {
	case 0:
		return c17w("key")
	case 1:
		return c17w("value")
	case 2:
		return c17w(pick(r, c17Lits))
	case 3:
		return g.cat(c17w(pick(r, []string{"upper", "lower"}), "("), g.str(d-1), c17w(")"))
	case 4:
		return g.cat(c17w("substr", "("), g.str(d-1), c17w(",", pick(r, c17Nums), ",", pick(r, c17Nums), ")"))
	case 5:
		return g.cat(c17w("str", "("), g.num(d-1), c17w(")"))
	case 6:
		return c17w("json", "(", "value", ")", "[", "'a'", "]")
	case 7:
		return g.cat(c17w("split", "("), g.str(d-1), c17w(",", "','", ")", "[", pick(r, []string{"0", "1"}), "]"))
	default:
		return g.cat(c17w("("), g.str(d-1), c17w("+"), g.str(d-1), c17w(")"))
	}
}

func (g *c17Gen) num(d int) []string {
	r := g.r
	if d <= 0 {
		switch r.intn(3) {
		case 0:
			return c17w(pick(r, c17Nums))
		case 1:
			return c17w("2.5")
		default:
			return c17w("int", "(", "value", ")")
		}
	}
	switch r.intn(7) {
	case 0:
		return c17w(pick(r, c17Nums))
	case 1:
		return c17w("int", "(", "value", ")")
	case 2:
		return g.cat(c17w("len", "("), g.str(d-1), c17w(")"))
	case 3:
		return c17w("float", "(", "value", ")")
	case 4:
		return g.cat(c17w("("), g.num(d-1), c17w(pick(r, []string{"+", "-", "*"})), g.num(d-1), c17w(")"))
	case 5:
		return g.cat(g.num(d-1), c17w(pick(r, []string{"*", "+"})), c17w(pick(r, c17Nums)))
	default:
		return c17w("1.25")
	}
}

func (g *c17Gen) pred(d int) []string {
	r := g.r
	n := 11
	if d > 0 {
		n = 16
	}
	switch r.intn(n) {
	case 0:
		return g.cat(c17w("key"), c17w(pick(r, []string{"=", "!=", ">", "<=", "^=", "~="})), c17w(pick(r, c17Lits)))
	case 1:
		return g.cat(g.str(d), c17w(pick(r, []string{"=", "!=", ">", ">=", "<", "<="})), c17w(pick(r, c17Lits)))
	case 2:
		return g.cat(g.str(d), c17w("^="), c17w(pick(r, c17Lits)))
	case 3:
		return g.cat(g.num(d), c17w(pick(r, []string{"=", "!=", ">", ">=", "<", "<="})), g.num(d-1))
	case 4:
		return g.cat(g.str(d), c17w("in", "("), c17w(pick(r, c17Lits), ",", pick(r, c17Lits)), c17w(")"))
	case 5:
		return g.cat(g.num(d), c17w("in", "(", pick(r, c17Nums), ",", pick(r, c17Nums), ")"))
	case 6:
		return g.cat(g.str(d), c17w("between", "'a'", "and", "'zz'"))
	case 7:
		return g.cat(g.num(d), c17w("between", "0", "and", "99"))
	case 8:
		return c17w(pick(r, []string{"is_int", "is_float"}), "(", "value", ")")
	case 9:
		return g.cat(c17w("value"), c17w("~="), c17w("'^[0-9]+$'"))
	case 10:
		return g.cat(c17w("key"), c17w("^="), c17w("'k'"))
	case 11:
		return g.cat(c17w("!", "("), g.pred(d-1), c17w(")"))
	case 12:
		return g.cat(c17w("("), g.pred(d-1), c17w(")"))
	default:
		return g.cat(g.pred(d-1), c17w(pick(r, []string{"&", "|", "and", "or"})), g.pred(d-1))
	}
}

// predicates that are accepted by BuildPlan but fail while executing (on the store below)
var c17Faulty = [][]string{
	c17w("nosuch", "(", "key", ")", "=", "'a'"),
	c17w("upper", "(", "key", ",", "key", ")", "=", "'A'"),
	c17w("substr", "(", "key", ",", "'a'", ",", "1", ")", "=", "'k'"),
	c17w("key", "between", "'z'", "and", "'a'"),
	c17w("int", "(", "value", ")", "between", "9", "and", "1"),
	c17w("split", "(", "value", ")", "[", "0", "]", "=", "'a'"),
	c17w("json", "(", "value", ")", "[", "'a'", "]", "=", "'x'"),
	c17w("int", "(", "key", ")", ">", "1"),
	c17w("key", "in", "upper", "(", "key", ")"),
	c17w("l2_distance", "(", "key", ",", "value", ")", ">", "1"),
	c17w("len", "(", "key", ",", "value", ")", ">", "1"),
	c17w("join", "(", ")", "=", "'a'"),
	c17w("split", "(", "value", ",", "','", ")", "[", "'a'", "]", "=", "'a'"),
	c17w("key", "+", "1", "=", "'a'"),
	c17w("lower", "(", "int", "(", "value", ")", ")", "=", "'a'"),
	// names written in back quotes: the token starts at the opening quote
	c17w("`no such`", "(", "key", ")", "=", "'a'"),
	c17w("`zz9`", "=", "'a'"),
	c17w("upper", "(", "`nofield`", ")", "=", "'A'"),
	c17w("`upper`", "(", "key", ",", "`x y`", ")", "=", "'A'"),
}

// c17Backquote writes function names and aliases of a statement in back quotes (same tokens for
// the parser, other offsets inside the token)
func c17Backquote(r *rng, lex []string) []string {
	out := append([]string{}, lex...)
	for i, l := range out {
		isAlias := len(l) == 3 && l[:2] == "zq"
		isFunc := i+1 < len(out) && out[i+1] == "(" && len(l) > 1 && l[0] >= 'a' && l[0] <= 'z' && l != "in" && l != "and" && l != "or" && l != "put" && l != "by"
		if (isAlias || isFunc) && r.chance(2, 3) {
			out[i] = "`" + l + "`"
		}
	}
	return out
}

func (g *c17Gen) where(long bool, faulty int) []string {
	r := g.r
	var parts [][]string
	n := 1
	if long {
		n = 4 + r.intn(4)
	}
	for i := 0; i < n; i++ {
		d := 1 + r.intn(2)
		if !long {
			d = r.intn(2)
		}
		parts = append(parts, g.pred(d))
	}
	if faulty >= 0 {
		f := c17Faulty[faulty]
		switch r.intn(3) {
		case 0:
			parts = append([][]string{f}, parts...)
		case 1:
			parts = append(parts, f)
		default:
			i := r.intn(len(parts) + 1)
			parts = append(parts[:i], append([][]string{f}, parts[i:]...)...)
		}
	}
	var out []string
	op := pick(r, []string{"&", "|", "and", "or"})
	for i, p := range parts {
		if i > 0 {
			if faulty < 0 {
				op = pick(r, []string{"&", "|", "and", "or"})
			}
			out = append(out, op)
		}
		out = append(out, p...)
	}
	return out
}

// statement returns the lexemes of a (mostly) valid statement.
func (g *c17Gen) statement(long bool, faulty int) []string {
	r := g.r
	kind := r.intn(10)
	if faulty >= 0 {
		kind = r.intn(6)
	}
	switch {
	case kind <= 1: // where-only / select *
		out := g.cat(c17w("select", "*", "where"), g.where(long, faulty))
		if kind == 0 && r.chance(1, 2) {
			out = out[2:]
		}
		return g.tail(out, nil, false)
	case kind <= 4: // projection with aliases
		var fields, aliases []string
		nf := 1 + r.intn(3)
		for i := 0; i < nf; i++ {
			if i > 0 {
				fields = append(fields, ",")
			}
			if r.chance(1, 2) {
				fields = append(fields, g.str(1)...)
			} else {
				fields = append(fields, g.num(1)...)
			}
			if r.chance(1, 2) {
				a := fmt.Sprintf("zq%d", i)
				fields = append(fields, "as", a)
				aliases = append(aliases, a)
			}
		}
		out := g.cat(c17w("select"), fields, c17w("where"), g.where(long, faulty))
		return g.tail(out, aliases, false)
	case kind == 5: // aggregate
		out := g.cat(c17w("select"), c17w(pick(r, []string{"count", "sum", "min", "max", "avg"}), "(", "int", "(", "value", ")", ")", "as", "zq0"),
			c17w(",", "key"), c17w("where"), g.where(long, faulty), c17w("group", "by", "key"))
		return g.tail(out, []string{"zq0"}, true)
	case kind == 6: // put
		out := c17w("put")
		n := 1 + r.intn(2)
		if long {
			n = 4 + r.intn(3)
		}
		for i := 0; i < n; i++ {
			if i > 0 {
				out = append(out, ",")
			}
			out = append(out, "(", pick(r, c17Lits), ",")
			if r.chance(1, 2) {
				out = append(out, "upper", "(", pick(r, c17Lits), ")")
			} else {
				out = append(out, pick(r, c17Lits), "+", pick(r, c17Lits))
			}
			out = append(out, ")")
		}
		return out
	case kind == 7: // remove
		out := c17w("remove")
		n := 1 + r.intn(3)
		if long {
			n = 9 + r.intn(5)
		}
		for i := 0; i < n; i++ {
			if i > 0 {
				out = append(out, ",")
			}
			out = append(out, pick(r, c17Lits))
		}
		return out
	default: // delete
		out := g.cat(c17w("delete", "where"), g.where(long, faulty))
		if r.chance(1, 2) {
			out = append(out, "limit", pick(r, c17Nums))
		}
		return out
	}
}

func (g *c17Gen) tail(out, aliases []string, grouped bool) []string {
	r := g.r
	if r.chance(1, 3) {
		f := "key"
		if len(aliases) > 0 && r.chance(1, 2) {
			f = pick(r, aliases)
		} else if out[0] == "select" && out[1] != "*" && !grouped {
			f = ""
		}
		if f != "" {
			out = append(out, "order", "by", f)
			if r.chance(1, 2) {
				out = append(out, pick(r, []string{"asc", "desc"}))
			}
		}
	}
	if r.chance(1, 3) {
		out = append(out, "limit", pick(r, c17Nums))
		if r.chance(1, 2) {
			out = append(out, ",", pick(r, c17Nums))
		}
	}
	return out
}

func c17IsWord(s string) bool {
	c := s[0]
	return c == '_' || (c >= 'a' && c <= 'z') || (c >= 'A' && c <= 'Z') || (c >= '0' && c <= '9')
}

// render joins lexemes: mode 0 one blank everywhere, 1 blanks only where two lexemes would
// fuse (word word) or around word operators, 2 two blanks everywhere.
func c17Render(lex []string, mode int) string {
	var b strings.Builder
	for i, l := range lex {
		if i > 0 {
			switch mode {
			case 0:
				b.WriteByte(' ')
			case 2:
				b.WriteString("  ")
			default:
				p := lex[i-1]
				if c17IsWord(p) && c17IsWord(l) {
					b.WriteByte(' ')
				} else if (p == "!" || p == "<" || p == ">" || p == "^" || p == "~") && l[0] == '=' {
					b.WriteByte(' ')
				}
			}
		}
		b.WriteString(l)
	}
	return b.String()
}

var c17TokPool = []string{"select", "where", "key", "value", "(", ")", "[", "]", ",", "=", "!=", "^=", "&", "|", "and", "or",
	"in", "between", "limit", "order", "by", "group", "as", "'s'", "3", "1.5", "*", "+", "!", "nm", "true", ";", "put", "delete", "asc"}

const c17BytePool = "'\"()[],=!<>&|*+ xk1`;~^%\\"

func c17PickLoc(r *rng, n, loc int) int {
	if n <= 0 {
		return 0
	}
	switch loc {
	case 0: // early
		return r.intn(min(n, 3))
	case 2: // late
		return n - 1 - r.intn(min(n, 3))
	default:
		return r.intn(n)
	}
}

var c17Store = [][2]string{
	{"k1", "12"}, {"k2", "7"}, {"k3", "abc"}, {"k4", `{"a":"x","n":3}`}, {"k5", "x,y,z"}, {"k6", "2.5"},
	{"k7", ""}, {"a", "1"}, {"zz", "99"},
}

// c17Provenance records the trees of an accepted statement (as parsed, and after constant
// folding) and the statement / clause positions, for the provenance check of Model/ErrPos.v.
func c17Provenance(e *emitter, q, base, edit string) {
	var roots []kvql.Expression
	var spos []int
	ok := true
	func() {
		defer func() {
			if r := recover(); r != nil {
				ok = false
			}
		}()
		stmt, err := kvql.NewParser(q).Parse()
		if err != nil {
			ok = false
			return
		}
		addLimit := func(l *kvql.LimitStmt) {
			if l != nil {
				spos = append(spos, l.Pos)
			}
		}
		switch s := stmt.(type) {
		case *kvql.SelectStmt:
			spos = append(spos, s.Pos, s.Where.Pos)
			roots = append(roots, s.Where.Expr)
			roots = append(roots, s.Fields...)
			if s.Order != nil {
				spos = append(spos, s.Order.Pos)
				for _, o := range s.Order.Orders {
					roots = append(roots, o.Field)
				}
			}
			if s.GroupBy != nil {
				spos = append(spos, s.GroupBy.Pos)
				for _, g := range s.GroupBy.Fields {
					roots = append(roots, g.Expr)
				}
			}
			addLimit(s.Limit)
		case *kvql.DeleteStmt:
			spos = append(spos, s.Pos, s.Where.Pos)
			roots = append(roots, s.Where.Expr)
			addLimit(s.Limit)
		case *kvql.PutStmt:
			spos = append(spos, s.Pos)
			for _, kv := range s.KVPairs {
				roots = append(roots, kv.Key, kv.Value)
			}
		case *kvql.RemoveStmt:
			spos = append(spos, s.Pos)
			roots = append(roots, s.Keys...)
		default:
			ok = false
		}
	}()
	if !ok {
		e.count("provenance=not_available")
		return
	}
	var terms []string
	neg := false
	add := func(x kvql.Expression) {
		t, good := coqExpr(x)
		if !good {
			ok = false
		}
		terms = append(terms, t)
	}
	for _, r := range roots {
		if r == nil {
			continue
		}
		add(r)
	}
	// the optimizer's constant folder / re-association (mutates the trees: rendered last)
	for _, r := range roots {
		if r == nil {
			continue
		}
		func() {
			defer func() {
				if rec := recover(); rec != nil {
					ok = false
				}
			}()
			eo := kvql.ExpressionOptimizer{Root: r}
			add(eo.Optimize())
		}()
	}
	for _, p := range spos {
		if p < 0 {
			neg = true
		}
	}
	if !ok {
		e.count("provenance=tree_outside_coq_ast")
		return
	}
	starts := c17TokenStarts(q)
	sp := make([]string, len(spos))
	for i, p := range spos {
		sp[i] = fmt.Sprint(natPos(p))
	}
	rp := c17Replay{Origin: "accepted-statement", Query: q, Toks: starts, Base: base, Edit: edit,
		Msg: "provenance of " + fmt.Sprint(len(terms)) + " trees"}
	term := fmt.Sprintf("Case 0 3 %s 0 0 [] %s (Some []) %s %s", c17Segs(c17Encode(q, "")), c17ZList(starts),
		coqList(terms), coqList(sp))
	idx := e.add(term, rp, true)
	e.count("origin=accepted-statement(provenance)")
	if neg {
		e.fail(idx, "a statement or clause position is negative", "C17/stmt-pos-negative", rp)
	}
}

// runStatement evaluates one query text under one (lead, trail, pad) setting.
func c17Run(e *emitter, text string, lead, trail string, pad int, base, edit string) {
	q := lead + text + trail
	for mi, batch := range []bool{false, true} {
		mode := "row"
		if batch {
			mode = "batch"
		}
		st := newStore(c17Store)
		res := runQuery(q, st, batch, 3, true)
		if res.Panic != "" {
			if res.BuildErr || res.Rows == nil {
				e.count("statement_panicked(not_C17)")
			}
			return
		}
		if res.Err == nil {
			if mi == 0 {
				e.count("statement=accepted_and_ran")
				c17Provenance(e, q, base, edit)
			}
			continue
		}
		if res.BuildErr {
			c17Emit(e, "build", res.Err, q, pad, base, edit, "")
			return // BuildPlan does not depend on the mode
		}
		c17Emit(e, "exec", res.Err, q, pad, base, edit, mode)
	}
}

func runC17Statements(c *runCtx, e *emitter) {
	g := &c17Gen{r: newRng(c.seed)}
	r := g.r
	nBase := 150
	if c.thorough() {
		nBase = 2000
	}
	if c.search {
		nBase *= 6
	}
	leads := []string{"", " ", "   ", strings.Repeat(" ", 40)}
	trails := []string{"", "  "}
	pads := []int{0, 7, 12}
	combo := 0
	next := func() (string, string, int) {
		combo++
		return leads[combo%4], trails[(combo/4)%2], pads[(combo/8)%3]
	}
	for b := 0; b < nBase; b++ {
		long := b%2 == 1
		faulty := -1
		if b%5 == 4 {
			faulty = (b / 5) % len(c17Faulty)
		}
		lex := g.statement(long, faulty)
		if b%4 == 2 {
			lex = c17Backquote(r, lex)
			e.count("statement_with_backquoted_names")
		}
		mode := b % 3
		base := c17Render(lex, mode)
		if len(base) > 70 {
			e.count("base_len>70")
		} else {
			e.count("base_len<=70")
		}
		// the statement itself (valid, or failing at run time)
		l, t, p := next()
		c17Run(e, base, l, t, p, base, "none")
		if faulty >= 0 {
			l, t, p = next()
			c17Run(e, base, l, t, p, base, "none")
		}
		// single-edit corruptions
		for loc := 0; loc < 3; loc++ {
			locName := []string{"early", "middle", "late"}[loc]
			for ek := 0; ek < 7; ek++ {
				var text, edit string
				switch ek {
				case 0:
					i := c17PickLoc(r, len(lex), loc)
					nl := append(append([]string{}, lex[:i]...), lex[i+1:]...)
					text, edit = c17Render(nl, mode), fmt.Sprintf("delete-token@%s #%d %q", locName, i, lex[i])
				case 1:
					i := c17PickLoc(r, len(lex), loc)
					nl := append(append(append([]string{}, lex[:i+1]...), lex[i]), lex[i+1:]...)
					text, edit = c17Render(nl, mode), fmt.Sprintf("duplicate-token@%s #%d %q", locName, i, lex[i])
				case 2:
					i := c17PickLoc(r, len(lex), loc)
					nl := append([]string{}, lex...)
					nl[i] = pick(r, c17TokPool)
					text, edit = c17Render(nl, mode), fmt.Sprintf("replace-token@%s #%d %q -> %q", locName, i, lex[i], nl[i])
				case 3:
					i := c17PickLoc(r, len(lex)-1, loc)
					nl := append([]string{}, lex...)
					if len(nl) > 1 {
						nl[i], nl[i+1] = nl[i+1], nl[i]
					}
					text, edit = c17Render(nl, mode), fmt.Sprintf("swap-tokens@%s #%d", locName, i)
				case 4:
					i := c17PickLoc(r, len(base), loc)
					text, edit = base[:i]+base[i+1:], fmt.Sprintf("delete-byte@%s #%d %q", locName, i, base[i])
				case 5:
					i := c17PickLoc(r, len(base), loc)
					text, edit = base[:i+1]+base[i:], fmt.Sprintf("duplicate-byte@%s #%d %q", locName, i, base[i])
				default:
					i := c17PickLoc(r, len(base), loc)
					ch := c17BytePool[r.intn(len(c17BytePool))]
					text, edit = base[:i]+string(ch)+base[i+1:], fmt.Sprintf("replace-byte@%s #%d %q -> %q", locName, i, base[i], ch)
				}
				if strings.TrimSpace(text) == "" {
					continue
				}
				l, t, p := next()
				c17Run(e, text, l, t, p, base, edit)
			}
		}
		// truncation: every statement cut after its k-th lexeme reports end of input or a token
		if b%4 == 0 {
			k := 1 + r.intn(len(lex))
			l, t, p := next()
			c17Run(e, c17Render(lex[:k], mode), l, t, p, base, fmt.Sprintf("truncate@late #%d", k))
		}
	}
}

// c17MultiByte: statements longer than 70 bytes whose literals hold multi-byte UTF-8 text at every
// distance 30..40 bytes before a failing token (the left cut of the excerpt is 35 bytes before
// the offset: it may fall inside a character; the caret must stay under the offset's byte)
func c17MultiByte(e *emitter) {
	mbs := []string{"h\u00e9llo", "\u65e5\u672c\u8a9e", "\U0001F600\U0001F600", "na\u00efve caf\u00e9"}
	k := 0
	for _, mb := range mbs {
		for fill := 24; fill <= 36; fill++ {
			k++
			pad := strings.Repeat("x", fill)
			// syntax error late in a long statement (the stray `)`), run-time error (division by zero)
			q1 := "select * where key ^= 'k' & value != '" + mb + "' & upper(key) != '" + pad + "' & value = ) & key != 'a long tail of the statement'"
			q2 := "select key, 10 / (strlen('" + mb + "') - strlen('" + mb + "')) + strlen('" + pad + "') as d where key ^= 'k' & value != 'a long tail of the statement'"
			for _, q := range []string{q1, q2} {
				c17Run(e, q, []string{"", "  "}[k%2], "", []int{0, 7, 12}[k%3], q, "multi-byte literal before the fault")
			}
		}
	}
}

func runC17(c *runCtx) error {
	e := newEmitter(c.out, "C17", "From Coq Require Import List String ZArith.\nFrom KV Require Import Base.Bytes Model.Ast Corr.C17.\nImport ListNotations.\nOpen Scope string_scope.\n", 700)
	e.m.Rule = "part A: SyntaxError/ExecuteError built by the harness for the grid (trimmed length, position incl. -1 and out-of-range, leading white space 0/1/3/40/tab-newline, trailing 0/2/newline, padding 0/7/12/-3); part B: positional errors returned by BuildPlan/Next/Batch for generated statements, their single-edit corruptions and run-time failing statements x leading 0/1/3/40 x trailing 0/2 x padding 0/7/12. non-trivial = the caret verdict applies (pos = -1 or a non-blank byte, padding >= 0) and the error came from the library or the query has leading white space or more than 70 bytes after trimming; distinct = distinct Gallina case terms"
	runC17Statements(c, e)
	c17MultiByte(e)
	runC17Grid(c, e)
	runC17PA(c, e)
	t3Stream(c, e)
	g2Stream(c, e)
	e.m.Exhaustive = c.thorough()
	e.m.Notes = append(e.m.Notes,
		"white space produced by the generators is ASCII; the lexer separates tokens at ' ' only, so statement cases use blanks (tabs/newlines appear in the renderer grid only)",
		"token starts: where the lexer twin covers the query text, those the twin computes from it (Corr/C17.v true_starts; a difference to Lexer.Split's own offsets is code 1); otherwise Lexer.Split's")
	e.perShard = min(1500, max(150, (len(e.cases)+15)/16))
	return e.flush()
}

// ---------------------------------------------------------------- PA: statement TEXT -> accept /
// reject, through the composite twin Model/ParseCheck.parse_check (corigin = 4 of Corr/C17.v).
// For every text -- valid statements of c17Gen, their single-edit corruptions, statements failing
// at run time (c17Faulty) and ILL-TYPED statements (an operand, operator, function or clause of a
// valid statement replaced so that the static checker, the call validation or the plan builder
// has to reject it, the fault at a random place) -- Optimizer.BuildPlan is observed: plan /
// error class / error position / whether Parser.Parse itself or a later step of BuildPlan
// rejected; for accepted statements the trees Parser.Parse leaves behind and all statement and
// clause positions.  coqc runs parse_check on the same text and compares (never messages).

type paReplay struct {
	Origin  string `json:"origin"`
	Class   string `json:"generator_class"`
	Query   string `json:"query"`
	Outcome string `json:"observed"`
	Pos     int    `json:"pos"`
	Stage   string `json:"rejected_by"`
	Msg     string `json:"message,omitempty"`
	Base    string `json:"base_statement,omitempty"`
	Edit    string `json:"edit,omitempty"`
}

// paExpr: coqExpr, but a field reference carries no definition (references are compared by
// name: the Go checker shares the definition and rewrites it in place).
func paExpr(e kvql.Expression, depth int) (string, bool) {
	if depth > 200 || e == nil {
		return "", false
	}
	list := func(xs []kvql.Expression) (string, bool) {
		items := make([]string, len(xs))
		ok := true
		for i, a := range xs {
			var oka bool
			items[i], oka = paExpr(a, depth+1)
			ok = ok && oka
		}
		return coqList(items), ok
	}
	switch x := e.(type) {
	case *kvql.BinaryOpExpr:
		l, ok1 := paExpr(x.Left, depth+1)
		r, ok2 := paExpr(x.Right, depth+1)
		o, ok3 := opCtor[x.Op]
		return fmt.Sprintf("(EBin %d %s %s %s)", natPos(x.Pos), o, l, r), ok1 && ok2 && ok3 && x.Pos >= 0
	case *kvql.NotExpr:
		r, ok := paExpr(x.Right, depth+1)
		return fmt.Sprintf("(ENot %d %s)", natPos(x.Pos), r), ok && x.Pos >= 0
	case *kvql.FunctionCallExpr:
		n, ok := paExpr(x.Name, depth+1)
		args, oka := list(x.Args)
		return fmt.Sprintf("(ECall %d %s %s)", natPos(x.Pos), n, args), ok && oka && x.Pos >= 0
	case *kvql.FieldReferenceExpr:
		return fmt.Sprintf("(ERef %d %s (EBool 0 true))", natPos(x.Name.Pos), coqStr(x.Name.Data)), x.Name.Pos >= 0
	case *kvql.ListExpr:
		items, ok := list(x.List)
		return fmt.Sprintf("(EList %d %s)", natPos(x.Pos), items), ok && x.Pos >= 0
	case *kvql.FieldAccessExpr:
		l, ok1 := paExpr(x.Left, depth+1)
		f, ok2 := paExpr(x.FieldName, depth+1)
		return fmt.Sprintf("(EAccess %d %s %s)", natPos(x.Pos), l, f), ok1 && ok2 && x.Pos >= 0
	default:
		return coqExprD(e, depth) // leaves
	}
}

// paStatement: trees (fields ++ [where] / pairs / keys / [where]) and positions (statement,
// WHERE, ORDER BY, GROUP BY, LIMIT) of the statement Parser.Parse returns.
func paStatement(stmt kvql.Statement) (roots []string, spos []int, ok bool) {
	ok = true
	add := func(x kvql.Expression) {
		t, good := paExpr(x, 0)
		if !good {
			ok = false
		}
		roots = append(roots, t)
	}
	addLimit := func(l *kvql.LimitStmt) {
		if l != nil {
			spos = append(spos, l.Pos)
		}
	}
	switch s := stmt.(type) {
	case *kvql.SelectStmt:
		spos = append(spos, s.Pos, s.Where.Pos)
		for _, f := range s.Fields {
			add(f)
		}
		add(s.Where.Expr)
		if s.Order != nil {
			spos = append(spos, s.Order.Pos)
		}
		if s.GroupBy != nil {
			spos = append(spos, s.GroupBy.Pos)
		}
		addLimit(s.Limit)
	case *kvql.DeleteStmt:
		spos = append(spos, s.Pos, s.Where.Pos)
		add(s.Where.Expr)
		addLimit(s.Limit)
	case *kvql.PutStmt:
		spos = append(spos, s.Pos)
		for _, kv := range s.KVPairs {
			add(kv.Key)
			add(kv.Value)
		}
	case *kvql.RemoveStmt:
		spos = append(spos, s.Pos)
		for _, k := range s.Keys {
			add(k)
		}
	default:
		ok = false
	}
	for _, p := range spos {
		if p < 0 {
			ok = false
		}
	}
	return
}

// messages of parser.go's SYNTAX errors and of its mid-parse tests -- used ONLY to label the
// measured distribution (who rejected), never in a comparison
var paSyntaxMsgs = []string{"Expect token", "Expect operator", "Unexpected EOF", "Function argument expect",
	"Field access operator should only have one field name", "Bad Expression", "Invalid field expression",
	"Require field name", "Expect `as` or `,`", "Empty fields in select statement", "Invalid limit parameters",
	"Too many limit parameters", "Put key-value pair expect", "Duplicate ", "Missing operator", "Has more expression",
	"Expect put, delete, select or where keyword", "Expect where keyword", "Expect where statement",
	"Require order by fields", "Require group by fields", "Unknown operator", "exceed max nesting depth"}
var paMidParseMsgs = []string{"Cannot find field ", "return wrong type", "Cannot find aggregate function", "is defined in terms of itself"}

func paWho(q string, stage int, msg string, pos int) string {
	if stage == 1 {
		if strings.HasPrefix(msg, "No aggregate fields") || strings.HasPrefix(msg, "Missing aggregate fields") || strings.HasPrefix(msg, "Missing group by") {
			return "plan_builder"
		}
		if strings.HasPrefix(msg, "Cannot find function") || strings.Contains(msg, "wrong number of arguments") {
			return "call_validation"
		}
		return "plan_init_or_other"
	}
	for _, m := range paSyntaxMsgs {
		if strings.HasPrefix(msg, m) {
			return "parser_syntax"
		}
	}
	if msg == "Invalid field name" {
		// parseSelect (the token after AS) or FieldAccessExpr.Check
		toks := kvql.NewLexer(q).Split()
		for i, t := range toks {
			if t.Pos == pos && i > 0 && toks[i-1].Tp == kvql.AS {
				return "parser_syntax"
			}
		}
		return "checker"
	}
	for _, m := range paMidParseMsgs {
		if strings.Contains(msg, m) {
			return "parser_mid_parse_test"
		}
	}
	return "checker"
}

var paSeen = map[string]bool{}

// paCase observes one statement text and emits the case.
func paCase(e *emitter, q, class, base, edit string) {
	if paSeen[q] {
		e.count("pa/duplicate_text_skipped")
		return
	}
	paSeen[q] = true
	var (
		cls, pos, stage int
		msg             string
		roots           []string
		spos            []int
		panicked        string
	)
	func() {
		defer func() {
			if r := recover(); r != nil {
				panicked = fmt.Sprint(r)
			}
		}()
		st := newStore(c17Store)
		_, err := kvql.NewOptimizer(q).BuildPlan(st)
		stmt, perr := kvql.NewParser(q).Parse()
		if err == nil {
			stage = 2
			var ok bool
			roots, spos, ok = paStatement(stmt)
			if !ok || perr != nil {
				roots, spos = nil, nil
				e.count("pa/accepted_tree_not_recorded")
			}
			return
		}
		if perr == nil {
			stage = 1
		}
		tp, _, p, m, positional := c17PosErr(err)
		pos, msg = p, m
		switch {
		case !positional:
			cls, msg = 3, err.Error()
		case tp == "syntax":
			cls = 1
		default:
			cls = 2
		}
	}()
	if panicked != "" {
		e.count("pa/BuildPlan_panicked(not_C17)")
		return
	}
	if cls != 0 && strings.Contains(msg, " arguments but got ") && strings.Contains(msg, " require ") {
		// an aggregate call with a wrong argument count: reported by the call validation since fix 06064ce,
		// modelled by parse_check where it used to be tested (AggregatePlan.Init); such texts are compared
		// with the repaired twin parse_check_agg by C14's stream agg (its code 6 judges the position)
		e.m.OutOfModel++
		e.count("pa/aggregate_argument_count(judged_by_C14_stream_agg)")
		return
	}
	outcome, who := "accepted", "-"
	if cls != 0 {
		who = paWho(q, stage, msg, pos)
		outcome = "rejected"
	}
	rp := paReplay{Origin: "parse_check", Class: class, Query: q, Outcome: outcome, Pos: pos, Stage: who, Msg: msg, Base: base, Edit: edit}
	sp := []string{fmt.Sprint(stage)}
	for _, p := range spos {
		sp = append(sp, fmt.Sprint(p))
	}
	if roots == nil {
		roots = []string{}
	}
	term := fmt.Sprintf("Case %d 4 %s %s 0 [] []%%Z None %s %s", cls, c17Segs(c17Encode(q, "")), c17Z(pos), coqList(roots), coqList(sp))
	idx := e.add(term, rp, cls != 0 || len(spos) > 0)
	e.count("pa/cases")
	e.count("pa/class=" + class)
	if cls == 0 {
		e.count("pa/outcome=accepted")
		e.count("pa/class=" + class + "/accepted")
	} else {
		e.count("pa/outcome=rejected_by_" + who)
		e.count("pa/class=" + class + "/rejected_by_" + who)
		switch {
		case pos == -1:
			e.count("pa/rejected_pos=eof")
		case pos == 0:
			e.count("pa/rejected_pos=0")
		case len(q) > 0 && pos*3 < len(q):
			e.count("pa/rejected_pos=first_third")
		case len(q) > 0 && pos*3 < 2*len(q):
			e.count("pa/rejected_pos=middle_third")
		default:
			e.count("pa/rejected_pos=last_third")
		}
	}
	// direct verdicts (the same as for origin build)
	if cls == 1 || cls == 2 {
		if !(pos == -1 || (pos >= 0 && pos < len(q))) {
			e.fail(idx, fmt.Sprintf("error position %d is neither -1 nor inside the %d-byte query", pos, len(q)), "C17/pos-range", rp)
		} else if pos > 0 {
			found := false
			for _, s := range c17TokenStarts(q) {
				if s == pos {
					found = true
				}
			}
			if !found {
				e.fail(idx, fmt.Sprintf("parse/check error position %d is not the start of a token", pos), "C17/pos-token-start", rp)
			}
		}
	}
}

func paIsStrLit(l string) bool { return len(l) >= 2 && (l[0] == '\'' || l[0] == '"') }
func paIsNum(l string) bool {
	for i := 0; i < len(l); i++ {
		if l[i] < '0' || l[i] > '9' {
			return false
		}
	}
	return len(l) > 0
}

var paCmpOps = map[string]bool{"=": true, "!=": true, ">": true, ">=": true, "<": true, "<=": true, "^=": true, "~=": true}
var paLogOps = map[string]bool{"&": true, "|": true, "and": true, "or": true}

// paIllTyped returns up to n ill-typed variants of a valid statement: one operand, operator,
// function or clause replaced at a random eligible lexeme (so the fault sits at many offsets).
func paIllTyped(r *rng, lex []string, n int) (out [][]string, what []string) {
	idx := func(pred func(i int) bool) []int {
		var is []int
		for i := range lex {
			if pred(i) {
				is = append(is, i)
			}
		}
		return is
	}
	repl := func(i int, with ...string) []string {
		nl := append([]string{}, lex[:i]...)
		nl = append(nl, with...)
		return append(nl, lex[i+1:]...)
	}
	ins := func(i int, with ...string) []string {
		nl := append([]string{}, lex[:i]...)
		nl = append(nl, with...)
		return append(nl, lex[i:]...)
	}
	whereAt := -1
	for i, l := range lex {
		if l == "where" {
			whereAt = i
		}
	}
	inWhere := func(i int) bool { return whereAt >= 0 && i > whereAt }
	for tries := 0; tries < 4*n && len(out) < n; tries++ {
		var nl []string
		var w string
		switch r.intn(12) {
		case 0: // a text literal becomes a number
			if is := idx(func(i int) bool { return paIsStrLit(lex[i]) }); len(is) > 0 {
				i := pick(r, is)
				nl, w = repl(i, pick(r, []string{"7", "2.5", "true"})), fmt.Sprintf("literal %s -> other kind #%d", lex[i], i)
			}
		case 1: // a number becomes text
			if is := idx(func(i int) bool { return paIsNum(lex[i]) && inWhere(i) && lex[i-1] != "limit" && lex[i-1] != "," }); len(is) > 0 {
				i := pick(r, is)
				nl, w = repl(i, pick(r, []string{"'s'", "false", "key"})), fmt.Sprintf("number %s -> other kind #%d", lex[i], i)
			}
		case 2: // key / value becomes a number / Boolean / list
			if is := idx(func(i int) bool { return (lex[i] == "key" || lex[i] == "value") && i > 0 && lex[i-1] != "by" }); len(is) > 0 {
				i := pick(r, is)
				nl, w = repl(i, pick(r, []string{"3", "true", "1.5"})), fmt.Sprintf("field %s -> literal #%d", lex[i], i)
			}
		case 3: // a comparison operator becomes arithmetic / logic
			if is := idx(func(i int) bool { return paCmpOps[lex[i]] }); len(is) > 0 {
				i := pick(r, is)
				nl, w = repl(i, pick(r, []string{"+", "&", "*", "or", "-"})), fmt.Sprintf("operator %s replaced #%d", lex[i], i)
			}
		case 4: // a logical operator becomes a comparison / arithmetic
			if is := idx(func(i int) bool {
				return paLogOps[lex[i]] && inWhere(i) && lex[i-1] != "between" && (i < 2 || lex[i-2] != "between")
			}); len(is) > 0 {
				i := pick(r, is)
				nl, w = repl(i, pick(r, []string{"=", "+", ">", "^="})), fmt.Sprintf("operator %s replaced #%d", lex[i], i)
			}
		case 5: // ! in front of an operand that is not Boolean
			if is := idx(func(i int) bool { return paIsStrLit(lex[i]) || lex[i] == "key" && inWhere(i) }); len(is) > 0 {
				i := pick(r, is)
				nl, w = ins(i, "!"), fmt.Sprintf("! inserted #%d", i)
			}
		case 6: // unknown function / wrong argument count
			if is := idx(func(i int) bool {
				return i+1 < len(lex) && lex[i+1] == "(" && c17IsWord(lex[i]) && lex[i] != "in" && lex[i] != "put"
			}); len(is) > 0 {
				i := pick(r, is)
				if r.chance(1, 2) {
					nl, w = repl(i, "nosuch"), fmt.Sprintf("function %s -> nosuch #%d", lex[i], i)
				} else {
					nl, w = ins(i+2, "key", ","), fmt.Sprintf("extra argument for %s #%d", lex[i], i)
				}
			}
		case 7: // the WHERE clause joined with something that is not Boolean
			if whereAt >= 0 {
				end := len(lex)
				for i := whereAt + 1; i < len(lex); i++ {
					if lex[i] == "order" || lex[i] == "group" || lex[i] == "limit" {
						end = i
						break
					}
				}
				junk := pick(r, [][]string{{"'a'"}, {"1"}, {"key"}, {"upper", "(", "key", ")"}, {"count", "(", "1", ")", ">", "0"}, {"1", "/", "0", "=", "1"},
					{"key", "in", "(", "'a'", ",", "1", ")"}, {"key", "between", "1", "and", "'z'"}, {"upper", "(", "key", ")", "[", "'a'", "]", "=", "'x'"},
					{"key", "in", "upper", "(", "key", ")"}, {"value", "=", "value"}, {"1.5", "/", "0.0", ">", "1"}})
				op := pick(r, []string{"&", "|", "and", "or"})
				if r.chance(1, 2) {
					nl = append(append(append(append([]string{}, lex[:end]...), op), junk...), lex[end:]...)
				} else {
					nl = append(append(append(append([]string{}, lex[:whereAt+1]...), junk...), op), lex[whereAt+1:]...)
				}
				w = "where joined with " + strings.Join(junk, " ")
			}
		case 8: // ORDER BY / GROUP BY a name that is no field, or a field of the wrong type
			if len(lex) > 0 && lex[0] == "select" && whereAt >= 0 {
				switch r.intn(3) {
				case 0:
					nl, w = append(append([]string{}, lex...), "order", "by", "zq9"), "order by unknown name"
				case 1:
					nl = append(append([]string{"select", "split", "(", "value", ",", "','", ")", "as", "zq8", ","}, lex[1:]...), "order", "by", "zq8")
					w = "order by a list-typed field"
				default:
					nl, w = append(append([]string{}, lex...), "group", "by", "zq9"), "group by unknown name"
				}
				// (a second ORDER BY / a clause after LIMIT is a syntax error: measured, not avoided)
			}
		case 9: // an alias used where its type does not fit
			if is := idx(func(i int) bool { return len(lex[i]) == 3 && lex[i][:2] == "zq" && i > 0 && lex[i-1] == "as" }); len(is) > 0 && whereAt >= 0 {
				i := pick(r, is)
				a := lex[i]
				junk := pick(r, [][]string{{a, "&", "true"}, {a, "=", "true"}, {"!", a}, {a, "[", "0", "]", "=", "'a'"}, {a, "+", "true", "=", "1"}})
				nl = append(append(append(append([]string{}, lex[:whereAt+1]...), junk...), "&"), lex[whereAt+1:]...)
				w = "alias misused: " + strings.Join(junk, " ")
			}
		case 10: // a field defined through itself / aggregates in the wrong place
			if len(lex) > 1 && lex[0] == "select" && lex[1] != "*" && whereAt >= 0 {
				switch r.intn(4) {
				case 0:
					nl, w = append([]string{"select", "upper", "(", "zq7", ")", "as", "zq7", ","}, lex[1:]...), "field defined through itself"
				case 1:
					nl, w = append([]string{"select", "zq6", "+", "1", "as", "zq7", ",", "zq7", "+", "1", "as", "zq6", ","}, lex[1:]...), "fields defined through each other"
				case 2:
					nl, w = append([]string{"select", "sum", "(", "count", "(", "1", ")", ")", "as", "zq7", ","}, lex[1:]...), "aggregate inside aggregate"
				default:
					nl, w = append([]string{"select", "count", "(", "1", ")", "as", "zq7", ","}, lex[1:]...), "aggregate next to plain fields without group by"
				}
			}
		default: // statement forms
			p := pick(r, c17Lits)
			switch r.intn(9) {
			case 0:
				nl, w = c17w("put", "(", "key", ",", p, ")"), "put: key in the key expression"
			case 1:
				nl, w = c17w("put", "(", p, ",", "value", ")", ",", "(", "'k'", ",", "'v'", ")"), "put: value keyword"
			case 2:
				nl, w = c17w("put", "(", p, ",", "'v'", ")", ",", "(", "'k'", ",", "1", "=", "1", ")"), "put: Boolean value"
			case 3:
				nl, w = c17w("remove", p, ",", "key"), "remove: key keyword"
			case 4:
				nl, w = c17w("remove", p, ",", p, "=", p), "remove: Boolean key"
			case 5:
				nl, w = c17w("delete", "where", p), "delete: WHERE is text"
			case 6:
				nl, w = c17w("delete", "where", "key", "+", p), "delete: WHERE is text"
			case 7:
				nl, w = c17w("select", "key", ",", "value", "where", "key", "^=", p, "group", "by", "key"), "group by without aggregate"
			default:
				nl, w = c17w("select", "count", "(", "1", ")", "as", "zq0", ",", "key", ",", "value", "where", "key", "^=", p, "group", "by", "key"), "field neither grouped nor aggregated"
			}
		}
		if nl != nil {
			out = append(out, nl)
			what = append(what, w)
		}
	}
	return
}

// paCorrupt: one single-edit corruption (the operators of runC17Statements).
func paCorrupt(r *rng, lex []string, base string, mode, loc, ek int) (text, edit string) {
	locName := []string{"early", "middle", "late"}[loc]
	switch ek {
	case 0:
		i := c17PickLoc(r, len(lex), loc)
		nl := append(append([]string{}, lex[:i]...), lex[i+1:]...)
		return c17Render(nl, mode), fmt.Sprintf("delete-token@%s #%d %q", locName, i, lex[i])
	case 1:
		i := c17PickLoc(r, len(lex), loc)
		nl := append(append(append([]string{}, lex[:i+1]...), lex[i]), lex[i+1:]...)
		return c17Render(nl, mode), fmt.Sprintf("duplicate-token@%s #%d %q", locName, i, lex[i])
	case 2:
		i := c17PickLoc(r, len(lex), loc)
		nl := append([]string{}, lex...)
		nl[i] = pick(r, c17TokPool)
		return c17Render(nl, mode), fmt.Sprintf("replace-token@%s #%d %q -> %q", locName, i, lex[i], nl[i])
	case 3:
		i := c17PickLoc(r, len(lex)-1, loc)
		nl := append([]string{}, lex...)
		if len(nl) > 1 {
			nl[i], nl[i+1] = nl[i+1], nl[i]
		}
		return c17Render(nl, mode), fmt.Sprintf("swap-tokens@%s #%d", locName, i)
	case 4:
		i := c17PickLoc(r, len(base), loc)
		return base[:i] + base[i+1:], fmt.Sprintf("delete-byte@%s #%d %q", locName, i, base[i])
	case 5:
		i := c17PickLoc(r, len(base), loc)
		return base[:i+1] + base[i:], fmt.Sprintf("duplicate-byte@%s #%d %q", locName, i, base[i])
	default:
		i := c17PickLoc(r, len(base), loc)
		ch := c17BytePool[r.intn(len(c17BytePool))]
		return base[:i] + string(ch) + base[i+1:], fmt.Sprintf("replace-byte@%s #%d %q -> %q", locName, i, base[i], ch)
	}
}

// statements around field references (aliases used inside other fields, in WHERE, ORDER BY and
// GROUP BY), where the order of the checks and the in-place rewriting of the fields matter
var paAliasStmts = []string{
	"select key as zq0, upper(zq0) as zq1 where zq1 = 'A' order by zq1",
	"select upper(zq1) as zq0, key as zq1 where zq0 ^= 'K'",
	"select int(value) as zq0, zq0 * 2 as zq1 where zq1 > 3 & zq0 < 100",
	"select zq1 + 'x' as zq0, key as zq1 where zq0 = 'k1x'",
	"select zq1 + 'x' as zq0, key as zq1 where zq0 = 1",
	"select zq1 + 'x' as zq0, zq0 * 2 as zq2, key as zq1 where key > 'a'",
	"select zq0 + 1 as zq2, zq1 + 'x' as zq0, key as zq1, zq2 * 2 as zq3 where key > 'a'",
	"select zq0 + 1 as zq2, zq1 + 'x' as zq0, key as zq1 where key > 'a'",
	"select zq0 + 'y' as zq2, zq1 + 'x' as zq0, key as zq1 where zq2 > 'a' order by zq0",
	"select zq2 + 'z' as zq3, zq0 + 'y' as zq2, zq1 + 'x' as zq0, key as zq1 where zq3 ^= 'k' order by zq3 desc limit 2",
	"select key as zq1, zq1 + 'x' as zq0 where zq0 > 1",
	"select key as zq1, zq1 + 'x' as zq0 where zq0 > 'a' order by zq0",
	"select zq1 + 'x' as zq0, key as zq1, count(1) as zq2 where key ^= 'k' group by zq0, zq1",
	"select zq0 + 1 as zq3, zq1 + 'x' as zq0, key as zq1, count(1) as zq2 where key ^= 'k' group by zq3, zq0, zq1",
	"select key as zq0, value as zq0 where zq0 = 'k1'",
	"select is_int(value) as zq0 where zq0",
	"select is_int(value) as zq0 where !zq0 & zq0",
	"select key as zq0 where zq0",
	"select key as zq0 where zq0 in ('a', zq0)",
	"select key as zq0, int(value) as zq1 where zq1 between 1 and zq0",
	"select key as zq0, count(1) as zq1 where key ^= 'k' group by zq0",
	"select upper(key) as zq0, count(1) as zq1 where key ^= 'k' group by zq0 order by zq1 desc",
	"select zq2 + 'x' as zq0, count(1) as zq1, key as zq2 where zq0 ^= 'k' group by zq0",
	"select zq2 * 2 as zq0, count(1) as zq1, key as zq2 where key ^= 'k' group by zq0",
	"select zq2 + 1 as zq0, count(1) as zq1, key as zq2 where key ^= 'k' group by zq0, zq2",
	"select key, count(1) where key ^= 'k' group by key",
	"select key, count(1) where key ^= 'k' group by count(1)",
	"select key, count(1) where key ^= 'k' group by key, count(1)",
	"select key, value, count(1) where key ^= 'k' group by key, value limit 2",
	"select KEY, sum(int(value)) where key ^= 'k' group by KEY order by KEY",
	"select key as zq0 where key ^= 'k' order by zq0, zq9",
	"select key as zq0 where key ^= 'k' order by zq0 desc, key",
	"select `zq 0` where key ^= 'k'",
	"select key as `zq 0`, upper(`zq 0`) as zq1 where `zq 0` = 'k1' order by `zq 0`",
	"where key ^= 'k' order by key",
	"where zq0 = 'a'",
	"select * where key ^= 'k' order by KEY",
	"select * where key ^= 'k' order by key, value desc limit 1, 2",
	"select * where key ^= 'k' group by key",
	"select count(1) where key ^= 'k'",
	"select count(1), sum(int(value)) + 1 where key ^= 'k'",
	"select count(1) + sum(count(1)) where key ^= 'k'",
	"select count(upper(count(1))) where key ^= 'k'",
	"select upper(count(1)) where key ^= 'k'",
	"select count(1, 2) where key ^= 'k'",
	"select sum() where key ^= 'k'",
	"select key where count(1) > 0",
	"select key where key ^= 'k' limit 0",
	"select 'a'(1) where key ^= 'k'",
	"select key where 1(2) = 3",
	"select key where key(2) = 'a'",
}

// pfFoldedPlanStmts: statements where the constant folder (optimizeSelectExpressions, which runs
// BEFORE buildFinalPlan) changes what buildFinalPlan sees in stmt.Fields, and GROUP BY statements
// whose select fields use select-field names.  parse_check runs its plan stage on the folded
// fields (Model/ParseCheck.v plan_check / fold_fields) and takes every statement the parser
// returns; these texts must be COMPARED (code 0), not outside the model.
//   - a constant-true `|` / constant-false `&` next to an aggregate call: the aggregate call is
//     folded away, a ProjectionPlan is built;
//   - a constant-false `|` / constant-true `&`: the folder returns the other operand, the
//     aggregate call stays;
//   - a constant call / a constant sub-expression folded to a literal next to an aggregate call:
//     still an aggregate field;
//   - each alone, before and after a plain field, with GROUP BY on the plain field, with and
//     without ORDER BY / LIMIT;
//   - GROUP BY with select fields that use select-field names.
func pfFoldedPlanStmts() []string {
	aggrs := []string{"count(1) > 0", "sum(int(value)) > 3"}
	heads := []string{}
	for _, a := range aggrs {
		heads = append(heads,
			"true | ("+a+")", "("+a+") | true", "false & ("+a+")", "("+a+") & false",
			"false | ("+a+")", "true & ("+a+")", "("+a+") | false", "("+a+") & true",
			"1 < 2 | ("+a+")", "2 < 1 & ("+a+")", "!false | ("+a+")", "'a' = 'a' | ("+a+")",
			"key = 'k' | (true | ("+a+"))", "(true | ("+a+")) & key ^= 'k'",
			"upper('a') = 'A' | ("+a+")", "strlen('abc') > 5 & ("+a+")")
	}
	heads = append(heads,
		"strlen('abc') + count(1)", "count(1) + strlen('abc')", "int('3') * sum(int(value))",
		"sum(int(value)) + (1 + 2)", "1 + 2 + count(1)", "count(1) + 1 + 2", "strlen(upper('ab')) * 2 - count(1)",
		"strlen('abc') + strlen('de')", "true | false", "upper('a') + lower('B')")
	tails := []string{"", " order by x", " limit 2", " order by x desc limit 1, 2"}
	var out []string
	for i, h := range heads {
		f := h + " as x"
		out = append(out, "select "+f+", key where key > ''"+tails[i%len(tails)])
		out = append(out, "select "+f+" where key > ''"+tails[(i+1)%len(tails)])
		switch i % 4 {
		case 0:
			out = append(out, "select key, "+f+" where key ^= 'k'"+tails[(i+2)%len(tails)])
		case 1:
			out = append(out, "select "+f+", key where key > '' group by key"+tails[(i+2)%len(tails)])
		case 2:
			out = append(out, "select key as zq0, "+f+", value where key > '' group by zq0"+tails[(i+3)%len(tails)])
		default:
			out = append(out, "select "+f+", count(1) as c where key > ''"+tails[(i+3)%len(tails)])
		}
	}
	// the example of the report, as it stands
	out = append(out, "select true | (count(1) > 0) as x, key where key > ''")
	// GROUP BY with select fields that use select-field names
	groups := []string{
		"select int(value) as n, sum(n) as s, n + 1 as m where key > '' group by n, m",
		"select int(value) as n, sum(n) as s, n + 1 as m, key where key > '' group by n, m",
		"select int(value) as n, sum(n) as s, n + 1 as m where key > '' group by n",
		"select int(value) as n, sum(n) as s where key > '' group by n",
		"select int(value) as n, sum(n) + count(1) as s, n * 2 as m where key ^= 'k' group by m, n",
		"select key as k, upper(k) as u, count(1) as c where key > '' group by k, u",
		"select key as k, upper(k) as u, count(1) as c where key > '' group by u",
		"select key as k, k + 'x' as kx, min(kx) as lo, max(k) as hi where key > '' group by k, kx",
		"select upper(k) as u, key as k, count(u) as c where key > '' group by u, k",
		"select int(value) as n, n + 1 as m, m * 2 as d, sum(d) as s where key > '' group by n, m, d",
		"select int(value) as n, true | (sum(n) > 0) as x where key > '' group by n",
		"select int(value) as n, false | (sum(n) > 0) as x where key > '' group by n",
		"select int(value) as n, 1 + 2 + sum(n) as s, n + (1 + 2) as m where key > '' group by n, m",
		"select int(value) as n, n as m, sum(m) as s where key > '' group by n, m",
		"select int(value) as n, count(1) as c, c + 1 as d where key > '' group by n",
		"select key as k, value as v, k + v as kv, count(1) where key > '' group by k, v, kv",
		"select key as k, value as v, k + v as kv, count(1) where key > '' group by kv",
		"select int(value) as n, sum(n) as s, n + 1 as m where s > 1 group by n, m",
		"select int(value) as n, sum(n) as s, n + 1 as m where m > 1 & key > '' group by n, m",
		"select int(value) as n, sum(n) as s, n + 'x' as m where key > '' group by n, m",
		"select int(value) as n, sum(k) as s where key > '' group by n",
	}
	gtails := []string{"", " order by n", " limit 2", " order by s desc limit 1, 2", " order by m, n desc"}
	for i, g := range groups {
		out = append(out, g)
		out = append(out, g+gtails[1+i%(len(gtails)-1)])
		out = append(out, g+gtails[1+(i+2)%(len(gtails)-1)])
	}
	return out
}

func runC17PA(c *runCtx, e *emitter) {
	g := &c17Gen{r: newRng(c.seed*1000003 + 17)}
	r := g.r
	nBase := 110
	if c.thorough() {
		nBase = 1500
	}
	if c.search {
		nBase *= 3
	}
	for _, q := range paAliasStmts {
		paCase(e, q, "directed", q, "none")
	}
	for _, q := range pfFoldedPlanStmts() {
		paCase(e, q, "directed_folded_plan", q, "none")
	}
	for b := 0; b < nBase; b++ {
		long := b%3 == 2
		faulty := -1
		if b%6 == 5 {
			faulty = (b / 6) % len(c17Faulty)
		}
		lex := g.statement(long, faulty)
		if b%4 == 2 {
			lex = c17Backquote(r, lex)
		}
		mode := b % 3
		base := c17Render(lex, mode)
		lead := []string{"", " ", "   "}[b%3]
		class := "valid"
		if faulty >= 0 {
			class = "run_time_faulty"
		}
		paCase(e, lead+base, class, base, "none")
		// single-edit corruptions: four of the 21 (kind x place)
		for k := 0; k < 4; k++ {
			text, edit := paCorrupt(r, lex, base, mode, r.intn(3), r.intn(7))
			if strings.TrimSpace(text) == "" {
				continue
			}
			paCase(e, lead+text, "corrupted", base, edit)
		}
		// ill-typed variants
		vars, what := paIllTyped(r, lex, 7)
		for i, nl := range vars {
			paCase(e, lead+c17Render(nl, mode), "ill_typed", base, what[i])
		}
	}
}

// ---------------------------------------------------------------- T3: execution errors of ACCEPTED
// statements against the evaluator twins (corigin = 5 of Corr/C17.v).  Statements that BuildPlan
// accepts and that FAIL while the plan is drained on some stored pair: division by zero at
// several depths (divisor a call, an expression, a constant sub-expression the folder turns into
// a literal, a re-associated sum), BETWEEN with crossed bounds (literal, folded, data dependent),
// function argument errors raised by function bodies (substr / split / join / len), operand-type
// errors reachable through list elements, errors without a position (comparison of unlike
// kinds, vector lengths) -- wrapped 0..3 levels deep in arithmetic / text / Boolean context with
// and without constant neighbours that get folded or re-associated next to the failing node,
// placed in WHERE, in a select field, behind an alias used in WHERE, behind a chain of aliases.
// Observed: class and Pos of the error of the row drain and of the batch drain.  coqc runs
// parse_check + the statement-level folder twin + the drain twins on the same text and store.

type t3Obs struct {
	Class string `json:"class"` // ok | exec | syntax | other | panic
	Pos   int    `json:"pos"`
	Msg   string `json:"message,omitempty"`
}

type t3Replay struct {
	Origin    string      `json:"origin"`
	Query     string      `json:"query"`
	Store     [][2]string `json:"store"`
	BatchSize int         `json:"batch_size"`
	FullScan  bool        `json:"full_scan"`
	Row       t3Obs       `json:"row_mode"`
	Batch     t3Obs       `json:"batch_mode"`
	Kind      string      `json:"error_kind"`
	Place     string      `json:"placement"`
	Depth     int         `json:"wrappers"`
	Folded    bool        `json:"constant_neighbours_folded"`
}

type t3Core struct {
	kind   string
	text   string
	ty     byte // 'n' number, 's' text, 'b' Boolean
	folded bool // contains a constant sub-expression the folder rewrites
}

var t3Cores = []t3Core{
	{"div0/divisor_call", "10 / int(value)", 'n', false},
	{"div0/divisor_call", "strlen(key) / int(value)", 'n', false},
	{"div0/divisor_expr", "int(value) / (strlen(key) - 2)", 'n', false},
	{"div0/divisor_conversion_default", "10 / int(key)", 'n', false},
	{"div0/divisor_folded", "10 / (1 - 1)", 'n', true},
	{"div0/divisor_folded", "int(value) / (2 * 3 - 6)", 'n', true},
	{"div0/divisor_partly_folded", "10 / (int(value) * (2 - 2))", 'n', true},
	{"div0/divisor_reassociated", "100 / (int(value) + 1 + 2 - 15)", 'n', true},
	{"div0/dividend_reassociated", "(int(value) * 2 * 3) / int(value)", 'n', true},
	{"div0/float", "1.5 / float(value)", 'n', false},
	{"div0/float_folded", "float(value) / (0.5 - 0.5)", 'n', true},
	{"func_arg/len", "len(key = 'a')", 'n', false},
	{"func_arg/substr_second", "substr(key, 'a', 1)", 's', false},
	{"func_arg/substr_third", "substr(key, int(value), 'x')", 's', false},
	{"func_arg/split_second", "split(value, 1)[0]", 's', false},
	{"func_arg/join_first", "join(1, key)", 's', false},
	{"between/text", "value between 'z' and 'a'", 'b', false},
	{"between/number", "int(value) between 9 and 1", 'b', false},
	{"between/bounds_folded", "int(value) between (3 + 4) * 2 and 2 * 2", 'b', true},
	{"between/bounds_concat_folded", "key between 'b' + 'c' and 'a' + 'b'", 'b', true},
	{"between/bounds_from_data", "strlen(key) between int(value) and 1", 'b', false},
	{"operand_type/list_element_eq", "list(key)[0] = 'a'", 'b', false},
	{"operand_type/list_element_prefix", "ilist(1)[0] ^= 'a'", 'b', false},
	{"operand_type/list_element_neq", "ilist(int(value))[0] != 'a'", 'b', false},
	{"operand_type/list_element_concat(batch_only)", "ilist(1)[0] + 'a' = '1a'", 'b', false},
	{"no_position/compare_unlike_kinds", "ilist(1)[0] > 'a'", 'b', false},
	{"no_position/in_element_unlike_kinds", "ilist(1)[0] in ('a', 'b')", 'b', false},
	{"no_position/vector_argument", "l2_distance(key, value) > 1", 'b', false},
	{"in_list/element_fails", "key in ('a', upper(10 / int(value)))", 'b', false},
	{"in_list/element_function_argument", "key in (lower('A'), substr(key, 'x', 1))", 'b', false},
}

type t3Wrap struct {
	from, to byte
	format   string
	folds    bool
}

var t3Wraps = []t3Wrap{
	{'n', 'n', "(%s) + 1", false},
	{'n', 'n', "2 * (%s)", false},
	{'n', 'n', "(%s) + 1 + 2", true}, // (X + 1) + 2  =>  X + (1 + 2)  =>  X + 3
	{'n', 'n', "1 + 2 + (%s)", true}, // (1 + 2) + X  =>  3 + X
	{'n', 'n', "(%s) * 2 * (1 + 1)", true},
	{'n', 'n', "strlen(str(%s))", false},
	{'n', 'n', "(3 - 3) + (%s)", true},
	{'n', 'b', "(%s) > 1", false},
	{'n', 'b', "(%s) = 2 + 3", true},
	{'n', 'b', "(%s) between 1 and 9", false},
	{'n', 's', "str(%s)", false},
	{'s', 's', "upper(%s)", false},
	{'s', 's', "(%s) + 'x'", false},
	{'s', 's', "lower(%s) + 'a' + 'b'", true},
	{'s', 'b', "(%s) = 'k'", false},
	{'s', 'b', "(%s) ^= 'a' + 'b'", true},
	{'s', 'n', "strlen(%s)", false},
	{'b', 'b', "(%s) & value != 'q'", false},
	{'b', 'b', "value != 'q' & (%s)", false},
	{'b', 'b', "2 > 1 & (%s)", true}, // true & X  =>  X
	{'b', 'b', "(%s) | 1 > 2", true}, // X | false =>  X
	{'b', 'b', "!(%s)", false},
	{'b', 'b', "value = 'q' | (%s)", false},
	{'b', 'b', "(%s) & key ^= 'k'", false}, // narrows the scan to a prefix
}

// keys without digits: a text with a digit that is not a number ("k1") is outside the float-parser
// twin (Base/Flt.v), and int(key) / list(key) read the key as a number
var t3Stores = [][][2]string{
	{{"ka", "12"}, {"kb", "7"}, {"kc", "0"}, {"kd", "abc"}, {"ke", "x,y,z"}, {"zz", "99"}},
	{{"a", "0"}, {"b", "5"}},
	{{"ka", "3"}, {"kb", "4"}, {"kc", "5"}, {"kd", "6"}, {"ke", "0"}},
	{{"kaa", "1"}, {"kbb", "2"}, {"kk", "3"}},
}

func t3Classify(err error) t3Obs {
	if err == nil {
		return t3Obs{Class: "ok"}
	}
	tp, _, pos, msg, ok := c17PosErr(err)
	if !ok {
		return t3Obs{Class: "other", Msg: err.Error()}
	}
	if tp == "syntax" {
		return t3Obs{Class: "syntax", Pos: pos, Msg: msg}
	}
	return t3Obs{Class: "exec", Pos: pos, Msg: msg}
}

func t3ClassNum(c string) int {
	switch c {
	case "ok":
		return 0
	case "exec":
		return 1
	case "syntax":
		return 2
	case "other":
		return 3
	}
	return 4
}

// t3Run builds the plan and drains it in one mode.
func t3Run(q string, kvs [][2]string, batch bool, B int) (o t3Obs, full, built bool) {
	defer func() {
		if r := recover(); r != nil {
			o = t3Obs{Class: "panic", Msg: fmt.Sprint(r)}
		}
	}()
	kvql.PlanBatchSize = B
	kvql.EnableFieldCache = true
	plan, err := kvql.NewOptimizer(q).BuildPlan(newStore(kvs))
	if err != nil {
		return t3Classify(err), false, false
	}
	built = true
	if pp, ok := plan.(*kvql.ProjectionPlan); ok {
		_, full = pp.ChildPlan.(*kvql.FullScanPlan)
	}
	res := drainPlan(plan, batch, runResult{})
	if res.Panic != "" {
		return t3Obs{Class: "panic", Msg: res.Panic}, full, true
	}
	return t3Classify(res.Err), full, true
}

var t3Seen = map[string]bool{}

func t3Case(e *emitter, q string, kvs [][2]string, B int, kind, place string, depth int, folded bool) {
	key := fmt.Sprintf("%s|%d|%d", q, len(kvs), B)
	if t3Seen[key] {
		e.count("t3/duplicate_skipped")
		return
	}
	t3Seen[key] = true
	row, full, built := t3Run(q, kvs, false, B)
	if !built {
		e.count("t3/rejected_by_BuildPlan(not_emitted)")
		e.count("t3/rejected_by_BuildPlan/kind=" + kind)
		return
	}
	bat, _, _ := t3Run(q, kvs, true, B)
	rp := t3Replay{Origin: "exec-twin", Query: q, Store: kvs, BatchSize: B, FullScan: full, Row: row, Batch: bat,
		Kind: kind, Place: place, Depth: depth, Folded: folded}
	store := make([]string, 0, 2*len(kvs))
	for _, kv := range kvs {
		store = append(store, "EStr 0 "+coqStr(kv[0]), "EStr 0 "+coqStr(kv[1]))
	}
	fullN := 0
	if full {
		fullN = 1
	}
	term := fmt.Sprintf("Case %d 5 %s %s %s [] []%%Z None %s [%d; %d; %d]", t3ClassNum(row.Class), c17Segs(c17Encode(q, "")),
		c17Z(row.Pos), c17Z(bat.Pos), coqList(store), t3ClassNum(bat.Class), B, fullN)
	failing := row.Class != "ok" || bat.Class != "ok"
	idx := e.add(term, rp, failing)
	e.count("t3/cases")
	if strings.Contains(q, "~=") || strings.Contains(q, "json") {
		e.count("t3/context_with_regexp_or_json(outside_the_twins)")
	}
	e.count("t3/kind=" + kind)
	e.count(fmt.Sprintf("t3/wrappers=%d", depth))
	e.count("t3/place=" + place)
	if folded {
		e.count("t3/constant_neighbours=folded_or_reassociated")
	} else {
		e.count("t3/constant_neighbours=none")
	}
	e.count("t3/row=" + row.Class)
	e.count("t3/batch=" + bat.Class)
	if full {
		e.count("t3/scan=full")
	} else {
		e.count("t3/scan=narrowed(position_membership_only)")
	}
	switch {
	case !failing:
		e.count("t3/outcome=no_failure_on_this_store")
	case row.Class == bat.Class && row.Pos == bat.Pos:
		e.count("t3/outcome=both_modes_same_class_and_pos")
	case row.Class == "ok" || bat.Class == "ok":
		e.count("t3/outcome=one_mode_only")
	default:
		e.count("t3/outcome=modes_differ")
	}
	for _, o := range []t3Obs{row, bat} {
		if (o.Class == "exec" || o.Class == "syntax") && !(o.Pos == -1 || (o.Pos >= 0 && o.Pos < len(q))) {
			e.fail(idx, fmt.Sprintf("execution error position %d is neither -1 nor inside the %d-byte query", o.Pos, len(q)), "C17/pos-range", rp)
			return
		}
	}
}

func t3Stream(c *runCtx, e *emitter) {
	r := newRng(c.seed*7919 + 33)
	rounds := 2
	if c.thorough() {
		rounds = 12
	}
	if c.search {
		rounds *= 3
	}
	wrapsFrom := func(ty byte) []t3Wrap {
		var out []t3Wrap
		for _, w := range t3Wraps {
			if w.from == ty {
				out = append(out, w)
			}
		}
		return out
	}
	n := 0
	for round := 0; round < rounds; round++ {
		for ci, core := range t3Cores {
			for depth := 0; depth <= 3; depth++ {
				text, ty, folded := core.text, core.ty, core.folded
				for d := 0; d < depth; d++ {
					w := pick(r, wrapsFrom(ty))
					text, ty = fmt.Sprintf(w.format, text), w.to
					folded = folded || w.folds
				}
				// as a predicate / as a field of any type
				pred := text
				switch ty {
				case 'n':
					pred = "(" + text + ") > 1"
				case 's':
					pred = "(" + text + ") = 'k'"
				}
				use := map[byte]string{'n': "f > 1", 's': "f = 'k'", 'b': "f & value != 'q'"}[ty]
				chain := map[byte]string{'n': "f + 1 + 2", 's': "upper(f) + 'a'", 'b': "!(f)"}[ty]
				n++
				kvs := t3Stores[(n+ci)%len(t3Stores)]
				B := 2 + n%2
				lead := []string{"", " ", "   "}[n%3]
				place := (n + round) % 5
				switch place {
				case 0:
					t3Case(e, lead+"select * where "+pred, kvs, B, core.kind, "where", depth, folded)
				case 1:
					t3Case(e, lead+"select key, "+text+" as f where value != 'q'", kvs, B, core.kind, "field", depth, folded)
				case 2:
					t3Case(e, lead+"select "+text+" as f, key where "+use, kvs, B, core.kind, "alias_in_where", depth, folded)
				case 3:
					t3Case(e, lead+"select "+text+" as f, "+chain+" as g, key where value != 'q'", kvs, B, core.kind, "alias_chain", depth, folded)
				default:
					t3Case(e, lead+"select key, "+text+" as f where key ^= 'k' & "+use, kvs, B, core.kind, "alias_in_where(narrowed_scan)", depth, folded)
				}
				// next to a random predicate of the statement grammar (row mode short-circuits & and |,
				// batch mode evaluates both sides: the two modes may differ, the twins must follow)
				{
					g := &c17Gen{r: r}
					ctx := c17Render(g.pred(1+n%2), n%3)
					op := pick(r, []string{"&", "|", "and", "or"})
					q := "select * where (" + ctx + ") " + op + " (" + pred + ")"
					if n%2 == 0 {
						q = "select * where (" + pred + ") " + op + " (" + ctx + ")"
					}
					t3Case(e, q, t3Stores[n%len(t3Stores)], 2+(n/2)%2, core.kind, "where_next_to_random_predicate", depth, folded)
				}
				// every core also plainly in WHERE on every store (depth 0 only)
				if depth == 0 && round == 0 {
					for si, s := range t3Stores {
						t3Case(e, "select * where "+pred, s, 2+si%2, core.kind, "where", 0, core.folded)
					}
				}
			}
		}
	}
}

// ---------------------------------------------------------------- G2: execution errors of SELECT
// statements WITH GROUP BY / aggregates / ORDER BY / LIMIT (corigin = 6 of Corr/C17.v).  The
// failing expressions of t3Cores (0..1 wrappers) are placed as the argument of an aggregate
// call, as a GROUP BY expression, as a non-aggregate field next to the aggregates (evaluated on
// the first pair of every group only); completion errors divide by an aggregate result that is
// zero for some group; ORDER BY / LIMIT on top.  Observed: class + Pos of the error of the row
// drain and of the batch drain (or of BuildPlan, when AggregatePlan.Init rejects); coqc runs
// AggErrPos.select_stmt_text_stp on the same text and store.

type g2Replay struct {
	Origin    string      `json:"origin"`
	Query     string      `json:"query"`
	Store     [][2]string `json:"store"`
	BatchSize int         `json:"batch_size"`
	Built     bool        `json:"accepted_by_BuildPlan"`
	Row       t3Obs       `json:"row_mode"`
	Batch     t3Obs       `json:"batch_mode"`
	Kind      string      `json:"error_kind"`
	Place     string      `json:"placement"`
	Top       string      `json:"order_limit"`
}

var g2Seen = map[string]bool{}

// pairs that share (first byte of the key, value): groups with more than one pair under `group by p, value`
var g2Store = [][2]string{{"ka", "5"}, {"kb", "0"}, {"kc", "5"}, {"kd", "0"}, {"ke", "abc"}, {"za", "0"}}

func g2Case(e *emitter, q string, kvs [][2]string, B int, kind, place, top string) {
	key := fmt.Sprintf("%s|%d|%d", q, len(kvs), B)
	if g2Seen[key] {
		e.count("g2/duplicate_skipped")
		return
	}
	g2Seen[key] = true
	row, _, built := t3Run(q, kvs, false, B)
	bat := row
	if built {
		bat, _, _ = t3Run(q, kvs, true, B)
	} else if row.Class == "syntax" && place != "init" {
		// the statement is ill-formed for another reason (type checker): not what this stream is about
		e.count("g2/rejected_by_checker(not_emitted)")
		e.count("g2/rejected_by_checker/place=" + place)
		return
	}
	rp := g2Replay{Origin: "exec-stmt-twin", Query: q, Store: kvs, BatchSize: B, Built: built, Row: row, Batch: bat,
		Kind: kind, Place: place, Top: top}
	store := make([]string, 0, 2*len(kvs))
	for _, kv := range kvs {
		store = append(store, "EStr 0 "+coqStr(kv[0]), "EStr 0 "+coqStr(kv[1]))
	}
	builtN := 0
	if built {
		builtN = 1
	}
	term := fmt.Sprintf("Case %d 6 %s %s %s [] []%%Z None %s [%d; %d; %d]", t3ClassNum(row.Class), c17Segs(c17Encode(q, "")),
		c17Z(row.Pos), c17Z(bat.Pos), coqList(store), t3ClassNum(bat.Class), B, builtN)
	failing := row.Class != "ok" || bat.Class != "ok"
	idx := e.add(term, rp, failing)
	e.count("g2/cases")
	e.count("g2/kind=" + kind)
	e.count("g2/place=" + place)
	e.count("g2/top=" + top)
	e.count("g2/row=" + row.Class)
	e.count("g2/batch=" + bat.Class)
	switch {
	case !built:
		e.count("g2/outcome=rejected_by_AggregatePlan.Init")
	case !failing:
		e.count("g2/outcome=no_failure_on_this_store")
	case row.Class == bat.Class && row.Pos == bat.Pos:
		e.count("g2/outcome=both_modes_same_class_and_pos")
	case row.Class == "ok" || bat.Class == "ok":
		e.count("g2/outcome=one_mode_only")
	default:
		e.count("g2/outcome=modes_differ")
	}
	for _, o := range []t3Obs{row, bat} {
		if (o.Class == "exec" || o.Class == "syntax") && !(o.Pos == -1 || (o.Pos >= 0 && o.Pos < len(q))) {
			e.fail(idx, fmt.Sprintf("execution error position %d is neither -1 nor inside the %d-byte query", o.Pos, len(q)), "C17/pos-range", rp)
			return
		}
	}
}

// completion errors: the divisor is an aggregate result that is zero for some group
var g2Completion = []struct{ kind, fields, group, alias string }{
	{"completion/count_minus_const", "10 / (count(1) - %d) as r, count(1) as c", "", "r"},
	{"completion/count_minus_const", "sum(int(value)) / (count(1) - %d) as r, max(int(value)) as c", "", "r"},
	{"completion/per_group_sum", "key, 100 / (sum(int(value)) - 7) as r, count(1) as c", "key", "r"},
	{"completion/per_group_sum", "100 / sum(int(value)) as r, key", "key", "r"},
	{"completion/per_group_nested", "key, 2 * (100 / (min(int(value)) - 5)) + 1 as r", "key", "r"},
	{"completion/second_field", "key, count(1) as c, 1 / (max(int(value)) - 4) as r", "key", "c"},
	{"completion/two_failing_fields", "key, 1 / (sum(int(value)) - 7) as r, 2 / (sum(int(value)) - 12) as s", "key", "r"},
	{"completion/float_divisor", "key, 10 / (avg(int(value)) - 3) as r", "key", "r"},
	{"completion/float_dividend", "avg(int(value)) / (sum(int(value)) - sum(int(value))) as r, count(1) as c", "", "c"},
	{"completion/left_operand_fails_first", "(1 / (count(1) - %d)) / (count(1) - %d) as r, count(1) as c", "", "c"},
	{"completion/prefix_groups", "substr(key, 0, 2) as p, 10 / (count(1) - 1) as r", "p", "p"},
	{"completion/prefix_groups", "substr(key, 0, 1) as p, 10 / (sum(int(value)) - 6) as r", "p", "r"},
}

// rejected by AggregatePlan.Init inside BuildPlan
var g2Init = []string{
	"select group_concat(key, 1) as g where value != 'q'",
	"select count(1) as c, group_concat(key, int(value)) as g where value != 'q'",
	"select key, group_concat(value, 2 > 1) as g where value != 'q' group by key",
	"select count() as c where value != 'q'",
	"select sum(int(value), 1) as c where value != 'q'",
	"select key, count(1) + min() as c where value != 'q' group by key",
	"select group_concat(key) as g where value != 'q'",
}

func g2Stream(c *runCtx, e *emitter) {
	r := newRng(c.seed*104729 + 71)
	rounds := 1
	if c.thorough() {
		rounds = 6
	}
	if c.search {
		rounds *= 3
	}
	wrapsFrom := func(ty byte) []t3Wrap {
		var out []t3Wrap
		for _, w := range t3Wraps {
			if w.from == ty && !strings.Contains(w.format, "key ^=") {
				out = append(out, w)
			}
		}
		return out
	}
	wheres := []string{"value != 'q'", "key > ''", "key ^= 'k'", "key >= 'kb'", "value != 'q' & key != 'zz'"}
	n := 0
	tops := func(alias string) (string, string) {
		n++
		switch (n + r.intn(3)) % 7 {
		case 0:
			return " order by " + alias, "order"
		case 1:
			return " order by " + alias + " desc limit 2", "order+limit"
		case 2:
			return " limit 1", "limit"
		case 3:
			return " limit 1, 2", "limit"
		case 4:
			return " order by " + alias + " limit 1, 3", "order+limit"
		}
		return "", "none"
	}
	for round := 0; round < rounds; round++ {
		for ci, core := range t3Cores {
			for depth := 0; depth <= 1; depth++ {
				text, ty := core.text, core.ty
				for d := 0; d < depth; d++ {
					w := pick(r, wrapsFrom(ty))
					text, ty = fmt.Sprintf(w.format, text), w.to
				}
				kvs := t3Stores[(n+ci+round)%len(t3Stores)]
				B := 2 + (n+depth)%2
				wh := wheres[(n+ci)%len(wheres)]
				var aggs []string
				switch ty {
				case 'n':
					aggs = []string{"sum(%s)", "avg(%s)", "min(%s)", "max(%s)", "count(%s)", "json_arrayagg(%s)", "sum(%s) + 1", "2 * max(%s) - count(1)", "group_concat(%s, ',')"}
				case 's':
					aggs = []string{"group_concat(%s, '-')", "min(%s)", "sum(%s)", "count(%s)", "json_arrayagg(%s)", "group_concat(%s, ',' + ';')"}
				default:
					aggs = []string{"count(%s)", "sum(%s)", "json_arrayagg(%s)", "group_concat(%s, '')"}
				}
				ag := fmt.Sprintf(aggs[(n+round)%len(aggs)], text)
				// 1. the argument of an aggregate call, one group
				top, tn := tops("f")
				g2Case(e, "select "+ag+" as f, count(1) as c where "+wh+top, kvs, B, core.kind, "aggregate_argument", tn)
				// 2. ... with GROUP BY key / a prefix of the key, a key field in front
				top, tn = tops("c")
				if n%2 == 0 {
					g2Case(e, "select key, count(1) as c, "+ag+" as f where "+wh+" group by key"+top, kvs, B, core.kind, "aggregate_argument(group_by_key)", tn)
				} else {
					g2Case(e, "select substr(key, 0, 1) as p, "+ag+" as f, count(1) as c where "+wh+" group by p"+top, kvs, B, core.kind, "aggregate_argument(group_by_prefix)", tn)
				}
				// 3. the GROUP BY expression itself
				top, tn = tops("c")
				g2Case(e, "select "+text+" as g, count(1) as c where "+wh+" group by g"+top, kvs, B, core.kind, "group_by_expression", tn)
				// 4. a non-aggregate field next to the aggregates: first pair of each group only
				top, tn = tops("c")
				if n%2 == 0 {
					g2Case(e, "select key, "+text+" as f, count(1) as c where "+wh+" group by key, value"+top, kvs, B, core.kind, "key_field(every_pair_opens_a_group)", tn)
				} else {
					g2Case(e, "select substr(key, 0, 1) as p, "+text+" as f, sum(int(value)) as c where "+wh+" group by p, value"+top, g2Store, B, core.kind, "key_field(first_pair_of_group_only)", tn)
				}
				// 5. in WHERE under an aggregate plan
				if ty == 'b' {
					top, tn = tops("c")
					g2Case(e, "select count(1) as c, key where "+text+" group by key"+top, kvs, B, core.kind, "where_under_aggregate", tn)
				}
				// 6. a plain projection with ORDER BY / LIMIT on top (the order node drains its child)
				top, tn = tops("f")
				if tn != "none" {
					g2Case(e, "select key, "+text+" as f where "+wh+top, kvs, B, core.kind, "projection_field", tn)
				}
			}
		}
		for ci, cp := range g2Completion {
			for si, kvs := range t3Stores {
				for _, wh := range []string{"value != 'q'", "key ^= 'k'"} {
					cnt := 0
					for _, kv := range kvs {
						if wh == "value != 'q'" || strings.HasPrefix(kv[0], "k") {
							cnt++
						}
					}
					fields := cp.fields
					if strings.Contains(fields, "%d") {
						fields = strings.ReplaceAll(fields, "%d", fmt.Sprint(cnt-(ci+si+round)%2))
					}
					q := "select " + fields + " where " + wh
					if cp.group != "" {
						q += " group by " + cp.group
					}
					for t := 0; t < 3; t++ {
						top, tn := tops(cp.alias)
						g2Case(e, q+top, kvs, 2+(si+t)%2, cp.kind, "completion", tn)
					}
				}
			}
		}
	}
	for i, q := range g2Init {
		g2Case(e, q, t3Stores[i%len(t3Stores)], 2, "init", "init", "none")
	}
}
