package main

// C18: key-pinning filters read only the pinned keys or region from storage.
// Canonical key-pinning shapes (equality, IN, prefix, ranges) and their conjunctions with each
// other and with opaque predicates, over all literal choices from {a, ab, b, ba, c}; the
// statement is drained through BuildPlan on the logging reference store; observed: the region
// of the scan node and the keys actually read (Get keys, keys returned by cursor Next).

import (
	"fmt"
	"strings"

	kvql "github.com/c4pt0r/kvql"
)

func init() { registry["C18"] = runC18 }

type c18Replay struct {
	Query   string   `json:"query"`
	Mode    string   `json:"mode"`
	Region  string   `json:"observed_region"`
	Gets    []string `json:"get_keys"`
	Nexts   []string `json:"cursor_keys"`
	Cursors int      `json:"cursor_and_seek_calls"`
	What    string   `json:"what,omitempty"`
}

// c18Reads collects the keys read and the cursor traffic from a call log.
func c18Reads(rp *c18Replay, log []call) {
	for _, cl := range log {
		switch cl.Op {
		case "Get":
			rp.Gets = append(rp.Gets, cl.Key)
		case "Next":
			if !cl.Nil {
				rp.Nexts = append(rp.Nexts, cl.Key)
			}
		case "Cursor", "Seek":
			rp.Cursors++
		}
	}
}

// c18ScanOf walks down a plan to its scan node
func c18ScanOf(p any) kvql.Plan {
	for i := 0; i < 8; i++ {
		switch x := p.(type) {
		case *kvql.FinalLimitPlan:
			p = x.ChildPlan
		case *kvql.FinalOrderPlan:
			p = x.ChildPlan
		case *kvql.ProjectionPlan:
			p = x.ChildPlan
		case *kvql.AggregatePlan:
			p = x.ChildPlan
		case *kvql.LimitPlan:
			p = x.ChildPlan
		case *kvql.DeletePlan:
			p = x.ChildPlan
		case kvql.Plan:
			return x
		default:
			return nil
		}
	}
	return nil
}

// c18Heads: the statement shapes a pinned WHERE clause is run under besides `select *` -- the
// access path (and what is read) is decided by the clause, whatever sits on top of the scan
var c18Heads = []string{"select * where %s", "select key, count(1) as c where %s group by key", "select count(1) where %s",
	"select key, value where %s order by value desc", "select key, upper(value) as u where %s limit 1, 2",
	"select value, count(1) as c where %s group by value order by c desc limit 2", "delete where %s"}

func c18Case(e *emitter, pred string, univ [][2]string, batch bool, B int) {
	c18CaseF(e, pred, univ, batch, B, false)
}

// with faults: the same statement once more for every storage call of the fault-free run, that
// call failing -- whatever the statement then does (fail, go on), what it reads stays pinned
func c18CaseF(e *emitter, pred string, univ [][2]string, batch bool, B int, faults bool) {
	c18CaseH(e, 0, pred, univ, batch, B, faults)
}

func c18CaseH(e *emitter, head int, pred string, univ [][2]string, batch bool, B int, faults bool) {
	query := fmt.Sprintf(c18Heads[head], pred)
	sel, err := parseWhere(pred)
	if err != nil {
		e.count("rejected")
		return
	}
	// the region is inferred from the tree after constant folding, as BuildPlan does
	eo := kvql.ExpressionOptimizer{Root: sel.Where.Expr}
	folded := eo.Optimize()
	term, ok := coqExpr(folded)
	if !ok {
		e.m.OutOfModel++
		return
	}
	st := newStore(univ)
	kvql.PlanBatchSize = B
	plan, perr := kvql.NewOptimizer(query).BuildPlan(st)
	if perr != nil {
		e.count("rejected")
		return
	}
	scan := c18ScanOf(plan)
	if scan == nil {
		e.count("plan_without_scan_node")
		return
	}
	obs := observeRegion(scan)
	if head > 0 {
		e.count("head=" + strings.SplitN(c18Heads[head], " where", 2)[0])
	}
	res := drainPlan(plan, batch, runResult{})
	rp := c18Replay{Query: query, Mode: fmt.Sprintf("batch=%v B=%d", batch, B), Region: obs.region}
	if res.Panic != "" || res.Err != nil {
		e.count("drain_error")
		return
	}
	c18Reads(&rp, st.log)
	e.count("scan=" + obs.kind)
	e.add(fmt.Sprintf("Case %s %s %s %s %d", term, obs.region, coqStrList(rp.Gets), coqStrList(rp.Nexts), rp.Cursors), rp, obs.kind != "FULL")
	if !faults || obs.kind == "FULL" {
		return
	}
	// the same plan once more after Init() (a prepared plan run again): what it reads stays pinned
	for run := 2; run <= 3; run++ {
		st.log = nil
		rrp := c18Replay{Query: query, Mode: fmt.Sprintf("batch=%v B=%d, run %d of the same plan after Init()", batch, B, run), Region: obs.region}
		func() {
			defer func() { _ = recover() }()
			if ierr := plan.Init(); ierr == nil {
				drainPlan(plan, batch, runResult{})
			}
		}()
		c18Reads(&rrp, st.log)
		e.count("rerun_after_init")
		e.add(fmt.Sprintf("Case %s %s %s %s %d", term, obs.region, coqStrList(rrp.Gets), coqStrList(rrp.Nexts), rrp.Cursors), rrp, true)
	}
	for k := range st.log {
		fs := newStore(univ)
		fs.faultAt = k
		frp := c18Replay{Query: query, Mode: fmt.Sprintf("batch=%v B=%d, storage call %d (%s) fails", batch, B, k, st.log[k].Op), Region: obs.region}
		func() {
			defer func() { _ = recover() }()
			kvql.PlanBatchSize = B
			fplan, ferr := kvql.NewOptimizer(query).BuildPlan(fs)
			if ferr == nil {
				drainPlan(fplan, batch, runResult{})
			}
		}()
		c18Reads(&frp, fs.log)
		e.count("faulted_run")
		e.add(fmt.Sprintf("Case %s %s %s %s %d", term, obs.region, coqStrList(frp.Gets), coqStrList(frp.Nexts), frp.Cursors), frp, true)
	}
}

// c18InRegion: the denotation of a scan node as the scan plans execute it (public fields)
func c18InRegion(scan kvql.Plan, key string) bool {
	switch x := scan.(type) {
	case *kvql.EmptyResultPlan:
		return false
	case *kvql.MultiGetPlan:
		for _, k := range x.Keys {
			if k == key {
				return true
			}
		}
		return false
	case *kvql.PrefixScanPlan:
		return strings.HasPrefix(key, x.Prefix)
	case *kvql.RangeScanPlan:
		return (x.Start == nil || key >= string(x.Start)) && (x.End == nil || key <= string(x.End))
	}
	return true
}

// c18BigCase: a statement over a store that is NOT the universe of the case file (regions of several
// batches, DELETE).  The rule about the one key a scan may read beyond its region is judged here, on the
// stored keys: every key read lies in the region of the built scan node, except at most one, which is the
// first stored key behind everything read inside the region and is read last.  The Coq case carries the
// reads inside the region only (its end-key test speaks about the file's universe) and compares the
// region with the twin's.
func c18BigCase(e *emitter, head int, pred string, store [][2]string, batch bool, B int) {
	query := fmt.Sprintf(c18Heads[head], pred)
	sel, err := parseWhere(pred)
	if err != nil {
		e.count("rejected")
		return
	}
	eo := kvql.ExpressionOptimizer{Root: sel.Where.Expr}
	term, ok := coqExpr(eo.Optimize())
	if !ok {
		e.m.OutOfModel++
		return
	}
	st := newStore(store)
	kvql.PlanBatchSize = B
	plan, perr := kvql.NewOptimizer(query).BuildPlan(st)
	if perr != nil {
		e.count("rejected")
		return
	}
	scan := c18ScanOf(plan)
	if scan == nil {
		e.count("plan_without_scan_node")
		return
	}
	obs := observeRegion(scan)
	res := drainPlan(plan, batch, runResult{})
	rp := c18Replay{Query: query, Mode: fmt.Sprintf("batch=%v B=%d, store of %d pairs", batch, B, len(store)), Region: obs.region}
	if res.Panic != "" || res.Err != nil {
		e.count("drain_error")
		return
	}
	c18Reads(&rp, st.log)
	e.count("big_store:scan=" + obs.kind)
	e.count("big_store:head=" + strings.SplitN(c18Heads[head], " where", 2)[0])
	var inside []string
	outside := 0
	last := ""
	for _, k := range rp.Nexts {
		if c18InRegion(scan, k) {
			inside = append(inside, k)
		} else {
			outside++
			last = k
		}
	}
	bad := ""
	for _, k := range rp.Gets {
		if !c18InRegion(scan, k) {
			bad = "a point read outside the pinned key set: " + k
		}
	}
	if obs.kind != "FULL" {
		if outside > 1 {
			bad = fmt.Sprintf("%d keys were read outside the region of the scan node (at most the one ending the scan may be)", outside)
		} else if outside == 1 {
			if rp.Nexts[len(rp.Nexts)-1] != last {
				bad = "the key read outside the region is not the last key read: " + last
			}
			for _, kv := range store { // the first stored key behind the region's reads
				if len(inside) > 0 && kv[0] > inside[len(inside)-1] && !c18InRegion(scan, kv[0]) && kv[0] < last {
					bad = "the key read outside the region (" + last + ") is not the first stored key behind it (" + kv[0] + ")"
					break
				}
			}
		}
	}
	idx := e.add(fmt.Sprintf("Case %s %s %s %s %d", term, obs.region, coqStrList(rp.Gets), coqStrList(inside), rp.Cursors), rp, obs.kind != "FULL")
	if bad != "" {
		rp.What = bad
		e.fail(idx, "storage was read outside the pinned region: "+bad, "C18/read-outside-region", rp)
	}
}

func runC18(c *runCtx) error {
	lits := []string{"a", "ab", "b", "ba", "c", "a\xff"} // (a prefix whose last byte is 0xff has no successor by incrementing it)
	univ := c02Universe([]string{"", "a", "ab", "abc", "b", "ba", "c", "a\xff"})
	keys := make([]string, len(univ))
	for i, kv := range univ {
		keys[i] = kv[0]
	}
	header := "From Coq Require Import List String.\nFrom KV Require Import Base.Bytes Model.Ast Model.FilterOpt Corr.C18.\nImport ListNotations.\nOpen Scope string_scope.\n" +
		"Definition univ : list bytes := " + coqStrList(keys) + ".\nDefinition mismatches := mismatches_with univ.\n"
	e := newEmitter(c.out, "C18", header, 600)
	e.m.Rule = "canonical key-pinning shapes (key = l, l = key, key in (..), key ^= l, key > >= < <= l and mirrored, key between l1 and l2) over all literal choices from {a, ab, b, ba, c}, alone, AND-ed pairwise and AND-ed with opaque predicates, drained row-at-a-time and in batches (B in {1, 3, 32}); the single shapes once more for every storage call of the run, that call failing, and twice more after Init() of the same plan; non-trivial = the access path is not a full scan"
	var atoms []string
	for _, l := range lits {
		atoms = append(atoms, fmt.Sprintf("key = %s", q(l)), fmt.Sprintf("%s = key", q(l)), fmt.Sprintf("key ^= %s", q(l)),
			fmt.Sprintf("key > %s", q(l)), fmt.Sprintf("key >= %s", q(l)), fmt.Sprintf("key < %s", q(l)), fmt.Sprintf("key <= %s", q(l)),
			fmt.Sprintf("%s > key", q(l)), fmt.Sprintf("%s <= key", q(l)))
		for _, m := range lits {
			atoms = append(atoms, fmt.Sprintf("key in (%s, %s)", q(l), q(m)), fmt.Sprintf("key between %s and %s", q(l), q(m)))
		}
	}
	atoms = append(atoms, "false", "key < ''", "key <= ''", "key in ('a', 'b', 'c')")
	// long key lists (65 / 66 / 129 listed keys, stored and not): thresholds on the number of point
	// reads; on their own and with an opaque conjunct only (not in the pairwise part)
	var longAtoms []string
	for _, n := range []int{65, 66, 129} {
		ks := []string{}
		for i := 0; len(ks) < n; i++ {
			if i < len(univ) {
				ks = append(ks, q(univ[(i*7)%len(univ)][0]))
			} else {
				ks = append(ks, q(fmt.Sprintf("zq%03d", i)))
			}
		}
		in := "key in (" + strings.Join(ks, ", ") + ")"
		longAtoms = append(longAtoms, in, in+" | key = 'abc'", "("+in+") & key in ('a', 'ab', 'nokey')")
	}
	opaque := []string{"value = 'x'", "value ^= 'y'", "upper(value) = 'X'", "!(value = 'x')"}
	modes := []struct {
		batch bool
		B     int
	}{{false, 32}, {true, 1}, {true, 3}, {true, 32}}
	n := 0
	// every single shape under the other statement heads (aggregate with and without GROUP BY,
	// ORDER BY, LIMIT): quick tier one mode per (shape, head), rotating
	hn := 0
	for _, a := range atoms {
		for h := 1; h < len(c18Heads); h++ {
			hn++
			m := modes[hn%len(modes)]
			if !c.thorough() && hn%2 == 0 {
				continue
			}
			c18CaseH(e, h, a, univ, m.batch, m.B, false)
		}
	}
	for _, a := range longAtoms {
		for _, m := range modes[1:3] {
			c18CaseF(e, a, univ, m.batch, m.B, true)
		}
		c18Case(e, fmt.Sprintf("(%s) & %s", a, opaque[0]), univ, true, 3)
	}
	for _, a := range atoms {
		for _, m := range modes {
			c18CaseF(e, a, univ, m.batch, m.B, true)
		}
		for _, o := range opaque {
			m := modes[n%len(modes)]
			n++
			c18Case(e, fmt.Sprintf("%s & %s", a, o), univ, m.batch, m.B)
			c18Case(e, fmt.Sprintf("(%s) and (%s)", o, a), univ, m.batch, m.B)
		}
	}
	for i, a := range atoms {
		for j, b := range atoms {
			if !c.thorough() && !c.search && (i*5+j)%7 != int(c.seed%7) {
				continue
			}
			m := modes[(i+j)%len(modes)]
			c18Case(e, fmt.Sprintf("(%s) & (%s)", a, b), univ, m.batch, m.B)
			if c.thorough() {
				c18Case(e, fmt.Sprintf("(%s) & (%s) & (%s)", a, opaque[(i+j)%len(opaque)], b), univ, m.batch, m.B)
			}
		}
	}
	// long conjunctions: the pinning conjunct in front of / behind / inside a chain of 16, 17, 20, 40 opaque
	// conjuncts (a left-deep tree as deep as the chain is long), and two pinning conjuncts at its two ends
	chain := func(k int, skip int) string {
		var parts []string
		for i := 0; i < k; i++ {
			parts = append(parts, opaque[(i+skip)%len(opaque)])
		}
		return strings.Join(parts, " & ")
	}
	for ai, a := range atoms {
		if !c.thorough() && ai%3 != int(c.seed%3) {
			continue
		}
		for ki, k := range []int{16, 17, 20, 40} {
			m := modes[(ai+ki)%len(modes)]
			c18Case(e, fmt.Sprintf("%s & %s", a, chain(k, ai)), univ, m.batch, m.B)
			c18Case(e, fmt.Sprintf("%s & %s", chain(k, ai), a), univ, m.batch, m.B)
			if k == 20 {
				c18Case(e, fmt.Sprintf("%s & %s & %s", chain(k/2, ai), a, chain(k/2, ai+1)), univ, m.batch, m.B)
				c18Case(e, fmt.Sprintf("%s & %s & %s", a, chain(k, ai), atoms[(ai+1)%len(atoms)]), univ, m.batch, m.B)
			}
		}
	}
	// DELETE, and regions of several batches: 40 pairs under the prefix `ab`, pairs before and behind it; what a
	// scan-and-delete loop reads while it deletes stays inside the region, batch after batch
	var big [][2]string
	big = append(big, [2]string{"a", "1"}, [2]string{"ab", "2"})
	for i := 0; i < 40; i++ {
		big = append(big, [2]string{fmt.Sprintf("ab%02d", i), fmt.Sprint(i % 7)})
	}
	big = append(big, [2]string{"abz", "x"}, [2]string{"ac", "3"}, [2]string{"b", "4"}, [2]string{"b0", "5"}, [2]string{"ba", "6"}, [2]string{"c", "7"}, [2]string{"c1", "8"})
	del := len(c18Heads) - 1
	for pi, pred := range []string{"key ^= 'ab'", "key between 'ab' and 'abz'", "key >= 'ab' & key < 'ac'", "key ^= 'ab' & value != '3'",
		"key > 'ab' & key <= 'ab39'", "key ^= 'ab' & key >= 'ab10'", "key in ('ab01', 'ab02', 'zz') | key ^= 'ab3'"} {
		for mi, m := range modes {
			c18BigCase(e, del, pred, big, m.batch, m.B)
			if (pi+mi)%2 == 0 || c.thorough() {
				c18BigCase(e, 0, pred, big, m.batch, m.B)
				c18BigCase(e, 1+(pi+mi)%(len(c18Heads)-2), pred, big, m.batch, m.B)
			}
		}
	}
	for ai, a := range atoms { // DELETE over every single shape on the small universe too
		m := modes[ai%len(modes)]
		c18CaseH(e, del, a, univ, m.batch, m.B, false)
		c18CaseH(e, del, fmt.Sprintf("%s & %s", a, opaque[ai%len(opaque)]), univ, m.batch, m.B, false)
	}
	e.m.Exhaustive = c.thorough()
	return e.flush()
}
