package main

// C19: independent statements can run concurrently without races or interference.
//
//  part 1  (Coq)  Model/Interleave.v + Properties/C19.v: machines that write only what they own
//          are not affected by any schedule; storage instance for disjoint write-sets.
//  part 2  footprint analysis (c19_footprint.go): ties the premise "statements write only
//          private state; package-level state is only read" to the repo's current source.
//          One Foot case per package-level variable / aliased object type.
//  part 3  concurrent differential runs: the separate program harness/c19race is built twice
//          against the repo -- plainly and with -race (CGO_ENABLED=1) -- and executed: 2..16
//          goroutines, each its own statements / plans / contexts over a mutex-protected
//          store, seeded random GOMAXPROCS and yield points, results compared with the solo
//          runs (Diff cases); for point-operation workloads the recorded linearization order
//          is replayed through the Coq storage twin (Sched cases); race-detector reports are
//          attributed to runs through stderr markers (RaceRun / Diff.races).

import (
	"bytes"
	"context"
	"encoding/json"
	"fmt"
	"os"
	"os/exec"
	"path/filepath"
	"runtime"
	"runtime/debug"
	"sort"
	"strings"
	"time"
)

func init() { registry["C19"] = runC19 }

const c19KvqlModule = "github.com/c4pt0r/kvql"

// c19Repo: the directory the harness was linked against (replace directive recorded in the
// build info), so that the source analysed is the source that was run.
func c19Repo() string {
	if bi, ok := debug.ReadBuildInfo(); ok {
		for _, d := range bi.Deps {
			if d.Path == c19KvqlModule && d.Replace != nil && strings.HasPrefix(d.Replace.Path, "/") {
				return d.Replace.Path
			}
		}
	}
	if r := os.Getenv("VERIF_REPO"); r != "" {
		return r
	}
	return "/repo"
}

func c19HarnessDir() string {
	if d := os.Getenv("VERIF_HARNESS"); d != "" {
		return d
	}
	if _, file, _, ok := runtime.Caller(0); ok {
		d := filepath.Dir(file)
		if _, err := os.Stat(filepath.Join(d, "c19race", "main.go")); err == nil {
			return d
		}
	}
	return "/verif/harness"
}

// ---- JSON produced by harness/c19race (only the fields used here)

type c19Op struct {
	G   int         `json:"g"`
	Op  string      `json:"op"`
	Key string      `json:"key,omitempty"`
	KVs [][2]string `json:"kvs,omitempty"`
	Ks  []string    `json:"ks,omitempty"`
	Val *string     `json:"val,omitempty"`
}

type c19Run struct {
	ID         int               `json:"id"`
	Workload   string            `json:"workload"`
	N          int               `json:"goroutines"`
	GoMaxProcs int               `json:"gomaxprocs"`
	Seed       uint64            `json:"seed"`
	BatchSize  int               `json:"plan_batch_size"`
	Cache      bool              `json:"field_cache"`
	Stmts      int               `json:"statements"`
	Alone      []string          `json:"alone"`
	Conc       []string          `json:"conc"`
	Diffs      []json.RawMessage `json:"diffs,omitempty"`
	Unstable   int               `json:"unstable_alone"`
	Errors     int               `json:"error_statements"`
	Panics     int               `json:"panic_statements"`
	Rows       int               `json:"rows"`
	Lists      json.RawMessage   `json:"lists,omitempty"`
	FinalDiff  []string          `json:"final_store_diff,omitempty"`
	Init       [][2]string       `json:"init,omitempty"`
	LogAlone   [][]c19Op         `json:"log_alone,omitempty"`
	LogConc    [][]c19Op         `json:"log_conc,omitempty"`
	Sched      []int             `json:"sched,omitempty"`
	Final      [][2]string       `json:"final,omitempty"`
	HasCursor  bool              `json:"has_cursor,omitempty"`
}

type c19Output struct {
	Race   bool     `json:"race_enabled"`
	GoVer  string   `json:"go_version"`
	NumCPU int      `json:"num_cpu"`
	Seed   uint64   `json:"seed"`
	Runs   []c19Run `json:"runs"`
}

type c19Replay struct {
	Kind       string            `json:"kind"`
	Race       bool              `json:"race_binary,omitempty"`
	Rerun      string            `json:"rerun,omitempty"`
	Workload   string            `json:"workload,omitempty"`
	Goroutines int               `json:"goroutines,omitempty"`
	GoMaxProcs int               `json:"gomaxprocs,omitempty"`
	Seed       uint64            `json:"child_seed,omitempty"`
	RunID      int               `json:"run_id,omitempty"`
	BatchSize  int               `json:"plan_batch_size,omitempty"`
	Cache      bool              `json:"field_cache,omitempty"`
	Statements int               `json:"statements,omitempty"`
	Alone      []string          `json:"digests_alone,omitempty"`
	Conc       []string          `json:"digests_concurrent,omitempty"`
	Diffs      []json.RawMessage `json:"first_differences,omitempty"`
	FinalDiff  []string          `json:"final_store_differences,omitempty"`
	Lists      json.RawMessage   `json:"statement_lists,omitempty"`
	Races      int               `json:"race_reports,omitempty"`
	RaceReport string            `json:"first_race_report,omitempty"`
	Footprint  any               `json:"footprint,omitempty"`
	Note       string            `json:"note,omitempty"`
	Rebuild    string            `json:"rebuild_hint,omitempty"`
}

// ---- child processes

type c19Child struct {
	bin   string
	race  bool
	avail bool
	note  string
}

func c19Build(c *runCtx, repo, hdir string, race bool) c19Child {
	name := "c19race_plain"
	if race {
		name = "c19race_race"
	}
	ch := c19Child{bin: filepath.Join(c.out, name), race: race}
	modSrc, err := os.ReadFile(filepath.Join(hdir, "go.mod"))
	if err != nil {
		ch.note = "cannot read harness go.mod: " + err.Error()
		return ch
	}
	mod := filepath.Join(c.out, name+".mod")
	lines := strings.Split(string(modSrc), "\n")
	for i, l := range lines {
		if strings.HasPrefix(strings.TrimSpace(l), "replace "+c19KvqlModule) {
			lines[i] = "replace " + c19KvqlModule + " => " + repo
		}
	}
	if err := os.WriteFile(mod, []byte(strings.Join(lines, "\n")), 0o644); err != nil {
		ch.note = err.Error()
		return ch
	}
	if sum, err := os.ReadFile(filepath.Join(repo, "go.sum")); err == nil {
		os.WriteFile(filepath.Join(c.out, name+".sum"), sum, 0o644)
	}
	args := []string{"build"}
	cgo := "CGO_ENABLED=0"
	if race {
		args = append(args, "-race")
		cgo = "CGO_ENABLED=1"
	}
	args = append(args, "-modfile="+mod, "-o", ch.bin, "./c19race")
	ctx, cancel := context.WithTimeout(context.Background(), 600*time.Second)
	defer cancel()
	cmd := exec.CommandContext(ctx, "go", args...)
	cmd.Dir = hdir
	cmd.Env = append(os.Environ(), "GOFLAGS=-mod=mod", "GOPROXY=off", "GOSUMDB=off", "GOTOOLCHAIN=local", cgo)
	out, err := cmd.CombinedOutput()
	if err != nil {
		ch.note = fmt.Sprintf("go %s failed: %v: %s", strings.Join(args, " "), err, c19Clip(string(out), 1500))
		return ch
	}
	ch.avail = true
	return ch
}

func c19Clip(s string, n int) string {
	if len(s) > n {
		return s[:n] + "..."
	}
	return s
}

type c19RaceInfo struct {
	perRun  map[int]int
	first   map[int]string
	outside int
	total   int
}

// c19ParseRaceStderr attributes "WARNING: DATA RACE" reports to the run whose markers enclose them.
func c19ParseRaceStderr(stderr string) c19RaceInfo {
	ri := c19RaceInfo{perRun: map[int]int{}, first: map[int]string{}}
	cur := -1
	lines := strings.Split(stderr, "\n")
	for i := 0; i < len(lines); i++ {
		l := lines[i]
		var id int
		if n, _ := fmt.Sscanf(l, "C19RUN %d", &id); n == 1 {
			cur = id
			continue
		}
		if n, _ := fmt.Sscanf(l, "C19END %d", &id); n == 1 {
			cur = -1
			continue
		}
		if strings.HasPrefix(l, "WARNING: DATA RACE") {
			ri.total++
			if cur < 0 {
				ri.outside++
			}
			ri.perRun[cur]++
			if _, ok := ri.first[cur]; !ok {
				end := i + 1
				for end < len(lines) && end < i+60 && !strings.HasPrefix(lines[end], "==================") {
					end++
				}
				ri.first[cur] = strings.Join(lines[i:end], "\n")
			}
		}
	}
	return ri
}

func c19Exec(ch c19Child, seed uint64, runs, stmts int, workloads string) (*c19Output, c19RaceInfo, string, error) {
	ctx, cancel := context.WithTimeout(context.Background(), 1200*time.Second)
	defer cancel()
	args := []string{"--seed", fmt.Sprint(seed), "--runs", fmt.Sprint(runs), "--stmts", fmt.Sprint(stmts), "--workloads", workloads}
	cmd := exec.CommandContext(ctx, ch.bin, args...)
	cmd.Env = append(os.Environ(), "GORACE=halt_on_error=0 exitcode=0")
	var so, se bytes.Buffer
	cmd.Stdout, cmd.Stderr = &so, &se
	err := cmd.Run()
	rerun := ch.bin + " " + strings.Join(args, " ")
	ri := c19ParseRaceStderr(se.String())
	if err != nil {
		var keep []string
		for _, l := range strings.Split(se.String(), "\n") {
			if !strings.HasPrefix(l, "C19RUN ") && !strings.HasPrefix(l, "C19END ") {
				keep = append(keep, l)
			}
		}
		return nil, ri, rerun, fmt.Errorf("%s: %v: %s", rerun, err, c19Clip(strings.Join(keep, "\n"), 8000))
	}
	var out c19Output
	if err := json.Unmarshal(so.Bytes(), &out); err != nil {
		return nil, ri, rerun, fmt.Errorf("%s: cannot parse output: %v", rerun, err)
	}
	return &out, ri, rerun, nil
}

// ---- Gallina terms

func c19CoqOptString(p *string) string {
	if p == nil {
		return "None"
	}
	return "(Some " + coqStr(*p) + ")"
}

func c19Prog(ops []c19Op) (prog string, outs string, ok bool) {
	var ps, os_ []string
	ok = true
	for _, o := range ops {
		switch o.Op {
		case "get":
			ps = append(ps, "OGet "+coqStr(o.Key))
			os_ = append(os_, c19CoqOptString(o.Val))
		case "put":
			ps = append(ps, "OPut "+coqPairs(o.KVs))
		case "del":
			ps = append(ps, "ODel "+coqStrList(o.Ks))
		default:
			ok = false
		}
	}
	return coqList(ps), coqList(os_), ok
}

func c19SchedTerm(r c19Run) (string, bool) {
	if r.HasCursor || len(r.LogAlone) != r.N || len(r.LogConc) != r.N {
		return "", false
	}
	var pa, pc, oa, oc []string
	for g := 0; g < r.N; g++ {
		p, o, ok := c19Prog(r.LogAlone[g])
		if !ok {
			return "", false
		}
		pa, oa = append(pa, p), append(oa, o)
		p, o, ok = c19Prog(r.LogConc[g])
		if !ok {
			return "", false
		}
		pc, oc = append(pc, p), append(oc, o)
	}
	keys := map[string]bool{}
	final := map[string]string{}
	for _, kv := range r.Init {
		keys[kv[0]] = true
	}
	for _, kv := range r.Final {
		keys[kv[0]] = true
		final[kv[0]] = kv[1]
	}
	for _, l := range r.LogConc {
		for _, o := range l {
			if o.Op == "get" {
				keys[o.Key] = true
			}
			for _, kv := range o.KVs {
				keys[kv[0]] = true
			}
			for _, k := range o.Ks {
				keys[k] = true
			}
		}
	}
	ks := make([]string, 0, len(keys))
	for k := range keys {
		ks = append(ks, k)
	}
	sort.Strings(ks)
	fc := make([]string, len(ks))
	for i, k := range ks {
		if v, ok := final[k]; ok {
			fc[i] = "(Some " + coqStr(v) + ")"
		} else {
			fc[i] = "None"
		}
	}
	return fmt.Sprintf("Sched %d %s %s %s %s %s %s %s %s", r.N, coqPairs(r.Init), coqList(pa), coqList(pc),
		coqNatList(r.Sched), coqList(oa), coqList(oc), coqStrList(ks), coqList(fc)), true
}

var c19Workloads = map[string]int{"readonly": 0, "errors": 1, "mixed": 2, "writers": 3, "pointops": 4, "sametext": 5}

func c19EqStrs(a, b []string) bool {
	if len(a) != len(b) {
		return false
	}
	for i := range a {
		if a[i] != b[i] {
			return false
		}
	}
	return true
}

func c19OpsEqual(a, b []c19Op) bool {
	if len(a) != len(b) {
		return false
	}
	for i := range a {
		x, y := a[i], b[i]
		if x.Op != y.Op || x.Key != y.Key || len(x.KVs) != len(y.KVs) || len(x.Ks) != len(y.Ks) {
			return false
		}
		for j := range x.KVs {
			if x.KVs[j] != y.KVs[j] {
				return false
			}
		}
		for j := range x.Ks {
			if x.Ks[j] != y.Ks[j] {
				return false
			}
		}
	}
	return true
}

func j0(race bool) string {
	if race {
		return "c19race_race"
	}
	return "c19race_plain"
}

// ---- the property run

func runC19(c *runCtx) error {
	header := "From Coq Require Import List String Bool.\nImport ListNotations.\nFrom KV Require Import Base.Bytes Model.Interleave Corr.C19.\nOpen Scope string_scope.\n"
	e := newEmitter(c.out, "C19", header, 40)
	e.m.Rule = "a Diff case is non-trivial when >= 2 goroutines ran concurrently and their statements returned rows; distinct = distinct (digests, schedule) terms; Sched cases are non-trivial when the recorded schedule interleaves >= 2 goroutines; Foot rows when the variable has a writer or a reader"
	repo := c19Repo()
	hdir := c19HarnessDir()
	e.m.Notes = append(e.m.Notes, "repo analysed and linked: "+repo)

	// ------------------------------------------------------------ part 2: footprint
	rep, err := c19AnalyzeFootprint(repo)
	if err != nil {
		return err
	}
	e.m.Notes = append(e.m.Notes,
		"footprint allow-list (functions that may write package-level state): "+strings.Join(rep.AllowList, "; "),
		"footprint roots (per-statement API, methods by name): "+strings.Join(rep.Roots, " "),
		fmt.Sprintf("footprint: %d files, %d functions, %d reachable from %d root functions, %d call edges, %d dynamic call sites -> %d address-taken functions, %d package-level vars (+%d blank interface assertions), importer %s, %d type errors",
			len(rep.Files), rep.Funcs, rep.Reachable, len(rep.RootsFound), rep.Edges, rep.DynCalls, rep.AddrTaken, len(rep.Vars), rep.BlankVars, rep.Importer, rep.TypeErrors),
		"footprint alias rule covers objects of types: "+strings.Join(rep.AliasTypes, ", "))
	if rep.TypeErrors > 0 {
		e.m.Notes = append(e.m.Notes, "footprint: type errors (analysis continued, name-based fallbacks used): "+strings.Join(rep.TypeErrText, " | "))
		e.count("footprint_type_errors")
	}
	byTarget := map[string][]fpWrite{}
	var targets []string
	for _, v := range rep.Vars {
		targets = append(targets, v.Name)
		byTarget[v.Name] = nil
	}
	for _, w := range rep.Writes {
		if _, ok := byTarget[w.Var]; !ok {
			targets = append(targets, w.Var)
		}
		byTarget[w.Var] = append(byTarget[w.Var], w)
	}
	varInfo := map[string]fpVar{}
	for _, v := range rep.Vars {
		varInfo[v.Name] = v
	}
	for _, t := range targets {
		ws := byTarget[t]
		var items []string
		var bad []fpWrite
		for _, w := range ws {
			items = append(items, fmt.Sprintf("(%s, (%s, %s))", coqStr(w.Func), coqBool(w.Allowed), coqBool(w.Reach && !w.Synced)))
			switch {
			case w.Reach && w.Synced:
				// a write under a lock is no data race and need not interfere; the theorem's premise
				// (immutable shared environment) is then not established statically and the claim
				// rests on the differential and race-detector runs for this variable
				e.count("footprint_write=reachable_but_under_a_lock")
				e.m.Notes = append(e.m.Notes, fmt.Sprintf("footprint: %s writes %s (%s, %s) on a statement's path, in a function that takes a lock: not counted as a violation; non-interference for this state is supported by the concurrent runs only", w.Func, w.Var, w.Kind, w.Pos))
			case w.Reach:
				bad = append(bad, w)
				e.count("footprint_write=reachable_from_statement_api")
			case w.Allowed:
				e.count("footprint_write=allow_listed")
			default:
				e.count("footprint_write=unlisted_but_unreachable")
				e.m.Notes = append(e.m.Notes, fmt.Sprintf("footprint: %s writes %s (%s, %s): not on the allow-list, not reachable from the statement API", w.Func, w.Var, w.Kind, w.Pos))
			}
		}
		rp := c19Replay{Kind: "footprint", Footprint: map[string]any{"target": t, "var": varInfo[t], "writes": ws}}
		vi, isVar := varInfo[t]
		idx := e.add(fmt.Sprintf("Foot %s %s", coqStr(t), coqList(items)), rp, len(ws) > 0 || (isVar && vi.Readers > 0))
		if isVar {
			e.count("footprint_var")
		} else {
			e.count("footprint_aliased_object")
		}
		if len(bad) > 0 {
			w := bad[0]
			e.fail(idx, fmt.Sprintf("package-level state %s is written (%s at %s) by %s, which is reachable from the per-statement API: %s",
				t, w.Kind, w.Pos, w.Func, strings.Join(w.Path, " -> ")), "C19/footprint/"+t, rp)
		}
	}

	// ------------------------------------------------------------ part 3: concurrent runs
	plain := c19Build(c, repo, hdir, false)
	if !plain.avail {
		return fmt.Errorf("cannot build harness/c19race against %s: %s", repo, plain.note)
	}
	race := c19Child{race: true, note: "disabled by VERIF_C19_NORACE"}
	if os.Getenv("VERIF_C19_NORACE") != "1" {
		race = c19Build(c, repo, hdir, true)
	}
	if race.avail {
		e.m.Notes = append(e.m.Notes, "race detector: available (go build -race with CGO_ENABLED=1); race-instrumented runs executed")
		e.count("race_detector=available")
	} else {
		e.m.Notes = append(e.m.Notes, "race detector: NOT available, only non-instrumented concurrent runs executed: "+race.note)
		e.count("race_detector=unavailable")
	}

	type job struct {
		ch          c19Child
		seed        uint64
		runs, stmts int
		workloads   string
	}
	rebuild := func(race bool) string {
		fl, cgo := "", "0"
		if race {
			fl, cgo = "-race ", "1"
		}
		return fmt.Sprintf("cd %s && sed 's#=> /repo#=> %s#' go.mod > /tmp/c19.mod && cp %s/go.sum /tmp/c19.sum && CGO_ENABLED=%s go build %s-modfile=/tmp/c19.mod -o <dir>/%s ./c19race   (the run directory is emptied by the next check)",
			hdir, repo, repo, cgo, fl, filepath.Base(j0(race)))
	}
	all := "readonly,errors,mixed,sametext,writers,pointops"
	var jobs []job
	plainSeeds, plainRuns, raceSeeds, raceRuns := 4, 8, 4, 3
	if c.thorough() {
		plainSeeds, plainRuns, raceSeeds, raceRuns = 80, 10, 60, 4
	}
	if c.search {
		plainSeeds, raceSeeds = plainSeeds*4, raceSeeds*3
	}
	for s := 0; s < plainSeeds; s++ {
		jobs = append(jobs, job{plain, c.seed*100 + uint64(s), plainRuns, 12, all})
	}
	if race.avail {
		for s := 0; s < raceSeeds; s++ {
			jobs = append(jobs, job{race, c.seed*100 + 50 + uint64(s), raceRuns, 10, all})
		}
	}
	schedBudget := 60
	if c.thorough() {
		schedBudget = 400
	}
	for _, j := range jobs {
		out, ri, rerun, err := c19Exec(j.ch, j.seed, j.runs, j.stmts, j.workloads)
		if err != nil {
			// "fatal error: concurrent map writes" and friends: the runtime's own detection of an
			// unsynchronised map access; it kills the process, so the run has no JSON
			if msg := err.Error(); strings.Contains(msg, "fatal error: concurrent map") {
				at := strings.Index(msg, "fatal error: concurrent map")
				rp := c19Replay{Kind: "runtime-abort", Race: j.ch.race, Rerun: rerun, RaceReport: c19Clip(msg[at:], 6000),
					Note: "the Go runtime aborted the process while independent statements ran concurrently"}
				idx := e.add(fmt.Sprintf("Crash %s 2", coqBool(j.ch.race)), rp, true)
				e.count("runtime_abort")
				e.fail(idx, "the Go runtime aborted a concurrent run of independent statements: "+c19Clip(c19AbortSummary(msg[at:]), 300), "C19/runtime-abort", rp)
				continue
			}
			return err
		}
		tag := "race=off"
		if j.ch.race {
			tag = "race=on"
		}
		for _, r := range out.Runs {
			nraces := ri.perRun[r.ID]
			if nraces > 999 {
				nraces = 999
			}
			term := fmt.Sprintf("Diff %s %d %d %d %s %s %d", coqBool(j.ch.race), c19Workloads[r.Workload], r.N, r.GoMaxProcs,
				coqStrList(r.Alone), coqStrList(r.Conc), nraces)
			rp := c19Replay{Kind: "concurrent-differential", Race: j.ch.race, Rerun: fmt.Sprintf("%s --only %d", rerun, r.ID), Rebuild: rebuild(j.ch.race),
				Workload: r.Workload, Goroutines: r.N, GoMaxProcs: r.GoMaxProcs, Seed: r.Seed, RunID: r.ID,
				BatchSize: r.BatchSize, Cache: r.Cache, Statements: r.Stmts}
			differs := !c19EqStrs(r.Alone, r.Conc)
			if differs || nraces > 0 {
				rp.Alone, rp.Conc, rp.Diffs, rp.FinalDiff, rp.Lists = r.Alone, r.Conc, r.Diffs, r.FinalDiff, r.Lists
				rp.Races, rp.RaceReport = nraces, c19Clip(ri.first[r.ID], 6000)
			}
			idx := e.add(term, rp, r.N >= 2 && r.Rows > 0)
			e.count("workload=" + r.Workload)
			e.count(tag)
			e.count(fmt.Sprintf("goroutines=%02d", r.N))
			e.count(fmt.Sprintf("gomaxprocs=%d", r.GoMaxProcs))
			e.count(fmt.Sprintf("plan_batch_size=%d", r.BatchSize))
			e.m.Dist["statements_total"] += r.Stmts
			e.m.Dist["statements_error_outcome"] += r.Errors
			e.m.Dist["statements_panic_outcome"] += r.Panics
			e.m.Dist["rows_total"] += r.Rows
			e.m.OutOfModel += r.Unstable
			if differs {
				what := fmt.Sprintf("%s workload, %d goroutines, GOMAXPROCS=%d: a statement returned something else concurrently than alone", r.Workload, r.N, r.GoMaxProcs)
				if len(r.Diffs) > 0 {
					what += ": " + c19Clip(string(r.Diffs[0]), 300)
				} else if len(r.FinalDiff) > 0 {
					what += ": " + c19Clip(r.FinalDiff[0], 300)
				}
				e.fail(idx, what, "C19/interference/"+r.Workload, rp)
			}
			if nraces > 0 {
				e.fail(idx, fmt.Sprintf("the Go race detector reported %d data race(s) while %d goroutines ran %s statements: %s",
					nraces, r.N, r.Workload, c19Clip(c19RaceSummary(ri.first[r.ID]), 300)), "C19/race", rp)
			}
			// recorded linearization -> Coq storage twin
			if r.Workload == "pointops" {
				if term, ok := c19SchedTerm(r); ok && schedBudget > 0 {
					schedBudget--
					gs := map[int]bool{}
					for _, g := range r.Sched {
						gs[g] = true
					}
					srp := c19Replay{Kind: "recorded-schedule", Race: j.ch.race, Rerun: fmt.Sprintf("%s --only %d", rerun, r.ID),
						Workload: r.Workload, Goroutines: r.N, GoMaxProcs: r.GoMaxProcs, Seed: r.Seed, RunID: r.ID, Statements: r.Stmts,
						Note: fmt.Sprintf("%d storage operations in the recorded linearization", len(r.Sched))}
					sidx := e.add(term, srp, len(gs) >= 2)
					e.count("sched_case")
					e.m.Dist["sched_storage_ops_total"] += len(r.Sched)
					for g := 0; g < r.N; g++ {
						if !c19OpsEqual(r.LogAlone[g], r.LogConc[g]) {
							srp.Lists = r.Lists
							e.fail(sidx, fmt.Sprintf("goroutine %d issued different storage operations concurrently than alone (pointops, %d goroutines)", g, r.N),
								"C19/storage-ops", srp)
							break
						}
					}
				} else if !ok {
					e.count("sched_skipped_not_point_ops")
				}
			}
		}
		if j.ch.race {
			total := ri.total
			if total > 999 {
				total = 999
			}
			rp := c19Replay{Kind: "race-detector-process", Race: true, Rerun: rerun, Races: ri.total}
			if ri.total > 0 {
				for _, rep := range ri.first {
					rp.RaceReport = c19Clip(rep, 6000)
					break
				}
			}
			idx := e.add(fmt.Sprintf("RaceRun true %d %d", len(out.Runs), total), rp, len(out.Runs) > 0)
			e.count("race_process")
			if ri.total > 0 {
				e.fail(idx, fmt.Sprintf("the Go race detector reported %d data race(s) in one process (%d outside the concurrent phases): %s", ri.total, ri.outside, c19Clip(c19RaceSummary(rp.RaceReport), 300)), "C19/race", rp)
			}
		}
	}
	if !race.avail {
		e.add("RaceRun false 0 0", c19Replay{Kind: "race-detector-process", Note: race.note}, false)
	}
	return e.flush()
}

// c19AbortSummary: the fatal error line and the first kvql frame of the crashing goroutine.
func c19AbortSummary(msg string) string {
	lines := strings.Split(msg, "\n")
	out := strings.TrimSpace(lines[0])
	for _, l := range lines[1:] {
		if t := strings.TrimSpace(l); strings.HasPrefix(t, c19KvqlModule+".") {
			if i := strings.LastIndex(t, "("); i > 0 {
				t = t[:i]
			}
			return out + " in " + strings.TrimPrefix(t, c19KvqlModule+".")
		}
	}
	return out
}

// c19RaceSummary: per access of a race report, its kind and the innermost kvql frame.
func c19RaceSummary(report string) string {
	var parts []string
	lines := strings.Split(report, "\n")
	for i := 0; i < len(lines); i++ {
		t := strings.TrimSpace(lines[i])
		if !(strings.HasPrefix(t, "Write at") || strings.HasPrefix(t, "Read at") || strings.HasPrefix(t, "Previous write at") || strings.HasPrefix(t, "Previous read at")) {
			continue
		}
		kind := strings.SplitN(t, " at ", 2)[0]
		fn, loc := "", ""
		for j := i + 1; j+1 < len(lines) && strings.TrimSpace(lines[j]) != ""; j += 2 {
			f := strings.TrimSpace(lines[j])
			l := strings.TrimSpace(lines[j+1])
			if k := strings.Index(l, " +0x"); k > 0 {
				l = l[:k]
			}
			if fn == "" || strings.HasPrefix(f, c19KvqlModule+".") {
				fn, loc = f, filepath.Base(l)
			}
			if strings.HasPrefix(f, c19KvqlModule+".") {
				break
			}
		}
		parts = append(parts, fmt.Sprintf("%s by %s (%s)", kind, strings.TrimPrefix(fn, c19KvqlModule+"."), loc))
	}
	if len(parts) == 0 {
		return c19Clip(report, 200)
	}
	return strings.Join(parts, " / ")
}
