package main

// C19, part 2: footprint analysis of package kvql (go/ast + go/types, standard library only).
//
// The Coq theorem interleave_noninterference (Properties/C19.v) has the premise "every
// statement machine writes only its own private locations; the shared environment is only
// read".  For the Go code the shared environment is the set of package-level variables of
// package kvql (function tables, PlanBatchSize, EnableFieldCache, DefaultErrorPadding, the
// token/operator name tables) plus the objects reachable from them.  This file checks on
// every run, against the current source of the repo, that
//   (a) every write whose target is rooted at a package-level variable (assignment, op=,
//       ++/--, map/index/field write, delete, clear, append/copy into it, &G) occurs in an
//       allow-listed function (init, package-level initialisers, AddScalarFunction,
//       AddAggrFunction), and
//   (b) no function that writes package-level state -- directly, or through a pointer/map
//       whose type is the type of an object stored in a package-level variable (type-based
//       alias rule, e.g. a *Function fetched from funcMap) -- is reachable in a conservative
//       call graph from the per-statement API (NewOptimizer, BuildPlan, Next, Batch, Explain,
//       Error, BindQuery, ...).
// Call graph: static calls, methods by NAME (class-hierarchy style: x.M() reaches every
// method M of the package), function values (a function mentioned as a value is reachable
// from the mentioning function and from every dynamic call), initialisers of the
// package-level variables a function mentions, callback-style method names as extra roots.

import (
	"fmt"
	"go/ast"
	"go/build"
	"go/importer"
	"go/parser"
	"go/token"
	"go/types"
	"io"
	"os"
	"os/exec"
	"path/filepath"
	"sort"
	"strings"
)

type fpWrite struct {
	Func     string   `json:"func"`
	Var      string   `json:"var"`
	Kind     string   `json:"kind"` // assign opassign incdec index-write field-write deref-write delete clear append copy address-taken alias-field-write alias-index-write alias-delete
	Pos      string   `json:"pos"`
	Allowed  bool     `json:"allow_listed"`
	Reach    bool     `json:"reachable_from_statement_api"`
	Path     []string `json:"call_path,omitempty"`
	ViaAlias bool     `json:"via_type_alias_rule"`
	Synced   bool     `json:"writer_takes_a_lock"` // the writing function locks a sync.Mutex/RWMutex or runs under sync.Once
}

type fpVar struct {
	Name    string   `json:"name"`
	Type    string   `json:"type"`
	Pos     string   `json:"pos"`
	Mutable bool     `json:"reference_or_assignable"` // always true for vars; kept for the table
	Writers []string `json:"writers"`
	Readers int      `json:"reader_functions"`
}

type fpReport struct {
	Repo        string    `json:"repo"`
	Files       []string  `json:"files"`
	Vars        []fpVar   `json:"package_level_vars"`
	BlankVars   int       `json:"blank_interface_assertions"`
	Writes      []fpWrite `json:"writes"`
	AllowList   []string  `json:"allow_list"`
	Roots       []string  `json:"roots"`
	RootsFound  []string  `json:"roots_found"`
	Funcs       int       `json:"functions"`
	Reachable   int       `json:"reachable_functions"`
	Edges       int       `json:"call_edges"`
	DynCalls    int       `json:"dynamic_call_sites"`
	AddrTaken   int       `json:"address_taken_functions"`
	AliasTypes  []string  `json:"types_reachable_from_globals"`
	TypeErrors  int       `json:"type_errors"`
	TypeErrText []string  `json:"type_error_samples,omitempty"`
	Importer    string    `json:"importer"`
}

// the exact allow-list: functions that may write package-level state
var fpAllowFuncs = map[string]bool{"AddScalarFunction": true, "AddAggrFunction": true}

func fpAllowed(fn string) bool {
	return fn == "init" || strings.HasPrefix(fn, "init#") || fn == "<package initialiser>" || fpAllowFuncs[fn]
}

// per-statement API: plain functions by name, methods by name
var fpRootFuncs = []string{"NewOptimizer", "NewExecuteCtx", "NewParser", "NewLexer", "NewSyntaxError", "NewExecuteError"}
var fpRootMethods = []string{"BuildPlan", "Next", "Batch", "Explain", "Error", "BindQuery", "SetPadding",
	"Init", "String", "FieldNameList", "FieldTypeList", "Clear", "Parse", "Split", "Execute", "ExecuteBatch",
	"Check", "ReturnType", "Optimize", "Walk",
	// callback-style names reached from library code (sort, container/heap, fmt, encoding/json)
	"Len", "Less", "Swap", "Push", "Pop", "MarshalJSON", "UnmarshalJSON", "GoString", "Format"}

const fpDyn = "<dynamic call>"

type fpFunc struct {
	name    string
	recv    string // "" for plain functions
	mname   string // bare name
	decl    *ast.FuncDecl
	callees map[string]bool
	reads   map[string]bool
	writes  []fpWrite
	locks   bool         // calls Lock/RLock on a sync.Mutex / sync.RWMutex, or sync.Once.Do
	lit     *ast.FuncLit // a closure stored in a package-level variable: its captured variables are shared state
	owner   string       // the package-level variable whose initialiser contains lit
}

func fpExportLookup(repo string) (func(path string) (io.ReadCloser, error), error) {
	cmd := exec.Command("go", "list", "-export", "-deps", "-f", "{{.ImportPath}}={{.Export}}", ".")
	cmd.Dir = repo
	cmd.Env = append(os.Environ(), "GOFLAGS=-mod=mod", "GOPROXY=off", "GOSUMDB=off", "GOTOOLCHAIN=local")
	out, err := cmd.Output()
	if err != nil {
		return nil, err
	}
	m := map[string]string{}
	for _, l := range strings.Split(string(out), "\n") {
		if i := strings.Index(l, "="); i > 0 && len(l) > i+1 {
			m[l[:i]] = l[i+1:]
		}
	}
	return func(path string) (io.ReadCloser, error) {
		f, ok := m[path]
		if !ok {
			return nil, fmt.Errorf("no export data for %s", path)
		}
		return os.Open(f)
	}, nil
}

func fpRecvTypeName(e ast.Expr) string {
	switch t := e.(type) {
	case *ast.StarExpr:
		return fpRecvTypeName(t.X)
	case *ast.Ident:
		return t.Name
	case *ast.IndexExpr:
		return fpRecvTypeName(t.X)
	case *ast.IndexListExpr:
		return fpRecvTypeName(t.X)
	case *ast.ParenExpr:
		return fpRecvTypeName(t.X)
	}
	return "?"
}

// fpRootIdent strips selectors, indexing, slicing, dereference, parentheses and type assertions.
func fpRootIdent(e ast.Expr) (*ast.Ident, string) {
	shape := "assign"
	for {
		switch t := e.(type) {
		case *ast.Ident:
			return t, shape
		case *ast.SelectorExpr:
			if shape == "assign" {
				shape = "field-write"
			}
			e = t.X
		case *ast.IndexExpr:
			if shape == "assign" {
				shape = "index-write"
			}
			e = t.X
		case *ast.SliceExpr:
			e = t.X
		case *ast.StarExpr:
			if shape == "assign" {
				shape = "deref-write"
			}
			e = t.X
		case *ast.ParenExpr:
			e = t.X
		case *ast.TypeAssertExpr:
			e = t.X
		default:
			return nil, shape
		}
	}
}

func c19AnalyzeFootprint(repo string) (*fpReport, error) {
	rep := &fpReport{Repo: repo}
	bp, err := build.Default.ImportDir(repo, 0)
	if err != nil {
		return nil, fmt.Errorf("footprint: cannot list package in %s: %v", repo, err)
	}
	fset := token.NewFileSet()
	var files []*ast.File
	names := append([]string{}, bp.GoFiles...)
	names = append(names, bp.CgoFiles...)
	sort.Strings(names)
	for _, n := range names {
		f, err := parser.ParseFile(fset, filepath.Join(repo, n), nil, parser.SkipObjectResolution)
		if err != nil {
			return nil, fmt.Errorf("footprint: parse %s: %v", n, err)
		}
		files = append(files, f)
		rep.Files = append(rep.Files, n)
	}
	info := &types.Info{Types: map[ast.Expr]types.TypeAndValue{}, Defs: map[*ast.Ident]types.Object{},
		Uses: map[*ast.Ident]types.Object{}, Selections: map[*ast.SelectorExpr]*types.Selection{}}
	conf := types.Config{Error: func(err error) {
		rep.TypeErrors++
		if len(rep.TypeErrText) < 5 {
			rep.TypeErrText = append(rep.TypeErrText, err.Error())
		}
	}}
	if lookup, lerr := fpExportLookup(repo); lerr == nil {
		conf.Importer = importer.ForCompiler(fset, "gc", lookup)
		rep.Importer = "gc export data (go list -export)"
	} else {
		conf.Importer = importer.ForCompiler(fset, "source", nil)
		rep.Importer = "source (go list -export failed: " + lerr.Error() + ")"
	}
	pkg, _ := conf.Check(bp.ImportPath, fset, files, info) // errors are counted, analysis continues
	if pkg == nil {
		return nil, fmt.Errorf("footprint: type checker returned no package")
	}
	pos := func(p token.Pos) string {
		pp := fset.Position(p)
		return fmt.Sprintf("%s:%d", filepath.Base(pp.Filename), pp.Line)
	}
	isPkgVar := func(id *ast.Ident) *types.Var {
		if id == nil {
			return nil
		}
		obj := info.Uses[id]
		if obj == nil {
			obj = info.Defs[id]
		}
		v, ok := obj.(*types.Var)
		if !ok || v.IsField() || v.Pkg() != pkg || v.Parent() != pkg.Scope() {
			return nil
		}
		return v
	}

	// ---- package-level variables and their initialisers
	varIdx := map[string]int{}
	initRefs := map[string]map[string]bool{} // var -> functions mentioned in its initialiser
	funcs := map[string]*fpFunc{}
	byMethod := map[string][]string{} // bare method name -> full names
	addrTaken := map[string]bool{}
	fullName := func(fd *ast.FuncDecl) (string, string) {
		if fd.Recv != nil && len(fd.Recv.List) > 0 {
			r := fpRecvTypeName(fd.Recv.List[0].Type)
			return "(" + r + ")." + fd.Name.Name, r
		}
		return fd.Name.Name, ""
	}
	funcObjName := func(fn *types.Func) string {
		if fn.Pkg() != pkg {
			return ""
		}
		sig, _ := fn.Type().(*types.Signature)
		if sig != nil && sig.Recv() != nil {
			t := sig.Recv().Type()
			if p, ok := t.(*types.Pointer); ok {
				t = p.Elem()
			}
			if n, ok := t.(*types.Named); ok {
				return "(" + n.Obj().Name() + ")." + fn.Name()
			}
			return "" // interface method: resolved by name
		}
		return fn.Name()
	}
	initCount := 0
	for _, f := range files {
		for _, d := range f.Decls {
			fd, ok := d.(*ast.FuncDecl)
			if !ok {
				continue
			}
			n, r := fullName(fd)
			if n == "init" {
				initCount++
				if initCount > 1 {
					n = fmt.Sprintf("init#%d", initCount)
				}
			}
			funcs[n] = &fpFunc{name: n, recv: r, mname: fd.Name.Name, decl: fd, callees: map[string]bool{}, reads: map[string]bool{}}
			if r != "" {
				byMethod[fd.Name.Name] = append(byMethod[fd.Name.Name], n)
			}
		}
	}
	pkgInit := &fpFunc{name: "<package initialiser>", callees: map[string]bool{}, reads: map[string]bool{}}

	// types reachable from the package-level variables (for the alias rule)
	aliasNamed := map[*types.TypeName]bool{}
	var aliasContainers []types.Type
	var visitT func(t types.Type, depth int)
	seenT := map[types.Type]bool{}
	visitT = func(t types.Type, depth int) {
		if t == nil || seenT[t] || depth > 8 {
			return
		}
		seenT[t] = true
		switch u := t.(type) {
		case *types.Named:
			if u.Obj().Pkg() != pkg {
				return
			}
			if st, ok := u.Underlying().(*types.Struct); ok {
				aliasNamed[u.Obj()] = true
				for i := 0; i < st.NumFields(); i++ {
					visitT(st.Field(i).Type(), depth+1)
				}
			} else {
				visitT(u.Underlying(), depth+1)
			}
		case *types.Pointer:
			visitT(u.Elem(), depth+1)
		case *types.Map:
			aliasContainers = append(aliasContainers, u)
			visitT(u.Key(), depth+1)
			visitT(u.Elem(), depth+1)
		case *types.Slice:
			aliasContainers = append(aliasContainers, u)
			visitT(u.Elem(), depth+1)
		case *types.Array:
			visitT(u.Elem(), depth+1)
		case *types.Struct:
			for i := 0; i < u.NumFields(); i++ {
				visitT(u.Field(i).Type(), depth+1)
			}
		}
	}

	for _, f := range files {
		for _, d := range f.Decls {
			gd, ok := d.(*ast.GenDecl)
			if !ok || gd.Tok != token.VAR {
				continue
			}
			for _, s := range gd.Specs {
				vs := s.(*ast.ValueSpec)
				for i, id := range vs.Names {
					if id.Name == "_" {
						rep.BlankVars++
						continue
					}
					v, _ := info.Defs[id].(*types.Var)
					ts := "?"
					if v != nil {
						ts = types.TypeString(v.Type(), types.RelativeTo(pkg))
						visitT(v.Type(), 0)
					}
					varIdx[id.Name] = len(rep.Vars)
					rep.Vars = append(rep.Vars, fpVar{Name: id.Name, Type: ts, Pos: pos(id.Pos()), Mutable: true})
					refs := map[string]bool{}
					var inits []ast.Expr
					if len(vs.Values) == len(vs.Names) {
						inits = []ast.Expr{vs.Values[i]}
					} else {
						inits = vs.Values
					}
					for _, e := range inits {
						// the variable may be typed as an interface (error): what it HOLDS is what a
						// constructor CALLED in the initialiser returns -- its return expressions' own
						// types join the alias types (var errX = NewExecuteError(..) shares one
						// *ExecuteError between all statements).  Functions merely mentioned (tables
						// of constructors) create their objects later, per call: not included.
						ast.Inspect(e, func(n ast.Node) bool {
							if _, isLit := n.(*ast.FuncLit); isLit {
								return false
							}
							ce, ok := n.(*ast.CallExpr)
							if !ok {
								return true
							}
							var fid *ast.Ident
							switch f := ce.Fun.(type) {
							case *ast.Ident:
								fid = f
							case *ast.SelectorExpr:
								fid = f.Sel
							}
							if fid == nil {
								return true
							}
							if fn, ok := info.Uses[fid].(*types.Func); ok {
								if nm := funcObjName(fn); nm != "" && funcs[nm] != nil && funcs[nm].decl != nil && funcs[nm].decl.Body != nil {
									ast.Inspect(funcs[nm].decl.Body, func(m ast.Node) bool {
										if rs, ok := m.(*ast.ReturnStmt); ok {
											for _, re := range rs.Results {
												if tv, ok := info.Types[re]; ok && tv.Type != nil {
													visitT(tv.Type, 0)
												}
											}
										}
										return true
									})
								}
							}
							return true
						})
						ast.Inspect(e, func(n ast.Node) bool {
							if x, ok := n.(*ast.Ident); ok {
								if fn, ok := info.Uses[x].(*types.Func); ok {
									if nm := funcObjName(fn); nm != "" {
										refs[nm] = true
										addrTaken[nm] = true
									} else if fn.Pkg() == pkg {
										for _, m := range byMethod[fn.Name()] {
											refs[m] = true
											addrTaken[m] = true
										}
									}
								}
							}
							return true
						})
					}
					initRefs[id.Name] = refs
				}
			}
		}
	}
	for tn := range aliasNamed {
		rep.AliasTypes = append(rep.AliasTypes, tn.Name())
	}
	for _, c := range aliasContainers {
		rep.AliasTypes = append(rep.AliasTypes, types.TypeString(c, types.RelativeTo(pkg)))
	}
	sort.Strings(rep.AliasTypes)
	rep.AliasTypes = fpDedup(rep.AliasTypes)

	derefNamed := func(t types.Type) *types.TypeName {
		for i := 0; i < 4 && t != nil; i++ {
			switch u := t.(type) {
			case *types.Pointer:
				t = u.Elem()
				continue
			case *types.Named:
				return u.Obj()
			}
			break
		}
		return nil
	}
	isAliasContainer := func(t types.Type) bool {
		if t == nil {
			return false
		}
		for _, c := range aliasContainers {
			if types.Identical(t, c) || types.Identical(t.Underlying(), c) {
				return true
			}
		}
		return false
	}
	// locals that certainly hold a fresh object (x := &T{...} / T{...} / make(...) / new(T)):
	// writes through them are initialisation of a private object, not alias writes
	freshLocals := func(body ast.Node) map[types.Object]bool {
		fresh := map[types.Object]bool{}
		ast.Inspect(body, func(n ast.Node) bool {
			var lhs, rhs []ast.Expr
			switch d := n.(type) {
			case *ast.AssignStmt:
				if d.Tok != token.DEFINE {
					return true
				}
				lhs, rhs = d.Lhs, d.Rhs
			case *ast.ValueSpec: // var x = make(...) / var x T (zero value of a non-reference type)
				for _, id := range d.Names {
					lhs = append(lhs, id)
				}
				rhs = d.Values
				if len(rhs) == 0 {
					for _, id := range d.Names {
						if o := info.Defs[id]; o != nil {
							switch o.Type().Underlying().(type) {
							case *types.Struct, *types.Array, *types.Basic:
								fresh[o] = true
							}
						}
					}
					return true
				}
			default:
				return true
			}
			if len(lhs) != len(rhs) {
				return true
			}
			for i, l := range lhs {
				id, ok := l.(*ast.Ident)
				if !ok {
					continue
				}
				r := rhs[i]
				if u, ok := r.(*ast.UnaryExpr); ok && u.Op == token.AND {
					r = u.X
				}
				isFresh := false
				switch c := r.(type) {
				case *ast.CompositeLit:
					isFresh = true
				case *ast.CallExpr:
					if f, ok := c.Fun.(*ast.Ident); ok && (f.Name == "make" || f.Name == "new") {
						if _, isB := info.Uses[f].(*types.Builtin); isB {
							isFresh = true
						}
					}
				}
				if isFresh {
					if o := info.Defs[id]; o != nil {
						fresh[o] = true
					}
				}
			}
			return true
		})
		// a local that is re-assigned later from something else is no longer certainly fresh
		ast.Inspect(body, func(n ast.Node) bool {
			as, ok := n.(*ast.AssignStmt)
			if !ok || as.Tok == token.DEFINE {
				return true
			}
			for _, l := range as.Lhs {
				if id, ok := l.(*ast.Ident); ok {
					if o := info.Uses[id]; o != nil {
						delete(fresh, o)
					}
				}
			}
			return true
		})
		return fresh
	}

	// ---- walk one function body (closures belong to the enclosing function)
	scan := func(fn *fpFunc, body ast.Node) {
		if body == nil {
			return
		}
		fresh := freshLocals(body)
		callFun := map[ast.Expr]bool{}
		atomicArg := map[*ast.UnaryExpr]bool{}
		addWrite := func(v string, kind string, p token.Pos, alias bool) {
			fn.writes = append(fn.writes, fpWrite{Func: fn.name, Var: v, Kind: kind, Pos: pos(p), ViaAlias: alias})
		}
		target := func(e ast.Expr, kindOverride string, p token.Pos) {
			id, shape := fpRootIdent(e)
			if kindOverride != "" && shape == "assign" {
				shape = kindOverride
			} else if kindOverride != "" {
				shape = kindOverride + "/" + shape
			}
			if v := isPkgVar(id); v != nil {
				addWrite(v.Name(), shape, p, false)
				return
			}
			// a closure kept in a package-level variable writes a variable it captured: that
			// variable lives as long as the package and is shared by every caller
			if fn.lit != nil && id != nil {
				if o, ok := info.Uses[id].(*types.Var); ok && !o.IsField() && (o.Pos() < fn.lit.Pos() || o.Pos() > fn.lit.End()) {
					addWrite("<"+o.Name()+" captured by the closure in "+fn.owner+">", shape, p, false)
					return
				}
			}
			// alias rule: the object written has the type of something stored in a global
			if id != nil {
				if o := info.Uses[id]; o != nil && fresh[o] {
					return
				}
			}
			switch t := e.(type) {
			case *ast.SelectorExpr:
				if tv, ok := info.Types[t.X]; ok {
					if tn := derefNamed(tv.Type); tn != nil && aliasNamed[tn] {
						addWrite("<"+tn.Name()+" object>."+t.Sel.Name, "alias-"+shape, p, true)
					}
				}
			case *ast.IndexExpr:
				if tv, ok := info.Types[t.X]; ok && isAliasContainer(tv.Type) {
					addWrite("<"+types.TypeString(tv.Type, types.RelativeTo(pkg))+" value>", "alias-"+shape, p, true)
				}
			case *ast.StarExpr:
				if tv, ok := info.Types[t.X]; ok {
					if tn := derefNamed(tv.Type); tn != nil && aliasNamed[tn] {
						addWrite("<"+tn.Name()+" object>", "alias-"+shape, p, true)
					}
				}
			}
		}
		ast.Inspect(body, func(n ast.Node) bool {
			switch s := n.(type) {
			case *ast.AssignStmt:
				if s.Tok == token.DEFINE {
					return true
				}
				for _, l := range s.Lhs {
					k := ""
					if s.Tok != token.ASSIGN {
						k = "opassign"
					}
					target(l, k, s.Pos())
				}
			case *ast.IncDecStmt:
				target(s.X, "incdec", s.Pos())
			case *ast.RangeStmt:
				if s.Tok == token.ASSIGN {
					if s.Key != nil {
						target(s.Key, "", s.Pos())
					}
					if s.Value != nil {
						target(s.Value, "", s.Pos())
					}
				}
			case *ast.UnaryExpr:
				if s.Op == token.AND && !atomicArg[s] {
					if id, _ := fpRootIdent(s.X); id != nil {
						if v := isPkgVar(id); v != nil {
							addWrite(v.Name(), "address-taken", s.Pos(), false)
						}
					}
				}
			case *ast.CallExpr:
				callFun[s.Fun] = true
				if se, ok := s.Fun.(*ast.SelectorExpr); ok {
					if x, ok := se.X.(*ast.Ident); ok {
						if pn, ok := info.Uses[x].(*types.PkgName); ok && pn.Imported().Path() == "sync/atomic" {
							// atomic.AddInt64(&G, 1): no data race, but a write to shared state all the
							// same (loads are reads)
							if !strings.HasPrefix(se.Sel.Name, "Load") {
								for _, a := range s.Args {
									if u, ok := a.(*ast.UnaryExpr); ok {
										if id, _ := fpRootIdent(u.X); id != nil {
											if v := isPkgVar(id); v != nil {
												addWrite(v.Name(), "atomic."+se.Sel.Name, s.Pos(), false)
											}
										}
									}
								}
							}
							for _, a := range s.Args {
								if u, ok := a.(*ast.UnaryExpr); ok {
									atomicArg[u] = true
								}
							}
						}
					}
				}
				fun := s.Fun
				if p, ok := fun.(*ast.ParenExpr); ok {
					fun = p.X
				}
				switch f := fun.(type) {
				case *ast.Ident:
					switch o := info.Uses[f].(type) {
					case *types.Builtin:
						switch o.Name() {
						case "delete", "clear":
							if len(s.Args) > 0 {
								id, _ := fpRootIdent(s.Args[0])
								if v := isPkgVar(id); v != nil {
									addWrite(v.Name(), o.Name(), s.Pos(), false)
								} else if tv, ok := info.Types[s.Args[0]]; ok && isAliasContainer(tv.Type) && !(id != nil && fresh[info.Uses[id]]) {
									addWrite("<"+types.TypeString(tv.Type, types.RelativeTo(pkg))+" value>", "alias-"+o.Name(), s.Pos(), true)
								}
							}
						case "append", "copy":
							if len(s.Args) > 0 {
								id, _ := fpRootIdent(s.Args[0])
								if v := isPkgVar(id); v != nil {
									addWrite(v.Name(), o.Name(), s.Pos(), false)
								}
							}
						}
					case *types.Func:
						if nm := funcObjName(o); nm != "" {
							fn.callees[nm] = true
						}
					case *types.TypeName:
						// conversion
					case nil:
						// unresolved (type error): by name
						if _, ok := funcs[f.Name]; ok {
							fn.callees[f.Name] = true
						}
					default:
						fn.callees[fpDyn] = true // variable of function type
						rep.DynCalls++
					}
				case *ast.SelectorExpr:
					switch o := info.Uses[f.Sel].(type) {
					case *types.Func:
						if sig, _ := o.Type().(*types.Signature); sig != nil && sig.Recv() != nil {
							rt := sig.Recv().Type()
							_, ptrRecv := rt.(*types.Pointer)
							syncType := false
							if tn := derefNamed(rt); tn != nil && tn.Pkg() != nil && (tn.Pkg().Path() == "sync" || tn.Pkg().Path() == "sync/atomic") {
								syncType = true
								if n := o.Name(); n == "Lock" || n == "RLock" || n == "Do" {
									fn.locks = true
								}
							}
							// a pointer-receiver method called on a package-level variable mutates it
							// (strings.Builder, bytes.Buffer, a struct with a counter ...).  sync and
							// atomic types are free of data races by construction, but a sync.Pool,
							// sync.Map, sync.Once or atomic counter is still state SHARED by all
							// statements, through which one statement's result can depend on another
							// (the premise of interleave_noninterference is about writes, not races):
							// counted too, except the pure lock operations
							pureLock := false
							if syncType {
								switch o.Name() {
								case "Lock", "Unlock", "RLock", "RUnlock", "TryLock", "TryRLock", "RLocker":
									pureLock = true
								}
							}
							if ptrRecv && !pureLock {
								if id, _ := fpRootIdent(f.X); id != nil {
									if v := isPkgVar(id); v != nil {
										addWrite(v.Name(), "pointer-method-call ."+o.Name()+"()", s.Pos(), false)
									}
								}
							}
						}
						if o.Pkg() == pkg || o.Pkg() == nil {
							sig, _ := o.Type().(*types.Signature)
							if sig != nil && sig.Recv() != nil {
								for _, m := range byMethod[o.Name()] { // every method of that name
									fn.callees[m] = true
								}
							} else if nm := funcObjName(o); nm != "" {
								fn.callees[nm] = true
							}
						} else {
							// method of an imported type or interface (error, fmt.Stringer, ...): a kvql
							// value may sit behind an imported interface
							sig, _ := o.Type().(*types.Signature)
							if sig != nil && sig.Recv() != nil {
								if _, isIface := sig.Recv().Type().Underlying().(*types.Interface); isIface {
									for _, m := range byMethod[o.Name()] {
										fn.callees[m] = true
									}
								}
							}
						}
					case *types.Var: // field or variable of function type
						fn.callees[fpDyn] = true
						rep.DynCalls++
					case *types.TypeName:
					case nil:
						for _, m := range byMethod[f.Sel.Name] {
							fn.callees[m] = true
						}
					}
				case *ast.FuncLit:
					// body is scanned as part of this function
				case *ast.ArrayType, *ast.MapType, *ast.ChanType, *ast.FuncType, *ast.InterfaceType, *ast.StarExpr:
					// conversion
				default:
					if tv, ok := info.Types[fun]; ok && tv.IsType() {
						break
					}
					fn.callees[fpDyn] = true
					rep.DynCalls++
				}
			}
			return true
		})
		// mentions: package-level variables read, functions used as values
		ast.Inspect(body, func(n ast.Node) bool {
			switch x := n.(type) {
			case *ast.Ident:
				if v := isPkgVar(x); v != nil {
					fn.reads[v.Name()] = true
				}
			case *ast.SelectorExpr:
				if f, ok := info.Uses[x.Sel].(*types.Func); ok && f.Pkg() == pkg && !callFun[ast.Expr(x)] {
					// method value x.M used without being called
					for _, m := range byMethod[f.Name()] {
						addrTaken[m] = true
						fn.callees[m] = true
					}
				}
			}
			return true
		})
		// plain function identifiers used as values (not in call position)
		ast.Inspect(body, func(n ast.Node) bool {
			id, ok := n.(*ast.Ident)
			if !ok {
				return true
			}
			f, ok := info.Uses[id].(*types.Func)
			if !ok || f.Pkg() != pkg {
				return true
			}
			sig, _ := f.Type().(*types.Signature)
			if sig == nil || sig.Recv() != nil {
				return true
			}
			if callFun[ast.Expr(id)] {
				return true
			}
			addrTaken[f.Name()] = true
			fn.callees[f.Name()] = true
			return true
		})
	}
	for _, f := range funcs {
		scan(f, f.decl.Body)
	}
	// package initialiser: writes performed by initialiser expressions are by definition allowed;
	// they are listed so that the table is complete
	for _, f := range files {
		for _, d := range f.Decls {
			if gd, ok := d.(*ast.GenDecl); ok && gd.Tok == token.VAR {
				for _, s := range gd.Specs {
					vs := s.(*ast.ValueSpec)
					for _, e := range vs.Values {
						scan(pkgInit, e)
					}
				}
			}
		}
	}
	funcs[pkgInit.name] = pkgInit
	// closures stored in package-level variables (var next = func() func() int { n := 0; return
	// func() int { n++; return n } }()): every FuncLit inside an initialiser becomes a node that
	// every dynamic call may reach
	for _, f := range files {
		for _, d := range f.Decls {
			gd, ok := d.(*ast.GenDecl)
			if !ok || gd.Tok != token.VAR {
				continue
			}
			for _, sp := range gd.Specs {
				vs := sp.(*ast.ValueSpec)
				owner := "?"
				if len(vs.Names) > 0 {
					owner = vs.Names[0].Name
				}
				for _, e := range vs.Values {
					ast.Inspect(e, func(n ast.Node) bool {
						lit, ok := n.(*ast.FuncLit)
						if !ok {
							return true
						}
						name := fmt.Sprintf("<closure in initialiser of %s at %s>", owner, pos(lit.Pos()))
						cf := &fpFunc{name: name, callees: map[string]bool{}, reads: map[string]bool{}, lit: lit, owner: owner}
						funcs[name] = cf
						addrTaken[name] = true
						scan(cf, lit.Body)
						return true
					})
				}
			}
		}
	}

	// ---- call graph closure
	adj := func(n string) []string {
		var out []string
		if n == fpDyn {
			for a := range addrTaken {
				out = append(out, a)
			}
			sort.Strings(out)
			return out
		}
		f := funcs[n]
		if f == nil {
			return nil
		}
		for c := range f.callees {
			out = append(out, c)
		}
		for v := range f.reads {
			for r := range initRefs[v] {
				out = append(out, r)
			}
		}
		sort.Strings(out)
		return out
	}
	rep.Roots = append(rep.Roots, fpRootFuncs...)
	for _, m := range fpRootMethods {
		rep.Roots = append(rep.Roots, "(*)."+m)
	}
	parent := map[string]string{}
	var queue []string
	addRoot := func(n string) {
		if _, ok := funcs[n]; ok {
			if _, seen := parent[n]; !seen {
				parent[n] = ""
				queue = append(queue, n)
				rep.RootsFound = append(rep.RootsFound, n)
			}
		}
	}
	for _, r := range fpRootFuncs {
		addRoot(r)
	}
	for _, m := range fpRootMethods {
		ms := append([]string{}, byMethod[m]...)
		sort.Strings(ms)
		for _, n := range ms {
			addRoot(n)
		}
	}
	sort.Strings(rep.RootsFound)
	for len(queue) > 0 {
		n := queue[0]
		queue = queue[1:]
		for _, c := range adj(n) {
			rep.Edges++
			if _, seen := parent[c]; !seen {
				parent[c] = n
				queue = append(queue, c)
			}
		}
	}
	pathTo := func(n string) []string {
		var p []string
		for cur, i := n, 0; i < 64; i++ {
			p = append([]string{cur}, p...)
			nx, ok := parent[cur]
			if !ok || nx == "" {
				break
			}
			cur = nx
		}
		return p
	}
	rep.Funcs = len(funcs) - 1
	for n := range parent {
		if n != fpDyn {
			rep.Reachable++
		}
	}
	rep.AddrTaken = len(addrTaken)
	for a := range fpAllowFuncs {
		rep.AllowList = append(rep.AllowList, a)
	}
	rep.AllowList = append(rep.AllowList, "init (every func init)", "<package initialiser> (initialiser expressions of package-level vars)")
	sort.Strings(rep.AllowList)

	// ---- the table
	fnames := make([]string, 0, len(funcs))
	for n := range funcs {
		fnames = append(fnames, n)
	}
	sort.Strings(fnames)
	readers := map[string]int{}
	for _, n := range fnames {
		f := funcs[n]
		for v := range f.reads {
			readers[v]++
		}
		_, reach := parent[n]
		if n == pkgInit.name {
			reach = false
		}
		for _, w := range f.writes {
			w.Allowed = fpAllowed(n)
			w.Reach = reach
			w.Synced = f.locks
			if reach {
				w.Path = pathTo(n)
			}
			rep.Writes = append(rep.Writes, w)
			if i, ok := varIdx[w.Var]; ok {
				rep.Vars[i].Writers = append(rep.Vars[i].Writers, n)
			}
		}
	}
	for i := range rep.Vars {
		rep.Vars[i].Writers = fpDedup(rep.Vars[i].Writers)
		rep.Vars[i].Readers = readers[rep.Vars[i].Name]
	}
	return rep, nil
}

func fpDedup(xs []string) []string {
	sort.Strings(xs)
	out := xs[:0]
	for i, x := range xs {
		if i == 0 || x != xs[i-1] {
			out = append(out, x)
		}
	}
	return out
}
