// c19race: the concurrent differential runner of property C19, as a separate small program so
// that ./check can build it twice: normally and with -race (the correspondence harness itself
// is built with CGO_ENABLED=0 and cannot carry the race runtime).
//
//	c19race --seed N --runs R --stmts K --scale S --workloads readonly,writers,pointops,errors
//
// Every run: n in 2..16 goroutines, each with its own list of statements; each statement is
// parsed, planned and executed with its own Optimizer / plan / ExecuteCtx over a storage that
// is protected by one mutex (linearizable).  Baseline: the same lists run alone (nothing else
// running) from the same initial store.  Observables per statement: field names and types,
// Explain() and String() of the plan, every row in canonical form, error class / position /
// rendered text after BindQuery, or the panic text.  Output: JSON on stdout; markers
// "C19RUN <id>" on stderr before each concurrent run so that race-detector reports (which go
// to stderr) can be attributed to a run.
package main

import (
	"crypto/sha256"
	"encoding/hex"
	"encoding/json"
	"errors"
	"flag"
	"fmt"
	"math"
	"os"
	"runtime"
	"sort"
	"strings"
	"sync"

	kvql "github.com/c4pt0r/kvql"
)

// ---------------------------------------------------------------- PRNG (splitmix64)

type rng struct{ s uint64 }

func newRng(seed uint64) *rng { return &rng{s: seed*0x9E3779B97F4A7C15 + 0x1234567} }
func (r *rng) next() uint64 {
	r.s += 0x9E3779B97F4A7C15
	z := r.s
	z = (z ^ (z >> 30)) * 0xBF58476D1CE4E5B9
	z = (z ^ (z >> 27)) * 0x94D049BB133111EB
	return z ^ (z >> 31)
}
func (r *rng) intn(n int) int {
	if n <= 0 {
		return 0
	}
	return int(r.next() % uint64(n))
}
func (r *rng) chance(num, den int) bool { return r.intn(den) < num }
func pick(r *rng, xs []string) string   { return xs[r.intn(len(xs))] }

// ---------------------------------------------------------------- linearizable store

type opRec struct {
	G   int         `json:"g"`
	Op  string      `json:"op"` // get put del cursor
	Key string      `json:"key,omitempty"`
	KVs [][2]string `json:"kvs,omitempty"`
	Ks  []string    `json:"ks,omitempty"`
	Val *string     `json:"val,omitempty"` // result of get (nil = absent)
}

type lockedStore struct {
	mu    sync.Mutex
	data  map[string][]byte
	log   []opRec
	logOn bool
}

func newLockedStore(kvs [][2]string) *lockedStore {
	s := &lockedStore{data: map[string][]byte{}}
	for _, kv := range kvs {
		s.data[kv[0]] = []byte(kv[1])
	}
	return s
}

func (s *lockedStore) pairs() [][2]string {
	s.mu.Lock()
	defer s.mu.Unlock()
	ks := make([]string, 0, len(s.data))
	for k := range s.data {
		ks = append(ks, k)
	}
	sort.Strings(ks)
	out := make([][2]string, len(ks))
	for i, k := range ks {
		out[i] = [2]string{k, string(s.data[k])}
	}
	return out
}

// view: what one goroutine passes to BuildPlan; tags the operations with the goroutine index
// and yields the processor at seeded random points to vary the interleaving.
type view struct {
	s     *lockedStore
	g     int
	r     *rng
	yield int // yield with probability yield/8 before each storage call
}

func (v *view) pause() {
	if v.yield > 0 && v.r.intn(8) < v.yield {
		runtime.Gosched()
	}
}

func (v *view) Get(key []byte) ([]byte, error) {
	v.pause()
	v.s.mu.Lock()
	defer v.s.mu.Unlock()
	val, ok := v.s.data[string(key)]
	if v.s.logOn {
		rec := opRec{G: v.g, Op: "get", Key: string(key)}
		if ok {
			sv := string(val)
			rec.Val = &sv
		}
		v.s.log = append(v.s.log, rec)
	}
	if !ok {
		return nil, nil
	}
	return append([]byte{}, val...), nil
}
func (v *view) Put(key, value []byte) error {
	v.pause()
	v.s.mu.Lock()
	defer v.s.mu.Unlock()
	if v.s.logOn {
		v.s.log = append(v.s.log, opRec{G: v.g, Op: "put", KVs: [][2]string{{string(key), string(value)}}})
	}
	v.s.data[string(key)] = append([]byte{}, value...)
	return nil
}
func (v *view) BatchPut(kvs []kvql.KVPair) error {
	v.pause()
	v.s.mu.Lock()
	defer v.s.mu.Unlock()
	rec := opRec{G: v.g, Op: "put"}
	for _, kv := range kvs {
		rec.KVs = append(rec.KVs, [2]string{string(kv.Key), string(kv.Value)})
		v.s.data[string(kv.Key)] = append([]byte{}, kv.Value...)
	}
	if v.s.logOn {
		v.s.log = append(v.s.log, rec)
	}
	return nil
}
func (v *view) Delete(key []byte) error {
	v.pause()
	v.s.mu.Lock()
	defer v.s.mu.Unlock()
	if v.s.logOn {
		v.s.log = append(v.s.log, opRec{G: v.g, Op: "del", Ks: []string{string(key)}})
	}
	delete(v.s.data, string(key))
	return nil
}
func (v *view) BatchDelete(keys [][]byte) error {
	v.pause()
	v.s.mu.Lock()
	defer v.s.mu.Unlock()
	rec := opRec{G: v.g, Op: "del"}
	for _, k := range keys {
		rec.Ks = append(rec.Ks, string(k))
		delete(v.s.data, string(k))
	}
	if v.s.logOn {
		v.s.log = append(v.s.log, rec)
	}
	return nil
}

// snapshot cursor: the pairs are copied under the lock, iteration is private to the goroutine
type snapCursor struct {
	v    *view
	keys []string
	vals [][]byte
	pos  int
}

func (v *view) Cursor() (kvql.Cursor, error) {
	v.pause()
	v.s.mu.Lock()
	defer v.s.mu.Unlock()
	if v.s.logOn {
		v.s.log = append(v.s.log, opRec{G: v.g, Op: "cursor"})
	}
	c := &snapCursor{v: v}
	c.keys = make([]string, 0, len(v.s.data))
	for k := range v.s.data {
		c.keys = append(c.keys, k)
	}
	sort.Strings(c.keys)
	for _, k := range c.keys {
		c.vals = append(c.vals, append([]byte{}, v.s.data[k]...))
	}
	return c, nil
}
func (c *snapCursor) Seek(prefix []byte) error {
	c.pos = sort.SearchStrings(c.keys, string(prefix))
	return nil
}
func (c *snapCursor) Next() ([]byte, []byte, error) {
	if c.v.r.intn(64) < c.v.yield {
		runtime.Gosched()
	}
	if c.pos >= len(c.keys) {
		return nil, nil, nil
	}
	k, v := c.keys[c.pos], c.vals[c.pos]
	c.pos++
	return []byte(k), append([]byte{}, v...), nil
}

// ---------------------------------------------------------------- canonical observables

func canonCol(c any) string {
	switch v := c.(type) {
	case nil:
		return "nil"
	case []byte:
		return "s:" + string(v)
	case string:
		return "s:" + v
	case bool:
		if v {
			return "b:true"
		}
		return "b:false"
	case int, int8, int16, int32, int64, uint, uint8, uint16, uint32, uint64:
		return fmt.Sprintf("i:%d", v)
	case float32:
		return fmt.Sprintf("f:%016x", math.Float64bits(float64(v)))
	case float64:
		return fmt.Sprintf("f:%016x", math.Float64bits(v))
	case []any:
		p := make([]string, len(v))
		for i, x := range v {
			p[i] = canonCol(x)
		}
		return "l:[" + strings.Join(p, ",") + "]"
	case []string:
		p := make([]string, len(v))
		for i, x := range v {
			p[i] = canonCol(x)
		}
		return "l:[" + strings.Join(p, ",") + "]"
	case []int64:
		p := make([]string, len(v))
		for i, x := range v {
			p[i] = canonCol(x)
		}
		return "l:[" + strings.Join(p, ",") + "]"
	case []float64:
		p := make([]string, len(v))
		for i, x := range v {
			p[i] = canonCol(x)
		}
		return "l:[" + strings.Join(p, ",") + "]"
	case kvql.JSON:
		return canonMap(map[string]any(v))
	case map[string]any:
		return canonMap(v)
	default:
		return fmt.Sprintf("?%T:%v", c, c)
	}
}

func canonMap(m map[string]any) string {
	ks := make([]string, 0, len(m))
	for k := range m {
		ks = append(ks, k)
	}
	sort.Strings(ks)
	p := make([]string, len(ks))
	for i, k := range ks {
		p[i] = fmt.Sprintf("%q:%s", k, canonCol(m[k]))
	}
	return "j:{" + strings.Join(p, ",") + "}"
}

func renderErr(q string, err error) string {
	class, pos := "other", -2
	var se *kvql.SyntaxError
	var ee *kvql.ExecuteError
	if errors.As(err, &se) {
		class, pos = "syntax", se.Pos
	} else if errors.As(err, &ee) {
		class, pos = "exec", ee.Pos
	}
	if qb, ok := err.(kvql.QueryBinder); ok {
		qb.BindQuery(q)
	}
	return fmt.Sprintf("%s@%d:%s", class, pos, err.Error())
}

const maxPolls = 20000

// runStmt: parse, plan, execute one statement with its own plan and execution context.
func runStmt(q string, st kvql.Storage, batch bool) (out string) {
	var b strings.Builder
	defer func() {
		if r := recover(); r != nil {
			out = b.String() + "|PANIC:" + fmt.Sprint(r)
		}
	}()
	opt := kvql.NewOptimizer(q)
	plan, err := opt.BuildPlan(st)
	if err != nil {
		return "builderr:" + renderErr(q, err)
	}
	b.WriteString("fields:" + strings.Join(plan.FieldNameList(), ","))
	b.WriteString(fmt.Sprint("|types:", plan.FieldTypeList()))
	b.WriteString("|explain:" + strings.Join(plan.Explain(), ";") + "|plan:" + plan.String())
	ctx := kvql.NewExecuteCtx()
	for i := 0; i < maxPolls; i++ {
		if batch {
			rows, err := plan.Batch(ctx)
			if err != nil {
				return b.String() + "|execerr:" + renderErr(q, err)
			}
			if len(rows) == 0 {
				return b.String() + "|end"
			}
			for _, row := range rows {
				b.WriteString("|row:")
				for _, c := range row {
					b.WriteString(canonCol(c) + "\x1f")
				}
			}
			ctx.Clear()
		} else {
			row, err := plan.Next(ctx)
			if err != nil {
				return b.String() + "|execerr:" + renderErr(q, err)
			}
			if row == nil {
				return b.String() + "|end"
			}
			b.WriteString("|row:")
			for _, c := range row {
				b.WriteString(canonCol(c) + "\x1f")
			}
		}
	}
	return b.String() + "|TIMEOUT"
}

func digest(parts []string) string {
	h := sha256.New()
	for _, p := range parts {
		h.Write([]byte(p))
		h.Write([]byte{0})
	}
	return hex.EncodeToString(h.Sum(nil))[:16]
}

// ---------------------------------------------------------------- statement generators

type stmt struct {
	Q     string `json:"q"`
	Batch bool   `json:"batch"`
}

func readonlyStore() [][2]string {
	kvs := [][2]string{}
	for i := 0; i < 40; i++ {
		kvs = append(kvs, [2]string{fmt.Sprintf("k%03d", i), fmt.Sprint((i*37)%101 - 7)})
	}
	for i := 0; i < 8; i++ {
		kvs = append(kvs, [2]string{fmt.Sprintf("j%02d", i), fmt.Sprintf(`{"a":%d,"b":"x%d","c":[%d,2]}`, i*3, i%3, i)})
		kvs = append(kvs, [2]string{fmt.Sprintf("c%02d", i), fmt.Sprintf("%d,%d,%d", i, i*2, 9-i)})
		kvs = append(kvs, [2]string{fmt.Sprintf("f%02d", i), fmt.Sprintf("%d.%d", i, 25*(i%4))})
	}
	kvs = append(kvs, [2]string{"", "emptykey"}, [2]string{"zz", ""})
	return kvs
}

var roFilters = []string{
	"key ^= 'k0'", "key = 'k005'", "key in ('k001', 'k007', 'zz', 'nokey')", "key between 'k010' and 'k020'",
	"key > 'k030'", "key <= 'k003'", "key >= 'j' & key < 'k'", "value = '17'", "key ^= 'k' & int(value) > 20",
	"value ~= '^1'", "key ~= '[0-9]5$'", "!(key ^= 'j')", "is_int(value)", "is_float(value)", "strlen(value) > 2",
	"upper(key) = 'K001'", "key ^= 'c' & split(value, ',')[1] = '2'", "key ^= 'j' & json(value)['b'] != 'x0'",
	"key ^= 'f' & float(value) * 2.0 > 5.5", "key ^= 'k01' | key ^= 'k02'", "key ^= 'k' & int(value) between 10 and 40",
	"key ^= 'k' & value in ('30', '67', '3')", "key != 'k000' & key ^= 'k00'", "lower(value) ^= 'e'",
	"key ^= 'k' & int(value) + 7 = 37", "key ^= 'k' & (int(value) * 3 - 1) / 2 > 40", "'k02' < key & key ^= 'k0'",
	"key = 'k001' | key = 'j01' | key = 'c01'", "substr(key, 0, 1) = 'c'", "key ^= 'j' & json(value)['b'] = 'x1'",
}
var roFields = []string{
	"*", "key", "key, value", "key, int(value) * 2 as d", "upper(key), strlen(value)", "key, substr(value, 0, 1)",
	"key, split(value, ',')", "key, json(value)['b']", "key, float(value) / 3", "lower(key) as lk, value",
	"key, is_float(value), is_int(value)", "key, len(split(value, ','))", "key, join(':', key, value)",
	"key, cosine_distance(list(1, 2, 3), list(2, 3, 4))", "key, l2_distance(list(1.5, 2), list(0, 4))",
	"key, str(int(value) + 1) + '!'", "key, int(value) as n, n * n", "key, ilist(1, 2, 3)[1]", "key, flist(1, 2)",
	"value, key", "key, 'lit', 42, 1.5, true", "key, value ^= '1', value ~= '7'", "key, split(value, ',')[0] as h",
}
var roAggr = []string{
	"count(1)", "sum(int(value))", "avg(int(value))", "min(int(value)), max(int(value))", "group_concat(key, ',')",
	"json_arrayagg(key)", "quantile(float(value), 0.5)", "count(1), sum(float(value)) as s", "max(strlen(value))",
}
var roOrder = []string{"", "", " order by key desc", " order by value", " order by value desc, key", " order by key asc"}
var roLimit = []string{"", "", " limit 5", " limit 3, 4", " limit 32, 3", " limit 0", " limit 100"}

// fresh literals per statement, so that state keyed by literals or query text (a compiled-regexp
// cache, a plan cache) is not warmed by earlier statements
func freshFilter(r *rng) string {
	d := r.intn(10)
	switch r.intn(6) {
	case 0:
		return fmt.Sprintf("value ~= '^%d'", d)
	case 1:
		return fmt.Sprintf("key ~= '[0-9]%d$'", d)
	case 2:
		return fmt.Sprintf("key ~= '^k[0-%d]' & value ~= '%d'", d, r.intn(10))
	case 3:
		return fmt.Sprintf("key ^= 'k' & int(value) > %d", r.intn(90))
	case 4:
		return fmt.Sprintf("key ^= 'k0%d'", d)
	default:
		return fmt.Sprintf("key between 'k0%d' and 'k0%d%d'", r.intn(3), 1+r.intn(3), d)
	}
}

func genReadonly(r *rng) string {
	f := pick(r, roFilters)
	if r.chance(1, 3) {
		f = freshFilter(r)
	}
	switch r.intn(4) {
	case 0:
		f = "(" + f + ") & (" + pick(r, roFilters) + ")"
	case 1:
		f = "(" + f + ") | (" + pick(r, roFilters) + ")"
	}
	switch r.intn(10) {
	case 0, 1:
		return "select " + pick(r, roAggr) + " where " + f
	case 2:
		return "select substr(key, 0, 1) as p, " + pick(r, roAggr) + " where " + f + " group by p" + pick(r, roLimit)
	case 3:
		return "select substr(key, 0, 2) as p, " + pick(r, roAggr) + " where " + f + " group by p order by p desc" + pick(r, roLimit)
	case 4:
		return "select " + pick(r, roFields) + " where true" + pick(r, roLimit)
	default:
		fl := pick(r, roFields)
		ord := ""
		switch {
		case fl == "*" || fl == "key, value" || fl == "value, key":
			ord = pick(r, roOrder)
		case strings.HasPrefix(fl, "key,") || fl == "key":
			ord = pick(r, []string{"", "", " order by key desc", " order by key"})
		}
		return "select " + fl + " where " + f + ord + pick(r, roLimit)
	}
}

// damaged and ill-typed statements: error construction, positions and rendering
var errPool = []string{
	"select * where", "select * where key ^= ", "select * whre key = 'a'", "put ('a')", "select * where key = 'a' limit x",
	"select * where key + 1 = 2", "select int(value) + 'x' where key ^= 'k'", "select foo(key) where key ^= 'k'",
	"select * where int(value) / 0 > 1 & key ^= 'k'", "select * where key ^= 'k' & value", "select upper(key, key) where true",
	"select key where key in 'a'", "select * where key between 'a'", "select sum(key) where key ^= 'k' group by",
	"delete where", "remove", "select * where key = 'a' order by", "select * where (key = 'a'", "select * where key = 'a')",
	"select * where key ~= '['", "select * where key ^= 'k' & json(value)['a']['b'] = 1", "select key, where true",
	"                                          select * where key ^= 'k' & value ++ 1",
	"select * where key ^= 'k' & split(value)[0] = '1'", "select * where key ^= 'k' & substr(value, 2, 1) = '1'",
	"select count(1), key where key ^= 'k'", "select * where key = 'a' limit 1, 2, 3", "select * where 'abc'",
	"select * where key ^= 'k' & int(value) > 'a'", "select * where !key", "select * where key = 1", "select join() where true",
}

func genError(r *rng) string {
	switch r.intn(5) {
	case 0, 1:
		return pick(r, errPool)
	case 2: // truncate a valid statement
		q := genReadonly(r)
		return q[:r.intn(len(q)+1)]
	case 3: // drop a token
		toks := strings.Fields(genReadonly(r))
		i := r.intn(len(toks))
		return strings.Join(append(append([]string{}, toks[:i]...), toks[i+1:]...), " ")
	default: // long statement: trimmed rendering with "..." on both sides
		return "select * where " + strings.Repeat("key != 'x' & ", 6+r.intn(6)) + pick(r, []string{"key ^ 1", "foo(1)", "key = ", "1 +", "value"})
	}
}

func partKey(g int, name string) string { return fmt.Sprintf("g%02d_%s", g, name) }

var partNames = []string{"a", "b", "c", "d", "e", "f", "h", "i"}

func writersStore(n int) [][2]string {
	kvs := [][2]string{{"shared_a", "1"}, {"shared_b", "2"}, {"a_before", "x"}, {"zz_after", "y"}}
	for g := 0; g < n; g++ {
		for i, nm := range partNames[:5] {
			kvs = append(kvs, [2]string{partKey(g, nm), fmt.Sprintf("v%d", (g+i)%4)})
		}
	}
	return kvs
}

func keyList(r *rng, g int, n int) string {
	ks := []string{}
	for i := 0; i < n; i++ {
		ks = append(ks, "'"+partKey(g, pick(r, partNames))+"'")
	}
	return strings.Join(ks, ", ")
}

// statements confined to goroutine g's key partition (prefix gNN_); scans allowed
func genWriter(r *rng, g int) string {
	pfx := fmt.Sprintf("g%02d_", g)
	switch r.intn(12) {
	case 0, 1:
		kvs := []string{}
		for i := 0; i <= r.intn(3); i++ {
			kvs = append(kvs, fmt.Sprintf("('%s', 'v%d')", partKey(g, pick(r, partNames)), r.intn(5)))
		}
		return "put " + strings.Join(kvs, ", ")
	case 2:
		return fmt.Sprintf("put ('%s', upper('w') + 'x%d')", partKey(g, pick(r, partNames)), r.intn(3))
	case 3:
		return "remove " + keyList(r, g, 1+r.intn(2))
	case 4:
		return fmt.Sprintf("delete where key ^= '%s' & value = 'v%d'", pfx, r.intn(4))
	case 5:
		return "delete where key in (" + keyList(r, g, 1+r.intn(3)) + ")"
	case 6:
		return fmt.Sprintf("delete where key ^= '%s' limit %d", pfx, 1+r.intn(2))
	case 7:
		return fmt.Sprintf("select * where key ^= '%s'", pfx)
	case 8:
		return fmt.Sprintf("select count(1), group_concat(value, ',') where key ^= '%s'", pfx)
	case 9:
		return fmt.Sprintf("select * where key = '%s'", partKey(g, pick(r, partNames)))
	case 10:
		return "select key, value where key in (" + keyList(r, g, 2+r.intn(2)) + ") order by value desc, key"
	default:
		return fmt.Sprintf("select key, value where key ^= '%s' & value != 'v0' order by key desc limit 3", pfx)
	}
}

// statements whose storage traffic is Get / Put / BatchPut / Delete / BatchDelete only
func genPointop(r *rng, g int) string {
	switch r.intn(8) {
	case 0, 1:
		kvs := []string{}
		for i := 0; i <= r.intn(3); i++ {
			kvs = append(kvs, fmt.Sprintf("('%s', 'v%d')", partKey(g, pick(r, partNames)), r.intn(5)))
		}
		return "put " + strings.Join(kvs, ", ")
	case 2:
		return "remove " + keyList(r, g, 1+r.intn(2))
	case 3:
		return "delete where key in (" + keyList(r, g, 1+r.intn(3)) + ")"
	case 4:
		return fmt.Sprintf("delete where key = '%s'", partKey(g, pick(r, partNames)))
	case 5:
		return fmt.Sprintf("select * where key = '%s'", partKey(g, pick(r, partNames)))
	case 6: // read a shared key nobody writes
		return fmt.Sprintf("select key, value where key in ('shared_a', '%s', 'shared_b')", partKey(g, pick(r, partNames)))
	default:
		return "select key, value where key in (" + keyList(r, g, 2+r.intn(2)) + ")"
	}
}

// ---------------------------------------------------------------- runs

type diffRec struct {
	G     int    `json:"goroutine"`
	I     int    `json:"stmt_index"`
	Q     string `json:"query"`
	Batch bool   `json:"batch_mode"`
	Alone string `json:"alone"`
	Conc  string `json:"concurrent"`
}

type runOut struct {
	ID         int       `json:"id"`
	Workload   string    `json:"workload"`
	N          int       `json:"goroutines"`
	GoMaxProcs int       `json:"gomaxprocs"`
	Seed       uint64    `json:"seed"`
	BatchSize  int       `json:"plan_batch_size"`
	Cache      bool      `json:"field_cache"`
	Stmts      int       `json:"statements"`
	Alone      []string  `json:"alone"`
	Conc       []string  `json:"conc"`
	Diffs      []diffRec `json:"diffs,omitempty"`
	Unstable   int       `json:"unstable_alone"` // statements whose two solo runs differed (excluded)
	Errors     int       `json:"error_statements"`
	Panics     int       `json:"panic_statements"`
	Rows       int       `json:"rows"`
	Lists      [][]stmt  `json:"lists,omitempty"` // only when something differed
	FinalDiff  []string  `json:"final_store_diff,omitempty"`
	// pointops only
	Init      [][2]string `json:"init,omitempty"`
	LogAlone  [][]opRec   `json:"log_alone,omitempty"`
	LogConc   [][]opRec   `json:"log_conc,omitempty"`
	Sched     []int       `json:"sched,omitempty"`
	Final     [][2]string `json:"final,omitempty"`
	HasCursor bool        `json:"has_cursor,omitempty"`
}

// runList executes one goroutine's list; returns the per-statement observables.
func runList(list []stmt, st kvql.Storage) []string {
	out := make([]string, len(list))
	for i, s := range list {
		out[i] = runStmt(s.Q, st, s.Batch)
	}
	return out
}

func restrict(pairs [][2]string, pfx string) string {
	var b strings.Builder
	for _, kv := range pairs {
		if strings.HasPrefix(kv[0], pfx) {
			b.WriteString(kv[0] + "=" + kv[1] + ";")
		}
	}
	return b.String()
}

func oneRun(id int, workload string, seed uint64, nstmts int) runOut {
	r := newRng(seed)
	n := 2 + r.intn(15) // 2..16
	procsChoices := []int{1, 2, 3, 4, 8, 16, runtime.NumCPU()}
	procs := procsChoices[r.intn(len(procsChoices))]
	ro := runOut{ID: id, Workload: workload, N: n, GoMaxProcs: procs, Seed: seed}
	ro.BatchSize = []int{1, 2, 3, 5, 32}[r.intn(5)]
	ro.Cache = r.chance(3, 4)
	// the three switches are written here, while no statement is running (go statements and
	// WaitGroup.Wait order these writes before / after every goroutine of the run)
	kvql.PlanBatchSize = ro.BatchSize
	kvql.EnableFieldCache = ro.Cache
	kvql.DefaultErrorPadding = []int{7, 7, 0, 3}[r.intn(4)]

	shared := workload == "readonly" || workload == "errors" || workload == "mixed" || workload == "sametext"
	var init [][2]string
	if shared {
		init = readonlyStore()
	} else {
		init = writersStore(n)
	}
	lists := make([][]stmt, n)
	var common []stmt
	if workload == "sametext" {
		// ONE list of statement texts for the whole run (aggregates over several groups, ORDER BY +
		// LIMIT, field names, failing statements): every goroutine runs these very texts, goroutines
		// 2j and 2j+1 in the same order (the same text in flight twice at the same moment), the
		// pairs rotated against each other (the same text in flight at different stages)
		cr := newRng(seed*1000003 + 5)
		k := nstmts/2 + cr.intn(nstmts/2+1)
		for i := 0; i < k; i++ {
			var q string
			switch cr.intn(6) {
			case 0:
				q = genError(cr)
			case 1, 2:
				q = "select substr(key, 0, " + pick(cr, []string{"1", "2", "3"}) + ") as p, " + pick(cr, roAggr) + ", count(1) as c, sum(strlen(value)) / count(1) as m where " + pick(cr, roFilters) + " group by p" + pick(cr, []string{"", " order by m desc, p", " order by c, p desc limit 1, 8", " limit 2, 5"})
			default:
				q = genReadonly(cr)
			}
			common = append(common, stmt{Q: q, Batch: cr.chance(1, 2)})
		}
	}
	for g := 0; g < n; g++ {
		gr := newRng(seed*1000003 + uint64(g)*7919 + 13)
		if workload == "sametext" {
			rot := (g / 2) % len(common)
			for rep := 0; rep < 2; rep++ {
				for i := range common {
					st := common[(i+rot)%len(common)]
					if rep == 1 {
						st.Batch = !st.Batch
					}
					lists[g] = append(lists[g], st)
					ro.Stmts++
				}
			}
			continue
		}
		k := nstmts/2 + gr.intn(nstmts/2+1)
		for i := 0; i < k; i++ {
			var q string
			switch workload {
			case "readonly":
				q = genReadonly(gr)
			case "errors":
				q = genError(gr)
			case "mixed":
				if gr.chance(1, 3) {
					q = genError(gr)
				} else {
					q = genReadonly(gr)
				}
			case "writers":
				q = genWriter(gr, g)
			case "pointops":
				q = genPointop(gr, g)
			}
			lists[g] = append(lists[g], stmt{Q: q, Batch: gr.chance(1, 2)})
			ro.Stmts++
		}
	}
	yield := r.intn(5)

	// ---- concurrently FIRST: lazily initialised shared state (a cache, a memo table, a pool)
	// must be cold when the goroutines meet; the solo baseline is taken afterwards
	var sharedStore *lockedStore
	if shared {
		sharedStore = newLockedStore(init)
	}
	var st *lockedStore
	if shared {
		st = sharedStore
	} else {
		st = newLockedStore(init)
		st.logOn = workload == "pointops"
	}
	conc := make([][]string, n)
	prev := runtime.GOMAXPROCS(procs)
	fmt.Fprintf(os.Stderr, "C19RUN %d\n", id)
	var wg sync.WaitGroup
	start := make(chan struct{})
	for g := 0; g < n; g++ {
		wg.Add(1)
		go func(g int) {
			defer wg.Done()
			v := &view{s: st, g: g, r: newRng(seed*31 + uint64(g)), yield: yield}
			<-start
			conc[g] = runList(lists[g], v)
		}(g)
	}
	close(start)
	wg.Wait()
	fmt.Fprintf(os.Stderr, "C19END %d\n", id)
	runtime.GOMAXPROCS(prev)

	// ---- alone, after the concurrent phase (twice: a statement whose two solo runs differ is not deterministic on its own
	// and is excluded from the comparison)
	alone := make([][]string, n)
	alone2 := make([][]string, n)
	aloneFinal := make([]string, n)
	logAlone := make([][]opRec, n)
	for g := 0; g < n; g++ {
		for pass := 0; pass < 2; pass++ {
			ast := sharedStore
			if !shared {
				ast = newLockedStore(init)
				ast.logOn = workload == "pointops" && pass == 0
			}
			v := &view{s: ast, g: g, r: newRng(seed + uint64(g)), yield: 0}
			res := runList(lists[g], v)
			if pass == 0 {
				alone[g] = res
				if !shared {
					aloneFinal[g] = restrict(ast.pairs(), fmt.Sprintf("g%02d_", g))
					logAlone[g] = ast.log
				}
			} else {
				alone2[g] = res
			}
		}
	}

	// ---- compare
	differs := false
	for g := 0; g < n; g++ {
		var pa, pc []string
		for i := range lists[g] {
			if alone[g][i] != alone2[g][i] {
				ro.Unstable++
				continue
			}
			a, c := alone[g][i], conc[g][i]
			if strings.Contains(a, "err:") {
				ro.Errors++
			}
			if strings.Contains(a, "|PANIC:") {
				ro.Panics++
			}
			ro.Rows += strings.Count(a, "|row:")
			pa = append(pa, a)
			pc = append(pc, c)
			if a != c {
				differs = true
				if len(ro.Diffs) < 4 {
					ro.Diffs = append(ro.Diffs, diffRec{G: g, I: i, Q: lists[g][i].Q, Batch: lists[g][i].Batch, Alone: clip(a), Conc: clip(c)})
				}
			}
		}
		if !shared {
			cf := restrict(st.pairs(), fmt.Sprintf("g%02d_", g))
			pa = append(pa, "final:"+aloneFinal[g])
			pc = append(pc, "final:"+cf)
			if cf != aloneFinal[g] {
				differs = true
				ro.FinalDiff = append(ro.FinalDiff, fmt.Sprintf("partition g%02d_: alone {%s} concurrent {%s}", g, aloneFinal[g], cf))
			}
		}
		ro.Alone = append(ro.Alone, digest(pa))
		ro.Conc = append(ro.Conc, digest(pc))
	}
	if !shared {
		// keys outside every partition must be untouched
		rest := func(p [][2]string) string {
			var b strings.Builder
			for _, kv := range p {
				if !(len(kv[0]) > 3 && kv[0][0] == 'g' && kv[0][3] == '_') {
					b.WriteString(kv[0] + "=" + kv[1] + ";")
				}
			}
			return b.String()
		}
		sorted := append([][2]string{}, init...)
		sort.Slice(sorted, func(i, j int) bool { return sorted[i][0] < sorted[j][0] })
		if a, c := rest(sorted), rest(st.pairs()); a != c {
			differs = true
			ro.FinalDiff = append(ro.FinalDiff, "keys outside the partitions changed: "+c)
			ro.Conc[0] = "x" + ro.Conc[0][1:]
		}
	}
	if differs {
		ro.Lists = lists
	}
	if workload == "pointops" {
		ro.Init = init
		ro.LogAlone = logAlone
		ro.LogConc = make([][]opRec, n)
		for _, rec := range st.log {
			if rec.Op == "cursor" {
				ro.HasCursor = true
			}
			ro.LogConc[rec.G] = append(ro.LogConc[rec.G], rec)
			ro.Sched = append(ro.Sched, rec.G)
		}
		for g := range logAlone {
			for _, rec := range logAlone[g] {
				if rec.Op == "cursor" {
					ro.HasCursor = true
				}
			}
		}
		ro.Final = st.pairs()
	}
	return ro
}

func clip(s string) string {
	if len(s) > 600 {
		return s[:600] + "...(" + fmt.Sprint(len(s)) + " bytes)"
	}
	return s
}

type output struct {
	Race    bool     `json:"race_enabled"`
	GoVer   string   `json:"go_version"`
	NumCPU  int      `json:"num_cpu"`
	Seed    uint64   `json:"seed"`
	Runs    []runOut `json:"runs"`
	Elapsed float64  `json:"elapsed_s"`
}

func main() {
	seed := flag.Uint64("seed", 1, "seed")
	runs := flag.Int("runs", 8, "runs per workload")
	nstmts := flag.Int("stmts", 12, "statements per goroutine (upper bound)")
	wl := flag.String("workloads", "readonly,errors,mixed,writers,pointops", "comma-separated workloads")
	only := flag.Int("only", -1, "execute only the run with this id (replay)")
	flag.Parse()
	out := output{Race: raceEnabled, GoVer: runtime.Version(), NumCPU: runtime.NumCPU(), Seed: *seed}
	id := 0
	for _, w := range strings.Split(*wl, ",") {
		for k := 0; k < *runs; k++ {
			s := *seed*1000 + uint64(id)
			if *only < 0 || *only == id {
				out.Runs = append(out.Runs, oneRun(id, w, s, *nstmts))
			}
			id++
		}
	}
	enc := json.NewEncoder(os.Stdout)
	if err := enc.Encode(out); err != nil {
		fmt.Fprintln(os.Stderr, "encode:", err)
		os.Exit(3)
	}
}
